(* Proofs/C09_proofs.v -- lemmas for C09 (Gather returns a valid, consistent, complete-or-reported result). *)
From Coq Require Import ZArith List Bool Lia Permutation.
From Verif Require Import Base.Str Proofs.Str_facts Model.Gather.
Import ListNotations.
Open Scope Z_scope.

(* ------------------------------------------------------------------ *)
(* byte-string order                                                   *)
(* ------------------------------------------------------------------ *)
Lemma str_ltb_irrefl a : str_ltb a a = false.
Proof. induction a as [|x a IH]; simpl; [reflexivity|]. rewrite Z.ltb_irrefl. exact IH. Qed.

Lemma str_ltb_trich a b : str_ltb a b = false -> str_ltb b a = false -> a = b.
Proof.
  revert b; induction a as [|x a IH]; intros [|y b]; simpl; intros H1 H2; try discriminate; [reflexivity|].
  destruct (x <? y) eqn:E1; [discriminate|]. destruct (y <? x) eqn:E2; [discriminate|].
  apply Z.ltb_ge in E1. apply Z.ltb_ge in E2. assert (x = y) by lia. subst. f_equal. apply IH; assumption.
Qed.

Lemma str_ltb_asym a b : str_ltb a b = true -> str_ltb b a = false.
Proof.
  revert b; induction a as [|x a IH]; intros [|y b]; simpl; intros H; try discriminate; [reflexivity|].
  destruct (x <? y) eqn:E1.
  - apply Z.ltb_lt in E1. destruct (y <? x) eqn:E2; [apply Z.ltb_lt in E2; lia|reflexivity].
  - destruct (y <? x) eqn:E2; [discriminate|]. apply IH. exact H.
Qed.

Lemma str_ltb_trans a b c : str_ltb a b = true -> str_ltb b c = true -> str_ltb a c = true.
Proof.
  revert b c; induction a as [|x a IH]; intros [|y b] [|z c]; simpl; intros H1 H2; try discriminate; try reflexivity.
  destruct (x <? y) eqn:E1.
  - apply Z.ltb_lt in E1. destruct (y <? z) eqn:E2.
    + apply Z.ltb_lt in E2. assert (x <? z = true) as -> by (apply Z.ltb_lt; lia). reflexivity.
    + destruct (z <? y) eqn:E3; [discriminate|]. apply Z.ltb_ge in E2. apply Z.ltb_ge in E3.
      assert (x <? z = true) as -> by (apply Z.ltb_lt; lia). reflexivity.
  - destruct (y <? x) eqn:E1'; [discriminate|]. apply Z.ltb_ge in E1. apply Z.ltb_ge in E1'. assert (x = y) by lia. subst y.
    destruct (x <? z) eqn:E2; [reflexivity|]. destruct (z <? x) eqn:E3; [discriminate|]. eapply IH; eassumption.
Qed.

Lemma str_ltb_neq_total a b : a <> b -> str_ltb a b = false -> str_ltb b a = true.
Proof.
  intros N H. destruct (str_ltb b a) eqn:E; [reflexivity|]. exfalso. apply N. apply str_ltb_trich; assumption.
Qed.

Lemma str_in_false s l : str_in s l = false <-> ~ In s l.
Proof.
  split; intros H.
  - intros I. apply str_in_In in I. congruence.
  - destruct (str_in s l) eqn:E; [apply str_in_In in E; contradiction|reflexivity].
Qed.

(* ------------------------------------------------------------------ *)
(* insertion sort                                                      *)
(* ------------------------------------------------------------------ *)
Section SortFacts.
  Context {A : Type} (ltb : A -> A -> bool).

  Lemma insert_perm x l : Permutation (insert ltb x l) (x :: l).
  Proof.
    induction l as [|y r IH]; simpl; [reflexivity|].
    destruct (ltb y x); [|reflexivity].
    rewrite IH. apply perm_swap.
  Qed.

  Lemma isort_perm l : Permutation (isort ltb l) l.
  Proof.
    induction l as [|x r IH]; simpl; [reflexivity|].
    rewrite insert_perm. constructor. exact IH.
  Qed.

  Lemma isort_sorted_id l : is_sorted ltb l = true -> isort ltb l = l.
  Proof.
    induction l as [|x r IH]; simpl; [reflexivity|].
    destruct r as [|y r'].
    - reflexivity.
    - intros H. apply andb_true_iff in H. destruct H as [H1 H2].
      change (fold_right (insert ltb) [] (y :: r')) with (isort ltb (y :: r')). rewrite (IH H2).
      simpl. apply negb_true_iff in H1. rewrite H1. reflexivity.
  Qed.
End SortFacts.

Section KeySort.
  Context {A : Type} (key : A -> str).
  Let kltb (a b : A) : bool := str_ltb (key a) (key b).

  Lemma insert_key_strict x s :
    strictly_sorted (map key s) = true -> ~ In (key x) (map key s) ->
    strictly_sorted (map key (insert kltb x s)) = true.
  Proof.
    induction s as [|y s IH]; intros S N; [reflexivity|].
    simpl insert. unfold kltb at 1. destruct (str_ltb (key y) (key x)) eqn:E.
    - assert (S' : strictly_sorted (map key s) = true).
      { simpl in S. destruct (map key s); [reflexivity|]. apply andb_true_iff in S. apply S. }
      assert (N' : ~ In (key x) (map key s)) by (intros I; apply N; right; exact I).
      specialize (IH S' N').
      destruct s as [|z s'].
      + simpl. rewrite E. reflexivity.
      + simpl insert in *. unfold kltb at 1 in IH. unfold kltb at 1.
        destruct (str_ltb (key z) (key x)) eqn:E2.
        * simpl map in *. simpl strictly_sorted. simpl strictly_sorted in S.
          apply andb_true_iff in S. destruct S as [S1 _]. rewrite S1. exact IH.
        * simpl map in *. simpl strictly_sorted. rewrite E. exact IH.
    - simpl map. simpl strictly_sorted. simpl map in S.
      assert (str_ltb (key x) (key y) = true) as ->.
      { apply str_ltb_neq_total; [|exact E]. intros Q. apply N. left. exact Q. }
      exact S.
  Qed.

  Lemma isort_key_strict l : NoDup (map key l) -> strictly_sorted (map key (isort kltb l)) = true.
  Proof.
    induction l as [|x r IH]; intros N; [reflexivity|].
    simpl. inversion N; subst. apply insert_key_strict; [apply IH; assumption|].
    intros I. apply H1. eapply Permutation_in; [|exact I]. apply Permutation_map. apply isort_perm.
  Qed.
End KeySort.

Lemma strictly_sorted_tail x l : strictly_sorted (x :: l) = true -> strictly_sorted l = true.
Proof. simpl. destruct l; [reflexivity|]. intros H. apply andb_true_iff in H. apply H. Qed.

Lemma strictly_sorted_lt_all x l : strictly_sorted (x :: l) = true -> Forall (fun y => str_ltb x y = true) l.
Proof.
  revert x; induction l as [|y l IH]; intros x H; constructor.
  - simpl in H. apply andb_true_iff in H. apply H.
  - assert (H' := H). simpl in H. apply andb_true_iff in H. destruct H as [H1 H2].
    specialize (IH y H2). eapply Forall_impl; [|exact IH]. intros z Hz. eapply str_ltb_trans; eassumption.
Qed.

Lemma strictly_sorted_nodup l : strictly_sorted l = true -> NoDup l.
Proof.
  induction l as [|x l IH]; intros H; constructor.
  - intros I. pose proof (strictly_sorted_lt_all _ _ H) as F. rewrite Forall_forall in F.
    specialize (F _ I). rewrite str_ltb_irrefl in F. discriminate.
  - apply IH. eapply strictly_sorted_tail; exact H.
Qed.

(* ------------------------------------------------------------------ *)
(* equality tests                                                      *)
(* ------------------------------------------------------------------ *)
Lemma labels_eqb_eq a b : labels_eqb a b = true <-> a = b.
Proof.
  revert b; induction a as [|[n v] a IH]; intros [|[n' v'] b]; simpl; split; intros H; try discriminate; try reflexivity.
  - apply andb_true_iff in H. destruct H as [H H3]. apply andb_true_iff in H. destruct H as [H1 H2].
    apply str_eqb_eq in H1. apply str_eqb_eq in H2. apply IH in H3. subst. reflexivity.
  - inversion H; subst. rewrite !str_eqb_refl. simpl. apply IH. reflexivity.
Qed.

Lemma optz_eqb_eq a b : optz_eqb a b = true <-> a = b.
Proof.
  destruct a, b; simpl; split; intros H; try discriminate; try reflexivity.
  - apply Z.eqb_eq in H. subst. reflexivity.
  - inversion H. apply Z.eqb_refl.
Qed.

Lemma series_eqb_eq a b : series_eqb a b = true <-> a = b.
Proof.
  destruct a as [[n l] t], b as [[n' l'] t']. simpl. split; intros H.
  - apply andb_true_iff in H. destruct H as [H H3]. apply andb_true_iff in H. destruct H as [H1 H2].
    apply str_eqb_eq in H1. apply labels_eqb_eq in H2. apply optz_eqb_eq in H3. subst. reflexivity.
  - inversion H; subst. rewrite str_eqb_refl. rewrite (proj2 (labels_eqb_eq l' l') eq_refl).
    rewrite (proj2 (optz_eqb_eq t' t') eq_refl). reflexivity.
Qed.

Lemma distinct_of_nodup {A} (eqb : A -> A -> bool) (l : list A) :
  (forall a b, eqb a b = true -> a = b) -> NoDup l -> distinct eqb l = true.
Proof.
  intros E. induction l as [|x r IH]; intros N; [reflexivity|].
  inversion N; subst. simpl. rewrite IH by assumption. rewrite andb_true_r.
  apply negb_true_iff. destruct (existsb (eqb x) r) eqn:X; [|reflexivity].
  apply existsb_exists in X. destruct X as (y & Iy & Ey). apply E in Ey. subst. contradiction.
Qed.

Lemma nodup_of_distinct {A} (eqb : A -> A -> bool) (l : list A) :
  (forall a, eqb a a = true) -> distinct eqb l = true -> NoDup l.
Proof.
  intros R. induction l as [|x r IH]; intros D; constructor.
  - simpl in D. apply andb_true_iff in D. destruct D as [D _]. apply negb_true_iff in D.
    intros I. assert (existsb (eqb x) r = true) by (apply existsb_exists; exists x; auto). congruence.
  - simpl in D. apply andb_true_iff in D. apply IH. apply D.
Qed.

(* ------------------------------------------------------------------ *)
(* keys, headers, the association list                                 *)
(* ------------------------------------------------------------------ *)
Definition key_series (s : series) : str :=
  let '(n, l, t) := s in
  n ++ sep :: flat_map (fun l : label => fst l ++ sep :: snd l ++ [sep]) l ++
  match t with Some t => decimal t ++ [sep] | None => [] end.

Definition key_of (nm : str * dmetric) : str := metric_key (fst nm) (snd nm).

Lemma key_of_series nm : key_of nm = key_series (series_of nm).
Proof. reflexivity. Qed.

Definition hdr (f : family) : str * Z := (f_name f, f_type f).

(* the family (bn, bt) owns the derived series name n *)
Definition collides (bn : str) (bt : Z) (n : str) : bool :=
  (((bt =? ty_summary) || (bt =? ty_histogram)) && (str_eqb n (bn ++ suf_count) || str_eqb n (bn ++ suf_sum)))
  || ((bt =? ty_histogram) && str_eqb n (bn ++ suf_bucket)).

Definition suffix_free (hs : list (str * Z)) : Prop :=
  forall b n, In b hs -> In n (map fst hs) -> collides (fst b) (snd b) n = false.

Lemma map_fst_hdr fs : map fst (map hdr fs) = map f_name fs.
Proof. rewrite map_map. reflexivity. Qed.

Lemma find_fam_some n fs f : find_fam n fs = Some f -> In f fs /\ f_name f = n.
Proof.
  induction fs as [|g r IH]; simpl; [discriminate|].
  destruct (str_eqb (f_name g) n) eqn:E.
  - intros H. inversion H; subst. apply str_eqb_eq in E. auto.
  - intros H. destruct (IH H). auto.
Qed.

Lemma find_fam_none n fs : find_fam n fs = None -> ~ In n (map f_name fs).
Proof.
  induction fs as [|g r IH]; simpl; [auto|].
  destruct (str_eqb (f_name g) n) eqn:E; [discriminate|].
  intros H [Q|Q]; [apply str_eqb_neq in E; contradiction|]. exact (IH H Q).
Qed.

Lemma find_fam_in n fs : In n (map f_name fs) -> exists f, find_fam n fs = Some f.
Proof.
  induction fs as [|g r IH]; simpl; [contradiction|].
  destruct (str_eqb (f_name g) n) eqn:E; [eauto|].
  intros [Q|Q]; [apply str_eqb_neq in E; contradiction|]. exact (IH Q).
Qed.

Lemma find_fam_nodup fs f : NoDup (map f_name fs) -> In f fs -> find_fam (f_name f) fs = Some f.
Proof.
  induction fs as [|g r IH]; simpl; [contradiction|].
  intros N I. inversion N; subst.
  destruct I as [I|I].
  - subst. rewrite str_eqb_refl. reflexivity.
  - destruct (str_eqb (f_name g) (f_name f)) eqn:E.
    + apply str_eqb_eq in E. exfalso. apply H1. rewrite E. apply in_map. exact I.
    + apply IH; assumption.
Qed.

Lemma has_fam_in n fs : In n (map f_name fs) -> has_fam n fs = true.
Proof. intros I. unfold has_fam. destruct (find_fam_in _ _ I) as [f ->]. reflexivity. Qed.

Lemma add_metric_hdr n m fs : map hdr (add_metric n m fs) = map hdr fs.
Proof.
  induction fs as [|g r IH]; simpl; [reflexivity|].
  destruct (str_eqb (f_name g) n); simpl; [reflexivity|]. rewrite IH. reflexivity.
Qed.

Lemma add_metric_names n m fs : map f_name (add_metric n m fs) = map f_name fs.
Proof. rewrite <- !map_fst_hdr. rewrite add_metric_hdr. reflexivity. Qed.

Lemma add_metric_all n m fs :
  In n (map f_name fs) -> Permutation (all_metrics (add_metric n m fs)) ((n, m) :: all_metrics fs).
Proof.
  induction fs as [|g r IH]; simpl; [contradiction|].
  destruct (str_eqb (f_name g) n) eqn:E.
  - intros _. apply str_eqb_eq in E. unfold all_metrics. simpl. rewrite map_app. simpl. rewrite E.
    rewrite <- app_assoc. simpl. symmetry. apply Permutation_middle.
  - intros [Q|Q]; [apply str_eqb_neq in E; contradiction|].
    unfold all_metrics in *. simpl. rewrite (IH Q). symmetry. apply Permutation_middle.
Qed.

Lemma all_metrics_app a b : all_metrics (a ++ b) = all_metrics a ++ all_metrics b.
Proof. unfold all_metrics. apply flat_map_app. Qed.

(* ------------------------------------------------------------------ *)
(* checkMetricConsistency                                              *)
(* ------------------------------------------------------------------ *)
Definition fam_ok (lg : bool) (f : family) : Prop :=
  Forall (fun m => metric_ok lg (f_type f) m = true) (f_metrics f).

Lemma add_metric_ok lg n m fs f :
  find_fam n fs = Some f -> metric_ok lg (f_type f) m = true ->
  Forall (fam_ok lg) fs -> Forall (fam_ok lg) (add_metric n m fs).
Proof.
  induction fs as [|g r IH]; simpl; [discriminate|].
  destruct (str_eqb (f_name g) n) eqn:E.
  - intros H M F. inversion H; subst. inversion F; subst. constructor; [|assumption].
    unfold fam_ok in *. simpl. apply Forall_app. split; [assumption|]. constructor; [assumption|constructor].
  - intros H M F. inversion F; subst. constructor; [assumption|]. apply IH; assumption.
Qed.

Lemma label_name_ok_check lg n : label_name_ok lg n = check_label_name lg n.
Proof. destruct n; reflexivity. Qed.

Lemma check_labels_none lg s h seen ls :
  check_labels lg s h seen ls = None ->
  NoDup (map fst ls) /\ (forall n, In n (map fst ls) -> ~ In n seen) /\
  Forall (fun l : label => check_label_name lg (fst l) = true /\ utf8_valid (snd l) = true /\
                           (s = true -> fst l <> quantile_label) /\ (h = true -> fst l <> bucket_label)) ls.
Proof.
  revert seen; induction ls as [|[n v] r IH]; intros seen H.
  - simpl. repeat split; [constructor|intros ? []|constructor].
  - simpl in H.
    destruct (str_in n seen) eqn:E1; [discriminate|].
    destruct (check_label_name lg n) eqn:E2; [|discriminate]. simpl in H.
    destruct (s && str_eqb n quantile_label) eqn:E3; [discriminate|].
    destruct (h && str_eqb n bucket_label) eqn:E4; [discriminate|].
    destruct (utf8_valid v) eqn:E5; [|discriminate]. simpl in H.
    destruct (IH _ H) as (N & S & F).
    apply str_in_false in E1.
    repeat split.
    + simpl. constructor; [|exact N]. intros I. apply (S _ I). left. reflexivity.
    + simpl. intros x [Q|Q]; [subst; exact E1|]. intros I. apply (S _ Q). right. exact I.
    + constructor; [|exact F]. simpl. repeat split; try assumption.
      * intros -> Q. rewrite Q in E3. rewrite str_eqb_refl in E3. discriminate.
      * intros -> Q. rewrite Q in E4. rewrite str_eqb_refl in E4. discriminate.
Qed.

Lemma payload_for_set_labels ty m ls : payload_for ty (set_labels m ls) = payload_for ty m.
Proof. reflexivity. Qed.

Lemma sort_labels_isort ls : sort_labels ls = isort label_lt ls.
Proof.
  unfold sort_labels. destruct (is_sorted label_lt ls) eqn:E; [|reflexivity].
  symmetry. apply isort_sorted_id. exact E.
Qed.

Lemma type_matches_in_range ty m :
  0 <= ty <= 4 -> payload_for ty m <> Some false -> type_matches ty m = true.
Proof.
  intros R H. unfold type_matches.
  assert (C : ty = 0 \/ ty = 1 \/ ty = 2 \/ ty = 3 \/ ty = 4) by lia.
  destruct C as [->|[->|[->|[->| ->]]]]; unfold payload_for in *; simpl in *;
    match goal with |- ?b = true => destruct b; [reflexivity|exfalso; apply H; reflexivity] end.
Qed.

Lemma type_matches_range ty m : type_matches ty m = true -> 0 <= ty <= 4.
Proof.
  unfold type_matches, payload_for, ty_counter, ty_gauge, ty_summary, ty_untyped, ty_histogram.
  destruct (ty =? 0) eqn:E0; [apply Z.eqb_eq in E0; lia|].
  destruct (ty =? 1) eqn:E1; [apply Z.eqb_eq in E1; lia|].
  destruct (ty =? 2) eqn:E2; [apply Z.eqb_eq in E2; lia|].
  destruct (ty =? 3) eqn:E3; [apply Z.eqb_eq in E3; lia|].
  destruct (ty =? 4) eqn:E4; [apply Z.eqb_eq in E4; lia|]. discriminate.
Qed.

Lemma cmc_ok lg fname ftype m keys m' keys' :
  check_metric_consistency lg fname ftype m keys = inr (m', keys') -> 0 <= ftype <= 4 ->
  m' = set_labels m (isort label_lt (d_labels m)) /\
  keys' = metric_key fname m' :: keys /\ ~ In (metric_key fname m') keys /\
  metric_ok lg ftype m' = true.
Proof.
  unfold check_metric_consistency. intros H R.
  destruct (payload_for ftype m) as [[|]|] eqn:P; try discriminate.
  2:{ exfalso. unfold payload_for, ty_counter, ty_gauge, ty_summary, ty_untyped, ty_histogram in P.
      destruct (ftype =? 0) eqn:E0; [discriminate|]. destruct (ftype =? 1) eqn:E1; [discriminate|].
      destruct (ftype =? 2) eqn:E2; [discriminate|]. destruct (ftype =? 3) eqn:E3; [discriminate|].
      destruct (ftype =? 4) eqn:E4; [discriminate|].
      apply Z.eqb_neq in E0, E1, E2, E3, E4. lia. }
  destruct (check_labels lg (d_summary m) (d_hist m) [] (d_labels m)) eqn:C; [discriminate|].
  rewrite sort_labels_isort in H.
  set (m1 := set_labels m (isort label_lt (d_labels m))) in *.
  destruct (str_in (metric_key fname m1) keys) eqn:K; [discriminate|].
  inversion H; subst m' keys'. clear H.
  apply str_in_false in K.
  repeat split; try assumption.
  destruct (check_labels_none _ _ _ _ _ C) as (N & _ & F).
  assert (PM : Permutation (isort label_lt (d_labels m)) (d_labels m)) by apply isort_perm.
  unfold metric_ok. unfold m1 at 2 3 4 5. simpl d_labels.
  assert (TM : type_matches ftype m1 = true).
  { apply type_matches_in_range; [assumption|]. unfold m1. rewrite payload_for_set_labels. rewrite P. discriminate. }
  rewrite TM. simpl.
  assert (SS : strictly_sorted (map fst (isort label_lt (d_labels m))) = true).
  { apply (isort_key_strict (@fst str str)). exact N. }
  rewrite SS. simpl.
  assert (FA : forallb (fun l : label => label_name_ok lg (fst l) && utf8_valid (snd l)) (isort label_lt (d_labels m)) = true).
  { apply forallb_forall. intros l I. apply (Permutation_in _ PM) in I.
    rewrite Forall_forall in F. destruct (F _ I) as (A1 & A2 & _). rewrite label_name_ok_check, A1, A2. reflexivity. }
  rewrite FA. simpl.
  assert (Q : (ftype =? ty_summary) && str_in quantile_label (map fst (isort label_lt (d_labels m))) = false).
  { destruct (ftype =? ty_summary) eqn:T; [|reflexivity]. simpl. apply Z.eqb_eq in T. subst ftype.
    apply str_in_false. intros I. apply (Permutation_in _ (Permutation_map fst PM)) in I.
    apply in_map_iff in I. destruct I as (l & El & Il). rewrite Forall_forall in F. destruct (F _ Il) as (_ & _ & A3 & _).
    apply A3; [|exact El]. unfold payload_for in P. simpl in P. inversion P. reflexivity. }
  rewrite Q. simpl.
  destruct (ftype =? ty_histogram) eqn:T; [|reflexivity]. simpl. apply Z.eqb_eq in T. subst ftype.
  apply negb_true_iff. apply str_in_false. intros I. apply (Permutation_in _ (Permutation_map fst PM)) in I.
  apply in_map_iff in I. destruct I as (l & El & Il). rewrite Forall_forall in F. destruct (F _ Il) as (_ & _ & _ & A4).
  apply A4; [|exact El]. unfold payload_for in P. simpl in P. inversion P. reflexivity.
Qed.

(* ------------------------------------------------------------------ *)
(* checkSuffixCollisions                                               *)
(* ------------------------------------------------------------------ *)
Lemma has_prefix_app p x : has_prefix (p ++ x) p = true.
Proof. induction p as [|c p IH]; simpl; [destruct x; reflexivity|]. rewrite Z.eqb_refl. exact IH. Qed.

Lemma has_suffix_app b s : has_suffix (b ++ s) s = true.
Proof. unfold has_suffix. rewrite rev_app_distr. apply has_prefix_app. Qed.

Lemma strip_app b s : strip (b ++ s) s = b.
Proof.
  unfold strip. rewrite app_length. rewrite Nat.add_sub. rewrite firstn_app. rewrite Nat.sub_diag.
  rewrite firstn_all. simpl. apply app_nil_r.
Qed.

Lemma hs_sum_count b : has_suffix (b ++ suf_sum) suf_count = false.
Proof. unfold has_suffix. rewrite rev_app_distr. reflexivity. Qed.
Lemma hs_bucket_count b : has_suffix (b ++ suf_bucket) suf_count = false.
Proof. unfold has_suffix. rewrite rev_app_distr. reflexivity. Qed.
Lemma hs_bucket_sum b : has_suffix (b ++ suf_bucket) suf_sum = false.
Proof. unfold has_suffix. rewrite rev_app_distr. reflexivity. Qed.
Lemma hs_count_bucket b : has_suffix (b ++ suf_count) suf_bucket = false.
Proof. unfold has_suffix. rewrite rev_app_distr. reflexivity. Qed.
Lemma hs_sum_bucket b : has_suffix (b ++ suf_sum) suf_bucket = false.
Proof. unfold has_suffix. rewrite rev_app_distr. reflexivity. Qed.

Lemma nws_count b : name_without_suffix (b ++ suf_count) = b.
Proof. unfold name_without_suffix. rewrite has_suffix_app. apply strip_app. Qed.
Lemma nws_sum b : name_without_suffix (b ++ suf_sum) = b.
Proof. unfold name_without_suffix. rewrite hs_sum_count, has_suffix_app. apply strip_app. Qed.
Lemma nws_bucket b : name_without_suffix (b ++ suf_bucket) = b.
Proof. unfold name_without_suffix. rewrite hs_bucket_count, hs_bucket_sum, has_suffix_app. apply strip_app. Qed.

Lemma suffix_first_hit n b f fs :
  name_without_suffix n = b -> b <> [] -> find_fam b fs = Some f -> suffix_first n fs = None ->
  (f_type f =? ty_histogram) = false /\ ((f_type f =? ty_summary) = true -> has_suffix n suf_bucket = true).
Proof.
  intros W NE F H. unfold suffix_first in H. rewrite W in H. destruct b as [|c b]; [contradiction|].
  rewrite F in H. destruct (f_type f =? ty_summary) eqn:T.
  - apply Z.eqb_eq in T. rewrite T. split; [reflexivity|]. intros _.
    destruct (has_suffix n suf_bucket); [reflexivity|discriminate].
  - destruct (f_type f =? ty_histogram); [discriminate|]. split; [reflexivity|discriminate].
Qed.

Lemma collides_self n ty : collides n ty n = false.
Proof.
  assert (Q : forall s, s <> [] -> str_eqb n (n ++ s) = false).
  { intros s NE. apply str_eqb_neq. intros E. apply (f_equal (@length Z)) in E. rewrite app_length in E.
    destruct s; [contradiction|]. simpl in E. lia. }
  unfold collides. rewrite !Q by discriminate. simpl. rewrite !andb_false_r. reflexivity.
Qed.

Lemma csc_none n ty fs :
  NoDup (map f_name fs) -> ~ In [] (map f_name fs) -> check_suffix_collisions n ty fs = None ->
  (forall g, In g fs -> collides n ty (f_name g) = false) /\
  (forall f, In f fs -> collides (f_name f) (f_type f) n = false).
Proof.
  intros ND NE H. unfold check_suffix_collisions in H.
  destruct (suffix_first n fs) eqn:SF; [discriminate|].
  split.
  - intros g Ig. unfold collides.
    destruct (str_eqb (f_name g) (n ++ suf_count)) eqn:E1.
    { apply str_eqb_eq in E1. rewrite (has_fam_in (n ++ suf_count) fs) in H by (rewrite <- E1; apply in_map; exact Ig).
      rewrite andb_true_r in H. destruct ((ty =? ty_summary) || (ty =? ty_histogram)) eqn:T; [discriminate|].
      apply orb_false_iff in T. destruct T as [_ T]. rewrite T. reflexivity. }
    destruct (str_eqb (f_name g) (n ++ suf_sum)) eqn:E2.
    { apply str_eqb_eq in E2. rewrite (has_fam_in (n ++ suf_sum) fs) in H by (rewrite <- E2; apply in_map; exact Ig).
      rewrite andb_true_r in H. destruct ((ty =? ty_summary) || (ty =? ty_histogram)) eqn:T.
      - destruct (has_fam (n ++ suf_count) fs); discriminate.
      - apply orb_false_iff in T. destruct T as [_ T]. rewrite T. reflexivity. }
    simpl. rewrite andb_false_r. simpl.
    destruct (str_eqb (f_name g) (n ++ suf_bucket)) eqn:E3; [|apply andb_false_r].
    apply str_eqb_eq in E3. rewrite (has_fam_in (n ++ suf_bucket) fs) in H by (rewrite <- E3; apply in_map; exact Ig).
    rewrite andb_true_r in H. destruct (ty =? ty_histogram); [|reflexivity].
    destruct (((ty =? ty_summary) || true) && has_fam (n ++ suf_count) fs); [discriminate|].
    destruct (((ty =? ty_summary) || true) && has_fam (n ++ suf_sum) fs); discriminate.
  - intros f If.
    assert (FN : f_name f <> []) by (intros Q; apply NE; rewrite <- Q; apply in_map; exact If).
    assert (FF : find_fam (f_name f) fs = Some f) by (apply find_fam_nodup; assumption).
    unfold collides.
    destruct (str_eqb n (f_name f ++ suf_count)) eqn:E1.
    { apply str_eqb_eq in E1. subst n.
      destruct (suffix_first_hit _ _ _ _ (nws_count _) FN FF SF) as [A B]. rewrite A.
      destruct (f_type f =? ty_summary) eqn:T; [|reflexivity].
      specialize (B eq_refl). rewrite hs_count_bucket in B. discriminate. }
    destruct (str_eqb n (f_name f ++ suf_sum)) eqn:E2.
    { apply str_eqb_eq in E2. subst n.
      destruct (suffix_first_hit _ _ _ _ (nws_sum _) FN FF SF) as [A B]. rewrite A.
      destruct (f_type f =? ty_summary) eqn:T; [|reflexivity].
      specialize (B eq_refl). rewrite hs_sum_bucket in B. discriminate. }
    simpl. rewrite andb_false_r. simpl.
    destruct (str_eqb n (f_name f ++ suf_bucket)) eqn:E3; [|apply andb_false_r].
    apply str_eqb_eq in E3. subst n.
    destruct (suffix_first_hit _ _ _ _ (nws_bucket _) FN FF SF) as [A _]. rewrite A. reflexivity.
Qed.

(* ------------------------------------------------------------------ *)
(* the invariant of the collect loop                                   *)
(* ------------------------------------------------------------------ *)
Record inv (lg : bool) (st : gstate) : Prop := mkInv {
  inv_names : NoDup (map f_name (fst st));
  inv_named : ~ In [] (map f_name (fst st));
  inv_ok : Forall (fam_ok lg) (fst st);
  inv_keys_in : forall nm, In nm (all_metrics (fst st)) -> In (key_of nm) (snd st);
  inv_keys_nodup : NoDup (map key_of (all_metrics (fst st)));
  inv_suffix : suffix_free (map hdr (fst st)) }.

Lemma inv_empty lg : inv lg ([], []).
Proof. constructor; simpl; try constructor; try tauto. intros b n []. Qed.

Lemma inv_more_keys lg fs keys k : inv lg (fs, keys) -> inv lg (fs, k :: keys).
Proof. intros [A B C D E F]. constructor; simpl in *; try assumption. intros nm I. right. apply D. exact I. Qed.

Lemma all_metrics_push fs n h ty : all_metrics (fs ++ [mkF n h ty []]) = all_metrics fs.
Proof. rewrite all_metrics_app. unfold all_metrics at 2. simpl. apply app_nil_r. Qed.

Lemma inv_push lg fs keys n h ty :
  inv lg (fs, keys) -> find_fam n fs = None -> n <> [] -> check_suffix_collisions n ty fs = None ->
  inv lg (fs ++ [mkF n h ty []], keys).
Proof.
  intros [A B C D E F] FN NE CS. simpl in *.
  destruct (csc_none _ _ _ A B CS) as [P1 P2].
  apply find_fam_none in FN.
  constructor; simpl.
  - rewrite map_app. simpl. eapply Permutation_NoDup; [apply Permutation_cons_append|]. constructor; assumption.
  - rewrite map_app. simpl. intros I. apply in_app_or in I. destruct I as [I|[I|[]]]; [contradiction|]. apply NE. exact I.
  - apply Forall_app. split; [assumption|]. constructor; [|constructor]. unfold fam_ok. simpl. constructor.
  - rewrite all_metrics_push. exact D.
  - rewrite all_metrics_push. exact E.
  - intros b x Ib Ix. rewrite map_app in Ib. rewrite map_fst_hdr in Ix. rewrite map_app in Ix. simpl in Ib, Ix.
    apply in_app_or in Ib. apply in_app_or in Ix.
    destruct Ib as [Ib|[Ib|[]]]; destruct Ix as [Ix|[Ix|[]]].
    + apply F; [exact Ib|]. rewrite map_fst_hdr. exact Ix.
    + subst x. apply in_map_iff in Ib. destruct Ib as (f & Ef & If). subst b. simpl. apply P2. exact If.
    + subst b. simpl. apply in_map_iff in Ix. destruct Ix as (g & Eg & Ig). subst x. apply P1. exact Ig.
    + subst b x. simpl. apply collides_self.
Qed.

Lemma inv_add lg fs keys n m f :
  inv lg (fs, keys) -> find_fam n fs = Some f -> metric_ok lg (f_type f) m = true -> ~ In (metric_key n m) keys ->
  inv lg (add_metric n m fs, metric_key n m :: keys).
Proof.
  intros [A B C D E F] FF MO NK. simpl in *.
  assert (IN : In n (map f_name fs)).
  { destruct (find_fam_some _ _ _ FF) as [I Q]. rewrite <- Q. apply in_map. exact I. }
  pose proof (add_metric_all n m fs IN) as PM.
  constructor; simpl.
  - rewrite add_metric_names. exact A.
  - rewrite add_metric_names. exact B.
  - eapply add_metric_ok; eassumption.
  - intros nm I. apply (Permutation_in _ PM) in I. destruct I as [I|I]; [subst nm; left; reflexivity|right; apply D; exact I].
  - eapply Permutation_NoDup; [apply Permutation_map; symmetry; exact PM|]. simpl. constructor; [|exact E].
    intros I. apply in_map_iff in I. destruct I as (nm & Q & I). apply NK. unfold key_of in Q at 1. simpl in Q.
    change (metric_key n m) with (key_of (n, m)). rewrite <- Q. apply D. exact I.
  - rewrite add_metric_hdr. exact F.
Qed.

Lemma find_fam_push n fs g : find_fam n fs = None -> f_name g = n -> find_fam n (fs ++ [g]) = Some g.
Proof.
  intros H Q. induction fs as [|x r IH]; simpl in *.
  - rewrite Q, str_eqb_refl. reflexivity.
  - destruct (str_eqb (f_name x) n); [discriminate|]. apply IH. exact H.
Qed.

Lemma first_type_range m ty : first_type m = Some ty -> 0 <= ty <= 4.
Proof.
  unfold first_type, ty_counter, ty_gauge, ty_summary, ty_untyped, ty_histogram.
  destruct (d_gauge m); [intros H; inversion H; lia|]. destruct (d_counter m); [intros H; inversion H; lia|].
  destruct (d_summary m); [intros H; inversion H; lia|]. destruct (d_untyped m); [intros H; inversion H; lia|].
  destruct (d_hist m); [intros H; inversion H; lia|]. discriminate.
Qed.

(* what one processMetric call does to the collected metrics *)
Definition step_effect (fs fs' : list family) (nm : str * dmetric) (o : option Z) : Prop :=
  match o with
  | None => Permutation (all_metrics fs') (nm :: all_metrics fs)
  | Some _ => all_metrics fs' = all_metrics fs
  end.

Lemma finish_effect lg reg d fname fhelp ftype m fs keys st' o f :
  inv lg (fs, keys) -> find_fam fname fs = Some f -> f_type f = ftype -> 0 <= ftype <= 4 ->
  finish_metric lg reg d fname fhelp ftype m fs keys = (st', o) ->
  inv lg st' /\ map hdr (fst st') = map hdr fs /\
  step_effect fs (fst st') (fname, set_labels m (isort label_lt (d_labels m))) o.
Proof.
  intros I FF FT R H. unfold finish_metric in H.
  destruct (check_metric_consistency lg fname ftype m keys) as [e|[m' keys']] eqn:C.
  - inversion H; subst. simpl. auto.
  - destruct (cmc_ok _ _ _ _ _ _ _ C R) as (M1 & K1 & K2 & MO). subst keys'.
    assert (IA : inv lg (add_metric fname m' fs, metric_key fname m' :: keys)).
    { eapply inv_add; try eassumption. rewrite FT. exact MO. }
    assert (IN : In fname (map f_name fs)).
    { destruct (find_fam_some _ _ _ FF) as [J Q]. rewrite <- Q. apply in_map. exact J. }
    assert (OK : inv lg (add_metric fname m' fs, metric_key fname m' :: keys) /\
                 map hdr (add_metric fname m' fs) = map hdr fs /\
                 step_effect fs (add_metric fname m' fs) (fname, set_labels m (isort label_lt (d_labels m))) None).
    { split; [exact IA|]. split; [apply add_metric_hdr|]. simpl. rewrite <- M1. apply add_metric_all. exact IN. }
    assert (KO : forall e, inv lg (fs, metric_key fname m' :: keys) /\ map hdr fs = map hdr fs /\
                 step_effect fs fs (fname, set_labels m (isort label_lt (d_labels m))) (Some e)).
    { intros e. split; [apply inv_more_keys; exact I|]. split; reflexivity. }
    destruct reg as [ids|].
    + destruct (negb (z_in (ds_id d) ids)); [inversion H; subst; apply KO|].
      destruct (check_desc_consistency fhelp m' d); inversion H; subst; [apply KO|exact OK].
    + inversion H; subst. exact OK.
Qed.

Lemma process_effect lg reg e st st' o :
  inv lg st -> (ds_err (e_desc e) = false -> ds_name (e_desc e) <> []) ->
  process_metric lg reg e st = (st', o) ->
  inv lg st' /\ step_effect (fst st) (fst st') (emitted_as e) o.
Proof.
  intros I NE H. destruct st as [fs keys]. unfold process_metric in H.
  destruct (ds_err (e_desc e)) eqn:DE; [inversion H; subst; simpl; auto|].
  specialize (NE eq_refl).
  destruct (e_write_err e); [inversion H; subst; simpl; auto|].
  destruct (find_fam (ds_name (e_desc e)) fs) as [mf|] eqn:FF.
  - destruct (negb (str_eqb (f_help mf) (ds_help (e_desc e)))); [inversion H; subst; simpl; auto|].
    destruct (payload_for (f_type mf) (e_dto e)) as [[|]|] eqn:P; try (inversion H; subst; simpl; auto; fail).
    destruct (find_fam_some _ _ _ FF) as [IM NM].
    assert (R : 0 <= f_type mf <= 4).
    { apply (type_matches_range _ (e_dto e)). unfold type_matches. rewrite P. reflexivity. }
    rewrite NM in H.
    destruct (finish_effect _ _ _ _ _ _ _ _ _ _ _ _ I FF eq_refl R H) as (A & _ & B).
    split; [exact A|]. exact B.
  - destruct (first_type (e_dto e)) as [ty|] eqn:FT; [|inversion H; subst; simpl; auto].
    destruct (check_suffix_collisions (ds_name (e_desc e)) ty fs) eqn:CS; [inversion H; subst; simpl; auto|].
    set (g := mkF (ds_name (e_desc e)) (ds_help (e_desc e)) ty []) in *.
    assert (IP : inv lg (fs ++ [g], keys)) by (apply inv_push; assumption).
    assert (FG : find_fam (ds_name (e_desc e)) (fs ++ [g]) = Some g) by (apply find_fam_push; [assumption|reflexivity]).
    destruct (finish_effect _ _ _ _ _ _ _ _ _ _ _ _ IP FG eq_refl (first_type_range _ _ FT) H) as (A & _ & B).
    split; [exact A|]. simpl fst. unfold step_effect in *. unfold g in B. rewrite all_metrics_push in B. exact B.
Qed.

(* ------------------------------------------------------------------ *)
(* the collect loop                                                    *)
(* ------------------------------------------------------------------ *)
(* guaranteed by NewDesc: a Desc without error carries a non-empty fully-qualified name *)
Definition names_ok (arr : list emitted) : Prop :=
  forall e, In e arr -> ds_err (e_desc e) = false -> ds_name (e_desc e) <> [].

Lemma run_effect lg ped ids arr : forall st st' errs,
  inv lg st -> names_ok arr -> run lg ped ids arr st = (st', errs) ->
  inv lg st' /\
  exists acc rej, Permutation arr (acc ++ rej) /\
    Permutation (all_metrics (fst st')) (map emitted_as acc ++ all_metrics (fst st)) /\
    length rej = length errs.
Proof.
  induction arr as [|e r IH]; intros st st' errs I NO H.
  - simpl in H. inversion H; subst. split; [exact I|]. exists [], []. simpl. auto.
  - simpl in H.
    destruct (process_metric lg (reg_for ped ids e) e st) as [st1 o] eqn:P.
    destruct (run lg ped ids r st1) as [st2 errs'] eqn:R. inversion H; subst st2 errs. clear H.
    destruct (process_effect _ _ _ _ _ _ I (NO e (or_introl eq_refl)) P) as [I1 SE].
    assert (NO' : names_ok r) by (intros x Ix; apply NO; right; exact Ix).
    destruct (IH _ _ _ I1 NO' R) as (I2 & acc & rej & P1 & P2 & L).
    split; [exact I2|].
    destruct o as [k|]; simpl in SE.
    + exists acc, (e :: rej). split; [|split].
      * rewrite P1. apply Permutation_middle.
      * rewrite P2. rewrite SE. reflexivity.
      * simpl. rewrite L. reflexivity.
    + exists (e :: acc), rej. split; [|split].
      * simpl. constructor. exact P1.
      * rewrite P2. rewrite SE. simpl. symmetry. apply Permutation_middle.
      * simpl. exact L.
Qed.

(* ------------------------------------------------------------------ *)
(* NormalizeMetricFamilies                                             *)
(* ------------------------------------------------------------------ *)
Lemma all_metrics_sort_metrics fs : Permutation (all_metrics (map sort_metrics fs)) (all_metrics fs).
Proof.
  induction fs as [|f r IH]; [reflexivity|].
  unfold all_metrics in *. simpl. apply Permutation_app; [|exact IH].
  apply Permutation_map. apply isort_perm.
Qed.

Lemma all_metrics_filter fs : all_metrics (filter nonempty fs) = all_metrics fs.
Proof.
  induction fs as [|f r IH]; [reflexivity|]. simpl filter.
  destruct (nonempty f) eqn:N.
  - unfold all_metrics in *. simpl. rewrite IH. reflexivity.
  - unfold nonempty in N. destruct (f_metrics f) eqn:E; [|discriminate].
    rewrite IH. unfold all_metrics. simpl. rewrite E. reflexivity.
Qed.

Lemma normalize_all fs : Permutation (all_metrics (normalize fs)) (all_metrics fs).
Proof.
  unfold normalize. etransitivity; [apply Permutation_flat_map; apply isort_perm|].
  fold (all_metrics (filter nonempty (map sort_metrics fs))). rewrite all_metrics_filter. apply all_metrics_sort_metrics.
Qed.

Lemma normalize_in fs f :
  In f (normalize fs) -> exists g, In g fs /\ f = sort_metrics g /\ nonempty f = true.
Proof.
  unfold normalize. intros I. apply (Permutation_in _ (isort_perm fam_lt _)) in I.
  apply filter_In in I. destruct I as [I N]. apply in_map_iff in I. destruct I as (g & E & Ig).
  exists g. auto.
Qed.

Lemma NoDup_map_filter {A B} (k : A -> B) (p : A -> bool) l : NoDup (map k l) -> NoDup (map k (filter p l)).
Proof.
  induction l as [|x r IH]; simpl; intros N; [constructor|]. inversion N; subst.
  destruct (p x); simpl; [|apply IH; assumption]. constructor; [|apply IH; assumption].
  intros I. apply H1. apply in_map_iff in I. destruct I as (y & E & Iy). apply filter_In in Iy. rewrite <- E. apply in_map. apply Iy.
Qed.

Lemma suffix_free_incl hs hs' : incl hs' hs -> suffix_free hs -> suffix_free hs'.
Proof. intros IN F b n Ib In'. apply F; [apply IN; exact Ib|]. eapply incl_map; eassumption. Qed.

Lemma nsc_of_free fs : suffix_free (map hdr fs) -> no_suffix_collisions fs = true.
Proof.
  intros F. unfold no_suffix_collisions. apply forallb_forall. intros f If.
  assert (Q : forall n, str_in n (map f_name fs) = true -> collides (f_name f) (f_type f) n = false).
  { intros n I. apply str_in_In in I. apply (F (hdr f) n); [apply in_map; exact If|rewrite map_fst_hdr; exact I]. }
  assert (Q1 := Q (f_name f ++ suf_count)). assert (Q2 := Q (f_name f ++ suf_sum)). assert (Q3 := Q (f_name f ++ suf_bucket)).
  unfold collides in Q1, Q2, Q3. rewrite str_eqb_refl in Q1, Q2, Q3.
  destruct (str_in (f_name f ++ suf_count) (map f_name fs)); destruct (str_in (f_name f ++ suf_sum) (map f_name fs));
    destruct (str_in (f_name f ++ suf_bucket) (map f_name fs));
    destruct (f_type f =? ty_summary); destruct (f_type f =? ty_histogram); simpl in *;
    try reflexivity; try (specialize (Q1 eq_refl); discriminate); try (specialize (Q2 eq_refl)); try (specialize (Q3 eq_refl));
    try discriminate; rewrite ?orb_true_r in *; simpl in *; try discriminate.
Qed.

Lemma normalize_hdr_incl fs : incl (map hdr (normalize fs)) (map hdr fs).
Proof.
  intros h I. apply in_map_iff in I. destruct I as (f & E & If).
  destruct (normalize_in _ _ If) as (g & Ig & Eg & _). subst f h. apply in_map_iff. exists g. split; [reflexivity|exact Ig].
Qed.

Lemma map_key_of l : map key_of l = map key_series (map series_of l).
Proof. rewrite map_map. reflexivity. Qed.

Lemma normalize_valid lg fs keys : inv lg (fs, keys) ->
  valid_result lg (normalize fs) = true /\ no_empty_family (normalize fs) = true /\
  NoDup (map key_of (all_metrics (normalize fs))).
Proof.
  intros [A B C D E F]. simpl in *.
  assert (KN : NoDup (map key_of (all_metrics (normalize fs)))).
  { eapply Permutation_NoDup; [apply Permutation_map; symmetry; apply normalize_all|]. exact E. }
  split; [|split; [|exact KN]].
  - unfold valid_result. repeat (apply andb_true_iff; split).
    + unfold normalize. apply (isort_key_strict f_name). apply NoDup_map_filter.
      rewrite map_map. simpl. exact A.
    + apply forallb_forall. intros f If. destruct (normalize_in _ _ If) as (g & Ig & Eg & _). subst f.
      apply forallb_forall. intros m Im. simpl in *. apply (Permutation_in _ (isort_perm metric_lt _)) in Im.
      rewrite Forall_forall in C. specialize (C _ Ig). unfold fam_ok in C. rewrite Forall_forall in C. apply C. exact Im.
    + apply distinct_of_nodup; [intros a b; apply series_eqb_eq|].
      rewrite map_key_of in KN. eapply NoDup_map_inv. exact KN.
    + apply nsc_of_free. eapply suffix_free_incl; [apply normalize_hdr_incl|exact F].
  - unfold no_empty_family. apply forallb_forall. intros f If. destruct (normalize_in _ _ If) as (g & _ & _ & N). exact N.
Qed.

(* ------------------------------------------------------------------ *)
(* Registry.Gather: main lemmas                                        *)
(* ------------------------------------------------------------------ *)
Lemma gather_valid_lemma lg ped ids arr :
  names_ok arr ->
  valid_result lg (fst (gather lg ped ids arr)) = true /\ no_empty_family (fst (gather lg ped ids arr)) = true.
Proof.
  intros NO. unfold gather. destruct (run lg ped ids arr ([], [])) as [st errs] eqn:R.
  destruct (run_effect _ _ _ _ _ _ _ (inv_empty lg) NO R) as [I _]. destruct st as [fs keys].
  destruct (normalize_valid _ _ _ I) as (V & N & _). simpl. auto.
Qed.

Lemma gather_complete_lemma lg ped ids arr :
  names_ok arr ->
  exists acc rej, Permutation arr (acc ++ rej) /\
    Permutation (all_metrics (fst (gather lg ped ids arr))) (map emitted_as acc) /\
    length rej = length (snd (gather lg ped ids arr)).
Proof.
  intros NO. unfold gather. destruct (run lg ped ids arr ([], [])) as [st errs] eqn:R.
  destruct (run_effect _ _ _ _ _ _ _ (inv_empty lg) NO R) as (_ & acc & rej & P1 & P2 & L).
  exists acc, rej. simpl. split; [exact P1|]. split; [|exact L].
  rewrite normalize_all. rewrite P2. simpl. rewrite app_nil_r. reflexivity.
Qed.

Lemma gather_all_present_lemma lg ped ids arr :
  names_ok arr -> snd (gather lg ped ids arr) = [] ->
  Permutation (all_metrics (fst (gather lg ped ids arr))) (map emitted_as arr).
Proof.
  intros NO E. destruct (gather_complete_lemma lg ped ids arr NO) as (acc & rej & P1 & P2 & L).
  rewrite E in L. destruct rej; [|discriminate]. rewrite app_nil_r in P1. rewrite P2. apply Permutation_map. symmetry. exact P1.
Qed.

(* ------------------------------------------------------------------ *)
(* family headers along the collect loop                               *)
(* ------------------------------------------------------------------ *)
Definition hdr3 (f : family) : str * str * Z := (f_name f, f_help f, f_type f).
Definition e_name (e : emitted) : str := ds_name (e_desc e).
Definition e_help (e : emitted) : str := ds_help (e_desc e).

Lemma add_metric_hdr3 n m fs : map hdr3 (add_metric n m fs) = map hdr3 fs.
Proof.
  induction fs as [|g r IH]; simpl; [reflexivity|].
  destruct (str_eqb (f_name g) n); simpl; [reflexivity|]. rewrite IH. reflexivity.
Qed.

Lemma finish_hdr3 lg reg d fname fhelp ftype m fs keys st' o :
  finish_metric lg reg d fname fhelp ftype m fs keys = (st', o) -> map hdr3 (fst st') = map hdr3 fs.
Proof.
  unfold finish_metric. destruct (check_metric_consistency lg fname ftype m keys) as [e|[m' keys']].
  - intros H; inversion H; reflexivity.
  - destruct reg as [ids|].
    + destruct (negb (z_in (ds_id d) ids)); [intros H; inversion H; reflexivity|].
      destruct (check_desc_consistency fhelp m' d); intros H; inversion H; simpl; [reflexivity|apply add_metric_hdr3].
    + intros H; inversion H; simpl. apply add_metric_hdr3.
Qed.

Lemma first_type_payload m ty : first_type m = Some ty -> payload_for ty m = Some true.
Proof.
  unfold first_type. destruct (d_gauge m) eqn:G; [intros H; inversion H; unfold payload_for; simpl; rewrite G; reflexivity|].
  destruct (d_counter m) eqn:C; [intros H; inversion H; unfold payload_for; simpl; rewrite C; reflexivity|].
  destruct (d_summary m) eqn:S; [intros H; inversion H; unfold payload_for; simpl; rewrite S; reflexivity|].
  destruct (d_untyped m) eqn:U; [intros H; inversion H; unfold payload_for; simpl; rewrite U; reflexivity|].
  destruct (d_hist m) eqn:Hh; [intros H; inversion H; unfold payload_for; simpl; rewrite Hh; reflexivity|]. discriminate.
Qed.

Lemma process_hdr lg reg e st st' o :
  process_metric lg reg e st = (st', o) ->
  (map hdr3 (fst st') = map hdr3 (fst st) \/
   exists ty, map hdr3 (fst st') = map hdr3 (fst st) ++ [(e_name e, e_help e, ty)] /\ first_type (e_dto e) = Some ty) /\
  (o = None -> exists ty, In (e_name e, e_help e, ty) (map hdr3 (fst st')) /\ payload_for ty (e_dto e) = Some true).
Proof.
  destruct st as [fs keys]. unfold process_metric, e_name, e_help. intros H.
  destruct (ds_err (e_desc e)); [inversion H; subst; split; [left; reflexivity|discriminate]|].
  destruct (e_write_err e); [inversion H; subst; split; [left; reflexivity|discriminate]|].
  destruct (find_fam (ds_name (e_desc e)) fs) as [mf|] eqn:FF.
  - destruct (str_eqb (f_help mf) (ds_help (e_desc e))) eqn:HE; simpl in H; [|inversion H; subst; split; [left; reflexivity|discriminate]].
    destruct (payload_for (f_type mf) (e_dto e)) as [[|]|] eqn:P; try (inversion H; subst; split; [left; reflexivity|discriminate]; fail).
    pose proof (finish_hdr3 _ _ _ _ _ _ _ _ _ _ _ H) as Q. split; [left; exact Q|]. intros _.
    exists (f_type mf). split; [|exact P]. rewrite Q.
    destruct (find_fam_some _ _ _ FF) as [IM NM]. apply str_eqb_eq in HE.
    apply in_map_iff. exists mf. split; [|exact IM]. unfold hdr3. rewrite NM, HE. reflexivity.
  - destruct (first_type (e_dto e)) as [ty|] eqn:FT; [|inversion H; subst; split; [left; reflexivity|discriminate]].
    destruct (check_suffix_collisions (ds_name (e_desc e)) ty fs); [inversion H; subst; split; [left; reflexivity|discriminate]|].
    pose proof (finish_hdr3 _ _ _ _ _ _ _ _ _ _ _ H) as Q. rewrite map_app in Q. simpl in Q.
    split; [right; exists ty; split; [exact Q|reflexivity]|]. intros _. exists ty. split; [|apply first_type_payload; exact FT].
    rewrite Q. apply in_or_app. right. left. reflexivity.
Qed.

Lemma run_hdr lg ped ids arr : forall st st' errs,
  run lg ped ids arr st = (st', errs) ->
  incl (map hdr3 (fst st)) (map hdr3 (fst st')) /\
  (forall h, In h (map hdr3 (fst st')) -> In h (map hdr3 (fst st)) \/
     exists e ty, In e arr /\ h = (e_name e, e_help e, ty) /\ first_type (e_dto e) = Some ty) /\
  (errs = [] -> forall e, In e arr ->
     exists ty, In (e_name e, e_help e, ty) (map hdr3 (fst st')) /\ payload_for ty (e_dto e) = Some true).
Proof.
  induction arr as [|e r IH]; intros st st' errs H.
  - simpl in H. inversion H; subst. split; [apply incl_refl|]. split; [intros h Ih; left; exact Ih|intros _ e []].
  - simpl in H.
    destruct (process_metric lg (reg_for ped ids e) e st) as [st1 o] eqn:P.
    destruct (run lg ped ids r st1) as [st2 errs'] eqn:R. inversion H; subst st2 errs. clear H.
    destruct (process_hdr _ _ _ _ _ _ P) as [S1 S2]. destruct (IH _ _ _ R) as (I1 & I2 & I3).
    assert (INC : incl (map hdr3 (fst st)) (map hdr3 (fst st1))).
    { destruct S1 as [Q|(ty & Q & _)]; rewrite Q; [apply incl_refl|apply incl_appl; apply incl_refl]. }
    split; [eapply incl_tran; eassumption|]. split.
    + intros h Ih. destruct (I2 h Ih) as [J|(x & ty & Ix & Eh & Fx)].
      * destruct S1 as [Q|(ty & Q & FT)]; rewrite Q in J; [left; exact J|].
        apply in_app_or in J. destruct J as [J|[J|[]]]; [left; exact J|].
        right. exists e, ty. split; [left; reflexivity|]. split; [symmetry; exact J|exact FT].
      * right. exists x, ty. split; [right; exact Ix|]. split; assumption.
    + intros EE. destruct o as [k|]; [discriminate|]. simpl in EE.
      intros x [Ix|Ix].
      * subst x. destruct (S2 eq_refl) as (ty & Ity & Pty). exists ty. split; [apply I1; exact Ity|exact Pty].
      * apply I3; assumption.
Qed.

Definition prio (t : Z) : Z := if t =? ty_gauge then 0 else if t =? ty_counter then 1 else t.

Lemma first_type_prio m t t' : first_type m = Some t -> payload_for t' m = Some true -> prio t <= prio t'.
Proof.
  unfold first_type, payload_for, prio, ty_counter, ty_gauge, ty_summary, ty_untyped, ty_histogram.
  destruct (t' =? 0) eqn:E0; [apply Z.eqb_eq in E0; subst t'|];
  [|destruct (t' =? 1) eqn:E1; [apply Z.eqb_eq in E1; subst t'|];
    [|destruct (t' =? 2) eqn:E2; [apply Z.eqb_eq in E2; subst t'|];
      [|destruct (t' =? 3) eqn:E3; [apply Z.eqb_eq in E3; subst t'|];
        [|destruct (t' =? 4) eqn:E4; [apply Z.eqb_eq in E4; subst t'|discriminate]]]]];
  destruct (d_gauge m), (d_counter m), (d_summary m), (d_untyped m), (d_hist m); intros H1 H2;
    inversion H1; subst; try discriminate; simpl; lia.
Qed.

Lemma prio_inj t t' : 0 <= t <= 4 -> 0 <= t' <= 4 -> prio t = prio t' -> t = t'.
Proof.
  intros R R'. assert (C : t = 0 \/ t = 1 \/ t = 2 \/ t = 3 \/ t = 4) by lia.
  assert (C' : t' = 0 \/ t' = 1 \/ t' = 2 \/ t' = 3 \/ t' = 4) by lia.
  destruct C as [->|[->|[->|[->| ->]]]]; destruct C' as [->|[->|[->|[->| ->]]]]; unfold prio; simpl; lia.
Qed.

Lemma hdr3_unique fs n h t h' t' :
  NoDup (map f_name fs) -> In (n, h, t) (map hdr3 fs) -> In (n, h', t') (map hdr3 fs) -> h = h' /\ t = t'.
Proof.
  intros N I1 I2. apply in_map_iff in I1. destruct I1 as (f & Ef & If). apply in_map_iff in I2. destruct I2 as (g & Eg & Ig).
  unfold hdr3 in *. inversion Ef; subst. inversion Eg; subst.
  assert (f = g).
  { pose proof (find_fam_nodup _ _ N If) as A. pose proof (find_fam_nodup _ _ N Ig) as B. rewrite <- H0 in A. congruence. }
  subst. auto.
Qed.

(* ------------------------------------------------------------------ *)
(* two strictly sorted lists with the same elements are equal          *)
(* ------------------------------------------------------------------ *)
Lemma strictly_sorted_unique l1 : forall l2,
  strictly_sorted l1 = true -> strictly_sorted l2 = true -> (forall x, In x l1 <-> In x l2) -> l1 = l2.
Proof.
  induction l1 as [|a l1 IH]; intros [|b l2] S1 S2 E.
  - reflexivity.
  - exfalso. apply (proj2 (E b)). left. reflexivity.
  - exfalso. apply (proj1 (E a)). left. reflexivity.
  - pose proof (strictly_sorted_lt_all _ _ S1) as F1. pose proof (strictly_sorted_lt_all _ _ S2) as F2.
    rewrite Forall_forall in F1, F2.
    assert (a = b).
    { destruct (proj1 (E a) (or_introl eq_refl)) as [Q|Q]; [auto|].
      destruct (proj2 (E b) (or_introl eq_refl)) as [Q'|Q']; [auto|].
      pose proof (F2 _ Q) as A. pose proof (F1 _ Q') as B. apply str_ltb_asym in A. congruence. }
    subst b. f_equal. apply IH; [eapply strictly_sorted_tail; eassumption|eapply strictly_sorted_tail; eassumption|].
    pose proof (strictly_sorted_nodup _ S1) as N1. pose proof (strictly_sorted_nodup _ S2) as N2.
    inversion N1; subst. inversion N2; subst.
    intros x. split; intros Ix.
    + destruct (proj1 (E x) (or_intror Ix)) as [Q|Q]; [subst; contradiction|exact Q].
    + destruct (proj2 (E x) (or_intror Ix)) as [Q|Q]; [subst; contradiction|exact Q].
Qed.

Lemma Permutation_filter' {A} (p : A -> bool) l l' : Permutation l l' -> Permutation (filter p l) (filter p l').
Proof.
  induction 1; simpl.
  - constructor.
  - destruct (p x); [constructor|]; assumption.
  - destruct (p x), (p y); try reflexivity. apply perm_swap.
  - etransitivity; eassumption.
Qed.

Definition by_name (n : str) (nm : str * dmetric) : bool := str_eqb (fst nm) n.

Lemma filter_by_name_same n ms : filter (by_name n) (map (fun m => (n, m)) ms) = map (fun m => (n, m)) ms.
Proof. induction ms as [|m r IH]; simpl; [reflexivity|]. unfold by_name at 1. simpl. rewrite str_eqb_refl. rewrite IH. reflexivity. Qed.

Lemma filter_by_name_diff n n' (ms : list dmetric) : n' <> n -> filter (by_name n) (map (fun m => (n', m)) ms) = [].
Proof.
  intros D. induction ms as [|m r IH]; simpl; [reflexivity|]. unfold by_name at 1. simpl.
  apply str_eqb_neq in D. rewrite D. exact IH.
Qed.

Lemma all_metrics_cons g r : all_metrics (g :: r) = map (fun m => (f_name g, m)) (f_metrics g) ++ all_metrics r.
Proof. reflexivity. Qed.

Lemma filter_by_name_absent n fs : ~ In n (map f_name fs) -> filter (by_name n) (all_metrics fs) = [].
Proof.
  induction fs as [|g r IH]; intros N; [reflexivity|].
  rewrite all_metrics_cons. rewrite filter_app. rewrite filter_by_name_diff.
  - simpl. apply IH. intros I. apply N. right. exact I.
  - intros Q. apply N. left. exact Q.
Qed.

Lemma metrics_by_filter fs f :
  NoDup (map f_name fs) -> In f fs ->
  filter (by_name (f_name f)) (all_metrics fs) = map (fun m => (f_name f, m)) (f_metrics f).
Proof.
  induction fs as [|g r IH]; intros N I; [contradiction|]. simpl in N. inversion N; subst.
  rewrite all_metrics_cons. rewrite filter_app. destruct I as [I|I].
  - subst g. rewrite filter_by_name_same. rewrite (filter_by_name_absent _ _ H1). apply app_nil_r.
  - rewrite filter_by_name_diff.
    + simpl. apply IH; assumption.
    + intros Q. apply H1. rewrite Q. apply in_map. exact I.
Qed.

Lemma names_of_all_metrics fs n :
  no_empty_family fs = true -> (In n (map f_name fs) <-> In n (map fst (all_metrics fs))).
Proof.
  intros NE. unfold no_empty_family in NE. rewrite forallb_forall in NE. split; intros I.
  - apply in_map_iff in I. destruct I as (f & E & If). specialize (NE _ If). unfold nonempty in NE.
    destruct (f_metrics f) as [|m ms] eqn:M; [discriminate|].
    apply in_map_iff. exists (n, m). split; [reflexivity|]. unfold all_metrics. apply in_flat_map. exists f. split; [exact If|].
    rewrite M. left. rewrite E. reflexivity.
  - apply in_map_iff in I. destruct I as ([n' m] & E & Inm). simpl in E. subst n'.
    unfold all_metrics in Inm. apply in_flat_map in Inm. destruct Inm as (f & If & Im).
    apply in_map_iff in Im. destruct Im as (m' & Em & _). inversion Em; subst. apply in_map. exact If.
Qed.

Lemma forall2_by_name (P : family -> family -> Prop) r1 : forall r2,
  map f_name r1 = map f_name r2 ->
  (forall f g, In f r1 -> In g r2 -> f_name f = f_name g -> P f g) -> Forall2 P r1 r2.
Proof.
  induction r1 as [|f r1 IH]; intros [|g r2] E H; simpl in E; try discriminate; [constructor|].
  inversion E. constructor.
  - apply H; [left; reflexivity|left; reflexivity|assumption].
  - apply IH; [assumption|]. intros f' g' If Ig. apply H; right; assumption.
Qed.

Lemma normalize_hdr3_incl fs : incl (map hdr3 (normalize fs)) (map hdr3 fs).
Proof.
  intros h I. apply in_map_iff in I. destruct I as (f & E & If).
  destruct (normalize_in _ _ If) as (g & Ig & Eg & _). subst f h. apply in_map_iff. exists g. split; [reflexivity|exact Ig].
Qed.

(* same families (name, help, type, in the same order), the metrics of a family up to their order *)
Definition same_result (r1 r2 : list family) : Prop :=
  Forall2 (fun f g => hdr3 f = hdr3 g /\ Permutation (f_metrics f) (f_metrics g)) r1 r2.

Lemma gather_order_independent_lemma lg ped ids arr1 arr2 :
  names_ok arr1 -> Permutation arr1 arr2 ->
  snd (gather lg ped ids arr1) = [] -> snd (gather lg ped ids arr2) = [] ->
  same_result (fst (gather lg ped ids arr1)) (fst (gather lg ped ids arr2)).
Proof.
  intros NO1 PA E1 E2.
  assert (NO2 : names_ok arr2).
  { intros e I. apply NO1. eapply Permutation_in; [symmetry; exact PA|exact I]. }
  pose proof (gather_all_present_lemma lg ped ids arr1 NO1 E1) as AP1.
  pose proof (gather_all_present_lemma lg ped ids arr2 NO2 E2) as AP2.
  unfold gather in *.
  destruct (run lg ped ids arr1 ([], [])) as [[fs1 k1] er1] eqn:R1.
  destruct (run lg ped ids arr2 ([], [])) as [[fs2 k2] er2] eqn:R2. simpl in *. subst er1 er2.
  destruct (run_effect _ _ _ _ _ _ _ (inv_empty lg) NO1 R1) as [I1 _].
  destruct (run_effect _ _ _ _ _ _ _ (inv_empty lg) NO2 R2) as [I2 _].
  destruct (normalize_valid _ _ _ I1) as (V1 & NE1 & _). destruct (normalize_valid _ _ _ I2) as (V2 & NE2 & _).
  destruct (run_hdr _ _ _ _ _ _ _ R1) as (_ & C1 & A1). destruct (run_hdr _ _ _ _ _ _ _ R2) as (_ & C2 & A2).
  simpl in *. specialize (A1 eq_refl). specialize (A2 eq_refl).
  assert (PM : Permutation (all_metrics (normalize fs1)) (all_metrics (normalize fs2))).
  { rewrite AP1, AP2. apply Permutation_map. exact PA. }
  unfold valid_result in V1, V2.
  apply andb_true_iff in V1. destruct V1 as [V1 _]. apply andb_true_iff in V1. destruct V1 as [V1 _].
  apply andb_true_iff in V1. destruct V1 as [S1 _].
  apply andb_true_iff in V2. destruct V2 as [V2 _]. apply andb_true_iff in V2. destruct V2 as [V2 _].
  apply andb_true_iff in V2. destruct V2 as [S2 _].
  assert (NAMES : map f_name (normalize fs1) = map f_name (normalize fs2)).
  { apply strictly_sorted_unique; [exact S1|exact S2|]. intros n.
    rewrite (names_of_all_metrics _ n NE1), (names_of_all_metrics _ n NE2).
    split; intros I; eapply Permutation_in; try exact I; apply Permutation_map; [exact PM|symmetry; exact PM]. }
  apply forall2_by_name; [exact NAMES|].
  intros f g If Ig EN.
  pose proof (strictly_sorted_nodup _ S1) as N1. pose proof (strictly_sorted_nodup _ S2) as N2.
  split.
  - (* headers *)
    assert (Hf : In (hdr3 f) (map hdr3 fs1)) by (apply normalize_hdr3_incl; apply in_map; exact If).
    assert (Hg : In (hdr3 g) (map hdr3 fs2)) by (apply normalize_hdr3_incl; apply in_map; exact Ig).
    destruct (C1 _ Hf) as [[]|(a & ta & Ia & Ea & Fa)]. destruct (C2 _ Hg) as [[]|(b & tb & Ib & Eb & Fb)].
    unfold hdr3 in Ea, Eb. inversion Ea. inversion Eb. clear Ea Eb.
    (* a created f in run 1 and was accepted in run 2 into g; b the other way round *)
    destruct (A2 a (Permutation_in _ PA Ia)) as (t2 & J2 & P2).
    destruct (A1 b (Permutation_in _ (Permutation_sym PA) Ib)) as (t1 & J1 & P1).
    rewrite <- H0, EN in J2. unfold hdr3 in Hg.
    destruct (hdr3_unique _ _ _ _ _ _ (inv_names _ _ I2) J2 Hg) as [Q1 Q2].
    rewrite <- H3, <- EN in J1. unfold hdr3 in Hf.
    destruct (hdr3_unique _ _ _ _ _ _ (inv_names _ _ I1) J1 Hf) as [Q3 Q4].
    unfold hdr3. rewrite EN. rewrite H1, Q1. f_equal.
    subst t2 t1.
    pose proof (first_type_prio _ _ _ Fa P2) as L1. pose proof (first_type_prio _ _ _ Fb P1) as L2.
    pose proof (first_type_range _ _ Fa) as RA. pose proof (first_type_range _ _ Fb) as RB.
    subst ta tb. apply prio_inj; [exact RA|exact RB|lia].
  - (* metrics *)
    pose proof (Permutation_filter' (by_name (f_name f)) _ _ PM) as PF.
    rewrite (metrics_by_filter _ _ N1 If) in PF. rewrite EN in PF. rewrite (metrics_by_filter _ _ N2 Ig) in PF.
    apply (Permutation_map snd) in PF. rewrite !map_map in PF. simpl in PF. rewrite !map_id in PF. exact PF.
Qed.

(* ------------------------------------------------------------------ *)
(* Gatherers.Gather                                                    *)
(* ------------------------------------------------------------------ *)
Lemma find_fam_add_metric n n' m fs f :
  find_fam n fs = Some f -> exists f', find_fam n (add_metric n' m fs) = Some f' /\ hdr3 f' = hdr3 f.
Proof.
  induction fs as [|g r IH]; simpl; [discriminate|].
  destruct (str_eqb (f_name g) n) eqn:E.
  - intros H. inversion H; subst. destruct (str_eqb (f_name f) n'); simpl; rewrite E; eexists; split; reflexivity.
  - intros H. destruct (str_eqb (f_name g) n'); simpl; rewrite E; [eexists; split; [exact H|reflexivity]|]. apply IH. exact H.
Qed.

Lemma merge_metrics_inv lg fname ftype ms : forall st st' errs f,
  inv lg st -> find_fam fname (fst st) = Some f -> f_type f = ftype -> 0 <= ftype <= 4 ->
  merge_metrics lg fname ftype ms st = (st', errs) -> inv lg st'.
Proof.
  induction ms as [|m r IH]; intros st st' errs f I FF FT R H; simpl in H.
  - inversion H; subst. exact I.
  - destruct st as [fs keys]. simpl in *.
    destruct (check_metric_consistency lg fname ftype m keys) as [e|[m' keys']] eqn:C.
    + destruct (merge_metrics lg fname ftype r (fs, keys)) as [st1 errs1] eqn:M. inversion H; subst.
      exact (IH (fs, keys) st' errs1 f I FF eq_refl R M).
    + destruct (cmc_ok _ _ _ _ _ _ _ C R) as (_ & K1 & K2 & MO). subst keys'.
      destruct (find_fam_add_metric fname fname m' fs f FF) as (f' & FF' & HH).
      eapply (IH (add_metric fname m' fs, metric_key fname m' :: keys)); try exact H; try exact FF'; try exact R.
      * eapply inv_add; try eassumption. rewrite FT. exact MO.
      * unfold hdr3 in HH. inversion HH. congruence.
Qed.

Definition fam_wf (f : family) : Prop := f_name f <> [] /\ 0 <= f_type f <= 4.

Lemma merge_family_inv lg mf st st' errs :
  inv lg st -> fam_wf mf -> merge_family lg mf st = (st', errs) -> inv lg st'.
Proof.
  intros I [NE R] H. unfold merge_family in H. destruct st as [fs keys]. simpl in *.
  destruct (find_fam (f_name mf) fs) as [ex|] eqn:FF.
  - destruct (negb (str_eqb (f_help ex) (f_help mf))); [inversion H; subst; exact I|].
    destruct (f_type ex =? f_type mf) eqn:T; simpl in H; [|inversion H; subst; exact I].
    apply Z.eqb_eq in T. destruct (find_fam_some _ _ _ FF) as [_ NM].
    eapply (merge_metrics_inv lg (f_name ex) (f_type ex) _ (fs, keys)); try exact H; try exact I.
    + simpl. rewrite NM. exact FF.
    + reflexivity.
    + rewrite T. exact R.
  - destruct (check_suffix_collisions (f_name mf) (f_type mf) fs) eqn:CS; [inversion H; subst; exact I|].
    eapply (merge_metrics_inv lg (f_name mf) (f_type mf) _ (fs ++ [mkF (f_name mf) (f_help mf) (f_type mf) []], keys)); try exact H.
    + apply inv_push; assumption.
    + simpl. apply find_fam_push; [exact FF|reflexivity].
    + reflexivity.
    + exact R.
Qed.

Lemma merge_families_inv lg mfs : forall st st' errs,
  inv lg st -> Forall fam_wf mfs -> merge_families lg mfs st = (st', errs) -> inv lg st'.
Proof.
  induction mfs as [|mf r IH]; intros st st' errs I W H; simpl in H.
  - inversion H; subst. exact I.
  - destruct (merge_family lg mf st) as [st1 e1] eqn:M. destruct (merge_families lg r st1) as [st2 e2] eqn:N.
    inversion H; subst. inversion W; subst. eapply IH; [|eassumption|exact N]. eapply merge_family_inv; eassumption.
Qed.

Definition gs_wf (gs : list (list family * list Z)) : Prop := Forall (fun g => Forall fam_wf (fst g)) gs.

Lemma merge_gatherers_inv lg gs : forall st st' errs,
  inv lg st -> gs_wf gs -> merge_gatherers lg gs st = (st', errs) -> inv lg st'.
Proof.
  induction gs as [|[mfs ge] r IH]; intros st st' errs I W H; simpl in H.
  - inversion H; subst. exact I.
  - destruct (merge_families lg mfs st) as [st1 e1] eqn:M. destruct (merge_gatherers lg r st1) as [st2 e2] eqn:N.
    inversion H; subst. inversion W; subst. eapply IH; [|eassumption|exact N]. eapply merge_families_inv; eassumption.
Qed.

Lemma gatherers_valid_lemma lg gs :
  gs_wf gs ->
  valid_result lg (fst (gatherers_gather lg gs)) = true /\ no_empty_family (fst (gatherers_gather lg gs)) = true.
Proof.
  intros W. unfold gatherers_gather. destruct (merge_gatherers lg gs ([], [])) as [[fs keys] errs] eqn:M.
  pose proof (merge_gatherers_inv _ _ _ _ _ (inv_empty lg) W M) as I.
  destruct (normalize_valid _ _ _ I) as (V & N & _). simpl. auto.
Qed.

(* monotonicity: what has been merged stays, with its help and type *)
Definition ext (fs fs' : list family) : Prop :=
  forall f, In f fs -> exists f', In f' fs' /\ hdr3 f' = hdr3 f /\ incl (f_metrics f) (f_metrics f').

Lemma ext_refl fs : ext fs fs.
Proof. intros f I. exists f. split; [exact I|]. split; [reflexivity|apply incl_refl]. Qed.

Lemma ext_trans a b c : ext a b -> ext b c -> ext a c.
Proof.
  intros H1 H2 f I. destruct (H1 f I) as (g & Ig & Hg & Mg). destruct (H2 g Ig) as (h & Ih & Hh & Mh).
  exists h. split; [exact Ih|]. split; [congruence|eapply incl_tran; eassumption].
Qed.

Lemma ext_add n m fs : ext fs (add_metric n m fs).
Proof.
  induction fs as [|g r IH]; intros f I; [contradiction|]. simpl.
  destruct (str_eqb (f_name g) n) eqn:E.
  - destruct I as [I|I].
    + subst g. eexists. split; [left; reflexivity|]. split; [reflexivity|]. simpl. apply incl_appl. apply incl_refl.
    + exists f. split; [right; exact I|]. split; [reflexivity|apply incl_refl].
  - destruct I as [I|I].
    + subst g. exists f. split; [left; reflexivity|]. split; [reflexivity|apply incl_refl].
    + destruct (IH f I) as (f' & If' & H). exists f'. split; [right; exact If'|exact H].
Qed.

Lemma ext_push fs g : ext fs (fs ++ [g]).
Proof. intros f I. exists f. split; [apply in_or_app; left; exact I|]. split; [reflexivity|apply incl_refl]. Qed.

Lemma merge_metrics_ext lg fname ftype ms : forall st st' errs,
  merge_metrics lg fname ftype ms st = (st', errs) -> ext (fst st) (fst st').
Proof.
  induction ms as [|m r IH]; intros st st' errs H; simpl in H.
  - inversion H; subst. apply ext_refl.
  - destruct (check_metric_consistency lg fname ftype m (snd st)) as [e|[m' keys']].
    + destruct (merge_metrics lg fname ftype r st) as [st1 errs1] eqn:M. inversion H; subst. eapply IH. exact M.
    + eapply ext_trans; [|eapply IH; exact H]. simpl. apply ext_add.
Qed.

Lemma merge_family_ext lg mf st st' errs : merge_family lg mf st = (st', errs) -> ext (fst st) (fst st').
Proof.
  unfold merge_family. destruct (find_fam (f_name mf) (fst st)) as [ex|].
  - destruct (negb (str_eqb (f_help ex) (f_help mf))); [intros H; inversion H; apply ext_refl|].
    destruct (negb (f_type ex =? f_type mf)); [intros H; inversion H; apply ext_refl|].
    apply merge_metrics_ext.
  - destruct (check_suffix_collisions (f_name mf) (f_type mf) (fst st)); [intros H; inversion H; apply ext_refl|].
    intros H. eapply ext_trans; [|eapply merge_metrics_ext; exact H]. simpl. apply ext_push.
Qed.

Lemma merge_families_ext lg mfs : forall st st' errs, merge_families lg mfs st = (st', errs) -> ext (fst st) (fst st').
Proof.
  induction mfs as [|mf r IH]; intros st st' errs H; simpl in H.
  - inversion H; subst. apply ext_refl.
  - destruct (merge_family lg mf st) as [st1 e1] eqn:M. destruct (merge_families lg r st1) as [st2 e2] eqn:N.
    inversion H; subst. eapply ext_trans; [eapply merge_family_ext; exact M|eapply IH; exact N].
Qed.

Lemma merge_gatherers_ext lg gs : forall st st' errs, merge_gatherers lg gs st = (st', errs) -> ext (fst st) (fst st').
Proof.
  induction gs as [|[mfs ge] r IH]; intros st st' errs H; simpl in H.
  - inversion H; subst. apply ext_refl.
  - destruct (merge_families lg mfs st) as [st1 e1] eqn:M. destruct (merge_gatherers lg r st1) as [st2 e2] eqn:N.
    inversion H; subst. eapply ext_trans; [eapply merge_families_ext; exact M|eapply IH; exact N].
Qed.

Lemma merge_gatherers_app lg gs1 gs2 st :
  merge_gatherers lg (gs1 ++ gs2) st =
  let (st1, e1) := merge_gatherers lg gs1 st in
  let (st2, e2) := merge_gatherers lg gs2 st1 in (st2, e1 ++ e2).
Proof.
  revert st; induction gs1 as [|[mfs ge] r IH]; intros st; simpl.
  - destruct (merge_gatherers lg gs2 st). reflexivity.
  - destruct (merge_families lg mfs st) as [st1 e1]. rewrite IH.
    destruct (merge_gatherers lg r st1) as [st2 e2]. destruct (merge_gatherers lg gs2 st2) as [st3 e3].
    rewrite <- !app_assoc. reflexivity.
Qed.

Lemma normalize_keeps fs g m :
  In g fs -> In m (f_metrics g) -> exists f, In f (normalize fs) /\ hdr3 f = hdr3 g /\ In m (f_metrics f).
Proof.
  intros Ig Im. exists (sort_metrics g). split; [|split; [reflexivity|]].
  - unfold normalize. eapply Permutation_in; [symmetry; apply isort_perm|]. apply filter_In. split; [apply in_map; exact Ig|].
    unfold nonempty. simpl. destruct (isort metric_lt (f_metrics g)) eqn:E; [|reflexivity].
    pose proof (isort_perm metric_lt (f_metrics g)) as P. rewrite E in P. apply Permutation_nil in P. rewrite P in Im. contradiction.
  - simpl. eapply Permutation_in; [symmetry; apply isort_perm|]. exact Im.
Qed.

(* first occurrence wins: what the first gatherers gs1 contributed (families with their help and type, metrics)
   is in the merged result whatever the later gatherers gs2 deliver *)
Lemma gatherers_first_wins_lemma lg gs1 gs2 g m :
  In g (fst (fst (merge_gatherers lg gs1 ([], [])))) -> In m (f_metrics g) ->
  exists f, In f (fst (gatherers_gather lg (gs1 ++ gs2))) /\ hdr3 f = hdr3 g /\ In m (f_metrics f).
Proof.
  intros Ig Im. unfold gatherers_gather. rewrite merge_gatherers_app.
  destruct (merge_gatherers lg gs1 ([], [])) as [st1 e1] eqn:M1.
  destruct (merge_gatherers lg gs2 st1) as [st2 e2] eqn:M2. simpl in *.
  destruct (merge_gatherers_ext _ _ _ _ _ M2 g Ig) as (g' & Ig' & H' & Inc).
  destruct (normalize_keeps _ _ m Ig' (Inc _ Im)) as (f & If & Hf & Imf).
  exists f. split; [exact If|]. split; [congruence|exact Imf].
Qed.

(* ------------------------------------------------------------------ *)
(* concrete witnesses                                                  *)
(* ------------------------------------------------------------------ *)
Definition ex_desc : desc := mkDesc false [109] [104] 7 [] [].                 (* NewDesc("m", "h", nil, nil) *)
Definition ex_counter : dmetric := mkD [] false true false false false None 1.  (* only Counter set *)
Definition ex_both : dmetric := mkD [] true true false false false (Some 5) 2.  (* Gauge and Counter set, timestamp 5 *)
Definition ex_a : dmetric := mkD [([97], [49])] true false false false false None 3.   (* gauge {a="1"} *)
Definition ex_b : dmetric := mkD [([98], [49])] true false false false false None 4.   (* gauge {b="1"} *)
Definition ex_e (m : dmetric) : emitted := mkE false ex_desc false m.

Lemma ex_names_ok l : names_ok (map ex_e l).
Proof. intros e I _. apply in_map_iff in I. destruct I as (m & E & _). subst e. discriminate. Qed.

(* the hypotheses of the theorems are satisfiable and the model computes: a duplicate is dropped and reported *)
Lemma gather_example_lemma :
  names_ok (map ex_e [ex_a; ex_b; ex_a]) /\
  gather false false [] (map ex_e [ex_a; ex_b; ex_a]) = ([mkF [109] [104] ty_gauge [ex_a; ex_b]], [e_dup_metric]).
Proof. split; [apply ex_names_ok|vm_compute; reflexivity]. Qed.

(* REFUTED (strong reading of "whenever no error is reported the result is independent of the order"):
   with a metric that has two payloads set, one arrival order reports no error and another one does.
   Confirmed on the real code: custom Metric writing {Counter} and one writing {Gauge, Counter} under one name. *)
Lemma nil_error_depends_on_order_refuted_lemma :
  exists lg ped ids arr1 arr2, names_ok arr1 /\ Permutation arr1 arr2 /\
    snd (gather lg ped ids arr1) = [] /\ snd (gather lg ped ids arr2) <> [].
Proof.
  exists false, false, [], (map ex_e [ex_counter; ex_both]), (map ex_e [ex_both; ex_counter]).
  split; [apply ex_names_ok|]. split; [apply perm_swap|]. split; vm_compute; [reflexivity|discriminate].
Qed.

(* ------------------------------------------------------------------ *)
(* what the boolean specification checker means                        *)
(* ------------------------------------------------------------------ *)
Lemma free_of_nsc fs : no_suffix_collisions fs = true -> suffix_free (map hdr fs).
Proof.
  unfold no_suffix_collisions. intros H b n Ib In'. rewrite forallb_forall in H.
  apply in_map_iff in Ib. destruct Ib as (f & E & If). subst b. simpl. rewrite map_fst_hdr in In'.
  specialize (H f If). apply andb_true_iff in H. destruct H as [H1 H2].
  unfold collides.
  destruct (str_eqb n (f_name f ++ suf_count)) eqn:E1.
  { apply str_eqb_eq in E1. subst n. apply str_in_In in In'. rewrite In' in H1.
    destruct ((f_type f =? ty_summary) || (f_type f =? ty_histogram)) eqn:T; [discriminate|].
    apply orb_false_iff in T. destruct T as [_ T]. rewrite T. reflexivity. }
  destruct (str_eqb n (f_name f ++ suf_sum)) eqn:E2.
  { apply str_eqb_eq in E2. subst n. apply str_in_In in In'. rewrite In' in H1.
    destruct ((f_type f =? ty_summary) || (f_type f =? ty_histogram)) eqn:T; [rewrite andb_false_r in H1; discriminate|].
    apply orb_false_iff in T. destruct T as [_ T]. rewrite T. reflexivity. }
  simpl. rewrite andb_false_r. simpl.
  destruct (str_eqb n (f_name f ++ suf_bucket)) eqn:E3; [|apply andb_false_r].
  apply str_eqb_eq in E3. subst n. apply str_in_In in In'. rewrite In' in H2.
  destruct (f_type f =? ty_histogram); [discriminate|reflexivity].
Qed.

Lemma series_eqb_refl a : series_eqb a a = true.
Proof. apply series_eqb_eq. reflexivity. Qed.

(* valid_result in words *)
Lemma valid_result_meaning_lemma lg fs : valid_result lg fs = true ->
  strictly_sorted (map f_name fs) = true /\ NoDup (map f_name fs) /\
  (forall f m, In f fs -> In m (f_metrics f) -> metric_ok lg (f_type f) m = true) /\
  NoDup (map series_of (all_metrics fs)) /\
  (forall f g, In f fs -> In g fs -> collides (f_name f) (f_type f) (f_name g) = false).
Proof.
  unfold valid_result. intros H.
  apply andb_true_iff in H. destruct H as [H H4]. apply andb_true_iff in H. destruct H as [H H3].
  apply andb_true_iff in H. destruct H as [H1 H2].
  split; [exact H1|]. split; [apply strictly_sorted_nodup; exact H1|]. split; [|split].
  - intros f m If Im. rewrite forallb_forall in H2. specialize (H2 f If). rewrite forallb_forall in H2. apply H2. exact Im.
  - eapply nodup_of_distinct; [apply series_eqb_refl|exact H3].
  - intros f g If Ig. apply (free_of_nsc fs H4 (hdr f) (f_name g)); [apply in_map; exact If|].
    rewrite map_fst_hdr. apply in_map. exact Ig.
Qed.

(* metric_ok in words *)
Lemma metric_ok_meaning_lemma lg ty m : metric_ok lg ty m = true ->
  type_matches ty m = true /\ strictly_sorted (map fst (d_labels m)) = true /\ NoDup (map fst (d_labels m)) /\
  (forall n v, In (n, v) (d_labels m) -> label_name_ok lg n = true /\ utf8_valid v = true) /\
  (ty = ty_summary -> ~ In quantile_label (map fst (d_labels m))) /\
  (ty = ty_histogram -> ~ In bucket_label (map fst (d_labels m))).
Proof.
  unfold metric_ok. intros H.
  apply andb_true_iff in H. destruct H as [H H5]. apply andb_true_iff in H. destruct H as [H H4].
  apply andb_true_iff in H. destruct H as [H H3]. apply andb_true_iff in H. destruct H as [H1 H2].
  split; [exact H1|]. split; [exact H2|]. split; [apply strictly_sorted_nodup; exact H2|]. split; [|split].
  - intros n v I. rewrite forallb_forall in H3. specialize (H3 _ I). simpl in H3. apply andb_true_iff in H3. exact H3.
  - intros -> I. apply str_in_In in I. rewrite I in H4. discriminate.
  - intros -> I. apply str_in_In in I. rewrite I in H5. discriminate.
Qed.

(* ------------------------------------------------------------------ *)
(* converse direction: no defect => no error                           *)
(* ------------------------------------------------------------------ *)
Lemma has_prefix_split s : forall p, has_prefix s p = true -> exists x, s = p ++ x.
Proof.
  induction s as [|c s IH]; intros [|d p] H; simpl in H; try discriminate.
  - exists []. reflexivity.
  - exists (c :: s). reflexivity.
  - apply andb_true_iff in H. destruct H as [H1 H2]. apply Z.eqb_eq in H1. subst d.
    destruct (IH _ H2) as [x ->]. exists x. reflexivity.
Qed.

Lemma has_suffix_strip n s : has_suffix n s = true -> n = strip n s ++ s.
Proof.
  unfold has_suffix. intros H. destruct (has_prefix_split _ _ H) as [x E].
  assert (Q : n = rev x ++ s).
  { rewrite <- (rev_involutive n). rewrite E. rewrite rev_app_distr. rewrite rev_involutive. reflexivity. }
  rewrite Q at 2. rewrite Q at 1. rewrite strip_app. reflexivity.
Qed.

Lemma has_fam_true x fs : has_fam x fs = true -> exists g, In g fs /\ f_name g = x.
Proof.
  unfold has_fam. destruct (find_fam x fs) as [g|] eqn:F; [|discriminate]. intros _. exists g. apply find_fam_some. exact F.
Qed.

Lemma collides_count bn bt : collides bn bt (bn ++ suf_count) = false -> (bt =? ty_summary) = false /\ (bt =? ty_histogram) = false.
Proof.
  unfold collides. rewrite str_eqb_refl. simpl. rewrite andb_true_r. intros H. apply orb_false_iff in H. destruct H as [H _].
  apply orb_false_iff in H. exact H.
Qed.

Lemma collides_sum bn bt : collides bn bt (bn ++ suf_sum) = false -> (bt =? ty_summary) = false /\ (bt =? ty_histogram) = false.
Proof.
  unfold collides. rewrite str_eqb_refl. rewrite orb_true_r. rewrite andb_true_r. intros H. apply orb_false_iff in H. destruct H as [H _].
  apply orb_false_iff in H. exact H.
Qed.

Lemma collides_bucket bn bt : collides bn bt (bn ++ suf_bucket) = false -> (bt =? ty_histogram) = false.
Proof.
  unfold collides. rewrite str_eqb_refl. rewrite andb_true_r. intros H. apply orb_false_iff in H. apply H.
Qed.

Lemma suffix_first_complete n fs :
  (forall f, In f fs -> collides (f_name f) (f_type f) n = false) -> suffix_first n fs = None.
Proof.
  intros H. unfold suffix_first. destruct (name_without_suffix n) as [|c w] eqn:W; [reflexivity|].
  destruct (find_fam (c :: w) fs) as [ex|] eqn:FF; [|reflexivity].
  destruct (find_fam_some _ _ _ FF) as [Iex Nex]. specialize (H ex Iex). rewrite Nex in H.
  unfold name_without_suffix in W.
  destruct (has_suffix n suf_count) eqn:S1.
  { apply has_suffix_strip in S1. rewrite W in S1. rewrite S1 in H. apply collides_count in H. destruct H as [A B]. rewrite A, B. reflexivity. }
  destruct (has_suffix n suf_sum) eqn:S2.
  { apply has_suffix_strip in S2. rewrite W in S2. rewrite S2 in H. apply collides_sum in H. destruct H as [A B]. rewrite A, B. reflexivity. }
  destruct (has_suffix n suf_bucket) eqn:S3; [|discriminate].
  pose proof (has_suffix_strip _ _ S3) as S4. rewrite W in S4. rewrite S4 in H. apply collides_bucket in H. rewrite H.
  simpl. destruct (f_type ex =? ty_summary); reflexivity.
Qed.

Lemma csc_complete n ty fs :
  (forall g, In g fs -> collides n ty (f_name g) = false) ->
  (forall f, In f fs -> collides (f_name f) (f_type f) n = false) ->
  check_suffix_collisions n ty fs = None.
Proof.
  intros H1 H2. unfold check_suffix_collisions. rewrite (suffix_first_complete _ _ H2).
  destruct (has_fam (n ++ suf_count) fs) eqn:F1.
  { destruct (has_fam_true _ _ F1) as (g & Ig & Ng). specialize (H1 g Ig). rewrite Ng in H1. apply collides_count in H1.
    destruct H1 as [A B]. rewrite A, B. simpl. reflexivity. }
  rewrite andb_false_r.
  destruct (has_fam (n ++ suf_sum) fs) eqn:F2.
  { destruct (has_fam_true _ _ F2) as (g & Ig & Ng). specialize (H1 g Ig). rewrite Ng in H1. apply collides_sum in H1.
    destruct H1 as [A B]. rewrite A, B. simpl. reflexivity. }
  rewrite andb_false_r.
  destruct (has_fam (n ++ suf_bucket) fs) eqn:F3; [|rewrite andb_false_r; reflexivity].
  destruct (has_fam_true _ _ F3) as (g & Ig & Ng). specialize (H1 g Ig). rewrite Ng in H1. apply collides_bucket in H1.
  rewrite H1. reflexivity.
Qed.

(* the labels of a well-formed dto.Metric (before sorting) *)
Definition labels_wf (lg : bool) (m : dmetric) : Prop :=
  NoDup (map fst (d_labels m)) /\
  Forall (fun l : label => check_label_name lg (fst l) = true /\ utf8_valid (snd l) = true /\
                           (d_summary m = true -> fst l <> quantile_label) /\
                           (d_hist m = true -> fst l <> bucket_label)) (d_labels m).

Lemma check_labels_complete lg s h ls : forall seen,
  NoDup (map fst ls) -> (forall n, In n (map fst ls) -> ~ In n seen) ->
  Forall (fun l : label => check_label_name lg (fst l) = true /\ utf8_valid (snd l) = true /\
                           (s = true -> fst l <> quantile_label) /\ (h = true -> fst l <> bucket_label)) ls ->
  check_labels lg s h seen ls = None.
Proof.
  induction ls as [|[n v] r IH]; intros seen N S F; [reflexivity|].
  simpl. inversion N; subst. inversion F; subst. simpl in *. destruct H3 as (A1 & A2 & A3 & A4).
  assert (E1 : str_in n seen = false) by (apply str_in_false; apply S; left; reflexivity).
  rewrite E1, A1, A2. simpl.
  assert (E3 : s && str_eqb n quantile_label = false).
  { destruct s; [|reflexivity]. simpl. apply str_eqb_neq. apply A3. reflexivity. }
  assert (E4 : h && str_eqb n bucket_label = false).
  { destruct h; [|reflexivity]. simpl. apply str_eqb_neq. apply A4. reflexivity. }
  rewrite E3, E4. apply IH; [assumption| |assumption].
  intros x Ix [Q|Q]; [subst x; contradiction|]. apply (S x); [right; exact Ix|exact Q].
Qed.

(* the conditions under which one processMetric call succeeds *)
Lemma process_success lg reg e fs keys :
  ds_err (e_desc e) = false -> e_write_err e = false -> labels_wf lg (e_dto e) ->
  match find_fam (e_name e) fs with
  | Some mf => f_help mf = e_help e /\ first_type (e_dto e) = Some (f_type mf)
  | None => exists ty, first_type (e_dto e) = Some ty /\ check_suffix_collisions (e_name e) ty fs = None
  end ->
  ~ In (key_of (emitted_as e)) keys ->
  match reg with
  | Some ids => z_in (ds_id (e_desc e)) ids = true /\ check_desc_consistency (e_help e) (snd (emitted_as e)) (e_desc e) = None
  | None => True
  end ->
  snd (process_metric lg reg e (fs, keys)) = None.
Proof.
  intros DE WE [LN LF] FAM KEY REG. unfold process_metric. rewrite DE, WE. unfold e_name, e_help in *.
  assert (CL : check_labels lg (d_summary (e_dto e)) (d_hist (e_dto e)) [] (d_labels (e_dto e)) = None).
  { apply check_labels_complete; [exact LN|intros n _ []|exact LF]. }
  assert (FIN : forall fname fhelp ftype fs',
            fname = ds_name (e_desc e) -> fhelp = ds_help (e_desc e) -> payload_for ftype (e_dto e) = Some true ->
            snd (finish_metric lg reg (e_desc e) fname fhelp ftype (e_dto e) fs' keys) = None).
  { intros fname fhelp ftype fs' -> -> P. unfold finish_metric, check_metric_consistency. rewrite P, CL.
    rewrite sort_labels_isort.
    change (metric_key (ds_name (e_desc e)) (set_labels (e_dto e) (isort label_lt (d_labels (e_dto e)))))
      with (key_of (emitted_as e)).
    apply str_in_false in KEY. rewrite KEY.
    destruct reg as [ids|]; [|reflexivity]. destruct REG as [R1 R2]. rewrite R1. simpl.
    unfold emitted_as in R2. simpl in R2. rewrite R2. reflexivity. }
  destruct (find_fam (ds_name (e_desc e)) fs) as [mf|] eqn:FF.
  - destruct FAM as [HE FT]. rewrite HE, str_eqb_refl. simpl. rewrite (first_type_payload _ _ FT).
    rewrite <- HE. apply FIN; [apply (find_fam_some _ _ _ FF)|exact HE|apply first_type_payload; exact FT].
  - destruct FAM as (ty & FT & CS). rewrite FT, CS. apply FIN; [reflexivity|reflexivity|apply first_type_payload; exact FT].
Qed.

Lemma cmc_keys lg fname ftype m keys m' keys' :
  check_metric_consistency lg fname ftype m keys = inr (m', keys') ->
  m' = set_labels m (isort label_lt (d_labels m)) /\ keys' = metric_key fname m' :: keys.
Proof.
  unfold check_metric_consistency.
  destruct (match payload_for ftype m with Some false => true | _ => false end); [discriminate|].
  destruct (check_labels lg (d_summary m) (d_hist m) [] (d_labels m)); [discriminate|].
  rewrite sort_labels_isort.
  destruct (str_in (metric_key fname (set_labels m (isort label_lt (d_labels m)))) keys); [discriminate|].
  intros H. inversion H. auto.
Qed.

Lemma finish_keys lg reg d fname fhelp ftype m fs keys st' o :
  finish_metric lg reg d fname fhelp ftype m fs keys = (st', o) ->
  forall k, In k (snd st') -> k = metric_key fname (set_labels m (isort label_lt (d_labels m))) \/ In k keys.
Proof.
  unfold finish_metric. destruct (check_metric_consistency lg fname ftype m keys) as [e|[m' keys']] eqn:C.
  - intros H; inversion H; subst. simpl. auto.
  - destruct (cmc_keys _ _ _ _ _ _ _ C) as [-> ->].
    assert (Q : forall k, In k (metric_key fname (set_labels m (isort label_lt (d_labels m))) :: keys) ->
                k = metric_key fname (set_labels m (isort label_lt (d_labels m))) \/ In k keys).
    { intros k [I|I]; [left; symmetry; exact I|right; exact I]. }
    destruct reg as [ids|].
    + destruct (negb (z_in (ds_id d) ids)); [intros H; inversion H; subst; exact Q|].
      destruct (check_desc_consistency fhelp _ d); intros H; inversion H; subst; exact Q.
    + intros H; inversion H; subst; exact Q.
Qed.

Lemma process_keys lg reg e st st' o :
  process_metric lg reg e st = (st', o) ->
  forall k, In k (snd st') -> k = key_of (emitted_as e) \/ In k (snd st).
Proof.
  destruct st as [fs keys]. unfold process_metric. intros H.
  destruct (ds_err (e_desc e)); [inversion H; subst; auto|].
  destruct (e_write_err e); [inversion H; subst; auto|].
  destruct (find_fam (ds_name (e_desc e)) fs) as [mf|] eqn:FF.
  - destruct (negb (str_eqb (f_help mf) (ds_help (e_desc e)))); [inversion H; subst; auto|].
    destruct (payload_for (f_type mf) (e_dto e)) as [[|]|]; try (inversion H; subst; auto; fail).
    destruct (find_fam_some _ _ _ FF) as [_ NM]. rewrite NM in H. exact (finish_keys _ _ _ _ _ _ _ _ _ _ _ H).
  - destruct (first_type (e_dto e)) as [ty|]; [|inversion H; subst; auto].
    destruct (check_suffix_collisions (ds_name (e_desc e)) ty fs); [inversion H; subst; auto|].
    exact (finish_keys _ _ _ _ _ _ _ _ _ _ _ H).
Qed.

(* well-behaved emitted metrics: valid Desc, successful Write, well-formed labels, one help and one leading payload type
   per name, pairwise distinct (name, labels, timestamp) fingerprints, no suffix collision between the names, and on a
   pedantic registry consistent with a registered descriptor *)
Definition wellbehaved (lg ped : bool) (ids : list Z) (arr : list emitted) : Prop :=
  (forall e, In e arr ->
     ds_err (e_desc e) = false /\ e_write_err e = false /\ e_name e <> [] /\ labels_wf lg (e_dto e) /\
     first_type (e_dto e) <> None /\
     (ped && e_checked e = true ->
        z_in (ds_id (e_desc e)) ids = true /\
        check_desc_consistency (e_help e) (snd (emitted_as e)) (e_desc e) = None)) /\
  (forall e e', In e arr -> In e' arr -> e_name e = e_name e' ->
     e_help e = e_help e' /\ first_type (e_dto e) = first_type (e_dto e')) /\
  NoDup (map key_of (map emitted_as arr)) /\
  (forall e e' t, In e arr -> In e' arr -> first_type (e_dto e) = Some t -> collides (e_name e) t (e_name e') = false).

Lemma run_wellbehaved lg ped ids suf : forall pre st st' errs,
  wellbehaved lg ped ids (pre ++ suf) -> inv lg st ->
  (forall h, In h (map hdr3 (fst st)) ->
     exists e ty, In e pre /\ h = (e_name e, e_help e, ty) /\ first_type (e_dto e) = Some ty) ->
  (forall k, In k (snd st) -> In k (map key_of (map emitted_as pre))) ->
  run lg ped ids suf st = (st', errs) -> errs = [].
Proof.
  induction suf as [|e r IH]; intros pre st st' errs WB I CR KS H; simpl in H.
  - inversion H. reflexivity.
  - destruct WB as (W1 & W2 & W3 & W4).
    assert (Ie : In e (pre ++ e :: r)) by (apply in_or_app; right; left; reflexivity).
    assert (Ipre : forall c, In c pre -> In c (pre ++ e :: r)) by (intros c Ic; apply in_or_app; left; exact Ic).
    destruct (W1 e Ie) as (DE & WE & NE & LW & FT & PED).
    destruct st as [fs keys]. simpl in CR, KS.
    assert (OK : snd (process_metric lg (reg_for ped ids e) e (fs, keys)) = None).
    { apply process_success; try assumption.
      - destruct (find_fam (e_name e) fs) as [mf|] eqn:FF.
        + destruct (find_fam_some _ _ _ FF) as [Imf Nmf].
          destruct (CR (hdr3 mf) (in_map hdr3 _ _ Imf)) as (c & ty & Ic & Ec & Fc).
          unfold hdr3 in Ec. inversion Ec.
          destruct (W2 c e (Ipre c Ic) Ie) as [Q1 Q2]; [congruence|]. split; [congruence|]. rewrite <- Q2. rewrite H3. exact Fc.
        + destruct (first_type (e_dto e)) as [ty|] eqn:FTe; [|contradiction]. exists ty. split; [reflexivity|].
          apply csc_complete.
          * intros g Ig. destruct (CR (hdr3 g) (in_map hdr3 _ _ Ig)) as (c & tc & Ic & Ec & Fc).
            unfold hdr3 in Ec. inversion Ec. rewrite H1. apply (W4 e c ty Ie (Ipre c Ic) FTe).
          * intros f If. destruct (CR (hdr3 f) (in_map hdr3 _ _ If)) as (c & tc & Ic & Ec & Fc).
            unfold hdr3 in Ec. inversion Ec. rewrite H1, H3. apply (W4 c e tc (Ipre c Ic) Ie Fc).
      - intros K. apply KS in K. rewrite !map_app in W3. simpl in W3. apply NoDup_remove_2 in W3.
        apply W3. apply in_or_app. left. exact K.
      - unfold reg_for. destruct (ped && e_checked e) eqn:PC; [apply PED; reflexivity|exact Logic.I]. }
    destruct (process_metric lg (reg_for ped ids e) e (fs, keys)) as [st1 o] eqn:P. simpl in OK. subst o.
    destruct (run lg ped ids r st1) as [st2 errs'] eqn:R. inversion H; subst st2 errs. simpl.
    destruct (process_effect _ _ _ _ _ _ I (fun _ => NE) P) as [I1 _].
    destruct (process_hdr _ _ _ _ _ _ P) as [S1 _].
    apply (IH (pre ++ [e]) st1 st' errs'); [rewrite <- app_assoc; simpl; exact (conj W1 (conj W2 (conj W3 W4)))|exact I1| |  |exact R].
    + intros h Ih. simpl in S1. destruct S1 as [Q|(ty & Q & FTy)]; rewrite Q in Ih.
      * destruct (CR h Ih) as (c & tc & Ic & Ec & Fc). exists c, tc. split; [apply in_or_app; left; exact Ic|]. split; assumption.
      * apply in_app_or in Ih. destruct Ih as [Ih|[Ih|[]]].
        -- destruct (CR h Ih) as (c & tc & Ic & Ec & Fc). exists c, tc. split; [apply in_or_app; left; exact Ic|]. split; assumption.
        -- exists e, ty. split; [apply in_or_app; right; left; reflexivity|]. split; [symmetry; exact Ih|exact FTy].
    + intros k Ik. destruct (process_keys _ _ _ _ _ _ P k Ik) as [Q|Q].
      * subst k. rewrite !map_app. apply in_or_app. right. left. reflexivity.
      * rewrite !map_app. apply in_or_app. left. apply KS. exact Q.
Qed.

Lemma wellbehaved_names_ok lg ped ids arr : wellbehaved lg ped ids arr -> names_ok arr.
Proof. intros (W1 & _) e I _. destruct (W1 e I) as (_ & _ & NE & _). exact NE. Qed.

Lemma gather_wellbehaved_lemma lg ped ids arr :
  wellbehaved lg ped ids arr ->
  snd (gather lg ped ids arr) = [] /\
  Permutation (all_metrics (fst (gather lg ped ids arr))) (map emitted_as arr).
Proof.
  intros WB.
  assert (E : snd (gather lg ped ids arr) = []).
  { unfold gather. destruct (run lg ped ids arr ([], [])) as [st errs] eqn:R. simpl.
    apply (run_wellbehaved lg ped ids arr [] ([], []) st errs); [exact WB|apply inv_empty|intros h []|intros k []|exact R]. }
  split; [exact E|]. apply gather_all_present_lemma; [eapply wellbehaved_names_ok; exact WB|exact E].
Qed.

(* a satisfiable instance *)
Lemma wellbehaved_example_lemma : wellbehaved false false [] (map ex_e [ex_a; ex_b]).
Proof.
  unfold wellbehaved. split; [|split; [|split]].
  - intros e [<-|[<-|[]]]; (split; [reflexivity|]); (split; [reflexivity|]); (split; [discriminate|]);
      (split; [split; [repeat constructor; intros []|repeat constructor; simpl; discriminate]|]); (split; [discriminate|]); discriminate.
  - intros e e' [<-|[<-|[]]] [<-|[<-|[]]] _; split; reflexivity.
  - vm_compute. repeat constructor; simpl; intros H; repeat (destruct H as [H|H]; try discriminate); exact H.
  - intros e e' t [<-|[<-|[]]] [<-|[<-|[]]] H; inversion H; subst; vm_compute; reflexivity.
Qed.

(* ------------------------------------------------------------------ *)
(* the boolean complete_or_reported checker (applied by the harness to the implementation's output) *)
(* ------------------------------------------------------------------ *)
Lemma dmetric_eqb_eq a b : dmetric_eqb a b = true <-> a = b.
Proof.
  destruct a as [l1 g1 c1 s1 u1 h1 t1 v1], b as [l2 g2 c2 s2 u2 h2 t2 v2]. unfold dmetric_eqb. simpl. split; intros H.
  - repeat (apply andb_true_iff in H; destruct H as [H ?]).
    apply labels_eqb_eq in H. apply Bool.eqb_prop in H6, H5, H4, H3, H2. apply optz_eqb_eq in H1. apply Z.eqb_eq in H0.
    subst. reflexivity.
  - inversion H; subst. rewrite (proj2 (labels_eqb_eq l2 l2) eq_refl), !Bool.eqb_reflx, (proj2 (optz_eqb_eq t2 t2) eq_refl), Z.eqb_refl.
    reflexivity.
Qed.

Lemma nm_eqb_eq a b : nm_eqb a b = true <-> a = b.
Proof.
  destruct a as [n m], b as [n' m']. unfold nm_eqb. simpl. split; intros H.
  - apply andb_true_iff in H. destruct H as [H1 H2]. apply str_eqb_eq in H1. apply dmetric_eqb_eq in H2. subst. reflexivity.
  - inversion H; subst. rewrite str_eqb_refl. apply dmetric_eqb_eq. reflexivity.
Qed.

Section Multiset.
  Context {A : Type} (eqb : A -> A -> bool) (eqb_eq : forall a b, eqb a b = true <-> a = b).

  Lemma remove_first_in x l : In x l -> exists l', remove_first eqb x l = Some l' /\ Permutation l (x :: l').
  Proof.
    induction l as [|y r IH]; intros I; [contradiction|]. simpl.
    destruct (eqb x y) eqn:E.
    - apply eqb_eq in E. subst y. exists r. split; reflexivity.
    - destruct I as [I|I]; [subst y; rewrite (proj2 (eqb_eq x x) eq_refl) in E; discriminate|].
      destruct (IH I) as (l' & R & P). rewrite R. exists (y :: l'). split; [reflexivity|].
      rewrite P. apply perm_swap.
  Qed.

  Lemma sub_multiset_perm a : forall b rest, Permutation b (a ++ rest) ->
    exists rest', sub_multiset eqb a b = Some rest' /\ Permutation rest rest'.
  Proof.
    induction a as [|x a IH]; intros b rest P; simpl.
    - exists b. split; [reflexivity|symmetry; exact P].
    - assert (I : In x b) by (eapply Permutation_in; [symmetry; exact P|left; reflexivity]).
      destruct (remove_first_in x b I) as (b' & R & Pb). rewrite R. apply IH.
      apply (Permutation_cons_inv (a := x)). rewrite <- Pb. exact P.
  Qed.
End Multiset.

Lemma gather_checker_lemma lg ped ids arr :
  names_ok arr ->
  complete_or_reported arr (fst (gather lg ped ids arr)) (length (snd (gather lg ped ids arr))) = true.
Proof.
  intros NO. destruct (gather_complete_lemma lg ped ids arr NO) as (acc & rej & P1 & P2 & L).
  unfold complete_or_reported.
  assert (P : Permutation (map emitted_as arr) (all_metrics (fst (gather lg ped ids arr)) ++ map emitted_as rej)).
  { rewrite P2. rewrite <- map_app. apply Permutation_map. exact P1. }
  destruct (sub_multiset_perm nm_eqb nm_eqb_eq _ _ _ P) as (rest' & S & PR). rewrite S.
  apply Nat.eqb_eq. rewrite <- L. rewrite <- (Permutation_length PR). apply map_length.
Qed.

(* ------------------------------------------------------------------ *)
(* MetricSorter.Less is a strict total order on metrics with distinct (labels, timestamp) *)
(* ------------------------------------------------------------------ *)
Lemma elt_lt_none p q : elt_lt p q = None <-> p = q.
Proof.
  destruct p as [n v], q as [n' v']. unfold elt_lt. simpl. split.
  - destruct (str_eqb n n') eqn:E1; simpl; [|discriminate]. destruct (str_eqb v v') eqn:E2; simpl; [|discriminate].
    intros _. apply str_eqb_eq in E1, E2. subst. reflexivity.
  - intros H. inversion H; subst. rewrite !str_eqb_refl. reflexivity.
Qed.

Lemma elt_lt_trans p q r : elt_lt p q = Some true -> elt_lt q r = Some true -> elt_lt p r = Some true.
Proof.
  destruct p as [n1 v1], q as [n2 v2], r as [n3 v3]. unfold elt_lt. simpl.
  destruct (str_eqb n1 n2) eqn:E12; simpl.
  - apply str_eqb_eq in E12. subst n2. destruct (str_eqb v1 v2) eqn:F12; simpl; [discriminate|]. intros H1.
    destruct (str_eqb n1 n3) eqn:E13; simpl; [|auto].
    destruct (str_eqb v2 v3) eqn:F23; simpl; [discriminate|]. intros H2.
    injection H1 as H1. injection H2 as H2. pose proof (str_ltb_trans _ _ _ H1 H2) as T.
    destruct (str_eqb v1 v3) eqn:F13; simpl; [|f_equal; exact T].
    apply str_eqb_eq in F13. subst v3. rewrite str_ltb_irrefl in T. discriminate.
  - intros H1. injection H1 as H1. destruct (str_eqb n2 n3) eqn:E23; simpl.
    + apply str_eqb_eq in E23. subst n3. rewrite E12. simpl. intros _. f_equal. exact H1.
    + intros H2. injection H2 as H2. pose proof (str_ltb_trans _ _ _ H1 H2) as T.
      destruct (str_eqb n1 n3) eqn:E13; simpl; [|f_equal; exact T].
      apply str_eqb_eq in E13. subst n3. rewrite str_ltb_irrefl in T. discriminate.
Qed.

Lemma elt_lt_true_rev p q : elt_lt p q = Some true -> elt_lt q p = Some false.
Proof.
  destruct p as [n v], q as [n' v']. unfold elt_lt. simpl.
  destruct (str_eqb n n') eqn:E1; simpl.
  - apply str_eqb_eq in E1. subst n'. rewrite str_eqb_refl. simpl.
    destruct (str_eqb v v') eqn:E2; simpl; [discriminate|]. intros H. injection H as H.
    assert (str_eqb v' v = false) as -> by (apply str_eqb_neq; apply str_eqb_neq in E2; congruence). simpl.
    rewrite (str_ltb_asym _ _ H). reflexivity.
  - intros H. injection H as H.
    assert (str_eqb n' n = false) as -> by (apply str_eqb_neq; apply str_eqb_neq in E1; congruence). simpl.
    rewrite (str_ltb_asym _ _ H). reflexivity.
Qed.

Lemma elt_lt_false_rev p q : elt_lt p q = Some false -> elt_lt q p = Some true.
Proof.
  destruct p as [n v], q as [n' v']. unfold elt_lt. simpl.
  destruct (str_eqb n n') eqn:E1; simpl.
  - apply str_eqb_eq in E1. subst n'. rewrite str_eqb_refl. simpl.
    destruct (str_eqb v v') eqn:E2; simpl; [discriminate|]. intros H. injection H as H.
    apply str_eqb_neq in E2.
    assert (str_eqb v' v = false) as -> by (apply str_eqb_neq; congruence). simpl.
    rewrite (str_ltb_neq_total _ _ E2 H). reflexivity.
  - intros H. injection H as H. apply str_eqb_neq in E1.
    assert (str_eqb n' n = false) as -> by (apply str_eqb_neq; congruence). simpl.
    rewrite (str_ltb_neq_total _ _ E1 H). reflexivity.
Qed.

Lemma labels_lt_refl a : labels_lt a a = None.
Proof. induction a as [|p a IH]; simpl; [reflexivity|]. rewrite (proj2 (elt_lt_none p p) eq_refl). exact IH. Qed.

Lemma labels_lt_none_eq a : forall b, length a = length b -> labels_lt a b = None -> a = b.
Proof.
  induction a as [|p a IH]; intros [|q b] L H; simpl in *; try discriminate; [reflexivity|].
  destruct (elt_lt p q) eqn:E; [discriminate|]. apply elt_lt_none in E. subst q. f_equal. apply IH; [lia|exact H].
Qed.

Lemma labels_lt_trans a : forall b c,
  labels_lt a b = Some true -> labels_lt b c = Some true -> labels_lt a c = Some true.
Proof.
  induction a as [|p a IH]; intros [|q b] [|r c] H1 H2; simpl in *; try discriminate.
  destruct (elt_lt p q) as [[|]|] eqn:E1; try discriminate.
  - destruct (elt_lt q r) as [[|]|] eqn:E2; try discriminate.
    + rewrite (elt_lt_trans _ _ _ E1 E2). reflexivity.
    + apply elt_lt_none in E2. subst r. rewrite E1. reflexivity.
  - apply elt_lt_none in E1. subst q. destruct (elt_lt p r) as [[|]|] eqn:E2; try discriminate; [reflexivity|].
    eapply IH; eassumption.
Qed.

Lemma labels_lt_true_rev a : forall b, labels_lt a b = Some true -> labels_lt b a = Some false.
Proof.
  induction a as [|p a IH]; intros [|q b] H; simpl in *; try discriminate.
  destruct (elt_lt p q) as [[|]|] eqn:E; try discriminate.
  - rewrite (elt_lt_true_rev _ _ E). reflexivity.
  - apply elt_lt_none in E. subst q. rewrite (proj2 (elt_lt_none p p) eq_refl). apply IH. exact H.
Qed.

Lemma labels_lt_false_rev a : forall b, labels_lt a b = Some false -> labels_lt b a = Some true.
Proof.
  induction a as [|p a IH]; intros [|q b] H; simpl in *; try discriminate.
  destruct (elt_lt p q) as [[|]|] eqn:E; try discriminate.
  - rewrite (elt_lt_false_rev _ _ E). reflexivity.
  - apply elt_lt_none in E. subst q. rewrite (proj2 (elt_lt_none p p) eq_refl). apply IH. exact H.
Qed.

Lemma ts_lt_trans a b c : ts_lt a b = true -> ts_lt b c = true -> ts_lt a c = true.
Proof.
  destruct a, b, c; simpl; intros H1 H2; try discriminate; try reflexivity.
  apply Z.ltb_lt in H1, H2. apply Z.ltb_lt. lia.
Qed.

Lemma metric_lt_trans a b c : metric_lt a b = true -> metric_lt b c = true -> metric_lt a c = true.
Proof.
  unfold metric_lt.
  destruct (Nat.eqb (length (d_labels a)) (length (d_labels b))) eqn:L1;
  destruct (Nat.eqb (length (d_labels b)) (length (d_labels c))) eqn:L2; simpl; intros H1 H2.
  - apply Nat.eqb_eq in L1, L2.
    assert (Nat.eqb (length (d_labels a)) (length (d_labels c)) = true) as -> by (apply Nat.eqb_eq; lia). simpl.
    destruct (labels_lt (d_labels a) (d_labels b)) as [[|]|] eqn:E1; try discriminate;
    destruct (labels_lt (d_labels b) (d_labels c)) as [[|]|] eqn:E2; try discriminate.
    + rewrite (labels_lt_trans _ _ _ E1 E2). reflexivity.
    + apply labels_lt_none_eq in E2; [|exact L2]. rewrite <- E2. rewrite E1. reflexivity.
    + apply labels_lt_none_eq in E1; [|exact L1]. rewrite E1. rewrite E2. reflexivity.
    + apply labels_lt_none_eq in E1; [|exact L1]. apply labels_lt_none_eq in E2; [|exact L2].
      rewrite E1, E2. rewrite labels_lt_refl. eapply ts_lt_trans; eassumption.
  - apply Nat.eqb_eq in L1. apply Nat.eqb_neq in L2. apply Nat.ltb_lt in H2.
    assert (Nat.eqb (length (d_labels a)) (length (d_labels c)) = false) as -> by (apply Nat.eqb_neq; lia). simpl.
    apply Nat.ltb_lt. lia.
  - apply Nat.eqb_neq in L1. apply Nat.eqb_eq in L2. apply Nat.ltb_lt in H1.
    assert (Nat.eqb (length (d_labels a)) (length (d_labels c)) = false) as -> by (apply Nat.eqb_neq; lia). simpl.
    apply Nat.ltb_lt. lia.
  - apply Nat.ltb_lt in H1, H2.
    assert (Nat.eqb (length (d_labels a)) (length (d_labels c)) = false) as -> by (apply Nat.eqb_neq; lia). simpl.
    apply Nat.ltb_lt. lia.
Qed.

Lemma metric_lt_asym a b : metric_lt a b = true -> metric_lt b a = false.
Proof.
  unfold metric_lt.
  destruct (Nat.eqb (length (d_labels a)) (length (d_labels b))) eqn:L1; simpl; intros H.
  - apply Nat.eqb_eq in L1.
    assert (Nat.eqb (length (d_labels b)) (length (d_labels a)) = true) as -> by (apply Nat.eqb_eq; lia). simpl.
    destruct (labels_lt (d_labels a) (d_labels b)) as [[|]|] eqn:E; try discriminate.
    + rewrite (labels_lt_true_rev _ _ E). reflexivity.
    + apply labels_lt_none_eq in E; [|exact L1]. rewrite E. rewrite labels_lt_refl.
      destruct (d_ts a), (d_ts b); simpl in *; try discriminate; try reflexivity.
      apply Z.ltb_lt in H. apply Z.ltb_ge. lia.
  - apply Nat.eqb_neq in L1. apply Nat.ltb_lt in H.
    assert (Nat.eqb (length (d_labels b)) (length (d_labels a)) = false) as -> by (apply Nat.eqb_neq; lia). simpl.
    apply Nat.ltb_ge. lia.
Qed.

(* what MetricSorter.Less cannot tell apart has the same labels and timestamp *)
Definition mkey (m : dmetric) : list label * option Z := (d_labels m, d_ts m).

Lemma metric_lt_total a b : metric_lt a b = false -> metric_lt b a = false -> mkey a = mkey b.
Proof.
  unfold metric_lt, mkey.
  destruct (Nat.eqb (length (d_labels a)) (length (d_labels b))) eqn:L1; simpl; intros H1.
  - apply Nat.eqb_eq in L1.
    assert (Nat.eqb (length (d_labels b)) (length (d_labels a)) = true) as -> by (apply Nat.eqb_eq; lia). simpl.
    destruct (labels_lt (d_labels a) (d_labels b)) as [[|]|] eqn:E; try discriminate.
    + rewrite (labels_lt_false_rev _ _ E). discriminate.
    + apply labels_lt_none_eq in E; [|exact L1]. rewrite E. rewrite labels_lt_refl. intros H2. f_equal.
      destruct (d_ts a), (d_ts b); simpl in *; try discriminate; try reflexivity.
      apply Z.ltb_ge in H1, H2. f_equal. lia.
  - apply Nat.eqb_neq in L1. apply Nat.ltb_ge in H1.
    assert (Nat.eqb (length (d_labels b)) (length (d_labels a)) = false) as -> by (apply Nat.eqb_neq; lia). simpl.
    intros H2. apply Nat.ltb_ge in H2. lia.
Qed.

(* insertion sort by a transitive, asymmetric order does not depend on the order of the input
   as long as any two elements are comparable *)
Section SortUnique.
  Context {A : Type} (ltb : A -> A -> bool).
  Hypothesis ltb_trans : forall a b c, ltb a b = true -> ltb b c = true -> ltb a c = true.
  Hypothesis ltb_asym : forall a b, ltb a b = true -> ltb b a = false.

  Lemma insert_comm_lt x y s : ltb x y = true -> insert ltb y (insert ltb x s) = insert ltb x (insert ltb y s).
  Proof.
    intros XY. induction s as [|z r IH]; simpl.
    - rewrite XY. rewrite (ltb_asym _ _ XY). reflexivity.
    - destruct (ltb z x) eqn:ZX.
      + rewrite (ltb_trans _ _ _ ZX XY). simpl. rewrite ZX, (ltb_trans _ _ _ ZX XY). rewrite IH. reflexivity.
      + destruct (ltb z y) eqn:ZY; simpl; rewrite ?XY, ?ZX, ?ZY, ?(ltb_asym _ _ XY); reflexivity.
  Qed.

  Lemma isort_perm_eq l l' :
    Permutation l l' -> (forall x y, In x l -> In y l -> x = y \/ ltb x y = true \/ ltb y x = true) ->
    isort ltb l = isort ltb l'.
  Proof.
    induction 1 as [|x l l' P IH|x y l|l l' l'' P1 IH1 P2 IH2]; intros T.
    - reflexivity.
    - simpl. rewrite IH; [reflexivity|]. intros a b Ia Ib. apply T; right; assumption.
    - simpl. destruct (T x y (or_intror (or_introl eq_refl)) (or_introl eq_refl)) as [E|[L|L]].
      + subst. reflexivity.
      + apply insert_comm_lt. exact L.
      + symmetry. apply insert_comm_lt. exact L.
    - rewrite IH1 by exact T. apply IH2. intros a b Ia Ib.
      apply T; eapply Permutation_in; try (symmetry; exact P1); assumption.
  Qed.
End SortUnique.

Lemma metrics_comparable ms :
  NoDup (map mkey ms) -> forall x y, In x ms -> In y ms -> x = y \/ metric_lt x y = true \/ metric_lt y x = true.
Proof.
  intros N x y Ix Iy.
  destruct (metric_lt x y) eqn:A; [auto|]. destruct (metric_lt y x) eqn:B; [auto|]. left.
  pose proof (metric_lt_total _ _ A B) as K.
  clear A B. induction ms as [|m r IH]; [contradiction|]. simpl in N. inversion N; subst.
  destruct Ix as [Ix|Ix], Iy as [Iy|Iy].
  - congruence.
  - subst m. exfalso. apply H1. rewrite K. apply in_map. exact Iy.
  - subst m. exfalso. apply H1. rewrite <- K. apply in_map. exact Ix.
  - apply IH; assumption.
Qed.

Lemma nodup_app_r {A} (a b : list A) : NoDup (a ++ b) -> NoDup b.
Proof. induction a as [|x a IH]; simpl; intros N; [exact N|]. inversion N; subst. apply IH. assumption. Qed.

Lemma nodup_app_l {A} (a b : list A) : NoDup (a ++ b) -> NoDup a.
Proof.
  induction a as [|x a IH]; simpl; intros N; [constructor|]. inversion N; subst. constructor; [|apply IH; assumption].
  intros I. apply H1. apply in_or_app. left. exact I.
Qed.

Lemma family_mkeys_nodup fs f :
  NoDup (map series_of (all_metrics fs)) -> In f fs -> NoDup (map mkey (f_metrics f)).
Proof.
  intros N I. apply in_split in I. destruct I as (r1 & r2 & ->).
  rewrite all_metrics_app, all_metrics_cons in N. rewrite !map_app in N.
  apply nodup_app_r in N. apply nodup_app_l in N.
  rewrite map_map in N. simpl in N.
  assert (E : map (fun m => series_of (f_name f, m)) (f_metrics f) =
              map (fun k : list label * option Z => (f_name f, fst k, snd k)) (map mkey (f_metrics f))).
  { rewrite map_map. reflexivity. }
  rewrite E in N. eapply NoDup_map_inv. exact N.
Qed.

Lemma family_eq f g : hdr3 f = hdr3 g -> f_metrics f = f_metrics g -> f = g.
Proof. destruct f, g. unfold hdr3. simpl. intros H1 H2. inversion H1. subst. reflexivity. Qed.

Lemma forall2_eq {A} (l1 l2 : list A) : Forall2 eq l1 l2 -> l1 = l2.
Proof. induction 1; [reflexivity|]. subst. reflexivity. Qed.

(* the strong form: the same slices, including the order of the metrics inside every family *)
Lemma gather_order_independent_exact_lemma lg ped ids arr1 arr2 :
  names_ok arr1 -> Permutation arr1 arr2 ->
  snd (gather lg ped ids arr1) = [] -> snd (gather lg ped ids arr2) = [] ->
  fst (gather lg ped ids arr1) = fst (gather lg ped ids arr2).
Proof.
  intros NO1 PA E1 E2.
  pose proof (gather_order_independent_lemma lg ped ids arr1 arr2 NO1 PA E1 E2) as SR.
  assert (NO2 : names_ok arr2).
  { intros e I. apply NO1. eapply Permutation_in; [symmetry; exact PA|exact I]. }
  destruct (gather_valid_lemma lg ped ids arr1 NO1) as [V1 _].
  destruct (valid_result_meaning_lemma _ _ V1) as (_ & _ & _ & ND1 & _).
  unfold gather in *.
  destruct (run lg ped ids arr1 ([], [])) as [[fs1 k1] er1].
  destruct (run lg ped ids arr2 ([], [])) as [[fs2 k2] er2]. simpl in *.
  apply forall2_eq. unfold same_result in SR.
  assert (G : forall r1 r2, Forall2 (fun f g => hdr3 f = hdr3 g /\ Permutation (f_metrics f) (f_metrics g)) r1 r2 ->
              (forall f, In f r1 -> In f (normalize fs1)) -> (forall g, In g r2 -> In g (normalize fs2)) -> Forall2 eq r1 r2).
  { induction 1 as [|f g r1 r2 [HH PM] F IH]; intros I1 I2; constructor.
    - apply family_eq; [exact HH|].
      destruct (normalize_in _ _ (I1 f (or_introl eq_refl))) as (f0 & _ & Ef & _).
      destruct (normalize_in _ _ (I2 g (or_introl eq_refl))) as (g0 & _ & Eg & _).
      subst f g. simpl in *. apply isort_perm_eq; [apply metric_lt_trans|apply metric_lt_asym| |].
      + rewrite <- (isort_perm metric_lt (f_metrics f0)). rewrite PM. apply isort_perm.
      + apply metrics_comparable.
        pose proof (family_mkeys_nodup _ _ ND1 (I1 _ (or_introl eq_refl))) as N. simpl in N.
        eapply Permutation_NoDup; [apply Permutation_map; apply isort_perm|exact N].
    - apply IH; intros x Ix; [apply I1|apply I2]; right; exact Ix. }
  apply G; [exact SR|auto|auto].
Qed.

(* the metric names of the result are names of emitted Descs without error *)
Lemma process_names lg reg e st st' o :
  process_metric lg reg e st = (st', o) ->
  forall n, In n (map f_name (fst st')) -> In n (map f_name (fst st)) \/ (n = e_name e /\ ds_err (e_desc e) = false).
Proof.
  intros H n I. destruct (ds_err (e_desc e)) eqn:DE.
  - destruct st as [fs keys]. unfold process_metric in H. rewrite DE in H. inversion H; subst. left. exact I.
  - destruct (process_hdr _ _ _ _ _ _ H) as [[Q|(ty & Q & _)] _].
    + left. assert (map f_name (fst st') = map f_name (fst st)) as <-; [|exact I].
      rewrite <- (map_map hdr3 (fun h => fst (fst h))). rewrite Q. rewrite map_map. reflexivity.
    + assert (E : map f_name (fst st') = map f_name (fst st) ++ [e_name e]).
      { rewrite <- (map_map hdr3 (fun h => fst (fst h))). rewrite Q. rewrite map_app. rewrite map_map. reflexivity. }
      rewrite E in I. apply in_app_or in I. destruct I as [I|[I|[]]]; [left; exact I|right; split; [symmetry; exact I|reflexivity]].
Qed.

Lemma run_names lg ped ids arr : forall st st' errs,
  run lg ped ids arr st = (st', errs) ->
  forall n, In n (map f_name (fst st')) ->
    In n (map f_name (fst st)) \/ exists e, In e arr /\ n = e_name e /\ ds_err (e_desc e) = false.
Proof.
  induction arr as [|e r IH]; intros st st' errs H n I; simpl in H.
  - inversion H; subst. left. exact I.
  - destruct (process_metric lg (reg_for ped ids e) e st) as [st1 o] eqn:P.
    destruct (run lg ped ids r st1) as [st2 errs'] eqn:R. inversion H; subst st2 errs.
    destruct (IH _ _ _ R n I) as [J|(x & Ix & Ex & Dx)].
    + destruct (process_names _ _ _ _ _ _ P n J) as [K|[K1 K2]]; [left; exact K|].
      right. exists e. split; [left; reflexivity|]. split; assumption.
    + right. exists x. split; [right; exact Ix|]. split; assumption.
Qed.

(* guaranteed by NewDesc: a Desc without error carries a valid metric name *)
Definition desc_names_valid (lg : bool) (arr : list emitted) : Prop :=
  forall e, In e arr -> ds_err (e_desc e) = false -> metric_name_ok lg (e_name e) = true.

Lemma gather_names_valid_lemma lg ped ids arr :
  desc_names_valid lg arr -> family_names_ok lg (fst (gather lg ped ids arr)) = true.
Proof.
  intros DV. unfold gather. destruct (run lg ped ids arr ([], [])) as [st errs] eqn:R. simpl.
  unfold family_names_ok. apply forallb_forall. intros f If.
  destruct (normalize_in _ _ If) as (g & Ig & Eg & _). subst f. simpl.
  destruct (run_names _ _ _ _ _ _ _ R (f_name g) (in_map f_name _ _ Ig)) as [[]|(e & Ie & En & De)].
  rewrite En. apply DV; assumption.
Qed.

(* ------------------------------------------------------------------ *)
(* the metrics of every returned family are sorted                     *)
(* ------------------------------------------------------------------ *)
Section SortedOutput.
  Context {A : Type} (ltb : A -> A -> bool).
  Hypothesis ltb_asym : forall a b, ltb a b = true -> ltb b a = false.

  Lemma insert_is_sorted x s : is_sorted ltb s = true -> is_sorted ltb (insert ltb x s) = true.
  Proof.
    induction s as [|y r IH]; intros S; [reflexivity|].
    simpl insert. destruct (ltb y x) eqn:E.
    - assert (S' : is_sorted ltb r = true) by (simpl in S; destruct r; [reflexivity|apply andb_true_iff in S; apply S]).
      specialize (IH S'). destruct r as [|z r'].
      + simpl. rewrite (ltb_asym _ _ E). reflexivity.
      + simpl insert in *. destruct (ltb z x) eqn:E2.
        * simpl is_sorted in *. apply andb_true_iff in S. destruct S as [S1 _]. rewrite S1. exact IH.
        * simpl is_sorted in *. rewrite (ltb_asym _ _ E). exact IH.
    - simpl is_sorted. rewrite E. simpl. exact S.
  Qed.

  Lemma isort_is_sorted l : is_sorted ltb (isort ltb l) = true.
  Proof. induction l as [|x r IH]; [reflexivity|]. simpl. apply insert_is_sorted. exact IH. Qed.
End SortedOutput.

Lemma normalize_sorted fs : metrics_sorted (normalize fs) = true.
Proof.
  unfold metrics_sorted. apply forallb_forall. intros f If.
  destruct (normalize_in _ _ If) as (g & _ & -> & _). simpl. apply isort_is_sorted. apply metric_lt_asym.
Qed.

Lemma gather_sorted_lemma lg ped ids arr : metrics_sorted (fst (gather lg ped ids arr)) = true.
Proof. unfold gather. destruct (run lg ped ids arr ([], [])) as [st errs]. simpl. apply normalize_sorted. Qed.

Lemma gatherers_sorted_lemma lg gs : metrics_sorted (fst (gatherers_gather lg gs)) = true.
Proof. unfold gatherers_gather. destruct (merge_gatherers lg gs ([], [])) as [st errs]. simpl. apply normalize_sorted. Qed.
