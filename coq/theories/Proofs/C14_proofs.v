(* Proofs/C14_proofs.v -- lemmas for C14 (constructors reject or expose faithfully). *)
From Coq Require Import ZArith List Bool Lia Sorted Permutation.
From Flocq Require Import IEEE754.BinarySingleNaN.
From Verif Require Import Base.F64 Base.Str Proofs.Str_facts Proofs.F64_order Gen.Gen_Consts Model.ConstMetrics.
Import ListNotations.
Open Scope Z_scope.

(* =========================================================== generic insertion sort *)
Section Sort.
  Context {A : Type} (lt : A -> A -> bool).
  Definition cmpb (a b : A) : Prop := lt a b = true \/ lt b a = true.
  Definition ltT (a b : A) : Prop := lt a b = true.

  Lemma insert_perm x l : Permutation (x :: l) (insert_by lt x l).
  Proof.
    induction l as [|y r IH]; simpl; [apply Permutation_refl|].
    destruct (lt x y); [apply Permutation_refl|].
    eapply Permutation_trans; [apply perm_swap|]. apply perm_skip. exact IH.
  Qed.

  Lemma sort_perm l : Permutation l (sort_by lt l).
  Proof.
    induction l as [|x r IH]; simpl; [apply Permutation_refl|].
    eapply Permutation_trans; [apply perm_skip; exact IH|]. apply insert_perm.
  Qed.

  Lemma insert_hd x l y : HdRel ltT y l -> ltT y x -> HdRel ltT y (insert_by lt x l).
  Proof.
    intros H Hx. destruct l as [|z r]; simpl; [constructor; exact Hx|].
    destruct (lt x z); constructor; [exact Hx|]. inversion H; assumption.
  Qed.

  Lemma insert_sorted x l : Forall (cmpb x) l -> Sorted ltT l -> Sorted ltT (insert_by lt x l).
  Proof.
    induction l as [|y r IH]; intros Hc Hs; simpl.
    - constructor; constructor.
    - inversion Hc as [|? ? Hxy Hr]; subst. inversion Hs as [|? ? Hsr Hhd]; subst.
      destruct (lt x y) eqn:E.
      + constructor; [exact Hs|]. constructor. exact E.
      + constructor; [apply IH; assumption|].
        apply insert_hd; [exact Hhd|]. destruct Hxy as [H|H]; [congruence|exact H].
  Qed.

  Lemma sort_sorted l : ForallOrdPairs cmpb l -> Sorted ltT (sort_by lt l).
  Proof.
    induction 1 as [|x r Hx Hr IH]; simpl; [constructor|].
    apply insert_sorted; [|exact IH].
    apply Forall_forall. intros y Hy. rewrite Forall_forall in Hx. apply Hx.
    eapply Permutation_in; [apply Permutation_sym; apply sort_perm|exact Hy].
  Qed.
End Sort.

(* =========================================================== strings *)
Lemma str_ltb_tricho a b : str_ltb a b = false -> str_ltb b a = false -> a = b.
Proof.
  revert b. induction a as [|x a IH]; intros [|y b]; simpl; intros H1 H2; try discriminate; try reflexivity.
  destruct (Z.ltb_spec x y); [discriminate|]. destruct (Z.ltb_spec y x); [discriminate|].
  assert (x = y) by lia. subst. f_equal. apply IH; assumption.
Qed.

Lemma str_ltb_irrefl a : str_ltb a a = false.
Proof. induction a as [|x a IH]; simpl; [reflexivity|]. rewrite Z.ltb_irrefl. exact IH. Qed.

Lemma nodup_keys_cmp {B} (l : list (str * B)) :
  NoDup (map fst l) -> ForallOrdPairs (cmpb (fun a b : str * B => str_ltb (fst a) (fst b))) l.
Proof.
  induction l as [|x r IH]; simpl; intros H; [constructor|].
  inversion H as [|? ? Hn Hr]; subst. constructor; [|apply IH; exact Hr].
  apply Forall_forall. intros y Hy. unfold cmpb.
  destruct (str_ltb (fst x) (fst y)) eqn:E1; [left; reflexivity|].
  destruct (str_ltb (fst y) (fst x)) eqn:E2; [right; reflexivity|].
  exfalso. apply Hn. rewrite (str_ltb_tricho _ _ E1 E2). apply in_map. exact Hy.
Qed.

Lemma nodup_strs_cmp (l : list str) : NoDup l -> ForallOrdPairs (cmpb str_ltb) l.
Proof.
  induction l as [|x r IH]; intros H; [constructor|].
  inversion H as [|? ? Hn Hr]; subst. constructor; [|apply IH; exact Hr].
  apply Forall_forall. intros y Hy. unfold cmpb.
  destruct (str_ltb x y) eqn:E1; [left; reflexivity|].
  destruct (str_ltb y x) eqn:E2; [right; reflexivity|].
  exfalso. apply Hn. rewrite (str_ltb_tricho _ _ E1 E2). exact Hy.
Qed.

Lemma nodup_b_NoDup l : nodup_b l = true <-> NoDup l.
Proof.
  induction l as [|x r IH]; simpl; [split; [constructor|reflexivity]|].
  rewrite andb_true_iff, negb_true_iff, IH. split.
  - intros [H1 H2]. constructor; [|exact H2]. intros Hin. apply str_in_In in Hin. congruence.
  - intros H. inversion H as [|? ? Hn Hr]; subst. split; [|exact Hr].
    destruct (str_in x r) eqn:E; [apply str_in_In in E; contradiction|reflexivity].
Qed.

Lemma dedup_length_le l : (length (dedup l) <= length l)%nat.
Proof. induction l as [|x r IH]; simpl; [lia|]. destruct (str_in x r); simpl; lia. Qed.

Lemma dedup_length_eq l : length (dedup l) = length l <-> nodup_b l = true.
Proof.
  induction l as [|x r IH]; simpl; [split; reflexivity|].
  pose proof (dedup_length_le r). destruct (str_in x r); simpl.
  - split; [lia|discriminate].
  - rewrite <- IH. split; lia.
Qed.

(* =========================================================== BuildFQName *)
Lemma fq_name_spec_lemma ns sub name :
  build_fq_name ns sub name = fq_spec ns sub name /\ (build_fq_name ns sub name = [] <-> name = []).
Proof.
  unfold build_fq_name, fq_spec.
  destruct name as [|c name]; [split; [reflexivity|split; reflexivity]|].
  split.
  - destruct ns as [|a ns], sub as [|b sub]; simpl; try reflexivity;
      repeat rewrite <- app_assoc; simpl; try reflexivity.
  - split; [|discriminate]. intros H. exfalso.
    destruct ns as [|a ns], sub as [|b sub]; simpl in H; try discriminate.
Qed.

(* join_us really is "the parts separated by one underscore each" *)
Lemma join_us_length parts : parts <> [] ->
  Z.of_nat (length (join_us parts)) = fold_right (fun p a => Z.of_nat (length p) + a) 0 parts + Z.of_nat (length parts) - 1.
Proof.
  induction parts as [|p r IH]; [congruence|]. intros _.
  destruct r as [|q r']; [simpl; lia|].
  change (join_us (p :: q :: r')) with (p ++ underscore ++ join_us (q :: r')).
  rewrite !app_length, !Nat2Z.inj_add, IH by discriminate. simpl length. simpl fold_right. lia.
Qed.

(* =========================================================== fixed-width integers *)
Lemma wrap64_spec z : exists k, wrap64 z = z + k * 18446744073709551616 /\ -9223372036854775808 <= wrap64 z < 9223372036854775808.
Proof.
  unfold wrap64, wrap. change (2 ^ (64 - 1)) with 9223372036854775808. change (2 ^ 64) with 18446744073709551616.
  exists (- ((z + 9223372036854775808) / 18446744073709551616)).
  pose proof (Z.div_mod (z + 9223372036854775808) 18446744073709551616 ltac:(lia)).
  pose proof (Z.mod_pos_bound (z + 9223372036854775808) 18446744073709551616 ltac:(lia)). lia.
Qed.

Lemma wrap32_spec z : exists k, wrap32 z = z + k * 4294967296 /\ -2147483648 <= wrap32 z < 2147483648.
Proof.
  unfold wrap32, wrap. change (2 ^ (32 - 1)) with 2147483648. change (2 ^ 32) with 4294967296.
  exists (- ((z + 2147483648) / 4294967296)).
  pose proof (Z.div_mod (z + 2147483648) 4294967296 ltac:(lia)).
  pose proof (Z.mod_pos_bound (z + 2147483648) 4294967296 ltac:(lia)). lia.
Qed.

Lemma wrap64_id z : -9223372036854775808 <= z < 9223372036854775808 -> wrap64 z = z.
Proof. intros H. destruct (wrap64_spec z) as (k & E & B). lia. Qed.

Lemma wrap32_id z : -2147483648 <= z < 2147483648 -> wrap32 z = z.
Proof. intros H. destruct (wrap32_spec z) as (k & E & B). lia. Qed.

Lemma wrap64_add_sub p c : -9223372036854775808 <= c < 9223372036854775808 -> wrap64 (p + wrap64 (c - p)) = c.
Proof.
  intros H. destruct (wrap64_spec (c - p)) as (k & E & B). rewrite E.
  destruct (wrap64_spec (p + (c - p + k * 18446744073709551616))) as (k2 & E2 & B2). lia.
Qed.

(* =========================================================== timestamps *)
Lemma timestamp_floor_ms_lemma sec ns :
  0 <= ns < 1000000000 ->
  -9223372036854775808 <= sec * 1000 -> sec * 1000 + 999 < 9223372036854775808 ->
  timestamp_ms sec ns = timestamp_spec sec ns /\
  timestamp_spec sec ns * 1000000 <= sec * 1000000000 + ns < (timestamp_spec sec ns + 1) * 1000000.
Proof.
  intros Hns Hlo Hhi. unfold timestamp_ms, timestamp_spec.
  assert (E : (sec * 1000000000 + ns) / 1000000 = sec * 1000 + ns / 1000000).
  { replace (sec * 1000000000 + ns) with (sec * 1000 * 1000000 + ns) by lia. apply Z.div_add_l. lia. }
  assert (Hq : 0 <= ns / 1000000 <= 999).
  { split; [apply Z.div_pos; lia|]. apply Z.lt_succ_r. apply Z.div_lt_upper_bound; lia. }
  split.
  - rewrite Z.quot_div_nonneg by lia. rewrite (wrap64_id (sec * 1000)) by lia. rewrite wrap64_id by lia. lia.
  - rewrite E. pose proof (Z.div_mod ns 1000000 ltac:(lia)). pose proof (Z.mod_pos_bound ns 1000000 ltac:(lia)). lia.
Qed.

(* =========================================================== NewDesc *)
Lemma ex_consts (consts : list lpair) :
  existsb (fun p => negb (check_label_name (fst p))) consts = negb (forallb name_ok_spec (map fst consts)).
Proof.
  induction consts as [|p r IH]; [reflexivity|]. cbn [existsb map forallb]. rewrite IH.
  change (check_label_name (fst p)) with (name_ok_spec (fst p)). destruct (name_ok_spec (fst p)); reflexivity.
Qed.

Lemma ex_vars (vars : list str) :
  existsb (fun l => negb (check_label_name l)) vars = negb (forallb name_ok_spec vars).
Proof.
  induction vars as [|p r IH]; [reflexivity|]. cbn [existsb forallb]. rewrite IH.
  change (check_label_name p) with (name_ok_spec p). destruct (name_ok_spec p); reflexivity.
Qed.

Lemma forallb_perm {A} (f : A -> bool) a b : Permutation a b -> forallb f a = forallb f b.
Proof.
  induction 1; simpl; try congruence.
  - destruct (f x), (f y); reflexivity.
Qed.

Lemma lookup_map_nodup (l : list lpair) : NoDup (map fst l) ->
  map (fun n => lookup_str n l) (map fst l) = map snd l.
Proof.
  induction l as [|[a v] r IH]; [reflexivity|]. cbn [map fst snd]. intros H. inversion H as [|? ? Hn Hr]; subst.
  cbn [lookup_str]. rewrite str_eqb_refl. f_equal. rewrite <- (IH Hr).
  apply map_ext_in. intros n Hin. cbn [lookup_str].
  destruct (str_eqb a n) eqn:E; [|reflexivity]. apply str_eqb_eq in E. subst. contradiction.
Qed.

Lemma values_forallb (consts : list lpair) : NoDup (map fst consts) ->
  forallb utf8_valid (map (fun n => lookup_str n consts) (sort_strings (map fst consts))) = forallb utf8_valid (map snd consts).
Proof.
  intros H. rewrite <- (lookup_map_nodup consts H). apply forallb_perm. apply Permutation_map.
  apply Permutation_sym. apply sort_perm.
Qed.

Lemma len_eq (consts : list lpair) (vars : list str) (f : str -> str) :
  (Z.of_nat (length (sort_strings (map fst consts) ++ map f vars)) =? set_size (map fst consts ++ vars)) =
  nodup_b (map fst consts ++ vars).
Proof.
  unfold set_size.
  assert (L : length (sort_strings (map fst consts) ++ map f vars) = length (map fst consts ++ vars)).
  { rewrite !app_length, map_length. f_equal. apply Permutation_length. apply Permutation_sym. apply sort_perm. }
  rewrite L. destruct (nodup_b (map fst consts ++ vars)) eqn:E.
  - apply dedup_length_eq in E. rewrite E. apply Z.eqb_refl.
  - apply Z.eqb_neq. intros H. apply Nat2Z.inj in H. symmetry in H. apply dedup_length_eq in H. congruence.
Qed.

Lemma new_desc_ok_iff_lemma fq help vars consts : NoDup (map fst consts) ->
  (d_err (new_desc fq help vars consts) = None <-> desc_ok_spec fq vars consts = true).
Proof.
  intros Hnd. unfold new_desc, desc_ok_spec, metric_name_valid. cbv zeta.
  destruct (negb (is_empty fq) && utf8_valid fq) eqn:E1; cbn [negb andb d_err];
    [|split; intros H; discriminate H].
  apply andb_true_iff in E1. destruct E1 as [_ Hfq].
  rewrite ex_consts. destruct (forallb name_ok_spec (map fst consts)) eqn:E2; cbn [negb andb d_err];
    [|split; intros H; discriminate H].
  unfold validate_label_values. rewrite Z.eqb_refl. cbn [negb].
  cbn [forallb]. rewrite Hfq. cbn [andb].
  rewrite (values_forallb consts Hnd).
  destruct (forallb utf8_valid (map snd consts)) eqn:E3; cbn [negb d_err].
  2:{ rewrite andb_false_r. split; intros H; discriminate H. }
  rewrite ex_vars. destruct (forallb name_ok_spec vars) eqn:E4; cbn [negb andb d_err];
    [|split; intros H; discriminate H].
  rewrite andb_true_r. rewrite len_eq.
  destruct (nodup_b (map fst consts ++ vars)); cbn [negb d_err]; split; intros H; try reflexivity; try discriminate H.
Qed.

Lemma new_desc_ok_shape fq help vars consts :
  d_err (new_desc fq help vars consts) = None ->
  new_desc fq help vars consts = mkDesc fq help (sort_pairs consts) vars None.
Proof.
  unfold new_desc. cbv zeta.
  destruct (negb (metric_name_valid fq)); [discriminate|].
  destruct (existsb (fun p => negb (check_label_name (fst p))) consts); [discriminate|].
  match goal with |- context [validate_label_values ?a ?b] => destruct (validate_label_values a b) end; [discriminate|].
  destruct (existsb (fun l => negb (check_label_name l)) vars); [discriminate|].
  match goal with |- context [negb (?a =? ?b)] => destruct (negb (a =? b)) end; [discriminate|]. reflexivity.
Qed.

(* which error: the first failing check in the order of the Go code *)
Lemma new_desc_err_cases fq help vars consts e :
  d_err (new_desc fq help vars consts) = Some e ->
  e = ErrMetricName \/ e = ErrLabelName \/ e = ErrUtf8Value \/ e = ErrDuplicate.
Proof.
  unfold new_desc. cbv zeta.
  destruct (negb (metric_name_valid fq)); [cbn; intros H; inversion H; tauto|].
  destruct (existsb (fun p => negb (check_label_name (fst p))) consts); [cbn; intros H; inversion H; tauto|].
  unfold validate_label_values. rewrite Z.eqb_refl. cbn [negb].
  match goal with |- context [negb (forallb ?a ?b)] => destruct (negb (forallb a b)) end; [cbn; intros H; inversion H; tauto|].
  destruct (existsb (fun l => negb (check_label_name l)) vars); [cbn; intros H; inversion H; tauto|].
  match goal with |- context [negb (?a =? ?b)] => destruct (negb (a =? b)) end; [cbn; intros H; inversion H; tauto|]. cbn. discriminate.
Qed.

(* =========================================================== MakeLabelPairs *)
Definition lp_lt (a b : lpair) : Prop := str_ltb (fst a) (fst b) = true.

Lemma combine_fst {A B} (a : list A) (b : list B) : length b = length a -> map fst (combine a b) = a.
Proof.
  revert b. induction a as [|x a IH]; intros [|y b] H; simpl in *; try reflexivity; try discriminate.
  f_equal. apply IH. lia.
Qed.

Lemma sort_pairs_sorted (l : list lpair) : NoDup (map fst l) -> Sorted lp_lt (sort_pairs l).
Proof. intros H. apply (sort_sorted pair_lt). apply (nodup_keys_cmp l H). Qed.

Lemma label_pairs_sorted_complete_lemma fq help vars consts lvs :
  NoDup (map fst consts) -> d_err (new_desc fq help vars consts) = None -> length lvs = length vars ->
  Sorted lp_lt (make_label_pairs (new_desc fq help vars consts) lvs) /\
  Permutation (combine vars lvs ++ consts) (make_label_pairs (new_desc fq help vars consts) lvs).
Proof.
  intros Hnd Hok Hlen.
  pose proof (proj1 (new_desc_ok_iff_lemma fq help vars consts Hnd) Hok) as Hspec.
  rewrite (new_desc_ok_shape _ _ _ _ Hok). unfold make_label_pairs. cbn [d_vars d_const].
  assert (Hall : NoDup (map fst consts ++ vars)).
  { unfold desc_ok_spec in Hspec. repeat (apply andb_true_iff in Hspec; destruct Hspec as [Hspec ?]).
    apply nodup_b_NoDup. assumption. }
  destruct (Nat.eqb_spec (length vars + length (sort_pairs consts)) 0) as [E0|E0].
  - assert (vars = []) by (destruct vars; [reflexivity|simpl in E0; lia]). subst vars.
    assert (Hc : length (sort_pairs consts) = length consts) by (apply Permutation_length, Permutation_sym, sort_perm).
    destruct consts; [|simpl in *; lia]. simpl. split; constructor.
  - destruct (Nat.eqb_spec (length vars) 0) as [E1|E1].
    + assert (vars = []) by (destruct vars; [reflexivity|simpl in E1; lia]). subst vars. simpl.
      split; [apply sort_pairs_sorted; exact Hnd|apply sort_perm].
    + split.
      * apply sort_pairs_sorted. rewrite map_app, combine_fst by exact Hlen.
        eapply Permutation_NoDup; [|exact Hall].
        eapply Permutation_trans; [apply Permutation_app_comm|].
        apply Permutation_app_head. apply Permutation_map. apply sort_perm.
      * eapply Permutation_trans; [|apply sort_perm]. apply Permutation_app_head. apply sort_perm.
Qed.

(* the boolean checkers used on the implementation's output are sound *)
Lemma lpair_eqb_eq a b : lpair_eqb a b = true -> a = b.
Proof.
  destruct a, b. unfold lpair_eqb. cbn [fst snd]. intros H. apply andb_true_iff in H. destruct H as [H1 H2].
  apply str_eqb_eq in H1. apply str_eqb_eq in H2. subst. reflexivity.
Qed.

Section PermB.
  Context {A : Type} (eqb : A -> A -> bool) (eqb_sound : forall a b, eqb a b = true -> a = b).
  Lemma remove1_perm x l l' : remove1 eqb x l = Some l' -> Permutation (x :: l') l.
  Proof.
    revert l'. induction l as [|y r IH]; simpl; intros l' H; [discriminate|].
    destruct (eqb x y) eqn:E.
    - inversion H; subst. apply eqb_sound in E. subst. apply Permutation_refl.
    - destruct (remove1 eqb x r) eqn:R; [|discriminate]. inversion H; subst.
      eapply Permutation_trans; [apply perm_swap|]. apply perm_skip. apply IH. reflexivity.
  Qed.
  Lemma perm_b_sound a b : perm_b eqb a b = true -> Permutation a b.
  Proof.
    revert b. induction a as [|x r IH]; simpl; intros b H.
    - destruct b; [constructor|discriminate].
    - destruct (remove1 eqb x b) eqn:R; [|discriminate].
      eapply Permutation_trans; [apply perm_skip; apply IH; exact H|]. apply remove1_perm. exact R.
  Qed.
End PermB.

Lemma sorted_names_b_sound l : sorted_names_b l = true -> Sorted lp_lt l.
Proof.
  induction l as [|a r IH]; [constructor|]. destruct r as [|b r'].
  - intros _. constructor; constructor.
  - cbn [sorted_names_b]. intros H. apply andb_true_iff in H. destruct H as [H1 H2].
    constructor; [apply IH; exact H2|]. constructor. exact H1.
Qed.

Lemma label_pairs_spec_sound vars lvs consts out :
  label_pairs_spec vars lvs consts out = true -> Sorted lp_lt out /\ Permutation (combine vars lvs ++ consts) out.
Proof.
  unfold label_pairs_spec. intros H. apply andb_true_iff in H. destruct H as [H1 H2]. split.
  - apply sorted_names_b_sound. exact H1.
  - apply (perm_b_sound lpair_eqb lpair_eqb_eq). exact H2.
Qed.

(* =========================================================== NewConstMetric *)
Lemma validate_label_values_none vals n :
  validate_label_values vals n = None <-> (Z.of_nat (length vals) = n /\ forallb utf8_valid vals = true).
Proof.
  unfold validate_label_values. destruct (Z.eqb_spec (Z.of_nat (length vals)) n); cbn [negb].
  - destruct (forallb utf8_valid vals); cbn [negb]; split; intros H; try tauto; try discriminate. destruct H; discriminate.
  - split; [discriminate|]. intros [H _]. contradiction.
Qed.

Lemma const_metric_faithful_lemma fq help vars consts vt v lvs :
  NoDup (map fst consts) ->
  let d := new_desc fq help vars consts in
  (desc_ok_spec fq vars consts = true /\ length lvs = length vars /\ forallb utf8_valid lvs = true /\ 1 <= vt <= 3 ->
     new_const_metric d vt v lvs = Ok (mkSimple (make_label_pairs d lvs) vt v)) /\
  (~ (desc_ok_spec fq vars consts = true /\ length lvs = length vars /\ forallb utf8_valid lvs = true /\ 1 <= vt <= 3) ->
     exists e, new_const_metric d vt v lvs = Err e).
Proof.
  intros Hnd d. pose proof (new_desc_ok_iff_lemma fq help vars consts Hnd) as Hiff. fold d in Hiff.
  assert (Hv : d_err d = None -> d_vars d = vars).
  { intros H. unfold d. rewrite (new_desc_ok_shape _ _ _ _ H). reflexivity. }
  unfold new_const_metric. split.
  - intros (H1 & H2 & H3 & H4). apply Hiff in H1. rewrite H1. rewrite (Hv H1).
    assert (E : validate_label_values lvs (Z.of_nat (length vars)) = None).
    { apply validate_label_values_none. split; [congruence|exact H3]. }
    rewrite E. assert (Ht : (vt =? 1) || (vt =? 2) || (vt =? 3) = true).
    { destruct (Z.eqb_spec vt 1), (Z.eqb_spec vt 2), (Z.eqb_spec vt 3); try reflexivity. lia. }
    rewrite Ht. reflexivity.
  - intros Hno. destruct (d_err d) as [e|] eqn:Ed; [exists e; reflexivity|].
    rewrite (Hv eq_refl).
    destruct (validate_label_values lvs (Z.of_nat (length vars))) as [e|] eqn:Ev; [exists e; reflexivity|].
    apply validate_label_values_none in Ev. destruct Ev as [Ev1 Ev2]. apply Nat2Z.inj in Ev1.
    destruct ((vt =? 1) || (vt =? 2) || (vt =? 3)) eqn:Et; [|exists ErrValueType; reflexivity].
    exfalso. apply Hno. repeat split; try assumption; try (apply Hiff; reflexivity).
    + destruct (Z.eqb_spec vt 1), (Z.eqb_spec vt 2), (Z.eqb_spec vt 3); simpl in Et; try discriminate; lia.
    + destruct (Z.eqb_spec vt 1), (Z.eqb_spec vt 2), (Z.eqb_spec vt 3); simpl in Et; try discriminate; lia.
Qed.

(* =========================================================== native: decoder facts *)
Local Notation int64 z := (-9223372036854775808 <= z < 9223372036854775808).

Fixpoint decode_full (spans : list span) (idx cnt : Z) (ds : list Z) : list (Z * Z) * Z * Z * list Z :=
  match spans with
  | [] => ([], idx, cnt, ds)
  | (o, l) :: r =>
      let '(out, idx', cnt', ds') := decode_span (Z.to_nat l) (idx + o) cnt ds in
      let '(out2, idx2, cnt2, ds2) := decode_full r idx' cnt' ds' in
      (out ++ out2, idx2, cnt2, ds2)
  end.

Lemma decode_full_out spans idx cnt ds :
  decode_spans_from spans idx cnt ds = fst (fst (fst (decode_full spans idx cnt ds))).
Proof.
  revert idx cnt ds. induction spans as [|[o l] r IH]; intros idx cnt ds; [reflexivity|].
  cbn [decode_spans_from decode_full].
  destruct (decode_span (Z.to_nat l) (idx + o) cnt ds) as [[[out i'] c'] d'].
  rewrite IH. destruct (decode_full r i' c' d') as [[[o2 i2] c2] d2]. reflexivity.
Qed.

Lemma decode_span_snoc n : forall i c ds out i' c' d rest,
  decode_span n i c ds = (out, i', c', d :: rest) ->
  decode_span (S n) i c ds = (out ++ [(i', wrap64 (c' + d))], i' + 1, wrap64 (c' + d), rest).
Proof.
  induction n as [|n IH]; intros i c ds out i' c' d rest H.
  - cbn [decode_span] in H. inversion H; subst. reflexivity.
  - destruct ds as [|dl ds0]; [cbn [decode_span] in H; inversion H|].
    change (decode_span (S n) i c (dl :: ds0)) with
      (let c1 := wrap64 (c + dl) in
       let '(o, ii, cc, dd) := decode_span n (i + 1) c1 ds0 in ((i, c1) :: o, ii, cc, dd)) in H.
    cbv zeta in H. destruct (decode_span n (i + 1) (wrap64 (c + dl)) ds0) as [[[o ii] cc] dd] eqn:E.
    inversion H; subst.
    change (decode_span (S (S n)) i c (dl :: ds0)) with
      (let c1 := wrap64 (c + dl) in
       let '(o, ii, cc, dd) := decode_span (S n) (i + 1) c1 ds0 in ((i, c1) :: o, ii, cc, dd)).
    cbv zeta. rewrite (IH _ _ _ _ _ _ _ _ E). reflexivity.
Qed.

Lemma decode_full_app a : forall b i c ds,
  decode_full (a ++ b) i c ds =
  let '(o1, i1, c1, d1) := decode_full a i c ds in
  let '(o2, i2, c2, d2) := decode_full b i1 c1 d1 in (o1 ++ o2, i2, c2, d2).
Proof.
  induction a as [|[o l] r IH]; intros b i c ds.
  - cbn [app decode_full]. destruct (decode_full b i c ds) as [[[o2 i2] c2] d2]. reflexivity.
  - cbn [app decode_full]. destruct (decode_span (Z.to_nat l) (i + o) c ds) as [[[out i'] c'] d'].
    rewrite IH. destruct (decode_full r i' c' d') as [[[o1 i1] c1] d1].
    destruct (decode_full b i1 c1 d1) as [[[o2 i2] c2] d2]. rewrite app_assoc. reflexivity.
Qed.

(* the encoder keeps spans and deltas reversed *)
Definition Dec (SP : list span) (D : list Z) (flat : list (Z * Z)) (idx cnt : Z) : Prop :=
  forall extra, decode_full (rev SP) 0 0 (rev D ++ extra) = (flat, idx, cnt, extra).

Lemma Dec_nil : Dec [] [] [] 0 0.
Proof. intros extra. reflexivity. Qed.

Lemma Dec_new_span (SP : list span) D flat idx cnt o : Dec SP D flat idx cnt -> Dec ((o, 0) :: SP) D flat (idx + o) cnt.
Proof.
  intros H extra. cbn [rev]. rewrite decode_full_app, H. cbn. rewrite !app_nil_r. reflexivity.
Qed.

Lemma Dec_append (SP : list span) D flat idx cnt o l dl : 0 <= l ->
  Dec ((o, l) :: SP) D flat idx cnt ->
  Dec ((o, l + 1) :: SP) (dl :: D) (flat ++ [(idx, wrap64 (cnt + dl))]) (idx + 1) (wrap64 (cnt + dl)).
Proof.
  intros Hl H extra. specialize (H (dl :: extra)). cbn [rev] in *.
  rewrite <- app_assoc. cbn [app].
  rewrite decode_full_app in H. rewrite decode_full_app.
  destruct (decode_full (rev SP) 0 0 (rev D ++ dl :: extra)) as [[[o1 i1] c1] d1] eqn:E0.
  rewrite E0 in H. cbn [decode_full] in *.
  destruct (decode_span (Z.to_nat l) (i1 + o) c1 d1) as [[[out i'] c'] d'] eqn:E.
  inversion H; subst. replace (Z.to_nat (l + 1)) with (Datatypes.S (Z.to_nat l)) by lia.
  rewrite (decode_span_snoc _ _ _ _ _ _ _ _ _ E). rewrite !app_nil_r, app_assoc. reflexivity.
Qed.

Definition good_spans (SP : list span) : Prop := match SP with (o, l) :: _ => 0 <= l | [] => False end.

Lemma append_delta_dec st c flat pos :
  good_spans (mb_spans st) -> int64 c ->
  Dec (mb_spans st) (mb_deltas st) flat pos (mb_prev st) ->
  Dec (mb_spans (append_delta st c)) (mb_deltas (append_delta st c)) (flat ++ [(pos, c)]) (pos + 1) c /\
  good_spans (mb_spans (append_delta st c)) /\ mb_prev (append_delta st c) = c /\
  mb_next (append_delta st c) = mb_next st.
Proof.
  intros Hg Hc HD. unfold append_delta. destruct (mb_spans st) as [|[o l] r] eqn:ES; [contradiction|].
  cbn [good_spans] in Hg. cbn [mb_spans mb_deltas mb_prev mb_next].
  pose proof (Dec_append r (mb_deltas st) flat pos (mb_prev st) o l (wrap64 (c - mb_prev st)) Hg HD) as H.
  rewrite (wrap64_add_sub (mb_prev st) c Hc) in H. repeat split; try assumption; cbn [good_spans]; lia.
Qed.

Fixpoint zeros (pos : Z) (n : nat) : list (Z * Z) :=
  match n with O => [] | S k => (pos, 0) :: zeros (pos + 1) k end.

Lemma zeros_in pos n p : In p (zeros pos n) -> pos <= fst p < pos + Z.of_nat n /\ snd p = 0.
Proof.
  revert pos. induction n as [|n IH]; intros pos H; [contradiction|]. cbn [zeros] in H. destruct H as [H|H].
  - subst p. cbn. lia.
  - apply IH in H. lia.
Qed.

Lemma zeros_sorted pos n : Sorted Z.lt (map fst (zeros pos n)).
Proof.
  revert pos. induction n as [|n IH]; intros pos; [constructor|]. cbn [zeros map fst]. constructor; [apply IH|].
  destruct n; cbn; constructor. lia.
Qed.

Lemma append_zeros_dec n : forall st flat pos,
  good_spans (mb_spans st) -> int64 (mb_prev st) ->
  Dec (mb_spans st) (mb_deltas st) flat pos (mb_prev st) ->
  Dec (mb_spans (append_zeros n st)) (mb_deltas (append_zeros n st)) (flat ++ zeros pos n) (pos + Z.of_nat n) (mb_prev (append_zeros n st)) /\
  good_spans (mb_spans (append_zeros n st)) /\ int64 (mb_prev (append_zeros n st)) /\
  mb_next (append_zeros n st) = mb_next st.
Proof.
  induction n as [|n IH]; intros st flat pos Hg Hp HD.
  - cbn [append_zeros zeros]. rewrite app_nil_r, Z.add_0_r. repeat split; try assumption; lia.
  - cbn [append_zeros zeros].
    destruct (append_delta_dec st 0 flat pos Hg ltac:(lia) HD) as (D1 & G1 & P1 & N1).
    rewrite <- P1 in D1 at 2.
    destruct (IH (append_delta st 0) (flat ++ [(pos, 0)]) (pos + 1) G1 ltac:(rewrite P1; lia) D1) as (D2 & G2 & P2 & N2).
    rewrite <- app_assoc in D2. cbn [app] in D2.
    replace (pos + Z.of_nat (S n)) with (pos + 1 + Z.of_nat n) by lia.
    repeat split; try assumption; try lia. congruence.
Qed.
