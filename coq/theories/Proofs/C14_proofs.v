(* Proofs/C14_proofs.v -- lemmas for C14 (constructors reject or expose faithfully). *)
From Coq Require Import ZArith List Bool Lia Sorted Permutation.
From Flocq Require Import IEEE754.BinarySingleNaN.
From Verif Require Import Base.F64 Base.Str Proofs.Str_facts Proofs.F64_order Gen.Gen_Consts Model.ConstMetrics.
Import ListNotations.
Open Scope Z_scope.

(* =========================================================== generic insertion sort *)
Section Sort.
  Context {A : Type} (lt : A -> A -> bool).
  Definition cmpb (a b : A) : Prop := lt a b = true \/ lt b a = true.
  Definition ltT (a b : A) : Prop := lt a b = true.

  Lemma insert_perm x l : Permutation (x :: l) (insert_by lt x l).
  Proof.
    induction l as [|y r IH]; simpl; [apply Permutation_refl|].
    destruct (lt x y); [apply Permutation_refl|].
    eapply Permutation_trans; [apply perm_swap|]. apply perm_skip. exact IH.
  Qed.

  Lemma sort_perm l : Permutation l (sort_by lt l).
  Proof.
    induction l as [|x r IH]; simpl; [apply Permutation_refl|].
    eapply Permutation_trans; [apply perm_skip; exact IH|]. apply insert_perm.
  Qed.

  Lemma insert_hd x l y : HdRel ltT y l -> ltT y x -> HdRel ltT y (insert_by lt x l).
  Proof.
    intros H Hx. destruct l as [|z r]; simpl; [constructor; exact Hx|].
    destruct (lt x z); constructor; [exact Hx|]. inversion H; assumption.
  Qed.

  Lemma insert_sorted x l : Forall (cmpb x) l -> Sorted ltT l -> Sorted ltT (insert_by lt x l).
  Proof.
    induction l as [|y r IH]; intros Hc Hs; simpl.
    - constructor; constructor.
    - inversion Hc as [|? ? Hxy Hr]; subst. inversion Hs as [|? ? Hsr Hhd]; subst.
      destruct (lt x y) eqn:E.
      + constructor; [exact Hs|]. constructor. exact E.
      + constructor; [apply IH; assumption|].
        apply insert_hd; [exact Hhd|]. destruct Hxy as [H|H]; [congruence|exact H].
  Qed.

  Lemma sort_sorted l : ForallOrdPairs cmpb l -> Sorted ltT (sort_by lt l).
  Proof.
    induction 1 as [|x r Hx Hr IH]; simpl; [constructor|].
    apply insert_sorted; [|exact IH].
    apply Forall_forall. intros y Hy. rewrite Forall_forall in Hx. apply Hx.
    eapply Permutation_in; [apply Permutation_sym; apply sort_perm|exact Hy].
  Qed.
End Sort.

(* =========================================================== strings *)
Lemma str_ltb_tricho a b : str_ltb a b = false -> str_ltb b a = false -> a = b.
Proof.
  revert b. induction a as [|x a IH]; intros [|y b]; simpl; intros H1 H2; try discriminate; try reflexivity.
  destruct (Z.ltb_spec x y); [discriminate|]. destruct (Z.ltb_spec y x); [discriminate|].
  assert (x = y) by lia. subst. f_equal. apply IH; assumption.
Qed.

Lemma str_ltb_irrefl a : str_ltb a a = false.
Proof. induction a as [|x a IH]; simpl; [reflexivity|]. rewrite Z.ltb_irrefl. exact IH. Qed.

Lemma nodup_keys_cmp {B} (l : list (str * B)) :
  NoDup (map fst l) -> ForallOrdPairs (cmpb (fun a b : str * B => str_ltb (fst a) (fst b))) l.
Proof.
  induction l as [|x r IH]; simpl; intros H; [constructor|].
  inversion H as [|? ? Hn Hr]; subst. constructor; [|apply IH; exact Hr].
  apply Forall_forall. intros y Hy. unfold cmpb.
  destruct (str_ltb (fst x) (fst y)) eqn:E1; [left; reflexivity|].
  destruct (str_ltb (fst y) (fst x)) eqn:E2; [right; reflexivity|].
  exfalso. apply Hn. rewrite (str_ltb_tricho _ _ E1 E2). apply in_map. exact Hy.
Qed.

Lemma nodup_strs_cmp (l : list str) : NoDup l -> ForallOrdPairs (cmpb str_ltb) l.
Proof.
  induction l as [|x r IH]; intros H; [constructor|].
  inversion H as [|? ? Hn Hr]; subst. constructor; [|apply IH; exact Hr].
  apply Forall_forall. intros y Hy. unfold cmpb.
  destruct (str_ltb x y) eqn:E1; [left; reflexivity|].
  destruct (str_ltb y x) eqn:E2; [right; reflexivity|].
  exfalso. apply Hn. rewrite (str_ltb_tricho _ _ E1 E2). exact Hy.
Qed.

Lemma nodup_b_NoDup l : nodup_b l = true <-> NoDup l.
Proof.
  induction l as [|x r IH]; simpl; [split; [constructor|reflexivity]|].
  rewrite andb_true_iff, negb_true_iff, IH. split.
  - intros [H1 H2]. constructor; [|exact H2]. intros Hin. apply str_in_In in Hin. congruence.
  - intros H. inversion H as [|? ? Hn Hr]; subst. split; [|exact Hr].
    destruct (str_in x r) eqn:E; [apply str_in_In in E; contradiction|reflexivity].
Qed.

Lemma dedup_length_le l : (length (dedup l) <= length l)%nat.
Proof. induction l as [|x r IH]; simpl; [lia|]. destruct (str_in x r); simpl; lia. Qed.

Lemma dedup_length_eq l : length (dedup l) = length l <-> nodup_b l = true.
Proof.
  induction l as [|x r IH]; simpl; [split; reflexivity|].
  pose proof (dedup_length_le r). destruct (str_in x r); simpl.
  - split; [lia|discriminate].
  - rewrite <- IH. split; lia.
Qed.

(* =========================================================== BuildFQName *)
Lemma fq_name_spec_lemma ns sub name :
  build_fq_name ns sub name = fq_spec ns sub name /\ (build_fq_name ns sub name = [] <-> name = []).
Proof.
  unfold build_fq_name, fq_spec.
  destruct name as [|c name]; [split; [reflexivity|split; reflexivity]|].
  split.
  - destruct ns as [|a ns], sub as [|b sub]; simpl; try reflexivity;
      repeat rewrite <- app_assoc; simpl; try reflexivity.
  - split; [|discriminate]. intros H. exfalso.
    destruct ns as [|a ns], sub as [|b sub]; simpl in H; try discriminate.
Qed.

(* join_us really is "the parts separated by one underscore each" *)
Lemma join_us_length parts : parts <> [] ->
  Z.of_nat (length (join_us parts)) = fold_right (fun p a => Z.of_nat (length p) + a) 0 parts + Z.of_nat (length parts) - 1.
Proof.
  induction parts as [|p r IH]; [congruence|]. intros _.
  destruct r as [|q r']; [simpl; lia|].
  change (join_us (p :: q :: r')) with (p ++ underscore ++ join_us (q :: r')).
  rewrite !app_length, !Nat2Z.inj_add, IH by discriminate. simpl length. simpl fold_right. lia.
Qed.

(* =========================================================== fixed-width integers *)
Lemma wrap64_spec z : exists k, wrap64 z = z + k * 18446744073709551616 /\ -9223372036854775808 <= wrap64 z < 9223372036854775808.
Proof.
  unfold wrap64, wrap. change (2 ^ (64 - 1)) with 9223372036854775808. change (2 ^ 64) with 18446744073709551616.
  exists (- ((z + 9223372036854775808) / 18446744073709551616)).
  pose proof (Z.div_mod (z + 9223372036854775808) 18446744073709551616 ltac:(lia)).
  pose proof (Z.mod_pos_bound (z + 9223372036854775808) 18446744073709551616 ltac:(lia)). lia.
Qed.

Lemma wrap32_spec z : exists k, wrap32 z = z + k * 4294967296 /\ -2147483648 <= wrap32 z < 2147483648.
Proof.
  unfold wrap32, wrap. change (2 ^ (32 - 1)) with 2147483648. change (2 ^ 32) with 4294967296.
  exists (- ((z + 2147483648) / 4294967296)).
  pose proof (Z.div_mod (z + 2147483648) 4294967296 ltac:(lia)).
  pose proof (Z.mod_pos_bound (z + 2147483648) 4294967296 ltac:(lia)). lia.
Qed.

Lemma wrap64_id z : -9223372036854775808 <= z < 9223372036854775808 -> wrap64 z = z.
Proof. intros H. destruct (wrap64_spec z) as (k & E & B). lia. Qed.

Lemma wrap32_id z : -2147483648 <= z < 2147483648 -> wrap32 z = z.
Proof. intros H. destruct (wrap32_spec z) as (k & E & B). lia. Qed.

Lemma wrap64_add_sub p c : -9223372036854775808 <= c < 9223372036854775808 -> wrap64 (p + wrap64 (c - p)) = c.
Proof.
  intros H. destruct (wrap64_spec (c - p)) as (k & E & B). rewrite E.
  destruct (wrap64_spec (p + (c - p + k * 18446744073709551616))) as (k2 & E2 & B2). lia.
Qed.

(* =========================================================== timestamps *)
Lemma timestamp_floor_ms_lemma sec ns :
  0 <= ns < 1000000000 ->
  -9223372036854775808 <= sec * 1000 -> sec * 1000 + 999 < 9223372036854775808 ->
  timestamp_ms sec ns = timestamp_spec sec ns /\
  timestamp_spec sec ns * 1000000 <= sec * 1000000000 + ns < (timestamp_spec sec ns + 1) * 1000000.
Proof.
  intros Hns Hlo Hhi. unfold timestamp_ms, timestamp_spec.
  assert (E : (sec * 1000000000 + ns) / 1000000 = sec * 1000 + ns / 1000000).
  { replace (sec * 1000000000 + ns) with (sec * 1000 * 1000000 + ns) by lia. apply Z.div_add_l. lia. }
  assert (Hq : 0 <= ns / 1000000 <= 999).
  { split; [apply Z.div_pos; lia|]. apply Z.lt_succ_r. apply Z.div_lt_upper_bound; lia. }
  split.
  - rewrite Z.quot_div_nonneg by lia. rewrite (wrap64_id (sec * 1000)) by lia. rewrite wrap64_id by lia. lia.
  - rewrite E. pose proof (Z.div_mod ns 1000000 ltac:(lia)). pose proof (Z.mod_pos_bound ns 1000000 ltac:(lia)). lia.
Qed.

Lemma outermost_timestamp_wins_lemma inner layers :
  Forall (fun t => 0 <= snd t < 1000000000 /\ -9223372036854775808 <= fst t * 1000 /\ fst t * 1000 + 999 < 9223372036854775808) layers ->
  nested_timestamp inner layers = nested_timestamp_spec inner layers.
Proof.
  unfold nested_timestamp, nested_timestamp_spec. revert inner.
  induction layers as [|t r IH] using rev_ind; intros inner H; [reflexivity|].
  apply Forall_app in H. destruct H as [_ H]. inversion H as [|? ? (H1 & H2 & H3) _]; subst.
  rewrite fold_left_app, rev_app_distr. cbn.
  rewrite (proj1 (timestamp_floor_ms_lemma (fst t) (snd t) H1 H2 H3)). reflexivity.
Qed.

(* =========================================================== NewDesc *)
Lemma ex_consts (consts : list lpair) :
  existsb (fun p => negb (check_label_name (fst p))) consts = negb (forallb name_ok_spec (map fst consts)).
Proof.
  induction consts as [|p r IH]; [reflexivity|]. cbn [existsb map forallb]. rewrite IH.
  change (check_label_name (fst p)) with (name_ok_spec (fst p)). destruct (name_ok_spec (fst p)); reflexivity.
Qed.

Lemma ex_vars (vars : list str) :
  existsb (fun l => negb (check_label_name l)) vars = negb (forallb name_ok_spec vars).
Proof.
  induction vars as [|p r IH]; [reflexivity|]. cbn [existsb forallb]. rewrite IH.
  change (check_label_name p) with (name_ok_spec p). destruct (name_ok_spec p); reflexivity.
Qed.

Lemma forallb_perm {A} (f : A -> bool) a b : Permutation a b -> forallb f a = forallb f b.
Proof.
  induction 1; simpl; try congruence.
  - destruct (f x), (f y); reflexivity.
Qed.

Lemma lookup_map_nodup (l : list lpair) : NoDup (map fst l) ->
  map (fun n => lookup_str n l) (map fst l) = map snd l.
Proof.
  induction l as [|[a v] r IH]; [reflexivity|]. cbn [map fst snd]. intros H. inversion H as [|? ? Hn Hr]; subst.
  cbn [lookup_str]. rewrite str_eqb_refl. f_equal. rewrite <- (IH Hr).
  apply map_ext_in. intros n Hin. cbn [lookup_str].
  destruct (str_eqb a n) eqn:E; [|reflexivity]. apply str_eqb_eq in E. subst. contradiction.
Qed.

Lemma values_forallb (consts : list lpair) : NoDup (map fst consts) ->
  forallb utf8_valid (map (fun n => lookup_str n consts) (sort_strings (map fst consts))) = forallb utf8_valid (map snd consts).
Proof.
  intros H. rewrite <- (lookup_map_nodup consts H). apply forallb_perm. apply Permutation_map.
  apply Permutation_sym. apply sort_perm.
Qed.

Lemma len_eq (consts : list lpair) (vars : list str) (f : str -> str) :
  (Z.of_nat (length (sort_strings (map fst consts) ++ map f vars)) =? set_size (map fst consts ++ vars)) =
  nodup_b (map fst consts ++ vars).
Proof.
  unfold set_size.
  assert (L : length (sort_strings (map fst consts) ++ map f vars) = length (map fst consts ++ vars)).
  { rewrite !app_length, map_length. f_equal. apply Permutation_length. apply Permutation_sym. apply sort_perm. }
  rewrite L. destruct (nodup_b (map fst consts ++ vars)) eqn:E.
  - apply dedup_length_eq in E. rewrite E. apply Z.eqb_refl.
  - apply Z.eqb_neq. intros H. apply Nat2Z.inj in H. symmetry in H. apply dedup_length_eq in H. congruence.
Qed.

Lemma new_desc_ok_iff_lemma fq help vars consts : NoDup (map fst consts) ->
  (d_err (new_desc fq help vars consts) = None <-> desc_ok_spec fq vars consts = true).
Proof.
  intros Hnd. unfold new_desc, desc_ok_spec, metric_name_valid. cbv zeta.
  destruct (negb (is_empty fq) && utf8_valid fq) eqn:E1; cbn [negb andb d_err];
    [|split; intros H; discriminate H].
  apply andb_true_iff in E1. destruct E1 as [_ Hfq].
  rewrite ex_consts. destruct (forallb name_ok_spec (map fst consts)) eqn:E2; cbn [negb andb d_err];
    [|split; intros H; discriminate H].
  unfold validate_label_values. rewrite Z.eqb_refl. cbn [negb].
  cbn [forallb]. rewrite Hfq. cbn [andb].
  rewrite (values_forallb consts Hnd).
  destruct (forallb utf8_valid (map snd consts)) eqn:E3; cbn [negb d_err].
  2:{ rewrite andb_false_r. split; intros H; discriminate H. }
  rewrite ex_vars. destruct (forallb name_ok_spec vars) eqn:E4; cbn [negb andb d_err];
    [|split; intros H; discriminate H].
  rewrite andb_true_r. rewrite len_eq.
  destruct (nodup_b (map fst consts ++ vars)); cbn [negb d_err]; split; intros H; try reflexivity; try discriminate H.
Qed.

Lemma new_desc_ok_shape fq help vars consts :
  d_err (new_desc fq help vars consts) = None ->
  new_desc fq help vars consts = mkDesc fq help (sort_pairs consts) vars None.
Proof.
  unfold new_desc. cbv zeta.
  destruct (negb (metric_name_valid fq)); [discriminate|].
  destruct (existsb (fun p => negb (check_label_name (fst p))) consts); [discriminate|].
  match goal with |- context [validate_label_values ?a ?b] => destruct (validate_label_values a b) end; [discriminate|].
  destruct (existsb (fun l => negb (check_label_name l)) vars); [discriminate|].
  match goal with |- context [negb (?a =? ?b)] => destruct (negb (a =? b)) end; [discriminate|]. reflexivity.
Qed.

(* which error: the first failing check in the order of the Go code *)
Lemma new_desc_err_cases fq help vars consts e :
  d_err (new_desc fq help vars consts) = Some e ->
  e = ErrMetricName \/ e = ErrLabelName \/ e = ErrUtf8Value \/ e = ErrDuplicate.
Proof.
  unfold new_desc. cbv zeta.
  destruct (negb (metric_name_valid fq)); [cbn; intros H; inversion H; tauto|].
  destruct (existsb (fun p => negb (check_label_name (fst p))) consts); [cbn; intros H; inversion H; tauto|].
  unfold validate_label_values. rewrite Z.eqb_refl. cbn [negb].
  match goal with |- context [negb (forallb ?a ?b)] => destruct (negb (forallb a b)) end; [cbn; intros H; inversion H; tauto|].
  destruct (existsb (fun l => negb (check_label_name l)) vars); [cbn; intros H; inversion H; tauto|].
  match goal with |- context [negb (?a =? ?b)] => destruct (negb (a =? b)) end; [cbn; intros H; inversion H; tauto|]. cbn. discriminate.
Qed.

(* =========================================================== MakeLabelPairs *)
Definition lp_lt (a b : lpair) : Prop := str_ltb (fst a) (fst b) = true.

Lemma combine_fst {A B} (a : list A) (b : list B) : length b = length a -> map fst (combine a b) = a.
Proof.
  revert b. induction a as [|x a IH]; intros [|y b] H; simpl in *; try reflexivity; try discriminate.
  f_equal. apply IH. lia.
Qed.

Lemma sort_pairs_sorted (l : list lpair) : NoDup (map fst l) -> Sorted lp_lt (sort_pairs l).
Proof. intros H. apply (sort_sorted pair_lt). apply (nodup_keys_cmp l H). Qed.

Lemma label_pairs_sorted_complete_lemma fq help vars consts lvs :
  NoDup (map fst consts) -> d_err (new_desc fq help vars consts) = None -> length lvs = length vars ->
  Sorted lp_lt (make_label_pairs (new_desc fq help vars consts) lvs) /\
  Permutation (combine vars lvs ++ consts) (make_label_pairs (new_desc fq help vars consts) lvs).
Proof.
  intros Hnd Hok Hlen.
  pose proof (proj1 (new_desc_ok_iff_lemma fq help vars consts Hnd) Hok) as Hspec.
  rewrite (new_desc_ok_shape _ _ _ _ Hok). unfold make_label_pairs. cbn [d_vars d_const].
  assert (Hall : NoDup (map fst consts ++ vars)).
  { unfold desc_ok_spec in Hspec. repeat (apply andb_true_iff in Hspec; destruct Hspec as [Hspec ?]).
    apply nodup_b_NoDup. assumption. }
  destruct (Nat.eqb_spec (length vars + length (sort_pairs consts)) 0) as [E0|E0].
  - assert (vars = []) by (destruct vars; [reflexivity|simpl in E0; lia]). subst vars.
    assert (Hc : length (sort_pairs consts) = length consts) by (apply Permutation_length, Permutation_sym, sort_perm).
    destruct consts; [|simpl in *; lia]. simpl. split; constructor.
  - destruct (Nat.eqb_spec (length vars) 0) as [E1|E1].
    + assert (vars = []) by (destruct vars; [reflexivity|simpl in E1; lia]). subst vars. simpl.
      split; [apply sort_pairs_sorted; exact Hnd|apply sort_perm].
    + split.
      * apply sort_pairs_sorted. rewrite map_app, combine_fst by exact Hlen.
        eapply Permutation_NoDup; [|exact Hall].
        eapply Permutation_trans; [apply Permutation_app_comm|].
        apply Permutation_app_head. apply Permutation_map. apply sort_perm.
      * eapply Permutation_trans; [|apply sort_perm]. apply Permutation_app_head. apply sort_perm.
Qed.

(* the boolean checkers used on the implementation's output are sound *)
Lemma lpair_eqb_eq a b : lpair_eqb a b = true -> a = b.
Proof.
  destruct a, b. unfold lpair_eqb. cbn [fst snd]. intros H. apply andb_true_iff in H. destruct H as [H1 H2].
  apply str_eqb_eq in H1. apply str_eqb_eq in H2. subst. reflexivity.
Qed.

Section PermB.
  Context {A : Type} (eqb : A -> A -> bool) (eqb_sound : forall a b, eqb a b = true -> a = b).
  Lemma remove1_perm x l l' : remove1 eqb x l = Some l' -> Permutation (x :: l') l.
  Proof.
    revert l'. induction l as [|y r IH]; simpl; intros l' H; [discriminate|].
    destruct (eqb x y) eqn:E.
    - inversion H; subst. apply eqb_sound in E. subst. apply Permutation_refl.
    - destruct (remove1 eqb x r) eqn:R; [|discriminate]. inversion H; subst.
      eapply Permutation_trans; [apply perm_swap|]. apply perm_skip. apply IH. reflexivity.
  Qed.
  Lemma perm_b_sound a b : perm_b eqb a b = true -> Permutation a b.
  Proof.
    revert b. induction a as [|x r IH]; simpl; intros b H.
    - destruct b; [constructor|discriminate].
    - destruct (remove1 eqb x b) eqn:R; [|discriminate].
      eapply Permutation_trans; [apply perm_skip; apply IH; exact H|]. apply remove1_perm. exact R.
  Qed.
End PermB.

Lemma sorted_names_b_sound l : sorted_names_b l = true -> Sorted lp_lt l.
Proof.
  induction l as [|a r IH]; [constructor|]. destruct r as [|b r'].
  - intros _. constructor; constructor.
  - cbn [sorted_names_b]. intros H. apply andb_true_iff in H. destruct H as [H1 H2].
    constructor; [apply IH; exact H2|]. constructor. exact H1.
Qed.

Lemma label_pairs_spec_sound vars lvs consts out :
  label_pairs_spec vars lvs consts out = true -> Sorted lp_lt out /\ Permutation (combine vars lvs ++ consts) out.
Proof.
  unfold label_pairs_spec. intros H. apply andb_true_iff in H. destruct H as [H1 H2]. split.
  - apply sorted_names_b_sound. exact H1.
  - apply (perm_b_sound lpair_eqb lpair_eqb_eq). exact H2.
Qed.

(* =========================================================== NewConstMetric *)
Lemma validate_label_values_none vals n :
  validate_label_values vals n = None <-> (Z.of_nat (length vals) = n /\ forallb utf8_valid vals = true).
Proof.
  unfold validate_label_values. destruct (Z.eqb_spec (Z.of_nat (length vals)) n); cbn [negb].
  - destruct (forallb utf8_valid vals); cbn [negb]; split; intros H; try tauto; try discriminate. destruct H; discriminate.
  - split; [discriminate|]. intros [H _]. contradiction.
Qed.

Lemma const_metric_faithful_lemma fq help vars consts vt v lvs :
  NoDup (map fst consts) ->
  let d := new_desc fq help vars consts in
  (desc_ok_spec fq vars consts = true /\ length lvs = length vars /\ forallb utf8_valid lvs = true /\ 1 <= vt <= 3 ->
     new_const_metric d vt v lvs = Ok (mkSimple (make_label_pairs d lvs) vt v)) /\
  (~ (desc_ok_spec fq vars consts = true /\ length lvs = length vars /\ forallb utf8_valid lvs = true /\ 1 <= vt <= 3) ->
     exists e, new_const_metric d vt v lvs = Err e).
Proof.
  intros Hnd d. pose proof (new_desc_ok_iff_lemma fq help vars consts Hnd) as Hiff. fold d in Hiff.
  assert (Hv : d_err d = None -> d_vars d = vars).
  { intros H. unfold d. rewrite (new_desc_ok_shape _ _ _ _ H). reflexivity. }
  unfold new_const_metric. split.
  - intros (H1 & H2 & H3 & H4). apply Hiff in H1. rewrite H1. rewrite (Hv H1).
    assert (E : validate_label_values lvs (Z.of_nat (length vars)) = None).
    { apply validate_label_values_none. split; [congruence|exact H3]. }
    rewrite E. assert (Ht : (vt =? 1) || (vt =? 2) || (vt =? 3) = true).
    { destruct (Z.eqb_spec vt 1), (Z.eqb_spec vt 2), (Z.eqb_spec vt 3); try reflexivity. lia. }
    rewrite Ht. reflexivity.
  - intros Hno. destruct (d_err d) as [e|] eqn:Ed; [exists e; reflexivity|].
    rewrite (Hv eq_refl).
    destruct (validate_label_values lvs (Z.of_nat (length vars))) as [e|] eqn:Ev; [exists e; reflexivity|].
    apply validate_label_values_none in Ev. destruct Ev as [Ev1 Ev2]. apply Nat2Z.inj in Ev1.
    destruct ((vt =? 1) || (vt =? 2) || (vt =? 3)) eqn:Et; [|exists ErrValueType; reflexivity].
    exfalso. apply Hno. repeat split; try assumption; try (apply Hiff; reflexivity).
    + destruct (Z.eqb_spec vt 1), (Z.eqb_spec vt 2), (Z.eqb_spec vt 3); simpl in Et; try discriminate; lia.
    + destruct (Z.eqb_spec vt 1), (Z.eqb_spec vt 2), (Z.eqb_spec vt 3); simpl in Et; try discriminate; lia.
Qed.

Lemma const_metric_ct_lemma d vt v lvs :
  (vt = 1 -> new_const_metric_ct d vt v lvs = new_const_metric d vt v lvs) /\
  (vt <> 1 -> exists e, new_const_metric_ct d vt v lvs = Err e).
Proof.
  unfold new_const_metric_ct, new_const_metric. split.
  - intros ->. destruct (d_err d); [reflexivity|]. destruct (validate_label_values lvs _); reflexivity.
  - intros H. destruct (d_err d) as [e|]; [exists e; reflexivity|].
    destruct (validate_label_values lvs _) as [e|]; [exists e; reflexivity|].
    destruct (Z.eqb_spec vt 1); [contradiction|]. exists ErrCtType. reflexivity.
Qed.

(* =========================================================== native: decoder facts *)
Local Notation int64 z := (-9223372036854775808 <= z < 9223372036854775808).

Fixpoint decode_full (spans : list span) (idx cnt : Z) (ds : list Z) : list (Z * Z) * Z * Z * list Z :=
  match spans with
  | [] => ([], idx, cnt, ds)
  | (o, l) :: r =>
      let '(out, idx', cnt', ds') := decode_span (Z.to_nat l) (idx + o) cnt ds in
      let '(out2, idx2, cnt2, ds2) := decode_full r idx' cnt' ds' in
      (out ++ out2, idx2, cnt2, ds2)
  end.

Lemma decode_full_out spans idx cnt ds :
  decode_spans_from spans idx cnt ds = fst (fst (fst (decode_full spans idx cnt ds))).
Proof.
  revert idx cnt ds. induction spans as [|[o l] r IH]; intros idx cnt ds; [reflexivity|].
  cbn [decode_spans_from decode_full].
  destruct (decode_span (Z.to_nat l) (idx + o) cnt ds) as [[[out i'] c'] d'].
  rewrite IH. destruct (decode_full r i' c' d') as [[[o2 i2] c2] d2]. reflexivity.
Qed.

Lemma decode_span_snoc n : forall i c ds out i' c' d rest,
  decode_span n i c ds = (out, i', c', d :: rest) ->
  decode_span (S n) i c ds = (out ++ [(i', wrap64 (c' + d))], i' + 1, wrap64 (c' + d), rest).
Proof.
  induction n as [|n IH]; intros i c ds out i' c' d rest H.
  - cbn [decode_span] in H. inversion H; subst. reflexivity.
  - destruct ds as [|dl ds0]; [cbn [decode_span] in H; inversion H|].
    change (decode_span (S n) i c (dl :: ds0)) with
      (let c1 := wrap64 (c + dl) in
       let '(o, ii, cc, dd) := decode_span n (i + 1) c1 ds0 in ((i, c1) :: o, ii, cc, dd)) in H.
    cbv zeta in H. destruct (decode_span n (i + 1) (wrap64 (c + dl)) ds0) as [[[o ii] cc] dd] eqn:E.
    inversion H; subst.
    change (decode_span (S (S n)) i c (dl :: ds0)) with
      (let c1 := wrap64 (c + dl) in
       let '(o, ii, cc, dd) := decode_span (S n) (i + 1) c1 ds0 in ((i, c1) :: o, ii, cc, dd)).
    cbv zeta. rewrite (IH _ _ _ _ _ _ _ _ E). reflexivity.
Qed.

Lemma decode_full_app a : forall b i c ds,
  decode_full (a ++ b) i c ds =
  let '(o1, i1, c1, d1) := decode_full a i c ds in
  let '(o2, i2, c2, d2) := decode_full b i1 c1 d1 in (o1 ++ o2, i2, c2, d2).
Proof.
  induction a as [|[o l] r IH]; intros b i c ds.
  - cbn [app decode_full]. destruct (decode_full b i c ds) as [[[o2 i2] c2] d2]. reflexivity.
  - cbn [app decode_full]. destruct (decode_span (Z.to_nat l) (i + o) c ds) as [[[out i'] c'] d'].
    rewrite IH. destruct (decode_full r i' c' d') as [[[o1 i1] c1] d1].
    destruct (decode_full b i1 c1 d1) as [[[o2 i2] c2] d2]. rewrite app_assoc. reflexivity.
Qed.

(* the encoder keeps spans and deltas reversed *)
Definition Dec (SP : list span) (D : list Z) (flat : list (Z * Z)) (idx cnt : Z) : Prop :=
  forall extra, decode_full (rev SP) 0 0 (rev D ++ extra) = (flat, idx, cnt, extra).

Lemma Dec_nil : Dec [] [] [] 0 0.
Proof. intros extra. reflexivity. Qed.

Lemma Dec_new_span (SP : list span) D flat idx cnt o : Dec SP D flat idx cnt -> Dec ((o, 0) :: SP) D flat (idx + o) cnt.
Proof.
  intros H extra. cbn [rev]. rewrite decode_full_app, H. cbn. rewrite !app_nil_r. reflexivity.
Qed.

Lemma Dec_append (SP : list span) D flat idx cnt o l dl : 0 <= l ->
  Dec ((o, l) :: SP) D flat idx cnt ->
  Dec ((o, l + 1) :: SP) (dl :: D) (flat ++ [(idx, wrap64 (cnt + dl))]) (idx + 1) (wrap64 (cnt + dl)).
Proof.
  intros Hl H extra. specialize (H (dl :: extra)). cbn [rev] in *.
  rewrite <- app_assoc. cbn [app].
  rewrite decode_full_app in H. rewrite decode_full_app.
  destruct (decode_full (rev SP) 0 0 (rev D ++ dl :: extra)) as [[[o1 i1] c1] d1] eqn:E0.
  cbn [decode_full] in *.
  destruct (decode_span (Z.to_nat l) (i1 + o) c1 d1) as [[[out i'] c'] d'] eqn:E.
  inversion H; subst. replace (Z.to_nat (l + 1)) with (Datatypes.S (Z.to_nat l)) by lia.
  rewrite (decode_span_snoc _ _ _ _ _ _ _ _ _ E). rewrite !app_nil_r, app_assoc. reflexivity.
Qed.

Definition good_spans (SP : list span) : Prop := match SP with (o, l) :: _ => 0 <= l | [] => False end.

Lemma append_delta_dec st c flat pos :
  good_spans (mb_spans st) -> int64 c ->
  Dec (mb_spans st) (mb_deltas st) flat pos (mb_prev st) ->
  Dec (mb_spans (append_delta st c)) (mb_deltas (append_delta st c)) (flat ++ [(pos, c)]) (pos + 1) c /\
  good_spans (mb_spans (append_delta st c)) /\ mb_prev (append_delta st c) = c /\
  mb_next (append_delta st c) = mb_next st.
Proof.
  intros Hg Hc HD. unfold append_delta. destruct (mb_spans st) as [|[o l] r] eqn:ES; [contradiction|].
  cbn [good_spans] in Hg. cbn [mb_spans mb_deltas mb_prev mb_next].
  pose proof (Dec_append r (mb_deltas st) flat pos (mb_prev st) o l (wrap64 (c - mb_prev st)) Hg HD) as H.
  rewrite (wrap64_add_sub (mb_prev st) c Hc) in H. repeat split; try assumption; cbn [good_spans]; lia.
Qed.

Fixpoint zeros (pos : Z) (n : nat) : list (Z * Z) :=
  match n with O => [] | S k => (pos, 0) :: zeros (pos + 1) k end.

Lemma zeros_in pos n p : In p (zeros pos n) -> pos <= fst p < pos + Z.of_nat n /\ snd p = 0.
Proof.
  revert pos. induction n as [|n IH]; intros pos H; [contradiction|]. cbn [zeros] in H. destruct H as [H|H].
  - subst p. cbn. lia.
  - apply IH in H. lia.
Qed.

Lemma zeros_sorted pos n : Sorted Z.lt (map fst (zeros pos n)).
Proof.
  revert pos. induction n as [|n IH]; intros pos; [constructor|]. cbn [zeros map fst]. constructor; [apply IH|].
  destruct n; cbn; constructor. lia.
Qed.

Lemma append_zeros_dec n : forall st flat pos,
  good_spans (mb_spans st) -> int64 (mb_prev st) ->
  Dec (mb_spans st) (mb_deltas st) flat pos (mb_prev st) ->
  Dec (mb_spans (append_zeros n st)) (mb_deltas (append_zeros n st)) (flat ++ zeros pos n) (pos + Z.of_nat n) (mb_prev (append_zeros n st)) /\
  good_spans (mb_spans (append_zeros n st)) /\ int64 (mb_prev (append_zeros n st)) /\
  mb_next (append_zeros n st) = mb_next st.
Proof.
  induction n as [|n IH]; intros st flat pos Hg Hp HD.
  - cbn [append_zeros zeros]. rewrite app_nil_r, Z.add_0_r. repeat split; try assumption; lia.
  - cbn [append_zeros zeros].
    destruct (append_delta_dec st 0 flat pos Hg ltac:(lia) HD) as (D1 & G1 & P1 & N1).
    rewrite <- P1 in D1 at 2.
    destruct (IH (append_delta st 0) (flat ++ [(pos, 0)]) (pos + 1) G1 ltac:(rewrite P1; lia) D1) as (D2 & G2 & P2 & N2).
    rewrite <- app_assoc in D2. cbn [app] in D2.
    replace (pos + Z.of_nat (S n)) with (pos + 1 + Z.of_nat n) by lia.
    repeat split; try assumption; try lia.
Qed.

(* =========================================================== native: the encoder loop *)
Lemma lookup_int_in k (m : imap) : In k (map fst m) -> In (k, lookup_int k m) m.
Proof.
  induction m as [|[a v] r IH]; cbn [map fst In lookup_int]; [tauto|]. intros [H|H].
  - subst. rewrite Z.eqb_refl. left; reflexivity.
  - destruct (Z.eqb_spec a k); [subst; left; reflexivity|right; apply IH; exact H].
Qed.

Lemma lookup_int_nodup k v (m : imap) : NoDup (map fst m) -> In (k, v) m -> lookup_int k m = v.
Proof.
  induction m as [|[a w] r IH]; cbn [map fst In lookup_int]; [tauto|]. intros Hn [H|H].
  - inversion H; subst. rewrite Z.eqb_refl. reflexivity.
  - inversion Hn as [|? ? Hna Hnr]; subst. destruct (Z.eqb_spec a k).
    + subst. exfalso. apply Hna. change k with (fst (k, v)). apply in_map. exact H.
    + apply IH; assumption.
Qed.

Lemma idelta_exact (first : bool) pos i : int64 i ->
  (first = true -> pos = 0) -> (first = false -> -2147483647 <= pos <= i) ->
  (max_int32 <? wrap64 (i - wrap64 pos)) || (wrap64 (i - wrap64 pos) <? min_int32) = false ->
  wrap64 pos = pos /\ wrap32 (wrap64 (i - wrap64 pos)) = i - pos /\ min_int32 <= i - pos <= max_int32 /\
  (first = false -> 0 <= i - pos).
Proof.
  intros Hi Hf Hnf Hv. unfold max_int32, min_int32 in *.
  assert (Wp : wrap64 pos = pos).
  { apply wrap64_id. destruct first; [rewrite (Hf eq_refl); lia|specialize (Hnf eq_refl); lia]. }
  rewrite Wp in *. apply orb_false_iff in Hv. destruct Hv as [H1 H2].
  apply Z.ltb_ge in H1. apply Z.ltb_ge in H2.
  destruct (wrap64_spec (i - pos)) as (k & E & B).
  assert (Ex : wrap64 (i - pos) = i - pos).
  { destruct first; [rewrite (Hf eq_refl) in *; lia|specialize (Hnf eq_refl); lia]. }
  rewrite Ex in *. split; [reflexivity|]. split; [apply wrap32_id; lia|]. split; [lia|].
  intros F. specialize (Hnf F). lia.
Qed.

Lemma mb_step_inv (m : imap) (first : bool) st flat pos i :
  (forall k v, In (k, v) m -> int64 v) -> In i (map fst m) -> int64 i ->
  (first = true -> pos = 0) ->
  (first = false -> good_spans (mb_spans st) /\ -2147483647 <= pos <= i) ->
  mb_next st = wrap64 pos -> int64 (mb_prev st) ->
  Dec (mb_spans st) (mb_deltas st) flat pos (mb_prev st) ->
  (max_int32 <? wrap64 (i - mb_next st)) || (wrap64 (i - mb_next st) <? min_int32) = false ->
  exists gap,
    Dec (mb_spans (mb_step m first st i)) (mb_deltas (mb_step m first st i))
        (flat ++ gap ++ [(i, lookup_int i m)]) (i + 1) (mb_prev (mb_step m first st i)) /\
    good_spans (mb_spans (mb_step m first st i)) /\ mb_next (mb_step m first st i) = wrap64 (i + 1) /\
    int64 (mb_prev (mb_step m first st i)) /\ -2147483647 <= i + 1 /\
    (forall p, In p gap -> pos <= fst p < i /\ snd p = 0) /\ Sorted Z.lt (map fst gap) /\
    (first = true -> gap = []).
Proof.
  intros Hv Hin Hi Hf Hnf Hnext Hprev HD Hval. rewrite Hnext in Hval.
  assert (Hnf' : first = false -> -2147483647 <= pos <= i) by (intros F; apply Hnf; exact F).
  destruct (idelta_exact first pos i Hi Hf Hnf' Hval) as (Wp & Wd & Hr & Hnn).
  unfold max_int32, min_int32 in Hr.
  assert (Hc : int64 (lookup_int i m)) by (apply (Hv i), lookup_int_in; exact Hin).
  unfold mb_step. cbv zeta.
  replace (wrap32 (wrap64 (i - mb_next st))) with (i - pos) by (rewrite Hnext; symmetry; exact Wd).
  destruct (first || (2 <? i - pos)) eqn:Enew.
  - (* a new span *)
    pose proof (Dec_new_span (mb_spans st) (mb_deltas st) flat pos (mb_prev st) (i - pos) HD) as D0.
    replace (pos + (i - pos)) with i in D0 by lia.
    set (st1 := mkMb ((i - pos, 0) :: mb_spans st) (mb_deltas st) (mb_prev st) (mb_next st)).
    destruct (append_delta_dec st1 (lookup_int i m) flat i ltac:(cbn; lia) Hc D0) as (D1 & G1 & P1 & N1).
    exists []. cbn [mb_spans mb_deltas mb_prev mb_next app]. rewrite P1.
    assert (Hlow : -2147483647 <= i + 1).
    { destruct first; [rewrite (Hf eq_refl) in Hr; lia|specialize (Hnf' eq_refl); lia]. }
    repeat split; try assumption; try lia; try contradiction. constructor.
  - (* small gap: fill with empty buckets *)
    apply orb_false_iff in Enew. destruct Enew as [F E2]. apply Z.ltb_ge in E2.
    destruct (Hnf F) as [Hg Hpos]. specialize (Hnn F).
    destruct (append_zeros_dec (Z.to_nat (i - pos)) st flat pos Hg Hprev HD) as (D0 & G0 & P0 & N0).
    replace (pos + Z.of_nat (Z.to_nat (i - pos))) with i in D0 by lia.
    set (st1 := append_zeros (Z.to_nat (i - pos)) st) in *.
    destruct (append_delta_dec st1 (lookup_int i m) _ i G0 Hc D0) as (D1 & G1 & P1 & N1).
    exists (zeros pos (Z.to_nat (i - pos))). cbn [mb_spans mb_deltas mb_prev mb_next]. rewrite P1.
    rewrite <- app_assoc in D1.
    repeat split; try assumption; try lia.
    + apply zeros_in in H. lia.
    + apply zeros_in in H. lia.
    + apply zeros_in in H. lia.
    + apply zeros_sorted.
    + intros F'. congruence.
Qed.

Lemma sorted_app_lt (a b : list Z) :
  Sorted Z.lt a -> Sorted Z.lt b -> (forall x y, In x a -> In y b -> x < y) -> Sorted Z.lt (a ++ b).
Proof.
  induction a as [|x a IH]; cbn [app]; intros Ha Hb H; [exact Hb|].
  inversion Ha as [|? ? Hs Hh]; subst. constructor.
  - apply IH; try assumption. intros u v Hu Hv'. apply H; [right; exact Hu|exact Hv'].
  - destruct a as [|y a']; cbn [app].
    + destruct b as [|z b']; constructor. apply H; left; reflexivity.
    + constructor. inversion Hh; assumption.
Qed.

Lemma sorted_lt_forall x (l : list Z) : Sorted Z.lt (x :: l) -> Forall (fun y => x < y) l.
Proof.
  intros H. apply Sorted_StronglySorted in H; [|intros a b c; apply Z.lt_trans].
  inversion H; assumption.
Qed.

Lemma mb_loop_inv (m : imap) : (forall k v, In (k, v) m -> int64 v) ->
  forall keys (first : bool) st flat pos,
  Sorted Z.lt keys -> (forall k, In k keys -> In k (map fst m) /\ int64 k) ->
  (first = true -> pos = 0 /\ flat = []) ->
  (first = false -> good_spans (mb_spans st) /\ -2147483647 <= pos /\ forall k, In k keys -> pos <= k) ->
  mb_next st = wrap64 pos -> int64 (mb_prev st) ->
  Dec (mb_spans st) (mb_deltas st) flat pos (mb_prev st) ->
  validate_idx_loop keys (mb_next st) = None ->
  Sorted Z.lt (map fst flat) -> Forall (fun p => fst p < pos) flat ->
  Forall (fun p => In p m \/ (snd p = 0 /\ ~ In (fst p) (map fst m))) flat ->
  (forall k, In k (map fst m) -> In k keys \/ In (k, lookup_int k m) flat) ->
  exists flat' pos',
    Dec (mb_spans (mb_loop m first st keys)) (mb_deltas (mb_loop m first st keys)) flat' pos' (mb_prev (mb_loop m first st keys)) /\
    Sorted Z.lt (map fst flat') /\
    Forall (fun p => In p m \/ (snd p = 0 /\ ~ In (fst p) (map fst m))) flat' /\
    (forall k, In k (map fst m) -> In (k, lookup_int k m) flat').
Proof.
  intros Hv. induction keys as [|i rest IH]; intros first st flat pos Hs Hk Hf Hnf Hnext Hprev HD Hval F1 F2 F3 K.
  - exists flat, pos. cbn [mb_loop]. repeat split; try assumption.
    intros k Hin. destruct (K k Hin) as [[]|H]; exact H.
  - cbn [validate_idx_loop] in Hval. cbn [mb_loop].
    destruct ((max_int32 <? wrap64 (i - mb_next st)) || (wrap64 (i - mb_next st) <? min_int32)) eqn:Ec; [discriminate|].
    destruct (Hk i (or_introl eq_refl)) as [Hin Hi].
    assert (Hf' : first = true -> pos = 0) by (intros F; apply Hf; exact F).
    assert (Hnf' : first = false -> good_spans (mb_spans st) /\ -2147483647 <= pos <= i).
    { intros F. destruct (Hnf F) as (G & L & U). repeat split; try assumption. apply U. left; reflexivity. }
    destruct (mb_step_inv m first st flat pos i Hv Hin Hi Hf' Hnf' Hnext Hprev HD Ec)
      as (gap & D1 & G1 & N1 & P1 & L1 & Gp & Gs & Gf).
    assert (Hgt : Forall (fun y => i < y) rest) by (apply sorted_lt_forall; exact Hs).
    rewrite Forall_forall in Hgt.
    assert (Hflat : first = true -> flat = []) by (intros F; apply Hf; exact F).
    apply (IH false (mb_step m first st i) (flat ++ gap ++ [(i, lookup_int i m)]) (i + 1)).
    + inversion Hs; assumption.
    + intros k Hin'. apply Hk. right; exact Hin'.
    + discriminate.
    + intros _. repeat split; try assumption. intros k Hin'. specialize (Hgt k Hin'). lia.
    + exact N1.
    + exact P1.
    + exact D1.
    + rewrite N1. exact Hval.
    + rewrite !map_app. cbn [map fst].
      destruct first.
      * rewrite (Hflat eq_refl), (Gf eq_refl). cbn. constructor; constructor.
      * rewrite Forall_forall in F2. destruct (Hnf' eq_refl) as (_ & _ & Hpi).
        apply sorted_app_lt; [exact F1| |].
        -- apply sorted_app_lt; [exact Gs|constructor; constructor|].
           intros x y Hx Hy. apply in_map_iff in Hx. destruct Hx as (p & Ep & Hp). destruct Hy as [Hy|[]].
           subst. apply Gp in Hp. lia.
        -- intros x y Hx Hy. apply in_map_iff in Hx. destruct Hx as (p & Ep & Hp). specialize (F2 p Hp). cbn beta in F2.
           apply in_app_or in Hy. destruct Hy as [Hy|[Hy|[]]].
           ++ apply in_map_iff in Hy. destruct Hy as (q & Eq & Hq). apply Gp in Hq. lia.
           ++ lia.
    + apply Forall_forall. intros p Hp. rewrite Forall_forall in F2.
      apply in_app_or in Hp. destruct Hp as [Hp|Hp].
      * specialize (F2 p Hp). cbn beta in F2.
        destruct first; [rewrite (Hflat eq_refl) in Hp; contradiction|]. destruct (Hnf' eq_refl) as (_ & _ & Hpi). lia.
      * apply in_app_or in Hp. destruct Hp as [Hp|[Hp|[]]].
        -- apply Gp in Hp. lia.
        -- subst p. cbn. lia.
    + apply Forall_forall. intros p Hp. rewrite Forall_forall in F3.
      apply in_app_or in Hp. destruct Hp as [Hp|Hp]; [apply F3; exact Hp|].
      apply in_app_or in Hp. destruct Hp as [Hp|[Hp|[]]].
      * right. destruct (Gp p Hp) as [Hrange Hz]. split; [exact Hz|]. intros Hin'.
        destruct (K (fst p) Hin') as [[Hk1|Hk1]|Hk1].
        -- lia.
        -- specialize (Hgt _ Hk1). lia.
        -- rewrite Forall_forall in F2. specialize (F2 _ Hk1). cbn in F2. lia.
      * left. subst p. apply lookup_int_in. exact Hin.
    + intros k Hin'. destruct (K k Hin') as [[Hk1|Hk1]|Hk1].
      * subst k. right. apply in_or_app. right. apply in_or_app. right. left; reflexivity.
      * left; exact Hk1.
      * right. apply in_or_app. left; exact Hk1.
Qed.

Lemma nodup_Z_cmp (l : list Z) : NoDup l -> ForallOrdPairs (cmpb Z.ltb) l.
Proof.
  induction l as [|x r IH]; intros H; [constructor|].
  inversion H as [|? ? Hn Hr]; subst. constructor; [|apply IH; exact Hr].
  apply Forall_forall. intros y Hy. unfold cmpb.
  destruct (Z.ltb_spec x y); [left; reflexivity|]. destruct (Z.ltb_spec y x); [right; reflexivity|].
  exfalso. apply Hn. assert (x = y) by lia. subst. exact Hy.
Qed.

Lemma sorted_ltb_lt (l : list Z) : Sorted (ltT Z.ltb) l -> Sorted Z.lt l.
Proof.
  induction 1 as [|x r Hs IH Hh]; constructor; [exact IH|].
  destruct Hh; constructor. apply Z.ltb_lt. assumption.
Qed.

Lemma sort_ints_sorted (l : list Z) : NoDup l -> Sorted Z.lt (sort_ints l).
Proof. intros H. apply sorted_ltb_lt. apply (sort_sorted Z.ltb). apply nodup_Z_cmp. exact H. Qed.

Lemma native_const_spans_decode_lemma (m : imap) :
  NoDup (map fst m) -> (forall k v, In (k, v) m -> int64 k /\ int64 v) ->
  validate_bucket_indexes m = None ->
  let dec := decode_spans (fst (make_buckets_from_map m)) (snd (make_buckets_from_map m)) in
  (forall k v, In (k, v) m -> In (k, v) dec) /\
  (forall k v, In (k, v) dec -> In (k, v) m \/ (v = 0 /\ ~ In k (map fst m))) /\
  Sorted Z.lt (map fst dec).
Proof.
  intros Hnd Hr Hval. destruct m as [|p r].
  - cbn. repeat split; try contradiction. constructor.
  - set (m := p :: r) in *. unfold make_buckets_from_map. fold m.
    change (match m with [] => ([], []) | _ :: _ => _ end) with
      (let st := mb_loop m true (mkMb [] [] 0 0) (sort_ints (map fst m)) in (rev (mb_spans st), rev (mb_deltas st))).
    cbv zeta. cbn [fst snd].
    assert (Hv : forall k v, In (k, v) m -> int64 v) by (intros k v H; apply (Hr k v H)).
    assert (Hperm : Permutation (map fst m) (sort_ints (map fst m))) by apply sort_perm.
    destruct (mb_loop_inv m Hv (sort_ints (map fst m)) true (mkMb [] [] 0 0) [] 0) as (flat & pos & D & S1 & S2 & S3).
    + apply sort_ints_sorted. exact Hnd.
    + intros k Hk. assert (Hin : In k (map fst m)) by (eapply Permutation_in; [apply Permutation_sym; exact Hperm|exact Hk]).
      split; [exact Hin|]. apply in_map_iff in Hin. destruct Hin as ([a v] & E & Hin). cbn in E. subst a. apply (Hr k v Hin).
    + intros _. split; reflexivity.
    + discriminate.
    + reflexivity.
    + cbn. lia.
    + apply Dec_nil.
    + exact Hval.
    + constructor.
    + constructor.
    + constructor.
    + intros k Hk. left. eapply Permutation_in; [exact Hperm|exact Hk].
    + assert (E : decode_spans (rev (mb_spans (mb_loop m true (mkMb [] [] 0 0) (sort_ints (map fst m)))))
                               (rev (mb_deltas (mb_loop m true (mkMb [] [] 0 0) (sort_ints (map fst m))))) = flat).
      { unfold decode_spans. rewrite decode_full_out. specialize (D []). rewrite app_nil_r in D. rewrite D. reflexivity. }
      rewrite E. split; [|split].
      * intros k v Hin. rewrite <- (lookup_int_nodup k v m Hnd Hin). apply S3.
        change k with (fst (k, v)). apply in_map. exact Hin.
      * intros k v Hin. rewrite Forall_forall in S2. apply (S2 (k, v) Hin).
      * exact S1.
Qed.

(* =========================================================== native: index validation is exact *)
Lemma validate_idx_iff : forall keys (first : bool) pos,
  Sorted Z.lt keys -> (forall k, In k keys -> int64 k) ->
  (first = true -> pos = 0) ->
  (first = false -> -2147483647 <= pos /\ forall k, In k keys -> pos <= k) ->
  (validate_idx_loop keys (wrap64 pos) = None <-> gaps_spec keys pos = true).
Proof.
  induction keys as [|i rest IH]; intros first pos Hs Hk Hf Hnf; [split; reflexivity|].
  cbn [validate_idx_loop gaps_spec].
  assert (Hi : int64 i) by (apply Hk; left; reflexivity).
  assert (Hnf' : first = false -> -2147483647 <= pos <= i).
  { intros F. destruct (Hnf F) as [L U]. split; [exact L|apply U; left; reflexivity]. }
  assert (Hgt : Forall (fun y => i < y) rest) by (apply sorted_lt_forall; exact Hs). rewrite Forall_forall in Hgt.
  assert (Hrec : -2147483647 <= i + 1 ->
                 (validate_idx_loop rest (wrap64 (i + 1)) = None <-> gaps_spec rest (i + 1) = true)).
  { intros L. apply (IH false); [inversion Hs; assumption|intros k H; apply Hk; right; exact H|discriminate|].
    intros _. split; [exact L|]. intros k H. specialize (Hgt k H). lia. }
  destruct ((max_int32 <? wrap64 (i - wrap64 pos)) || (wrap64 (i - wrap64 pos) <? min_int32)) eqn:Ec.
  - split; [discriminate|]. intros H. exfalso. apply andb_true_iff in H. destruct H as [H _].
    unfold in_rng, max_int32, min_int32 in *. apply andb_true_iff in H. destruct H as [H1 H2].
    apply Z.leb_le in H1. apply Z.leb_le in H2.
    assert (Wp : wrap64 pos = pos).
    { apply wrap64_id. destruct first; [rewrite (Hf eq_refl); lia|specialize (Hnf' eq_refl); lia]. }
    rewrite Wp in Ec. rewrite (wrap64_id (i - pos)) in Ec by lia.
    apply orb_true_iff in Ec. destruct Ec as [E|E]; apply Z.ltb_lt in E; lia.
  - destruct (idelta_exact first pos i Hi Hf Hnf' Ec) as (Wp & Wd & Hr & Hnn).
    assert (L : -2147483647 <= i + 1).
    { unfold min_int32, max_int32 in Hr. destruct first; [rewrite (Hf eq_refl) in Hr; lia|specialize (Hnf' eq_refl); lia]. }
    rewrite (Hrec L). unfold in_rng. destruct Hr as [Hr1 Hr2]. apply Z.leb_le in Hr1. apply Z.leb_le in Hr2.
    rewrite Hr1, Hr2. cbn [andb]. reflexivity.
Qed.

Lemma bucket_index_validation_exact_lemma (m : imap) :
  NoDup (map fst m) -> (forall k, In k (map fst m) -> int64 k) ->
  (validate_bucket_indexes m = None <-> gaps_spec (sort_ints (map fst m)) 0 = true).
Proof.
  intros Hnd Hk. unfold validate_bucket_indexes.
  change 0 with (wrap64 0) at 1.
  apply (validate_idx_iff _ true 0).
  - apply sort_ints_sorted. exact Hnd.
  - intros k H. apply Hk. eapply Permutation_in; [apply Permutation_sym; apply sort_perm|exact H].
  - reflexivity.
  - discriminate.
Qed.

(* =========================================================== native: count validation *)
Lemma pop_sum_cons p (r : imap) : pop_sum (p :: r) = snd p + pop_sum r.
Proof.
  unfold pop_sum. cbn [fold_left].
  assert (G : forall (l : imap) x y, fold_left (fun a p => a + snd p) l (x + y) = x + fold_left (fun a p => a + snd p) l y).
  { clear. induction l as [|q l IHl]; intros x y; cbn [fold_left]; [reflexivity|]. rewrite <- IHl. f_equal. lia. }
  replace (0 + snd p) with (snd p + 0) by lia. apply G.
Qed.

Lemma wrap_sum_congr (l : imap) : forall a, exists k,
  fold_left (fun a p => wrap64 (a + snd p)) l a = a + pop_sum l + k * 18446744073709551616.
Proof.
  induction l as [|p r IH]; intros a.
  - exists 0. cbn. lia.
  - cbn [fold_left]. destruct (IH (wrap64 (a + snd p))) as (k & E). destruct (wrap64_spec (a + snd p)) as (k2 & E2 & _).
    rewrite E, E2, pop_sum_cons. exists (k + k2). lia.
Qed.

Lemma validate_count_exact_lemma sum count (neg pos : imap) zero :
  0 <= count < 9223372036854775808 -> int64 (pop_sum pos + pop_sum neg + zero) ->
  (validate_count sum count neg pos zero = None <-> count_consistent_spec sum count neg pos zero = true).
Proof.
  intros Hc Hs. unfold validate_count, count_consistent_spec. cbv zeta.
  destruct (wrap_sum_congr pos 0) as (k1 & E1). rewrite E1.
  destruct (wrap_sum_congr neg (0 + pop_sum pos + k1 * 18446744073709551616)) as (k2 & E2). rewrite E2.
  destruct (wrap64_spec zero) as (k3 & E3 & _). rewrite E3.
  rewrite (wrap64_id count) by lia.
  match goal with |- context [count <? wrap64 ?z] => destruct (wrap64_spec z) as (k4 & E4 & B4) end.
  assert (Ex : wrap64 (0 + pop_sum pos + k1 * 18446744073709551616 + pop_sum neg + k2 * 18446744073709551616 +
                       (zero + k3 * 18446744073709551616)) = pop_sum pos + pop_sum neg + zero) by lia.
  rewrite Ex. clear E1 E2 E3 E4 Ex B4.
  destruct (is_nan sum); cbn [andb orb negb].
  - rewrite orb_false_r. destruct (Z.ltb_spec count (pop_sum pos + pop_sum neg + zero)), (Z.leb_spec (pop_sum pos + pop_sum neg + zero) count);
      split; intros HH; try reflexivity; try discriminate; lia.
  - destruct (Z.eqb_spec (pop_sum pos + pop_sum neg + zero) count); cbn [negb]; split; intros HH; try reflexivity; discriminate.
Qed.

(* without the no-overflow hypotheses the check is wrong: count = 2^64 - 3 and one bucket with population -3 *)
Lemma validate_count_wrap_refuted_lemma :
  exists sum count (neg pos : imap) zero,
    0 <= count < 18446744073709551616 /\ is_nan sum = false /\
    count_consistent_spec sum count neg pos zero = false /\ validate_count sum count neg pos zero = None.
Proof.
  exists fone, 18446744073709551613, [], [(0, -3)], 0. repeat split; try lia; vm_compute; reflexivity.
Qed.

(* =========================================================== classic buckets and quantiles *)
Definition fcomparable {B} (a b : f64 * B) : Prop := flt (fst a) (fst b) = true \/ flt (fst b) (fst a) = true.

Lemma distinct_nonnan_comparable x y :
  is_nan x = false -> is_nan y = false -> feq x y = false -> flt x y = true \/ flt y x = true.
Proof.
  intros Hx Hy He. destruct (fle_total x y Hx Hy) as [H|H]; [|right; exact H].
  left. unfold fle, flt, feq in *. destruct (fcmp x y) as [[| |]|]; try discriminate; reflexivity.
Qed.

Lemma const_buckets_sorted_lemma {B} (l : list (f64 * B)) :
  Permutation l (sort_by fpair_lt l) /\
  (ForallOrdPairs fcomparable l -> Sorted (fun a b => flt (fst a) (fst b) = true) (sort_by fpair_lt l)).
Proof.
  split; [apply sort_perm|]. intros H. apply (sort_sorted fpair_lt). exact H.
Qed.

Lemma sorted_f_b_sound {B} (l : list (f64 * B)) : sorted_f_b l = true -> Sorted (fun a b => flt (fst a) (fst b) = true) l.
Proof.
  induction l as [|a r IH]; [constructor|]. destruct r as [|b r'].
  - intros _. constructor; constructor.
  - cbn [sorted_f_b]. intros H. apply andb_true_iff in H. destruct H as [H1 H2].
    constructor; [apply IH; exact H2|]. constructor. exact H1.
Qed.

Lemma const_histogram_faithful_lemma fq help vars consts count sum buckets lvs o :
  new_const_histogram (new_desc fq help vars consts) count sum buckets lvs = Ok o ->
  d_err (new_desc fq help vars consts) = None /\
  ho_labels o = make_label_pairs (new_desc fq help vars consts) lvs /\ ho_count o = count /\ ho_sum o = sum /\
  Permutation buckets (ho_buckets o) /\
  (ForallOrdPairs fcomparable buckets -> Sorted (fun a b => flt (fst a) (fst b) = true) (ho_buckets o)).
Proof.
  unfold new_const_histogram. destruct (d_err (new_desc fq help vars consts)); [discriminate|].
  destruct (validate_label_values lvs _); [discriminate|]. intros H. inversion H; subst. cbn.
  repeat split; try reflexivity; apply const_buckets_sorted_lemma.
Qed.

Lemma const_summary_faithful_lemma fq help vars consts count sum qs lvs o :
  new_const_summary (new_desc fq help vars consts) count sum qs lvs = Ok o ->
  d_err (new_desc fq help vars consts) = None /\
  su_labels o = make_label_pairs (new_desc fq help vars consts) lvs /\ su_count o = count /\ su_sum o = sum /\
  Permutation qs (su_quantiles o) /\
  (ForallOrdPairs fcomparable qs -> Sorted (fun a b => flt (fst a) (fst b) = true) (su_quantiles o)).
Proof.
  unfold new_const_summary. destruct (d_err (new_desc fq help vars consts)); [discriminate|].
  destruct (validate_label_values lvs _); [discriminate|]. intros H. inversion H; subst. cbn.
  repeat split; try reflexivity; apply const_buckets_sorted_lemma.
Qed.

(* =========================================================== native: the constructor as a whole *)
Definition decodes_to (m : imap) (spans : list span) (deltas : list Z) : Prop :=
  let dec := decode_spans spans deltas in
  (forall k v, In (k, v) m -> In (k, v) dec) /\
  (forall k v, In (k, v) dec -> In (k, v) m \/ (v = 0 /\ ~ In k (map fst m))) /\
  Sorted Z.lt (map fst dec).

Lemma native_const_faithful_lemma d count sum (pos neg : imap) zero schema zt lvs o :
  NoDup (map fst pos) -> NoDup (map fst neg) ->
  (forall k v, In (k, v) pos -> int64 k /\ int64 v) -> (forall k v, In (k, v) neg -> int64 k /\ int64 v) ->
  new_const_native_histogram d count sum pos neg zero schema zt lvs = Ok o ->
  d_err d = None /\ validate_label_values lvs (Z.of_nat (length (d_vars d))) = None /\
  schema_min <= schema <= schema_max /\
  no_labels o = make_label_pairs d lvs /\ no_count o = count /\ no_sum o = sum /\ no_zero o = zero /\
  no_schema o = schema /\ no_zt o = zt /\
  decodes_to pos (no_pos_spans o) (no_pos_deltas o) /\ decodes_to neg (no_neg_spans o) (no_neg_deltas o).
Proof.
  intros Np Nn Rp Rn. unfold new_const_native_histogram.
  destruct (d_err d); [discriminate|].
  destruct (validate_label_values lvs _); [discriminate|].
  destruct ((schema_max <? schema) || (schema <? schema_min)) eqn:Es; [discriminate|].
  destruct (validate_count sum count neg pos zero); [discriminate|].
  destruct (validate_bucket_indexes neg) eqn:Vn; [discriminate|].
  destruct (validate_bucket_indexes pos) eqn:Vp; [discriminate|].
  pose proof (native_const_spans_decode_lemma pos Np Rp Vp) as Dp.
  pose proof (native_const_spans_decode_lemma neg Nn Rn Vn) as Dn.
  destruct (make_buckets_from_map neg) as [ns nd]. destruct (make_buckets_from_map pos) as [ps pd].
  cbn [fst snd] in Dp, Dn. intros H. inversion H; subst; clear H. cbn.
  apply orb_false_iff in Es. destruct Es as [E1 E2]. apply Z.ltb_ge in E1. apply Z.ltb_ge in E2.
  repeat split; try reflexivity; try lia; try apply Dn; try apply Dp.
  all: unfold decodes_to in *; destruct (feq zt pzero && (zero =? 0) && Nat.eqb (length ps) 0 && Nat.eqb (length ns) 0) eqn:Ez;
    try apply Dp.
  all: apply andb_true_iff in Ez; destruct Ez as [Ez _]; apply andb_true_iff in Ez; destruct Ez as [_ Ez];
    destruct ps; [|discriminate]; apply Dp.
Qed.

(* =========================================================== live histograms / summaries refuse le / quantile *)
Lemma le_quantile_refused_on_live_lemma r is_vec early ns sub name help vars consts lvs d labels :
  new_live (Some r) is_vec early ns sub name help vars consts lvs = LiveOk d labels ->
  d = new_desc (build_fq_name ns sub name) help vars consts /\ labels = make_label_pairs d lvs /\
  length lvs = length (d_vars d) /\
  (d_err d = None -> ~ In r vars /\ ~ In r (map fst consts)).
Proof.
  unfold new_live.
  destruct (early && existsb (str_eqb r) vars); [discriminate|].
  set (d0 := new_desc (build_fq_name ns sub name) help vars consts).
  destruct (is_vec && _); [discriminate|].
  destruct (Nat.eqb_spec (length (d_vars d0)) (length lvs)) as [El|El]; cbn [negb]; [|discriminate].
  destruct (existsb (str_eqb r) (d_vars d0) || existsb (fun p => str_eqb (fst p) r) (d_const d0)) eqn:Eh; [discriminate|].
  intros H. inversion H; subst. split; [reflexivity|]. split; [reflexivity|]. split; [symmetry; exact El|].
  intros Hok. apply orb_false_iff in Eh. destruct Eh as [Eh1 Eh2].
  unfold d0 in Eh1, Eh2, Hok. rewrite (new_desc_ok_shape _ _ _ _ Hok) in Eh1, Eh2. cbn [d_vars d_const] in Eh1, Eh2.
  split; intros Hin.
  - assert (X : existsb (str_eqb r) vars = true); [|rewrite X in Eh1; discriminate Eh1].
    apply existsb_exists. exists r. split; [exact Hin|apply str_eqb_refl].
  - assert (X : existsb (fun p : str * str => str_eqb (fst p) r) (sort_pairs consts) = true);
      [|unfold lpair in *; rewrite X in Eh2; discriminate Eh2].
    apply in_map_iff in Hin. destruct Hin as (p & Ep & Hp).
    apply existsb_exists. exists p. split; [|rewrite Ep; apply str_eqb_refl].
    eapply Permutation_in; [apply sort_perm|exact Hp].
Qed.

(* =========================================================== exemplar wrapper keeps the wrapped histogram's buckets *)
Definition bc (b : bucket) : f64 * Z := (b_bound b, b_cum b).

Lemma set_ex_bc bs : forall i e, map bc (set_ex bs i e) = map bc bs.
Proof. induction bs as [|b r IH]; intros [|i] e; cbn; try reflexivity. rewrite IH. reflexivity. Qed.

Lemma place_all_bc count exs : forall bs,
  exists k, map bc (fold_left (place_one count) exs bs) = map bc bs ++ repeat (pinf, count) k.
Proof.
  induction exs as [|e r IH]; intros bs; cbn [fold_left].
  - exists O. cbn. rewrite app_nil_r. reflexivity.
  - destruct (IH (place_one count bs e)) as (k & E). rewrite E. unfold place_one.
    match goal with |- context [if ?c then _ else _] => destruct c end.
    + exists k. rewrite set_ex_bc. reflexivity.
    + exists (S k). rewrite map_app, <- app_assoc. reflexivity.
Qed.

Lemma exemplar_wrapper_keeps_values_lemma p exs out :
  with_exemplars_write p exs = Ok out ->
  match p, out with
  | PCounter v _, PCounter v' e' => v' = v /\ e' = Some (last exs (mkEx fnan []))
  | PHistogram c bs, PHistogram c' bs' => c' = c /\ exists k, map bc bs' = map bc bs ++ repeat (pinf, c) k
  | _, _ => False
  end.
Proof.
  destruct p as [v e|c bs|]; cbn; intros H; inversion H; subst.
  - split; reflexivity.
  - split; [reflexivity|]. apply place_all_bc.
Qed.

(* =========================================================== UTF-8: rune count of a valid string *)
Lemma is_cont_true c : 128 <= c <= 191 -> is_cont c = true.
Proof. intros H. unfold is_cont, in_rng. destruct (Z.leb_spec 128 c), (Z.leb_spec c 191); try reflexivity; lia. Qed.
Lemma is_cont_false c : c < 128 \/ 191 < c -> is_cont c = false.
Proof. intros H. unfold is_cont, in_rng. destruct (Z.leb_spec 128 c), (Z.leb_spec c 191); try reflexivity; lia. Qed.
Lemma in_rng_true lo hi c : in_rng lo hi c = true -> lo <= c <= hi.
Proof. unfold in_rng. intros H. apply andb_true_iff in H. destruct H as [H1 H2]. apply Z.leb_le in H1. apply Z.leb_le in H2. lia. Qed.

Lemma count_starts_cons c r : count_starts (c :: r) = (if is_cont c then 0 else 1) + count_starts r.
Proof. unfold count_starts. cbn [filter]. destruct (is_cont c); cbn [negb length]; lia. Qed.

Lemma utf8_step_count s k : utf8_step s = k -> k <> 0 ->
  1 <= k <= 4 /\ (Z.to_nat k <= length s)%nat /\ count_starts s = 1 + count_starts (skipn (Z.to_nat k) s).
Proof.
  unfold utf8_step. destruct s as [|c0 r]; [intros <- H; congruence|].
  destruct (in_rng 0 127 c0) eqn:A0.
  { intros <- _. apply in_rng_true in A0. rewrite count_starts_cons, (is_cont_false c0) by lia.
    cbn. repeat split; lia. }
  destruct (in_rng 194 223 c0) eqn:A1.
  { destruct r as [|c1 r]; [intros <- H; congruence|]. destruct (is_cont c1) eqn:C1; [|intros <- H; congruence].
    intros <- _. apply in_rng_true in A1. rewrite !count_starts_cons, C1, (is_cont_false c0) by lia.
    cbn. repeat split; lia. }
  destruct (in_rng 224 239 c0) eqn:A2.
  { destruct r as [|c1 [|c2 r]]; try (intros <- H; congruence).
    match goal with |- (if ?c then _ else _) = _ -> _ => destruct c eqn:C end; [|intros <- H; congruence].
    intros <- _. apply in_rng_true in A2. apply andb_true_iff in C. destruct C as [C1 C2].
    apply in_rng_true in C1.
    assert (is_cont c1 = true) by (apply is_cont_true; destruct (c0 =? 224), (c0 =? 237); lia).
    rewrite !count_starts_cons, C2, H, (is_cont_false c0) by lia. cbn. repeat split; lia. }
  destruct (in_rng 240 244 c0) eqn:A3.
  { destruct r as [|c1 [|c2 [|c3 r]]]; try (intros <- H; congruence).
    match goal with |- (if ?c then _ else _) = _ -> _ => destruct c eqn:C end; [|intros <- H; congruence].
    intros <- _. apply in_rng_true in A3. apply andb_true_iff in C. destruct C as [C C3].
    apply andb_true_iff in C. destruct C as [C1 C2]. apply in_rng_true in C1.
    assert (is_cont c1 = true) by (apply is_cont_true; destruct (c0 =? 240), (c0 =? 244); lia).
    rewrite !count_starts_cons, C2, C3, H, (is_cont_false c0) by lia. cbn. repeat split; lia. }
  intros <- H; congruence.
Qed.

Lemma rune_count_fuel_valid : forall fuel s n, (length s <= fuel)%nat ->
  utf8_valid_fuel fuel s = true -> rune_count_fuel fuel s n = n + count_starts s.
Proof.
  induction fuel as [|f IH]; intros s n Hl Hv.
  - destruct s; [cbn; lia|cbn in Hl; lia].
  - destruct s as [|c r]; [cbn; lia|]. cbn [utf8_valid_fuel rune_count_fuel] in *.
    set (k := utf8_step (c :: r)) in *. destruct (Z.eqb_spec k 0) as [|Ek]; [discriminate|].
    destruct (utf8_step_count (c :: r) k eq_refl Ek) as (R & L & C).
    rewrite IH; [rewrite C; lia| |exact Hv].
    rewrite skipn_length. cbn [length] in *. lia.
Qed.

Lemma rune_count_valid s : utf8_valid s = true -> rune_count s = count_starts s.
Proof. unfold utf8_valid, rune_count. intros H. rewrite rune_count_fuel_valid; [lia|lia|exact H]. Qed.

(* =========================================================== newExemplar *)
Definition pair_ok (p : lpair) : bool := check_label_name (fst p) && utf8_valid (snd p).
Definition runes_of (l : list lpair) (a : Z) : Z :=
  fold_left (fun a p => a + rune_count (fst p) + rune_count (snd p)) l a.

Lemma ex_loop_ok l : forall runes acc, forallb pair_ok l = true ->
  ex_loop l runes acc = Ok (runes_of l runes, rev acc ++ l).
Proof.
  induction l as [|[n v] r IH]; intros runes acc H.
  - cbn. rewrite app_nil_r. reflexivity.
  - cbn [forallb] in H. apply andb_true_iff in H. destruct H as [H1 H2].
    unfold pair_ok in H1. cbn [fst snd] in H1. apply andb_true_iff in H1. destruct H1 as [Hn Hv].
    cbn [ex_loop]. rewrite Hn, Hv. cbn [negb]. rewrite (IH _ _ H2). cbn [rev]. rewrite <- app_assoc. reflexivity.
Qed.

Lemma ex_loop_err l : forall runes acc, forallb pair_ok l = false ->
  exists e, ex_loop l runes acc = Err e /\ (e = ErrExName \/ e = ErrExValue).
Proof.
  induction l as [|[n v] r IH]; intros runes acc H; [discriminate|].
  cbn [forallb] in H. cbn [ex_loop].
  destruct (check_label_name n) eqn:Hn; cbn [negb]; [|exists ErrExName; split; [reflexivity|left; reflexivity]].
  destruct (utf8_valid v) eqn:Hv; cbn [negb]; [|exists ErrExValue; split; [reflexivity|right; reflexivity]].
  apply IH. unfold pair_ok in H. cbn [fst snd] in H. rewrite Hn, Hv in H. exact H.
Qed.

Lemma runes_of_spec l : forall a, forallb pair_ok l = true ->
  runes_of l a = fold_left (fun a p => a + count_starts (fst p) + count_starts (snd p)) l a.
Proof.
  unfold runes_of. induction l as [|[n v] r IH]; intros a H; [reflexivity|].
  cbn [forallb] in H. apply andb_true_iff in H. destruct H as [H1 H2].
  unfold pair_ok in H1. cbn [fst snd] in H1. apply andb_true_iff in H1. destruct H1 as [Hn Hv].
  cbn [fold_left fst snd]. rewrite (rune_count_valid v Hv).
  assert (Hn' : utf8_valid n = true).
  { unfold check_label_name, label_name_valid in Hn. apply andb_true_iff in Hn. destruct Hn as [Hn _].
    apply andb_true_iff in Hn. destruct Hn as [_ Hn]. exact Hn. }
  rewrite (rune_count_valid n Hn'). apply IH. exact H2.
Qed.

Lemma exemplar_ok_spec_split l :
  exemplar_ok_spec l = forallb pair_ok l &&
    (fold_left (fun a p => a + count_starts (fst p) + count_starts (snd p)) l 0 <=? exemplar_max_runes).
Proof. reflexivity. Qed.

Lemma exemplar_rune_limit_lemma v l :
  (exemplar_ok_spec l = true -> new_exemplar v l = Ok (mkEx v l)) /\
  (exemplar_ok_spec l = false -> exists e, new_exemplar v l = Err e /\
     (e = ErrExName \/ e = ErrExValue \/
      (e = ErrExRunes /\ forallb pair_ok l = true /\
       128 < fold_left (fun a p => a + count_starts (fst p) + count_starts (snd p)) l 0))).
Proof.
  rewrite exemplar_ok_spec_split. unfold new_exemplar. change exemplar_max_runes with 128.
  destruct (forallb pair_ok l) eqn:Ep.
  - rewrite (ex_loop_ok l 0 [] Ep). rewrite (runes_of_spec l 0 Ep). cbn [andb rev app].
    match goal with |- context [fold_left ?f l 0] => set (n := fold_left f l 0) end.
    destruct (Z.leb_spec n 128) as [Hle|Hgt]; destruct (Z.ltb_spec 128 n); try lia; split; intros HH; try discriminate; try reflexivity.
    exists ErrExRunes. split; [reflexivity|]. right; right. repeat split. lia.
  - cbn [andb]. split; [discriminate|]. intros _.
    destruct (ex_loop_err l 0 [] Ep) as (e & E & He). rewrite E. exists e. split; [reflexivity|]. tauto.
Qed.

Lemma new_exemplars_spec (exs : list (f64 * list lpair)) :
  (forallb (fun p => exemplar_ok_spec (snd p)) exs = true ->
     new_exemplars exs = Ok (map (fun p => mkEx (fst p) (snd p)) exs)) /\
  (forallb (fun p => exemplar_ok_spec (snd p)) exs = false -> exists e, new_exemplars exs = Err e).
Proof.
  induction exs as [|[v l] r [IH1 IH2]]; [split; [reflexivity|discriminate]|].
  cbn [forallb new_exemplars fst snd map]. destruct (exemplar_rune_limit_lemma v l) as [A B].
  destruct (exemplar_ok_spec l) eqn:E.
  - rewrite (A eq_refl). cbn [andb]. split.
    + intros H. rewrite (IH1 H). reflexivity.
    + intros H. destruct (IH2 H) as (e & Ee). rewrite Ee. exists e. reflexivity.
  - destruct (B eq_refl) as (e & Ee & _). rewrite Ee. split; [discriminate|]. intros _. exists e. reflexivity.
Qed.

(* =========================================================== exemplar placement *)
Lemma go_search_loop_spec (f : Z -> bool) (k n : Z) :
  (forall i, 0 <= i < k -> f i = false) ->
  (forall i, k <= i < n -> f i = true) ->
  forall fuel i j, 0 <= i -> i <= k -> k <= j -> j <= n -> j - i < Z.of_nat fuel ->
  go_search_loop fuel f i j = k.
Proof.
  intros Hlo Hhi. induction fuel as [|fuel IH]; intros i j H0 H1 H2 H3 H4; [lia|].
  cbn [go_search_loop]. destruct (Z.ltb_spec i j) as [Hij|Hij]; [|lia].
  assert (Hh : i <= (i + j) / 2 < j).
  { split; [apply Z.div_le_lower_bound; lia|apply Z.div_lt_upper_bound; lia]. }
  set (h := (i + j) / 2) in *.
  destruct (f h) eqn:Hf; cbn [negb].
  - assert (k <= h).
    { destruct (Z_lt_le_dec h k) as [Hlt|Hge]; [|exact Hge]. rewrite Hlo in Hf by lia. discriminate Hf. }
    apply IH; lia.
  - assert (h < k).
    { destruct (Z_lt_le_dec h k) as [Hlt|Hge]; [exact Hlt|]. rewrite Hhi in Hf by lia. discriminate Hf. }
    apply IH; lia.
Qed.

Definition dflt_bucket : bucket := mkBucket fnan 0 None.
Definition inf_bucket (count : Z) (e : exemplar) : bucket := mkBucket pinf count (Some e).

(* bounds strictly increasing, none NaN, all above the lower limit *)
Fixpoint chain (lo : option f64) (bs : list bucket) : Prop :=
  match bs with
  | [] => True
  | b :: r => is_nan (b_bound b) = false /\ match lo with Some l => flt l (b_bound b) = true | None => True end /\
              chain (Some (b_bound b)) r
  end.

Fixpoint place_lin (count : Z) (bs : list bucket) (e : exemplar) : list bucket :=
  match bs with
  | [] => [inf_bucket count e]
  | b :: r => if fge (b_bound b) (ex_value e) then mkBucket (b_bound b) (b_cum b) (Some e) :: r
              else b :: place_lin count r e
  end.

Fixpoint first_ge (bs : list bucket) (v : f64) : nat :=
  match bs with [] => O | b :: r => if fge (b_bound b) v then O else S (first_ge r v) end.

Lemma chain_above l r v : chain (Some l) r -> fle v l = true ->
  forall j, (j < length r)%nat -> fle v (b_bound (nth j r dflt_bucket)) = true.
Proof.
  revert l. induction r as [|b r IH]; intros l Hc Hv j Hj; [cbn in Hj; lia|].
  destruct Hc as (Hn & Hl & Hc).
  assert (Hb : fle v (b_bound b) = true) by (apply flt_fle; eapply fle_flt_trans; eassumption).
  destruct j as [|j]; [exact Hb|]. cbn [nth]. apply (IH (b_bound b)); [exact Hc|exact Hb|cbn in Hj; lia].
Qed.

Lemma first_ge_props lo bs v : chain lo bs ->
  (forall i, (i < first_ge bs v)%nat -> fge (b_bound (nth i bs dflt_bucket)) v = false) /\
  (forall i, (first_ge bs v <= i < length bs)%nat -> fge (b_bound (nth i bs dflt_bucket)) v = true).
Proof.
  revert lo. induction bs as [|b r IH]; intros lo Hc; [split; intros i Hi; cbn in Hi; lia|].
  destruct Hc as (Hn & Hl & Hc). cbn [first_ge]. destruct (fge (b_bound b) v) eqn:E.
  - split; [intros i Hi; lia|]. intros [|i] Hi; [exact E|]. cbn [nth]. unfold fge in *.
    apply (chain_above (b_bound b)); [exact Hc|exact E|cbn in Hi; lia].
  - destruct (IH (Some (b_bound b)) Hc) as [A B]. split.
    + intros [|i] Hi; [exact E|]. cbn [nth]. apply A. lia.
    + intros [|i] Hi; [lia|]. cbn [nth]. apply B. cbn in Hi. lia.
Qed.

Lemma place_lin_first_ge count bs e :
  place_lin count bs e =
  if (first_ge bs (ex_value e) <? length bs)%nat then set_ex bs (first_ge bs (ex_value e)) e
  else bs ++ [inf_bucket count e].
Proof.
  induction bs as [|b r IH]; [reflexivity|]. cbn [place_lin first_ge]. destruct (fge (b_bound b) (ex_value e)).
  - reflexivity.
  - rewrite IH. cbn [length]. change (S (first_ge r (ex_value e)) <? S (length r))%nat with (first_ge r (ex_value e) <? length r)%nat.
    destruct (first_ge r (ex_value e) <? length r)%nat; reflexivity.
Qed.

Lemma place_one_lin lo count bs e : chain lo bs -> place_one count bs e = place_lin count bs e.
Proof.
  intros Hc. rewrite place_lin_first_ge. unfold place_one. fold dflt_bucket.
  destruct (first_ge_props lo bs (ex_value e) Hc) as [A B].
  set (k := first_ge bs (ex_value e)) in *.
  assert (Hk : (k <= length bs)%nat).
  { unfold k. clear. induction bs as [|b r IH]; cbn; [lia|]. destruct (fge _ _); cbn; lia. }
  assert (G : go_search (Z.of_nat (length bs)) (fun i => fge (b_bound (nth (Z.to_nat i) bs dflt_bucket)) (ex_value e)) = Z.of_nat k).
  { unfold go_search. apply go_search_loop_spec with (n := Z.of_nat (length bs)); try lia.
    - intros i Hi. apply A. lia.
    - intros i Hi. apply B. lia. }
  rewrite G. rewrite Nat2Z.id.
  destruct (Z.ltb_spec (Z.of_nat k) (Z.of_nat (length bs))), (Nat.ltb_spec k (length bs)); try lia; reflexivity.
Qed.

Lemma last_in_snoc lo hi exs e :
  last_in lo hi (exs ++ [e]) = if in_bucket lo hi (ex_value e) then Some e else last_in lo hi exs.
Proof. unfold last_in. rewrite fold_left_app. reflexivity. Qed.

Lemma last_in_some lo hi exs : forall e, last_in lo hi exs = Some e -> in_bucket lo hi (ex_value e) = true.
Proof.
  induction exs as [|x r IH] using rev_ind; intros e H; [discriminate|].
  rewrite last_in_snoc in H. destruct (in_bucket lo hi (ex_value x)) eqn:E; [inversion H; subst; exact E|apply IH; exact H].
Qed.

(* an exemplar at or below l lands in no bucket above l *)
Lemma spec_place_below l r count exs e : chain (Some l) r -> fle (ex_value e) l = true ->
  spec_place_from (Some l) r count (exs ++ [e]) = spec_place_from (Some l) r count exs.
Proof.
  revert l. induction r as [|b r IH]; intros l Hc Hv; cbn [spec_place_from].
  - rewrite last_in_snoc. unfold in_bucket. rewrite (fle_not_flt _ _ Hv), andb_false_r. reflexivity.
  - destruct Hc as (Hn & Hl & Hc). rewrite last_in_snoc. unfold in_bucket at 1. rewrite (fle_not_flt _ _ Hv), andb_false_r.
    rewrite IH; [reflexivity|exact Hc|]. apply flt_fle. eapply fle_flt_trans; eassumption.
Qed.

Lemma spec_place_snoc count e : is_nan (ex_value e) = false ->
  forall bs lo exs, chain lo bs ->
  match lo with Some l => flt l (ex_value e) = true | None => True end ->
  place_lin count (spec_place_from lo bs count exs) e = spec_place_from lo bs count (exs ++ [e]).
Proof.
  intros Hv. induction bs as [|b r IH]; intros lo exs Hc Hlo; cbn [spec_place_from].
  - rewrite last_in_snoc.
    assert (Hin : in_bucket lo pinf (ex_value e) = true).
    { unfold in_bucket. rewrite (fle_pinf _ Hv). destruct lo; [rewrite Hlo|]; reflexivity. }
    rewrite Hin. assert (Hge : fge pinf (ex_value e) = true) by (unfold fge; apply fle_pinf; exact Hv).
    destruct (last_in lo pinf exs); cbn [place_lin b_bound]; [rewrite Hge|]; reflexivity.
  - destruct Hc as (Hn & Hl & Hc). cbn [place_lin b_bound b_cum]. rewrite last_in_snoc.
    destruct (fge (b_bound b) (ex_value e)) eqn:E.
    + unfold fge in E. assert (Hin : in_bucket lo (b_bound b) (ex_value e) = true).
      { unfold in_bucket. rewrite E. destruct lo; [rewrite Hlo|]; reflexivity. }
      rewrite Hin. rewrite (spec_place_below _ _ _ _ _ Hc E). reflexivity.
    + unfold fge in E. assert (Hin : in_bucket lo (b_bound b) (ex_value e) = false) by (unfold in_bucket; rewrite E; reflexivity).
      rewrite Hin. f_equal. apply IH; [exact Hc|]. apply (fle_false_iff _ _ Hv Hn). exact E.
Qed.

Lemma spec_place_chain count exs : forall bs lo, chain lo bs -> chain lo (spec_place_from lo bs count exs).
Proof.
  induction bs as [|b r IH]; intros lo Hc; cbn [spec_place_from].
  - destruct (last_in lo pinf exs) as [e|] eqn:E; [|exact I]. apply last_in_some in E.
    cbn [chain b_bound]. split; [reflexivity|]. split; [|exact I].
    destruct lo as [l|]; [|exact I]. unfold in_bucket in E. apply andb_true_iff in E. destruct E as [E1 E2].
    eapply flt_fle_trans; eassumption.
  - destruct Hc as (Hn & Hl & Hc). cbn [chain b_bound]. repeat split; try assumption. apply IH. exact Hc.
Qed.

Lemma spec_place_nil count : forall bs lo, spec_place_from lo bs count [] = bs.
Proof. induction bs as [|[b c e] r IH]; intros lo; cbn; [reflexivity|]. rewrite IH. reflexivity. Qed.

Lemma exemplar_placement_lemma count bs exs :
  chain None bs -> Forall (fun e => is_nan (ex_value e) = false) exs ->
  fold_left (place_one count) exs bs = spec_place bs count exs.
Proof.
  intros Hc. unfold spec_place. induction exs as [|e r IH] using rev_ind; intros Hv.
  - cbn. symmetry. apply spec_place_nil.
  - apply Forall_app in Hv. destruct Hv as [Hr He]. inversion He as [|? ? Hev _]; subst.
    rewrite fold_left_app. cbn [fold_left]. rewrite (IH Hr).
    rewrite (place_one_lin None); [|apply spec_place_chain; exact Hc].
    apply spec_place_snoc; [exact Hev|exact Hc|exact I].
Qed.

(* reading the specification: which exemplar a bucket carries *)
Lemma spec_place_reading count exs : forall bs lo b_lo b r,
  spec_place_from lo bs count exs = b_lo ++ b :: r -> (length b_lo < length bs)%nat ->
  exists b0 lo', nth_error bs (length b_lo) = Some b0 /\ b_bound b = b_bound b0 /\ b_cum b = b_cum b0 /\
    (lo' = match length b_lo with O => lo | S j => option_map b_bound (nth_error bs j) end) /\
    b_ex b = match last_in lo' (b_bound b0) exs with Some e => Some e | None => b_ex b0 end.
Proof.
  induction bs as [|b0 bs IH]; intros lo b_lo b r H Hl; [cbn in Hl; lia|].
  cbn [spec_place_from] in H. destruct b_lo as [|x b_lo].
  - cbn [app] in H. inversion H; subst. exists b0, lo. cbn. repeat split; reflexivity.
  - cbn [app] in H. inversion H as [[Hx Hrest]]. cbn [length] in Hl.
    destruct (IH (Some (b_bound b0)) b_lo b r Hrest ltac:(lia)) as (b1 & lo' & N & Bd & Cm & Lo & Ex).
    exists b1, lo'. cbn [length nth_error]. repeat split; try assumption.
    rewrite Lo. destruct (length b_lo) eqn:EL; [reflexivity|reflexivity].
Qed.

(* =========================================================== UTF-8: valid = concatenation of shortest encodings of scalar values *)
Inductive Valid : str -> Prop :=
| V_nil : Valid []
| V_step s k : utf8_step s = k -> k <> 0 -> Valid (skipn (Z.to_nat k) s) -> Valid s.

Lemma valid_fuel_iff : forall fuel s, (length s <= fuel)%nat -> (utf8_valid_fuel fuel s = true <-> Valid s).
Proof.
  induction fuel as [|f IH]; intros s Hl.
  - destruct s; [split; [constructor|reflexivity]|cbn in Hl; lia].
  - destruct s as [|c r]; [split; [constructor|reflexivity]|]. cbn [utf8_valid_fuel].
    set (k := utf8_step (c :: r)). destruct (Z.eqb_spec k 0) as [E|E].
    + split; [discriminate|]. intros H. inversion H; subst. unfold k in E. contradiction.
    + destruct (utf8_step_count (c :: r) k eq_refl E) as (R & L & _).
      assert (Hl' : (length (skipn (Z.to_nat k) (c :: r)) <= f)%nat) by (rewrite skipn_length; cbn [length] in *; lia).
      rewrite (IH _ Hl'). split.
      * intros H. apply (V_step _ k); [reflexivity|exact E|exact H].
      * intros H. inversion H; subst. exact H2.
Qed.

Lemma utf8_valid_Valid s : utf8_valid s = true <-> Valid s.
Proof. unfold utf8_valid. apply valid_fuel_iff. lia. Qed.

Lemma in_rng_t lo hi c : lo <= c <= hi -> in_rng lo hi c = true.
Proof. intros H. unfold in_rng. destruct (Z.leb_spec lo c), (Z.leb_spec c hi); try reflexivity; lia. Qed.
Lemma in_rng_f lo hi c : c < lo \/ hi < c -> in_rng lo hi c = false.
Proof. intros H. unfold in_rng. destruct (Z.leb_spec lo c), (Z.leb_spec c hi); try reflexivity; lia. Qed.
Lemma is_cont_rng c : is_cont c = true -> 128 <= c <= 191.
Proof. apply in_rng_true. Qed.

Lemma divmod64 a q r : 0 <= r < 64 -> a = 64 * q + r -> a / 64 = q /\ a mod 64 = r.
Proof. intros Hr E. split; [symmetry; apply (Z.div_unique a 64 q r); lia|symmetry; apply (Z.mod_unique a 64 q r); lia]. Qed.

Lemma utf8_step_decode s k : utf8_step s = k -> k <> 0 ->
  exists c, is_scalar c = true /\ s = utf8_encode1 c ++ skipn (Z.to_nat k) s.
Proof.
  unfold utf8_step. destruct s as [|c0 r]; [intros <- H; congruence|].
  destruct (in_rng 0 127 c0) eqn:A0.
  { intros <- _. apply in_rng_true in A0. exists c0. split.
    - unfold is_scalar. rewrite in_rng_t by lia. reflexivity.
    - unfold utf8_encode1. destruct (Z.ltb_spec c0 128); [reflexivity|lia]. }
  destruct (in_rng 194 223 c0) eqn:A1.
  { destruct r as [|c1 r]; [intros <- H; congruence|]. destruct (is_cont c1) eqn:C1; [|intros <- H; congruence].
    intros <- _. apply in_rng_true in A1. apply is_cont_rng in C1.
    set (c := (c0 - 192) * 64 + (c1 - 128)). exists c. split.
    - unfold is_scalar. rewrite in_rng_t by (unfold c; lia). reflexivity.
    - unfold utf8_encode1. destruct (Z.ltb_spec c 128); [unfold c in *; lia|].
      destruct (Z.ltb_spec c 2048); [|unfold c in *; lia].
      destruct (divmod64 c (c0 - 192) (c1 - 128)) as [D M]; [lia|unfold c; lia|].
      rewrite D, M. replace (192 + (c0 - 192)) with c0 by lia. replace (128 + (c1 - 128)) with c1 by lia. reflexivity. }
  destruct (in_rng 224 239 c0) eqn:A2.
  { destruct r as [|c1 [|c2 r]]; try (intros <- H; congruence).
    match goal with |- (if ?c then _ else _) = _ -> _ => destruct c eqn:C end; [|intros <- H; congruence].
    intros <- _. apply in_rng_true in A2. apply andb_true_iff in C. destruct C as [C1 C2].
    apply in_rng_true in C1. apply is_cont_rng in C2.
    set (c := (c0 - 224) * 4096 + (c1 - 128) * 64 + (c2 - 128)).
    assert (R1 : 128 <= c1 <= 191) by (destruct (c0 =? 224), (c0 =? 237); lia).
    assert (Hlo : 2048 <= c) by (unfold c; destruct (Z.eqb_spec c0 224); lia).
    assert (Hhi : c < 65536) by (unfold c; lia).
    assert (Hs : c <= 55295 \/ 57344 <= c) by (unfold c; destruct (Z.eqb_spec c0 237); lia).
    exists c. split.
    - unfold is_scalar. destruct Hs; [rewrite in_rng_t by lia; reflexivity|].
      rewrite (in_rng_t 57344) by lia. apply orb_true_r.
    - unfold utf8_encode1. destruct (Z.ltb_spec c 128); [lia|]. destruct (Z.ltb_spec c 2048); [lia|].
      destruct (Z.ltb_spec c 65536); [|lia].
      destruct (divmod64 c ((c0 - 224) * 64 + (c1 - 128)) (c2 - 128)) as [D M]; [lia|unfold c; lia|].
      destruct (divmod64 (c / 64) (c0 - 224) (c1 - 128)) as [D2 M2]; [lia|lia|].
      replace (c / 4096) with (c / 64 / 64) by (rewrite Z.div_div by lia; reflexivity).
      rewrite D2, M2, M. replace (224 + (c0 - 224)) with c0 by lia. replace (128 + (c1 - 128)) with c1 by lia.
      replace (128 + (c2 - 128)) with c2 by lia. reflexivity. }
  destruct (in_rng 240 244 c0) eqn:A3.
  { destruct r as [|c1 [|c2 [|c3 r]]]; try (intros <- H; congruence).
    match goal with |- (if ?c then _ else _) = _ -> _ => destruct c eqn:C end; [|intros <- H; congruence].
    intros <- _. apply in_rng_true in A3. apply andb_true_iff in C. destruct C as [C C3].
    apply andb_true_iff in C. destruct C as [C1 C2]. apply in_rng_true in C1. apply is_cont_rng in C2. apply is_cont_rng in C3.
    set (c := (c0 - 240) * 262144 + (c1 - 128) * 4096 + (c2 - 128) * 64 + (c3 - 128)).
    assert (R1 : 128 <= c1 <= 191) by (destruct (c0 =? 240), (c0 =? 244); lia).
    assert (Hlo : 65536 <= c) by (unfold c; destruct (Z.eqb_spec c0 240); lia).
    assert (Hhi : c <= 1114111) by (unfold c; destruct (Z.eqb_spec c0 244); lia).
    exists c. split.
    - unfold is_scalar. rewrite (in_rng_t 57344) by lia. apply orb_true_r.
    - unfold utf8_encode1. destruct (Z.ltb_spec c 128); [lia|]. destruct (Z.ltb_spec c 2048); [lia|].
      destruct (Z.ltb_spec c 65536); [lia|].
      destruct (divmod64 c ((c0 - 240) * 4096 + (c1 - 128) * 64 + (c2 - 128)) (c3 - 128)) as [D M]; [lia|unfold c; lia|].
      destruct (divmod64 (c / 64) ((c0 - 240) * 64 + (c1 - 128)) (c2 - 128)) as [D2 M2]; [lia|lia|].
      destruct (divmod64 (c / 64 / 64) (c0 - 240) (c1 - 128)) as [D3 M3]; [lia|lia|].
      replace (c / 262144) with (c / 64 / 64 / 64) by (rewrite !Z.div_div by lia; reflexivity).
      replace (c / 4096) with (c / 64 / 64) by (rewrite Z.div_div by lia; reflexivity).
      rewrite D3, M3, M2, M. replace (240 + (c0 - 240)) with c0 by lia. replace (128 + (c1 - 128)) with c1 by lia.
      replace (128 + (c2 - 128)) with c2 by lia. replace (128 + (c3 - 128)) with c3 by lia. reflexivity. }
  intros <- H; congruence.
Qed.

Lemma utf8_step_encode c rest : is_scalar c = true ->
  utf8_step (utf8_encode1 c ++ rest) = Z.of_nat (length (utf8_encode1 c)) /\ (1 <= length (utf8_encode1 c))%nat.
Proof.
  intros Hs. unfold is_scalar in Hs. apply orb_true_iff in Hs.
  assert (Hc : 0 <= c <= 55295 \/ 57344 <= c <= 1114111) by (destruct Hs as [H|H]; apply in_rng_true in H; lia). clear Hs.
  unfold utf8_encode1. destruct (Z.ltb_spec c 128).
  { cbn [app length utf8_step]. rewrite in_rng_t by lia. split; [reflexivity|lia]. }
  pose proof (Z.div_mod c 64 ltac:(lia)) as E1. pose proof (Z.mod_pos_bound c 64 ltac:(lia)) as B1.
  destruct (Z.ltb_spec c 2048).
  { cbn [app length utf8_step]. rewrite (in_rng_f 0 127), (in_rng_t 194 223), is_cont_true by lia. split; [reflexivity|lia]. }
  pose proof (Z.div_mod (c / 64) 64 ltac:(lia)) as E2. pose proof (Z.mod_pos_bound (c / 64) 64 ltac:(lia)) as B2.
  assert (D2 : c / 4096 = c / 64 / 64) by (rewrite Z.div_div by lia; reflexivity).
  destruct (Z.ltb_spec c 65536).
  { cbn [app length utf8_step]. rewrite D2.
    rewrite (in_rng_f 0 127), (in_rng_f 194 223), (in_rng_t 224 239), (is_cont_true (128 + c mod 64)) by lia.
    assert (G : in_rng (if 224 + c / 64 / 64 =? 224 then 160 else 128) (if 224 + c / 64 / 64 =? 237 then 159 else 191)
                       (128 + (c / 64) mod 64) = true).
    { apply in_rng_t. destruct (Z.eqb_spec (224 + c / 64 / 64) 224), (Z.eqb_spec (224 + c / 64 / 64) 237); lia. }
    rewrite G. split; [reflexivity|lia]. }
  pose proof (Z.div_mod (c / 64 / 64) 64 ltac:(lia)) as E3. pose proof (Z.mod_pos_bound (c / 64 / 64) 64 ltac:(lia)) as B3.
  assert (D3 : c / 262144 = c / 64 / 64 / 64) by (rewrite !Z.div_div by lia; reflexivity).
  cbn [app length utf8_step]. rewrite D3, D2.
  rewrite (in_rng_f 0 127), (in_rng_f 194 223), (in_rng_f 224 239), (in_rng_t 240 244),
    (is_cont_true (128 + c mod 64)), (is_cont_true (128 + (c / 64) mod 64)) by lia.
  assert (G : in_rng (if 240 + c / 64 / 64 / 64 =? 240 then 144 else 128) (if 240 + c / 64 / 64 / 64 =? 244 then 143 else 191)
                     (128 + (c / 64 / 64) mod 64) = true).
  { apply in_rng_t. destruct (Z.eqb_spec (240 + c / 64 / 64 / 64) 240), (Z.eqb_spec (240 + c / 64 / 64 / 64) 244); lia. }
  rewrite G. split; [reflexivity|lia].
Qed.

Lemma skipn_app_exact {A} (a b : list A) : skipn (length a) (a ++ b) = b.
Proof. induction a; cbn; [reflexivity|assumption]. Qed.

Lemma utf8_valid_iff_encoding_lemma s :
  utf8_valid s = true <-> exists cs, forallb is_scalar cs = true /\ s = utf8_encode cs.
Proof.
  rewrite utf8_valid_Valid. split.
  - induction 1 as [|s k Hk Hne Hv IH].
    + exists []. split; reflexivity.
    + destruct IH as (cs & Hcs & Es). destruct (utf8_step_decode s k Hk Hne) as (c & Hc & Ec).
      exists (c :: cs). cbn [forallb utf8_encode flat_map]. rewrite Hc, Hcs. split; [reflexivity|].
      unfold utf8_encode in Es. rewrite <- Es. exact Ec.
  - intros (cs & Hcs & ->). induction cs as [|c cs IH]; [constructor|].
    cbn [forallb] in Hcs. apply andb_true_iff in Hcs. destruct Hcs as [Hc Hcs].
    cbn [utf8_encode flat_map]. destruct (utf8_step_encode c (flat_map utf8_encode1 cs) Hc) as [E L].
    apply (V_step _ (Z.of_nat (length (utf8_encode1 c)))); [exact E|lia|].
    rewrite Nat2Z.id, skipn_app_exact. apply IH. exact Hcs.
Qed.

Lemma rune_count_encode_lemma cs : forallb is_scalar cs = true -> rune_count (utf8_encode cs) = Z.of_nat (length cs).
Proof.
  intros H. rewrite rune_count_valid by (apply utf8_valid_iff_encoding_lemma; exists cs; split; [exact H|reflexivity]).
  induction cs as [|c cs IH]; [reflexivity|].
  cbn [forallb] in H. apply andb_true_iff in H. destruct H as [Hc Hcs].
  cbn [utf8_encode flat_map]. destruct (utf8_step_encode c (flat_map utf8_encode1 cs) Hc) as [E L].
  destruct (utf8_step_count _ _ E ltac:(lia)) as (_ & _ & C). rewrite C, Nat2Z.id, skipn_app_exact.
  unfold utf8_encode in IH. rewrite (IH Hcs). cbn [length]. lia.
Qed.

(* =========================================================== the runner's checker for spans/deltas is sound *)
Lemma find_int_some_in k v (l : imap) : find_int k l = Some v -> In (k, v) l.
Proof.
  induction l as [|[a w] r IH]; cbn [find_int]; [discriminate|].
  destruct (Z.eqb_spec a k); [intros H; inversion H; subst; left; reflexivity|intros H; right; apply IH; exact H].
Qed.

Lemma find_int_none k (l : imap) : find_int k l = None -> ~ In k (map fst l).
Proof.
  induction l as [|[a w] r IH]; cbn [find_int map fst In]; [tauto|].
  destruct (Z.eqb_spec a k); [discriminate|]. intros H [E|Hin]; [contradiction|]. apply (IH H Hin).
Qed.

Lemma increasing_b_sorted l : increasing_b l = true -> Sorted Z.lt l.
Proof.
  induction l as [|a r IH]; [constructor|]. destruct r as [|b r'].
  - intros _. constructor; constructor.
  - cbn [increasing_b]. intros H. apply andb_true_iff in H. destruct H as [H1 H2].
    constructor; [apply IH; exact H2|]. constructor. apply Z.ltb_lt. exact H1.
Qed.

Lemma pops_spec_sound_lemma (given : imap) spans deltas :
  pops_spec given spans deltas = true -> decodes_to given spans deltas.
Proof.
  unfold pops_spec, decodes_to. cbv zeta. set (dec := decode_spans spans deltas).
  intros H. repeat (apply andb_true_iff in H; destruct H as [H ?]).
  rename H0 into Hdec, H1 into Hgiven, H2 into Hinc.
  rewrite forallb_forall in Hdec, Hgiven. repeat split.
  - intros k v Hin. specialize (Hgiven (k, v) Hin). cbn [fst snd] in Hgiven.
    destruct (find_int k dec) as [w|] eqn:E; [|discriminate]. apply Z.eqb_eq in Hgiven. subst. apply find_int_some_in. exact E.
  - intros k v Hin. specialize (Hdec (k, v) Hin). cbn [fst snd] in Hdec.
    destruct (find_int k given) as [w|] eqn:E.
    + apply Z.eqb_eq in Hdec. subst. left. apply find_int_some_in. exact E.
    + apply Z.eqb_eq in Hdec. right. split; [exact Hdec|apply find_int_none; exact E].
  - apply increasing_b_sorted. exact Hinc.
Qed.
