(* Proofs/C03_proofs.v -- C03: classic histogram buckets follow `le` semantics.
   The executable model (Model/ClassicHist.v: validation, bucket search with both the linear
   and the binary-search path, the hot/cold count sets, Write's flip+merge) is proved equal to
   the specification spec_run (count_le / fold_left fadd). *)
From Coq Require Import ZArith List Bool Lia Reals Lra ZifyBool ZifyNat.
From Flocq Require Import Core.Core IEEE754.BinarySingleNaN Plus_error.
From Verif Require Import Base.F64 Gen.Gen_Consts Model.ClassicHist Proofs.F64_order.
Import ListNotations.
Open Scope Z_scope.

(* ====================================================================== *)
(* 1. float facts needed for the merge in Write                            *)
(* ====================================================================== *)

(* +0 + s = s bit-exactly, except for s = -0 (where +0 + -0 = +0) *)
Lemma fadd_pzero_l (s : f64) : s <> nzero -> fadd pzero s = s.
Proof.
  intros Hs. destruct s as [[|]|[|]| |sx mx ex Hx]; try reflexivity.
  exfalso; apply Hs; reflexivity.
Qed.

(* finite + finite is never -0 in round-to-nearest-even *)
Lemma fadd_fin_not_nzero sx mx ex Hx sy my ey Hy :
  fadd (B754_finite sx mx ex Hx) (B754_finite sy my ey Hy) <> nzero.
Proof.
  intros E.
  pose proof (Bplus_correct 53 1024 Hprec_gt0_64 Hprec_emax64 mode_NE
                (B754_finite sx mx ex Hx) (B754_finite sy my ey Hy) eq_refl eq_refl) as H.
  unfold fadd in E. rewrite E in H. clear E.
  set (x := B754_finite sx mx ex Hx) in *. set (y := B754_finite sy my ey Hy) in *.
  destruct (Rlt_bool _ _).
  - destruct H as (H1 & _ & H3).
    change (@B2R 53 1024 nzero) with 0%R in H1.
    change (@Bsign 53 1024 nzero) with true in H3.
    change (Bsign x) with sx in H3. change (Bsign y) with sy in H3.
    destruct (Rcompare_spec (B2R x + B2R y) 0) as [Hc|Hc|Hc].
    + symmetry in H1.
      assert (Hsum : (B2R x + B2R y <> 0)%R) by lra.
      pose (Hve := fexp_correct 53 1024 Hprec_gt0_64).
      exact (@round_plus_neq_0 radix2 (SpecFloat.fexp 53 1024) Hve
               (@monotone_exp_not_FTZ _ Hve (fexp_monotone 53 1024))
               (round_mode mode_NE) (valid_rnd_round_mode mode_NE)
               (B2R x) (B2R y) (generic_format_B2R 53 1024 x) (generic_format_B2R 53 1024 y)
               Hsum H1).
    + symmetry in H3. apply andb_prop in H3. destruct H3 as [Hsx Hsy]. subst sx sy.
      assert (Hx0 : (B2R x < 0)%R) by (unfold x; cbn [B2R cond_Zopp]; apply F2R_lt_0; reflexivity).
      assert (Hy0 : (B2R y < 0)%R) by (unfold y; cbn [B2R cond_Zopp]; apply F2R_lt_0; reflexivity).
      lra.
    + discriminate H3.
  - destruct H as [H _]. cbn [B2SF nzero] in H. unfold binary_overflow in H.
    destruct (overflow_to_inf _ _); discriminate H.
Qed.

(* the running sum, started at +0, can never become -0 *)
Lemma fadd_not_nzero (s v : f64) : s <> nzero -> fadd s v <> nzero.
Proof.
  intros Hs.
  destruct s as [[|]|[|]| |sx mx ex Hx]; destruct v as [[|]|[|]| |sy my ey Hy];
    first [ exfalso; apply Hs; reflexivity
          | apply fadd_fin_not_nzero
          | intros E; cbv [fadd Bplus Bool.eqb nzero] in E; discriminate E ].
Qed.

Lemma sum_not_nzero_from (seen : list f64) : forall s, s <> nzero -> fold_left fadd seen s <> nzero.
Proof.
  induction seen as [|v r IH]; intros s Hs; [exact Hs|].
  cbn [fold_left]. apply IH. apply fadd_not_nzero. exact Hs.
Qed.

Lemma sum_not_nzero (seen : list f64) : fold_left fadd seen pzero <> nzero.
Proof. apply sum_not_nzero_from. discriminate. Qed.

(* ====================================================================== *)
(* 2. validation                                                           *)
(* ====================================================================== *)

Lemma si_cons2 b b' r :
  strictly_increasing_b (b :: b' :: r) = flt b b' && strictly_increasing_b (b' :: r).
Proof. reflexivity. Qed.
Lemma si_single b : strictly_increasing_b [b] = true. Proof. reflexivity. Qed.
Lemma si_nil : strictly_increasing_b [] = true. Proof. reflexivity. Qed.

Lemma trim_cons2 b b' r : trim_inf (b :: b' :: r) = b :: trim_inf (b' :: r).
Proof. reflexivity. Qed.

Lemma vl_cons2 b b' r :
  validate_loop (b :: b' :: r) =
  if negb (flt b b') then None
  else match validate_loop (b' :: r) with None => None | Some r0 => Some (b :: r0) end.
Proof. reflexivity. Qed.

Lemma validate_loop_spec (bs : list f64) :
  validate_loop bs = if strictly_increasing_b bs then Some (trim_inf bs) else None.
Proof.
  induction bs as [|b r IH]; [reflexivity|].
  destruct r as [|b' r'].
  - cbn [validate_loop trim_inf]. rewrite si_single. destruct (is_pinf b); reflexivity.
  - rewrite vl_cons2, si_cons2, trim_cons2, IH.
    destruct (flt b b'); cbn [negb andb]; [|reflexivity].
    destruct (strictly_increasing_b (b' :: r')); reflexivity.
Qed.

Lemma validate_spec_lemma (bs : list f64) :
  validate_buckets bs =
  (let bs' := match bs with [] => def_buckets | _ => bs end in
   if strictly_increasing_b bs' then Some (trim_inf bs') else None).
Proof. unfold validate_buckets. apply validate_loop_spec. Qed.

Lemma si_tail b r : strictly_increasing_b (b :: r) = true -> strictly_increasing_b r = true.
Proof.
  destruct r as [|b' r']; [reflexivity|]. rewrite si_cons2. intros H.
  apply andb_prop in H. tauto.
Qed.

Lemma si_trim (bs : list f64) :
  strictly_increasing_b bs = true -> strictly_increasing_b (trim_inf bs) = true.
Proof.
  induction bs as [|b r IH]; [reflexivity|].
  destruct r as [|b' r']; intros H.
  - cbn [trim_inf]. destruct (is_pinf b); reflexivity.
  - rewrite trim_cons2. rewrite si_cons2 in H. apply andb_prop in H. destruct H as [H1 H2].
    specialize (IH H2).
    destruct r' as [|b'' r''].
    + cbn [trim_inf] in *. destruct (is_pinf b'); [reflexivity|].
      rewrite si_cons2, H1. reflexivity.
    + rewrite trim_cons2 in *. rewrite si_cons2, H1, IH. reflexivity.
Qed.

(* ====================================================================== *)
(* 3. monotonicity and the split point                                     *)
(* ====================================================================== *)

Lemma si_head_lt : forall r b, strictly_increasing_b (b :: r) = true ->
  forall x, In x r -> flt b x = true.
Proof.
  induction r as [|b' r' IH]; intros b H x Hin; [destruct Hin|].
  rewrite si_cons2 in H. apply andb_prop in H. destruct H as [H1 H2].
  destruct Hin as [Hx|Hin].
  - subst x. exact H1.
  - apply flt_trans with b'; [exact H1|]. apply IH; assumption.
Qed.

Lemma mono_true v b r : strictly_increasing_b (b :: r) = true -> fle v b = true ->
  forall x, In x r -> fle v x = true.
Proof.
  intros H Hv x Hin. apply fle_trans with b; [exact Hv|].
  apply flt_fle. apply si_head_lt with r; assumption.
Qed.

(* number of bounds b with not (v <= b) *)
Definition split (v : f64) (bs : list f64) : nat := length (filter (fun b => negb (fle v b)) bs).

Lemma filter_none {A} (f : A -> bool) (l : list A) :
  (forall x, In x l -> f x = false) -> filter f l = [].
Proof.
  induction l as [|a l IH]; intros H; [reflexivity|].
  cbn [filter]. rewrite (H a (or_introl eq_refl)). apply IH. intros x Hx. apply H. right. exact Hx.
Qed.

Lemma split_cons_true v b r : strictly_increasing_b (b :: r) = true -> fle v b = true ->
  split v (b :: r) = O.
Proof.
  intros H Hv. unfold split. cbn [filter]. rewrite Hv. cbn [negb].
  rewrite filter_none; [reflexivity|].
  intros x Hx. rewrite (mono_true v b r H Hv x Hx). reflexivity.
Qed.

Lemma split_cons_false v b r : fle v b = false -> split v (b :: r) = S (split v r).
Proof. intros Hv. unfold split. cbn [filter]. rewrite Hv. reflexivity. Qed.

Lemma split_le_length v bs : (split v bs <= length bs)%nat.
Proof.
  unfold split. induction bs as [|b r IH]; [apply Nat.le_refl|].
  cbn [filter length]. destruct (negb (fle v b)); cbn [length]; lia.
Qed.

Lemma split_nth_lt v : forall bs, strictly_increasing_b bs = true ->
  forall i, (i < split v bs)%nat -> fle v (nth i bs fnan) = false.
Proof.
  induction bs as [|b r IH]; intros H i Hi; [unfold split in Hi; cbn in Hi; lia|].
  destruct (fle v b) eqn:Hv.
  - rewrite (split_cons_true v b r H Hv) in Hi. lia.
  - rewrite (split_cons_false v b r Hv) in Hi. destruct i as [|i']; [exact Hv|].
    cbn [nth]. apply IH; [apply si_tail with b; exact H|lia].
Qed.

Lemma split_nth_ge v : forall bs, strictly_increasing_b bs = true ->
  forall i, (split v bs <= i)%nat -> (i < length bs)%nat -> fle v (nth i bs fnan) = true.
Proof.
  induction bs as [|b r IH]; intros H i Hi Hl; [cbn in Hl; lia|].
  destruct (fle v b) eqn:Hv.
  - destruct i as [|i']; [exact Hv|]. cbn [nth]. apply (mono_true v b r H Hv).
    apply nth_In. cbn [length] in Hl. lia.
  - rewrite (split_cons_false v b r Hv) in Hi. destruct i as [|i']; [lia|].
    cbn [nth]. cbn [length] in Hl. apply IH; [apply si_tail with b; exact H|lia|lia].
Qed.

(* ====================================================================== *)
(* 4. the two search paths                                                 *)
(* ====================================================================== *)

Lemma linear_find_spec v : forall bs i, strictly_increasing_b bs = true ->
  linear_find bs v i = i + Z.of_nat (split v bs).
Proof.
  induction bs as [|b r IH]; intros i H.
  - unfold split. cbn. lia.
  - cbn [linear_find]. destruct (fle v b) eqn:Hv.
    + rewrite (split_cons_true v b r H Hv). lia.
    + rewrite (split_cons_false v b r Hv). rewrite IH by (apply si_tail with b; exact H). lia.
Qed.

Lemma go_search_loop_spec (f : Z -> bool) (k n : Z) :
  (forall i, 0 <= i < k -> f i = false) ->
  (forall i, k <= i < n -> f i = true) ->
  forall fuel i j, 0 <= i -> i <= k -> k <= j -> j <= n -> j - i < Z.of_nat fuel ->
  go_search_loop fuel f i j = k.
Proof.
  intros Hlo Hhi. induction fuel as [|fuel IH]; intros i j H0 H1 H2 H3 H4; [lia|].
  cbn [go_search_loop]. destruct (Z.ltb_spec i j) as [Hij|Hij]; [|lia].
  assert (Hh : i <= (i + j) / 2 < j).
  { split; [apply Z.div_le_lower_bound; lia|apply Z.div_lt_upper_bound; lia]. }
  set (h := (i + j) / 2) in *.
  destruct (f h) eqn:Hf; cbn [negb].
  - assert (k <= h).
    { destruct (Z_lt_le_dec h k) as [Hlt|Hge]; [|exact Hge].
      rewrite Hlo in Hf by lia. discriminate Hf. }
    apply IH; lia.
  - assert (h < k).
    { destruct (Z_lt_le_dec h k) as [Hlt|Hge]; [exact Hlt|].
      rewrite Hhi in Hf by lia. discriminate Hf. }
    apply IH; lia.
Qed.

Lemma search_float64s_spec bs v : strictly_increasing_b bs = true ->
  search_float64s bs v = Z.of_nat (split v bs).
Proof.
  intros H. unfold search_float64s, go_search.
  pose proof (split_le_length v bs) as Hle.
  apply go_search_loop_spec with (n := Z.of_nat (length bs)); try lia.
  - intros i Hi. unfold fge, nth_f. apply split_nth_lt; [exact H|lia].
  - intros i Hi. unfold fge, nth_f. apply split_nth_ge; [exact H|lia|lia].
Qed.

Lemma find_bucket_spec_split bs v : strictly_increasing_b bs = true ->
  find_bucket bs v = Z.of_nat (split v bs).
Proof.
  intros H. destruct bs as [|b0 r]; [reflexivity|].
  unfold find_bucket.
  set (bs := b0 :: r) in *.
  destruct (fle v b0) eqn:Hv0.
  - unfold bs. rewrite (split_cons_true v b0 r H Hv0). reflexivity.
  - destruct (fgt v (nth_f bs (Z.of_nat (length bs) - 1))) eqn:Hlast.
    + (* above the last bound: every bound is below v *)
      pose proof (split_le_length v bs) as Hle.
      destruct (Nat.eq_dec (split v bs) (length bs)) as [Heq|Hne]; [rewrite Heq; reflexivity|].
      exfalso.
      assert (Hl : (0 < length bs)%nat) by (unfold bs; cbn [length]; lia).
      unfold fgt, nth_f in Hlast. apply flt_not_fle in Hlast.
      rewrite split_nth_ge in Hlast; [discriminate Hlast|exact H|lia|lia].
    + destruct (Z.ltb (Z.of_nat (length bs)) find_bucket_linear_cutoff).
      * rewrite linear_find_spec by exact H. lia.
      * apply search_float64s_spec. exact H.
Qed.

Lemma find_bucket_spec_lemma bs v : strictly_increasing_b bs = true ->
  find_bucket bs v = Z.of_nat (length (filter (fun b => negb (fle v b)) bs)).
Proof. exact (find_bucket_spec_split bs v). Qed.

(* ====================================================================== *)
(* 5. bucket counters and cumulative counts                                *)
(* ====================================================================== *)

Lemma inc_nth_length : forall l i, length (inc_nth l i) = length l.
Proof.
  induction l as [|x r IH]; intros [|i']; cbn [inc_nth length]; try reflexivity.
  rewrite IH. reflexivity.
Qed.

Lemma inc_nth_oob : forall l i, (length l <= i)%nat -> inc_nth l i = l.
Proof.
  induction l as [|x r IH]; intros [|i'] H; cbn [inc_nth]; try reflexivity.
  - cbn [length] in H. lia.
  - rewrite IH; [reflexivity|cbn [length] in H; lia].
Qed.

(* the per-bucket (non-cumulative) counters after observing `seen` *)
Definition bk_step (bs : list f64) (bk : list Z) (v : f64) : list Z :=
  if Z.ltb (find_bucket bs v) (Z.of_nat (length bs))
  then inc_nth bk (Z.to_nat (find_bucket bs v)) else bk.
Definition bk_of (bs : list f64) (seen : list f64) : list Z :=
  fold_left (bk_step bs) seen (repeat 0 (length bs)).

Lemma bk_step_length bs bk v : length (bk_step bs bk v) = length bk.
Proof. unfold bk_step. destruct (Z.ltb _ _); [apply inc_nth_length|reflexivity]. Qed.

Lemma fold_bk_length bs : forall seen bk, length (fold_left (bk_step bs) seen bk) = length bk.
Proof.
  induction seen as [|v r IH]; intros bk; [reflexivity|].
  cbn [fold_left]. rewrite IH. apply bk_step_length.
Qed.

Lemma bk_of_length bs seen : length (bk_of bs seen) = length bs.
Proof. unfold bk_of. rewrite fold_bk_length. apply repeat_length. Qed.

Lemma bk_of_snoc bs seen v : bk_of bs (seen ++ [v]) = bk_step bs (bk_of bs seen) v.
Proof. unfold bk_of. rewrite fold_left_app. reflexivity. Qed.

(* add 1 to the count of every entry at index >= k *)
Fixpoint bump (k : nat) (l : list (f64 * Z)) : list (f64 * Z) :=
  match l with
  | [] => []
  | (b, c) :: r =>
      match k with
      | O => (b, c + 1) :: bump O r
      | S k' => (b, c) :: bump k' r
      end
  end.

Lemma cumulate_acc1 : forall bs bk acc, cumulate bs bk (acc + 1) = bump 0 (cumulate bs bk acc).
Proof.
  induction bs as [|b br IH]; intros [|x kr] acc; try reflexivity.
  cbn [cumulate bump]. rewrite <- IH.
  replace (acc + 1 + x) with (acc + x + 1) by lia. reflexivity.
Qed.

Lemma cumulate_inc : forall bs bk k acc,
  cumulate bs (inc_nth bk k) acc = bump k (cumulate bs bk acc).
Proof.
  induction bs as [|b br IH]; intros [|x kr] [|k'] acc; try reflexivity.
  - cbn [inc_nth cumulate bump]. rewrite <- cumulate_acc1.
    replace (acc + (x + 1)) with (acc + x + 1) by lia. reflexivity.
  - cbn [inc_nth cumulate bump]. rewrite IH. reflexivity.
Qed.

Lemma cumulate_zero : forall bs acc,
  cumulate bs (repeat 0 (length bs)) acc = map (fun b => (b, acc)) bs.
Proof.
  induction bs as [|b br IH]; intros acc; [reflexivity|].
  cbn [length repeat cumulate map]. replace (acc + 0) with acc by lia. rewrite IH. reflexivity.
Qed.

Lemma map_bump0 v (c : f64 -> Z) : forall r, (forall x, In x r -> fle v x = true) ->
  map (fun b => (b, c b + (if fle v b then 1 else 0))) r = bump 0 (map (fun b => (b, c b)) r).
Proof.
  induction r as [|b r IH]; intros H; [reflexivity|].
  cbn [map bump]. rewrite (H b (or_introl eq_refl)). rewrite IH; [reflexivity|].
  intros x Hx. apply H. right. exact Hx.
Qed.

Lemma map_bump v (c : f64 -> Z) : forall bs, strictly_increasing_b bs = true ->
  map (fun b => (b, c b + (if fle v b then 1 else 0))) bs
  = bump (split v bs) (map (fun b => (b, c b)) bs).
Proof.
  induction bs as [|b r IH]; intros H; [reflexivity|].
  destruct (fle v b) eqn:Hv.
  - rewrite (split_cons_true v b r H Hv). cbn [map bump]. rewrite Hv.
    rewrite (map_bump0 v c r (mono_true v b r H Hv)). reflexivity.
  - rewrite (split_cons_false v b r Hv). cbn [map bump]. rewrite Hv.
    rewrite IH by (apply si_tail with b; exact H).
    replace (c b + 0) with (c b) by lia. reflexivity.
Qed.

Lemma count_le_snoc seen v b :
  count_le (seen ++ [v]) b = count_le seen b + (if fle v b then 1 else 0).
Proof.
  unfold count_le. rewrite filter_app, app_length. cbn [filter].
  destruct (fle v b); cbn [length]; lia.
Qed.

Lemma bk_step_split bs bk v : strictly_increasing_b bs = true -> length bk = length bs ->
  bk_step bs bk v = inc_nth bk (split v bs).
Proof.
  intros H Hl. unfold bk_step. rewrite (find_bucket_spec_split bs v H). rewrite Nat2Z.id.
  destruct (Z.ltb_spec (Z.of_nat (split v bs)) (Z.of_nat (length bs))) as [Hlt|Hge]; [reflexivity|].
  symmetry. apply inc_nth_oob. lia.
Qed.

Lemma cumulate_bk_of bs : strictly_increasing_b bs = true -> forall seen,
  cumulate bs (bk_of bs seen) 0 = map (fun b => (b, count_le seen b)) bs.
Proof.
  intros H. induction seen as [|v seen IH] using rev_ind.
  - unfold bk_of. cbn [fold_left]. apply cumulate_zero.
  - rewrite bk_of_snoc. rewrite (bk_step_split bs _ v H (bk_of_length bs seen)).
    rewrite cumulate_inc, IH. rewrite <- (map_bump v (count_le seen) bs H).
    apply map_ext. intros b. rewrite count_le_snoc. reflexivity.
Qed.

Lemma zip_add_zero : forall n l, length l = n -> zip_add (repeat 0 n) l = l.
Proof.
  induction n as [|n IH]; intros [|x r] Hl; cbn [length] in Hl; try discriminate Hl; try reflexivity.
  cbn [repeat zip_add]. rewrite IH by lia. reflexivity.
Qed.

(* ====================================================================== *)
(* 6. the state invariant                                                  *)
(* ====================================================================== *)

Definition counts_of (bs seen : list f64) : counts :=
  mkCounts (fold_left fadd seen pzero) (Z.of_nat (length seen)) (bk_of bs seen).

Definition Inv (bs : list f64) (h : hist) (seen : list f64) : Prop :=
  h_bounds h = bs /\
  get_set h (h_hot h) = counts_of bs seen /\
  get_set h (negb (h_hot h)) = zero_counts (length bs).

Lemma inv_init bs : Inv bs (new_hist bs) [].
Proof. unfold Inv, new_hist, counts_of, bk_of, zero_counts. cbn. repeat split. Qed.

Lemma counts_observe_of bs seen v :
  counts_observe (counts_of bs seen) v (find_bucket bs v) = counts_of bs (seen ++ [v]).
Proof.
  unfold counts_observe, counts_of. cbn [c_sum c_count c_buckets].
  rewrite fold_left_app, app_length, bk_of_snoc, bk_of_length. cbn [fold_left length].
  unfold bk_step. f_equal. lia.
Qed.

Lemma inv_observe bs h seen v : Inv bs h seen -> Inv bs (observe h v) (seen ++ [v]).
Proof.
  intros (Hb & Hhot & Hcold). destruct h as [bn hot s0 s1].
  cbn [h_bounds h_hot] in *. subst bn.
  destruct hot; cbn [get_set negb h_set0 h_set1] in Hhot, Hcold; subst s0 s1;
    unfold Inv, observe; cbn [h_bounds h_hot get_set put_set negb h_set0 h_set1];
    rewrite counts_observe_of; repeat split.
Qed.

Lemma merge_counts bs seen :
  mkCounts (fadd (c_sum (zero_counts (length bs))) (c_sum (counts_of bs seen)))
           (c_count (zero_counts (length bs)) + c_count (counts_of bs seen))
           (zip_add (c_buckets (zero_counts (length bs))) (c_buckets (counts_of bs seen)))
  = counts_of bs seen.
Proof.
  unfold zero_counts, counts_of. cbn [c_sum c_count c_buckets].
  rewrite (fadd_pzero_l _ (sum_not_nzero seen)).
  rewrite (zip_add_zero _ _ (bk_of_length bs seen)). reflexivity.
Qed.

Lemma inv_write bs h seen : strictly_increasing_b bs = true -> Inv bs h seen ->
  snd (write h) = spec_write bs seen /\ Inv bs (fst (write h)) seen.
Proof.
  intros Hsi (Hb & Hhot & Hcold). destruct h as [bn hot s0 s1].
  cbn [h_bounds h_hot] in *. subst bn.
  destruct hot; cbn [get_set negb h_set0 h_set1] in Hhot, Hcold; subst s0 s1;
    unfold Inv, write;
    cbn [fst snd h_bounds h_hot get_set put_set negb h_set0 h_set1];
    rewrite merge_counts; (split; [|repeat split]);
    unfold spec_write, counts_of; cbn [c_sum c_count c_buckets];
    rewrite (cumulate_bk_of bs Hsi seen); reflexivity.
Qed.

(* ====================================================================== *)
(* 7. the main theorem                                                     *)
(* ====================================================================== *)

Lemma run_ops_spec bs : strictly_increasing_b bs = true ->
  forall ops h seen, Inv bs h seen -> run_ops h ops = spec_ops bs seen ops.
Proof.
  intros Hsi. induction ops as [|o r IH]; intros h seen HI; [reflexivity|].
  destruct o as [v|].
  - cbn [run_ops spec_ops]. apply IH. apply inv_observe. exact HI.
  - cbn [run_ops spec_ops]. destruct (inv_write bs h seen Hsi HI) as [Ho HI'].
    destruct (write h) as [h' o]. cbn [fst snd] in Ho, HI'. subst o.
    rewrite (IH h' seen HI'). reflexivity.
Qed.

Lemma classic_le_semantics_lemma (bounds : list f64) (ops : list op) :
  run bounds ops = spec_run bounds ops.
Proof.
  unfold run, spec_run. rewrite validate_spec_lemma. cbv zeta.
  destruct (strictly_increasing_b (match bounds with [] => def_buckets | _ :: _ => bounds end)) eqn:Hsi;
    [|reflexivity].
  f_equal. apply run_ops_spec; [apply si_trim; exact Hsi|apply inv_init].
Qed.

(* ====================================================================== *)
(* 8. Write is transparent                                                 *)
(* ====================================================================== *)

Definition is_write (o : op) : bool := match o with OWrite => true | OObs _ => false end.

Lemma spec_ops_insert_write bs ops2 : forall ops1 seen,
  exists w,
    spec_ops bs seen (ops1 ++ OWrite :: ops2) =
    firstn (length (filter is_write ops1)) (spec_ops bs seen (ops1 ++ ops2))
    ++ w :: skipn (length (filter is_write ops1)) (spec_ops bs seen (ops1 ++ ops2)).
Proof.
  induction ops1 as [|o r IH]; intros seen.
  - exists (spec_write bs seen). reflexivity.
  - destruct o as [v|]; cbn [app spec_ops filter is_write length firstn skipn].
    + apply IH.
    + destruct (IH seen) as [w Hw]. exists w. rewrite Hw. reflexivity.
Qed.

Lemma write_transparent_lemma (bounds : list f64) (ops1 ops2 : list op) :
  match run bounds (ops1 ++ ops2), run bounds (ops1 ++ OWrite :: ops2) with
  | Some a, Some b =>
      let k := length (filter (fun o => match o with OWrite => true | OObs _ => false end) ops1) in
      exists w, b = firstn k a ++ w :: skipn k a
  | None, None => True
  | _, _ => False
  end.
Proof.
  rewrite !classic_le_semantics_lemma. unfold spec_run. cbv zeta.
  destruct (strictly_increasing_b _); [|exact I].
  destruct (spec_ops_insert_write
              (trim_inf (match bounds with [] => def_buckets | _ :: _ => bounds end)) ops2 ops1 [])
    as [w Hw].
  exists w. exact Hw.
Qed.

(* ====================================================================== *)
(* 9. non-vacuity: concrete runs evaluated by vm_compute                    *)
(* ====================================================================== *)
(* Outputs are projected to (count, bits of sum, cumulative counts); the float sum is compared
   through to_bits because two equal B754_finite values may carry different (opaque) proofs. *)

(* 3 bounds (linear path): 1, 5, 10.  Observations 5 (equal to a bound), 0.5, 7; then NaN, +Inf, 10. *)
Lemma example_small_lemma :
  option_map (map (fun w => (w_count w, to_bits (w_sum w), map snd (w_cum w))))
    (run [of_Z 1; of_Z 5; of_Z 10]
         [OObs (of_Z 5); OObs (of_ZE 1 (-1)); OObs (of_Z 7); OWrite;
          OObs fnan; OObs pinf; OObs (of_Z 10); OWrite])
  = Some [ (3, 0x4029000000000000 (* 12.5 *), [1; 2; 3]);
           (6, 0x7FF8000000000001 (* NaN *),  [1; 2; 4]) ].
Proof. vm_compute. reflexivity. Qed.

(* 40 bounds 1..40 (binary-search path, 40 >= cutoff): observations 17 (equal to a bound), 17.5,
   +0, 41 (above every bound); then NaN and +Inf (no finite bucket). *)
Lemma example_large_lemma :
  option_map (map (fun w => (w_count w, to_bits (w_sum w), map snd (w_cum w))))
    (run (map (fun i => of_Z (Z.of_nat i)) (seq 1 40))
         [OObs (of_Z 17); OObs (of_ZE 35 (-1)); OObs pzero; OObs (of_Z 41); OWrite;
          OObs fnan; OObs pinf; OWrite])
  = Some [ (4, 0x4052E00000000000 (* 75.5 *), repeat 1 16 ++ [2] ++ repeat 3 23);
           (6, 0x7FF8000000000001 (* NaN *),  repeat 1 16 ++ [2] ++ repeat 3 23) ].
Proof. vm_compute. reflexivity. Qed.

(* construction: not strictly increasing is rejected; a trailing +Inf is trimmed; the default
   buckets of the Go source are accepted *)
Lemma example_construct_lemma :
  run [of_Z 2; of_Z 1] [OWrite] = None /\
  run [of_Z 1; of_Z 1] [OWrite] = None /\
  run [of_Z 1; fnan; of_Z 2] [OWrite] = None /\
  option_map (map (fun w => (w_count w, map snd (w_cum w))))
    (run [of_Z 1; pinf] [OObs (of_Z 1); OObs (of_Z 2); OWrite]) = Some [(2, [1])] /\
  run [] [] = Some [].
Proof. vm_compute. repeat split. Qed.
