(* Proofs/C04_proofs.v -- C04: native histogram buckets account for exactly the observations made.
   Second part (first part: Proofs/C04_keys.v -- table facts, spans/deltas, key computation):
   D. exemplars   E. sequential accounting invariant over all operation sequences *)
From Coq Require Import ZArith List Bool Lia Reals Lra ZifyBool ZifyNat.
From Flocq Require Import Core.Core IEEE754.BinarySingleNaN.
From Verif Require Import Base.F64 Gen.Gen_Bounds Gen.Gen_Consts Model.ClassicHist Model.NativeHist
     Proofs.F64_order Proofs.C03_proofs Proofs.C04_keys.
Import ListNotations.
Open Scope Z_scope.

(* ====================================================================== *)
(* E. sequential accounting                                                *)
(* ====================================================================== *)

(* ---- sparse maps ---- *)
Lemma sorted_from_weaken : forall m lo lo', sorted_from m lo -> lo' <= lo -> sorted_from m lo'.
Proof. destruct m as [|[i c] r]; intros lo lo' H Hl; [exact I|]. cbn in *. destruct H. split; [lia|assumption]. Qed.

Definition wf (m : bmap) : Prop := exists lo, sorted_from m lo.

Lemma wf_nil : wf []. Proof. exists 0. exact I. Qed.

Lemma m_add_get : forall m lo k inc k', sorted_from m lo ->
  m_get (fst (m_add m k inc)) k' = m_get m k' + (if Z.eqb k' k then inc else 0).
Proof.
  induction m as [|[k0 v] r IH]; intros lo k inc k' Hs.
  - cbn. destruct (k' =? k); lia.
  - cbn [sorted_from] in Hs. destruct Hs as [H1 H2]. cbn [m_add].
    destruct (Z.eqb_spec k k0) as [->|Hne].
    + cbn [fst m_get]. destruct (Z.eqb_spec k' k0); lia.
    + destruct (Z.ltb_spec k k0) as [Hlt|Hge].
      * cbn [fst m_get]. destruct (Z.eqb_spec k' k) as [->|Hn'].
        -- destruct (Z.eqb_spec k k0); [lia|]. rewrite (m_get_below r (k0 + 1) k H2) by lia. lia.
        -- lia.
      * specialize (IH (k0 + 1) k inc k' H2). destruct (m_add r k inc) as [r' c]. cbn [fst m_get] in *.
        destruct (Z.eqb_spec k' k0) as [->|Hn']; [|exact IH].
        destruct (Z.eqb_spec k0 k); lia.
Qed.

Lemma m_add_sorted : forall m lo k inc, sorted_from m lo -> sorted_from (fst (m_add m k inc)) (Z.min lo k).
Proof.
  induction m as [|[k0 v] r IH]; intros lo k inc Hs.
  - cbn. split; [lia|exact I].
  - cbn [sorted_from] in Hs. destruct Hs as [H1 H2]. cbn [m_add].
    destruct (Z.eqb_spec k k0) as [->|Hne].
    + cbn. split; [lia|exact H2].
    + destruct (Z.ltb_spec k k0) as [Hlt|Hge].
      * cbn. split; [lia|]. split; [lia|exact H2].
      * specialize (IH (k0 + 1) k inc H2). destruct (m_add r k inc) as [r' c]. cbn [fst sorted_from] in *.
        split; [lia|]. apply sorted_from_weaken with (Z.min (k0 + 1) k); [exact IH|lia].
Qed.

Lemma m_add_wf m k inc : wf m -> wf (fst (m_add m k inc)).
Proof. intros [lo H]. exists (Z.min lo k). apply m_add_sorted. exact H. Qed.

Lemma not_in_below : forall r lo k v, sorted_from r lo -> k < lo -> ~ In (k, v) r.
Proof.
  induction r as [|[k1 v1] r IH]; intros lo k v Hs Hk Hin; [destruct Hin|].
  cbn in Hs. destruct Hs as [H3 H4]. destruct Hin as [E|Hin]; [inversion E; lia|].
  apply (IH (k1 + 1) k v H4); [lia|exact Hin].
Qed.

Lemma m_get_in : forall m lo k v, sorted_from m lo -> In (k, v) m -> m_get m k = v.
Proof.
  induction m as [|[k0 v0] r IH]; intros lo k v Hs Hin; [destruct Hin|].
  cbn [sorted_from] in Hs. destruct Hs as [H1 H2]. cbn [m_get]. destruct Hin as [E|Hin].
  - inversion E. subst. rewrite Z.eqb_refl. reflexivity.
  - destruct (Z.eqb_spec k k0) as [->|Hne]; [|apply (IH (k0 + 1)); assumption].
    exfalso. apply (not_in_below r (k0 + 1) k0 v H2); [lia|exact Hin].
Qed.

Lemma m_get_all_zero m k : (forall p, In p m -> snd p = 0) -> m_get m k = 0.
Proof.
  induction m as [|[k0 v0] r IH]; intros H; [reflexivity|]. cbn [m_get].
  destruct (k =? k0); [apply (H (k0, v0)); left; reflexivity|]. apply IH. intros p Hp. apply H. right. exact Hp.
Qed.

Lemma zero_vals_zero m : forall p, In p (zero_vals m) -> snd p = 0.
Proof. unfold zero_vals. intros p Hp. apply in_map_iff in Hp. destruct Hp as [q [<- _]]. reflexivity. Qed.

Lemma zero_vals_sorted : forall m lo, sorted_from m lo -> sorted_from (zero_vals m) lo.
Proof. induction m as [|[k v] r IH]; intros lo H; [exact I|]. cbn in *. destruct H. split; [assumption|apply IH; assumption]. Qed.

Lemma zero_vals_wf m : wf m -> wf (zero_vals m).
Proof. intros [lo H]. exists lo. apply zero_vals_sorted. exact H. Qed.

Lemma merge_reset_get : forall cm hm bn lo lo' k, sorted_from cm lo -> sorted_from hm lo' ->
  m_get (fst (merge_reset cm hm bn)) k = m_get hm k + m_get cm k.
Proof.
  induction cm as [|[k0 v] r IH]; intros hm bn lo lo' k Hc Hh; [cbn; lia|].
  cbn [sorted_from] in Hc. destruct Hc as [H1 H2]. cbn [merge_reset].
  pose proof (m_add_get hm lo' k0 v k Hh) as Ea. pose proof (m_add_sorted hm lo' k0 v Hh) as Es.
  destruct (m_add hm k0 v) as [hm1 cr]. cbn [fst] in Ea, Es.
  rewrite (IH hm1 _ (k0 + 1) _ k H2 Es). rewrite Ea. cbn [m_get].
  destruct (Z.eqb_spec k k0) as [->|Hne]; [|lia]. rewrite (m_get_below r (k0 + 1) k0 H2) by lia. lia.
Qed.

Lemma merge_reset_wf : forall cm hm bn, wf hm -> wf (fst (merge_reset cm hm bn)).
Proof.
  induction cm as [|[k0 v] r IH]; intros hm bn H; [exact H|]. cbn [merge_reset].
  pose proof (m_add_wf hm k0 v H) as Hw. destruct (m_add hm k0 v) as [hm1 cr]. apply IH. exact Hw.
Qed.

(* ---- counting observations ---- *)
Definition cnt (p : f64 -> bool) (G : list f64) : Z := zlen (filter p G).

Lemma zlen_app {A} (a b : list A) : zlen (a ++ b) = zlen a + zlen b.
Proof. unfold zlen. rewrite app_length. lia. Qed.

Lemma cnt_snoc p G v : cnt p (G ++ [v]) = cnt p G + (if p v then 1 else 0).
Proof. unfold cnt. rewrite filter_app, zlen_app. cbn [filter]. destruct (p v); reflexivity. Qed.

Lemma cnt_nonneg p G : 0 <= cnt p G. Proof. unfold cnt, zlen. lia. Qed.

Lemma cnt_ext p q G : (forall v, In v G -> p v = q v) -> cnt p G = cnt q G.
Proof.
  intros H. unfold cnt. f_equal. induction G as [|a G IH]; [reflexivity|]. cbn [filter].
  rewrite (H a (or_introl eq_refl)). rewrite IH; [reflexivity|]. intros v Hv. apply H. right. exact Hv.
Qed.

(* how histogramCounts.observe classifies a value under zero threshold zt *)
Definition goes_pos (zt v : f64) : bool := negb (is_nan v) && fgt (inf_to_max v) zt.
Definition goes_neg (zt v : f64) : bool :=
  negb (is_nan v) && negb (fgt (inf_to_max v) zt) && flt (inf_to_max v) (fneg zt).
Definition goes_zero (zt v : f64) : bool :=
  negb (is_nan v) && negb (fgt (inf_to_max v) zt) && negb (flt (inf_to_max v) (fneg zt)).

Lemma cnt_cons p v G : cnt p (v :: G) = (if p v then 1 else 0) + cnt p G.
Proof. unfold cnt, zlen. cbn [filter]. destruct (p v); cbn [length]; lia. Qed.

Lemma cnt_partition zt G :
  cnt (goes_pos zt) G + cnt (goes_neg zt) G + cnt (goes_zero zt) G + cnt is_nan G = zlen G.
Proof.
  induction G as [|v G IH]; [reflexivity|]. rewrite !cnt_cons.
  replace (zlen (v :: G)) with (zlen G + 1) by (unfold zlen; cbn [length]; lia).
  unfold goes_pos at 1, goes_neg at 1, goes_zero at 1.
  destruct (is_nan v), (fgt (inf_to_max v) zt), (flt (inf_to_max v) (fneg zt)); cbn [negb andb]; lia.
Qed.

(* one count set accounts for exactly the observations G *)
Record acct (c : counts) (G : list f64) : Prop := mkAcct {
  a_cnt : c_cnt c = zlen G;
  a_zb : c_zb c = cnt (goes_zero (c_zt c)) G;
  a_pos : forall k, m_get (c_pos c) k = cnt (fun v => goes_pos (c_zt c) v && Z.eqb (key_of (c_schema c) v) k) G;
  a_neg : forall k, m_get (c_neg c) k = cnt (fun v => goes_neg (c_zt c) v && Z.eqb (key_of (c_schema c) v) k) G;
  a_wfp : wf (c_pos c);
  a_wfn : wf (c_neg c);
  a_sum : c_sum c = fold_left fadd G pzero
}.

(* a drained count set: nothing counted, sparse buckets kept with population 0 *)
Record drained (c : counts) : Prop := mkDrained {
  d_cnt : c_cnt c = 0; d_zb : c_zb c = 0; d_sum : c_sum c = pzero;
  d_pos : forall p, In p (c_pos c) -> snd p = 0;
  d_neg : forall p, In p (c_neg c) -> snd p = 0;
  d_wfp : wf (c_pos c); d_wfn : wf (c_neg c)
}.

Lemma acct_reset g : acct (reset_counts g) [].
Proof. constructor; cbn; try reflexivity; try apply wf_nil. Qed.
Lemma drained_reset g : drained (reset_counts g).
Proof. constructor; cbn; try reflexivity; try apply wf_nil; intros p []. Qed.

Lemma goes_nan zt v : is_nan v = true -> goes_pos zt v = false /\ goes_neg zt v = false /\ goes_zero zt v = false.
Proof. intros H. unfold goes_pos, goes_neg, goes_zero. rewrite H. repeat split; reflexivity. Qed.
Lemma goes_p zt v : is_nan v = false -> fgt (inf_to_max v) zt = true ->
  goes_pos zt v = true /\ goes_neg zt v = false /\ goes_zero zt v = false.
Proof. intros H1 H2. unfold goes_pos, goes_neg, goes_zero. rewrite H1, H2. repeat split; reflexivity. Qed.
Lemma goes_n zt v : is_nan v = false -> fgt (inf_to_max v) zt = false -> flt (inf_to_max v) (fneg zt) = true ->
  goes_pos zt v = false /\ goes_neg zt v = true /\ goes_zero zt v = false.
Proof. intros H1 H2 H3. unfold goes_pos, goes_neg, goes_zero. rewrite H1, H2, H3. repeat split; reflexivity. Qed.
Lemma goes_z zt v : is_nan v = false -> fgt (inf_to_max v) zt = false -> flt (inf_to_max v) (fneg zt) = false ->
  goes_pos zt v = false /\ goes_neg zt v = false /\ goes_zero zt v = true.
Proof. intros H1 H2 H3. unfold goes_pos, goes_neg, goes_zero. rewrite H1, H2, H3. repeat split; reflexivity. Qed.

Lemma acct_observe c G v : acct c G -> acct (c_observe c v) (G ++ [v]).
Proof.
  intros [Hc Hz Hp Hn Wp Wn Hs]. unfold c_observe.
  assert (Hsum : fadd (c_sum c) v = fold_left fadd (G ++ [v]) pzero) by (rewrite fold_left_app, <- Hs; reflexivity).
  assert (Hlen : c_cnt c + 1 = zlen (G ++ [v])) by (rewrite zlen_app, Hc; reflexivity).
  destruct (is_nan v) eqn:Hnan.
  - destruct (goes_nan (c_zt c) v Hnan) as (E1 & E2 & E3).
    constructor; cbn [c_cnt c_zb c_zt c_schema c_pos c_neg c_sum]; try assumption.
    + rewrite cnt_snoc, E3. lia.
    + intros k. rewrite cnt_snoc, E1, Hp. cbn [andb]. lia.
    + intros k. rewrite cnt_snoc, E2, Hn. cbn [andb]. lia.
  - destruct (fgt (inf_to_max v) (c_zt c)) eqn:Hgt.
    + destruct (goes_p (c_zt c) v Hnan Hgt) as (E1 & E2 & E3).
      destruct Wp as [lo Wp]. pose proof (fun k => m_add_get (c_pos c) lo (key_of (c_schema c) v) 1 k Wp) as Eg.
      pose proof (m_add_sorted (c_pos c) lo (key_of (c_schema c) v) 1 Wp) as Es.
      destruct (m_add (c_pos c) (key_of (c_schema c) v) 1) as [m cr]. cbn [fst] in Eg, Es.
      constructor; cbn [c_cnt c_zb c_zt c_schema c_pos c_neg c_sum]; try assumption.
      * rewrite cnt_snoc, E3. lia.
      * intros k. rewrite Eg, cnt_snoc, Hp, E1. cbn [andb]. rewrite (Z.eqb_sym k). reflexivity.
      * intros k. rewrite cnt_snoc, E2, Hn. cbn [andb]. lia.
      * eexists. exact Es.
    + destruct (flt (inf_to_max v) (fneg (c_zt c))) eqn:Hlt.
      * destruct (goes_n (c_zt c) v Hnan Hgt Hlt) as (E1 & E2 & E3).
        destruct Wn as [lo Wn]. pose proof (fun k => m_add_get (c_neg c) lo (key_of (c_schema c) v) 1 k Wn) as Eg.
        pose proof (m_add_sorted (c_neg c) lo (key_of (c_schema c) v) 1 Wn) as Es.
        destruct (m_add (c_neg c) (key_of (c_schema c) v) 1) as [m cr]. cbn [fst] in Eg, Es.
        constructor; cbn [c_cnt c_zb c_zt c_schema c_pos c_neg c_sum]; try assumption.
        -- rewrite cnt_snoc, E3. lia.
        -- intros k. rewrite cnt_snoc, E1, Hp. cbn [andb]. lia.
        -- intros k. rewrite Eg, cnt_snoc, Hn, E2. cbn [andb]. rewrite (Z.eqb_sym k). reflexivity.
        -- eexists. exact Es.
      * destruct (goes_z (c_zt c) v Hnan Hgt Hlt) as (E1 & E2 & E3).
        constructor; cbn [c_cnt c_zb c_zt c_schema c_pos c_neg c_sum]; try assumption.
        -- rewrite cnt_snoc, E3, Hz. lia.
        -- intros k. rewrite cnt_snoc, E1, Hp. cbn [andb]. lia.
        -- intros k. rewrite cnt_snoc, E2, Hn. cbn [andb]. lia.
Qed.
