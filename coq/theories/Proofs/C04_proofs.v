(* Proofs/C04_proofs.v -- C04: native histogram buckets account for exactly the observations made.
   Second part (first part: Proofs/C04_keys.v -- table facts, spans/deltas, key computation):
   D. exemplars   E. sequential accounting invariant over all operation sequences *)
From Coq Require Import ZArith List Bool Lia Reals Lra ZifyBool ZifyNat.
From Flocq Require Import Core.Core IEEE754.BinarySingleNaN.
From Verif Require Import Base.F64 Gen.Gen_Bounds Gen.Gen_Consts Model.ClassicHist Model.NativeHist
     Proofs.F64_order Proofs.C03_proofs Proofs.C04_keys.
Import ListNotations.
Open Scope Z_scope.

(* ====================================================================== *)
(* E. sequential accounting                                                *)
(* ====================================================================== *)

(* ---- sparse maps ---- *)
Lemma sorted_from_weaken : forall m lo lo', sorted_from m lo -> lo' <= lo -> sorted_from m lo'.
Proof. destruct m as [|[i c] r]; intros lo lo' H Hl; [exact I|]. cbn in *. destruct H. split; [lia|assumption]. Qed.

Definition wf (m : bmap) : Prop := exists lo, sorted_from m lo.

Lemma wf_nil : wf []. Proof. exists 0. exact I. Qed.

Lemma m_add_get : forall m lo k inc k', sorted_from m lo ->
  m_get (fst (m_add m k inc)) k' = m_get m k' + (if Z.eqb k' k then inc else 0).
Proof.
  induction m as [|[k0 v] r IH]; intros lo k inc k' Hs.
  - cbn. destruct (k' =? k); lia.
  - cbn [sorted_from] in Hs. destruct Hs as [H1 H2]. cbn [m_add].
    destruct (Z.eqb_spec k k0) as [->|Hne].
    + cbn [fst m_get]. destruct (Z.eqb_spec k' k0); lia.
    + destruct (Z.ltb_spec k k0) as [Hlt|Hge].
      * cbn [fst m_get]. destruct (Z.eqb_spec k' k) as [->|Hn'].
        -- destruct (Z.eqb_spec k k0); [lia|]. rewrite (m_get_below r (k0 + 1) k H2) by lia. lia.
        -- lia.
      * specialize (IH (k0 + 1) k inc k' H2). destruct (m_add r k inc) as [r' c]. cbn [fst m_get] in *.
        destruct (Z.eqb_spec k' k0) as [->|Hn']; [|exact IH].
        destruct (Z.eqb_spec k0 k); lia.
Qed.

Lemma m_add_sorted : forall m lo k inc, sorted_from m lo -> sorted_from (fst (m_add m k inc)) (Z.min lo k).
Proof.
  induction m as [|[k0 v] r IH]; intros lo k inc Hs.
  - cbn. split; [lia|exact I].
  - cbn [sorted_from] in Hs. destruct Hs as [H1 H2]. cbn [m_add].
    destruct (Z.eqb_spec k k0) as [->|Hne].
    + cbn. split; [lia|exact H2].
    + destruct (Z.ltb_spec k k0) as [Hlt|Hge].
      * cbn. split; [lia|]. split; [lia|exact H2].
      * specialize (IH (k0 + 1) k inc H2). destruct (m_add r k inc) as [r' c]. cbn [fst sorted_from] in *.
        split; [lia|]. apply sorted_from_weaken with (Z.min (k0 + 1) k); [exact IH|lia].
Qed.

Lemma m_add_wf m k inc : wf m -> wf (fst (m_add m k inc)).
Proof. intros [lo H]. exists (Z.min lo k). apply m_add_sorted. exact H. Qed.

Lemma not_in_below : forall r lo k v, sorted_from r lo -> k < lo -> ~ In (k, v) r.
Proof.
  induction r as [|[k1 v1] r IH]; intros lo k v Hs Hk Hin; [destruct Hin|].
  cbn in Hs. destruct Hs as [H3 H4]. destruct Hin as [E|Hin]; [inversion E; lia|].
  apply (IH (k1 + 1) k v H4); [lia|exact Hin].
Qed.

Lemma m_get_in : forall m lo k v, sorted_from m lo -> In (k, v) m -> m_get m k = v.
Proof.
  induction m as [|[k0 v0] r IH]; intros lo k v Hs Hin; [destruct Hin|].
  cbn [sorted_from] in Hs. destruct Hs as [H1 H2]. cbn [m_get]. destruct Hin as [E|Hin].
  - inversion E. subst. rewrite Z.eqb_refl. reflexivity.
  - destruct (Z.eqb_spec k k0) as [->|Hne]; [|apply (IH (k0 + 1)); assumption].
    exfalso. apply (not_in_below r (k0 + 1) k0 v H2); [lia|exact Hin].
Qed.

Lemma m_get_all_zero m k : (forall p, In p m -> snd p = 0) -> m_get m k = 0.
Proof.
  induction m as [|[k0 v0] r IH]; intros H; [reflexivity|]. cbn [m_get].
  destruct (k =? k0); [apply (H (k0, v0)); left; reflexivity|]. apply IH. intros p Hp. apply H. right. exact Hp.
Qed.

Lemma zero_vals_zero m : forall p, In p (zero_vals m) -> snd p = 0.
Proof. unfold zero_vals. intros p Hp. apply in_map_iff in Hp. destruct Hp as [q [<- _]]. reflexivity. Qed.

Lemma zero_vals_sorted : forall m lo, sorted_from m lo -> sorted_from (zero_vals m) lo.
Proof. induction m as [|[k v] r IH]; intros lo H; [exact I|]. cbn in *. destruct H. split; [assumption|apply IH; assumption]. Qed.

Lemma zero_vals_wf m : wf m -> wf (zero_vals m).
Proof. intros [lo H]. exists lo. apply zero_vals_sorted. exact H. Qed.

Lemma merge_reset_get : forall cm hm bn lo lo' k, sorted_from cm lo -> sorted_from hm lo' ->
  m_get (fst (merge_reset cm hm bn)) k = m_get hm k + m_get cm k.
Proof.
  induction cm as [|[k0 v] r IH]; intros hm bn lo lo' k Hc Hh; [cbn; lia|].
  cbn [sorted_from] in Hc. destruct Hc as [H1 H2]. cbn [merge_reset].
  pose proof (m_add_get hm lo' k0 v k Hh) as Ea. pose proof (m_add_sorted hm lo' k0 v Hh) as Es.
  destruct (m_add hm k0 v) as [hm1 cr]. cbn [fst] in Ea, Es.
  rewrite (IH hm1 _ (k0 + 1) _ k H2 Es). rewrite Ea. cbn [m_get].
  destruct (Z.eqb_spec k k0) as [->|Hne]; [|lia]. rewrite (m_get_below r (k0 + 1) k0 H2) by lia. lia.
Qed.

Lemma merge_reset_wf : forall cm hm bn, wf hm -> wf (fst (merge_reset cm hm bn)).
Proof.
  induction cm as [|[k0 v] r IH]; intros hm bn H; [exact H|]. cbn [merge_reset].
  pose proof (m_add_wf hm k0 v H) as Hw. destruct (m_add hm k0 v) as [hm1 cr]. apply IH. exact Hw.
Qed.

(* ---- counting observations ---- *)
Definition cnt (p : f64 -> bool) (G : list f64) : Z := zlen (filter p G).

Lemma zlen_app {A} (a b : list A) : zlen (a ++ b) = zlen a + zlen b.
Proof. unfold zlen. rewrite app_length. lia. Qed.

Lemma cnt_snoc p G v : cnt p (G ++ [v]) = cnt p G + (if p v then 1 else 0).
Proof. unfold cnt. rewrite filter_app, zlen_app. cbn [filter]. destruct (p v); reflexivity. Qed.

Lemma cnt_nonneg p G : 0 <= cnt p G. Proof. unfold cnt, zlen. lia. Qed.

Lemma cnt_ext p q G : (forall v, In v G -> p v = q v) -> cnt p G = cnt q G.
Proof.
  intros H. unfold cnt. f_equal. induction G as [|a G IH]; [reflexivity|]. cbn [filter].
  rewrite (H a (or_introl eq_refl)). rewrite IH; [reflexivity|]. intros v Hv. apply H. right. exact Hv.
Qed.

Lemma cnt_cons p v G : cnt p (v :: G) = (if p v then 1 else 0) + cnt p G.
Proof. unfold cnt, zlen. cbn [filter]. destruct (p v); cbn [length]; lia. Qed.

Lemma cnt_partition zt G :
  cnt (goes_pos zt) G + cnt (goes_neg zt) G + cnt (goes_zero zt) G + cnt is_nan G = zlen G.
Proof.
  induction G as [|v G IH]; [reflexivity|]. rewrite !cnt_cons.
  replace (zlen (v :: G)) with (zlen G + 1) by (unfold zlen; cbn [length]; lia).
  unfold goes_pos at 1, goes_neg at 1, goes_zero at 1.
  destruct (is_nan v), (fgt v zt), (flt v (fneg zt)); cbn [negb andb]; lia.
Qed.

(* one count set accounts for exactly the observations G *)
Record acct (c : counts) (G : list f64) : Prop := mkAcct {
  a_cnt : c_cnt c = zlen G;
  a_zb : c_zb c = cnt (goes_zero (c_zt c)) G;
  a_pos : forall k, m_get (c_pos c) k = cnt (fun v => goes_pos (c_zt c) v && Z.eqb (key_of (c_schema c) v) k) G;
  a_neg : forall k, m_get (c_neg c) k = cnt (fun v => goes_neg (c_zt c) v && Z.eqb (key_of (c_schema c) v) k) G;
  a_wfp : wf (c_pos c);
  a_wfn : wf (c_neg c);
  a_sum : c_sum c = fold_left fadd G pzero
}.

(* a drained count set: nothing counted, sparse buckets kept with population 0 *)
Record drained (c : counts) : Prop := mkDrained {
  d_cnt : c_cnt c = 0; d_zb : c_zb c = 0; d_sum : c_sum c = pzero;
  d_pos : forall p, In p (c_pos c) -> snd p = 0;
  d_neg : forall p, In p (c_neg c) -> snd p = 0;
  d_wfp : wf (c_pos c); d_wfn : wf (c_neg c)
}.

Lemma acct_reset g : acct (reset_counts g) [].
Proof. constructor; cbn; try reflexivity; try apply wf_nil. Qed.
Lemma drained_reset g : drained (reset_counts g).
Proof. constructor; cbn; try reflexivity; try apply wf_nil; intros p []. Qed.

Lemma goes_nan zt v : is_nan v = true -> goes_pos zt v = false /\ goes_neg zt v = false /\ goes_zero zt v = false.
Proof. intros H. unfold goes_pos, goes_neg, goes_zero. rewrite H. repeat split; reflexivity. Qed.
Lemma goes_p zt v : is_nan v = false -> fgt v zt = true ->
  goes_pos zt v = true /\ goes_neg zt v = false /\ goes_zero zt v = false.
Proof. intros H1 H2. unfold goes_pos, goes_neg, goes_zero. rewrite H1, H2. repeat split; reflexivity. Qed.
Lemma goes_n zt v : is_nan v = false -> fgt v zt = false -> flt v (fneg zt) = true ->
  goes_pos zt v = false /\ goes_neg zt v = true /\ goes_zero zt v = false.
Proof. intros H1 H2 H3. unfold goes_pos, goes_neg, goes_zero. rewrite H1, H2, H3. repeat split; reflexivity. Qed.
Lemma goes_z zt v : is_nan v = false -> fgt v zt = false -> flt v (fneg zt) = false ->
  goes_pos zt v = false /\ goes_neg zt v = false /\ goes_zero zt v = true.
Proof. intros H1 H2 H3. unfold goes_pos, goes_neg, goes_zero. rewrite H1, H2, H3. repeat split; reflexivity. Qed.

Lemma acct_observe c G v : acct c G -> acct (c_observe c v) (G ++ [v]).
Proof.
  intros [Hc Hz Hp Hn Wp Wn Hs]. unfold c_observe.
  assert (Hsum : fadd (c_sum c) v = fold_left fadd (G ++ [v]) pzero) by (rewrite fold_left_app, <- Hs; reflexivity).
  assert (Hlen : c_cnt c + 1 = zlen (G ++ [v])) by (rewrite zlen_app, Hc; reflexivity).
  destruct (is_nan v) eqn:Hnan.
  - destruct (goes_nan (c_zt c) v Hnan) as (E1 & E2 & E3).
    constructor; cbn [c_cnt c_zb c_zt c_schema c_pos c_neg c_sum]; try assumption.
    + rewrite cnt_snoc, E3. lia.
    + intros k. rewrite cnt_snoc, E1, Hp. cbn [andb]. lia.
    + intros k. rewrite cnt_snoc, E2, Hn. cbn [andb]. lia.
  - destruct (fgt v (c_zt c)) eqn:Hgt.
    + destruct (goes_p (c_zt c) v Hnan Hgt) as (E1 & E2 & E3).
      destruct Wp as [lo Wp]. pose proof (fun k => m_add_get (c_pos c) lo (key_of (c_schema c) v) 1 k Wp) as Eg.
      pose proof (m_add_sorted (c_pos c) lo (key_of (c_schema c) v) 1 Wp) as Es.
      destruct (m_add (c_pos c) (key_of (c_schema c) v) 1) as [m cr]. cbn [fst] in Eg, Es.
      constructor; cbn [c_cnt c_zb c_zt c_schema c_pos c_neg c_sum]; try assumption.
      * rewrite cnt_snoc, E3. lia.
      * intros k. rewrite Eg, cnt_snoc, Hp, E1. cbn [andb]. rewrite (Z.eqb_sym k). reflexivity.
      * intros k. rewrite cnt_snoc, E2, Hn. cbn [andb]. lia.
      * eexists. exact Es.
    + destruct (flt v (fneg (c_zt c))) eqn:Hlt.
      * destruct (goes_n (c_zt c) v Hnan Hgt Hlt) as (E1 & E2 & E3).
        destruct Wn as [lo Wn]. pose proof (fun k => m_add_get (c_neg c) lo (key_of (c_schema c) v) 1 k Wn) as Eg.
        pose proof (m_add_sorted (c_neg c) lo (key_of (c_schema c) v) 1 Wn) as Es.
        destruct (m_add (c_neg c) (key_of (c_schema c) v) 1) as [m cr]. cbn [fst] in Eg, Es.
        constructor; cbn [c_cnt c_zb c_zt c_schema c_pos c_neg c_sum]; try assumption.
        -- rewrite cnt_snoc, E3. lia.
        -- intros k. rewrite cnt_snoc, E1, Hp. cbn [andb]. lia.
        -- intros k. rewrite Eg, cnt_snoc, Hn, E2. cbn [andb]. rewrite (Z.eqb_sym k). reflexivity.
        -- eexists. exact Es.
      * destruct (goes_z (c_zt c) v Hnan Hgt Hlt) as (E1 & E2 & E3).
        constructor; cbn [c_cnt c_zb c_zt c_schema c_pos c_neg c_sum]; try assumption.
        -- rewrite cnt_snoc, E3, Hz. lia.
        -- intros k. rewrite cnt_snoc, E1, Hp. cbn [andb]. lia.
        -- intros k. rewrite cnt_snoc, E2, Hn. cbn [andb]. lia.
Qed.

(* ---- summing a map against the observations it accounts for ---- *)
Definition sumif (p : Z -> bool) (m : bmap) : Z := zsum (map snd (filter (fun e => p (fst e)) m)).

Lemma cnt_pos_of_in p v G : In v G -> p v = true -> 0 < cnt p G.
Proof.
  induction G as [|a G IH]; intros Hin Hp; [destruct Hin|]. rewrite cnt_cons.
  pose proof (cnt_nonneg p G). destruct Hin as [->|Hin]; [rewrite Hp; lia|].
  specialize (IH Hin Hp). destruct (p a); lia.
Qed.

Lemma cnt_false p G : (forall v, In v G -> p v = false) -> cnt p G = 0.
Proof.
  induction G as [|a G IH]; intros H; [reflexivity|]. rewrite cnt_cons, (H a (or_introl eq_refl)), IH; [reflexivity|].
  intros v Hv. apply H. right. exact Hv.
Qed.

Lemma cnt_split p q G : cnt p G = cnt (fun v => p v && q v) G + cnt (fun v => p v && negb (q v)) G.
Proof.
  induction G as [|a G IH]; [reflexivity|]. rewrite !cnt_cons, IH. destruct (p a), (q a); cbn [andb negb]; lia.
Qed.

Lemma sumif_cnt (key : f64 -> Z) (p : Z -> bool) G : forall m lo (Q : f64 -> bool), sorted_from m lo ->
  (forall k, m_get m k = cnt (fun v => Q v && Z.eqb (key v) k) G) ->
  sumif p m = cnt (fun v => Q v && p (key v)) G.
Proof.
  induction m as [|[k0 c] r IH]; intros lo Q Hs H.
  - cbn. symmetry. apply cnt_false. intros v Hv.
    destruct (Q v) eqn:HQ; [|reflexivity]. exfalso.
    pose proof (H (key v)) as E. cbn [m_get] in E.
    pose proof (cnt_pos_of_in (fun v0 => Q v0 && (key v0 =? key v)) v G Hv) as P.
    cbv beta in P. rewrite HQ, Z.eqb_refl in P. specialize (P eq_refl). lia.
  - cbn [sorted_from] in Hs. destruct Hs as [H1 H2].
    assert (Hr : forall k, m_get r k = cnt (fun v => (Q v && negb (key v =? k0)) && (key v =? k)) G).
    { intros k. destruct (Z.eqb_spec k k0) as [->|Hne].
      - rewrite (m_get_below r (k0 + 1) k0 H2) by lia. symmetry. apply cnt_false. intros v _.
        destruct (key v =? k0), (Q v); reflexivity.
      - pose proof (H k) as E. cbn [m_get] in E. destruct (Z.eqb_spec k k0); [lia|]. rewrite E.
        apply cnt_ext. intros v _. destruct (Z.eqb_spec (key v) k) as [->|]; [|rewrite !andb_false_r; reflexivity].
        destruct (Z.eqb_spec k k0); [lia|]. cbn [negb]. rewrite !andb_true_r. reflexivity. }
    specialize (IH (k0 + 1) (fun v => Q v && negb (key v =? k0)) H2 Hr).
    unfold sumif in *. cbn [filter fst].
    rewrite (cnt_split (fun v => Q v && p (key v)) (fun v => key v =? k0) G).
    replace (cnt (fun v => Q v && p (key v) && negb (key v =? k0)) G)
      with (cnt (fun v => Q v && negb (key v =? k0) && p (key v)) G)
      by (apply cnt_ext; intros v _; destruct (Q v), (p (key v)), (key v =? k0); reflexivity).
    rewrite <- IH. pose proof (H k0) as E. cbn [m_get] in E. rewrite Z.eqb_refl in E.
    destruct (p k0) eqn:Hp.
    + cbn [map snd]. change (zsum (c :: ?l)) with (c + zsum l).
      replace (cnt (fun v => Q v && p (key v) && (key v =? k0)) G) with c; [reflexivity|].
      rewrite E. apply cnt_ext. intros v _. destruct (Z.eqb_spec (key v) k0) as [->|]; [|rewrite !andb_false_r; reflexivity].
      rewrite Hp, !andb_true_r. reflexivity.
    + replace (cnt (fun v => Q v && p (key v) && (key v =? k0)) G) with 0; [reflexivity|].
      symmetry. apply cnt_false. intros v _. destruct (Z.eqb_spec (key v) k0) as [->|]; [|rewrite !andb_false_r; reflexivity].
      rewrite Hp, andb_false_r. reflexivity.
Qed.

Lemma map_total (key : f64 -> Z) G m (Q : f64 -> bool) : wf m ->
  (forall k, m_get m k = cnt (fun v => Q v && Z.eqb (key v) k) G) ->
  zsum (map snd m) = cnt Q G.
Proof.
  intros [lo Hs] H. pose proof (sumif_cnt key (fun _ => true) G m lo Q Hs H) as E.
  unfold sumif in E. replace (filter (fun e => true) m) with m in E
    by (clear; induction m as [|a m IH]; [reflexivity|cbn; rewrite <- IH; reflexivity]).
  rewrite E. apply cnt_ext. intros v _. apply andb_true_r.
Qed.

Lemma map_nonneg (key : f64 -> Z) G m (Q : f64 -> bool) : wf m ->
  (forall k, m_get m k = cnt (fun v => Q v && Z.eqb (key v) k) G) ->
  forall e, In e m -> 0 <= snd e.
Proof.
  intros [lo Hs] H [k v] Hin. cbn [snd]. rewrite <- (m_get_in m lo k v Hs Hin), H. apply cnt_nonneg.
Qed.

(* ---- what one Write must expose for the observations G (at the level of the model's own
        classification: goes_zero / goes_pos / goes_neg and key_of) ---- *)
Definition side_ok_m (G : list f64) (Q : f64 -> bool) (schema : Z) (sp : list (Z * Z)) (ds : list Z) : Prop :=
  exists pops, decode sp ds = Some pops /\
    (forall k, m_get pops k = cnt (fun v => Q v && Z.eqb (key_of schema v) k) G) /\
    (forall e, In e pops -> 0 <= snd e) /\
    zsum (map snd pops) = cnt Q G /\ wf pops.

Record out_ok (G : list f64) (w : wout) : Prop := mkOutOk {
  o_count : w_count w = zlen G;
  o_zc : w_zc w = cnt (goes_zero (w_zt w)) G;
  o_sum : w_sum w = fold_left fadd G pzero;
  o_pos : side_ok_m G (goes_pos (w_zt w)) (w_schema w) (w_pspans w) (w_pdeltas w);
  o_neg : side_ok_m G (goes_neg (w_zt w)) (w_schema w) (w_nspans w) (w_ndeltas w)
}.

Lemma wf_sorted_keys m : wf m -> sorted_keys m.
Proof. intros [lo H]. destruct m as [|[i c] r]; [exact I|]. cbn in *. apply H. Qed.

Lemma side_ok_of_map G Q schema m : wf m ->
  (forall k, m_get m k = cnt (fun v => Q v && Z.eqb (key_of schema v) k) G) ->
  side_ok_m G Q schema (fst (make_buckets m)) (snd (make_buckets m)).
Proof.
  intros Hw H. exists (fill m true 0). split; [apply spans_decode_lemma, wf_sorted_keys, Hw|].
  split; [intros k; rewrite fill_get by (apply wf_sorted_keys, Hw); apply H|]. split; [|split].
  - apply fill_nonneg. apply (map_nonneg (key_of schema) G m Q Hw H).
  - rewrite fill_total. apply (map_total (key_of schema) G m Q Hw H).
  - apply fill_sorted, wf_sorted_keys, Hw.
Qed.

Lemma make_buckets_nil_spans m : fst (make_buckets m) = [] -> m = [] /\ snd (make_buckets m) = [].
Proof.
  unfold make_buckets. destruct m as [|[i c] r]; [split; reflexivity|].
  cbn [enc orb]. destruct (enc r false (i + 1) c) as [[n sp] ds]. cbn. discriminate.
Qed.

(* ---- the histogram invariant ---- *)
Record inv (h : hist) (G : list f64) : Prop := mkInv {
  i_hot : acct (h_hot h) G;
  i_cold : drained (h_cold h);
  i_schema : c_schema (h_cold h) = c_schema (h_hot h);
  i_zt : c_zt (h_cold h) = c_zt (h_hot h);
  i_n : h_n h = c_cnt (h_hot h)
}.

Lemma inv_new g : inv (new_hist g) [].
Proof. constructor; cbn; try reflexivity; [apply acct_reset|apply drained_reset]. Qed.

Lemma fadd_pzero_sum G : fadd pzero (fold_left fadd G pzero) = fold_left fadd G pzero.
Proof. apply fadd_pzero_l. apply sum_not_nzero. Qed.

Lemma write_inv h G : inv h G ->
  exists h' w, write h = Some (h', w) /\ inv h' G /\ out_ok G w /\
    w_schema w = c_schema (h_hot h) /\ w_zt w = c_zt (h_hot h) /\ w_created w = h_last h /\
    h_cfg h' = h_cfg h /\ h_last h' = h_last h /\ h_clock h' = h_clock h /\ h_sched h' = h_sched h /\
    c_schema (h_hot h') = c_schema (h_hot h) /\ c_zt (h_hot h') = c_zt (h_hot h).
Proof.
  intros [[Hc Hz Hp Hn Wp Wn Hs] [Dc Dz Ds Dp Dn DWp DWn] Hsch Hzt Hcnt].
  unfold write. rewrite Hcnt, Z.eqb_refl. cbn [negb].
  pose proof (side_ok_of_map G (goes_neg (c_zt (h_hot h))) (c_schema (h_hot h)) (c_neg (h_hot h)) Wn Hn) as SN.
  pose proof (side_ok_of_map G (goes_pos (c_zt (h_hot h))) (c_schema (h_hot h)) (c_pos (h_hot h)) Wp Hp) as SP.
  pose proof (make_buckets_nil_spans (c_pos (h_hot h))) as NP.
  destruct (make_buckets (c_neg (h_hot h))) as [nsp nds]. destruct (make_buckets (c_pos (h_hot h))) as [psp pds].
  cbn [fst snd] in SN, SP, NP.
  unfold add_and_reset_counts. cbn [c_sum c_cnt c_zb c_zt c_schema c_bn c_pos c_neg].
  destruct DWp as [lop DWp]. destruct DWn as [lon DWn]. destruct Wp as [lp Wp]. destruct Wn as [ln Wn].
  pose proof (fun bn k => merge_reset_get (c_pos (h_hot h)) (c_pos (h_cold h)) bn lp lop k Wp DWp) as Gp.
  pose proof (fun bn => merge_reset_wf (c_pos (h_hot h)) (c_pos (h_cold h)) bn (ex_intro _ lop DWp)) as Wp'.
  destruct (merge_reset (c_pos (h_hot h)) (c_pos (h_cold h)) (c_bn (h_cold h))) as [hp bn1] eqn:Ep.
  pose proof (fun k => Gp (c_bn (h_cold h)) k) as Gp1. rewrite Ep in Gp1. specialize (Wp' (c_bn (h_cold h))). rewrite Ep in Wp'.
  pose proof (fun k => merge_reset_get (c_neg (h_hot h)) (c_neg (h_cold h)) bn1 ln lon k Wn DWn) as Gn.
  pose proof (merge_reset_wf (c_neg (h_hot h)) (c_neg (h_cold h)) bn1 (ex_intro _ lon DWn)) as Wn'.
  destruct (merge_reset (c_neg (h_hot h)) (c_neg (h_cold h)) bn1) as [hn bn2]. cbn [fst] in *.
  eexists. eexists. split; [reflexivity|]. cbn [h_hot h_cold h_n h_cfg h_last h_clock h_sched w_schema w_zt w_created].
  split; [|split; [|repeat split; try reflexivity; try assumption]].
  - constructor; cbn [h_hot h_cold h_n c_schema c_zt c_cnt]; try reflexivity; try lia.
    + constructor; cbn [c_sum c_cnt c_zb c_zt c_schema c_pos c_neg].
      * lia.
      * rewrite Hzt, Dz, Hz. lia.
      * intros k. rewrite Gp1, (m_get_all_zero _ k Dp), Hzt, Hsch, Hp. lia.
      * intros k. rewrite Gn, (m_get_all_zero _ k Dn), Hzt, Hsch, Hn. lia.
      * exact Wp'.
      * exact Wn'.
      * rewrite Ds, Hs. apply fadd_pzero_sum.
    + constructor; cbn [c_sum c_cnt c_zb c_pos c_neg]; try reflexivity.
      * apply zero_vals_zero.
      * apply zero_vals_zero.
      * apply zero_vals_wf. eexists; exact Wp.
      * apply zero_vals_wf. eexists; exact Wn.
    + symmetry. exact Hzt.
  - constructor; cbn [w_count w_zc w_sum w_zt w_schema w_pspans w_pdeltas w_nspans w_ndeltas]; try assumption; try lia.
    destruct psp as [|ps psr]; [|exact SP]. destruct nsp as [|ns nsr]; [|exact SP].
    destruct (feq (c_zt (h_hot h)) pzero && (c_zb (h_hot h) =? 0)); [|exact SP].
    destruct (NP eq_refl) as [_ ->]. destruct SP as [pops [Hd Hrest]]. exists pops. split; [|exact Hrest].
    cbn in Hd. inversion Hd. subst pops. reflexivity.
Qed.

(* ---- limit strategies ---- *)
Record inv2 (h : hist) (G : list f64) : Prop := mkInv2 {
  j_inv : inv h G;
  j_range : -4 <= c_schema (h_hot h) <= 8;
  j_zt : fle pzero (c_zt (h_hot h)) = true;
  j_cfg : valid_config (h_cfg h);
  j_cfgzt : fle pzero (init_zt (h_cfg h)) = true
}.

Lemma init_zt_nonneg g : fle pzero (init_zt g) = true.
Proof.
  unfold init_zt. destruct (fgt (g_zt_opt g) pzero) eqn:E.
  - apply flt_fle. exact E.
  - destruct (feq (g_zt_opt g) pzero); vm_compute; reflexivity.
Qed.

Lemma inv2_new g : valid_config g -> inv2 (new_hist g) [].
Proof.
  intros Hv. constructor; cbn; try assumption; try apply init_zt_nonneg. apply inv_new.
Qed.

Lemma c_observe_fields c v :
  c_schema (c_observe c v) = c_schema c /\ c_zt (c_observe c v) = c_zt c /\ c_cnt (c_observe c v) = c_cnt c + 1.
Proof.
  unfold c_observe. destruct (is_nan v); [repeat split|].
  destruct (fgt v (c_zt c)).
  - destruct (m_add (c_pos c) (key_of (c_schema c) v) 1). repeat split.
  - destruct (flt v (fneg (c_zt c))); [destruct (m_add (c_neg c) (key_of (c_schema c) v) 1)|]; repeat split.
Qed.

Lemma inv2_observe_raw h G v : inv2 h G ->
  inv2 (with_sets h (c_observe (h_hot h) v) (h_cold h) (h_n h + 1)) (G ++ [v]).
Proof.
  intros [[Ha Hd Hs Hz Hn] Hr Hzt Hc Hcz]. destruct (c_observe_fields (h_hot h) v) as (E1 & E2 & E3).
  constructor; cbn [with_sets h_hot h_cold h_n h_cfg]; try assumption.
  - constructor; cbn [with_sets h_hot h_cold h_n]; try assumption.
    + apply acct_observe. exact Ha.
    + rewrite E1. exact Hs.
    + rewrite E2. exact Hz.
    + rewrite E3, Hn. reflexivity.
  - rewrite E1. exact Hr.
  - rewrite E2. exact Hzt.
Qed.

Lemma inv2_ext h h' G : h_hot h' = h_hot h -> h_cold h' = h_cold h -> h_n h' = h_n h -> h_cfg h' = h_cfg h ->
  inv2 h G -> inv2 h' G.
Proof.
  intros E1 E2 E3 E4 [[Ha Hd Hs Hz Hn] Hr Hzt Hc Hcz].
  constructor; [constructor|..]; rewrite ?E1, ?E2, ?E3, ?E4; assumption.
Qed.

Lemma maybe_reset_inv h G v : inv2 h G ->
  match maybe_reset h v with
  | None => False
  | Some (h', true) => inv2 h' [v] /\ h_cfg h' = h_cfg h
  | Some (h', false) => h' = h
  end.
Proof.
  intros [[Ha Hd Hs Hz Hn] Hr Hzt Hc Hcz]. unfold maybe_reset.
  destruct ((g_min_reset (h_cfg h) =? 0) || h_sched h || (h_clock h - h_last h <? g_min_reset (h_cfg h))); [reflexivity|].
  rewrite Hn, Z.eqb_refl. cbn [negb]. split; [|reflexivity].
  destruct (c_observe_fields (reset_counts (h_cfg h)) v) as (E1 & E2 & E3).
  constructor; cbn [h_hot h_cold h_n h_cfg]; try assumption.
  - constructor; cbn [h_hot h_cold h_n].
    + apply (acct_observe (reset_counts (h_cfg h)) [] v). apply acct_reset.
    + apply drained_reset.
    + rewrite E1. reflexivity.
    + rewrite E2. reflexivity.
    + rewrite E3. reflexivity.
  - rewrite E1. cbn. exact Hc.
  - rewrite E2. cbn. exact Hcz.
Qed.

Lemma timer_reset_inv h G : inv2 h G ->
  match timer_reset h with None => False | Some h' => inv2 h' [] /\ h_cfg h' = h_cfg h end.
Proof.
  intros [[Ha Hd Hs Hz Hn] Hr Hzt Hc Hcz]. unfold timer_reset. rewrite Hn, Z.eqb_refl. cbn [negb].
  split; [|reflexivity]. constructor; cbn [h_hot h_cold h_n h_cfg]; try assumption.
  constructor; cbn; try reflexivity; [apply acct_reset|apply drained_reset].
Qed.

(* ---- halving ---- *)
Lemma sumif_cons p k c r : sumif p ((k, c) :: r) = (if p k then c else 0) + sumif p r.
Proof. unfold sumif. cbn [filter fst]. destruct (p k); reflexivity. Qed.

Lemma double_merge_get : forall cm hm bn lo k', sorted_from hm lo ->
  m_get (fst (double_merge cm hm bn)) k' = m_get hm k' + sumif (fun k => Z.eqb (halve k) k') cm /\
  wf (fst (double_merge cm hm bn)).
Proof.
  induction cm as [|[k0 v] r IH]; intros hm bn lo k' Hh.
  - cbn. split; [lia|eexists; exact Hh].
  - cbn [double_merge]. pose proof (m_add_get hm lo (halve k0) v k' Hh) as Ea.
    pose proof (m_add_sorted hm lo (halve k0) v Hh) as Es.
    destruct (m_add hm (halve k0) v) as [hm1 cr]. cbn [fst] in Ea, Es.
    destruct (IH hm1 (if cr then u32_inc bn else bn) _ k' Es) as [E W]. split; [|exact W].
    rewrite E, Ea, sumif_cons. rewrite (Z.eqb_sym k'). lia.
Qed.

Lemma goes_pos_nonzero zt v : fle pzero zt = true -> goes_pos zt v = true -> is_nan v = false /\ feq v pzero = false.
Proof.
  intros Hz H. unfold goes_pos in H. apply andb_prop in H. destruct H as [Hn Hg].
  split; [destruct (is_nan v); [discriminate|reflexivity]|].
  unfold fgt in Hg. pose proof (fle_flt_trans _ _ _ Hz Hg) as Hp.
  rewrite feq_fle. rewrite (flt_not_fle _ _ Hp). reflexivity.
Qed.

Lemma fneg_fle_zero zt : fle pzero zt = true -> fle (fneg zt) pzero = true.
Proof.
  intros H. destruct zt as [s|s| |s m e Hb]; try (destruct s; vm_compute in H |- *; congruence).
  vm_compute in H. discriminate.
Qed.

Lemma goes_neg_nonzero zt v : fle pzero zt = true -> goes_neg zt v = true -> is_nan v = false /\ feq v pzero = false.
Proof.
  intros Hz H. unfold goes_neg in H. apply andb_prop in H. destruct H as [H Hl]. apply andb_prop in H. destruct H as [Hn _].
  split; [destruct (is_nan v); [discriminate|reflexivity]|].
  pose proof (flt_fle_trans _ _ _ Hl (fneg_fle_zero zt Hz)) as Hp.
  rewrite feq_fle. rewrite (flt_not_fle _ _ Hp), andb_false_r. reflexivity.
Qed.

Lemma halved_counts (Q : f64 -> f64 -> bool) zt s m G k :
  (forall v, Q zt v = true -> is_nan v = false /\ feq v pzero = false) ->
  -3 <= s <= 8 -> wf m ->
  (forall k0, m_get m k0 = cnt (fun v => Q zt v && Z.eqb (key_of s v) k0) G) ->
  sumif (fun k0 => Z.eqb (halve k0) k) m = cnt (fun v => Q zt v && Z.eqb (key_of (s - 1) v) k) G.
Proof.
  intros HQ Hs [lo Hw] H. rewrite (sumif_cnt (key_of s) _ G m lo (Q zt) Hw H).
  apply cnt_ext. intros v _. destruct (Q zt v) eqn:E; [|reflexivity]. cbn [andb].
  destruct (HQ v E) as [Hn Hz]. rewrite (key_halving_lemma s v Hs Hn Hz). reflexivity.
Qed.

Lemma double_width_inv h G : inv2 h G ->
  match double_width h with
  | None => False
  | Some h' => inv2 h' G /\ h_cfg h' = h_cfg h /\ c_zt (h_hot h') = c_zt (h_hot h) /\
               c_schema (h_hot h') <= c_schema (h_hot h)
  end.
Proof.
  intros J. pose proof J as [[[Hc Hz Hp Hn Wp Wn Hs] [Dc Dz Ds Dp Dn DWp DWn] Hsch Hzt Hcnt] Hr Hztp Hcfg Hcz].
  unfold double_width. destruct (Z.eqb_spec (c_schema (h_cold h)) (-4)) as [E4|E4]; [split; [exact J|split; [reflexivity|split; [reflexivity|lia]]]|].
  rewrite Hcnt, Z.eqb_refl. cbn [negb]. unfold add_and_reset_counts. cbn [c_sum c_cnt c_zb c_zt c_schema c_bn c_pos c_neg].
  assert (S0 : sorted_from ([] : bmap) 0) by exact I.
  pose proof (fun k => double_merge_get (c_pos (h_hot h)) [] 0 0 k S0) as Gp.
  destruct (double_merge (c_pos (h_hot h)) [] 0) as [hp bn1]. cbn [fst] in Gp.
  pose proof (fun k => double_merge_get (c_neg (h_hot h)) [] bn1 0 k S0) as Gn.
  destruct (double_merge (c_neg (h_hot h)) [] bn1) as [hn bn2]. cbn [fst] in Gn.
  unfold with_sets. split; [|split; [reflexivity|split; [exact Hzt|cbn [h_hot c_schema]; lia]]].
  assert (Hr3 : -3 <= c_schema (h_hot h) <= 8) by lia.
  constructor; cbn [h_hot h_cold h_n h_cfg c_schema c_zt]; try assumption; try lia.
  - constructor; cbn [h_hot h_cold h_n c_schema c_zt c_cnt]; try reflexivity; try lia.
    + constructor; cbn [c_sum c_cnt c_zb c_zt c_schema c_pos c_neg].
      * lia.
      * rewrite Hzt, Dz, Hz. lia.
      * intros k. destruct (Gp k) as [E _]. rewrite E. cbn [m_get]. rewrite Hzt, Hsch.
        rewrite (halved_counts goes_pos (c_zt (h_hot h)) (c_schema (h_hot h)) (c_pos (h_hot h)) G k
                   (fun v => goes_pos_nonzero _ v Hztp) Hr3 Wp Hp). lia.
      * intros k. destruct (Gn k) as [E _]. rewrite E. cbn [m_get]. rewrite Hzt, Hsch.
        rewrite (halved_counts goes_neg (c_zt (h_hot h)) (c_schema (h_hot h)) (c_neg (h_hot h)) G k
                   (fun v => goes_neg_nonzero _ v Hztp) Hr3 Wn Hn). lia.
      * apply (Gp 0).
      * apply (Gn 0).
      * rewrite Ds, Hs. apply fadd_pzero_sum.
    + constructor; cbn [c_sum c_cnt c_zb c_pos c_neg]; try reflexivity; try apply wf_nil; intros p [].
    + symmetry. exact Hzt.
  - rewrite Hzt. exact Hztp.
Qed.

(* ---- widening the zero bucket ---- *)
Lemma m_del_props : forall m lo k, sorted_from m lo ->
  sorted_from (fst (m_del m k)) lo /\ (forall p, In p (fst (m_del m k)) -> In p m).
Proof.
  induction m as [|[k0 v] r IH]; intros lo k Hs; [split; [exact I|intros p []]|].
  cbn [sorted_from] in Hs. destruct Hs as [H1 H2]. cbn [m_del]. destruct (Z.eqb_spec k k0).
  - cbn [fst]. split; [apply sorted_from_weaken with (k0 + 1); [exact H2|lia]|intros p Hp; right; exact Hp].
  - destruct (IH (k0 + 1) k H2) as [S I']. destruct (m_del r k) as [r' c]. cbn [fst] in *. split.
    + split; assumption.
    + intros p [<-|Hp]; [left; reflexivity|right; apply I'; exact Hp].
Qed.

Lemma widen_merge_spec sk : forall cm hm hzb hbn cbn lo lo' c' hm' hzb' hbn' cbn',
  sorted_from cm lo -> sorted_from hm lo' ->
  widen_merge sk cm hm hzb hbn cbn = (c', hm', hzb', hbn', cbn') ->
  (forall k, m_get hm' k = m_get hm k + (if Z.eqb k sk then 0 else m_get cm k)) /\
  hzb' = hzb + m_get cm sk /\
  (forall p, In p c' -> snd p = 0) /\ sorted_from c' lo /\ wf hm'.
Proof.
  induction cm as [|[k0 v] r IH]; intros hm hzb hbn cbn lo lo' c' hm' hzb' hbn' cbn' Hc Hh E.
  - cbn in E. inversion E. subst. cbn [m_get]. repeat split; try (intros; destruct (_ =? _); lia); try lia.
    + intros p [].
    + eexists; exact Hh.
  - cbn [sorted_from] in Hc. destruct Hc as [H1 H2]. cbn [widen_merge] in E.
    destruct (Z.eqb_spec k0 sk) as [->|Hne].
    + destruct (IH hm (hzb + v) hbn (u32_dec cbn) (sk + 1) lo' c' hm' hzb' hbn' cbn' H2 Hh E) as (A & B & C & D & F).
      repeat split; try assumption.
      * intros k. rewrite A. cbn [m_get]. destruct (Z.eqb_spec k sk); reflexivity.
      * rewrite B. cbn [m_get]. rewrite Z.eqb_refl. rewrite (m_get_below r (sk + 1) sk H2) by lia. lia.
      * apply sorted_from_weaken with (sk + 1); [exact D|lia].
    + pose proof (fun k => m_add_get hm lo' k0 v k Hh) as Ea. pose proof (m_add_sorted hm lo' k0 v Hh) as Es.
      destruct (m_add hm k0 v) as [hm1 cr]. cbn [fst] in Ea, Es.
      destruct (widen_merge sk r hm1 hzb (if cr then u32_inc hbn else hbn) cbn) as [[[[c1 h1] z1] b1] n1] eqn:E1.
      inversion E. subst.
      destruct (IH hm1 hzb _ cbn (k0 + 1) _ c1 hm' hzb' hbn' cbn' H2 Es E1) as (A & B & C & D & F).
      repeat split; try assumption.
      * intros k. rewrite A, Ea. cbn [m_get]. destruct (Z.eqb_spec k sk) as [Eks|Eks]; destruct (Z.eqb_spec k k0) as [Ek0|Ek0]; try lia.
        rewrite Ek0. rewrite (m_get_below r (k0 + 1) k0 H2) by lia. lia.
      * rewrite B. cbn [m_get]. destruct (Z.eqb_spec sk k0); [lia|reflexivity].
      * intros p [<-|Hp]; [reflexivity|apply C; exact Hp].
Qed.

Lemma cnt_sum3 (a b c d : f64 -> bool) G :
  (forall v, In v G -> d v = a v || b v || c v) ->
  (forall v, (a v && b v = false) /\ (a v && c v = false) /\ (b v && c v = false)) ->
  cnt d G = cnt a G + cnt b G + cnt c G.
Proof.
  intros H D. induction G as [|x G IH]; [reflexivity|]. rewrite !cnt_cons, IH by (intros v Hv; apply H; right; exact Hv).
  rewrite (H x (or_introl eq_refl)). destruct (D x) as (D1 & D2 & D3).
  destruct (a x), (b x), (c x); cbn [orb andb] in *; try discriminate; lia.
Qed.

Lemma goes_disjoint zt v k :
  (goes_zero zt v && (goes_pos zt v && k) = false) /\ (goes_zero zt v && (goes_neg zt v && k) = false) /\
  ((goes_pos zt v && k) && (goes_neg zt v && k) = false).
Proof.
  unfold goes_zero, goes_pos, goes_neg. destruct (is_nan v), (fgt v zt), (flt v (fneg zt)), k; repeat split; reflexivity.
Qed.

Lemma maybe_widen_inv h G : inv2 h G ->
  match maybe_widen h with
  | None => False
  | Some (h', false) => h' = h
  | Some (h', true) => h_cfg h' = h_cfg h /\ c_schema (h_hot h') = c_schema (h_hot h) /\
                       (widen_exact G (h_hot h) (h_hot h') = true -> inv2 h' G)
  end.
Proof.
  intros J. pose proof J as [[[Hc Hz Hp Hn Wp Wn Hs] [Dc Dz Ds Dp Dn DWp DWn] Hsch Hzt Hcnt] Hr Hztp Hcfg Hcz].
  unfold maybe_widen. destruct (fge (c_zt (h_hot h)) (g_max_zt (h_cfg h))); [reflexivity|].
  set (sk := widen_key (h_hot h)). destruct (sk =? max_int32); [reflexivity|].
  set (nzt := get_le sk (c_schema (h_hot h))). destruct (fgt nzt (g_max_zt (h_cfg h))); [reflexivity|].
  destruct DWp as [lop DWp]. destruct DWn as [lon DWn]. destruct Wp as [lp Wp]. destruct Wn as [ln Wn].
  destruct (m_del_props (c_neg (h_cold h)) lon sk DWn) as [Sn In_n].
  destruct (m_del (c_neg (h_cold h)) sk) as [neg1 ln1]. cbn [fst] in Sn, In_n.
  destruct (m_del_props (c_pos (h_cold h)) lop sk DWp) as [Sp In_p].
  destruct (m_del (c_pos (h_cold h)) sk) as [pos1 lp1]. cbn [fst] in Sp, In_p.
  rewrite Hcnt, Z.eqb_refl. cbn [negb]. unfold add_and_reset_counts. cbn [c_sum c_cnt c_zb c_zt c_schema c_bn c_pos c_neg].
  destruct (widen_merge sk (c_pos (h_hot h)) pos1 (c_zb (h_cold h) + c_zb (h_hot h))
              (if lp1 then u32_dec (if ln1 then u32_dec (c_bn (h_cold h)) else c_bn (h_cold h)) else if ln1 then u32_dec (c_bn (h_cold h)) else c_bn (h_cold h))
              (c_bn (h_hot h))) as [[[[cp hp] hzb1] hbn1] cbn1] eqn:E1.
  destruct (widen_merge_spec sk _ _ _ _ _ lp lop _ _ _ _ _ Wp Sp E1) as (A1 & B1 & C1 & D1 & F1).
  destruct (widen_merge sk (c_neg (h_hot h)) neg1 hzb1 hbn1 cbn1) as [[[[cn hn] hzb2] hbn2] cbn2] eqn:E2.
  destruct (widen_merge_spec sk _ _ _ _ _ ln lon _ _ _ _ _ Wn Sn E2) as (A2 & B2 & C2 & D2 & F2).
  unfold with_sets. cbn [h_cfg h_hot]. split; [reflexivity|]. split; [cbn [c_schema]; exact Hsch|]. intros Hex.
  unfold widen_exact in Hex. cbn [c_zt] in Hex. fold sk in Hex. apply andb_prop in Hex. destruct Hex as [Hnz Hall].
  rewrite forallb_forall in Hall.
  assert (Hv : forall v, In v G ->
     goes_zero nzt v = goes_zero (c_zt (h_hot h)) v || (goes_pos (c_zt (h_hot h)) v && (key_of (c_schema (h_hot h)) v =? sk))
                       || (goes_neg (c_zt (h_hot h)) v && (key_of (c_schema (h_hot h)) v =? sk)) /\
     goes_pos nzt v = goes_pos (c_zt (h_hot h)) v && negb (key_of (c_schema (h_hot h)) v =? sk) /\
     goes_neg nzt v = goes_neg (c_zt (h_hot h)) v && negb (key_of (c_schema (h_hot h)) v =? sk)).
  { intros v Hin. specialize (Hall v Hin). cbv beta zeta in Hall.
    apply andb_prop in Hall. destruct Hall as [Hall H3]. apply andb_prop in Hall. destruct Hall as [H1 H2].
    apply eqb_prop in H1. apply eqb_prop in H2. apply eqb_prop in H3. repeat split; assumption. }
  assert (Zp : forall k, m_get pos1 k = 0) by (intros k; apply m_get_all_zero; intros p Hp'; apply Dp, In_p, Hp').
  assert (Zn : forall k, m_get neg1 k = 0) by (intros k; apply m_get_all_zero; intros p Hp'; apply Dn, In_n, Hp').
  constructor; cbn [h_hot h_cold h_n h_cfg c_schema c_zt]; try assumption; try lia.
  constructor; cbn [h_hot h_cold h_n c_schema c_zt c_cnt]; try reflexivity; try lia.
  - constructor; cbn [c_sum c_cnt c_zb c_zt c_schema c_pos c_neg].
    + lia.
    + rewrite B2, B1, Dz, Hz, Hp, Hn.
      rewrite (cnt_sum3 (goes_zero (c_zt (h_hot h)))
                 (fun v => goes_pos (c_zt (h_hot h)) v && (key_of (c_schema (h_hot h)) v =? sk))
                 (fun v => goes_neg (c_zt (h_hot h)) v && (key_of (c_schema (h_hot h)) v =? sk))
                 (goes_zero nzt) G).
      * lia.
      * intros v Hin. apply (Hv v Hin).
      * intros v. apply goes_disjoint.
    + intros k. rewrite A1, Zp, Hsch. destruct (Z.eqb_spec k sk) as [->|Hne].
      * symmetry. rewrite Z.add_0_l. apply cnt_false. intros v Hin. destruct (Hv v Hin) as (_ & -> & _).
        destruct (key_of (c_schema (h_hot h)) v =? sk); cbn; rewrite ?andb_false_r; reflexivity.
      * rewrite Hp, Z.add_0_l. apply cnt_ext. intros v Hin. destruct (Hv v Hin) as (_ & -> & _).
        destruct (Z.eqb_spec (key_of (c_schema (h_hot h)) v) k) as [->|]; [|rewrite !andb_false_r; reflexivity].
        destruct (Z.eqb_spec k sk); [lia|]. cbn [negb]. rewrite !andb_true_r. reflexivity.
    + intros k. rewrite A2, Zn, Hsch. destruct (Z.eqb_spec k sk) as [->|Hne].
      * symmetry. rewrite Z.add_0_l. apply cnt_false. intros v Hin. destruct (Hv v Hin) as (_ & _ & ->).
        destruct (key_of (c_schema (h_hot h)) v =? sk); cbn; rewrite ?andb_false_r; reflexivity.
      * rewrite Hn, Z.add_0_l. apply cnt_ext. intros v Hin. destruct (Hv v Hin) as (_ & _ & ->).
        destruct (Z.eqb_spec (key_of (c_schema (h_hot h)) v) k) as [->|]; [|rewrite !andb_false_r; reflexivity].
        destruct (Z.eqb_spec k sk); [lia|]. cbn [negb]. rewrite !andb_true_r. reflexivity.
    + exact F1.
    + exact F2.
    + rewrite Ds, Hs. apply fadd_pzero_sum.
  - constructor; cbn [c_sum c_cnt c_zb c_pos c_neg]; try reflexivity; try assumption.
    + eexists; exact D1.
    + eexists; exact D2.
Qed.

(* ---- one Observe, one operation, whole runs ---- *)
Definition after_kind (k : step_kind) (h h' : hist) (G : list f64) (v : f64) (before : counts) : Prop :=
  match k with
  | SReset => inv2 h' [v]
  | SWiden => widen_exact G before (h_hot h') = true -> inv2 h' G
  | _ => inv2 h' G
  end.

Lemma limit_buckets_inv h G v : inv2 h G ->
  match limit_buckets h v with
  | None => False
  | Some (h', k) => h_cfg h' = h_cfg h /\ after_kind k h h' G v (h_hot h) /\
                    (k <> SReset -> c_schema (h_hot h') <= c_schema (h_hot h))
  end.
Proof.
  intros J. unfold limit_buckets.
  destruct (g_max_buckets (h_cfg h) =? 0); [split; [reflexivity|split; [exact J|lia]]|].
  destruct (c_bn (h_hot h) <=? g_max_buckets (h_cfg h)); [split; [reflexivity|split; [exact J|lia]]|].
  pose proof (maybe_reset_inv h G v J) as R. destruct (maybe_reset h v) as [[h1 [|]]|]; [|subst h1|contradiction].
  - destruct R as [R1 R2]. split; [exact R2|split; [exact R1|congruence]].
  - set (h2 := if (0 <? g_min_reset (h_cfg h)) && negb (h_sched h)
               then mkHist (h_cfg h) (h_hot h) (h_cold h) (h_n h) (h_last h) true (h_clock h)
                      (h_timers h ++ [g_min_reset (h_cfg h) - (h_clock h - h_last h)]) (h_ex h) else h).
    assert (E2 : h_hot h2 = h_hot h /\ h_cold h2 = h_cold h /\ h_n h2 = h_n h /\ h_cfg h2 = h_cfg h).
    { unfold h2. destruct ((0 <? g_min_reset (h_cfg h)) && negb (h_sched h)); repeat split. }
    destruct E2 as (Eh & Ec & En & Eg).
    assert (J2 : inv2 h2 G) by (apply (inv2_ext h h2 G Eh Ec En Eg J)).
    pose proof (maybe_widen_inv h2 G J2) as W. destruct (maybe_widen h2) as [[h3 [|]]|]; [|subst h3|contradiction].
    + destruct W as (W1 & Ws & W2). split; [congruence|]. split; [cbn [after_kind]; rewrite <- Eh; exact W2|].
      intros _. rewrite Ws, Eh. lia.
    + pose proof (double_width_inv h2 G J2) as D. destruct (double_width h2) as [h4|]; [|contradiction].
      destruct D as (D1 & D2 & _ & D4). split; [congruence|]. split; [destruct (c_schema (h_cold h2) =? -4); exact D1|].
      intros _. rewrite <- Eh. exact D4.
Qed.

Lemma observe_k_inv h G v : inv2 h G ->
  match observe_k h v with
  | None => False
  | Some (h', k) => h_cfg h' = h_cfg h /\ after_kind k h h' (G ++ [v]) v (c_observe (h_hot h) v) /\
                    (k <> SReset -> c_schema (h_hot h') <= c_schema (h_hot h))
  end.
Proof.
  intros J. unfold observe_k. pose proof (inv2_observe_raw h G v J) as J1.
  destruct (c_observe_fields (h_hot h) v) as (F1 & _ & _).
  set (h1 := with_sets h (c_observe (h_hot h) v) (h_cold h) (h_n h + 1)) in *.
  destruct (is_nan v); [split; [reflexivity|split; [exact J1|intros _; cbn [h1 with_sets h_hot]; lia]]|].
  pose proof (limit_buckets_inv h1 (G ++ [v]) v J1) as L.
  destruct (limit_buckets h1 v) as [[h' k]|]; [|contradiction].
  destruct L as (L1 & L2 & L3). split; [rewrite L1; reflexivity|]. split; [destruct k; exact L2|].
  intros Hk. specialize (L3 Hk). cbn [h1 with_sets h_hot] in L3. lia.
Qed.

(* what a Write exposes: exact accounting, schema within [-4, configured schema] (a subset of
   [-4, 8]), a non-negative zero threshold *)
Definition out_ok2 (g : config) (G : list f64) (w : wout) : Prop :=
  out_ok G w /\ -4 <= w_schema w <= 8 /\ fle pzero (w_zt w) = true.

Definition step_post (h : hist) (G : list f64) (o : op) : Prop :=
  match step h o with
  | None => False
  | Some (h', None) => h_cfg h' = h_cfg h /\ (step_exact h G o = true -> inv2 h' (ghost_step h G o))
  | Some (h', Some w) => h_cfg h' = h_cfg h /\ inv2 h' G /\ out_ok2 (h_cfg h) G w
  end.

Lemma observe_post h G v (f : hist -> hist) :
  (forall x, h_hot (f x) = h_hot x /\ h_cold (f x) = h_cold x /\ h_n (f x) = h_n x /\ h_cfg (f x) = h_cfg x) ->
  inv2 h G ->
  match option_map (fun h' => (f h', @None wout)) (observe h v) with
  | None => False
  | Some (h', None) =>
      h_cfg h' = h_cfg h /\
      (match observe_k h v with
       | Some (h'', SWiden) => widen_exact (G ++ [v]) (c_observe (h_hot h) v) (h_hot h'')
       | _ => true end = true ->
       inv2 h' (match observe_k h v with Some (_, SReset) => [v] | _ => G ++ [v] end))
  | Some (_, Some _) => False
  end.
Proof.
  intros Hf J. unfold observe. pose proof (observe_k_inv h G v J) as O.
  destruct (observe_k h v) as [[h' k]|]; [|contradiction]. cbn [option_map fst].
  destruct O as (O1 & O2 & _). destruct (Hf h') as (F1 & F2 & F3 & F4). split; [congruence|].
  intros Hex. apply (inv2_ext h' (f h') _ F1 F2 F3 F4).
  destruct k; cbn [after_kind] in O2; try exact O2. apply O2. exact Hex.
Qed.

Lemma step_inv h G o : inv2 h G -> step_post h G o.
Proof.
  intros J. unfold step_post. destruct o as [v|v orc| |d|].
  - cbn [step ghost_step step_exact].
    pose proof (observe_post h G v (fun x => x) (fun x => conj eq_refl (conj eq_refl (conj eq_refl eq_refl))) J) as P.
    destruct (option_map (fun h' => (h', None)) (observe h v)) as [[h' [w|]]|]; [contradiction|exact P|contradiction].
  - cbn [step ghost_step step_exact].
    assert (Hf : forall x, h_hot (update_exemplar x v orc) = h_hot x /\ h_cold (update_exemplar x v orc) = h_cold x /\
                            h_n (update_exemplar x v orc) = h_n x /\ h_cfg (update_exemplar x v orc) = h_cfg x).
    { intros x. unfold update_exemplar. destruct (is_nan v); repeat split. }
    pose proof (observe_post h G v (fun x => update_exemplar x v orc) Hf J) as P.
    destruct (option_map (fun h' => (update_exemplar h' v orc, None)) (observe h v)) as [[h' [w|]]|]; [contradiction|exact P|contradiction].
  - cbn [step]. destruct J as [J1 J2 J3 J4 J5].
    destruct (write_inv h G J1) as (h' & w & E & I' & O & Esw & Ezw & _ & Eg & _ & _ & _ & Es & Ez).
    rewrite E. cbn [option_map fst snd]. split; [exact Eg|]. split; [|split; [exact O|split; [rewrite Esw; exact J2|rewrite Ezw; exact J3]]].
    constructor; [exact I'|rewrite Es; exact J2|rewrite Ez; exact J3|rewrite Eg; exact J4|rewrite Eg; exact J5].
  - cbn [step ghost_step step_exact]. split; [reflexivity|]. intros _.
    apply (inv2_ext h _ G); try reflexivity. exact J.
  - cbn [step ghost_step step_exact]. destruct (h_sched h).
    + pose proof (timer_reset_inv h G J) as T. destruct (timer_reset h) as [h'|]; [|contradiction].
      cbn [option_map]. destruct T as [T1 T2]. split; [exact T2|]. intros _. exact T1.
    + split; [reflexivity|]. intros _. exact J.
Qed.

Definition outs_ok (g : config) (l : list (wout * list f64)) : Prop := Forall (fun p => out_ok2 g (snd p) (fst p)) l.

(* native_accounting: for every configuration and every operation sequence the sequential model
   never hangs, and every Write issued before the first inexact widening (if any) exposes exactly
   the observations made since the last reset *)
Lemma run_ghost_ok : forall ops h G, inv2 h G ->
  match run_ghost h G ops with
  | None => False
  | Some (l, _) => outs_ok (h_cfg h) l
  end.
Proof.
  induction ops as [|o r IH]; intros h G J; [constructor|].
  cbn [run_ghost]. pose proof (step_inv h G o J) as P. unfold step_post in P.
  destruct (step h o) as [[h' [w|]]|]; [| |contradiction].
  - destruct P as (Eg & J' & O). specialize (IH h' G J'). rewrite Eg in IH.
    destruct (run_ghost h' G r) as [[l b]|]; [|contradiction]. constructor; [exact O|exact IH].
  - destruct P as (Eg & P). destruct (step_exact h G o); [|constructor].
    rewrite <- Eg. apply IH. apply P. reflexivity.
Qed.

Lemma native_accounting_lemma g ops : valid_config g ->
  exists l b, run_ghost (new_hist g) [] ops = Some (l, b) /\ outs_ok g l.
Proof.
  intros Hv. pose proof (run_ghost_ok ops (new_hist g) [] (inv2_new g Hv)) as H.
  destruct (run_ghost (new_hist g) [] ops) as [[l b]|]; [|contradiction]. exists l, b. split; [reflexivity|exact H].
Qed.

(* the ghost run is the run: same outputs *)
Lemma run_ghost_outputs : forall ops h G l, run_ghost h G ops = Some (l, true) -> run_ops h ops = Some (map fst l).
Proof.
  induction ops as [|o r IH]; intros h G l E; [cbn in E; inversion E; reflexivity|].
  cbn [run_ghost run_ops] in *. destruct (step h o) as [[h' [w|]]|]; [| |discriminate].
  - destruct (run_ghost h' G r) as [[l' b]|] eqn:E'; [|discriminate]. inversion E. subst.
    rewrite (IH h' G l' E'). reflexivity.
  - destruct (step_exact h G o); [|discriminate]. apply (IH h' _ l E).
Qed.

(* without a bucket limit no strategy ever fires: the statement is unconditional *)
Lemma limit_none h v : g_max_buckets (h_cfg h) = 0 ->
  match observe_k h v with Some (h', SWiden) => False | _ => True end.
Proof.
  intros H0. unfold observe_k. destruct (is_nan v); [exact I|]. unfold limit_buckets. cbn [with_sets h_cfg].
  rewrite H0. exact I.
Qed.

Lemma run_ghost_nolimit : forall ops h G, inv2 h G -> g_max_buckets (h_cfg h) = 0 ->
  exists l, run_ghost h G ops = Some (l, true) /\ outs_ok (h_cfg h) l.
Proof.
  induction ops as [|o r IH]; intros h G J H0; [exists []; split; [reflexivity|constructor]|].
  cbn [run_ghost]. pose proof (step_inv h G o J) as P. unfold step_post in P.
  destruct (step h o) as [[h' [w|]]|]; [| |contradiction].
  - destruct P as (Eg & J' & O). destruct (IH h' G J' ltac:(rewrite Eg; exact H0)) as (l & E & Ol).
    rewrite E. exists ((w, G) :: l). split; [reflexivity|]. rewrite Eg in Ol. constructor; assumption.
  - destruct P as (Eg & P).
    assert (Ex : step_exact h G o = true).
    { destruct o as [v|v orc| |d|]; try reflexivity; cbn [step_exact];
        pose proof (limit_none h v H0) as L; destruct (observe_k h v) as [[h'' []]|]; try reflexivity; contradiction. }
    rewrite Ex. rewrite <- Eg. apply IH; [apply P; exact Ex|rewrite Eg; exact H0].
Qed.

Lemma native_accounting_nolimit_lemma g ops : valid_config g -> g_max_buckets g = 0 ->
  exists l, run_ghost (new_hist g) [] ops = Some (l, true) /\ outs_ok g l /\ run g ops = Some (map fst l).
Proof.
  intros Hv H0. destruct (run_ghost_nolimit ops (new_hist g) [] (inv2_new g Hv) H0) as (l & E & O).
  exists l. split; [exact E|]. split; [exact O|]. apply (run_ghost_outputs ops _ [] l E).
Qed.

(* ---- limit_step_taken ---- *)
(* If, after a non-NaN observation has been counted, the hot bucket number exceeds the configured
   limit, that very Observe has reset, widened or halved -- or found the resolution minimal. *)
Lemma limit_step_taken_lemma h v h' k : is_nan v = false -> observe_k h v = Some (h', k) ->
  0 < g_max_buckets (h_cfg h) ->
  g_max_buckets (h_cfg h) < c_bn (c_observe (h_hot h) v) ->
  k <> SNone.
Proof.
  intros Hn E Hmax Hbn. unfold observe_k in E. rewrite Hn in E. unfold limit_buckets in E.
  cbn [with_sets h_cfg h_hot] in E.
  destruct (Z.eqb_spec (g_max_buckets (h_cfg h)) 0); [lia|].
  destruct (Z.leb_spec (c_bn (c_observe (h_hot h) v)) (g_max_buckets (h_cfg h))); [lia|].
  destruct (maybe_reset _ v) as [[h1 [|]]|]; [inversion E; discriminate| |discriminate].
  match type of E with context [maybe_widen ?x] => destruct (maybe_widen x) as [[h3 [|]]|] end;
    [inversion E; discriminate| |discriminate].
  destruct (double_width h3) as [h4|]; [|discriminate]. inversion E.
  destruct (c_schema (h_cold h3) =? -4); discriminate.
Qed.

(* ... and "minimal" means what it says: the schema is -4 and nothing was changed *)
Lemma limit_minimal_lemma h v h' : observe_k h v = Some (h', SMinimal) -> c_schema (h_cold h') = -4.
Proof.
  intros E. unfold observe_k in E. destruct (is_nan v); [discriminate|]. unfold limit_buckets in E.
  destruct (_ =? 0) in E; [discriminate|]. destruct (_ <=? _) in E; [discriminate|].
  destruct (maybe_reset _ v) as [[h1 [|]]|]; [discriminate| |discriminate].
  match type of E with context [maybe_widen ?x] => destruct (maybe_widen x) as [[h3 [|]]|] end;
    [discriminate| |discriminate].
  destruct (double_width h3) as [h4|] eqn:D; [|discriminate].
  destruct (Z.eqb_spec (c_schema (h_cold h3)) (-4)) as [E4|E4]; [|discriminate].
  unfold double_width in D. rewrite E4 in D. cbn in D. inversion D. subst h4. inversion E. subst h'. exact E4.
Qed.

(* a reset restarts from the configured schema and zero threshold and retains only the
   observation that triggered it (the timer-driven reset retains nothing) *)
Lemma reset_restarts_lemma h G v h' : inv2 h G -> observe_k h v = Some (h', SReset) ->
  inv2 h' [v] /\ c_schema (h_hot h') = g_schema (h_cfg h) /\ c_zt (h_hot h') = init_zt (h_cfg h) /\
  c_cnt (h_hot h') = 1 /\ h_last h' = h_clock h.
Proof.
  intros J E. pose proof (observe_k_inv h G v J) as O. rewrite E in O. destruct O as (_ & O & _).
  cbn [after_kind] in O. split; [exact O|].
  unfold observe_k in E. destruct (is_nan v); [discriminate|]. unfold limit_buckets in E.
  destruct (_ =? 0) in E; [discriminate|]. destruct (_ <=? _) in E; [discriminate|].
  unfold maybe_reset in E. cbn [with_sets h_cfg h_sched h_clock h_last h_n h_hot h_timers h_ex] in E.
  destruct (_ || _ || _) in E.
  - match type of E with context [maybe_widen ?x] => destruct (maybe_widen x) as [[h3 [|]]|] end; try discriminate.
    destruct (double_width h3); [|discriminate]. inversion E. destruct (_ =? -4) in *; discriminate.
  - destruct (negb _) in E; [discriminate|]. inversion E. subst h'. cbn [h_hot h_last].
    destruct (c_observe_fields (reset_counts (h_cfg h)) v) as (F1 & F2 & F3). rewrite F1, F2, F3. repeat split.
Qed.

Lemma timer_restarts_lemma h G h' : inv2 h G -> timer_reset h = Some h' ->
  inv2 h' [] /\ h_hot h' = reset_counts (h_cfg h) /\ h_last h' = h_clock h /\ h_sched h' = false.
Proof.
  intros J E. pose proof (timer_reset_inv h G J) as T. rewrite E in T. destruct T as [T _]. split; [exact T|].
  unfold timer_reset in E. destruct (negb _) in E; [discriminate|]. inversion E. repeat split.
Qed.


(* ---- concrete runs: the hypotheses are satisfiable, and the known defect is real ---- *)
Definition expo_of_wout (w : wout) : option expo :=
  match decode (w_pspans w) (w_pdeltas w), decode (w_nspans w) (w_ndeltas w) with
  | Some pos, Some neg => Some (mkExpo (w_schema w) (w_zt w) (w_zc w) (w_count w) (w_sum w) (w_created w) pos neg)
  | _, _ => None
  end.

(* schema 2, default zero threshold, at most 2 buckets, zero bucket may grow to 4, reset after 1000 ns *)
Definition ex_cfg : config := mkConfig 2 pzero 2 (of_bits 0x4010000000000000) 1000 3 0.
Definition ex_ops : list op :=
  [OObs (of_bits 0x3FF8000000000000); OObs (of_bits 0x4008000000000000); OObsEx (of_bits 0x4018000000000000) 0; OWrite;
   OObs (of_bits 0x4028000000000000); OObs (of_bits 0xC028000000000000); OObs fnan; OWrite; OAdvance 2000;
   OObs (of_bits 0x4059000000000000); OObs (of_bits 0x3FB999999999999A); OWrite; OFire; OWrite].

(* this run widens the zero bucket (exactly), halves the resolution three times, schedules and fires
   the reset timer; the four expositions (schema, count, created) are as listed and every one of them
   satisfies the SPECIFICATION's accounting_check against the ghost G *)
Lemma accounting_example_lemma :
  match run_ghost (new_hist ex_cfg) [] ex_ops with
  | Some (l, true) =>
      Some (map (fun p => (w_schema (fst p), w_count (fst p), w_created (fst p))) l,
            forallb (fun p => match expo_of_wout (fst p) with Some x => accounting_check (snd p) x | None => false end) l)
  | _ => None
  end = Some ([(2, 3, 0); (1, 6, 0); (-1, 8, 0); (2, 0, 2000)], true).
Proof. vm_compute. reflexivity. Qed.

(* known finding subnormal-widen: schema 1, zero threshold 0, one bucket allowed, zero bucket may grow to
   1e-300; observing 5*2^-1074 and 6*2^-1074 widens the zero bucket to getLe(-2143, 1), which ROUNDS up to
   6*2^-1074: the exposition says zero threshold 6*2^-1074 (bits 6), zero count 1, and the observation
   6*2^-1074 (<= the threshold) sits in regular bucket -2142.  The widening is not exact (the ghost
   run stops with flag false) and the specification's accounting_check rejects the exposition. *)
Definition kf_cfg : config := mkConfig 1 (of_bits 0xBFF0000000000000) 1 (of_bits 0x01A56E1FC2F8F359) 0 (-1) 0.
Definition kf_obs : list f64 := [of_bits 5; of_bits 6].
Definition kf_ops : list op := [OObs (of_bits 5); OObs (of_bits 6); OWrite].

Lemma widen_subnormal_refuted_lemma :
  valid_config kf_cfg /\
  match run_ghost (new_hist kf_cfg) [] kf_ops with Some (l, b) => Some (length l, b) | None => None end = Some (0%nat, false) /\
  option_map (map (fun w => (to_bits (w_zt w), w_zc w, decode (w_pspans w) (w_pdeltas w),
                             match expo_of_wout w with Some x => Some (accounting_check kf_obs x) | None => None end)))
             (run kf_cfg kf_ops)
  = Some [(6, 1, Some [(-2142, 1)], Some false)].
Proof.
  split; [unfold valid_config; cbn; lia|]. split; vm_compute; reflexivity.
Qed.

(* ====================================================================== *)
(* D. native exemplars (for every oracle value and every TTL)              *)
(* ====================================================================== *)
Lemma in_firstn {A} (x : A) : forall n l, In x (firstn n l) -> In x l.
Proof.
  induction n as [|n IH]; intros l H; [destruct H|]. destruct l as [|a l]; [destruct H|].
  cbn in H. destruct H as [->|H]; [left; reflexivity|right; apply IH; exact H].
Qed.
Lemma in_skipn {A} (x : A) : forall n l, In x (skipn n l) -> In x l.
Proof.
  induction n as [|n IH]; intros l H; [exact H|]. destruct l as [|a l]; [destruct H|]. right. apply IH. exact H.
Qed.
Lemma in_take {A} (x : A) n l : In x (take n l) -> In x l. Proof. apply in_firstn. Qed.
Lemma in_drop {A} (x : A) n l : In x (drop n l) -> In x l. Proof. apply in_skipn. Qed.

Lemma zlen_take {A} n (l : list A) : 0 <= n <= zlen l -> zlen (take n l) = n.
Proof. unfold zlen, take. intros H. rewrite firstn_length. lia. Qed.
Lemma zlen_drop {A} n (l : list A) : 0 <= n <= zlen l -> zlen (drop n l) = zlen l - n.
Proof. unfold zlen, drop. intros H. rewrite skipn_length. lia. Qed.
Lemma zlen_nonneg {A} (l : list A) : 0 <= zlen l. Proof. unfold zlen. lia. Qed.
Lemma zlen1 {A} (x : A) : zlen [x] = 1. Proof. reflexivity. Qed.

Lemma first_idx_range p : forall l i0, i0 <= first_idx p l i0 <= i0 + zlen l.
Proof.
  induction l as [|x r IH]; intros i0; cbn [first_idx]; [unfold zlen; cbn; lia|].
  replace (zlen (x :: r)) with (zlen r + 1) by (unfold zlen; cbn [length]; lia).
  pose proof (zlen_nonneg r). destruct (p x); [lia|]. specialize (IH (i0 + 1)). lia.
Qed.

Lemma oldest_idx_range : forall l i ot otIdx, (otIdx = -1 \/ 0 <= otIdx < i) -> 0 <= i ->
  let r := snd (oldest_idx l i ot otIdx) in (r = -1 /\ l = [] /\ otIdx = -1) \/ 0 <= r < i + zlen l.
Proof.
  induction l as [|x r IH]; intros i ot otIdx H Hi; cbn [oldest_idx snd].
  - unfold zlen. cbn. destruct H as [->|H]; [left; repeat split|right; lia].
  - replace (zlen (x :: r)) with (zlen r + 1) by (unfold zlen; cbn [length]; lia).
    assert (A1 : i = -1 \/ 0 <= i < i + 1) by lia. assert (A2 : 0 <= i + 1) by lia.
    destruct (Z.eqb_spec otIdx (-1)) as [Em|Em]; cbn [orb].
    + destruct (IH (i + 1) (snd x) i A1 A2) as [(E & _ & E2)|E]; [lia|right; lia].
    + assert (H' : otIdx = -1 \/ 0 <= otIdx < i + 1) by (destruct H; [contradiction|right; lia]).
      destruct (snd x <? ot).
      * destruct (IH (i + 1) (snd x) i A1 A2) as [(E & _ & E2)|E]; [lia|right; lia].
      * destruct (IH (i + 1) ot otIdx H' A2) as [(E & _ & E2)|E]; [lia|right; lia].
Qed.

Lemma zlen_replace_ex l r n e : 0 <= r < zlen l -> 0 <= n <= zlen l -> zlen (replace_ex l r n e) = zlen l.
Proof.
  intros Hr Hn. unfold replace_ex. destruct (Z.eqb_spec r n) as [->|Hne].
  - rewrite !zlen_app, zlen_take, zlen_drop, zlen1 by lia. lia.
  - destruct (Z.ltb_spec r n).
    + rewrite !zlen_app, zlen_take by lia. rewrite zlen_drop by (rewrite zlen_take by lia; lia).
      rewrite zlen_take, zlen_drop, zlen1 by lia. lia.
    + rewrite !zlen_app, zlen_take by lia. rewrite (zlen_drop n (take r l)) by (rewrite zlen_take by lia; lia).
      rewrite zlen_take, zlen_drop, zlen1 by lia. lia.
Qed.

Lemma in_replace_ex l r n e x : In x (replace_ex l r n e) -> x = e \/ In x l.
Proof.
  unfold replace_ex. intros H.
  destruct (r =? n); [|destruct (r <? n)]; repeat (apply in_app_or in H; destruct H as [H|H]);
    try (destruct H as [<-|[]]; left; reflexivity);
    right; repeat (first [apply in_take in H | apply in_drop in H]); exact H.
Qed.

Lemma replace_ex_has l r n e : In e (replace_ex l r n e).
Proof.
  unfold replace_ex. destruct (r =? n); [|destruct (r <? n)]; repeat (apply in_or_app; first [left; left; reflexivity|right]);
    try (left; reflexivity).
Qed.

Lemma choose_ridx_range l n o : 2 <= zlen l -> 0 <= n <= zlen l -> 0 <= choose_ridx l n o < zlen l.
Proof.
  intros Hl Hn. unfold choose_ridx.
  set (p := if (1 <=? o / 4) && (o / 4 <? zlen l) then o / 4 else 1).
  assert (Hp : 1 <= p < zlen l) by (unfold p; destruct (Z.leb_spec 1 (o / 4)), (Z.ltb_spec (o / 4) (zlen l)); cbn; lia).
  clearbody p.
  assert (Ho : 0 <= older_of_pair l p < zlen l) by (unfold older_of_pair; destruct (snd (nth_ex l p) <? snd (nth_ex l (p - 1))); lia).
  destruct (Z.ltb_spec n (zlen l)), ((o mod 2) =? 1); cbn [andb]; try lia;
    destruct (Z.ltb_spec 0 n), ((o / 2) mod 2 =? 1); cbn [andb]; lia.
Qed.

(* exemplars_bounded: never more than the configured number (10 if the option is 0) *)
Lemma exemplars_bounded_lemma g l e o : zlen l <= ex_cap g -> zlen (add_exemplar g l e o) <= ex_cap g.
Proof.
  intros H. unfold add_exemplar. destruct (ex_disabled g) eqn:Hd; [exact H|].
  assert (Hcap : 1 <= ex_cap g).
  { unfold ex_disabled in Hd. unfold ex_cap. destruct (Z.eqb_spec (g_ex_max g) 0); [lia|]. destruct (Z.ltb_spec (g_ex_max g) 0); [discriminate|lia]. }
  destruct (Z.ltb_spec (zlen l) (ex_cap g)) as [Hlt|Hge].
  - pose proof (first_idx_range (fun x => flt (fst e) (fst x)) l 0) as R.
    rewrite !zlen_app, zlen_take, zlen_drop, zlen1 by lia. lia.
  - destruct (Z.eqb_spec (zlen l) 1) as [E1|E1]; [rewrite zlen1; lia|].
    pose proof (oldest_idx_range l 0 0 (-1) (or_introl eq_refl) ltac:(lia)) as O. cbv zeta in O.
    destruct (oldest_idx l 0 0 (-1)) as [ot otIdx]. cbn [snd] in O.
    pose proof (first_idx_range (fun x => fle (fst e) (fst x)) l 0) as R.
    pose proof (zlen_nonneg l) as Hl0.
    destruct (Z.eq_dec (zlen l) 0) as [E0|E0].
    + lia.
    + assert (Hl2 : 2 <= zlen l) by lia.
      rewrite zlen_replace_ex; [lia| |lia].
      destruct (negb (otIdx =? -1) && (ex_ttl g <? snd e - ot)).
      * destruct O as [(_ & -> & _)|O]; [unfold zlen in E0; cbn in E0; lia|lia].
      * apply choose_ridx_range; lia.
Qed.

(* exemplars_from_observations: whatever is kept was held before or is the new one *)
Lemma exemplars_from_lemma g l e o x : In x (add_exemplar g l e o) -> x = e \/ In x l.
Proof.
  unfold add_exemplar. destruct (ex_disabled g); [right; assumption|].
  destruct (zlen l <? ex_cap g).
  - intros H. apply in_app_or in H. destruct H as [H|H]; [right; apply in_take in H; exact H|].
    apply in_app_or in H. destruct H as [[<-|[]]|H]; [left; reflexivity|right; apply in_drop in H; exact H].
  - destruct (zlen l =? 1); [intros [<-|[]]; left; reflexivity|].
    destruct (oldest_idx l 0 0 (-1)) as [ot otIdx]. apply in_replace_ex.
Qed.

(* exemplars_contain_latest: unless switched off, the newest exemplar is always kept *)
Lemma exemplars_latest_lemma g l e o : ex_disabled g = false -> In e (add_exemplar g l e o).
Proof.
  intros Hd. unfold add_exemplar. rewrite Hd. destruct (zlen l <? ex_cap g).
  - apply in_or_app. right. left. reflexivity.
  - destruct (zlen l =? 1); [left; reflexivity|].
    destruct (oldest_idx l 0 0 (-1)) as [ot otIdx]. apply replace_ex_has.
Qed.

(* switched off by a negative maximum: nothing is ever held or exposed *)
Lemma exemplars_disabled_lemma g l e o : g_ex_max g < 0 -> add_exemplar g l e o = l.
Proof. intros H. unfold add_exemplar, ex_disabled. destruct (Z.ltb_spec (g_ex_max g) 0); [reflexivity|lia]. Qed.
