(* Proofs/C04_law.v -- C04, the key law with the specification's exact dyadic boundaries:
   for every schema in [-4,8] and every non-NaN v <> 0 the bucket key_of computes is the bucket the
   specification's in_bucket demands: B(k-1) < |v| <= B(k), +-Inf after MaxFloat64's bucket. *)
From Coq Require Import ZArith List Bool Lia Reals Lra ZifyBool ZifyNat.
From Flocq Require Import Core.Core IEEE754.BinarySingleNaN.
From Verif Require Import Base.F64 Gen.Gen_Bounds Model.ClassicHist Model.NativeHist
     Proofs.F64_order Proofs.C03_proofs Proofs.C04_keys.
Import ListNotations.
Open Scope Z_scope.

(* ---- exact dyadics ---- *)
Definition dy_val (a : dy) : R := (IZR (fst a) * bpow radix2 (snd a))%R.

Lemma IZR_pow2 k : 0 <= k -> IZR (2 ^ k) = bpow radix2 k.
Proof. intros H. rewrite <- (IZR_Zpower radix2 k H). reflexivity. Qed.

Lemma log2_bounds m : 0 < m -> (bpow radix2 (Z.log2 m) <= IZR m < bpow radix2 (Z.log2 m + 1))%R.
Proof.
  intros H. destruct (Z.log2_spec m H) as [H1 H2]. pose proof (Z.log2_nonneg m) as H0.
  rewrite <- !IZR_pow2 by lia. split; [apply IZR_le; exact H1|apply IZR_lt; replace (Z.log2 m + 1) with (Z.succ (Z.log2 m)) by lia; exact H2].
Qed.

Lemma dy_val_bounds m e : 0 < m ->
  (bpow radix2 (Z.log2 m + e) <= dy_val (m, e) < bpow radix2 (Z.log2 m + e + 1))%R.
Proof.
  intros H. destruct (log2_bounds m H) as [H1 H2]. unfold dy_val. cbn [fst snd].
  pose proof (bpow_gt_0 radix2 e) as He.
  replace (Z.log2 m + e + 1) with (Z.log2 m + 1 + e) by ring. rewrite (bpow_plus radix2 (Z.log2 m) e), (bpow_plus radix2 (Z.log2 m + 1) e). split.
  - apply Rmult_le_compat_r; lra.
  - apply Rmult_lt_compat_r; lra.
Qed.

Lemma dy_val_shift m e e0 : e0 <= e -> dy_val (m, e) = (IZR (Z.shiftl m (e - e0)) * bpow radix2 e0)%R.
Proof.
  intros H. unfold dy_val. cbn [fst snd]. rewrite Z.shiftl_mul_pow2 by lia. rewrite mult_IZR, IZR_pow2 by lia.
  rewrite Rmult_assoc, <- bpow_plus. f_equal. f_equal. lia.
Qed.

Lemma dy_cmp_correct a b : 0 < fst a -> 0 < fst b -> dy_cmp a b = Rcompare (dy_val a) (dy_val b).
Proof.
  destruct a as [ma ea], b as [mb eb]. cbn [fst]. intros Ha Hb. unfold dy_cmp.
  destruct (dy_val_bounds ma ea Ha) as [A1 A2]. destruct (dy_val_bounds mb eb Hb) as [B1 B2].
  destruct (Z.ltb_spec (Z.log2 ma + ea) (Z.log2 mb + eb)) as [L|L].
  - symmetry. apply Rcompare_Lt.
    assert (bpow radix2 (Z.log2 ma + ea + 1) <= bpow radix2 (Z.log2 mb + eb))%R by (apply bpow_le; lia). lra.
  - destruct (Z.ltb_spec (Z.log2 mb + eb) (Z.log2 ma + ea)) as [L'|L'].
    + symmetry. apply Rcompare_Gt.
      assert (bpow radix2 (Z.log2 mb + eb + 1) <= bpow radix2 (Z.log2 ma + ea))%R by (apply bpow_le; lia). lra.
    + rewrite (dy_val_shift ma ea (Z.min ea eb)) by lia. rewrite (dy_val_shift mb eb (Z.min ea eb)) by lia.
      rewrite Rcompare_mult_r by apply bpow_gt_0. rewrite Rcompare_IZR. reflexivity.
Qed.

Lemma dy_lt_iff a b : 0 < fst a -> 0 < fst b -> (dy_lt a b = true <-> (dy_val a < dy_val b)%R).
Proof.
  intros Ha Hb. unfold dy_lt. rewrite (dy_cmp_correct a b Ha Hb).
  destruct (Rcompare_spec (dy_val a) (dy_val b)); split; intros; try discriminate; try reflexivity; lra.
Qed.
Lemma dy_le_iff a b : 0 < fst a -> 0 < fst b -> (dy_le a b = true <-> (dy_val a <= dy_val b)%R).
Proof.
  intros Ha Hb. unfold dy_le. rewrite (dy_cmp_correct a b Ha Hb).
  destruct (Rcompare_spec (dy_val a) (dy_val b)); split; intros; try discriminate; try reflexivity; lra.
Qed.

(* ---- floats as dyadics ---- *)
Lemma dy_of_pos_finite m e Hb : dy_of (B754_finite false m e Hb) = (Z.pos m, e). Proof. reflexivity. Qed.

Lemma dy_of_val x : is_finite_strict x = true -> (0 < B2R x)%R -> dy_val (dy_of x) = B2R x /\ 0 < fst (dy_of x).
Proof.
  destruct x as [| | |s m e Hb]; try discriminate. intros _ Hp. cbn [dy_of fst]. split; [|lia].
  unfold dy_val, B2R, F2R. cbn [fst snd Fnum Fexp]. destruct s; [|reflexivity].
  exfalso. unfold B2R, F2R in Hp. cbn [Fnum Fexp cond_Zopp Z.opp] in Hp. pose proof (bpow_gt_0 radix2 e).
  assert (H0 : (IZR (Z.neg m) < 0)%R) by (apply IZR_lt; lia).
  pose proof (Rmult_lt_compat_r (bpow radix2 e) (IZR (Z.neg m)) 0 H H0) as H1. rewrite Rmult_0_l in H1. lra.
Qed.

(* ---- float comparisons as real comparisons ---- *)
Lemma fin_nonnan x : is_fin x = true -> is_nan x = false.
Proof. destruct x; try discriminate; reflexivity. Qed.

Lemma fle_R x y : is_fin x = true -> is_fin y = true -> fle x y = true -> (B2R x <= B2R y)%R.
Proof.
  intros Fx Fy H. apply (fle_iff_fin x y Fx Fy) in H. destruct H as (_ & _ & H). unfold ele in H.
  rewrite !ecls_fin in H by assumption. destruct H as [H|[_ [H|H]]]; try lia. exact H.
Qed.
Lemma flt_R x y : is_fin x = true -> is_fin y = true -> flt x y = true -> (B2R x < B2R y)%R.
Proof.
  intros Fx Fy H. apply (flt_iff_fin x y Fx Fy) in H. destruct H as (_ & _ & H). unfold elt in H.
  rewrite !ecls_fin in H by assumption. destruct H as [H|(_ & _ & H)]; [lia|exact H].
Qed.
Lemma feq_R x y : is_fin x = true -> is_fin y = true -> feq x y = true -> B2R x = B2R y.
Proof.
  intros Fx Fy H. rewrite feq_fle in H. apply andb_prop in H. destruct H as [H1 H2].
  pose proof (fle_R x y Fx Fy H1). pose proof (fle_R y x Fy Fx H2). lra.
Qed.

Lemma fin_pos_strict x : is_fin x = true -> (0 < B2R x)%R -> is_finite_strict x = true.
Proof. destruct x; try discriminate; try reflexivity. cbn. intros _ H. lra. Qed.

(* every table entry is a positive finite float in [1/2, 1) *)
Lemma row_entry_R s j : 0 <= s <= 8 -> 0 <= j < 2 ^ s ->
  let b := nth_f (bounds_row s) j in
  is_fin b = true /\ is_finite_strict b = true /\ (/ 2 <= B2R b < 1)%R.
Proof.
  intros Hs Hj b. destruct (bounds_len_lemma s Hs) as [Hl _].
  assert (Hi : (Z.to_nat j < length (bounds_row s))%nat) by lia.
  pose proof (proj1 (forallb_forall _ _) (bounds_range_lemma s Hs) _ (nth_In _ fnan Hi)) as E. cbv beta in E.
  apply andb_prop in E. destruct E as [E Ef]. apply andb_prop in E. destruct E as [E1 E2].
  fold (nth_f (bounds_row s) j) in E1, E2, Ef. fold b in E1, E2, Ef.
  pose proof (fle_R half b is_fin_half Ef E1) as R1. rewrite B2R_half in R1.
  pose proof (flt_R b fone Ef is_fin_fone E2) as R2. rewrite B2R_fone in R2.
  split; [exact Ef|]. split; [apply fin_pos_strict; [exact Ef|lra]|lra].
Qed.

Lemma table_bound_val s j c : 0 <= s <= 8 -> 0 <= j < 2 ^ s ->
  let d := (fst (dy_of (nth_f (bounds_row s) j)), snd (dy_of (nth_f (bounds_row s) j)) + c) in
  dy_val d = (B2R (nth_f (bounds_row s) j) * bpow radix2 c)%R /\ 0 < fst d.
Proof.
  intros Hs Hj d. destruct (row_entry_R s j Hs Hj) as (F & FS & R).
  destruct (dy_of_val _ FS ltac:(lra)) as [V P]. subst d. cbn [fst snd]. split; [|exact P].
  unfold dy_val in *. cbn [fst snd]. rewrite bpow_plus, <- Rmult_assoc, V. reflexivity.
Qed.

Lemma exact_B_table s k : 1 <= s <= 8 ->
  exact_B s k = (fst (dy_of (nth_f (bounds_row s) (k mod 2 ^ s))),
                 snd (dy_of (nth_f (bounds_row s) (k mod 2 ^ s))) + (k / 2 ^ s + 1)).
Proof.
  intros Hs. unfold exact_B. destruct (Z.ltb_spec 0 s); [|lia].
  destruct (dy_of (nth_f (bounds_row s) (k mod 2 ^ s))). reflexivity.
Qed.

(* ---- the key law on a positive finite magnitude ---- *)
Lemma key_law_table s x : 1 <= s <= 8 -> is_finite_strict x = true -> (0 < B2R x)%R ->
  let k := key_frac_exp s (fst (frexp x)) (snd (frexp x)) in
  dy_lt (exact_B s (k - 1)) (dy_of x) = true /\ dy_le (dy_of x) (exact_B s k) = true.
Proof.
  intros Hs Fx Px k. pose proof (frexp_range x Fx Px) as FR.
  destruct (frexp x) as [fr ex] eqn:Efr. cbn [fst snd] in k. destruct FR as (Ffr & Hlo & Hhi & Hval).
  assert (Hs8 : 0 <= s <= 8) by lia.
  pose proof (key_law_table_partial s fr ex Hs8 Hlo) as KL. cbv zeta in KL. fold k in KL.
  set (n := 2 ^ s) in *. set (p := k - (ex - 1) * n) in *.
  destruct KL as (Hp & Kup & Ktop & Klo & Kbot).
  assert (Hn : 0 < n) by (apply Z.pow_pos_nonneg; lia).
  destruct (dy_of_val x Fx Px) as [Vx Mx].
  pose proof (bpow_gt_0 radix2 ex) as Bex.
  pose proof (flt_R fr fone Ffr is_fin_fone Hhi) as Rhi. rewrite B2R_fone in Rhi.
  pose proof (fle_R half fr is_fin_half Ffr Hlo) as Rlo. rewrite B2R_half in Rlo.
  rewrite !exact_B_table by exact Hs. fold n. split.
  - (* lower bound *)
    assert (Hm : 0 <= (k - 1) mod n < n) by (apply Z.mod_pos_bound; lia).
    destruct (table_bound_val s ((k - 1) mod n) ((k - 1) / n + 1) Hs8 Hm) as [Vb Mb].
    apply dy_lt_iff; [exact Mb|exact Mx|]. rewrite Vb, Vx, Hval.
    destruct (Z_lt_le_dec 0 p) as [Hp0|Hp0].
    + destruct (Klo Hp0) as (Hf & Hmod & Hdiv). rewrite Hmod, Hdiv.
      destruct (row_entry_R s (p - 1) Hs8 ltac:(lia)) as (Fb & _ & _).
      pose proof (flt_R _ _ Fb Ffr Hf) as Rf. apply Rmult_lt_compat_r; assumption.
    + assert (p = 0) by lia. destruct (Kbot H) as (Hf & Hmod & Hdiv). rewrite Hmod, Hdiv.
      destruct (row_entry_R s (n - 1) Hs8 ltac:(lia)) as (Fb & _ & Rb).
      pose proof (feq_R fr half Ffr is_fin_half Hf) as Eh. rewrite B2R_half in Eh. rewrite Eh.
      replace ex with (ex - 1 + 1) at 2 by lia. rewrite (bpow_plus radix2 (ex - 1) 1).
      change (bpow radix2 1) with 2%R. pose proof (bpow_gt_0 radix2 (ex - 1)) as B1.
      apply Rlt_le_trans with (1 * bpow radix2 (ex - 1))%R; [apply Rmult_lt_compat_r; lra|lra].
  - (* upper bound *)
    assert (Hm : 0 <= k mod n < n) by (apply Z.mod_pos_bound; lia).
    destruct (table_bound_val s (k mod n) (k / n + 1) Hs8 Hm) as [Vb Mb].
    apply dy_le_iff; [exact Mx|exact Mb|]. rewrite Vb, Vx, Hval.
    destruct (Z_lt_le_dec p n) as [Hpn|Hpn].
    + destruct (Kup Hpn) as (Hf & Hmod & Hdiv). rewrite Hmod, Hdiv.
      destruct (row_entry_R s p Hs8 ltac:(lia)) as (Fb & _ & _).
      pose proof (fle_R _ _ Ffr Fb Hf) as Rf. apply Rmult_le_compat_r; [lra|assumption].
    + assert (p = n) by lia. destruct (Ktop H) as (Hmod & Hdiv). rewrite Hmod, Hdiv.
      destruct (bounds_len_lemma s Hs8) as [_ H0]. rewrite H0, B2R_half.
      rewrite (bpow_plus radix2 ex 1). change (bpow radix2 1) with 2%R.
      apply Rle_trans with (1 * bpow radix2 ex)%R; [apply Rmult_le_compat_r; lra|lra].
Qed.

Lemma exact_B_shift s k : -4 <= s <= 0 -> exact_B s k = (1, k * 2 ^ (- s)).
Proof. intros Hs. unfold exact_B. destruct (Z.ltb_spec 0 s); [lia|reflexivity]. Qed.

Lemma dy_val_pow2 e : dy_val (1, e) = bpow radix2 e.
Proof. unfold dy_val. cbn [fst snd]. lra. Qed.

Lemma key_law_shift s x : -4 <= s <= 0 -> is_finite_strict x = true -> (0 < B2R x)%R ->
  let k := key_frac_exp s (fst (frexp x)) (snd (frexp x)) in
  dy_lt (exact_B s (k - 1)) (dy_of x) = true /\ dy_le (dy_of x) (exact_B s k) = true.
Proof.
  intros Hs Fx Px k. pose proof (frexp_range x Fx Px) as FR.
  destruct (frexp x) as [fr ex] eqn:Efr. cbn [fst snd] in k. destruct FR as (Ffr & Hlo & Hhi & Hval).
  pose proof (key_law_shift_partial s fr ex Hs) as KL. cbv zeta in KL. fold k in KL.
  set (w := 2 ^ (- s)) in *.
  destruct (dy_of_val x Fx Px) as [Vx Mx].
  pose proof (bpow_gt_0 radix2 ex) as Bex.
  pose proof (flt_R fr fone Ffr is_fin_fone Hhi) as Rhi. rewrite B2R_fone in Rhi.
  pose proof (fle_R half fr is_fin_half Ffr Hlo) as Rlo. rewrite B2R_half in Rlo.
  rewrite !exact_B_shift by exact Hs. fold w.
  assert (Ehalf : (/ 2 * bpow radix2 ex = bpow radix2 (ex - 1))%R).
  { replace ex with (ex - 1 + 1) at 1 by lia. rewrite (bpow_plus radix2 (ex - 1) 1). change (bpow radix2 1) with 2%R. lra. }
  destruct (feq fr half) eqn:Eq.
  - pose proof (feq_R fr half Ffr is_fin_half Eq) as Eh. rewrite B2R_half in Eh.
    assert (Ex : B2R x = bpow radix2 (ex - 1)) by (rewrite Hval, Eh; exact Ehalf).
    split.
    + apply dy_lt_iff; [cbn; lia|exact Mx|]. rewrite dy_val_pow2, Vx, Ex. apply bpow_lt. lia.
    + apply dy_le_iff; [exact Mx|cbn; lia|]. rewrite dy_val_pow2, Vx, Ex. apply bpow_le. lia.
  - assert (Hgt : (/ 2 < B2R fr)%R).
    { destruct (Rle_lt_or_eq_dec _ _ Rlo) as [H|H]; [exact H|]. exfalso.
      assert (fle fr half = true) by (apply fle_of_R; [exact Ffr|apply is_fin_half|rewrite B2R_half; lra]).
      rewrite feq_fle, H0, Hlo in Eq. discriminate. }
    split.
    + apply dy_lt_iff; [cbn; lia|exact Mx|]. rewrite dy_val_pow2, Vx, Hval.
      apply Rle_lt_trans with (bpow radix2 (ex - 1)); [apply bpow_le; lia|].
      rewrite <- Ehalf. apply Rmult_lt_compat_r; assumption.
    + apply dy_le_iff; [exact Mx|cbn; lia|]. rewrite dy_val_pow2, Vx, Hval.
      apply Rle_trans with (bpow radix2 ex); [|apply bpow_le; lia].
      apply Rle_trans with (1 * bpow radix2 ex)%R; [apply Rmult_le_compat_r; lra|lra].
Qed.

(* ---- key_law: the bucket computed by histogramCounts.observe is the specification's bucket ---- *)
Definition schemas_all : list Z := [-4; -3; -2; -1; 0; 1; 2; 3; 4; 5; 6; 7; 8].

Lemma key_law_inf_all :
  forallb (fun s => Z.eqb (key_of s pinf) (max_key s + 1) && Z.eqb (key_of s ninf) (max_key s + 1)) schemas_all = true.
Proof. vm_compute. reflexivity. Qed.

Lemma key_law_lemma s v : -4 <= s <= 8 -> is_nan v = false -> feq v pzero = false ->
  let k := key_of s v in
  in_bucket s k (exact_B s (k - 1)) (exact_B s k) (fabs v) = true.
Proof.
  intros Hs Hn Hz k. destruct v as [sg|sg| |sg m e Hb]; try discriminate.
  - assert (Hin : In s schemas_all) by (unfold schemas_all; cbn; lia).
    pose proof (proj1 (forallb_forall _ _) key_law_inf_all s Hin) as E. cbv beta in E.
    apply andb_prop in E. destruct E as [E1 E2]. unfold in_bucket. cbn [fabs Babs is_inf].
    subst k. destruct sg; assumption.
  - subst k. rewrite key_of_finite. unfold in_bucket.
    change (is_inf (fabs (B754_finite sg m e Hb))) with false.
    change (is_fin (fabs (B754_finite sg m e Hb))) with true.
    change (feq (fabs (B754_finite sg m e Hb)) pzero) with false. cbn [negb andb].
    set (x := fabs (B754_finite sg m e Hb)).
    assert (Fx : is_finite_strict x = true) by reflexivity.
    pose proof (B2R_fabs_pos sg m e Hb) as Px. fold x in Px.
    destruct (Z_lt_le_dec 0 s) as [Hp|Hp].
    + destruct (key_law_table s x ltac:(lia) Fx Px) as [L U]. rewrite L, U. reflexivity.
    + destruct (key_law_shift s x ltac:(lia) Fx Px) as [L U]. rewrite L, U. reflexivity.
Qed.
