(* Proofs/C05_proofs.v -- C05: native histograms stay conservative under concurrency and limit enforcement.
   C05's concurrency is NOT modelled as a step machine.  What is proved here connects the executable
   checker the harness applies to every scrape of concurrent runs of the real code (Run/C05_run.v: scrape_ok)
   to C04's proved sequential accounting law, shows that its real-time sandwich is sound, says in Prop what a
   pass means, and gives the conservation facts of the re-aggregation functions of the three limit strategies.
   NOT PROVED (exercised by schedule exploration in harness/cmd/c05 only): the interleaving-level invariant
   `native_conc_inv` -- that reset / widen / halve racing with observers and collectors (hot/cold flip,
   waitForCooldown, the deferred merges) keep every scrape inside the sandwich; absence of deadlock/panic. *)
From Coq Require Import ZArith List Bool Lia Permutation Sorted.
From Verif Require Import Base.F64 Base.Sx Model.ClassicHist Model.NativeHist Proofs.F64_order
     Proofs.C04_keys Proofs.C04_proofs Proofs.C04_law Proofs.C04_spec Run.C05_run.
Import ListNotations.
Open Scope Z_scope.

(* ====================================================================== *)
(* A. counting                                                             *)
(* ====================================================================== *)
Lemma zsum_cons a l : zsum (a :: l) = a + zsum l. Proof. reflexivity. Qed.

Lemma cnt_le_impl p q G : (forall v, In v G -> p v = true -> q v = true) -> cnt p G <= cnt q G.
Proof.
  induction G as [|a G IH]; intros H; [unfold cnt, zlen; cbn; lia|]. rewrite !cnt_cons.
  assert (IH' : cnt p G <= cnt q G) by (apply IH; intros v Hv; apply H; right; exact Hv).
  pose proof (H a (or_introl eq_refl)) as Ha. destruct (p a); [rewrite (Ha eq_refl)|destruct (q a)]; lia.
Qed.

Lemma filter_le_impl (p q : f64 -> bool) G : (forall v, In v G -> p v = true -> q v = true) ->
  zlen (filter p G) <= zlen (filter q G).
Proof. exact (cnt_le_impl p q G). Qed.

Lemma cnt_disj a b G : (forall v, a v = true -> b v = true -> False) ->
  cnt a G + cnt b G = cnt (fun v => a v || b v) G.
Proof.
  intros D. induction G as [|v G IH]; [reflexivity|]. rewrite !cnt_cons. specialize (D v).
  destruct (a v), (b v); cbn [orb]; try lia; exfalso; auto.
Qed.

Lemma cnt_and_all p q G : cnt (fun v => p v && q v) G = cnt p G -> forall v, In v G -> p v = true -> q v = true.
Proof.
  intros E v Hin Hp. rewrite (cnt_split p q G) in E. destruct (q v) eqn:Q; [reflexivity|].
  pose proof (cnt_pos_of_in (fun v => p v && negb (q v)) v G Hin) as P. cbv beta in P. rewrite Hp, Q in P.
  specialize (P eq_refl). lia.
Qed.

Lemma keys_inc_head : forall r p, keys_increasing (p :: r) = true ->
  keys_increasing r = true /\ forall q, In q r -> fst p < fst q.
Proof.
  induction r as [|q r IH]; intros p H; [split; [reflexivity|intros ? []]|].
  change (keys_increasing (p :: q :: r)) with (Z.ltb (fst p) (fst q) && keys_increasing (q :: r)) in H.
  apply andb_prop in H. destruct H as [L K]. apply Z.ltb_lt in L. split; [exact K|].
  intros q' [<-|Hin]; [exact L|]. destruct (IH q K) as [_ F]. specialize (F q' Hin). lia.
Qed.

Lemma keys_increasing_sorted_prop : forall l, keys_increasing l = true -> StronglySorted (fun p q => fst p < fst q) l.
Proof.
  induction l as [|p r IH]; intros K; [constructor|]. destruct (keys_inc_head r p K) as [Kr L].
  constructor; [exact (IH Kr)|]. apply Forall_forall. exact L.
Qed.

Definition has_key (pops : list (Z * Z)) (k : Z) : bool := existsb (fun p => Z.eqb k (fst p)) pops.

(* populations that are, key by key, the number of Q-observations with that key add up to the number of
   Q-observations whose key is listed (keys strictly increasing, so no observation is counted twice) *)
Lemma sum_pops (Q : f64 -> bool) (key : f64 -> Z) G : forall pops, keys_increasing pops = true ->
  (forall p, In p pops -> snd p = cnt (fun v => Q v && Z.eqb (key v) (fst p)) G) ->
  zsum (map snd pops) = cnt (fun v => Q v && has_key pops (key v)) G.
Proof.
  induction pops as [|p r IH]; intros K H.
  - cbn [map]. symmetry. apply cnt_false. intros v _. apply andb_false_r.
  - destruct (keys_inc_head r p K) as [Kr Lt]. cbn [map]. rewrite zsum_cons.
    rewrite (H p (or_introl eq_refl)), (IH Kr (fun q Hq => H q (or_intror Hq))).
    rewrite cnt_disj.
    + apply cnt_ext. intros v _. unfold has_key. cbn [existsb]. destruct (Q v); reflexivity.
    + intros v A B. apply andb_prop in A. destruct A as [_ A]. apply andb_prop in B. destruct B as [_ B].
      apply Z.eqb_eq in A. unfold has_key in B. apply existsb_exists in B. destruct B as (q & Hq & B).
      apply Z.eqb_eq in B. specialize (Lt q Hq). lia.
Qed.

(* ====================================================================== *)
(* B. T1: the exact sequential law implies the conservative checker        *)
(* ====================================================================== *)
Definition goes (neg : bool) (zt : f64) : f64 -> bool := if neg then goes_neg zt else goes_pos zt.

Lemma goes_spec neg z v : fle pzero z = true ->
  goes neg z v = negb (is_nan v) && negb (in_zero z v) && Bool.eqb (signbit v) neg.
Proof. destruct neg; [apply goes_neg_spec|apply goes_pos_spec]. Qed.

Lemma goes_nonzero neg z v : fle pzero z = true -> goes neg z v = true -> is_nan v = false /\ feq v pzero = false.
Proof. destruct neg; [apply goes_neg_nonzero|apply goes_pos_nonzero]. Qed.

Lemma want_bucket_goes G s z neg k : -4 <= s <= 8 -> fle pzero z = true ->
  want_bucket G s z neg k = cnt (fun v => goes neg z v && Z.eqb (key_of s v) k) G.
Proof. destruct neg; [apply want_bucket_neg|apply want_bucket_pos]. Qed.

Lemma goes_partition z G :
  cnt (goes false z) G + cnt (goes true z) G + cnt (goes_zero z) G + cnt is_nan G = zlen G.
Proof. exact (cnt_partition z G). Qed.

Lemma feq_zero_goes_zero z v : fle pzero z = true -> feq v pzero = true -> goes_zero z v = true.
Proof.
  intros Hz Hv. destruct (goes_zero z v) eqn:Gz; [reflexivity|exfalso].
  destruct (is_nan v) eqn:Nn.
  - unfold feq in Hv. rewrite (fcmp_nan_l v pzero Nn) in Hv. discriminate.
  - assert (C : goes_pos z v = true \/ goes_neg z v = true).
    { unfold goes_zero, goes_pos, goes_neg in *. rewrite Nn in *. cbn [negb andb] in *.
      destruct (fgt v z); [left; reflexivity|]. destruct (flt v (fneg z)); [right; reflexivity|discriminate]. }
    destruct C as [C|C]; [apply (goes_pos_nonzero z v Hz) in C|apply (goes_neg_nonzero z v Hz) in C];
      destruct C as [_ C]; congruence.
Qed.

Lemma side_ok_pops G s z neg pops : side_ok G s z neg pops = true ->
  keys_increasing pops = true /\ forall p, In p pops -> 0 <= snd p /\ snd p = want_bucket G s z neg (fst p).
Proof.
  unfold side_ok. intros H. apply andb_prop in H. destruct H as [K F]. split; [exact K|].
  intros p Hp. rewrite forallb_forall in F. specialize (F p Hp). apply andb_prop in F. destruct F as [A B].
  apply Z.leb_le in A. apply Z.eqb_eq in B. split; assumption.
Qed.

Lemma sum_side G s z neg pops : -4 <= s <= 8 -> fle pzero z = true -> side_ok G s z neg pops = true ->
  zsum (map snd pops) = cnt (fun v => goes neg z v && has_key pops (key_of s v)) G.
Proof.
  intros Hs Hz H. destruct (side_ok_pops _ _ _ _ _ H) as [K F].
  apply (sum_pops (goes neg z) (key_of s) G pops K).
  intros p Hp. destruct (F p Hp) as [_ E]. rewrite E. apply want_bucket_goes; assumption.
Qed.

(* one side: exact populations whose total is the number of observations on that side are sandwiched by the
   conservative counts, and every observation on that side is covered by a listed bucket with positive
   population that contains it (the counting argument) *)
Lemma side_between_of_side_ok G s z neg pops : -4 <= s <= 8 -> fle pzero z = true ->
  side_ok G s z neg pops = true -> zsum (map snd pops) = cnt (goes neg z) G ->
  side_between G G s z neg pops = true.
Proof.
  intros Hs Hz H Tot. destruct (side_ok_pops _ _ _ _ _ H) as [K F].
  pose proof (sum_side G s z neg pops Hs Hz H) as Sm. rewrite Tot in Sm. symmetry in Sm.
  unfold side_between. rewrite K. cbn [andb]. apply andb_true_intro. split.
  - apply forallb_forall. intros p Hp. destruct (F p Hp) as [N E].
    assert (L1 : key_count_strict G s z (fst p) neg <= snd p).
    { rewrite E. unfold key_count_strict, want_bucket. apply filter_le_impl. intros v _ Hv. unfold in_key in Hv.
      destruct (is_nan v), (feq v pzero), (Bool.eqb (signbit v) neg), (in_bucket _ _ _ _ _), (in_zero z v);
        cbn [andb negb] in *; congruence. }
    assert (L2 : snd p <= key_count G s (fst p) neg).
    { rewrite E. unfold key_count, want_bucket. apply filter_le_impl. intros v _ Hv.
      apply andb_prop in Hv. destruct Hv as [S B]. pose proof S as S'. rewrite <- (goes_spec neg z v Hz) in S'.
      destruct (goes_nonzero _ _ _ Hz S') as [Nn Nz]. rewrite Nn in S. cbn [negb andb] in S.
      apply andb_prop in S. destruct S as [_ S]. unfold in_key. rewrite Nn, Nz, S, B. reflexivity. }
    apply andb_true_intro. split; [apply andb_true_intro; split|]; apply Z.leb_le; assumption.
  - unfold covered. apply forallb_forall. intros v Hin.
    destruct (is_nan v) eqn:Nn; [reflexivity|]. destruct (in_zero z v) eqn:Iz; [reflexivity|].
    destruct (Bool.eqb (signbit v) neg) eqn:Sg; [|reflexivity]. cbn [orb negb].
    assert (Gv : goes neg z v = true) by (rewrite (goes_spec neg z v Hz), Nn, Iz, Sg; reflexivity).
    destruct (goes_nonzero _ _ _ Hz Gv) as [_ Nz].
    pose proof (cnt_and_all (goes neg z) (fun v => has_key pops (key_of s v)) G Sm v Hin Gv) as Hk.
    cbv beta in Hk. unfold has_key in Hk. apply existsb_exists in Hk. destruct Hk as (p & Hp & Ek).
    apply existsb_exists. exists p. split; [exact Hp|]. destruct (F p Hp) as [_ E].
    assert (Pp : 0 < snd p).
    { rewrite E, (want_bucket_goes G s z neg (fst p) Hs Hz).
      apply (cnt_pos_of_in _ v G Hin). cbv beta. rewrite Gv, Ek. reflexivity. }
    apply andb_true_intro. split; [apply Z.ltb_lt; exact Pp|].
    unfold in_key. rewrite Nn, Nz, Sg, (in_bucket_key s (fst p) v Hs Nn Nz), Ek. reflexivity.
Qed.

(* the classic cumulative counts the sequential code exposes for G *)
Definition classic_of (bounds : list f64) (G : list f64) : list Z :=
  map (fun b => zlen (filter (fun v => fle v b) G)) bounds.
Definition classic_consistent (bounds : list f64) (G : list f64) (cum : list Z) : Prop :=
  bounds = [] \/ cum = classic_of bounds G.

Lemma forallb_combine_map {A B} (P : A * B -> bool) (f : A -> B) : forall l,
  (forall a, In a l -> P (a, f a) = true) -> forallb P (combine l (map f l)) = true.
Proof.
  induction l as [|a l IH]; intros H; [reflexivity|]. cbn [map combine forallb].
  rewrite (H a (or_introl eq_refl)), IH; [reflexivity|]. intros b Hb. apply H. right. exact Hb.
Qed.

Lemma zlen_filter_le {A} (p : A -> bool) (l : list A) : zlen (filter p l) <= zlen l.
Proof. induction l as [|a l IH]; [reflexivity|]. unfold zlen in *. cbn [filter]. destruct (p a); cbn [length]; lia. Qed.

Lemma classic_ok bounds G cum count : classic_consistent bounds G cum -> count = zlen G ->
  classic_between bounds G G cum count = true.
Proof.
  intros [-> | ->] ->; [reflexivity|]. destruct bounds as [|b r]; [reflexivity|]. unfold classic_between.
  set (bs := b :: r). unfold classic_of. rewrite map_length, Nat.eqb_refl. cbn [andb].
  apply forallb_combine_map. intros a _. cbn [fst snd]. rewrite !Z.leb_refl. cbn [andb].
  apply Z.leb_le. apply zlen_filter_le.
Qed.

(* T1 *)
Lemma accounting_implies_conservative_lemma bounds G e cum :
  accounting_check G e = true -> fle pzero (e_zt e) = true -> classic_consistent bounds G cum ->
  scrape_ok bounds G G (mkC e cum) = true.
Proof.
  intros H Hz Hc. unfold accounting_check in H.
  apply andb_prop in H. destruct H as [H _]. apply andb_prop in H. destruct H as [H H7].
  apply andb_prop in H. destruct H as [H H6]. apply andb_prop in H. destruct H as [H H5].
  apply andb_prop in H. destruct H as [H H4]. apply andb_prop in H. destruct H as [H H3].
  apply andb_prop in H. destruct H as [H1 H2].
  apply Z.leb_le in H1, H2. apply Z.eqb_eq in H3, H4, H7.
  assert (Hs : -4 <= e_schema e <= 8) by lia.
  assert (Nz : is_nan (e_zt e) = false) by (apply fle_nonnan in Hz; apply Hz).
  pose proof (sum_side G _ _ false _ Hs Hz H5) as Sp. pose proof (sum_side G _ _ true _ Hs Hz H6) as Sn.
  pose proof (goes_partition (e_zt e) G) as P.
  pose proof (want_zero_cnt G _ Nz) as Wz.
  change (nan_count G) with (cnt is_nan G) in H7.
  assert (Lp : cnt (fun v => goes false (e_zt e) v && has_key (e_pos e) (key_of (e_schema e) v)) G
               <= cnt (goes false (e_zt e)) G)
    by (apply cnt_le_impl; intros v _ Hv; apply andb_prop in Hv; apply Hv).
  assert (Ln : cnt (fun v => goes true (e_zt e) v && has_key (e_neg e) (key_of (e_schema e) v)) G
               <= cnt (goes true (e_zt e)) G)
    by (apply cnt_le_impl; intros v _ Hv; apply andb_prop in Hv; apply Hv).
  assert (Ep : zsum (map snd (e_pos e)) = cnt (goes false (e_zt e)) G) by lia.
  assert (En : zsum (map snd (e_neg e)) = cnt (goes true (e_zt e)) G) by lia.
  pose proof (side_between_of_side_ok G _ _ false _ Hs Hz H5 Ep) as Bp.
  pose proof (side_between_of_side_ok G _ _ true _ Hs Hz H6 En) as Bn.
  pose proof (classic_ok bounds G cum (e_count e) Hc H3) as Cl.
  assert (Zv : zero_values G <= e_zc e).
  { rewrite H4. unfold zero_values, want_zero. apply filter_le_impl. intros v _ Hv.
    rewrite <- (goes_zero_spec (e_zt e) v Nz). apply feq_zero_goes_zero; assumption. }
  unfold scrape_ok. cbv zeta. cbn [x x_classic]. rewrite Bp, Bn, Cl, !andb_true_r.
  change (nan_count G) with (cnt is_nan G).
  rewrite !andb_true_iff, !Z.leb_le. repeat split; lia.
Qed.

(* ====================================================================== *)
(* C. T2: every Write of the sequential model, no reset configured         *)
(* ====================================================================== *)
Lemma maybe_widen_sched h h' b : maybe_widen h = Some (h', b) -> h_sched h' = h_sched h.
Proof.
  unfold maybe_widen. destruct (fge _ _); [intros E; inversion E; reflexivity|].
  destruct (_ =? max_int32); [intros E; inversion E; reflexivity|].
  destruct (fgt _ _); [intros E; inversion E; reflexivity|].
  destruct (m_del (c_neg (h_cold h)) _) as [neg1 ln]. destruct (m_del (c_pos (h_cold h)) _) as [pos1 lp].
  destruct (negb _); [discriminate|]. unfold add_and_reset_counts.
  destruct (widen_merge _ _ _ _ _ _) as [[[[cp hp] hzb1] hbn1] cbn1].
  destruct (widen_merge _ _ _ _ _ _) as [[[[cn hn] hzb2] hbn2] cbn2].
  intros E. inversion E. reflexivity.
Qed.

Lemma double_width_sched h h' : double_width h = Some h' -> h_sched h' = h_sched h.
Proof.
  unfold double_width. destruct (_ =? -4); [intros E; inversion E; reflexivity|].
  destruct (negb _); [discriminate|]. unfold add_and_reset_counts.
  destruct (double_merge _ _ _) as [hp bn1]. destruct (double_merge _ _ _) as [hn bn2].
  intros E. inversion E. reflexivity.
Qed.

Lemma write_sched h h' w : write h = Some (h', w) -> h_cfg h' = h_cfg h /\ h_sched h' = h_sched h.
Proof.
  unfold write. destruct (negb _); [discriminate|].
  destruct (make_buckets (c_neg (h_hot h))) as [nsp nds]. destruct (make_buckets (c_pos (h_hot h))) as [psp pds].
  unfold add_and_reset_counts. destruct (merge_reset _ _ _) as [hp bn1]. destruct (merge_reset _ _ _) as [hn bn2].
  intros E. inversion E. split; reflexivity.
Qed.

(* with NativeHistogramMinResetDuration = 0 an Observe never resets and never schedules the timer *)
Lemma observe_k_noreset h v h' k : g_min_reset (h_cfg h) = 0 -> observe_k h v = Some (h', k) ->
  k <> SReset /\ h_sched h' = h_sched h /\ h_cfg h' = h_cfg h.
Proof.
  intros H0. unfold observe_k. set (h1 := with_sets h _ _ _).
  assert (S1 : h_sched h1 = h_sched h) by reflexivity. assert (C1 : h_cfg h1 = h_cfg h) by reflexivity.
  destruct (is_nan v); [intros E; inversion E; subst; split; [discriminate|split; assumption]|].
  unfold limit_buckets. cbv zeta.
  destruct (g_max_buckets _ =? 0); [intros E; inversion E; subst; split; [discriminate|split; assumption]|].
  destruct (_ <=? _); [intros E; inversion E; subst; split; [discriminate|split; assumption]|].
  assert (R : maybe_reset h1 v = Some (h1, false)).
  { unfold maybe_reset. cbv zeta. rewrite C1, H0. reflexivity. }
  rewrite R. rewrite C1, H0. change (0 <? 0) with false. cbn [andb].
  destruct (maybe_widen h1) as [[h3 [|]]|] eqn:W; [| |discriminate].
  - intros E. inversion E. subst. split; [discriminate|].
    pose proof (maybe_widen_sched _ _ _ W). destruct (maybe_widen_frame _ _ _ W) as (_ & _ & C3).
    split; congruence.
  - pose proof (maybe_widen_sched _ _ _ W) as S3. destruct (maybe_widen_frame _ _ _ W) as (_ & _ & C3).
    destruct (double_width h3) as [h4|] eqn:D; [|discriminate]. intros E. inversion E. subst.
    pose proof (double_width_sched _ _ D) as S4. destruct (double_width_frame _ _ D) as (_ & _ & C4).
    split; [destruct (_ =? -4); discriminate|]. split; congruence.
Qed.

Lemma step_noreset h o h' out : g_min_reset (h_cfg h) = 0 -> h_sched h = false -> step h o = Some (h', out) ->
  g_min_reset (h_cfg h') = 0 /\ h_sched h' = false.
Proof.
  intros H0 Hs St. destruct o as [v|v orc| |d|]; cbn [step] in St.
  - unfold observe in St. destruct (observe_k h v) as [[h1 k]|] eqn:O; [|discriminate].
    cbn [option_map fst] in St. inversion St. subst.
    destruct (observe_k_noreset h v h' k H0 O) as (_ & S & C). rewrite C, S. split; assumption.
  - unfold observe in St. destruct (observe_k h v) as [[h1 k]|] eqn:O; [|discriminate].
    cbn [option_map fst] in St. inversion St. subst.
    destruct (observe_k_noreset h v h1 k H0 O) as (_ & S & C).
    unfold update_exemplar. destruct (is_nan v); cbn [h_cfg h_sched]; rewrite ?C, ?S; split; assumption.
  - destruct (write h) as [[h1 w]|] eqn:W; [|discriminate]. cbn [option_map fst snd] in St. inversion St. subst.
    destruct (write_sched _ _ _ W) as [C S]. rewrite C, S. split; assumption.
  - inversion St. subst. cbn [h_cfg h_sched]. split; assumption.
  - rewrite Hs in St. inversion St. subst. split; assumption.
Qed.

Lemma ghost_step_noreset h G o : g_min_reset (h_cfg h) = 0 -> h_sched h = false ->
  ghost_step h G o = G ++ op_obs o.
Proof.
  intros H0 Hs. destruct o as [v|v orc| |d|]; cbn [ghost_step op_obs]; rewrite ?app_nil_r; try reflexivity.
  - destruct (observe_k h v) as [[h' k]|] eqn:O; [|reflexivity].
    destruct (observe_k_noreset h v h' k H0 O) as (N & _). destruct k; try reflexivity. congruence.
  - destruct (observe_k h v) as [[h' k]|] eqn:O; [|reflexivity].
    destruct (observe_k_noreset h v h' k H0 O) as (N & _). destruct k; try reflexivity. congruence.
  - rewrite Hs. reflexivity.
Qed.

(* no reset configured: the ghost G of every Write is ALL observations made before it *)
Lemma ghost_all_noreset : forall ops h G l b, g_min_reset (h_cfg h) = 0 -> h_sched h = false ->
  run_ghost h G ops = Some (l, b) ->
  Forall2 (fun p s => snd p = s) l (firstn (length l) (seen_at_writes G ops)).
Proof.
  induction ops as [|o r IH]; intros h G l b H0 Hsch E.
  - cbn [run_ghost] in E. inversion E. constructor.
  - cbn [run_ghost] in E. destruct (step h o) as [[h' [w|]]|] eqn:St; [| |discriminate].
    + destruct (step_noreset _ _ _ _ H0 Hsch St) as [H0' Hs'].
      assert (o = OWrite) by (destruct o; cbn in St; try (destruct (observe h v); discriminate); try discriminate;
                               [reflexivity|destruct (h_sched h); [destruct (timer_reset h)|]; discriminate]).
      subst o. destruct (run_ghost h' G r) as [[l' b']|] eqn:E'; [|discriminate]. inversion E. subst.
      cbn [seen_at_writes length firstn]. constructor; [reflexivity|apply (IH h' G l' b H0' Hs' E')].
    + destruct (step_noreset _ _ _ _ H0 Hsch St) as [H0' Hs'].
      assert (No : o <> OWrite) by (intros ->; cbn in St; destruct (write h) as [[? ?]|]; discriminate).
      destruct (step_exact h G o).
      * rewrite (ghost_step_noreset h G o H0 Hsch) in E. pose proof (IH h' _ l b H0' Hs' E) as R.
        destruct o; try contradiction; exact R.
      * inversion E. constructor.
Qed.

Lemma Forall_Forall2 {A B} (P : A -> Prop) (R Q : A -> B -> Prop) :
  (forall a b, P a -> R a b -> Q a b) -> forall l l', Forall P l -> Forall2 R l l' -> Forall2 Q l l'.
Proof.
  intros H l l' F F2. induction F2 as [|a b l l' Hab F2 IH]; [constructor|].
  inversion F. subst. constructor; [apply H; assumption|apply IH; assumption].
Qed.

(* what a sequential Write exposes is accepted by the conservative checker with MUST = MAY = seen *)
Definition conservative_write (p : wout * list f64) (seen : list f64) : Prop :=
  exists e, expo_of_wout (fst p) = Some e /\
    forall bounds cum, classic_consistent bounds seen cum -> scrape_ok bounds seen seen (mkC e cum) = true.

(* T2 (partial: Writes up to the first inexact widening, as in C04's native_accounting; b = true means
   there was none and l lists every Write of the run) *)
Lemma sequential_scrapes_conservative_partial_lemma g ops : valid_config g -> g_min_reset g = 0 ->
  exists l b, run_ghost (new_hist g) [] ops = Some (l, b) /\
    (b = true -> run g ops = Some (map fst l)) /\
    Forall2 conservative_write l (firstn (length l) (seen_at_writes [] ops)).
Proof.
  intros Hv H0. destruct (native_accounting_lemma g ops Hv) as (l & b & E & O). exists l, b.
  split; [exact E|]. split; [intros ->; apply (run_ghost_outputs ops (new_hist g) [] l E)|].
  pose proof (ghost_all_noreset ops (new_hist g) [] l b H0 eq_refl E) as A.
  unfold outs_ok in O. refine (Forall_Forall2 _ _ _ _ l _ O A).
  intros [w G] seen Hp Hs. cbn [fst snd] in *. subst seen.
  destruct (out_ok_spec_lemma g G w Hp) as (e & He & Ha). exists e. split; [exact He|].
  intros bounds cum Hc. apply accounting_implies_conservative_lemma; [exact Ha| |exact Hc].
  destruct Hp as (_ & _ & Hz). unfold expo_of_wout in He.
  destruct (decode (w_pspans w) (w_pdeltas w)); [|discriminate].
  destruct (decode (w_nspans w) (w_ndeltas w)); [|discriminate]. inversion He. exact Hz.
Qed.

(* ====================================================================== *)
(* D. T3: the real-time sandwich is monotone                               *)
(* ====================================================================== *)
Definition submset (A B : list f64) : Prop := exists extra, Permutation (A ++ extra) B.

Lemma perm_filter_len (p : f64 -> bool) A B : Permutation A B -> zlen (filter p A) = zlen (filter p B).
Proof.
  induction 1 as [|a A B _ IH|a b A|A B C _ IH1 _ IH2]; [reflexivity| | |congruence].
  - cbn [filter]. unfold zlen in *. destruct (p a); cbn [length]; lia.
  - cbn [filter]. destruct (p a), (p b); reflexivity.
Qed.

Lemma submset_filter p A B : submset A B -> zlen (filter p A) <= zlen (filter p B).
Proof.
  intros [ex P]. rewrite <- (perm_filter_len p _ _ P), filter_app, zlen_app. unfold zlen. lia.
Qed.

Lemma submset_len A B : submset A B -> zlen A <= zlen B.
Proof. intros [ex P]. unfold zlen. rewrite <- (Permutation_length P), app_length. lia. Qed.

Lemma submset_in A B v : submset A B -> In v A -> In v B.
Proof. intros [ex P] H. apply (Permutation_in _ P). apply in_or_app. left. exact H. Qed.

Lemma submset_refl A : submset A A.
Proof. exists []. rewrite app_nil_r. apply Permutation_refl. Qed.

(* the driver's sets: observations selected by a weaker predicate form a super-multiset *)
Lemma filter_submset {T} (h : T -> f64) (f g : T -> bool) : (forall o, f o = true -> g o = true) ->
  forall l, submset (map h (filter f l)) (map h (filter g l)).
Proof.
  intros H. induction l as [|a l [ex IH]]; [apply submset_refl|]. cbn [filter]. specialize (H a).
  destruct (f a), (g a); cbn [map].
  - exists ex. cbn [app]. apply perm_skip. exact IH.
  - specialize (H eq_refl). discriminate.
  - exists (h a :: ex). apply Permutation_sym, Permutation_cons_app, Permutation_sym. exact IH.
  - exists ex. exact IH.
Qed.

Lemma side_between_mono must may must' may' s z neg pops : submset must' must -> submset may may' ->
  side_between must may s z neg pops = true -> side_between must' may' s z neg pops = true.
Proof.
  intros Hm Hy H. unfold side_between in *. apply andb_prop in H. destruct H as [H C].
  apply andb_prop in H. destruct H as [K F]. rewrite K. cbn [andb]. apply andb_true_intro. split.
  - rewrite forallb_forall in F. apply forallb_forall. intros p Hp. specialize (F p Hp).
    rewrite !andb_true_iff, !Z.leb_le in *. destruct F as [[F1 F2] F3].
    pose proof (submset_filter (fun v => in_key s (fst p) neg v && negb (in_zero z v)) _ _ Hm).
    pose proof (submset_filter (in_key s (fst p) neg) _ _ Hy).
    unfold key_count_strict, key_count in *. repeat split; lia.
  - unfold covered in *. rewrite forallb_forall in C. apply forallb_forall. intros v Hv.
    apply C. apply (submset_in _ _ _ Hm Hv).
Qed.

Lemma classic_between_mono bounds must may must' may' cum count : submset must' must -> submset may may' ->
  classic_between bounds must may cum count = true -> classic_between bounds must' may' cum count = true.
Proof.
  intros Hm Hy H. unfold classic_between in *. destruct bounds as [|b r]; [reflexivity|].
  apply andb_prop in H. destruct H as [L F]. rewrite L. cbn [andb].
  rewrite forallb_forall in F. apply forallb_forall. intros bc Hb. specialize (F bc Hb).
  rewrite !andb_true_iff, !Z.leb_le in *. destruct F as [[F1 F2] F3].
  pose proof (submset_filter (fun v => fle v (fst bc)) _ _ Hm).
  pose proof (submset_filter (fun v => fle v (fst bc)) _ _ Hy). repeat split; lia.
Qed.

(* T3 *)
Lemma sandwich_monotone_lemma bounds must may must' may' c : scrape_ok bounds must may c = true ->
  submset must' must -> submset may may' -> scrape_ok bounds must' may' c = true.
Proof.
  intros H Hm Hy. unfold scrape_ok in *. cbv zeta in *.
  apply andb_prop in H. destruct H as [H Cl]. apply andb_prop in H. destruct H as [H Bn].
  apply andb_prop in H. destruct H as [H Bp].
  rewrite (side_between_mono _ _ _ _ _ _ _ _ Hm Hy Bp), (side_between_mono _ _ _ _ _ _ _ _ Hm Hy Bn),
          (classic_between_mono _ _ _ _ _ _ _ Hm Hy Cl), !andb_true_r.
  rewrite !andb_true_iff, !Z.leb_le in *.
  pose proof (submset_len _ _ Hm). pose proof (submset_len _ _ Hy).
  pose proof (submset_filter (fun v => feq v pzero) _ _ Hm).
  pose proof (submset_filter (fun v => negb (is_nan v) && in_zero (e_zt (x c)) v) _ _ Hy).
  pose proof (submset_filter is_nan _ _ Hm). pose proof (submset_filter is_nan _ _ Hy).
  unfold zero_values, want_zero, nan_count in *. repeat split; lia.
Qed.

(* ====================================================================== *)
(* E. T4: what a pass means                                                *)
(* ====================================================================== *)
Lemma side_between_props must may s z neg pops : side_between must may s z neg pops = true ->
  StronglySorted (fun p q => fst p < fst q) pops /\
  (forall p, In p pops -> 0 <= snd p /\ key_count_strict must s z (fst p) neg <= snd p <= key_count may s (fst p) neg) /\
  (forall v, In v must -> is_nan v = false -> in_zero z v = false -> signbit v = neg ->
     exists p, In p pops /\ 0 < snd p /\ in_key s (fst p) neg v = true).
Proof.
  unfold side_between. intros H. apply andb_prop in H. destruct H as [H C]. apply andb_prop in H. destruct H as [K F].
  split; [apply keys_increasing_sorted_prop; exact K|]. split.
  - intros p Hp. rewrite forallb_forall in F. specialize (F p Hp). rewrite !andb_true_iff, !Z.leb_le in F. lia.
  - intros v Hv Nn Iz Sg. unfold covered in C. rewrite forallb_forall in C. specialize (C v Hv).
    rewrite Nn, Iz, Sg, Bool.eqb_reflx in C. cbn [orb negb] in C. apply existsb_exists in C.
    destruct C as (p & Hp & C). apply andb_prop in C. destruct C as [C1 C2]. apply Z.ltb_lt in C1.
    exists p. repeat split; assumption.
Qed.

Lemma self_consistency_of_ok_lemma bounds must may c : scrape_ok bounds must may c = true ->
  let e := x c in
  -4 <= e_schema e <= 8 /\
  (forall p, In p (e_pos e ++ e_neg e) -> 0 <= snd p) /\
  StronglySorted (fun p q => fst p < fst q) (e_pos e) /\ StronglySorted (fun p q => fst p < fst q) (e_neg e) /\
  (exists n, e_count e = e_zc e + zsum (map snd (e_pos e)) + zsum (map snd (e_neg e)) + n /\
             nan_count must <= n <= nan_count may) /\
  zlen must <= e_count e <= zlen may /\
  zero_values must <= e_zc e <= want_zero may (e_zt e) /\
  (forall neg p, In p (if neg : bool then e_neg e else e_pos e) ->
     key_count_strict must (e_schema e) (e_zt e) (fst p) neg <= snd p <= key_count may (e_schema e) (fst p) neg) /\
  (forall v, In v must -> is_nan v = false -> in_zero (e_zt e) v = false ->
     exists p, In p (if signbit v then e_neg e else e_pos e) /\ 0 < snd p /\
               in_key (e_schema e) (fst p) (signbit v) v = true).
Proof.
  intros H e. unfold scrape_ok in H. cbv zeta in H. fold e in H.
  apply andb_prop in H. destruct H as [H _]. apply andb_prop in H. destruct H as [H Bn].
  apply andb_prop in H. destruct H as [H Bp].
  rewrite !andb_true_iff, !Z.leb_le in H.
  destruct (side_between_props _ _ _ _ _ _ Bp) as (Sp & Fp & Cp).
  destruct (side_between_props _ _ _ _ _ _ Bn) as (Sn & Fn & Cn).
  split; [lia|]. split.
  { intros p Hp. apply in_app_or in Hp. destruct Hp as [Hp|Hp]; [apply (Fp p Hp)|apply (Fn p Hp)]. }
  split; [exact Sp|]. split; [exact Sn|]. split.
  { exists (e_count e - (zsum (map snd (e_pos e)) + zsum (map snd (e_neg e)) + e_zc e)). lia. }
  split; [lia|]. split; [lia|]. split.
  { intros [|] p Hp; [apply (Fn p Hp)|apply (Fp p Hp)]. }
  intros v Hv Nn Iz. destruct (signbit v) eqn:Sg; [apply (Cn v Hv Nn Iz Sg)|apply (Cp v Hv Nn Iz Sg)].
Qed.

(* ====================================================================== *)
(* F. T5: the re-aggregation functions conserve what they move             *)
(* ====================================================================== *)
Lemma m_add_total : forall m k inc, zsum (map snd (fst (m_add m k inc))) = zsum (map snd m) + inc.
Proof.
  induction m as [|[k0 v] r IH]; intros k inc; cbn [m_add].
  - cbn [fst map snd]. unfold zsum. cbn [fold_right]. lia.
  - destruct (k =? k0); [cbn [fst map snd]; rewrite !zsum_cons; lia|].
    destruct (k <? k0); [cbn [fst map snd]; rewrite !zsum_cons; lia|].
    specialize (IH k inc). destruct (m_add r k inc) as [r' c]. cbn [fst map snd] in *. rewrite !zsum_cons, IH. lia.
Qed.

(* doubleBucketWidth's merge: nothing is lost or invented, and source key k lands at halve k *)
Lemma halve_merge_conserves_lemma : forall cm hm bn,
  zsum (map snd (fst (double_merge cm hm bn))) = zsum (map snd hm) + zsum (map snd cm) /\
  (forall lo k', sorted_from hm lo ->
     m_get (fst (double_merge cm hm bn)) k' = m_get hm k' + sumif (fun k => Z.eqb (halve k) k') cm).
Proof.
  intros cm hm bn. split; [|intros lo k' Hs; apply (double_merge_get cm hm bn lo k' Hs)].
  revert hm bn. induction cm as [|[k v] r IH]; intros hm bn; cbn [double_merge].
  - cbn [fst map]. unfold zsum at 3. cbn [fold_right]. lia.
  - pose proof (m_add_total hm (halve k) v) as T. destruct (m_add hm (halve k) v) as [hm1 cr]. cbn [fst] in T.
    rewrite IH, T. cbn [map snd]. rewrite zsum_cons. lia.
Qed.

(* ... and halve k is the bucket that contains the value at the coarser schema (key_halving) *)
Lemma halve_merge_contains_lemma s k neg v : -3 <= s <= 8 ->
  in_key s k neg v = true -> in_key (s - 1) (halve k) neg v = true.
Proof.
  intros Hs H. unfold in_key in *. apply andb_prop in H. destruct H as [H B]. rewrite H. cbn [andb].
  apply andb_prop in H. destruct H as [H _]. apply andb_prop in H. destruct H as [Nn Nz].
  apply negb_true_iff in Nn, Nz.
  rewrite (in_bucket_key s k v ltac:(lia) Nn Nz) in B. apply Z.eqb_eq in B. subst k.
  rewrite (in_bucket_key (s - 1) _ v ltac:(lia) Nn Nz), (key_halving_lemma s v Hs Nn Nz). apply Z.eqb_refl.
Qed.

(* maybeWidenZeroBucket's merge: zero bucket + regular buckets conserved, the cold map left all-zero *)
Lemma widen_merge_conserves_lemma sk : forall cm hm hzb hbn cb c' hm' hzb' hbn' cb',
  widen_merge sk cm hm hzb hbn cb = (c', hm', hzb', hbn', cb') ->
  hzb' + zsum (map snd hm') = hzb + zsum (map snd hm) + zsum (map snd cm) /\ zsum (map snd c') = 0.
Proof.
  induction cm as [|[k v] r IH]; intros hm hzb hbn cb c' hm' hzb' hbn' cb' E; cbn [widen_merge] in E.
  - inversion E. subst. cbn [map]. unfold zsum at 3 4. cbn [fold_right]. lia.
  - cbn [map snd]. rewrite zsum_cons. destruct (k =? sk).
    + apply IH in E. lia.
    + pose proof (m_add_total hm k v) as T. destruct (m_add hm k v) as [hm1 cr]. cbn [fst] in T.
      destruct (widen_merge sk r hm1 hzb (if cr then u32_inc hbn else hbn) cb) as [[[[c1 h1] z1] b1] cb1] eqn:W.
      inversion E. subst. apply IH in W. cbn [map snd]. rewrite zsum_cons. lia.
Qed.

(* addAndResetCounts: count and zero bucket move from cold to hot, nothing else changes *)
Lemma add_and_reset_conserves_lemma hot cold :
  let (h', c') := add_and_reset_counts hot cold in
  c_cnt h' + c_cnt c' = c_cnt hot + c_cnt cold /\ c_zb h' + c_zb c' = c_zb hot + c_zb cold /\
  c_sum h' = fadd (c_sum hot) (c_sum cold) /\ c_sum c' = pzero /\ c_cnt c' = 0 /\ c_zb c' = 0 /\
  c_pos h' = c_pos hot /\ c_neg h' = c_neg hot /\ c_pos c' = c_pos cold /\ c_neg c' = c_neg cold /\
  c_schema h' = c_schema hot /\ c_zt h' = c_zt hot /\ c_schema c' = c_schema cold /\ c_zt c' = c_zt cold.
Proof. unfold add_and_reset_counts. cbn [c_cnt c_zb c_sum c_pos c_neg c_schema c_zt]. repeat split; lia. Qed.

(* ====================================================================== *)
(* G. examples                                                             *)
(* ====================================================================== *)
(* two cases of a real run of harness/cmd/c05 (seed 1, stream sched): 5 observations by two observers with a
   scraper whose collections overlap them (scrape over [0,94] sees 2 of the 5), schema 0, zero threshold 2;
   and a histogram with classic buckets 1, 10, 100 *)
Definition ex_case1 : sx :=
  SL [SZ 0; SL []; SL [SL [SZ 4641342046051762176; SZ 0; SZ 37]; SL [SZ 4642542712749293568; SZ 94; SZ 116]; SL [SZ 4589168020290535424; SZ 116; SZ 134]; SL [SZ 4645825854469832704; SZ 134; SZ 151]; SL [SZ 4638712014238121984; SZ 0; SZ 28]]; SL [SL [SL [SZ 0; SZ 4611686018427387904; SZ 0; SZ 1; SZ 4638712014238121984; SL [SL [SZ 8; SZ 1]]; SL []; SL []]; SZ 0; SZ 64]; SL [SL [SZ 0; SZ 4611686018427387904; SZ 0; SZ 2; SZ 4644530629772312576; SL [SL [SZ 8; SZ 2]]; SL []; SL []]; SZ 64; SZ 146]; SL [SL [SZ 0; SZ 4611686018427387904; SZ 0; SZ 2; SZ 4644530629772312576; SL [SL [SZ 8; SZ 2]]; SL []; SL []]; SZ 0; SZ 94]]; SL [SZ 0; SZ 4611686018427387904; SZ 1; SZ 5; SZ 4651767065550520320; SL [SL [SZ 8; SZ 3]; SL [SZ 9; SZ 1]]; SL []; SL []]; SZ 0].
Definition ex_case2 : sx :=
  SL [SZ 0; SL [SZ 4607182418800017408; SZ 4625196817309499392; SZ 4643211215818981376]; SL [SL [SZ 4645102375818756096; SZ 0; SZ 31]; SL [SZ 0; SZ 31; SZ 40]]; SL [SL [SL [SZ 1; SZ 4593671619917905920; SZ 0; SZ 0; SZ 0; SL []; SL []; SL [SZ 0; SZ 0; SZ 0]]; SZ 0; SZ 55]; SL [SL [SZ 1; SZ 4593671619917905920; SZ 1; SZ 2; SZ 4645102375818756096; SL [SL [SZ 18; SZ 1]]; SL []; SL [SZ 1; SZ 1; SZ 1]]; SZ 55; SZ 98]; SL [SL [SZ 1; SZ 4593671619917905920; SZ 1; SZ 2; SZ 4645102375818756096; SL [SL [SZ 18; SZ 1]]; SL []; SL [SZ 1; SZ 1; SZ 1]]; SZ 98; SZ 140]]; SL [SZ 1; SZ 4593671619917905920; SZ 1; SZ 2; SZ 4645102375818756096; SL [SL [SZ 18; SZ 1]]; SL []; SL [SZ 1; SZ 1; SZ 1]]; SZ 0].

Lemma real_run_accepted_lemma : check ex_case1 = 0 /\ check ex_case2 = 0.
Proof. split; vm_compute; reflexivity. Qed.

(* 3.0 (schema 0: bucket 2 = (2,4]) exposed in bucket 5 = (16,32]: rejected; in bucket 2: accepted *)
Definition ex_three : f64 := of_bits 0x4008000000000000.
Definition ex_expo (k : Z) : cexpo := mkC (mkExpo 0 (of_bits 4030721666496593920) 0 1 ex_three 0 [(k, 1)] []) [].
Lemma wrong_bucket_rejected_lemma :
  scrape_ok [] [ex_three] [ex_three] (ex_expo 5) = false /\ scrape_ok [] [ex_three] [ex_three] (ex_expo 2) = true.
Proof. split; vm_compute; reflexivity. Qed.
