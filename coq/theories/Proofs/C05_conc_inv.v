(* Proofs/C05_conc_inv.v -- C05, concurrency: assertions of the native-histogram step machine (Model/NativeConc.v,
   instance lmachine: counters carry the observed values) and their preservation.
   1 maps; 2 value cells; 3 assertions Phi over (shared state, in-flight counts f, stage-B values sb) for every pc of
   the mutex holder (reset: PreC before the swap, HB while the holder repeats its observation, RC during the cool-down
   after the swap - the ticket counter restarted with the new hot set -, Wipe/PostDel while the formerly hot set is
   cleared); 4 Hoare-style lemma for every step of the holder (hoare, hoare_reset); 5 interference: every assertion is
   stable under the steps of observers (phi_obs); 6 what one observer step does (obs_local).
   The thread-level invariant and the theorems are in Proofs/C05_conc.v. *)
From Coq Require Import ZArith List Bool Lia Permutation Sorted.
From Verif Require Import Base.F64 Base.Conc Model.ClassicHist Model.NativeHist Model.NativeConc Proofs.C02_proofs.
Import ListNotations.
Open Scope Z_scope.

(* ====================================================================== *)
(* 1. maps                                                                 *)
(* ====================================================================== *)
Section Maps.
Variable C : Type.
Notation cmap := (cmap C).

Fixpoint lbound (lo : Z) (m : cmap) : Prop :=
  match m with [] => True | (k, _) :: r => lo < k /\ lbound k r end.
Definition srt (m : cmap) : Prop := match m with [] => True | (k, _) :: r => lbound k r end.

Lemma lbound_weaken m : forall lo lo', lbound lo m -> lo' <= lo -> lbound lo' m.
Proof. destruct m as [|[k c] r]; cbn; intros lo lo' H L; [exact I|]. destruct H. split; [lia|assumption]. Qed.
Lemma lbound_srt lo m : lbound lo m -> srt m.
Proof. destruct m as [|[k c] r]; cbn; [auto|]. intros [_ H]. exact H. Qed.
Lemma lbound_notin m : forall lo k, lbound lo m -> k <= lo -> ~ In k (cm_keys C m).
Proof.
  induction m as [|[k0 c] r IH]; cbn; intros lo k H L; [tauto|]. destruct H as [H1 H2].
  intros [E|E]; [lia|]. apply (IH k0 k H2); [lia|exact E].
Qed.
Lemma lbound_nodup m : forall lo, lbound lo m -> NoDup (cm_keys C m).
Proof.
  induction m as [|[k c] r IH]; cbn; intros lo H; [constructor|]. destruct H as [H1 H2].
  constructor; [apply (lbound_notin r k k H2); lia|apply (IH k H2)].
Qed.
Lemma srt_nodup m : srt m -> NoDup (cm_keys C m).
Proof. destruct m as [|[k c] r]; cbn; intros H; [constructor|]. constructor; [apply (lbound_notin r k k H); lia|apply (lbound_nodup r k H)]. Qed.

Lemma lbound_ins m : forall lo k c, lbound lo m -> lo < k -> lbound lo (cm_ins C m k c).
Proof.
  induction m as [|[k0 c0] r IH]; cbn; intros lo k c H L; [auto|]. destruct H as [H1 H2].
  destruct (Z.eqb_spec k k0); [cbn; auto|]. destruct (Z.ltb_spec k k0); cbn; [repeat split; auto; lia|].
  split; [assumption|]. apply IH; [assumption|lia].
Qed.
Lemma srt_ins m k c : srt m -> srt (cm_ins C m k c).
Proof.
  destruct m as [|[k0 c0] r]; cbn; intros H; [exact I|].
  destruct (Z.eqb_spec k k0); [cbn; auto|]. destruct (Z.ltb_spec k k0); cbn; [split; [lia|assumption]|].
  apply lbound_ins; [assumption|lia].
Qed.
Lemma lbound_upd m : forall lo k f, lbound lo m -> lbound lo (cm_upd C m k f).
Proof.
  induction m as [|[k0 c0] r IH]; cbn; intros lo k f H; [auto|]. destruct H as [H1 H2].
  destruct (Z.eqb k k0); cbn; auto.
Qed.
Lemma srt_upd m k f : srt m -> srt (cm_upd C m k f).
Proof. destruct m as [|[k0 c0] r]; cbn; intros H; [exact I|]. destruct (Z.eqb k k0); cbn; [assumption|apply lbound_upd; assumption]. Qed.
Lemma lbound_del m : forall lo k, lbound lo m -> lbound lo (cm_del C m k).
Proof.
  induction m as [|[k0 c0] r IH]; cbn; intros lo k H; [auto|]. destruct H as [H1 H2].
  destruct (Z.eqb k k0); cbn; [apply (lbound_weaken r k0 lo H2); lia|auto].
Qed.
Lemma srt_del m k : srt m -> srt (cm_del C m k).
Proof. destruct m as [|[k0 c0] r]; cbn; intros H; [exact I|]. destruct (Z.eqb k k0); cbn; [apply (lbound_srt k0); assumption|apply lbound_del; assumption]. Qed.

(* find / has after updates *)
Lemma has_find m k : cm_has C m k = true <-> exists c, cm_find C m k = Some c.
Proof. unfold cm_has. destruct (cm_find C m k); split; intros H; eauto; try discriminate. destruct H; discriminate. Qed.
Lemma has_in m k : cm_has C m k = true <-> In k (cm_keys C m).
Proof.
  unfold cm_has. induction m as [|[k0 c0] r IH]; cbn; [split; [discriminate|tauto]|].
  destruct (Z.eqb_spec k k0); [subst; split; auto|]. rewrite IH. split; [auto|]. intros [E|E]; [congruence|assumption].
Qed.
Lemma keys_upd m k f : cm_keys C (cm_upd C m k f) = cm_keys C m.
Proof. induction m as [|[k0 c0] r IH]; cbn; [reflexivity|]. destruct (Z.eqb k k0); cbn; [reflexivity|f_equal; exact IH]. Qed.
Lemma in_keys_ins m k c k' : In k' (cm_keys C m) -> In k' (cm_keys C (cm_ins C m k c)).
Proof.
  induction m as [|[k0 c0] r IH]; cbn; [tauto|]. intros H.
  destruct (Z.eqb k k0); [exact H|]. destruct (Z.ltb k k0); cbn; [right; exact H|]. destruct H; [left; assumption|right; auto].
Qed.
Lemma find_del_other m k k' : k' <> k -> cm_find C (cm_del C m k) k' = cm_find C m k'.
Proof.
  intros N. induction m as [|[k0 c0] r IH]; cbn; [reflexivity|].
  destruct (Z.eqb_spec k k0); [subst; destruct (Z.eqb_spec k' k0); [congruence|reflexivity]|].
  cbn. destruct (Z.eqb k' k0); [reflexivity|exact IH].
Qed.
Lemma find_upd_other m k k' f : k' <> k -> cm_find C (cm_upd C m k f) k' = cm_find C m k'.
Proof.
  intros N. induction m as [|[k0 c0] r IH]; cbn; [reflexivity|].
  destruct (Z.eqb_spec k k0); [subst; cbn; destruct (Z.eqb_spec k' k0); [congruence|reflexivity]|].
  cbn. destruct (Z.eqb k' k0); [reflexivity|exact IH].
Qed.
Lemma find_ins_other m k c k' : k' <> k -> cm_find C (cm_ins C m k c) k' = cm_find C m k'.
Proof.
  intros N. induction m as [|[k0 c0] r IH]; cbn; [destruct (Z.eqb_spec k' k); [congruence|reflexivity]|].
  destruct (Z.eqb_spec k k0); [reflexivity|]. destruct (Z.ltb k k0); cbn.
  - destruct (Z.eqb_spec k' k); [congruence|reflexivity].
  - destruct (Z.eqb k' k0); [reflexivity|exact IH].
Qed.
Lemma keys_del_head k c r : cm_del C ((k, c) :: r) k = r.
Proof. cbn. rewrite Z.eqb_refl. reflexivity. Qed.
End Maps.
Arguments lbound {C}. Arguments srt {C}.
(* ====================================================================== *)
(* 2. cells carrying values                                                *)
(* ====================================================================== *)
Notation VC := (list f64).
Notation vmap := (cmap VC).
Definition zl (l : list f64) : Z := Z.of_nat (length l).
Definition allc (m : vmap) : list f64 := concat (map snd m).
Definition cell (m : vmap) (k : Z) : list f64 := match cm_find VC m k with Some c => c | None => [] end.
Definition cells (m : vmap) (ks : list Z) : list f64 := concat (map (cell m) ks).
Definition nn (l : list f64) : list f64 := filter (fun v => negb (is_nan v)) l.

Lemma zl_app a b : zl (a ++ b) = zl a + zl b. Proof. unfold zl. rewrite app_length. lia. Qed.
Lemma zl_nonneg a : 0 <= zl a. Proof. unfold zl. lia. Qed.
Lemma zl_nil_inv a : zl a = 0 -> a = []. Proof. destruct a; [reflexivity|unfold zl; cbn [length]; lia]. Qed.
Lemma nn_app a b : nn (a ++ b) = nn a ++ nn b. Proof. apply filter_app. Qed.
Lemma nn_perm a b : Permutation a b -> Permutation (nn a) (nn b).
Proof. induction 1 as [|x a b _ IH|x y a|a b c _ IH1 _ IH2]; cbn; [constructor| | |etransitivity; eassumption].
  - destruct (negb (is_nan x)); [constructor|]; assumption.
  - destruct (negb (is_nan x)), (negb (is_nan y)); try reflexivity. constructor. Qed.

Lemma allc_ins (m : vmap) k c : cm_has VC m k = false -> Permutation (allc (cm_ins VC m k c)) (allc m ++ c).
Proof.
  unfold cm_has, allc. induction m as [|[k0 c0] r IH]; cbn; intros H; [rewrite app_nil_r; reflexivity|].
  destruct (Z.eqb k k0); [discriminate|]. destruct (Z.ltb k k0); cbn.
  - rewrite Permutation_app_comm. reflexivity.
  - rewrite (IH H), app_assoc. reflexivity.
Qed.
Lemma allc_upd_app (m : vmap) k n : cm_has VC m k = true ->
  Permutation (allc (cm_upd VC m k (fun x => x ++ n))) (allc m ++ n).
Proof.
  unfold cm_has, allc. induction m as [|[k0 c0] r IH]; cbn; intros H; [discriminate|].
  destruct (Z.eqb k k0); cbn.
  - rewrite <- !app_assoc. apply Permutation_app_head. apply Permutation_app_comm.
  - rewrite (IH H), app_assoc. reflexivity.
Qed.
Lemma allc_del (m : vmap) k : Permutation (allc m) (cell m k ++ allc (cm_del VC m k)).
Proof.
  unfold cell, allc. induction m as [|[k0 c0] r IH]; cbn; [reflexivity|].
  destruct (Z.eqb k k0); cbn; [reflexivity|]. rewrite IH at 1. rewrite !app_assoc. apply Permutation_app_tail. apply Permutation_app_comm.
Qed.
Lemma allc_zero (m : vmap) k : Permutation (allc m) (cell m k ++ allc (cm_upd VC m k (fun _ => []))).
Proof.
  unfold cell, allc. induction m as [|[k0 c0] r IH]; cbn; [reflexivity|].
  destruct (Z.eqb k k0); cbn; [reflexivity|]. rewrite IH at 1. rewrite !app_assoc. apply Permutation_app_tail. apply Permutation_app_comm.
Qed.
Lemma allc_nil_del (m : vmap) k : allc m = [] -> allc (cm_del VC m k) = [].
Proof.
  intros H. pose proof (allc_del m k) as P. rewrite H in P. apply Permutation_nil in P. apply app_eq_nil in P. apply P.
Qed.
Lemma cells_frame (m m' : vmap) ks : (forall k, In k ks -> cm_find VC m' k = cm_find VC m k) -> cells m' ks = cells m ks.
Proof.
  unfold cells, cell. induction ks as [|k ks IH]; cbn; intros H; [reflexivity|].
  rewrite (H k (or_introl eq_refl)), IH; [reflexivity|]. intros k' Hk. apply H. right. exact Hk.
Qed.
Lemma cells_keys (m : vmap) : forall lo, lbound lo m -> cells m (cm_keys VC m) = allc m.
Proof.
  unfold cells, allc. induction m as [|[k c] r IH]; cbn; intros lo H; [reflexivity|]. destruct H as [H1 H2].
  unfold cell at 1. cbn. rewrite Z.eqb_refl. f_equal. rewrite <- (IH k H2). 
  apply (cells_frame r ((k, c) :: r)). intros k' Hk. cbn. destruct (Z.eqb_spec k' k); [|reflexivity].
  subst. exfalso. apply (lbound_notin VC r k k H2); [lia|exact Hk].
Qed.
Lemma cells_keys_srt (m : vmap) : srt m -> cells m (cm_keys VC m) = allc m.
Proof.
  destruct m as [|[k c] r]; [reflexivity|]. intros H. apply (cells_keys ((k, c) :: r) (k - 1)). cbn. split; [lia|exact H].
Qed.
(* ====================================================================== *)
(* 3. assertions over (shared state, in-flight counts f, stage-B values sb) *)
(* ====================================================================== *)
Notation nshL := (nsh VC). Notation nsetL := (nset VC). Notation npcL := (npc VC).
Notation nretL := (nret VC). Notation noutL := (nout VC).
Definition gs (h : nshL) (b : bool) : nsetL := nget VC h b.
Definition cntv (s : nsetL) := ns_cnt VC s.
Definition sec (s : nsetL) : list f64 := ns_zb VC s ++ allc (ns_pos VC s) ++ allc (ns_neg VC s).

Definition good_out (o : noutL) : Prop :=
  exists E, zl E = no_count VC o /\
    Permutation (no_zc VC o ++ allc (no_pos VC o) ++ allc (no_neg VC o)) (nn E) /\
    srt (no_pos VC o) /\ srt (no_neg VC o).
Definition good_ret (r : nretL) : Prop :=
  match r with NOut _ o => good_out o | NUnit _ => True | NPanic _ => False end.

Section Abs.
Variable h : nshL.
Variable f : bool -> Z.
Variable sb : bool -> list f64.

Definition EQ (X : bool) : Prop := Permutation (sec (gs h X)) (nn (cntv (gs h X)) ++ sb X).
Definition Emp (X : bool) : Prop :=
  cntv (gs h X) = [] /\ ns_zb VC (gs h X) = [] /\ allc (ns_pos VC (gs h X)) = [] /\ allc (ns_neg VC (gs h X)) = [].
Definition Base : Prop := nh_tk VC h = zl (cntv (gs h false)) + zl (cntv (gs h true)) + f false + f true.
Definition Phi0 : Prop := Emp (negb (nh_hot VC h)) /\ f (negb (nh_hot VC h)) = 0 /\ EQ (nh_hot VC h) /\ Base.
Definition Pre (hb : bool) : Prop := hb = nh_hot VC h /\ Phi0.
Definition PreC (c : bool) : Prop := c = negb (nh_hot VC h) /\ Phi0.
Definition Cool (c : bool) (count : Z) : Prop :=
  nh_hot VC h = negb c /\ EQ (negb c) /\ EQ c /\ count = zl (cntv (gs h c)) + f c /\ Base.
Definition Read (c : bool) (count : Z) : Prop :=
  nh_hot VC h = negb c /\ f c = 0 /\ EQ (negb c) /\ EQ c /\ zl (cntv (gs h c)) = count /\ Base.
(* transfer: what of the cold set c is still to be moved (live) *)
Definition TR (c : bool) (lc lz lmP lmN : list f64) : Prop :=
  nh_hot VC h = negb c /\ f c = 0 /\
  Permutation (sec (gs h (negb c)) ++ lz ++ lmP ++ lmN) (nn (cntv (gs h (negb c)) ++ lc) ++ sb (negb c)) /\
  nh_tk VC h = zl (cntv (gs h (negb c))) + f (negb c) + zl lc.
Definition allP (c : bool) := allc (ns_pos VC (gs h c)).
Definition allN (c : bool) := allc (ns_neg VC (gs h c)).
Definition D1 (c : bool) := cntv (gs h c) = [].
Definition D2 (c : bool) := ns_zb VC (gs h c) = [].
Definition is_kd (k : mctx) : bool := match k with KD _ => true | _ => false end.
Definition LOOP (k : mctx) (c neg : bool) (infl : list f64) (rem rem' nd : list Z) : Prop :=
  TR c [] [] (if neg then [] else infl ++ cells (ns_pos VC (gs h c)) rem)
             (if neg then infl ++ cells (ns_neg VC (gs h c)) rem else allN c) /\
  D1 c /\ D2 c /\ NoDup nd /\
  (is_kd k = false ->
     Permutation (allc (side VC (gs h c) neg)) (cells (side VC (gs h c) neg) rem') /\ (neg = true -> allP c = [])).
Definition PostDel (c : bool) : Prop :=
  nh_hot VC h = negb c /\ f c = 0 /\ EQ (negb c) /\ Base /\ D1 c /\ D2 c.
Definition RdOut (c : bool) (o : noutL) : Prop :=
  no_zc VC o = ns_zb VC (gs h c) /\ no_count VC o = zl (cntv (gs h c)).
Definition RdSide (c neg : bool) (o : noutL) (rem : list Z) : Prop :=
  exists m', side VC (gs h c) neg = (if neg then no_neg VC o else no_pos VC o) ++ m' /\ cm_keys VC m' = rem /\
             (if neg then no_pos VC o = [] else no_neg VC o = ns_neg VC (gs h c)).

(* ---- reset ---- *)
(* the mutex holder repeats the observation v on the (reset, cold, quiet) set x: after its bucket/zero step *)
Definition HB (v : f64) (x : bool) (cx : list f64) : Prop :=
  x = negb (nh_hot VC h) /\ f x = 0 /\ cntv (gs h x) = cx /\ Permutation (sec (gs h x)) (nn [v]) /\
  EQ (nh_hot VC h) /\ nh_tk VC h = zl (cntv (gs h (nh_hot VC h))) + f (nh_hot VC h).
(* after the swap: c is the formerly hot set, the ticket counter restarted with the new hot set *)
Definition RC (c : bool) (count : Z) : Prop :=
  nh_hot VC h = negb c /\ EQ (negb c) /\ EQ c /\ count = zl (cntv (gs h c)) + f c /\
  nh_tk VC h = zl (cntv (gs h (negb c))) + f (negb c).
(* wiping the formerly hot set after the cool-down *)
Definition Wipe (c : bool) : Prop :=
  nh_hot VC h = negb c /\ f c = 0 /\ EQ (negb c) /\ nh_tk VC h = zl (cntv (gs h (negb c))) + f (negb c).
Definition stored (a fd : rfield) : bool :=
  match a, fd with
  | FCnt, (FZb | FZt | FSch | FBn) => true
  | FZb, (FZt | FSch | FBn) => true
  | _, _ => false
  end.

Definition Phi (pc : npcL) : Prop :=
  match pc with
  | lLoadIdx _ _ | wFlip _ | rLoadIdx _ => Phi0
  | lLoadBn2 _ _ hb | zLoadZt _ hb | zRangeP _ hb | zRangeN _ hb _ | zLoadSch _ hb _ | zStoreZt _ hb _ _
  | zDelN _ hb _ _ | zDecN _ hb _ _ | zDelP _ hb _ _ | zDecP _ hb _ _ | dLoadSch _ hb | dStoreSch _ hb _
  | dStoreBn _ hb _ | xFlip _ _ hb => Pre hb
  | eRange _ (EPre _) c _ | eDel _ (EPre _) c _ _ => PreC c
  | xCool _ _ c count | xSpin _ _ c count => Cool c count
  | wLoadSum _ c count | wLoadZt _ c count _ | wLoadSch _ c count _ _ | wLoadZb _ c count _ _ _ => Read c count
  | wRange _ c neg o =>
      Read c (no_count VC o) /\ RdOut c o /\
      (if neg then no_pos VC o = [] /\ no_neg VC o = [] else no_neg VC o = ns_neg VC (gs h c) /\ no_pos VC o = [])
  | wKeyLoad _ c neg o k ks | wCellLoad _ c neg o k ks => Read c (no_count VC o) /\ RdOut c o /\ RdSide c neg o (k :: ks)
  | aLoadCnt _ k c r => TR c (cntv (gs h c)) (ns_zb VC (gs h c)) (allP c) (allN c) /\ good_ret r
  | aAddCnt _ k c r x => TR c (cntv (gs h c)) (ns_zb VC (gs h c)) (allP c) (allN c) /\ good_ret r /\ x = cntv (gs h c)
  | aStoreCnt _ k c r => TR c [] (ns_zb VC (gs h c)) (allP c) (allN c) /\ good_ret r
  | aLoadSum _ k c r | aSumLoad _ k c r _ | aSumCas _ k c r _ _ | aStoreSum _ k c r | aLoadZb _ k c r =>
      TR c [] (ns_zb VC (gs h c)) (allP c) (allN c) /\ good_ret r /\ D1 c
  | aAddZb _ k c r z => TR c [] (ns_zb VC (gs h c)) (allP c) (allN c) /\ good_ret r /\ D1 c /\ z = ns_zb VC (gs h c)
  | aStoreZb _ k c r => TR c [] [] (allP c) (allN c) /\ good_ret r /\ D1 c
  | zStoreZt2 _ c _ _ | dStoreSch2 _ c _ => TR c [] [] (allP c) (allN c) /\ D1 c /\ D2 c
  | mRange _ k c neg r =>
      TR c [] [] (if neg then [] else allP c) (allN c) /\ good_ret r /\ D1 c /\ D2 c /\
      (is_kd k = false -> neg = true -> allP c = [])
  | mLoad _ k c neg r kk ks => LOOP k c neg [] (kk :: ks) (kk :: ks) (kk :: ks) /\ good_ret r
  | mAddZb _ k c neg r kk ks n | bLoad _ k c neg r kk ks n | bLos _ k c neg r kk ks n =>
      LOOP k c neg n ks (kk :: ks) (kk :: ks) /\ good_ret r
  | bAdd _ k c neg r kk ks n =>
      LOOP k c neg n ks (kk :: ks) (kk :: ks) /\ good_ret r /\ cm_has VC (side VC (gs h (negb c)) neg) (tkey k kk) = true
  | mDel _ k c neg r kk ks | bBn _ k c neg r kk ks | mStore _ k c neg r kk ks =>
      LOOP k c neg [] ks (kk :: ks) (kk :: ks) /\ good_ret r
  | mDec _ k c neg r kk ks => LOOP k c neg [] ks ks (kk :: ks) /\ good_ret r
  | dStoreBn2 _ c => PostDel c
  | eRange _ EPost c neg => PostDel c /\ (neg = false -> ns_neg VC (gs h c) = [])
  | eDel _ EPost c neg ks => PostDel c /\ (neg = false -> ns_neg VC (gs h c) = []) /\ cm_keys VC (side VC (gs h c) neg) = ks
  | xUnlock _ r => Phi0 /\ good_ret r
  | rStore _ _ R1 x _ | rRange _ _ R1 x _ | rDel _ _ R1 x _ _ | hSumLoad _ _ x | hSumCas _ _ x _ | rSwap _ RT x => PreC x
  | hLoadSch _ v x | hLoadZt _ v x _ | hBkLoad _ v x _ _ | hBkLos _ v x _ _ | hZero _ v x => PreC x /\ is_nan v = false
  | hBkAdd _ v x neg k => PreC x /\ is_nan v = false /\ cm_has VC (side VC (gs h x) neg) k = true
  | hBnAdd _ v x => HB v x [] /\ is_nan v = false
  | hCount _ v x => HB v x []
  | rSwap _ (RL v) x => HB v x [v]
  | rCool _ _ c count | rSpin _ _ c count => RC c count
  | rStore _ _ R2 c fd => Wipe c /\ (stored FCnt fd = true -> D1 c) /\ (stored FZb fd = true -> D2 c)
  | rRange _ _ R2 c neg => PostDel c /\ (neg = false -> ns_neg VC (gs h c) = [])
  | rDel _ _ R2 c neg ks => PostDel c /\ (neg = false -> ns_neg VC (gs h c) = []) /\ cm_keys VC (side VC (gs h c) neg) = ks
  | _ => True
  end.
End Abs.
(* ====================================================================== *)
(* 4. the mutex holder's steps (Hoare-style, threads abstracted to f, sb)   *)
(* ====================================================================== *)
Definition holds (pc : npcL) : bool :=
  match pc with
  | oTicket _ _ | oSumLoad _ _ _ | oSumCas _ _ _ _ | oLoadSch _ _ _ | oLoadZt _ _ _ _ | oBkLoad _ _ _ _ _
  | oBkLos _ _ _ _ _ | oBkAdd _ _ _ _ _ | oBnAdd _ _ _ | oZero _ _ _ | oCount _ _ _ | lLoadBn _ _ _ | lLock _ _ | wLock _ | fCheck _ | cAdv _ _ | rLock _ => false
  | _ => true
  end.
Definition lstep := nstep VC [] (@app f64) (fun v => [v]) (fun l => Z.of_nat (length l)).
Definition SRT (h : nshL) : Prop :=
  srt (ns_pos VC (gs h false)) /\ srt (ns_neg VC (gs h false)) /\ srt (ns_pos VC (gs h true)) /\ srt (ns_neg VC (gs h true)).
Definition stab (s s' : nsetL) : Prop :=
  ns_sch VC s' = ns_sch VC s /\ ns_zt VC s' = ns_zt VC s /\
  forall neg k, cm_has VC (side VC s neg) k = true -> cm_has VC (side VC s' neg) k = true.
Definition Post (h : nshL) (f : bool -> Z) (sb : bool -> list f64) (h' : nshL) (nxt : npcL + nretL) : Prop :=
  match nxt with
  | inl pc' => Phi h' f sb pc' /\ holds pc' = true /\ nh_mtx VC h' = nh_mtx VC h
  | inr r => Phi0 h' f sb /\ good_ret r /\ nh_mtx VC h' = false
  end /\ nh_cfg VC h' = nh_cfg VC h /\ (forall X, 0 < f X -> stab (gs h X) (gs h' X)).

Ltac hsimp := cbn [gs cntv sec allP allN D1 D2 nget nput negb set_side set_sum set_cnt set_zb set_zt set_sch set_bn set_mtx
  upd_side side nh_cfg nh_hot nh_tk nh_s0 nh_s1 nh_mtx nh_rs set_rs rstore_set ns_sum ns_cnt ns_zb ns_zt ns_sch ns_bn ns_pos ns_neg
  no_sch no_zt no_zc no_count no_sum no_pos no_neg out_add Bool.eqb fst snd] in *.
Ltac stepin Hs := cbv beta iota zeta delta [lstep nstep] in Hs.
Lemma stab_refl s : stab s s. Proof. repeat split; auto. Qed.
Lemma has_del_false : forall (m : vmap) k k', cm_has VC (cm_del VC m k) k' = true -> cm_has VC m k' = true.
Proof.
  intros m k k'. rewrite !has_in. induction m as [|[k0 c0] r IH]; cbn; [tauto|].
  destruct (Z.eqb k k0); cbn; [auto|]. intros [E|E]; auto.
Qed.
Lemma has_upd (m : vmap) k f k' : cm_has VC (cm_upd VC m k f) k' = cm_has VC m k'.
Proof.
  destruct (cm_has VC m k') eqn:E.
  - apply has_in. rewrite keys_upd. apply has_in. exact E.
  - destruct (cm_has VC (cm_upd VC m k f) k') eqn:E'; [|reflexivity]. apply has_in in E'. rewrite keys_upd in E'. apply has_in in E'. congruence.
Qed.
Lemma has_ins (m : vmap) k c k' : cm_has VC m k' = true -> cm_has VC (cm_ins VC m k c) k' = true.
Proof. rewrite !has_in. apply in_keys_ins. Qed.

(* every step of the holder that changes only the cold set's threshold / schema / bucket number / deletes cold keys *)
Definition ColdOK (h h' : nshL) : Prop :=
  nh_hot VC h' = nh_hot VC h /\ nh_tk VC h' = nh_tk VC h /\ nh_mtx VC h' = nh_mtx VC h /\ nh_cfg VC h' = nh_cfg VC h /\
  gs h' (nh_hot VC h) = gs h (nh_hot VC h) /\
  cntv (gs h' (negb (nh_hot VC h))) = cntv (gs h (negb (nh_hot VC h))) /\
  ns_zb VC (gs h' (negb (nh_hot VC h))) = ns_zb VC (gs h (negb (nh_hot VC h))) /\
  (allc (ns_pos VC (gs h (negb (nh_hot VC h)))) = [] -> allc (ns_pos VC (gs h' (negb (nh_hot VC h)))) = []) /\
  (allc (ns_neg VC (gs h (negb (nh_hot VC h)))) = [] -> allc (ns_neg VC (gs h' (negb (nh_hot VC h)))) = []).
Lemma ColdOK_refl h : ColdOK h h. Proof. unfold ColdOK. repeat split; auto. Qed.
Lemma ColdOK_rs h r : ColdOK h (set_rs VC h r). Proof. destruct h. unfold ColdOK. repeat split; auto. Qed.
Lemma Phi0_cold h h' f sb : ColdOK h h' -> Phi0 h f sb -> Phi0 h' f sb.
Proof.
  intros (A1 & A2 & A3 & A4 & A5 & A6 & A7 & A8 & A9) (E & F & Q & B). unfold Phi0, Emp, EQ, Base in *. rewrite A1.
  destruct E as (E1 & E2 & E3 & E4). rewrite A5, A6, A7. repeat split; auto.
  - rewrite A2, B. destruct (nh_hot VC h); cbn [negb] in *; rewrite ?A5, ?A6; reflexivity.
Qed.
Lemma ColdOK_stab h h' f sb : ColdOK h h' -> Phi0 h f sb -> forall X, 0 < f X -> stab (gs h X) (gs h' X).
Proof.
  intros (A1 & A2 & A3 & A4 & A5 & _) (_ & F & _) X HX. destruct (Bool.eqb_spec X (nh_hot VC h)) as [->|N].
  - rewrite A5. apply stab_refl.
  - assert (X = negb (nh_hot VC h)) by (destruct X, (nh_hot VC h); cbn; congruence). subst X. lia.
Qed.

Section PreGroup.
Variables (h : nshL) (f : bool -> Z) (sb : bool -> list f64).
Hypothesis fsb : forall X, f X = 0 -> sb X = [].

Lemma pre_to_pre hb h' pc' : Pre h f sb hb -> ColdOK h h' -> Phi h' f sb pc' = Pre h' f sb hb -> holds pc' = true ->
  Post h f sb h' (inl pc').
Proof.
  intros [E P] CK EP Hh. unfold Post. rewrite EP. destruct CK as (A1 & A2 & A3 & A4 & A5) eqn:EC. clear EC.
  split; [split; [split; [congruence|apply (Phi0_cold h); [unfold ColdOK; tauto|exact P]]|split; [exact Hh|exact A3]]|].
  split; [exact A4|apply (ColdOK_stab h h' f sb); [unfold ColdOK; tauto|exact P]].
Qed.
Lemma pre_to_prec hb h' pc' : Pre h f sb hb -> ColdOK h h' -> Phi h' f sb pc' = PreC h' f sb (negb hb) -> holds pc' = true ->
  Post h f sb h' (inl pc').
Proof.
  intros [E P] CK EP Hh. unfold Post. rewrite EP. destruct CK as (A1 & A2 & A3 & A4 & A5) eqn:EC. clear EC.
  split; [split; [split; [congruence|apply (Phi0_cold h); [unfold ColdOK; tauto|exact P]]|split; [exact Hh|exact A3]]|].
  split; [exact A4|apply (ColdOK_stab h h' f sb); [unfold ColdOK; tauto|exact P]].
Qed.
End PreGroup.
Lemma keys_nil_map (m : vmap) : cm_keys VC m = [] -> m = [].
Proof. destruct m; [reflexivity|discriminate]. Qed.
Lemma find_app_notin (a b : vmap) k : ~ In k (cm_keys VC a) -> cm_find VC (a ++ b) k = cm_find VC b k.
Proof.
  induction a as [|[k0 c0] r IH]; cbn; intros H; [reflexivity|].
  destruct (Z.eqb_spec k k0); [subst; tauto|]. apply IH. tauto.
Qed.
Lemma keys_app (a b : vmap) : cm_keys VC (a ++ b) = cm_keys VC a ++ cm_keys VC b.
Proof. unfold cm_keys. apply map_app. Qed.
Lemma allc_app (a b : vmap) : allc (a ++ b) = allc a ++ allc b.
Proof. unfold allc. rewrite map_app, concat_app. reflexivity. Qed.
Lemma cells_cons (m : vmap) k ks : cells m (k :: ks) = cell m k ++ cells m ks. Proof. reflexivity. Qed.
Lemma perm_nil_l (l : list f64) : Permutation l [] -> l = [].
Proof. intros P. apply Permutation_sym in P. apply Permutation_nil in P. exact P. Qed.
Lemma srt_app_r (a b : vmap) : srt (a ++ b) -> srt b.
Proof.
  induction a as [|[k c] r IH]; [auto|]. cbn [app]. intros H. apply IH. destruct r as [|[k1 c1] r1]; cbn in *.
  - apply (lbound_srt VC k). exact H.
  - destruct H. assumption.
Qed.

Ltac post_stab := let X := fresh "X" in let HX := fresh "HX" in
  intros X HX; destruct X; hsimp; try apply stab_refl; try lia;
  (split; [reflexivity|split; [reflexivity|]]); intros ? ?; hsimp; rewrite ?has_upd; auto using has_ins.
Ltac post_misc := try reflexivity; try post_stab.

Section Hoare.
Variables (f : bool -> Z) (sb : bool -> list f64).
Hypothesis fsb : forall X, f X = 0 -> sb X = [].
Hypothesis fpos : forall X, 0 <= f X.

(* ---- flips ---- *)
Lemma flip_cool h : Phi0 h f sb ->
  Cool (mkNH VC (nh_cfg VC h) (negb (nh_hot VC h)) (nh_tk VC h) (nh_s0 VC h) (nh_s1 VC h) (nh_mtx VC h) (nh_rs VC h)) f sb (nh_hot VC h) (nh_tk VC h).
Proof.
  intros ((E1 & E2 & E3 & E4) & F & Q & B). destruct h as [g H tk s0 s1 m rs]. unfold Cool, EQ, Base in *. hsimp.
  pose proof (fsb _ F) as SB0. destruct H; hsimp; unfold sec; rewrite ?E1, ?E2, ?E3, ?E4, ?SB0 in *; cbn [app nn filter] in *; change (zl []) with 0 in *;
    repeat split; auto; try lia.
Qed.

(* ---- cooldown exit ---- *)
Lemma cool_exit h c count : Cool h f sb c count -> zl (cntv (gs h c)) = count ->
  Read h f sb c count /\ TR h f sb c (cntv (gs h c)) (ns_zb VC (gs h c)) (allP h c) (allN h c).
Proof.
  intros (Hh & Q1 & Q2 & Ec & B) Ez. assert (F : f c = 0) by lia. pose proof (fsb _ F) as SB0.
  split; [unfold Read; repeat split; auto|]. unfold TR. repeat split; auto.
  - unfold EQ in *. rewrite SB0, app_nil_r in Q2. rewrite nn_app.
    change (ns_zb VC (gs h c) ++ allP h c ++ allN h c) with (sec (gs h c)). rewrite Q1, Q2. perm.
  - unfold Base in B. destruct c; cbn [negb] in *; lia.
Qed.

(* ---- Write's reads ---- *)
Lemma good_of_read h c o : SRT h -> Read h f sb c (no_count VC o) -> RdOut h c o ->
  no_pos VC o = ns_pos VC (gs h c) -> no_neg VC o = ns_neg VC (gs h c) -> good_out o.
Proof.
  intros (S1 & S2 & S3 & S4) (Hh & F & Q1 & Q2 & Ez & B) (Z1 & Z2) EP EN. exists (cntv (gs h c)). split; [auto|].
  rewrite Z1, EP, EN. unfold EQ in Q2. rewrite (fsb _ F), app_nil_r in Q2. split; [exact Q2|].
  destruct c; cbn [gs nget] in *; auto.
Qed.
Lemma read_tr h c count : Read h f sb c count -> TR h f sb c (cntv (gs h c)) (ns_zb VC (gs h c)) (allP h c) (allN h c).
Proof.
  intros (Hh & F & Q1 & Q2 & Ez & B). refine (proj2 (cool_exit h c count _ Ez)). unfold Cool. repeat split; auto. lia.
Qed.
Lemma read_next h c neg o rem : SRT h -> Read h f sb c (no_count VC o) -> RdOut h c o -> RdSide h c neg o rem ->
  Phi h f sb (w_next VC c neg o rem) /\ holds (w_next VC c neg o rem) = true.
Proof.
  intros HS HR HO (m' & Es & Ek & Eo). destruct rem as [|k ks]; cbn [w_next].
  - apply keys_nil_map in Ek. subst m'. rewrite app_nil_r in Es. destruct neg.
    + split; [|reflexivity]. cbn [Phi]. hsimp. rewrite <- Es. auto.
    + split; [|reflexivity]. cbn [Phi]. hsimp. split; [apply (read_tr h c _ HR)|].
      cbn [good_ret]. apply (good_of_read h c o HS HR HO); [symmetry; exact Es|exact Eo].
  - split; [|reflexivity]. cbn [Phi]. split; [exact HR|split; [exact HO|]]. exists m'. auto.
Qed.
End Hoare.
Lemma cells_del (m : vmap) kk ks : ~ In kk ks -> cells (cm_del VC m kk) ks = cells m ks.
Proof. intros N. apply cells_frame. intros k Hk. apply find_del_other. intros ->. tauto. Qed.
Lemma cells_zero (m : vmap) kk ks g : ~ In kk ks -> cells (cm_upd VC m kk g) ks = cells m ks.
Proof. intros N. apply cells_frame. intros k Hk. apply find_upd_other. intros ->. tauto. Qed.
Lemma clean_del (m : vmap) kk ks : Permutation (allc m) (cells m (kk :: ks)) -> ~ In kk ks ->
  Permutation (allc (cm_del VC m kk)) (cells (cm_del VC m kk) ks).
Proof.
  intros P N. rewrite (cells_del m kk ks N). rewrite cells_cons, (allc_del m kk) in P.
  apply Permutation_app_inv_l in P. exact P.
Qed.
Lemma clean_zero (m : vmap) kk ks : Permutation (allc m) (cells m (kk :: ks)) -> ~ In kk ks ->
  Permutation (allc (cm_upd VC m kk (fun _ => []))) (cells (cm_upd VC m kk (fun _ => [])) ks).
Proof.
  intros P N. rewrite (cells_zero m kk ks _ N). rewrite cells_cons, (allc_zero m kk) in P.
  apply Permutation_app_inv_l in P. exact P.
Qed.

Section Hoare2.
Variables (f : bool -> Z) (sb : bool -> list f64).
Hypothesis fsb : forall X, f X = 0 -> sb X = [].
Hypothesis fpos : forall X, 0 <= f X.

Lemma tr_done h c : TR h f sb c [] [] [] [] -> D1 h c ->
  nh_hot VC h = negb c /\ f c = 0 /\ EQ h sb (negb c) /\ Base h f.
Proof.
  intros (Hh & F & P & K) d1. repeat split; auto.
  - unfold EQ. rewrite !app_nil_r in P. exact P.
  - unfold Base, D1 in *. change (zl []) with 0 in K. destruct c; cbn [negb] in *; rewrite d1; change (zl []) with 0; lia.
Qed.
Lemma tr_phi0 h c : TR h f sb c [] [] [] [] -> D1 h c -> D2 h c -> allP h c = [] -> allN h c = [] -> Phi0 h f sb.
Proof.
  intros T d1 d2 p n. destruct (tr_done h c T d1) as (Hh & F & Q & B). unfold Phi0. rewrite Hh, Bool.negb_involutive.
  repeat split; auto.
Qed.

Lemma loop_next h k c neg r ks : LOOP h f sb k c neg [] ks ks ks -> good_ret r ->
  Phi h f sb (m_next VC k c neg r ks) /\ holds (m_next VC k c neg r ks) = true.
Proof.
  intros (T & d1 & d2 & ND & CL) G. destruct ks as [|kk ks]; cbn [m_next].
  - cbn [cells map concat app] in T, CL. destruct neg.
    + destruct (is_kd k) eqn:Ek.
      * destruct k; try discriminate. split; [|reflexivity]. cbn [Phi]. destruct (tr_done h c T d1) as (Hh & F & Q & B).
        unfold PostDel. repeat split; auto.
      * destruct (CL eq_refl) as [C1 C2]. apply perm_nil_l in C1.
        assert (P0 : Phi0 h f sb) by (apply (tr_phi0 h c T d1 d2); [apply C2; reflexivity|exact C1]).
        destruct k; try discriminate; (split; [|reflexivity]); cbn [Phi]; auto.
    + split; [|reflexivity]. cbn [Phi]. split; [exact T|split; [exact G|split; [exact d1|split; [exact d2|]]]].
      intros Ek _. destruct (CL Ek) as [C1 _]. apply perm_nil_l in C1. exact C1.
  - split; [|reflexivity]. cbn [Phi]. split; [|exact G]. unfold LOOP. auto.
Qed.

Lemma range_loop h k c (neg : bool) (r : nretL) : SRT h ->
  TR h f sb c [] [] (if neg then [] else allP h c) (allN h c) -> good_ret r -> D1 h c -> D2 h c ->
  (is_kd k = false -> neg = true -> allP h c = []) ->
  Phi h f sb (m_next VC k c neg r (cm_keys VC (side VC (gs h c) neg))) /\
  holds (m_next VC k c neg r (cm_keys VC (side VC (gs h c) neg))) = true.
Proof.
  intros HS T G d1 d2 CP. apply loop_next; [|exact G].
  assert (Sd : srt (side VC (gs h c) neg)) by (destruct HS as (S1 & S2 & S3 & S4); destruct c, neg; assumption).
  unfold LOOP. split; [|split; [exact d1|split; [exact d2|split; [apply srt_nodup; exact Sd|]]]].
  - destruct neg; cbn [side] in *; cbn [app]; rewrite (cells_keys_srt _ Sd); exact T.
  - intros Ek. rewrite (cells_keys_srt _ Sd). split; [reflexivity|apply CP; exact Ek].
Qed.

Lemma postdel_next h c neg ks : PostDel h f sb c -> (neg = false -> ns_neg VC (gs h c) = []) ->
  cm_keys VC (side VC (gs h c) neg) = ks ->
  Phi h f sb (e_next VC EPost c neg ks) /\ holds (e_next VC EPost c neg ks) = true.
Proof.
  intros PD HN EK. destruct ks as [|k ks]; cbn [e_next].
  - apply keys_nil_map in EK. destruct neg; (split; [|reflexivity]); cbn [Phi].
    + split; [exact PD|]. intros _. exact EK.
    + split; [|exact I]. destruct PD as (Hh & F & Q & B & d1 & d2). unfold Phi0. rewrite Hh, Bool.negb_involutive.
      cbn [side] in EK. unfold Emp. rewrite EK, (HN eq_refl). repeat split; auto.
  - split; [|reflexivity]. cbn [Phi]. auto.
Qed.
End Hoare2.
Lemma ColdOK_nput h hb s' : hb = nh_hot VC h -> cntv s' = cntv (gs h (negb hb)) -> ns_zb VC s' = ns_zb VC (gs h (negb hb)) ->
  (allc (ns_pos VC (gs h (negb hb))) = [] -> allc (ns_pos VC s') = []) ->
  (allc (ns_neg VC (gs h (negb hb))) = [] -> allc (ns_neg VC s') = []) -> ColdOK h (nput VC h (negb hb) s').
Proof.
  intros ->. destruct h as [g H tk s0 s1 m rs]. unfold ColdOK. destruct H; hsimp; intros; repeat split; auto.
Qed.
Lemma rdside_step h c neg o k ks : SRT h -> RdSide h c neg o (k :: ks) ->
  RdSide h c neg (out_add VC o neg k (match cm_find VC (side VC (gs h c) neg) k with Some x => x | None => [] end)) ks.
Proof.
  intros HS (m' & Es & Ek & Eo). destruct m' as [|[k0 x0] m'']; [discriminate|]. cbn [cm_keys map fst] in Ek. inversion Ek. subst k0.
  assert (Sd : srt (side VC (gs h c) neg)) by (destruct HS as (S1 & S2 & S3 & S4); destruct c, neg; assumption).
  assert (NI : ~ In k (cm_keys VC (if neg then no_neg VC o else no_pos VC o))).
  { apply srt_nodup in Sd. rewrite Es, keys_app in Sd. cbn [cm_keys map fst] in Sd. apply NoDup_remove_2 in Sd.
    intros Hin. apply Sd. apply in_or_app. left. exact Hin. }
  rewrite Es, (find_app_notin _ _ _ NI). cbn [cm_find]. rewrite Z.eqb_refl.
  exists m''. split; [|split; [reflexivity|]]; destruct neg; hsimp; rewrite <- ?app_assoc; cbn [app]; auto.
Qed.
Lemma loop_load h f sb k c neg n kk ks r' nd : cm_find VC (side VC (gs h c) neg) kk = Some n ->
  LOOP h f sb k c neg [] (kk :: ks) r' nd -> LOOP h f sb k c neg n ks r' nd.
Proof.
  intros Ef (T & R). split; [|exact R]. destruct neg; cbn [side] in Ef; rewrite cells_cons in T; unfold cell in T; rewrite Ef in T;
    cbn [app] in *; exact T.
Qed.
Lemma loop_skip h f sb k c neg kk ks : cm_find VC (side VC (gs h c) neg) kk = None ->
  LOOP h f sb k c neg [] (kk :: ks) (kk :: ks) (kk :: ks) -> LOOP h f sb k c neg [] ks ks ks.
Proof.
  intros Ef (T & d1 & d2 & ND & CL). split; [|split; [exact d1|split; [exact d2|split; [inversion ND; assumption|]]]].
  - destruct neg; cbn [side] in Ef; rewrite cells_cons in T; unfold cell in T; rewrite Ef in T; cbn [app] in *; exact T.
  - intros Ek. destruct (CL Ek) as [C1 C2]. split; [|exact C2]. rewrite cells_cons in C1. unfold cell in C1. rewrite Ef in C1. exact C1.
Qed.
Lemma post_same h f sb pc' : Phi h f sb pc' /\ holds pc' = true -> Post h f sb h (inl pc').
Proof. intros [A B]. unfold Post. repeat split; auto; apply stab_refl. Qed.
Ltac conc h c := destruct h as [g0 H0 tk0 s00 s10 m0 rs0]; unfold LOOP, TR, D1, D2, allP, allN, PostDel, EQ, Base, Read, Cool, RdOut, cntv in *; hsimp;
  repeat match goal with H : _ /\ _ |- _ => destruct H end; subst; destruct c; hsimp.
Ltac nd_cons ND := let A := fresh "NI" in let B := fresh "ND'" in inversion ND as [|? ? A B]; subst.

Section Hoare3.
Variables (f : bool -> Z) (sb : bool -> list f64).
Hypothesis fsb : forall X, f X = 0 -> sb X = [].
Hypothesis fpos : forall X, 0 <= f X.

(* hot zero bucket += n (widening) *)
Lemma step_mAddZb h k c neg n kk ks : LOOP h f sb k c neg n ks (kk :: ks) (kk :: ks) ->
  LOOP (nput VC h (negb c) (set_zb VC (gs h (negb c)) (ns_zb VC (gs h (negb c)) ++ n))) f sb k c neg [] ks (kk :: ks) (kk :: ks).
Proof.
  intros L. conc h c; unfold sec in *; hsimp; destruct neg; cbn [app] in *; repeat split; auto; try tauto;
    match goal with P : Permutation _ ?R |- Permutation _ ?R => rewrite <- P; perm end.
Qed.
(* delete the merged cold bucket (widening) *)
Lemma step_mDel h k c neg kk ks : LOOP h f sb k c neg [] ks (kk :: ks) (kk :: ks) ->
  LOOP (upd_side VC h c neg (fun m => cm_del VC m kk)) f sb k c neg [] ks ks (kk :: ks).
Proof.
  intros L. conc h c; destruct neg; hsimp; cbn [app] in *;
    match goal with ND : NoDup (_ :: _) |- _ => nd_cons ND end; rewrite ?(cells_del _ _ _ NI);
    repeat split; auto; try (intros; discriminate); try tauto;
    (rewrite <- (cells_del _ kk ks NI); apply clean_del; [tauto|assumption]).
Qed.
(* zero the merged cold bucket *)
Lemma step_mStore h k c neg kk ks : LOOP h f sb k c neg [] ks (kk :: ks) (kk :: ks) ->
  LOOP (upd_side VC h c neg (fun m => cm_upd VC m kk (fun _ => []))) f sb k c neg [] ks ks ks.
Proof.
  intros L. conc h c; destruct neg; hsimp; cbn [app] in *;
    match goal with ND : NoDup (_ :: _) |- _ => nd_cons ND end; rewrite ?(cells_zero _ _ _ _ NI);
    repeat split; auto; try (intros; discriminate); try tauto;
    (rewrite <- (cells_zero _ kk ks (fun _ => []) NI); apply clean_zero; [tauto|assumption]).
Qed.
(* changes of the cold set that the loop assertion does not mention (bucket number) *)
Lemma step_cold_bn h k c neg infl rem rem' nd x : LOOP h f sb k c neg infl rem rem' nd ->
  LOOP (nput VC h c (set_bn VC (gs h c) x)) f sb k c neg infl rem rem' nd.
Proof. intros L. conc h c; destruct neg; hsimp; repeat split; auto; tauto. Qed.
Lemma step_hot_bn h k c neg infl rem rem' nd x : LOOP h f sb k c neg infl rem rem' nd ->
  LOOP (nput VC h (negb c) (set_bn VC (gs h (negb c)) x)) f sb k c neg infl rem rem' nd.
Proof. intros L. conc h c; destruct neg; hsimp; repeat split; auto; tauto. Qed.
(* the loaded bucket n goes into the hot map: stored as a new bucket / added to an existing one *)
Lemma step_bIns h k c neg n kk ks tk : cm_has VC (side VC (gs h (negb c)) neg) tk = false ->
  LOOP h f sb k c neg n ks (kk :: ks) (kk :: ks) ->
  LOOP (upd_side VC h (negb c) neg (fun m => cm_ins VC m tk n)) f sb k c neg [] ks (kk :: ks) (kk :: ks).
Proof.
  intros Hn L. conc h c; unfold sec in *; destruct neg; hsimp; cbn [app] in *; repeat split; auto; try tauto;
    match goal with P : Permutation _ ?R |- Permutation _ ?R => rewrite <- P; rewrite (allc_ins _ _ _ Hn); perm end.
Qed.
Lemma step_bAdd h k c neg n kk ks tk : cm_has VC (side VC (gs h (negb c)) neg) tk = true ->
  LOOP h f sb k c neg n ks (kk :: ks) (kk :: ks) ->
  LOOP (upd_side VC h (negb c) neg (fun m => cm_upd VC m tk (fun x => x ++ n))) f sb k c neg [] ks (kk :: ks) (kk :: ks).
Proof.
  intros Hn L. conc h c; unfold sec in *; destruct neg; hsimp; cbn [app] in *; repeat split; auto; try tauto;
    match goal with P : Permutation _ ?R |- Permutation _ ?R => rewrite <- P; rewrite (allc_upd_app _ _ _ Hn); perm end.
Qed.
Lemma loop_tail h k c neg ks kk : LOOP h f sb k c neg [] ks (kk :: ks) (kk :: ks) -> is_kd k = true -> LOOP h f sb k c neg [] ks ks ks.
Proof.
  intros (T & d1 & d2 & ND & CL) Ek. split; [exact T|split; [exact d1|split; [exact d2|split; [inversion ND; assumption|]]]].
  intros E. congruence.
Qed.
Lemma loop_nd h k c neg ks kk : LOOP h f sb k c neg [] ks ks (kk :: ks) -> LOOP h f sb k c neg [] ks ks ks.
Proof. intros (T & d1 & d2 & ND & CL). split; [exact T|split; [exact d1|split; [exact d2|split; [inversion ND; assumption|exact CL]]]]. Qed.
End Hoare3.
Section Hoare4.
Variables (f : bool -> Z) (sb : bool -> list f64).
Hypothesis fsb : forall X, f X = 0 -> sb X = [].
Hypothesis fpos : forall X, 0 <= f X.

Lemma pre_step h h' hb pc' : Pre h f sb hb -> ColdOK h h' -> (Pre h' f sb hb -> Phi h' f sb pc') -> holds pc' = true ->
  Post h f sb h' (inl pc').
Proof.
  intros [E P] CK EP Hh. pose proof CK as (A1 & A2 & A3 & A4 & A5).
  unfold Post. split; [split; [apply EP; split; [congruence|apply (Phi0_cold h); assumption]|split; [exact Hh|exact A3]]|].
  split; [exact A4|apply (ColdOK_stab h h' f sb); assumption].
Qed.
Lemma prec_pre h c : PreC h f sb c <-> Pre h f sb (negb c).
Proof. unfold PreC, Pre. split; intros [E P]; (split; [|exact P]); destruct c, (nh_hot VC h); cbn in *; congruence. Qed.

Ltac inv Hs := inversion Hs; subst; clear Hs.
Ltac ifs := repeat match goal with |- context [if ?c then _ else _] => destruct c end.
Ltac stab_tac := let X := fresh "X" in let HX := fresh "HX" in
  intros X HX; destruct X; hsimp; try apply stab_refl; try lia;
  (split; [reflexivity|split; [reflexivity|]]); intros ? ?; hsimp; rewrite ?has_upd; auto using has_ins.

(* post-cooldown steps: the state changes, the assertion of the next pc is supplied *)
Lemma post_tr h h' c pc' : nh_hot VC h = negb c -> f c = 0 -> Phi h' f sb pc' -> holds pc' = true ->
  nh_mtx VC h' = nh_mtx VC h -> nh_cfg VC h' = nh_cfg VC h -> stab (gs h (negb c)) (gs h' (negb c)) ->
  Post h f sb h' (inl pc').
Proof.
  intros Hh F P Hd M G S. unfold Post. repeat split; auto; destruct X; destruct c; cbn [negb] in *; try lia; apply S.
Qed.

Definition is_reset (pc : npcL) : bool :=
  match pc with
  | rLoadIdx _ | rStore _ _ _ _ _ | rRange _ _ _ _ _ | rDel _ _ _ _ _ _ | hSumLoad _ _ _ | hSumCas _ _ _ _ | hLoadSch _ _ _
  | hLoadZt _ _ _ _ | hBkLoad _ _ _ _ _ | hBkLos _ _ _ _ _ | hBkAdd _ _ _ _ _ | hBnAdd _ _ _ | hZero _ _ _ | hCount _ _ _
  | rSwap _ _ _ | rCool _ _ _ _ | rSpin _ _ _ _ => true
  | _ => false
  end.
Ltac rconc h := destruct h as [g0 H0 tk0 s00 s10 m0 rs0];
  unfold HB, RC, Wipe, PreC, PostDel in *; unfold Phi0 in *; unfold Emp, EQ, Base, D1, D2, cntv, sec, upd_side in *; hsimp;
  repeat match goal with H : _ /\ _ |- _ => destruct H end; subst; hsimp.
Ltac rnil := repeat match goal with H : ?a = [] |- _ => progress (rewrite H in * ) end; change (zl []) with 0 in *; cbn [app] in *.
(* a step of the reset path that changes only the drained/cold set x (no observer is in flight on it) *)
Lemma post_x h h' x pc' : x = negb (nh_hot VC h) -> f x = 0 -> Phi h' f sb pc' -> holds pc' = true ->
  nh_mtx VC h' = nh_mtx VC h -> nh_cfg VC h' = nh_cfg VC h -> gs h' (negb x) = gs h (negb x) -> Post h f sb h' (inl pc').
Proof.
  intros E F P Hd M G S. apply (post_tr h h' x pc'); auto; [rewrite E, Bool.negb_involutive; reflexivity|rewrite S; apply stab_refl].
Qed.

Lemma prec_facts h x : PreC h f sb x -> x = negb (nh_hot VC h) /\ f x = 0.
Proof. intros [E (_ & F & _)]. split; [exact E|rewrite E; exact F]. Qed.

Lemma r_done_mtx h rk ph neg ks : nh_mtx VC (r_done VC rk ph neg ks h) = nh_mtx VC h.
Proof. destruct ks, neg, ph, h; reflexivity. Qed.
Lemma r_done_cfg h rk ph neg ks : nh_cfg VC (r_done VC rk ph neg ks h) = nh_cfg VC h.
Proof. destruct ks, neg, ph, h; reflexivity. Qed.
Lemma r_done_gs h rk ph neg ks X : gs (r_done VC rk ph neg ks h) X = gs h X.
Proof. destruct ks, neg, ph, h, X; reflexivity. Qed.
Lemma r_done_R1 h rk neg ks : r_done VC rk R1 neg ks h = h.
Proof. destruct ks, neg, h; reflexivity. Qed.
Lemma phi0_rs h r : Phi0 h f sb -> Phi0 (set_rs VC h r) f sb.
Proof. destruct h. intros P. exact P. Qed.
Lemma r1_next h rk x neg ks : PreC h f sb x -> Phi h f sb (r_next VC rk R1 x neg ks) /\ holds (r_next VC rk R1 x neg ks) = true.
Proof. intros P. destruct ks, neg, rk; cbn [r_next r_after Phi]; split; try reflexivity; exact P. Qed.
Lemma r2_next h rk c neg ks : PostDel h f sb c -> (neg = false -> ns_neg VC (gs h c) = []) -> cm_keys VC (side VC (gs h c) neg) = ks ->
  Phi (r_done VC rk R2 neg ks h) f sb (r_next VC rk R2 c neg ks) /\ holds (r_next VC rk R2 c neg ks) = true.
Proof.
  intros PD HN EK. destruct ks as [|k ks]; cbn [r_next r_done].
  - apply keys_nil_map in EK. destruct neg; (split; [|reflexivity]); cbn [Phi r_after].
    + split; [exact PD|]. intros _. exact EK.
    + split; [|exact I]. apply phi0_rs. destruct PD as (Hh & F & Q & B & d1 & d2). unfold Phi0. rewrite Hh, Bool.negb_involutive.
      cbn [side] in EK. unfold Emp. rewrite EK, (HN eq_refl). repeat split; auto.
  - split; [|reflexivity]. cbn [Phi]. auto.
Qed.

Lemma hoare_reset h pc h' nxt : SRT h -> Phi h f sb pc -> is_reset pc = true -> lstep h pc = Some (h', nxt) -> Post h f sb h' nxt.
Proof.
  intros HS HP Hr Hs. destruct pc; try discriminate Hr; cbn [Phi] in HP; stepin Hs.
  - (* rLoadIdx *) inv Hs. apply post_same. cbn [Phi]. split; [split; [reflexivity|exact HP]|reflexivity].
  - (* rStore *) inv Hs. destruct ph.
    + destruct (prec_facts h x HP) as [E F].
      apply (post_x h _ x _ E F); [| | | |].
      * assert (P : PreC (nput VC h x (rstore_set VC [] (nh_cfg VC h) (nget VC h x) fd)) f sb x).
        { clear - HP. rconc h. destruct H0, fd; hsimp; repeat split; auto; congruence. }
        destruct fd; cbn [rfield_next Phi]; exact P.
      * destruct fd; reflexivity.
      * destruct h, x; reflexivity.
      * destruct h, x; reflexivity.
      * destruct h as [g0 H0 tk0 s00 s10 m0 rs0]; destruct x; reflexivity.
    + destruct HP as (W & d1 & d2). pose proof W as (Hh' & F & _).
      apply (post_tr h _ x _ Hh' F); [| | | |].
      * clear - W d1 d2. rconc h. destruct x, fd; hsimp; cbn [rfield_next Phi stored] in *; unfold Wipe, PostDel, D1, D2, EQ, Base, cntv, sec in *; hsimp;
          repeat split; auto; try (intros; discriminate); try lia;
          try (match goal with H : true = true -> _ |- _ => apply H; reflexivity end);
          try (match goal with H : true = true -> ?a = [] |- _ => rewrite (H eq_refl) end; change (zl []) with 0; lia).
      * destruct fd; reflexivity.
      * destruct h, x; reflexivity.
      * destruct h, x; reflexivity.
      * destruct h as [g0 H0 tk0 s00 s10 m0 rs0]; destruct x; hsimp; apply stab_refl.
  - (* rRange *) injection Hs as E1 E2. subst h' nxt. destruct ph.
    + rewrite r_done_R1. apply post_same. apply r1_next. exact HP.
    + destruct HP as [PD HN]. pose proof PD as (Hh' & F & _).
      destruct (r2_next h rk x neg _ PD HN eq_refl) as [Q1 Q2]. apply (post_tr h _ x _ Hh' F Q1 Q2).
      * apply r_done_mtx. * apply r_done_cfg. * rewrite r_done_gs. apply stab_refl.
  - (* rDel *) destruct ks as [|k ks]; injection Hs as E1 E2; subst h' nxt; destruct ph.
    + change (Post h f sb (r_done VC rk R1 neg [] h) (inl (r_next VC rk R1 x neg []))).
      rewrite r_done_R1. apply post_same. apply r1_next. exact HP.
    + change (Post h f sb (r_done VC rk R2 neg [] h) (inl (r_next VC rk R2 x neg []))).
      destruct HP as (PD & HN & EK). pose proof PD as (Hh' & F & _).
      destruct (r2_next h rk x neg _ PD HN EK) as [Q1 Q2]. apply (post_tr h _ x _ Hh' F Q1 Q2).
      * apply r_done_mtx. * apply r_done_cfg. * rewrite r_done_gs. apply stab_refl.
    + rewrite r_done_R1. destruct (prec_facts h x HP) as [E F].
      assert (P : PreC (upd_side VC h x neg (fun m => cm_del VC m k)) f sb x).
      { clear - HP. rconc h. destruct H0, neg; hsimp; repeat split; auto using allc_nil_del. }
      destruct (r1_next _ rk x neg ks P) as [Q1 Q2]. apply (post_x h _ x _ E F Q1 Q2).
      * destruct h, x; reflexivity. * destruct h, x; reflexivity.
      * destruct h as [g0 H0 tk0 s00 s10 m0 rs0]; destruct x; reflexivity.
    + destruct HP as (PD & HN & EK). pose proof PD as (Hh' & F & _).
      assert (A : exists y rest, side VC (gs h x) neg = (k, y) :: rest /\ cm_keys VC rest = ks).
      { destruct (side VC (gs h x) neg) as [|[k0 y] rest]; [discriminate|]. cbn [cm_keys map fst] in EK. inversion EK. subst. eauto. }
      destruct A as (y & rest & Es & Er).
      set (h1 := upd_side VC h x neg (fun m => cm_del VC m k)).
      assert (PD1 : PostDel h1 f sb x) by (clear HN EK Es Er; unfold h1; conc h x; destruct neg; hsimp; repeat split; auto).
      assert (HN1 : neg = false -> ns_neg VC (gs h1 x) = []).
      { intros ->. specialize (HN eq_refl). clear PD PD1 EK Es Er. unfold h1. destruct h as [g0 H0 tk0 s00 s10 m0 rs0]. hsimp. subst. destruct x; hsimp; exact HN. }
      assert (EK1 : cm_keys VC (side VC (gs h1 x) neg) = ks).
      { unfold gs in Es. clear PD PD1 HN HN1 EK. unfold h1. destruct h as [g0 H0 tk0 s00 s10 m0 rs0]. hsimp. subst. destruct x, neg; hsimp; rewrite Es, keys_del_head; reflexivity. }
      destruct (r2_next h1 rk x neg ks PD1 HN1 EK1) as [Q1 Q2]. apply (post_tr h _ x _ Hh' F Q1 Q2).
      * rewrite r_done_mtx. unfold h1. destruct h, x; reflexivity.
      * rewrite r_done_cfg. unfold h1. destruct h, x; reflexivity.
      * rewrite r_done_gs. unfold h1. destruct h as [g0 H0 tk0 s00 s10 m0 rs0]; destruct x; hsimp; apply stab_refl.
  - (* hSumLoad *) inv Hs. apply post_same. cbn [Phi]. split; [exact HP|reflexivity].
  - (* hSumCas *) destruct (fbits_eq _ _); inv Hs; [|apply post_same; cbn [Phi]; split; [exact HP|reflexivity]].
    destruct (prec_facts h x HP) as [E F].
    apply (post_x h _ x _ E F); [| | | |].
    + destruct (is_nan v) eqn:En; cbn [Phi].
      * clear - HP En. rconc h. destruct H0; hsimp; unfold nn at 1; cbn [filter]; rewrite En; cbn [negb]; rnil; repeat split; auto; lia.
      * split; [|exact En]. clear - HP. rconc h. destruct H0; hsimp; repeat split; auto.
    + destruct (is_nan v); reflexivity.
    + destruct h, x; reflexivity. + destruct h, x; reflexivity.
    + destruct h as [g0 H0 tk0 s00 s10 m0 rs0]; destruct x; reflexivity.
  - (* hLoadSch *) inv Hs. apply post_same. cbn [Phi]. split; [exact HP|reflexivity].
  - (* hLoadZt *) inv Hs. apply post_same. ifs; cbn [Phi]; (split; [exact HP|reflexivity]).
  - (* hBkLoad *) inv Hs. apply post_same. change (nget VC h' x) with (gs h' x).
    destruct (cm_has VC (side VC (gs h' x) neg) k) eqn:Eh; cbn [Phi]; (split; [|reflexivity]); tauto.
  - (* hBkLos *) change (nget VC h x) with (gs h x) in Hs. destruct (cm_has VC (side VC (gs h x) neg) k) eqn:Eh; inv Hs.
    + apply post_same. cbn [Phi]. split; [|reflexivity]. tauto.
    + destruct HP as [HP Nn]. destruct (prec_facts h x HP) as [E F].
      apply (post_x h _ x _ E F); [| reflexivity | | |].
      * cbn [Phi]. split; [|exact Nn]. clear - HP Nn Eh. rconc h.
        destruct H0, neg; hsimp; unfold nn at 1; cbn [filter]; rewrite Nn; cbn [negb]; rewrite ?(allc_ins _ _ _ Eh); rnil; repeat split; auto; lia.
      * destruct h, x; reflexivity. * destruct h, x; reflexivity.
      * destruct h as [g0 H0 tk0 s00 s10 m0 rs0]; destruct x; reflexivity.
  - (* hBkAdd *) inv Hs. destruct HP as (HP & Nn & Eh). destruct (prec_facts h x HP) as [E F].
    apply (post_x h _ x _ E F); [| reflexivity | | |].
    + cbn [Phi]. clear - HP Nn Eh. rconc h.
      destruct H0, neg; hsimp; unfold nn at 1; cbn [filter]; rewrite Nn; cbn [negb]; rewrite ?(allc_upd_app _ _ _ Eh); rnil; repeat split; auto; lia.
    + destruct h, x; reflexivity. + destruct h, x; reflexivity.
    + destruct h as [g0 H0 tk0 s00 s10 m0 rs0]; destruct x; reflexivity.
  - (* hBnAdd *) inv Hs. destruct HP as [HP Nn]. pose proof HP as (E & F & _).
    apply (post_x h _ x _ E F); [| reflexivity | | |].
    + cbn [Phi]. clear - HP. rconc h. destruct H0; hsimp; repeat split; auto.
    + destruct h, x; reflexivity. + destruct h, x; reflexivity.
    + destruct h as [g0 H0 tk0 s00 s10 m0 rs0]; destruct x; reflexivity.
  - (* hZero *) inv Hs. destruct HP as [HP Nn]. destruct (prec_facts h x HP) as [E F].
    apply (post_x h _ x _ E F); [| reflexivity | | |].
    + cbn [Phi]. clear - HP Nn. rconc h.
      destruct H0; hsimp; unfold nn at 1; cbn [filter]; rewrite Nn; cbn [negb]; rnil; repeat split; auto; lia.
    + destruct h, x; reflexivity. + destruct h, x; reflexivity.
    + destruct h as [g0 H0 tk0 s00 s10 m0 rs0]; destruct x; reflexivity.
  - (* hCount *) inv Hs. pose proof HP as (E & F & _).
    apply (post_x h _ x _ E F); [| reflexivity | | |].
    + cbn [Phi]. clear - HP. rconc h. destruct H0; hsimp; rnil; repeat split; auto.
    + destruct h, x; reflexivity. + destruct h, x; reflexivity.
    + destruct h as [g0 H0 tk0 s00 s10 m0 rs0]; destruct x; reflexivity.
  - (* rSwap *) inv Hs. unfold Post. split; [split; [|split; reflexivity]|split; [reflexivity|intros X _; destruct h, X; apply stab_refl]].
    cbn [Phi]. destruct rk as [v|].
    + pose proof HP as (E & F & _). pose proof (fsb _ F) as SB0. clear - HP SB0. rconc h. destruct H0; hsimp; rewrite ?SB0 in *; rnil;
        match goal with H : ns_cnt VC _ = [_] |- _ => rewrite H in * end;
        rewrite ?app_nil_r; unfold zl in *; cbn [length] in *; repeat split; auto; lia.
    + destruct (prec_facts h x HP) as [E F]. pose proof (fsb _ F) as SB0. clear - HP SB0. rconc h. destruct H0; hsimp; rewrite ?SB0 in *; rnil;
        repeat split; auto; lia.
  - (* rCool *) inv Hs. apply post_same.
    match goal with |- context [Z.eqb ?a ?b] => destruct (Z.eqb_spec a b) as [Ez|Ez] end.
    + cbn [Phi stored]. split; [|reflexivity]. destruct HP as (Hh & Q1 & Q2 & Ec & K).
      assert (F : f c = 0) by (unfold cntv, gs, zl in *; lia).
      split; [unfold Wipe; repeat split; auto|split; intros E; discriminate E].
    + cbn [Phi]. split; [exact HP|reflexivity].
  - (* rSpin *) inv Hs. apply post_same. cbn [Phi]. split; [exact HP|reflexivity].
Qed.

Lemma hoare h pc h' nxt : SRT h -> Phi h f sb pc -> holds pc = true -> lstep h pc = Some (h', nxt) -> Post h f sb h' nxt.
Proof.
  intros HS HP Hh Hs. destruct (is_reset pc) eqn:Eres; [exact (hoare_reset h pc h' nxt HS HP Eres Hs)|].
  destruct pc; try discriminate Hh; try discriminate Eres; cbn [Phi] in HP; stepin Hs.
  - (* lLoadIdx *) inv Hs. apply post_same. cbn [Phi]. split; [split; [reflexivity|exact HP]|reflexivity].
  - (* lLoadBn2 *) destruct (_ <=? _); [inv Hs; apply post_same; cbn [Phi]; split; [split; [apply HP|exact I]|reflexivity]|].
    destruct (_ || _ || _); inv Hs.
    + apply (pre_step h _ hb _ HP (ColdOK_rs h _)); [auto|reflexivity].
    + apply post_same. cbn [Phi]. split; [|reflexivity]. apply prec_pre. rewrite Bool.negb_involutive. exact HP.
  - (* zLoadZt *) inv Hs. apply post_same. ifs; cbn [Phi]; (split; [exact HP|reflexivity]).
  - (* zRangeP *) inv Hs. apply post_same. cbn [Phi]. split; [exact HP|reflexivity].
  - (* zRangeN *) inv Hs. apply post_same. ifs; cbn [Phi]; (split; [exact HP|reflexivity]).
  - (* zLoadSch *) inv Hs. apply post_same. ifs; cbn [Phi]; (split; [exact HP|reflexivity]).
  - (* zStoreZt *) inv Hs. apply (pre_step h _ hb _ HP); [apply ColdOK_nput; hsimp; auto; apply HP|auto|reflexivity].
  - (* zDelN *) inv Hs. unfold upd_side. ifs; (apply (pre_step h _ hb _ HP); [apply ColdOK_nput; hsimp; auto using allc_nil_del; apply HP|auto|reflexivity]).
  - (* zDecN *) inv Hs. apply (pre_step h _ hb _ HP); [apply ColdOK_nput; hsimp; auto; apply HP|auto|reflexivity].
  - (* zDelP *) inv Hs. unfold upd_side. ifs; (apply (pre_step h _ hb _ HP); [apply ColdOK_nput; hsimp; auto using allc_nil_del; apply HP|auto|reflexivity]).
  - (* zDecP *) inv Hs. apply (pre_step h _ hb _ HP); [apply ColdOK_nput; hsimp; auto; apply HP|auto|reflexivity].
  - (* dLoadSch *) inv Hs. apply post_same. ifs; cbn [Phi]; (split; [|reflexivity]); [split; [apply HP|exact I]|exact HP].
  - (* dStoreSch *) inv Hs. apply (pre_step h _ hb _ HP); [apply ColdOK_nput; hsimp; auto; apply HP|auto|reflexivity].
  - (* dStoreBn *) inv Hs. apply (pre_step h _ hb _ HP); [apply ColdOK_nput; hsimp; auto; apply HP|cbn [Phi]; intros P; apply prec_pre; rewrite Bool.negb_involutive; exact P|reflexivity].
  - (* eRange *) inv Hs. destruct ph as [cs|].
    + apply post_same. destruct (cm_keys VC (side VC (nget VC h' c) neg)) as [|k ks]; cbn [e_next]; [destruct neg|]; cbn [Phi];
        (split; [|reflexivity]); try exact HP. apply prec_pre. exact HP.
    + apply post_same. destruct HP as [PD HN]. apply (postdel_next f sb h' c neg _ PD HN). reflexivity.
  - (* eDel *) destruct ks as [|k ks].
    + inv Hs. destruct ph as [cs|].
      * apply post_same. cbn [e_next]. destruct neg; cbn [Phi]; (split; [|reflexivity]); try exact HP. apply prec_pre. exact HP.
      * apply post_same. destruct HP as (PD & HN & EK). apply (postdel_next f sb h' c neg _ PD HN EK).
    + inv Hs. destruct ph as [cs|].
      * apply prec_pre in HP. unfold upd_side.
        assert (CK : ColdOK h (nput VC h c (set_side VC (nget VC h c) neg (cm_del VC (side VC (nget VC h c) neg) k)))).
        { rewrite <- (Bool.negb_involutive c). apply ColdOK_nput; [apply HP| | | |]; rewrite ?Bool.negb_involutive; destruct neg; hsimp; auto using allc_nil_del. }
        apply (pre_step h _ (negb c) _ HP CK); [|destruct ks, neg; reflexivity].
        intros HP'. destruct ks as [|k2 ks]; cbn [e_next]; [destruct neg|]; cbn [Phi]; try (apply prec_pre; exact HP'). exact HP'.
      * destruct HP as (PD & HN & EK).
        assert (A : exists x rest, side VC (gs h c) neg = (k, x) :: rest /\ cm_keys VC rest = ks).
        { destruct (side VC (gs h c) neg) as [|[k0 x] rest]; [discriminate|]. cbn [cm_keys map fst] in EK. inversion EK. subst. eauto. }
        destruct A as (x & rest & Es & Er). pose proof PD as (Hh' & F & _).
        match goal with |- Post _ _ _ ?hh (inl ?pp) => assert (Q : Phi hh f sb pp /\ holds pp = true) end.
        { apply postdel_next.
          - clear HN EK Es Er. conc h c; destruct neg; hsimp; repeat split; auto.
          - intros ->. specialize (HN eq_refl). clear PD EK Es Er. destruct h as [g0 H0 tk0 s00 s10 m0 rs0]. hsimp. subst. destruct c; hsimp; exact HN.
          - unfold gs in Es. clear PD HN EK. destruct h as [g0 H0 tk0 s00 s10 m0 rs0]. hsimp. subst. destruct c, neg; hsimp; rewrite Es, keys_del_head; reflexivity. }
        destruct Q as [Q1 Q2]. apply (post_tr h _ c _ Hh' F Q1 Q2).
        { destruct h, c; reflexivity. } { destruct h, c; reflexivity. }
        { destruct h as [g0 H0 tk0 s00 s10 m0 rs0]; destruct c; hsimp; apply stab_refl. }
  - (* wFlip *) inv Hs. unfold Post. split; [split; [cbn [Phi]; apply (flip_cool f sb fsb fpos h HP)|split; reflexivity]|].
    split; [reflexivity|]. intros X _. destruct X; apply stab_refl.
  - (* xFlip *) inv Hs. destruct HP as [E P]. subst hb. unfold Post. split; [split; [cbn [Phi]; apply (flip_cool f sb fsb fpos h P)|split; reflexivity]|].
    split; [reflexivity|]. intros X _. destruct X; apply stab_refl.
  - (* xCool *) inv Hs. apply post_same.
    match goal with |- context [Z.eqb ?a ?b] => destruct (Z.eqb_spec a b) as [Ez|Ez] end.
    + destruct (cool_exit f sb fsb fpos h' c count HP Ez) as [R T]. destruct k; cbn [after_cool Phi]; (split; [|reflexivity]); auto; (split; [exact T|exact I]).
    + cbn [Phi]. split; [exact HP|reflexivity].
  - (* xSpin *) inv Hs. apply post_same. cbn [Phi]. split; [exact HP|reflexivity].
  - (* wLoadSum *) inv Hs. apply post_same. cbn [Phi]. split; [exact HP|reflexivity].
  - (* wLoadZt *) inv Hs. apply post_same. cbn [Phi]. split; [exact HP|reflexivity].
  - (* wLoadSch *) inv Hs. apply post_same. cbn [Phi]. split; [exact HP|reflexivity].
  - (* wLoadZb *) inv Hs. apply post_same. cbn [Phi]. hsimp. split; [|reflexivity]. split; [exact HP|].
    split; [|auto]. unfold RdOut. hsimp. split; [reflexivity|]. symmetry. apply HP.
  - (* wRange *) inv Hs. apply post_same. destruct HP as (R & O & X). apply (read_next f sb fsb fpos h' c neg o _ HS R O).
    exists (side VC (gs h' c) neg). destruct neg; destruct X as [X1 X2]; rewrite ?X1, ?X2; cbn [app]; auto.
  - (* wKeyLoad *) inv Hs. apply post_same. destruct HP as (R & O & X).
    assert (Hk : cm_has VC (side VC (nget VC h' c) neg) k = true).
    { destruct X as (m' & Es & Ek & _). apply has_in. change (nget VC h' c) with (gs h' c). rewrite Es, keys_app, Ek. apply in_or_app. right. left. reflexivity. }
    rewrite Hk. cbn [Phi]. split; [|reflexivity]. auto.
  - (* wCellLoad *) inv Hs. apply post_same. destruct HP as (R & O & X).
    apply (read_next f sb fsb fpos h' c neg); [exact HS| | |apply (rdside_step h' c neg o k ks HS X)].
    + destruct neg; exact R.
    + destruct neg; exact O.
  - (* aLoadCnt *) inv Hs. apply post_same. cbn [Phi]. split; [|reflexivity]. destruct HP. auto.
  - (* aAddCnt *) inv Hs. destruct HP as (T & G & ->). pose proof T as (Hh' & F & _).
    apply (post_tr h _ c _ Hh' F); [cbn [Phi]; split; [|exact G]| reflexivity | | |].
    + clear G. conc h c; rewrite ?app_nil_r in *; repeat split; auto; rewrite zl_app; change (zl []) with 0; lia.
    + destruct h, c; reflexivity. + destruct h, c; reflexivity.
    + destruct h as [g0 H0 tk0 s00 s10 m0 rs0]; destruct c; hsimp; repeat split; auto.
  - (* aStoreCnt *) inv Hs. destruct HP as (T & G). pose proof T as (Hh' & F & _).
    apply (post_tr h _ c _ Hh' F); [cbn [Phi]; split; [|split; [exact G|]]| reflexivity | | |].
    + clear G. conc h c; repeat split; auto.
    + destruct h, c; reflexivity.
    + destruct h, c; reflexivity. + destruct h, c; reflexivity.
    + destruct h as [g0 H0 tk0 s00 s10 m0 rs0]; destruct c; hsimp; apply stab_refl.
  - (* aLoadSum *) inv Hs. apply post_same. cbn [Phi]. split; [exact HP|reflexivity].
  - (* aSumLoad *) inv Hs. apply post_same. cbn [Phi]. split; [exact HP|reflexivity].
  - (* aSumCas *) destruct (fbits_eq _ _); inv Hs; [|apply post_same; cbn [Phi]; split; [exact HP|reflexivity]].
    destruct HP as (T & G & d1). pose proof T as (Hh' & F & _).
    apply (post_tr h _ c _ Hh' F); [cbn [Phi]; split; [|split; [exact G|]]| reflexivity | | |].
    + clear G d1. conc h c; repeat split; auto.
    + clear G T. destruct h, c; exact d1.
    + destruct h, c; reflexivity. + destruct h, c; reflexivity.
    + destruct h as [g0 H0 tk0 s00 s10 m0 rs0]; destruct c; hsimp; repeat split; auto.
  - (* aStoreSum *) inv Hs. destruct HP as (T & G & d1). pose proof T as (Hh' & F & _).
    apply (post_tr h _ c _ Hh' F); [cbn [Phi]; split; [|split; [exact G|]]| reflexivity | | |].
    + clear G d1. conc h c; repeat split; auto.
    + clear G T. destruct h, c; exact d1.
    + destruct h, c; reflexivity. + destruct h, c; reflexivity.
    + destruct h as [g0 H0 tk0 s00 s10 m0 rs0]; destruct c; hsimp; apply stab_refl.
  - (* aLoadZb *) inv Hs. apply post_same. cbn [Phi]. split; [|reflexivity]. destruct HP as (T & G & d1). auto.
  - (* aAddZb *) inv Hs. destruct HP as (T & G & d1 & ->). pose proof T as (Hh' & F & _).
    apply (post_tr h _ c _ Hh' F); [cbn [Phi]; split; [|split; [exact G|]]| reflexivity | | |].
    + clear G d1. conc h c; unfold sec in *; hsimp; cbn [app] in *; repeat split; auto;
        match goal with P : Permutation _ ?R |- Permutation _ ?R => rewrite <- P; perm end.
    + clear G T. destruct h, c; exact d1.
    + destruct h, c; reflexivity. + destruct h, c; reflexivity.
    + destruct h as [g0 H0 tk0 s00 s10 m0 rs0]; destruct c; hsimp; repeat split; auto.
  - (* aStoreZb *) inv Hs. destruct HP as (T & G & d1). pose proof T as (Hh' & F & _).
    assert (T' : TR (nput VC h c (set_zb VC (nget VC h c) [])) f sb c [] [] (allP (nput VC h c (set_zb VC (nget VC h c) [])) c) (allN (nput VC h c (set_zb VC (nget VC h c) [])) c)).
    { clear G d1. conc h c; repeat split; auto. }
    assert (d1' : D1 (nput VC h c (set_zb VC (nget VC h c) [])) c) by (clear G T T'; destruct h, c; exact d1).
    assert (d2' : D2 (nput VC h c (set_zb VC (nget VC h c) [])) c) by (destruct h, c; reflexivity).
    apply (post_tr h _ c _ Hh' F); [| | | |].
    + destruct k; cbn [after_addreset Phi];
        [split; [exact T'|split; [exact G|split; [exact d1'|split; [exact d2'|intros _ E; discriminate E]]]]
        |split; [exact T'|split; [exact d1'|exact d2']]|split; [exact T'|split; [exact d1'|exact d2']]].
    + destruct k; reflexivity.
    + destruct h, c; reflexivity. + destruct h, c; reflexivity.
    + destruct h as [g0 H0 tk0 s00 s10 m0 rs0]; destruct c; hsimp; apply stab_refl.
  - (* zStoreZt2 *) inv Hs. destruct HP as (T & d1 & d2). pose proof T as (Hh' & F & _).
    apply (post_tr h _ c _ Hh' F); [cbn [Phi]| reflexivity | | |].
    + clear - T d1 d2. conc h c; repeat split; auto; intros; discriminate.
    + destruct h, c; reflexivity. + destruct h, c; reflexivity.
    + destruct h as [g0 H0 tk0 s00 s10 m0 rs0]; destruct c; hsimp; apply stab_refl.
  - (* dStoreSch2 *) inv Hs. destruct HP as (T & d1 & d2). pose proof T as (Hh' & F & _).
    apply (post_tr h _ c _ Hh' F); [cbn [Phi]| reflexivity | | |].
    + clear - T d1 d2. conc h c; repeat split; auto; intros; discriminate.
    + destruct h, c; reflexivity. + destruct h, c; reflexivity.
    + destruct h as [g0 H0 tk0 s00 s10 m0 rs0]; destruct c; hsimp; apply stab_refl.
  - (* mRange *) inv Hs. apply post_same. destruct HP as (T & G & d1 & d2 & CP). apply (range_loop f sb h' k c neg r HS T G d1 d2 CP).
  - (* mLoad *) destruct HP as (L & G). change (nget VC h c) with (gs h c) in Hs.
    destruct (cm_find VC (side VC (gs h c) neg) kk) as [n|] eqn:Ef; inv Hs; apply post_same.
    + pose proof (loop_load h' f sb k c neg n kk ks _ _ Ef L) as L'.
      destruct k as [|sk nzt|cs]; ifs; cbn [Phi]; (split; [|reflexivity]); auto.
    + apply (loop_next f sb h' k c neg r ks); [apply (loop_skip h' f sb k c neg kk ks Ef L)|exact G].
  - (* mAddZb *) inv Hs. destruct HP as (L & G). pose proof L as ((Hh' & F & _) & _).
    apply (post_tr h _ c _ Hh' F); [cbn [Phi]; split; [apply (step_mAddZb f sb h k c neg n kk ks L)|exact G]| reflexivity | | |].
    + destruct h, c; reflexivity. + destruct h, c; reflexivity.
    + destruct h as [g0 H0 tk0 s00 s10 m0 rs0]; destruct c; hsimp; repeat split; auto.
  - (* mDel *) inv Hs. destruct HP as (L & G). pose proof L as ((Hh' & F & _) & _).
    apply (post_tr h _ c _ Hh' F); [cbn [Phi]; split; [apply (step_mDel f sb h k c neg kk ks L)|exact G]| reflexivity | | |].
    + destruct h, c; reflexivity. + destruct h, c; reflexivity.
    + destruct h as [g0 H0 tk0 s00 s10 m0 rs0]; destruct c; hsimp; apply stab_refl.
  - (* mDec *) inv Hs. destruct HP as (L & G). pose proof L as ((Hh' & F & _) & _).
    pose proof (step_cold_bn f sb h k c neg _ _ _ _ (u32_dec (ns_bn VC (gs h c))) L) as L'.
    destruct (loop_next f sb _ k c neg r ks (loop_nd f sb _ k c neg ks kk L') G) as [Q1 Q2].
    apply (post_tr h _ c _ Hh' F Q1 Q2).
    + destruct h, c; reflexivity. + destruct h, c; reflexivity.
    + destruct h as [g0 H0 tk0 s00 s10 m0 rs0]; destruct c; hsimp; apply stab_refl.
  - (* bLoad *) inv Hs. apply post_same. destruct HP as (L & G). change (nget VC h' (negb c)) with (gs h' (negb c)).
    destruct (cm_has VC (side VC (gs h' (negb c)) neg) (tkey k kk)) eqn:Eh; cbn [Phi]; (split; [|reflexivity]); auto.
  - (* bLos *) destruct HP as (L & G). change (nget VC h (negb c)) with (gs h (negb c)) in Hs.
    destruct (cm_has VC (side VC (gs h (negb c)) neg) (tkey k kk)) eqn:Eh; inv Hs.
    + apply post_same. cbn [Phi]. split; [|reflexivity]. auto.
    + pose proof L as ((Hh' & F & _) & _).
      apply (post_tr h _ c _ Hh' F); [cbn [Phi]; split; [apply (step_bIns f sb h k c neg n kk ks _ Eh L)|exact G]| reflexivity | | |].
      * destruct h, c; reflexivity. * destruct h, c; reflexivity.
      * destruct h as [g0 H0 tk0 s00 s10 m0 rs0]; destruct c, neg; hsimp; (split; [reflexivity|split; [reflexivity|]]); intros [|] ?; hsimp; auto using has_ins.
  - (* bAdd *) inv Hs. destruct HP as (L & G & Eh). pose proof L as ((Hh' & F & _) & _).
    pose proof (step_bAdd f sb h k c neg n kk ks _ Eh L) as L'.
    match goal with |- Post _ _ _ ?hh (inl ?pp) => assert (Q : Phi hh f sb pp /\ holds pp = true) end.
    { destruct (is_kd k) eqn:Ek.
      - destruct k; try discriminate. cbn [m_added]. apply (loop_next f sb); [apply (loop_tail f sb _ _ c neg ks kk L' Ek)|exact G].
      - destruct k; try discriminate; cbn [m_added Phi]; (split; [|reflexivity]); auto. }
    destruct Q as [Q1 Q2]. apply (post_tr h _ c _ Hh' F Q1 Q2).
    + destruct h, c; reflexivity. + destruct h, c; reflexivity.
    + destruct h as [g0 H0 tk0 s00 s10 m0 rs0]; destruct c, neg; hsimp; (split; [reflexivity|split; [reflexivity|]]); intros [|] ?; hsimp; rewrite ?has_upd; auto.
  - (* bBn *) inv Hs. destruct HP as (L & G). pose proof L as ((Hh' & F & _) & _).
    pose proof (step_hot_bn f sb h k c neg _ _ _ _ (u32_inc (ns_bn VC (gs h (negb c)))) L) as L'.
    match goal with |- Post _ _ _ ?hh (inl ?pp) => assert (Q : Phi hh f sb pp /\ holds pp = true) end.
    { destruct (is_kd k) eqn:Ek.
      - destruct k; try discriminate. cbn [m_added]. apply (loop_next f sb); [apply (loop_tail f sb _ _ c neg ks kk L' Ek)|exact G].
      - destruct k; try discriminate; cbn [m_added Phi]; (split; [|reflexivity]); auto. }
    destruct Q as [Q1 Q2]. apply (post_tr h _ c _ Hh' F Q1 Q2).
    + destruct h, c; reflexivity. + destruct h, c; reflexivity.
    + destruct h as [g0 H0 tk0 s00 s10 m0 rs0]; destruct c; hsimp; repeat split; auto.
  - (* mStore *) inv Hs. destruct HP as (L & G). pose proof L as ((Hh' & F & _) & _).
    destruct (loop_next f sb _ k c neg r ks (step_mStore f sb h k c neg kk ks L) G) as [Q1 Q2].
    apply (post_tr h _ c _ Hh' F Q1 Q2).
    + destruct h, c; reflexivity. + destruct h, c; reflexivity.
    + destruct h as [g0 H0 tk0 s00 s10 m0 rs0]; destruct c; hsimp; apply stab_refl.
  - (* dStoreBn2 *) inv Hs. pose proof HP as (Hh' & F & _).
    apply (post_tr h _ c _ Hh' F); [cbn [Phi]| reflexivity | | |].
    + split; [|intros; discriminate]. clear - HP. conc h c; repeat split; auto.
    + destruct h, c; reflexivity. + destruct h, c; reflexivity.
    + destruct h as [g0 H0 tk0 s00 s10 m0 rs0]; destruct c; hsimp; apply stab_refl.
  - (* xUnlock *) inv Hs. destruct HP as [P G]. unfold Post. split; [split; [|split; [exact G|reflexivity]]|split; [reflexivity|]].
    + destruct h; exact P.
    + intros X _. destruct h, X; apply stab_refl.
Qed.
End Hoare4.
(* ====================================================================== *)
(* 5. interference: what a step of an observer does to the holder's assertion *)
(* ====================================================================== *)
Record ObsEff (h h' : nshL) (f f' : bool -> Z) (sb sb' : bool -> list f64) (b : bool) (A B : list f64) (dF dtk : Z) : Prop := mkOE {
  oe_hot : nh_hot VC h' = nh_hot VC h;
  oe_tk : nh_tk VC h' = nh_tk VC h + dtk;
  oe_other : gs h' (negb b) = gs h (negb b);
  oe_f : f' b = f b + dF;
  oe_fo : f' (negb b) = f (negb b);
  oe_sbo : sb' (negb b) = sb (negb b);
  oe_sb : Permutation (sb' b ++ nn B) (sb b ++ A);
  oe_sec : Permutation (sec (gs h' b)) (sec (gs h b) ++ A);
  oe_cnt : cntv (gs h' b) = cntv (gs h b) ++ B;
  oe_law : zl B + dF = dtk;
  oe_act : 0 < f b \/ b = nh_hot VC h;
  oe_dtk : dtk = 0 \/ b = nh_hot VC h;
  oe_stab : stab (gs h b) (gs h' b)
}.

Section Interf.
Variables (h h' : nshL) (f f' : bool -> Z) (sb sb' : bool -> list f64) (b : bool) (A B : list f64) (dF dtk : Z).
Hypothesis OE : ObsEff h h' f f' sb sb' b A B dF dtk.

Lemma eq_obs : EQ h sb b -> EQ h' sb' b.
Proof.
  unfold EQ. intros Q. rewrite (oe_sec _ _ _ _ _ _ _ _ _ _ _ OE), (oe_cnt _ _ _ _ _ _ _ _ _ _ _ OE), Q, nn_app.
  pose proof (oe_sb _ _ _ _ _ _ _ _ _ _ _ OE) as S. rewrite <- app_assoc. rewrite <- S. perm.
Qed.
Lemma eq_other : EQ h sb (negb b) -> EQ h' sb' (negb b).
Proof. unfold EQ. rewrite (oe_other _ _ _ _ _ _ _ _ _ _ _ OE), (oe_sbo _ _ _ _ _ _ _ _ _ _ _ OE). auto. Qed.
Lemma base_obs : Base h f -> Base h' f'.
Proof.
  unfold Base. intros Bs. pose proof (oe_tk _ _ _ _ _ _ _ _ _ _ _ OE). pose proof (oe_cnt _ _ _ _ _ _ _ _ _ _ _ OE) as Ec.
  pose proof (oe_other _ _ _ _ _ _ _ _ _ _ _ OE) as Eo. pose proof (oe_f _ _ _ _ _ _ _ _ _ _ _ OE). pose proof (oe_fo _ _ _ _ _ _ _ _ _ _ _ OE).
  pose proof (oe_law _ _ _ _ _ _ _ _ _ _ _ OE). destruct b; cbn [negb] in *; rewrite Ec, Eo, zl_app; lia.
Qed.
Lemma obs_side c : f c = 0 -> nh_hot VC h = negb c -> b = negb c.
Proof.
  intros F Hh. destruct (oe_act _ _ _ _ _ _ _ _ _ _ _ OE) as [P|P]; [|congruence].
  destruct b, c; cbn; try reflexivity; lia.
Qed.
Lemma phi0_obs : Phi0 h f sb -> Phi0 h' f' sb'.
Proof.
  intros (E & F & Q & Bs). assert (Eb : b = nh_hot VC h).
  { destruct (oe_act _ _ _ _ _ _ _ _ _ _ _ OE) as [P|P]; [|exact P]. destruct b, (nh_hot VC h); cbn [negb] in *; try reflexivity; lia. }
  unfold Phi0. rewrite (oe_hot _ _ _ _ _ _ _ _ _ _ _ OE). rewrite <- Eb in *.
  split; [unfold Emp in *; rewrite (oe_other _ _ _ _ _ _ _ _ _ _ _ OE); exact E|].
  split; [rewrite (oe_fo _ _ _ _ _ _ _ _ _ _ _ OE); exact F|]. split; [apply eq_obs; exact Q|apply base_obs; exact Bs].
Qed.
Lemma cool_obs c count : Cool h f sb c count -> Cool h' f' sb' c count.
Proof.
  intros (Hh & Q1 & Q2 & Ec & Bs). unfold Cool. rewrite (oe_hot _ _ _ _ _ _ _ _ _ _ _ OE).
  split; [exact Hh|]. destruct (Bool.eqb_spec b c) as [E|N].
  - subst c. split; [apply eq_other; exact Q1|split; [apply eq_obs; exact Q2|split; [|apply base_obs; exact Bs]]].
    rewrite (oe_cnt _ _ _ _ _ _ _ _ _ _ _ OE), (oe_f _ _ _ _ _ _ _ _ _ _ _ OE), zl_app.
    pose proof (oe_law _ _ _ _ _ _ _ _ _ _ _ OE). destruct (oe_dtk _ _ _ _ _ _ _ _ _ _ _ OE) as [D|D]; [lia|].
    exfalso. rewrite Hh in D. destruct b; discriminate.
  - assert (Ec' : c = negb b) by (destruct b, c; cbn in *; congruence). clear N. subst c. rewrite ?Bool.negb_involutive in *.
    split; [apply eq_obs; exact Q1|split; [apply eq_other; exact Q2|split; [|apply base_obs; exact Bs]]].
    rewrite (oe_other _ _ _ _ _ _ _ _ _ _ _ OE), (oe_fo _ _ _ _ _ _ _ _ _ _ _ OE). exact Ec.
Qed.
Lemma tr_obs c a1 a2 a3 a4 : TR h f sb c a1 a2 a3 a4 -> TR h' f' sb' c a1 a2 a3 a4 /\ gs h' c = gs h c.
Proof.
  intros (Hh & F & P & K). pose proof (obs_side c F Hh) as Eb. assert (Ec : c = negb b) by (rewrite Eb, Bool.negb_involutive; reflexivity). clear Eb. subst c. rewrite ?Bool.negb_involutive in *.
  split; [|apply (oe_other _ _ _ _ _ _ _ _ _ _ _ OE)]. unfold TR. rewrite ?Bool.negb_involutive. rewrite (oe_hot _ _ _ _ _ _ _ _ _ _ _ OE).
  split; [exact Hh|]. split; [rewrite (oe_fo _ _ _ _ _ _ _ _ _ _ _ OE); exact F|]. split.
  - rewrite (oe_sec _ _ _ _ _ _ _ _ _ _ _ OE), (oe_cnt _ _ _ _ _ _ _ _ _ _ _ OE).
    pose proof (oe_sb _ _ _ _ _ _ _ _ _ _ _ OE) as S.
    transitivity ((sec (gs h b) ++ a2 ++ a3 ++ a4) ++ A); [perm|]. rewrite P, !nn_app.
    transitivity ((nn (cntv (gs h b)) ++ nn a1) ++ sb b ++ A); [perm|]. rewrite <- S. perm.
  - rewrite (oe_tk _ _ _ _ _ _ _ _ _ _ _ OE), (oe_cnt _ _ _ _ _ _ _ _ _ _ _ OE), (oe_f _ _ _ _ _ _ _ _ _ _ _ OE), zl_app.
    pose proof (oe_law _ _ _ _ _ _ _ _ _ _ _ OE). lia.
Qed.
Lemma read_obs c count : Read h f sb c count -> Read h' f' sb' c count /\ gs h' c = gs h c.
Proof.
  intros (Hh & F & Q1 & Q2 & Ez & Bs). pose proof (obs_side c F Hh) as Eb. assert (Ec : c = negb b) by (rewrite Eb, Bool.negb_involutive; reflexivity). clear Eb. subst c. rewrite ?Bool.negb_involutive in *.
  split; [|apply (oe_other _ _ _ _ _ _ _ _ _ _ _ OE)]. unfold Read. rewrite ?Bool.negb_involutive. rewrite (oe_hot _ _ _ _ _ _ _ _ _ _ _ OE), (oe_fo _ _ _ _ _ _ _ _ _ _ _ OE).
  split; [exact Hh|split; [exact F|split; [apply eq_obs; exact Q1|split; [|split; [|apply base_obs; exact Bs]]]]].
  - apply eq_other. exact Q2.
  - rewrite (oe_other _ _ _ _ _ _ _ _ _ _ _ OE). exact Ez.
Qed.
Lemma postdel_obs c : PostDel h f sb c -> PostDel h' f' sb' c /\ gs h' c = gs h c.
Proof.
  intros (Hh & F & Q & Bs & d1 & d2). pose proof (obs_side c F Hh) as Eb. assert (Ec : c = negb b) by (rewrite Eb, Bool.negb_involutive; reflexivity). clear Eb. subst c. rewrite ?Bool.negb_involutive in *.
  split; [|apply (oe_other _ _ _ _ _ _ _ _ _ _ _ OE)]. unfold PostDel, D1, D2 in *. rewrite ?Bool.negb_involutive. rewrite (oe_hot _ _ _ _ _ _ _ _ _ _ _ OE), (oe_fo _ _ _ _ _ _ _ _ _ _ _ OE), (oe_other _ _ _ _ _ _ _ _ _ _ _ OE).
  repeat split; auto; [apply eq_obs; exact Q|apply base_obs; exact Bs].
Qed.
Lemma loop_obs k c neg infl rem rem' nd : LOOP h f sb k c neg infl rem rem' nd -> LOOP h' f' sb' k c neg infl rem rem' nd /\ gs h' c = gs h c.
Proof.
  intros (T & R). destruct (tr_obs _ _ _ _ _ T) as [T' Ec]. split; [|exact Ec]. unfold LOOP, D1, D2, allP, allN in *. rewrite Ec. split; [exact T'|exact R].
Qed.

Lemma hot_side x : f x = 0 -> x = negb (nh_hot VC h) -> b = nh_hot VC h.
Proof.
  intros F E. destruct (oe_act _ _ _ _ _ _ _ _ _ _ _ OE) as [P|P]; [|exact P].
  destruct b, x, (nh_hot VC h); cbn in *; try reflexivity; try lia; discriminate.
Qed.
Lemma prec_obs x : PreC h f sb x -> PreC h' f' sb' x /\ gs h' x = gs h x.
Proof.
  intros [E P]. pose proof P as (_ & F & _). rewrite <- E in F. pose proof (hot_side x F E) as Eb.
  split; [split; [rewrite (oe_hot _ _ _ _ _ _ _ _ _ _ _ OE); exact E|apply phi0_obs; exact P]|].
  rewrite E, <- Eb. apply (oe_other _ _ _ _ _ _ _ _ _ _ _ OE).
Qed.
Lemma hb_obs v x cx : HB h f sb v x cx -> HB h' f' sb' v x cx.
Proof.
  intros (E & F & C & P & Q & K). pose proof (hot_side x F E) as Eb. unfold HB. rewrite (oe_hot _ _ _ _ _ _ _ _ _ _ _ OE), <- Eb in *.
  assert (Ex : gs h' x = gs h x) by (rewrite E; apply (oe_other _ _ _ _ _ _ _ _ _ _ _ OE)).
  rewrite Ex. split; [exact E|split; [rewrite E, (oe_fo _ _ _ _ _ _ _ _ _ _ _ OE), <- E; exact F|split; [exact C|split; [exact P|split; [apply eq_obs; exact Q|]]]]].
  rewrite (oe_tk _ _ _ _ _ _ _ _ _ _ _ OE), (oe_cnt _ _ _ _ _ _ _ _ _ _ _ OE), (oe_f _ _ _ _ _ _ _ _ _ _ _ OE), zl_app.
  pose proof (oe_law _ _ _ _ _ _ _ _ _ _ _ OE). lia.
Qed.
Lemma rc_obs c count : RC h f sb c count -> RC h' f' sb' c count.
Proof.
  intros (Hh & Q1 & Q2 & Ec & K). unfold RC. rewrite (oe_hot _ _ _ _ _ _ _ _ _ _ _ OE).
  split; [exact Hh|]. pose proof (oe_law _ _ _ _ _ _ _ _ _ _ _ OE) as LW. destruct (Bool.eqb_spec b c) as [E|N].
  - subst c. split; [apply eq_other; exact Q1|split; [apply eq_obs; exact Q2|]].
    assert (D : dtk = 0).
    { destruct (oe_dtk _ _ _ _ _ _ _ _ _ _ _ OE) as [D|D]; [exact D|]. exfalso. rewrite Hh in D. destruct b; discriminate. }
    rewrite (oe_cnt _ _ _ _ _ _ _ _ _ _ _ OE), (oe_f _ _ _ _ _ _ _ _ _ _ _ OE), (oe_other _ _ _ _ _ _ _ _ _ _ _ OE), (oe_fo _ _ _ _ _ _ _ _ _ _ _ OE),
            (oe_tk _ _ _ _ _ _ _ _ _ _ _ OE), zl_app. split; lia.
  - assert (Ec' : c = negb b) by (destruct b, c; cbn in *; congruence). clear N. subst c. rewrite ?Bool.negb_involutive in *.
    split; [apply eq_obs; exact Q1|split; [apply eq_other; exact Q2|]].
    rewrite (oe_other _ _ _ _ _ _ _ _ _ _ _ OE), (oe_fo _ _ _ _ _ _ _ _ _ _ _ OE), (oe_tk _ _ _ _ _ _ _ _ _ _ _ OE), (oe_cnt _ _ _ _ _ _ _ _ _ _ _ OE),
            (oe_f _ _ _ _ _ _ _ _ _ _ _ OE), zl_app. split; lia.
Qed.
Lemma wipe_obs c : Wipe h f sb c -> Wipe h' f' sb' c /\ gs h' c = gs h c.
Proof.
  intros (Hh & F & Q & K). pose proof (obs_side c F Hh) as Eb. assert (Ec : c = negb b) by (rewrite Eb, Bool.negb_involutive; reflexivity). clear Eb. subst c.
  rewrite ?Bool.negb_involutive in *. split; [|apply (oe_other _ _ _ _ _ _ _ _ _ _ _ OE)]. unfold Wipe. rewrite ?Bool.negb_involutive.
  rewrite (oe_hot _ _ _ _ _ _ _ _ _ _ _ OE), (oe_fo _ _ _ _ _ _ _ _ _ _ _ OE).
  split; [exact Hh|split; [exact F|split; [apply eq_obs; exact Q|]]].
  rewrite (oe_tk _ _ _ _ _ _ _ _ _ _ _ OE), (oe_cnt _ _ _ _ _ _ _ _ _ _ _ OE), (oe_f _ _ _ _ _ _ _ _ _ _ _ OE), zl_app.
  pose proof (oe_law _ _ _ _ _ _ _ _ _ _ _ OE). lia.
Qed.
Lemma phi_obs pc : holds pc = true -> Phi h f sb pc -> Phi h' f' sb' pc.
Proof.
  intros Hh HP. destruct pc; try discriminate Hh; cbn [Phi] in *;
  try (match type of HP with
  | Phi0 _ _ _ => apply phi0_obs; exact HP
  | Pre _ _ _ _ => destruct HP as [E P]; split; [rewrite (oe_hot _ _ _ _ _ _ _ _ _ _ _ OE); exact E|apply phi0_obs; exact P]
  | PreC _ _ _ _ => destruct HP as [E P]; split; [rewrite (oe_hot _ _ _ _ _ _ _ _ _ _ _ OE); exact E|apply phi0_obs; exact P]
  | Cool _ _ _ _ _ => apply cool_obs; exact HP
  | Read _ _ _ _ _ => apply (proj1 (read_obs _ _ HP))
  | Read _ _ _ _ _ /\ _ => let R := fresh "R" in let R' := fresh "R'" in let Ec := fresh "Ec" in
      destruct HP as [R HP]; destruct (read_obs _ _ R) as [R' Ec]; unfold RdOut, RdSide in *; rewrite ?Ec; split; [exact R'|exact HP]
  | TR _ _ _ _ _ _ _ _ /\ _ => let R := fresh "R" in let R' := fresh "R'" in let Ec := fresh "Ec" in
      destruct HP as [R HP]; destruct (tr_obs _ _ _ _ _ R) as [R' Ec]; unfold allP, allN, D1, D2 in *; rewrite ?Ec; split; [exact R'|exact HP]
  | PostDel _ _ _ _ => apply (proj1 (postdel_obs _ HP))
  | PostDel _ _ _ _ /\ _ => let R := fresh "R" in let R' := fresh "R'" in let Ec := fresh "Ec" in
      destruct HP as [R HP]; destruct (postdel_obs _ R) as [R' Ec]; rewrite ?Ec; split; [exact R'|exact HP]
  | Phi0 _ _ _ /\ _ => destruct HP as [P G]; split; [apply phi0_obs; exact P|exact G]
  | PreC _ _ _ _ /\ _ => let R := fresh "R" in let R' := fresh "R'" in let Ec := fresh "Ec" in
      destruct HP as [R HP]; destruct (prec_obs _ R) as [R' Ec]; rewrite ?Ec; split; [exact R'|exact HP]
  | HB _ _ _ _ _ _ /\ _ => destruct HP as [P G]; split; [apply hb_obs; exact P|exact G]
  | HB _ _ _ _ _ _ => apply hb_obs; exact HP
  | RC _ _ _ _ _ => apply rc_obs; exact HP
  end).
  - (* eRange *) destruct ph.
    + destruct HP as [E P]; split; [rewrite (oe_hot _ _ _ _ _ _ _ _ _ _ _ OE); exact E|apply phi0_obs; exact P].
    + destruct HP as [R HP]; destruct (postdel_obs _ R) as [R' Ec]; rewrite ?Ec; split; [exact R'|exact HP].
  - (* eDel *) destruct ph.
    + destruct HP as [E P]; split; [rewrite (oe_hot _ _ _ _ _ _ _ _ _ _ _ OE); exact E|apply phi0_obs; exact P].
    + destruct HP as [R HP]; destruct (postdel_obs _ R) as [R' Ec]; rewrite ?Ec; split; [exact R'|exact HP].
  - (* mLoad *) destruct HP as [L G]. split; [apply (proj1 (loop_obs _ _ _ _ _ _ _ L))|exact G].
  - destruct HP as [L G]. split; [apply (proj1 (loop_obs _ _ _ _ _ _ _ L))|exact G].
  - destruct HP as [L G]. split; [apply (proj1 (loop_obs _ _ _ _ _ _ _ L))|exact G].
  - destruct HP as [L G]. split; [apply (proj1 (loop_obs _ _ _ _ _ _ _ L))|exact G].
  - destruct HP as [L G]. split; [apply (proj1 (loop_obs _ _ _ _ _ _ _ L))|exact G].
  - destruct HP as [L G]. split; [apply (proj1 (loop_obs _ _ _ _ _ _ _ L))|exact G].
  - (* bAdd *) destruct HP as (L & G & Hs). split; [apply (proj1 (loop_obs _ _ _ _ _ _ _ L))|split; [exact G|]].
    pose proof L as ((Hh0 & F0 & _) & _). pose proof (obs_side c F0 Hh0) as Eb. rewrite <- Eb in *.
    apply (oe_stab _ _ _ _ _ _ _ _ _ _ _ OE). exact Hs.
  - destruct HP as [L G]. split; [apply (proj1 (loop_obs _ _ _ _ _ _ _ L))|exact G].
  - destruct HP as [L G]. split; [apply (proj1 (loop_obs _ _ _ _ _ _ _ L))|exact G].
  - (* rStore *) destruct ph.
    + destruct HP as [E P]; split; [rewrite (oe_hot _ _ _ _ _ _ _ _ _ _ _ OE); exact E|apply phi0_obs; exact P].
    + destruct HP as (W & d1 & d2). destruct (wipe_obs _ W) as [W' Ec]. unfold D1, D2 in *. rewrite Ec. split; [exact W'|split; assumption].
  - (* rRange *) destruct ph.
    + destruct HP as [E P]; split; [rewrite (oe_hot _ _ _ _ _ _ _ _ _ _ _ OE); exact E|apply phi0_obs; exact P].
    + destruct HP as [R HP]; destruct (postdel_obs _ R) as [R' Ec]; rewrite ?Ec; split; [exact R'|exact HP].
  - (* rDel *) destruct ph.
    + destruct HP as [E P]; split; [rewrite (oe_hot _ _ _ _ _ _ _ _ _ _ _ OE); exact E|apply phi0_obs; exact P].
    + destruct HP as [R HP]; destruct (postdel_obs _ R) as [R' Ec]; rewrite ?Ec; split; [exact R'|exact HP].
  - (* rSwap *) destruct rk; [apply hb_obs; exact HP|destruct HP as [E P]; split; [rewrite (oe_hot _ _ _ _ _ _ _ _ _ _ _ OE); exact E|apply phi0_obs; exact P]].
Qed.
End Interf.
(* ====================================================================== *)
(* 6. threads: in-flight counts, stage-B values, holders                   *)
(* ====================================================================== *)
Notation LM := lmachine.
Definition tpc (t : thread LM) : option npcL := match t_cur t with Some (_, pc, _) => Some pc | None => None end.
Definition inflight (pc : npcL) : option bool :=
  match pc with
  | oSumLoad _ _ b | oSumCas _ _ b _ | oLoadSch _ _ b | oLoadZt _ _ b _ | oBkLoad _ _ b _ _ | oBkLos _ _ b _ _
  | oBkAdd _ _ b _ _ | oBnAdd _ _ b | oZero _ _ b | oCount _ _ b => Some b
  | _ => None
  end.
Definition fcnt (X : bool) (x : option npcL) : Z :=
  match x with Some pc => match inflight pc with Some b => if Bool.eqb b X then 1 else 0 | None => 0 end | None => 0 end.
Definition sbl (X : bool) (x : option npcL) : list f64 :=
  match x with
  | Some (oBnAdd _ v b) => if Bool.eqb b X then [v] else []
  | Some (oCount _ v b) => if Bool.eqb b X && negb (is_nan v) then [v] else []
  | _ => []
  end.
Definition hcnt (x : option npcL) : Z := match x with Some pc => if holds pc then 1 else 0 | None => 0 end.
Definition obs_ok (h : nshL) (pc : npcL) : Prop :=
  match pc with
  | oBkAdd _ v b neg k => cm_has VC (side VC (gs h b) neg) k = true /\ is_nan v = false
  | oLoadSch _ v _ | oLoadZt _ v _ _ | oBkLoad _ v _ _ _ | oBkLos _ v _ _ _ | oBnAdd _ v _ | oZero _ v _ => is_nan v = false
  | _ => True
  end.
Definition quietx (x : option npcL) : Prop := (forall X, fcnt X x = 0) /\ (forall X, sbl X x = []) /\ hcnt x = 0.
Definition nxt_rel (nxt : npcL + nretL) (x' : option npcL) : Prop :=
  match nxt with inl p => x' = Some p | inr _ => quietx x' end.

Lemma allc_side_ins (s : nsetL) neg k v : cm_has VC (side VC s neg) k = false ->
  Permutation (sec (set_side VC s neg (cm_ins VC (side VC s neg) k [v]))) (sec s ++ [v]).
Proof. intros H. destruct s, neg; unfold sec; hsimp; rewrite (allc_ins _ _ _ H); perm. Qed.
Lemma allc_side_upd (s : nsetL) neg k v : cm_has VC (side VC s neg) k = true ->
  Permutation (sec (set_side VC s neg (cm_upd VC (side VC s neg) k (fun x => x ++ [v])))) (sec s ++ [v]).
Proof. intros H. destruct s, neg; unfold sec; hsimp; rewrite (allc_upd_app _ _ _ H); perm. Qed.

Definition ObsLocal (h : nshL) (pc : npcL) (h' : nshL) (nxt : npcL + nretL) (x' : option npcL) : Prop :=
  exists b A B dF dtk,
    nh_hot VC h' = nh_hot VC h /\ nh_mtx VC h' = nh_mtx VC h /\ nh_cfg VC h' = nh_cfg VC h /\ nh_tk VC h' = nh_tk VC h + dtk /\
    gs h' (negb b) = gs h (negb b) /\
    fcnt b x' = fcnt b (Some pc) + dF /\ fcnt (negb b) x' = fcnt (negb b) (Some pc) /\ sbl (negb b) x' = sbl (negb b) (Some pc) /\
    Permutation (sbl b x' ++ nn B) (sbl b (Some pc) ++ A) /\ Permutation (sec (gs h' b)) (sec (gs h b) ++ A) /\
    cntv (gs h' b) = cntv (gs h b) ++ B /\ zl B + dF = dtk /\ (0 < fcnt b (Some pc) \/ b = nh_hot VC h) /\
    (dtk = 0 \/ b = nh_hot VC h) /\ stab (gs h b) (gs h' b) /\ hcnt x' = 0 /\
    match nxt with inl p => obs_ok h' p | inr r => r = NUnit VC end.

Ltac ol_wit b A B dF dtk := exists b, A, B, dF, dtk.
Ltac ol_fin := repeat split; hsimp; cbn [fcnt sbl inflight hcnt holds Bool.eqb andb negb app nn filter obs_ok]; rewrite ?app_nil_r;
  try reflexivity; try lia; auto; try apply stab_refl.

Definition is_lock (pc : npcL) : bool := match pc with lLock _ _ | wLock _ | rLock _ => true | _ => false end.

Lemma obs_local h pc h' nxt x' : holds pc = false -> is_lock pc = false -> obs_ok h pc ->
  lstep h pc = Some (h', nxt) -> nxt_rel nxt x' -> ObsLocal h pc h' nxt x'.
Proof.
  intros Hh Hl OK Hs NR. destruct pc; try discriminate Hh; try discriminate Hl; stepin Hs; cbn [obs_ok] in OK.
  - (* oTicket *) inversion Hs; subst; clear Hs. cbn [nxt_rel] in NR. subst x'. destruct h as [g H tk s0 s1 m rs].
    ol_wit H (@nil f64) (@nil f64) 1 1. destruct H; ol_fin.
  - (* oSumLoad *) inversion Hs; subst; clear Hs. cbn [nxt_rel] in NR. subst x'. ol_wit b (@nil f64) (@nil f64) 0 0. destruct h' as [g H tk s0 s1 m rs], b; ol_fin.
  - (* oSumCas *) destruct (fbits_eq _ _); inversion Hs; subst; clear Hs; cbn [nxt_rel] in NR; subst x'.
    + ol_wit b (@nil f64) (@nil f64) 0 0. destruct h as [g H tk s0 s1 m rs], b, (is_nan v) eqn:En; unfold sec; ol_fin; rewrite ?En; ol_fin.
    + ol_wit b (@nil f64) (@nil f64) 0 0. destruct h' as [g H tk s0 s1 m rs], b; ol_fin.
  - (* oLoadSch *) inversion Hs; subst; clear Hs. cbn [nxt_rel] in NR. subst x'. ol_wit b (@nil f64) (@nil f64) 0 0. destruct h' as [g H tk s0 s1 m rs], b; ol_fin.
  - (* oLoadZt *) inversion Hs; subst; clear Hs. cbn [nxt_rel] in NR. subst x'. ol_wit b (@nil f64) (@nil f64) 0 0.
    destruct h' as [g H tk s0 s1 m rs], b; hsimp; destruct (fgt _ _); try destruct (flt _ _); ol_fin.
  - (* oBkLoad *) inversion Hs; subst; clear Hs. cbn [nxt_rel] in NR. subst x'. ol_wit b (@nil f64) (@nil f64) 0 0.
    change (nget VC h' b) with (gs h' b). destruct (cm_has VC (side VC (gs h' b) neg) k) eqn:Eh; destruct h' as [g H tk s0 s1 m rs], b; ol_fin.
  - (* oBkLos *) change (nget VC h b) with (gs h b) in Hs. destruct (cm_has VC (side VC (gs h b) neg) k) eqn:Eh; inversion Hs; subst; clear Hs; cbn [nxt_rel] in NR; subst x'.
    + ol_wit b (@nil f64) (@nil f64) 0 0. destruct h' as [g H tk s0 s1 m rs], b; ol_fin.
    + ol_wit b [v] (@nil f64) 0 0. unfold upd_side. pose proof (allc_side_ins (gs h b) neg k v Eh) as Psec.
      destruct h as [g H tk s0 s1 m rs], b, neg; hsimp; ol_fin; intros [|] ? ?; hsimp; auto using has_ins.
  - (* oBkAdd *) destruct OK as [Eh Nn]. inversion Hs; subst; clear Hs. cbn [nxt_rel] in NR. subst x'. ol_wit b [v] (@nil f64) 0 0.
    unfold upd_side. pose proof (allc_side_upd (gs h b) neg k v Eh) as Psec.
    destruct h as [g H tk s0 s1 m rs], b, neg; hsimp; ol_fin; rewrite ?Nn; ol_fin; intros [|] ? ?; hsimp; rewrite ?has_upd; auto.
  - (* oBnAdd *) inversion Hs; subst; clear Hs. cbn [nxt_rel] in NR. subst x'. ol_wit b (@nil f64) (@nil f64) 0 0.
    destruct h as [g H tk s0 s1 m rs], b; unfold sec; ol_fin; rewrite ?OK; ol_fin.
  - (* oZero *) inversion Hs; subst; clear Hs. cbn [nxt_rel] in NR. subst x'. ol_wit b [v] (@nil f64) 0 0.
    destruct h as [g H tk s0 s1 m rs], b; unfold sec; ol_fin; rewrite ?OK; ol_fin; perm.
  - (* oCount *) inversion Hs; subst; clear Hs. ol_wit b (@nil f64) [v] (-1) 0.
    destruct (is_nan v || (g_max_buckets (nh_cfg VC h) =? 0)); cbn [nxt_rel] in NR.
    + destruct NR as (Q1 & Q2 & Q3). destruct h as [g H tk s0 s1 m rs], b; unfold sec; ol_fin; rewrite ?Q1, ?Q2; ol_fin; destruct (is_nan v); ol_fin.
    + subst x'. destruct h as [g H tk s0 s1 m rs], b; unfold sec; ol_fin; destruct (is_nan v); ol_fin.
  - (* lLoadBn *) inversion Hs; subst; clear Hs. ol_wit (nh_hot VC h') (@nil f64) (@nil f64) 0 0.
    destruct (_ <=? _); cbn [nxt_rel] in NR.
    + destruct NR as (Q1 & Q2 & Q3). destruct h' as [g H tk s0 s1 m rs], H; ol_fin; rewrite ?Q1, ?Q2; ol_fin.
    + subst x'. destruct h' as [g H tk s0 s1 m rs], H; ol_fin.
  - (* fCheck *) destruct (0 <? _); inversion Hs; subst; clear Hs; cbn [nxt_rel] in NR.
    + subst x'. ol_wit (nh_hot VC h) (@nil f64) (@nil f64) 0 0. destruct h as [g H tk s0 s1 m rs], H; ol_fin.
    + destruct NR as (Q1 & Q2 & Q3). ol_wit (nh_hot VC h') (@nil f64) (@nil f64) 0 0. destruct h' as [g H tk s0 s1 m rs], H; ol_fin; rewrite ?Q1, ?Q2; ol_fin.
  - (* cAdv *) inversion Hs; subst; clear Hs. cbn [nxt_rel] in NR. destruct NR as (Q1 & Q2 & Q3).
    ol_wit (nh_hot VC h) (@nil f64) (@nil f64) 0 0. destruct h as [g H tk s0 s1 m rs], H; ol_fin; rewrite ?Q1, ?Q2; ol_fin.
Qed.
