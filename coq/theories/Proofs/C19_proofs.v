(* Proofs/C19_proofs.v -- WriteToTextfile replaces the target atomically or not at all.
   Everything is proved for EVERY program accepted by the recogniser shape_safe / shape_core and for
   arbitrarily many concurrent calls under an arbitrary schedule of steps, faults (error / panic)
   and crashes; the instantiation to the program generated from the Go source is one vm_compute of
   shape_safe write_to_textfile_ops. *)
From Coq Require Import ZArith List Bool Arith Lia.
From Verif Require Import Gen.Gen_Textfile Model.Textfile.
Import ListNotations.
Open Scope nat_scope.

(* ------------------------------------------------------------------------------------------ *)
(* basics                                                                                      *)

Lemma name_eqb_eq : forall a b, name_eqb a b = true <-> a = b.
Proof.
  destruct a, b; simpl; split; intro H; try discriminate; try reflexivity.
  - apply Nat.eqb_eq in H. now subst.
  - inversion H. apply Nat.eqb_refl.
Qed.
Lemma name_eqb_refl : forall a, name_eqb a a = true.
Proof. intro a. now apply name_eqb_eq. Qed.
Lemma name_eqb_neq : forall a b, a <> b -> name_eqb a b = false.
Proof. intros a b H. destruct (name_eqb a b) eqn:E; auto. apply name_eqb_eq in E. contradiction. Qed.
Lemma temp_neq : forall w w', w' <> w -> name_eqb (NTemp w') (NTemp w) = false.
Proof. intros. apply name_eqb_neq. congruence. Qed.

Definition tag_of (s : fs) (i : nat) : option nat :=
  match i_data (inodes s i) with DNew w _ _ => Some w | DOld => None end.

(* what a file-system transition performed by writer w (holding descriptor fdo) may touch *)
Record fsfp (w : nat) (fdo : option nat) (s s' : fs) : Prop := {
  fp_next : next_ino s <= next_ino s';
  fp_tag : forall j, j < next_ino s -> tag_of s' j = tag_of s j;
  fp_ino : forall j, j < next_ino s -> fdo <> Some j -> dir s (NTemp w) <> Some j -> inodes s' j = inodes s j;
  fp_new : forall j, next_ino s <= j < next_ino s' -> tag_of s' j = Some w;
  fp_dir : forall w', w' <> w -> dir s' (NTemp w') = dir s (NTemp w');
  fp_tmp : forall j, dir s' (NTemp w) = Some j -> dir s (NTemp w) = Some j \/ next_ino s <= j < next_ino s';
  fp_target : dir s' NTarget = dir s NTarget \/
              (exists i, dir s (NTemp w) = Some i /\ dir s' NTarget = Some i /\ dir s' (NTemp w) = None /\
                         inodes s' = inodes s /\ next_ino s' = next_ino s) }.

Lemma fsfp_refl : forall w fdo s, fsfp w fdo s s.
Proof. intros. constructor; auto; intros; try lia. Qed.

Lemma fsfp_create : forall w fdo s, fsfp w fdo s (fst (fs_create w s)).
Proof.
  intros. constructor; simpl; auto.
  - intros j H. unfold tag_of. simpl. destruct (Nat.eqb_spec j (next_ino s)); [lia|reflexivity].
  - intros j H _ _. destruct (Nat.eqb_spec j (next_ino s)); [lia|reflexivity].
  - intros j H. assert (j = next_ino s) by lia. subst. unfold tag_of. simpl. now rewrite Nat.eqb_refl.
  - intros w' H. destruct (Nat.eqb_spec w' w); [contradiction|reflexivity].
  - intros j H. rewrite Nat.eqb_refl in H. inversion H. right. lia.
Qed.

Lemma fsfp_write : forall w s i torn, fsfp w (Some i) s (fs_write s i torn).
Proof.
  intros. unfold fs_write. destruct (i_data (inodes s i)) eqn:E; [apply fsfp_refl|].
  constructor; simpl; auto; try (intros; lia).
  - intros j _. unfold tag_of. simpl. destruct (Nat.eqb_spec j i); [subst; simpl; now rewrite E|reflexivity].
  - intros j _ H _. destruct (Nat.eqb_spec j i); [subst; congruence|reflexivity].
Qed.

Lemma fsfp_chmod : forall w fdo s i m, dir s (NTemp w) = Some i ->
  fsfp w fdo s (set_ino s i (mk_inode (i_data (inodes s i)) m)).
Proof.
  intros. constructor; simpl; auto; try (intros; lia).
  - intros j _. unfold tag_of. simpl. destruct (Nat.eqb_spec j i); [subst; reflexivity|reflexivity].
  - intros j _ _ H1. destruct (Nat.eqb_spec j i); [subst; congruence|reflexivity].
Qed.

Lemma fsfp_unlink : forall w fdo s, fsfp w fdo s (set_dir s (NTemp w) None).
Proof.
  intros. constructor; simpl; auto; try (intros; lia).
  - intros w' H. destruct (Nat.eqb_spec w' w); [contradiction|reflexivity].
  - intros j H. rewrite Nat.eqb_refl in H. discriminate.
Qed.

Lemma fsfp_rename : forall w fdo s i, dir s (NTemp w) = Some i ->
  fsfp w fdo s (set_dir (set_dir s NTarget (Some i)) (NTemp w) None).
Proof.
  intros. constructor; simpl; auto; try (intros; lia).
  - intros w' H'. destruct (Nat.eqb_spec w' w); [contradiction|reflexivity].
  - intros j H'. rewrite Nat.eqb_refl in H'. discriminate.
  - right. exists i. rewrite Nat.eqb_refl. auto.
Qed.

(* ------------------------------------------------------------------------------------------ *)
(* footprint of one step, for ANY program                                                      *)

Lemma step_fsfp : forall n w f wr s, fsfp w (w_fd wr) s (snd (step n w f wr s)).
Proof.
  intros. unfold step.
  destruct (w_status wr); simpl; try apply fsfp_refl.
  destruct (w_ops wr) as [|[op early] rest].
  - destruct (w_defer wr); simpl; [apply fsfp_unlink|apply fsfp_refl].
  - destruct op; simpl.
    + destruct f; simpl; try apply fsfp_refl. apply (fsfp_create w (w_fd wr) s).
    + apply fsfp_refl.
    + destruct f; apply fsfp_refl.
    + destruct (w_enc wr <? n); simpl; [|apply fsfp_refl].
      destruct (w_fd wr); simpl; [|apply fsfp_refl].
      destruct f; simpl; apply fsfp_write.
    + destruct f, (w_fd wr); simpl; apply fsfp_refl.
    + destruct f; simpl; try apply fsfp_refl.
      destruct (dir s (NTemp w)) eqn:E; simpl; [now apply fsfp_chmod|apply fsfp_refl].
    + destruct f; simpl; try apply fsfp_refl.
      destruct (dir s (NTemp w)) eqn:E; simpl; [now apply fsfp_rename|apply fsfp_refl].
    + apply fsfp_refl.
Qed.

(* a descriptor after the step is the one held before, or a freshly created inode *)
Lemma step_fd : forall n w f wr s j,
  w_fd (fst (step n w f wr s)) = Some j ->
  w_fd wr = Some j \/ (j = next_ino s /\ next_ino (snd (step n w f wr s)) = S (next_ino s)).
Proof.
  intros n w f wr s j. unfold step.
  destruct (w_status wr); simpl; auto.
  destruct (w_ops wr) as [|[op early] rest].
  - destruct (w_defer wr); simpl; auto.
  - destruct op; simpl.
    + destruct f; simpl; [intro H; inversion H; auto| |]; destruct early; simpl; auto.
    + auto.
    + destruct f; simpl; auto; destruct early; simpl; auto.
    + destruct (w_enc wr <? n); simpl; auto.
      destruct (w_fd wr) eqn:E; simpl.
      * destruct f; simpl; auto; destruct early; simpl; rewrite ?E; auto.
      * destruct f; simpl; destruct early; simpl; rewrite ?E; auto.
    + destruct f, (w_fd wr); simpl; try destruct early; simpl; intro H; discriminate.
    + destruct f; simpl; try (destruct early; simpl; auto; fail).
      destruct (dir s (NTemp w)); simpl; auto. destruct early; simpl; auto.
    + destruct f; simpl; try (destruct early; simpl; auto; fail).
      destruct (dir s (NTemp w)); simpl; auto. destruct early; simpl; auto.
    + auto.
Qed.
