(* Proofs/C19_proofs.v -- WriteToTextfile replaces the target atomically or not at all.
   Everything is proved for EVERY program accepted by the recogniser shape_safe / shape_core and for
   arbitrarily many concurrent calls under an arbitrary schedule of steps, faults (error / panic)
   and crashes; the instantiation to the program generated from the Go source is one vm_compute of
   shape_safe write_to_textfile_ops. *)
From Coq Require Import ZArith List Bool Arith Lia.
From Verif Require Import Gen.Gen_Textfile Model.Textfile.
Import ListNotations.
Open Scope nat_scope.

(* ------------------------------------------------------------------------------------------ *)
(* basics                                                                                      *)

Lemma name_eqb_eq : forall a b, name_eqb a b = true <-> a = b.
Proof.
  destruct a, b; simpl; split; intro H; try discriminate; try reflexivity.
  - apply Nat.eqb_eq in H. now subst.
  - inversion H. apply Nat.eqb_refl.
Qed.
Lemma name_eqb_refl : forall a, name_eqb a a = true.
Proof. intro a. now apply name_eqb_eq. Qed.
Lemma name_eqb_neq : forall a b, a <> b -> name_eqb a b = false.
Proof. intros a b H. destruct (name_eqb a b) eqn:E; auto. apply name_eqb_eq in E. contradiction. Qed.
Lemma temp_neq : forall w w', w' <> w -> name_eqb (NTemp w') (NTemp w) = false.
Proof. intros. apply name_eqb_neq. congruence. Qed.

Definition tag_of (s : fs) (i : nat) : option nat :=
  match i_data (inodes s i) with DNew w _ _ => Some w | DOld => None end.

(* what a file-system transition performed by writer w (holding descriptor fdo) may touch *)
Record fsfp (w : nat) (fdo : option nat) (s s' : fs) : Prop := {
  fp_next : next_ino s <= next_ino s';
  fp_tag : forall j, j < next_ino s -> tag_of s' j = tag_of s j;
  fp_ino : forall j, j < next_ino s -> fdo <> Some j -> dir s (NTemp w) <> Some j -> inodes s' j = inodes s j;
  fp_new : forall j, next_ino s <= j < next_ino s' -> tag_of s' j = Some w;
  fp_dir : forall w', w' <> w -> dir s' (NTemp w') = dir s (NTemp w');
  fp_tmp : forall j, dir s' (NTemp w) = Some j -> dir s (NTemp w) = Some j \/ next_ino s <= j < next_ino s';
  fp_target : dir s' NTarget = dir s NTarget \/
              (exists i, dir s (NTemp w) = Some i /\ dir s' NTarget = Some i /\ dir s' (NTemp w) = None /\
                         inodes s' = inodes s /\ next_ino s' = next_ino s) }.

Lemma fsfp_refl : forall w fdo s, fsfp w fdo s s.
Proof. intros. constructor; auto; intros; try lia. Qed.

Lemma fsfp_create : forall w fdo s, fsfp w fdo s (fst (fs_create w s)).
Proof.
  intros. constructor; simpl; auto.
  - intros j H. unfold tag_of. simpl. destruct (Nat.eqb_spec j (next_ino s)); [lia|reflexivity].
  - intros j H _ _. destruct (Nat.eqb_spec j (next_ino s)); [lia|reflexivity].
  - intros j H. assert (j = next_ino s) by lia. subst. unfold tag_of. simpl. now rewrite Nat.eqb_refl.
  - intros w' H. destruct (Nat.eqb_spec w' w); [contradiction|reflexivity].
  - intros j H. rewrite Nat.eqb_refl in H. inversion H. right. lia.
Qed.

Lemma fsfp_write : forall w s i torn, fsfp w (Some i) s (fs_write s i torn).
Proof.
  intros. unfold fs_write. destruct (i_data (inodes s i)) eqn:E; [apply fsfp_refl|].
  constructor; simpl; auto; try (intros; lia).
  - intros j _. unfold tag_of. simpl. destruct (Nat.eqb_spec j i); [subst; simpl; now rewrite E|reflexivity].
  - intros j _ H _. destruct (Nat.eqb_spec j i); [subst; congruence|reflexivity].
Qed.

Lemma fsfp_chmod : forall w fdo s i m, dir s (NTemp w) = Some i ->
  fsfp w fdo s (set_ino s i (mk_inode (i_data (inodes s i)) m)).
Proof.
  intros. constructor; simpl; auto; try (intros; lia).
  - intros j _. unfold tag_of. simpl. destruct (Nat.eqb_spec j i); [subst; reflexivity|reflexivity].
  - intros j _ _ H1. destruct (Nat.eqb_spec j i); [subst; congruence|reflexivity].
Qed.

Lemma fsfp_unlink : forall w fdo s, fsfp w fdo s (set_dir s (NTemp w) None).
Proof.
  intros. constructor; simpl; auto; try (intros; lia).
  - intros w' H. destruct (Nat.eqb_spec w' w); [contradiction|reflexivity].
  - intros j H. rewrite Nat.eqb_refl in H. discriminate.
Qed.

Lemma fsfp_rename : forall w fdo s i, dir s (NTemp w) = Some i ->
  fsfp w fdo s (set_dir (set_dir s NTarget (Some i)) (NTemp w) None).
Proof.
  intros. constructor; simpl; auto; try (intros; lia).
  - intros w' H'. destruct (Nat.eqb_spec w' w); [contradiction|reflexivity].
  - intros j H'. rewrite Nat.eqb_refl in H'. discriminate.
  - right. exists i. rewrite Nat.eqb_refl. auto.
Qed.

(* ------------------------------------------------------------------------------------------ *)
(* footprint of one step, for ANY program                                                      *)

Lemma step_fsfp : forall n w f wr s, fsfp w (w_fd wr) s (snd (step n w f wr s)).
Proof.
  intros. unfold step.
  destruct (w_status wr); simpl; try apply fsfp_refl.
  destruct (w_ops wr) as [|[op early] rest].
  - destruct (w_defer wr); simpl; [apply fsfp_unlink|apply fsfp_refl].
  - destruct op; simpl.
    + destruct f; simpl; try apply fsfp_refl. apply (fsfp_create w (w_fd wr) s).
    + apply fsfp_refl.
    + destruct f; apply fsfp_refl.
    + destruct (w_enc wr <? n); simpl; [|apply fsfp_refl].
      destruct (w_fd wr); simpl; [|apply fsfp_refl].
      destruct f; simpl; apply fsfp_write.
    + destruct f, (w_fd wr); simpl; apply fsfp_refl.
    + destruct f; simpl; try apply fsfp_refl.
      destruct (dir s (NTemp w)) eqn:E; simpl; [now apply fsfp_chmod|apply fsfp_refl].
    + destruct f; simpl; try apply fsfp_refl.
      destruct (dir s (NTemp w)) eqn:E; simpl; [now apply fsfp_rename|apply fsfp_refl].
    + apply fsfp_refl.
Qed.

(* a descriptor after the step is the one held before, or a freshly created inode *)
Lemma step_fd : forall n w f wr s j,
  w_fd (fst (step n w f wr s)) = Some j ->
  w_fd wr = Some j \/ (j = next_ino s /\ next_ino (snd (step n w f wr s)) = S (next_ino s)).
Proof.
  intros n w f wr s j. unfold step.
  destruct (w_status wr); simpl; auto.
  destruct (w_ops wr) as [|[op early] rest].
  - destruct (w_defer wr); simpl; auto.
  - destruct op; simpl.
    + destruct f; simpl; [intro H; inversion H; auto| |]; destruct early; simpl; auto.
    + auto.
    + destruct f; simpl; auto; destruct early; simpl; auto.
    + destruct (w_enc wr <? n); simpl; auto.
      destruct (w_fd wr) eqn:E; simpl.
      * destruct f; simpl; auto; destruct early; simpl; rewrite ?E; auto.
      * destruct f; simpl; destruct early; simpl; rewrite ?E; auto.
    + destruct f, (w_fd wr); simpl; try destruct early; simpl; intro H; discriminate.
    + destruct f; simpl; try (destruct early; simpl; auto; fail).
      destruct (dir s (NTemp w)); simpl; auto. destruct early; simpl; auto.
    + destruct f; simpl; try (destruct early; simpl; auto; fail).
      destruct (dir s (NTemp w)); simpl; auto. destruct early; simpl; auto.
    + auto.
Qed.

(* ------------------------------------------------------------------------------------------ *)
(* the recogniser, unfolded                                                                    *)

Definition opG : tf_op * bool := (TGather, true).
Definition tail4 : list (tf_op * bool) :=
  [(TEncodeAllToTmp, true); (TCloseTmp, true); (TChmodTmp new_mode, true); (TRenameTmpToTarget, true)].
Definition mid_ok (ops : list (tf_op * bool)) : Prop := tail_safe (skip_gathers ops) = true.

Lemma tail_safe_inv : forall ops, tail_safe ops = true -> ops = tail4.
Proof.
  intros ops H. unfold tail_safe in H.
  repeat match type of H with
         | context [match ?x with _ => _ end] => destruct x; try discriminate
         end.
  apply Z.eqb_eq in H. subst. reflexivity.
Qed.

Lemma mid_ok_cases : forall ops, mid_ok ops -> (exists r, ops = opG :: r /\ mid_ok r) \/ ops = tail4.
Proof.
  intros [|[op e] r] H; unfold mid_ok in *.
  - discriminate.
  - destruct op, e; simpl in H; try (right; now apply tail_safe_inv).
    left. exists r. split; auto.
Qed.

Lemma shape_core_cases : forall ops, shape_core ops = true ->
  (exists r, ops = opG :: r /\ shape_core r = true) \/
  (exists b r, ops = (TCreateTempInTargetDir, true) :: (TDeferRemoveTmp, b) :: r /\ mid_ok r).
Proof.
  intros [|[op e] r] H; unfold shape_core in *; simpl in H; try discriminate.
  destruct op, e; simpl in H; try discriminate.
  - destruct r as [|[op2 e2] r2]; try discriminate. destruct op2; try discriminate.
    right. exists e2, r2. split; auto.
  - left. exists r. split; auto.
Qed.

Lemma shape_safe_core : forall ops, shape_safe ops = true -> shape_core ops = true.
Proof. unfold shape_safe. intros ops H. now apply andb_true_iff in H. Qed.

Lemma w_fail_early : forall wr f rest,
  w_fail wr f true rest = w_abort wr (match f with FPanic => RPanic | _ => RErr end).
Proof. intros. destruct f; reflexivity. Qed.

Lemma dir_fs_write : forall s i t, dir (fs_write s i t) = dir s.
Proof. intros. unfold fs_write. destruct (i_data (inodes s i)); reflexivity. Qed.
Lemma next_fs_write : forall s i t, next_ino (fs_write s i t) = next_ino s.
Proof. intros. unfold fs_write. destruct (i_data (inodes s i)); reflexivity. Qed.

(* ------------------------------------------------------------------------------------------ *)
(* invariant                                                                                   *)

Section Invariant.
Variable nf : nat -> nat.     (* number of families gathered by call w *)
Variable old : option Z.      (* the target before: absent, or a complete file with this mode *)

Definition done_ok (wr : writer) : Prop := w_ops wr = [] /\ w_res wr = ROk.

(* where a call is, and what its temp file looks like there *)
Inductive winv (s : fs) (w : nat) (wr : writer) : Prop :=
| WI0 : shape_core (w_ops wr) = true -> w_fd wr = None -> w_defer wr = false -> w_res wr = ROk -> w_enc wr = 0 ->
        dir s (NTemp w) = None -> winv s w wr
| WI1 : forall i b r, w_ops wr = (TDeferRemoveTmp, b) :: r -> mid_ok r -> w_fd wr = Some i -> dir s (NTemp w) = Some i ->
        i_data (inodes s i) = DNew w 0 false -> w_defer wr = false -> w_res wr = ROk -> w_enc wr = 0 -> winv s w wr
| WI2 : forall i, mid_ok (w_ops wr) -> w_fd wr = Some i -> dir s (NTemp w) = Some i ->
        i_data (inodes s i) = DNew w (w_enc wr) false -> w_enc wr <= nf w -> w_defer wr = true -> w_res wr = ROk -> winv s w wr
| WI3 : forall i, w_ops wr = tl tail4 -> w_fd wr = Some i -> dir s (NTemp w) = Some i ->
        i_data (inodes s i) = DNew w (nf w) false -> w_defer wr = true -> w_res wr = ROk -> winv s w wr
| WI4 : forall i, w_ops wr = tl (tl tail4) -> w_fd wr = None -> dir s (NTemp w) = Some i ->
        i_data (inodes s i) = DNew w (nf w) false -> w_defer wr = true -> w_res wr = ROk -> winv s w wr
| WI5 : forall i, w_ops wr = tl (tl (tl tail4)) -> w_fd wr = None -> dir s (NTemp w) = Some i ->
        inodes s i = mk_inode (DNew w (nf w) false) new_mode -> w_defer wr = true -> w_res wr = ROk -> winv s w wr
| WI6 : w_ops wr = [] -> w_res wr = ROk -> w_fd wr = None -> dir s (NTemp w) = None -> winv s w wr
| WIF : w_ops wr = [] -> w_res wr <> ROk -> (w_defer wr = false -> dir s (NTemp w) = None) -> winv s w wr.

Lemma winv_frame : forall s s' w wr, winv s w wr ->
  dir s' (NTemp w) = dir s (NTemp w) ->
  (forall i, dir s (NTemp w) = Some i -> inodes s' i = inodes s i) ->
  winv s' w wr.
Proof.
  intros s s' w wr H Hd Hi.
  destruct H;
    [ eapply WI0 | eapply WI1 | eapply WI2 | eapply WI3 | eapply WI4 | eapply WI5 | eapply WI6 | eapply WIF ];
    eauto; try (rewrite Hd; eauto; fail); try (rewrite Hi; eauto; fail).
Qed.

Definition target_inv (s : sys) : Prop :=
  (dir (s_fs s) NTarget = dir (init_fs old) NTarget /\
   (forall i, dir (s_fs s) NTarget = Some i -> i < next_ino (s_fs s) /\ inodes (s_fs s) i = inodes (init_fs old) i) /\
   (forall w, ~ done_ok (s_ws s w)))
  \/ (exists w i, dir (s_fs s) NTarget = Some i /\ i < next_ino (s_fs s) /\
                  inodes (s_fs s) i = mk_inode (DNew w (nf w) false) new_mode /\ done_ok (s_ws s w)).

Record Inv (s : sys) : Prop := {
  inv_fd : forall w i, w_fd (s_ws s w) = Some i ->
             i < next_ino (s_fs s) /\ tag_of (s_fs s) i = Some w /\ dir (s_fs s) NTarget <> Some i;
  inv_tmp : forall w i, dir (s_fs s) (NTemp w) = Some i ->
             i < next_ino (s_fs s) /\ tag_of (s_fs s) i = Some w /\ dir (s_fs s) NTarget <> Some i;
  inv_w : forall w, w_status (s_ws s w) <> Crashed -> winv (s_fs s) w (s_ws s w);
  inv_ret : forall w, w_status (s_ws s w) = Returned -> w_ops (s_ws s w) = [] /\ w_defer (s_ws s w) = false;
  inv_target : target_inv s }.

Lemma target_lt : forall s i, target_inv s -> dir (s_fs s) NTarget = Some i -> i < next_ino (s_fs s).
Proof.
  intros s i [[_ [H _]]|[w [j [H1 [H2 _]]]]] Hi.
  - now apply H.
  - congruence.
Qed.

Lemma upd_same : forall ws w wr, upd_w ws w wr w = wr.
Proof. intros. unfold upd_w. now rewrite Nat.eqb_refl. Qed.
Lemma upd_other : forall ws w wr w', w' <> w -> upd_w ws w wr w' = ws w'.
Proof. intros. unfold upd_w. destruct (Nat.eqb_spec w' w); [contradiction|reflexivity]. Qed.

(* one writer moves: what has to be shown about it, everything else follows from the footprint *)
Lemma inv_update : forall s w wr' fs',
  Inv s ->
  fsfp w (w_fd (s_ws s w)) (s_fs s) fs' ->
  (forall i, w_fd wr' = Some i -> w_fd (s_ws s w) = Some i \/ next_ino (s_fs s) <= i < next_ino fs') ->
  (w_status wr' <> Crashed -> winv fs' w wr') ->
  (w_status wr' = Returned -> w_ops wr' = [] /\ w_defer wr' = false) ->
  ((dir fs' NTarget = dir (s_fs s) NTarget /\ (done_ok wr' <-> done_ok (s_ws s w)))
   \/ (exists i, dir (s_fs s) (NTemp w) = Some i /\ dir fs' NTarget = Some i /\ dir fs' (NTemp w) = None /\
                 inodes fs' i = mk_inode (DNew w (nf w) false) new_mode /\ done_ok wr' /\ w_fd wr' = None)) ->
  Inv (mk_sys fs' (upd_w (s_ws s) w wr')).
Proof.
  intros s w wr' fs' I FP Hfd Hw Hret Ht.
  destruct I as [Ifd Itmp Iw Iret Itg]. destruct FP as [Fnext Ftag Fino Fnew Fdir Ftmp Ftarget].
  assert (Tlt := target_lt s).
  (* the target inode is not reachable through w's descriptor or temp name, hence unchanged *)
  assert (Tsame : forall i, dir (s_fs s) NTarget = Some i -> inodes fs' i = inodes (s_fs s) i).
  { intros i Hi. apply Fino.
    - now apply Tlt.
    - intro E. apply Ifd in E. tauto.
    - intro E. apply Itmp in E. tauto. }
  (* after a rename by w, no other reference points to the renamed inode *)
  assert (Tother : forall w' j i, w' <> w -> tag_of (s_fs s) j = Some w' -> dir (s_fs s) (NTemp w) = Some i -> i <> j).
  { intros w' j i Hn Hj Hi E. subst j. apply Itmp in Hi. destruct Hi as [_ [Hi _]]. congruence. }
  constructor; simpl.
  - (* descriptors *)
    intros w' i. destruct (Nat.eq_dec w' w) as [->|Hn].
    + rewrite upd_same. intro Hi. destruct (Hfd i Hi) as [Ho|Hfresh].
      * destruct (Ifd _ _ Ho) as [A [B C]]. split; [lia|]. split; [rewrite Ftag; auto|].
        destruct Ht as [[Hd _]|[i0 [_ [_ [_ [_ [_ Hnone]]]]]]]; [now rewrite Hd|congruence].
      * split; [lia|]. split; [now apply Fnew|].
        destruct Ht as [[Hd _]|[i0 [_ [_ [_ [_ [_ Hnone]]]]]]]; [|congruence].
        rewrite Hd. intro E. apply Tlt in E; auto. lia.
    + rewrite upd_other by auto. intro Hi. destruct (Ifd _ _ Hi) as [A [B C]].
      split; [lia|]. split; [rewrite Ftag; auto|].
      destruct Ht as [[Hd _]|[i0 [H0 [H1 _]]]]; [now rewrite Hd|].
      rewrite H1. intro E. inversion E. subst i0. eapply (Tother w' i i); eauto.
  - (* temp names *)
    intros w' i. destruct (Nat.eq_dec w' w) as [->|Hn].
    + intro Hi. destruct Ht as [[Hd _]|[i0 [_ [_ [Hnone _]]]]]; [|congruence].
      destruct (Ftmp i Hi) as [Ho|Hfresh].
      * destruct (Itmp _ _ Ho) as [A [B C]]. split; [lia|]. split; [rewrite Ftag; auto|]. now rewrite Hd.
      * split; [lia|]. split; [now apply Fnew|]. rewrite Hd. intro E. apply Tlt in E; auto. lia.
    + rewrite Fdir by auto. intro Hi. destruct (Itmp _ _ Hi) as [A [B C]].
      split; [lia|]. split; [rewrite Ftag; auto|].
      destruct Ht as [[Hd _]|[i0 [H0 [H1 _]]]]; [now rewrite Hd|].
      rewrite H1. intro E. inversion E. subst i0. eapply (Tother w' i i); eauto.
  - (* the other writers are where they were *)
    intros w'. destruct (Nat.eq_dec w' w) as [->|Hn].
    + rewrite upd_same. auto.
    + rewrite upd_other by auto. intro Hs. apply winv_frame with (s := s_fs s); auto.
      intros i Hi. destruct (Itmp _ _ Hi) as [A [B C]]. apply Fino; auto.
      * intro E. apply Ifd in E. destruct E as [_ [E _]]. congruence.
      * intro E. apply Itmp in E. destruct E as [_ [E _]]. congruence.
  - intros w'. destruct (Nat.eq_dec w' w) as [->|Hn].
    + rewrite upd_same. auto.
    + rewrite upd_other by auto. auto.
  - (* target *)
    unfold target_inv. simpl.
    destruct Ht as [[Hd Hdone]|[i0 [H0 [H1 [H2 [H3 [H4 H5]]]]]]].
    + destruct Itg as [[A [B C]]|[w0 [i0 [A [B [C D]]]]]].
      * left. rewrite Hd. split; auto. split.
        -- intros i Hi. destruct (B i Hi) as [B1 B2]. split; [lia|]. rewrite Tsame; auto.
        -- intros w'. destruct (Nat.eq_dec w' w) as [->|Hn].
           ++ rewrite upd_same. rewrite Hdone. apply C.
           ++ rewrite upd_other by auto. apply C.
      * right. exists w0, i0. rewrite Hd. split; auto. split; [lia|]. split; [rewrite Tsame; auto|].
        destruct (Nat.eq_dec w0 w) as [->|Hn].
        -- rewrite upd_same. now apply Hdone.
        -- rewrite upd_other by auto. auto.
    + right. exists w, i0. split; auto. split.
      * destruct (Itmp _ _ H0) as [A _]. lia.
      * split; auto. now rewrite upd_same.
Qed.

Definition local_ok (s : sys) (w : nat) (wr' : writer) (fs' : fs) : Prop :=
  (w_status wr' <> Crashed -> winv fs' w wr') /\
  (w_status wr' = Returned -> w_ops wr' = [] /\ w_defer wr' = false) /\
  ((dir fs' NTarget = dir (s_fs s) NTarget /\ (done_ok wr' <-> done_ok (s_ws s w)))
   \/ (exists i, dir (s_fs s) (NTemp w) = Some i /\ dir fs' NTarget = Some i /\ dir fs' (NTemp w) = None /\
                 inodes fs' i = mk_inode (DNew w (nf w) false) new_mode /\ done_ok wr' /\ w_fd wr' = None)).

Lemma not_done_res : forall wr, w_res wr <> ROk -> ~ done_ok wr.
Proof. intros wr H [_ E]. contradiction. Qed.
Lemma not_done_ops : forall wr, w_ops wr <> [] -> ~ done_ok wr.
Proof. intros wr H [E _]. contradiction. Qed.
Lemma iff_false : forall A B : Prop, ~ A -> ~ B -> (A <-> B).
Proof. tauto. Qed.

Lemma res_neq : forall f, match f with FPanic => RPanic | _ => RErr end <> ROk.
Proof. destruct f; discriminate. Qed.

(* an aborted call (error or panic with early return): only the deferred remove is left *)
Lemma local_abort : forall s w wr0 fs' r,
  w_status wr0 = Running -> r <> ROk ->
  (w_defer wr0 = false -> dir fs' (NTemp w) = None) ->
  dir fs' NTarget = dir (s_fs s) NTarget ->
  w_ops (s_ws s w) <> [] ->
  local_ok s w (w_abort wr0 r) fs'.
Proof.
  intros s w wr0 fs' r Hst Hr Hd Ht Hops. unfold local_ok. split; [|split].
  - intros _. apply WIF; simpl; auto.
  - simpl. intro E. congruence.
  - left. split; auto. apply iff_false; [apply not_done_res; simpl; auto|apply not_done_ops; auto].
Qed.

Lemma step_local : forall s w f, Inv s ->
  local_ok s w (fst (step (nf w) w f (s_ws s w) (s_fs s))) (snd (step (nf w) w f (s_ws s w) (s_fs s))).
Proof.
  intros s w f I.
  destruct (w_status (s_ws s w)) eqn:Est.
  2,3: (unfold step; rewrite Est; simpl; unfold local_ok; split; [|split];
        [ intros Hc; apply (inv_w s I w); exact Hc
        | apply (inv_ret s I w)
        | left; split; [reflexivity|tauto] ]).
  assert (W : winv (s_fs s) w (s_ws s w)) by (apply (inv_w s I w); congruence).
  remember (s_ws s w) as wr eqn:Ewr.
  destruct W as [Hsh Hfd Hdf Hres Henc Hdir
                |i b r Hops Hmid Hfd Hdir Hdata Hdf Hres Henc
                |i Hmid Hfd Hdir Hdata Hle Hdf Hres
                |i Hops Hfd Hdir Hdata Hdf Hres
                |i Hops Hfd Hdir Hdata Hdf Hres
                |i Hops Hfd Hdir Hino Hdf Hres
                |Hops Hres Hfd Hdir
                |Hops Hres Hdir].
  - (* before the temp file exists *)
    destruct (shape_core_cases _ Hsh) as [[r [Hops Hr]]|[b [r [Hops Hr]]]]; unfold step; rewrite Est, Hops; simpl.
    + destruct f; simpl.
      * unfold local_ok. split; [|split].
        -- intros _. apply WI0; simpl; auto.
        -- simpl. congruence.
        -- left. split; auto. apply iff_false; apply not_done_ops; simpl.
           ++ intro E. rewrite E in Hr. discriminate.
           ++ rewrite <- Ewr, Hops. discriminate.
      * apply local_abort; auto; try discriminate. rewrite <- Ewr, Hops. discriminate.
      * apply local_abort; auto; try discriminate. rewrite <- Ewr, Hops. discriminate.
    + destruct f; simpl.
      * unfold local_ok. split; [|split].
        -- intros _. eapply WI1 with (i := next_ino (s_fs s)); simpl; eauto; rewrite Nat.eqb_refl; reflexivity.
        -- simpl. congruence.
        -- left. split; auto. apply iff_false; apply not_done_ops; simpl; [discriminate|].
           rewrite <- Ewr, Hops. discriminate.
      * apply local_abort; auto; try discriminate. rewrite <- Ewr, Hops. discriminate.
      * apply local_abort; auto; try discriminate. rewrite <- Ewr, Hops. discriminate.
  - (* created, the remove is being deferred *)
    unfold step; rewrite Est, Hops; simpl. unfold local_ok. split; [|split].
    + intros _. eapply WI2 with (i := i); simpl; eauto; try lia. now rewrite Henc.
    + simpl. congruence.
    + left. split; auto. apply iff_false; apply not_done_ops; simpl.
      * intro E. rewrite E in Hmid. discriminate.
      * rewrite <- Ewr, Hops. discriminate.
  - (* gathering / encoding into the open temp file *)
    destruct (mid_ok_cases _ Hmid) as [[r [Hops Hr]]|Hops]; unfold step; rewrite Est, Hops; simpl.
    + destruct f; simpl.
      * unfold local_ok. split; [|split].
        -- intros _. eapply WI2 with (i := i); simpl; eauto.
        -- simpl. congruence.
        -- left. split; auto. apply iff_false; apply not_done_ops; simpl.
           ++ intro E. rewrite E in Hr. discriminate.
           ++ rewrite <- Ewr, Hops. discriminate.
      * apply local_abort; auto; try discriminate; [congruence|]. rewrite <- Ewr, Hops. discriminate.
      * apply local_abort; auto; try discriminate; [congruence|]. rewrite <- Ewr, Hops. discriminate.
    + rewrite Hfd. destruct (Nat.ltb_spec (w_enc wr) (nf w)) as [Hlt|Hge]; simpl.
      * assert (Hw : forall t, i_data (inodes (fs_write (s_fs s) i t) i) =
                               DNew w (if t then w_enc wr else S (w_enc wr)) (false || t)).
        { intro t. unfold fs_write. rewrite Hdata. simpl. now rewrite Nat.eqb_refl. }
        destruct f; simpl.
        -- unfold local_ok. split; [|split].
           ++ intros _. eapply WI2 with (i := i); simpl; rewrite ?dir_fs_write, ?Hw; simpl; eauto.
           ++ simpl. congruence.
           ++ left. rewrite dir_fs_write. split; auto. apply iff_false; apply not_done_ops; simpl.
              ** rewrite Hops. discriminate.
              ** rewrite <- Ewr, Hops. discriminate.
        -- apply local_abort; simpl; auto; try discriminate; [congruence|now rewrite dir_fs_write|].
           rewrite <- Ewr, Hops. discriminate.
        -- apply local_abort; simpl; auto; try discriminate; [congruence|now rewrite dir_fs_write|].
           rewrite <- Ewr, Hops. discriminate.
      * unfold local_ok. split; [|split].
        -- intros _. eapply WI3 with (i := i); simpl; eauto. rewrite Hdata. f_equal. lia.
        -- simpl. congruence.
        -- left. split; auto. apply iff_false; apply not_done_ops; simpl; [discriminate|].
           rewrite <- Ewr, Hops. discriminate.
  - (* close *)
    unfold step; rewrite Est, Hops, Hfd; simpl. destruct f; simpl.
    + unfold local_ok. split; [|split].
      * intros _. eapply WI4 with (i := i); simpl; eauto.
      * simpl. congruence.
      * left. split; auto. apply iff_false; apply not_done_ops; simpl; [discriminate|].
        rewrite <- Ewr, Hops. discriminate.
    + apply local_abort; simpl; auto; try discriminate; [congruence|]. rewrite <- Ewr, Hops. discriminate.
    + apply local_abort; simpl; auto; try discriminate; [congruence|]. rewrite <- Ewr, Hops. discriminate.
  - (* chmod *)
    unfold step; rewrite Est, Hops; simpl. destruct f; simpl.
    + rewrite Hdir. simpl. unfold local_ok. split; [|split].
      * intros _. eapply WI5 with (i := i); simpl; eauto. rewrite Nat.eqb_refl, Hdata. reflexivity.
      * simpl. congruence.
      * left. split; auto. apply iff_false; apply not_done_ops; simpl; [discriminate|].
        rewrite <- Ewr, Hops. discriminate.
    + apply local_abort; simpl; auto; try discriminate; [congruence|]. rewrite <- Ewr, Hops. discriminate.
    + apply local_abort; simpl; auto; try discriminate; [congruence|]. rewrite <- Ewr, Hops. discriminate.
  - (* rename *)
    unfold step; rewrite Est, Hops; simpl. destruct f; simpl.
    + rewrite Hdir. simpl. unfold local_ok. split; [|split].
      * intros _. apply WI6; simpl; auto. now rewrite Nat.eqb_refl.
      * simpl. congruence.
      * right. exists i. simpl. rewrite Nat.eqb_refl. repeat split; auto.
    + apply local_abort; simpl; auto; try discriminate; [congruence|]. rewrite <- Ewr, Hops. discriminate.
    + apply local_abort; simpl; auto; try discriminate; [congruence|]. rewrite <- Ewr, Hops. discriminate.
  - (* renamed: deferred remove (the name is gone already), then return *)
    unfold step; rewrite Est, Hops; simpl. destruct (w_defer wr) eqn:Ed; simpl; unfold local_ok; (split; [|split]).
    + intros _. apply WI6; simpl; auto. now rewrite Nat.eqb_refl.
    + simpl. congruence.
    + left. split; auto. unfold done_ok. simpl. rewrite <- Ewr. tauto.
    + intros _. apply WI6; simpl; auto.
    + simpl. auto.
    + left. split; auto. unfold done_ok. simpl. rewrite <- Ewr. tauto.
  - (* failed: deferred remove, then return *)
    unfold step; rewrite Est, Hops; simpl. destruct (w_defer wr) eqn:Ed; simpl; unfold local_ok; (split; [|split]).
    + intros _. apply WIF; simpl; auto. intros _. now rewrite Nat.eqb_refl.
    + simpl. congruence.
    + left. split; auto. unfold done_ok. simpl. rewrite <- Ewr. tauto.
    + intros _. apply WIF; simpl; auto.
    + simpl. auto.
    + left. split; auto. unfold done_ok. simpl. rewrite <- Ewr. tauto.
Qed.

Lemma inv_event : forall s e, Inv s -> Inv (do_event nf e s).
Proof.
  intros s [w f|w torn] I; unfold do_event.
  - destruct (step (nf w) w f (s_ws s w) (s_fs s)) as [wr' fs'] eqn:E.
    assert (L := step_local s w f I).
    assert (FP := step_fsfp (nf w) w f (s_ws s w) (s_fs s)).
    assert (FD := step_fd (nf w) w f (s_ws s w) (s_fs s)).
    rewrite E in *. simpl in *. destruct L as [L1 [L2 L3]].
    apply inv_update; auto.
    intros i Hi. destruct (FD i Hi) as [|[? ?]]; [auto|right; lia].
  - destruct (w_status (s_ws s w)) eqn:Est; auto.
    match goal with |- Inv (mk_sys ?x _) => set (fs' := x) end.
    assert (Hfs : fs' = s_fs s \/ exists i, w_fd (s_ws s w) = Some i /\ fs' = fs_write (s_fs s) i true).
    { subst fs'. destruct torn; auto. destruct (w_ops (s_ws s w)) as [|[op e] r]; auto.
      destruct op; auto. destruct (w_fd (s_ws s w)) as [i|]; auto.
      destruct (w_enc (s_ws s w) <? nf w); auto. right. exists i. auto. }
    clearbody fs'. apply inv_update; auto.
    + destruct Hfs as [->|[i [Hi ->]]]; [apply fsfp_refl|rewrite Hi; apply fsfp_write].
    + simpl. congruence.
    + simpl. congruence.
    + left. split.
      * destruct Hfs as [->|[i [Hi ->]]]; [reflexivity|now rewrite dir_fs_write].
      * unfold done_ok. simpl. tauto.
Qed.

Lemma inv_run : forall evs s, Inv s -> Inv (run nf evs s).
Proof.
  induction evs as [|e evs IH]; intros s I; simpl; auto. apply IH. now apply inv_event.
Qed.

Lemma shape_core_nonempty : forall ops, shape_core ops = true -> ops <> [].
Proof. intros ops H E. subst. discriminate. Qed.

Lemma inv_init : forall ops, shape_core ops = true -> Inv (init_sys ops old).
Proof.
  intros ops H. constructor; simpl.
  - intros w i E. discriminate.
  - intros w i E. destruct old; discriminate.
  - intros w _. apply WI0; simpl; auto.
  - intros w E. discriminate.
  - left. simpl. split; auto. split.
    + intros i E. destruct old; inversion E. unfold old_ino. split; [lia|reflexivity].
    + intros w. apply not_done_ops. simpl. now apply shape_core_nonempty.
Qed.

(* ---- reading the invariant --------------------------------------------------------------- *)

Lemma tstate_eqb_refl : forall t, tstate_eqb t t = true.
Proof. destruct t; simpl; auto; rewrite ?Nat.eqb_refl, ?Z.eqb_refl; reflexivity. Qed.

Definition target_untouched (s : sys) : Prop :=
  dir (s_fs s) NTarget = dir (init_fs old) NTarget /\
  (forall i, dir (s_fs s) NTarget = Some i -> i < next_ino (s_fs s) /\ inodes (s_fs s) i = inodes (init_fs old) i).

Lemma untouched_state : forall s, target_untouched s -> target_state nf s = old_state old.
Proof.
  intros s [A B]. unfold target_state, classify. destruct (dir (s_fs s) NTarget) as [i|] eqn:E.
  - destruct (B i eq_refl) as [_ B2]. rewrite B2. simpl in A. destruct old; simpl; [reflexivity|discriminate].
  - simpl in A. destruct old; simpl; [discriminate|reflexivity].
Qed.

Lemma complete_state : forall s w i, dir (s_fs s) NTarget = Some i ->
  inodes (s_fs s) i = mk_inode (DNew w (nf w) false) new_mode -> target_state nf s = TNewFile w new_mode.
Proof.
  intros s w i A B. unfold target_state, classify. rewrite A, B. simpl. now rewrite Nat.eqb_refl.
Qed.

Lemma inv_target_ok : forall s, Inv s -> target_ok old (target_state nf s) = true.
Proof.
  intros s I. destruct (inv_target s I) as [[A [B _]]|[w [i [A [_ [C _]]]]]].
  - rewrite untouched_state by (split; auto). destruct old; simpl; rewrite ?Z.eqb_refl; reflexivity.
  - rewrite (complete_state s w i) by auto. reflexivity.
Qed.

Lemma inv_no_temp : forall s w, Inv s -> w_status (s_ws s w) = Returned -> dir (s_fs s) (NTemp w) = None.
Proof.
  intros s w I Hr. destruct (inv_ret s I w Hr) as [Ho Hd].
  assert (W : winv (s_fs s) w (s_ws s w)) by (apply (inv_w s I w); congruence).
  destruct W as [Hsh _ _ _ _ _|? ? ? Hops _ _ _ _ _ _ _|? Hmid _ _ _ _ _ _|? Hops _ _ _ _ _|? Hops _ _ _ _ _|? Hops _ _ _ _ _| _ _ _ Hdir|_ _ Hdir];
    try (rewrite Ho in *; discriminate); auto.
Qed.

(* ---- files that were ever visible under the target name never change again ------------------ *)

Definition frozen (s : sys) (i : nat) : Prop :=
  i < next_ino (s_fs s) /\ (forall w, w_fd (s_ws s w) <> Some i) /\ (forall w, dir (s_fs s) (NTemp w) <> Some i).

Lemma target_frozen : forall s i, Inv s -> dir (s_fs s) NTarget = Some i -> frozen s i.
Proof.
  intros s i I H. split; [|split].
  - apply target_lt; auto. apply (inv_target s I).
  - intros w E. apply (inv_fd s I) in E. tauto.
  - intros w E. apply (inv_tmp s I) in E. tauto.
Qed.

Lemma frozen_event : forall s e i, frozen s i ->
  frozen (do_event nf e s) i /\ inodes (s_fs (do_event nf e s)) i = inodes (s_fs s) i.
Proof.
  intros s [w f|w torn] i [Hlt [Hfd Htmp]]; unfold do_event.
  - destruct (step (nf w) w f (s_ws s w) (s_fs s)) as [wr' fs'] eqn:E.
    assert (FP := step_fsfp (nf w) w f (s_ws s w) (s_fs s)).
    assert (FD := step_fd (nf w) w f (s_ws s w) (s_fs s)).
    rewrite E in *. simpl in *. destruct FP as [Fnext Ftag Fino Fnew Fdir Ftmp Ftarget].
    split; [split; [|split]|]; simpl.
    + lia.
    + intros w'. destruct (Nat.eq_dec w' w) as [->|Hn].
      * rewrite upd_same. intro Hi. destruct (FD i Hi) as [Ho|[Hf _]]; [now apply (Hfd w)|lia].
      * rewrite upd_other by auto. apply Hfd.
    + intros w'. destruct (Nat.eq_dec w' w) as [->|Hn].
      * intro Hi. destruct (Ftmp i Hi) as [Ho|Hf]; [now apply (Htmp w)|lia].
      * rewrite Fdir by auto. apply Htmp.
    + apply Fino; auto.
  - destruct (w_status (s_ws s w)) eqn:Est; try (split; [split|]; auto; fail).
    match goal with |- context [mk_sys ?x _] => set (fs' := x) end.
    assert (Hfs : fs' = s_fs s \/ exists j, w_fd (s_ws s w) = Some j /\ fs' = fs_write (s_fs s) j true).
    { subst fs'. destruct torn; auto. destruct (w_ops (s_ws s w)) as [|[op e] r]; auto.
      destruct op; auto. destruct (w_fd (s_ws s w)) as [j|]; auto.
      destruct (w_enc (s_ws s w) <? nf w); auto. right. exists j. auto. }
    clearbody fs'. simpl.
    assert (FP : fsfp w (w_fd (s_ws s w)) (s_fs s) fs').
    { destruct Hfs as [->|[j [Hj ->]]]; [apply fsfp_refl|rewrite Hj; apply fsfp_write]. }
    destruct FP as [Fnext Ftag Fino Fnew Fdir Ftmp Ftarget].
    split; [split; [|split]|]; simpl.
    + lia.
    + intros w'. destruct (Nat.eq_dec w' w) as [->|Hn].
      * rewrite upd_same. simpl. apply Hfd.
      * rewrite upd_other by auto. apply Hfd.
    + intros w'. destruct Hfs as [->|[j [Hj ->]]]; [apply Htmp|rewrite dir_fs_write; apply Htmp].
    + apply Fino; auto.
Qed.

Lemma frozen_run : forall evs s i, frozen s i ->
  frozen (run nf evs s) i /\ inodes (s_fs (run nf evs s)) i = inodes (s_fs s) i.
Proof.
  induction evs as [|e evs IH]; intros s i F; simpl; auto.
  destruct (frozen_event s e i F) as [F' E']. destruct (IH _ i F') as [F'' E'']. split; auto. congruence.
Qed.

Lemma target_stays_event : forall s e, dir (s_fs s) NTarget <> None -> dir (s_fs (do_event nf e s)) NTarget <> None.
Proof.
  intros s [w f|w torn] H; unfold do_event.
  - destruct (step (nf w) w f (s_ws s w) (s_fs s)) as [wr' fs'] eqn:E.
    assert (FP := step_fsfp (nf w) w f (s_ws s w) (s_fs s)). rewrite E in FP. simpl in *.
    destruct (fp_target _ _ _ _ FP) as [A|[i [_ [A _]]]]; congruence.
  - destruct (w_status (s_ws s w)); auto. simpl.
    destruct torn; auto. destruct (w_ops (s_ws s w)) as [|[op e] r]; auto.
    destruct op; auto. destruct (w_fd (s_ws s w)); auto.
    destruct (w_enc (s_ws s w) <? nf w); auto. now rewrite dir_fs_write.
Qed.

Lemma target_stays_run : forall evs s, dir (s_fs s) NTarget <> None -> dir (s_fs (run nf evs s)) NTarget <> None.
Proof.
  induction evs as [|e evs IH]; intros s H; simpl; auto. apply IH. now apply target_stays_event.
Qed.

(* ---- one call and nobody else ------------------------------------------------------------- *)

Definition ev_writer (e : event) : nat := match e with EStep w _ => w | ECrash w _ => w end.

Lemma run_other : forall evs s w, (forall e, In e evs -> ev_writer e <> w) -> s_ws (run nf evs s) w = s_ws s w.
Proof.
  induction evs as [|e evs IH]; intros s w H; simpl; auto.
  rewrite IH by (intros e' He'; apply H; now right).
  assert (Hn : ev_writer e <> w) by (apply H; now left).
  destruct e as [w0 f|w0 torn]; simpl in *; unfold do_event.
  - destruct (step (nf w0) w0 f (s_ws s w0) (s_fs s)). simpl. apply upd_other. auto.
  - destruct (w_status (s_ws s w0)); auto. simpl. apply upd_other. auto.
Qed.

Lemma solo_result : forall ops evs w,
  shape_core ops = true ->
  (forall e, In e evs -> ev_writer e = w) ->
  let s := run nf evs (init_sys ops old) in
  w_status (s_ws s w) = Returned ->
  spec_after_return old w (w_res (s_ws s w)) (target_state nf s) (temp_state nf s w) = true.
Proof.
  intros ops evs w Hsh Hsolo s Hret.
  assert (I : Inv s) by (apply inv_run; now apply inv_init).
  assert (Hothers : forall w', w' <> w -> ~ done_ok (s_ws s w')).
  { intros w' Hn. unfold s. rewrite run_other.
    - apply not_done_ops. simpl. now apply shape_core_nonempty.
    - intros e He. rewrite (Hsolo e He). auto. }
  unfold spec_after_return, temp_state. rewrite (inv_no_temp s w I Hret). simpl.
  destruct (inv_ret s I w Hret) as [Hops _].
  destruct (w_res (s_ws s w)) eqn:Er.
  - (* nil: somebody has renamed, and that can only be this call *)
    destruct (inv_target s I) as [[_ [_ C]]|[w' [i [A [_ [B D]]]]]].
    + exfalso. apply (C w). split; auto.
    + destruct (Nat.eq_dec w' w) as [->|Hn]; [|exfalso; now apply (Hothers w')].
      rewrite (complete_state s w i) by auto. apply tstate_eqb_refl.
  - destruct (inv_target s I) as [[A [B _]]|[w' [i [_ [_ [_ D]]]]]].
    + rewrite untouched_state by (split; auto). apply tstate_eqb_refl.
    + exfalso. destruct (Nat.eq_dec w' w) as [->|Hn]; [|now apply (Hothers w')].
      destruct D as [_ D]. congruence.
  - destruct (inv_target s I) as [[A [B _]]|[w' [i [_ [_ [_ D]]]]]].
    + rewrite untouched_state by (split; auto). apply tstate_eqb_refl.
    + exfalso. destruct (Nat.eq_dec w' w) as [->|Hn]; [|now apply (Hothers w')].
      destruct D as [_ D]. congruence.
Qed.

(* many calls: a successful call implies the target is the complete file of SOME successful call;
   while no call has succeeded the target is untouched *)
Lemma multi_result : forall s, Inv s ->
  (forall w, w_status (s_ws s w) = Returned -> w_res (s_ws s w) = ROk ->
     exists w', done_ok (s_ws s w') /\ target_state nf s = TNewFile w' new_mode) /\
  ((forall w, ~ done_ok (s_ws s w)) -> target_state nf s = old_state old).
Proof.
  intros s I. split.
  - intros w Hr Hres. destruct (inv_ret s I w Hr) as [Hops _].
    destruct (inv_target s I) as [[_ [_ C]]|[w' [i [A [_ [B D]]]]]].
    + exfalso. apply (C w). split; auto.
    + exists w'. split; auto. now apply (complete_state s w' i).
  - intros Hnone. destruct (inv_target s I) as [[A [B _]]|[w' [i [_ [_ [_ D]]]]]].
    + apply untouched_state. split; auto.
    + exfalso. now apply (Hnone w').
Qed.

End Invariant.

(* ------------------------------------------------------------------------------------------ *)
(* the clauses of the property, for every shape-safe program                                   *)

Lemma textfile_atomic_lemma : forall ops nf old evs,
  shape_safe ops = true ->
  target_ok old (target_state nf (run nf evs (init_sys ops old))) = true.
Proof.
  intros ops nf old evs H. apply inv_target_ok. apply inv_run. apply inv_init. now apply shape_safe_core.
Qed.

Lemma no_temp_left_lemma : forall ops nf old evs w,
  shape_safe ops = true ->
  let s := run nf evs (init_sys ops old) in
  w_status (s_ws s w) = Returned -> temp_state nf s w = TAbsent.
Proof.
  intros ops nf old evs w H s Hr. unfold temp_state.
  rewrite (inv_no_temp nf old s w); auto. apply inv_run. apply inv_init. now apply shape_safe_core.
Qed.

Lemma reader_never_partial_lemma : forall ops nf old evs1 evs2 i,
  shape_safe ops = true ->
  let s1 := run nf evs1 (init_sys ops old) in
  let s2 := run nf evs2 s1 in
  dir (s_fs s1) NTarget = Some i ->
  inodes (s_fs s2) i = inodes (s_fs s1) i /\
  target_ok old (classify nf (s_fs s2) (Some i)) = true /\
  dir (s_fs s2) NTarget <> None.
Proof.
  intros ops nf old evs1 evs2 i H s1 s2 Hi.
  assert (I1 : Inv nf old s1) by (apply inv_run; apply inv_init; now apply shape_safe_core).
  destruct (frozen_run nf evs2 s1 i (target_frozen nf old s1 i I1 Hi)) as [_ E].
  split; [exact E|]. split.
  - assert (T := inv_target_ok nf old s1 I1). unfold target_state in T. rewrite Hi in T.
    unfold classify in *. unfold s2. rewrite E. exact T.
  - apply target_stays_run. congruence.
Qed.

Lemma call_result_lemma : forall ops nf old evs w,
  shape_safe ops = true ->
  (forall e, In e evs -> ev_writer e = w) ->
  let s := run nf evs (init_sys ops old) in
  w_status (s_ws s w) = Returned ->
  spec_after_return old w (w_res (s_ws s w)) (target_state nf s) (temp_state nf s w) = true.
Proof. intros. apply solo_result; auto. now apply shape_safe_core. Qed.

Lemma concurrent_calls_lemma : forall ops nf old evs,
  shape_safe ops = true ->
  let s := run nf evs (init_sys ops old) in
  (forall w, w_status (s_ws s w) = Returned -> w_res (s_ws s w) = ROk ->
     exists w', w_ops (s_ws s w') = [] /\ w_res (s_ws s w') = ROk /\ target_state nf s = TNewFile w' new_mode) /\
  ((forall w, w_res (s_ws s w) = ROk -> w_ops (s_ws s w) <> []) -> target_state nf s = old_state old).
Proof.
  intros ops nf old evs H s.
  assert (I : Inv nf old s) by (apply inv_run; apply inv_init; now apply shape_safe_core).
  destruct (multi_result nf old s I) as [A B]. split.
  - intros w Hr Hres. destruct (A w Hr Hres) as [w' [[D1 D2] T]]. exists w'. auto.
  - intros Hn. apply B. intros w [D1 D2]. now apply (Hn w).
Qed.

(* ---- sequential execution is one of the schedules ------------------------------------------- *)

Lemma iter_add : forall {A} (f : A -> A) a b x, iter f (a + b) x = iter f b (iter f a x).
Proof. induction a; intros; simpl; auto. Qed.

Lemma solo_iter_run : forall n st pk k s,
  exists evs, (forall e, In e evs -> ev_writer e = 0) /\
    s_fs (run (fun _ => n) evs s) = snd (iter (solo_step n st pk) k (s_ws s 0, s_fs s)) /\
    s_ws (run (fun _ => n) evs s) 0 = fst (iter (solo_step n st pk) k (s_ws s 0, s_fs s)).
Proof.
  induction k as [|k IH]; intros s.
  - exists []. simpl. split; [tauto|auto].
  - set (e := EStep 0 (fault_for st pk (s_ws s 0))).
    destruct (IH (do_event (fun _ => n) e s)) as [evs [Hs [Hf Hw]]].
    exists (e :: evs). split.
    + intros e' [<-|He']; [reflexivity|auto].
    + assert (E : (s_ws (do_event (fun _ => n) e s) 0, s_fs (do_event (fun _ => n) e s)) =
                  solo_step n st pk (s_ws s 0, s_fs s)).
      { unfold e, do_event, solo_step. simpl.
        destruct (step n 0 (fault_for st pk (s_ws s 0)) (s_ws s 0) (s_fs s)). simpl. now rewrite upd_same. }
      simpl. rewrite <- E. auto.
Qed.

Lemma exec_solo_sound_lemma : forall ops n st pk old,
  shape_safe ops = true ->
  let p := exec_solo ops n st pk old in
  w_status (fst p) = Returned ->
  let '(r, target, temp) := outcome_of n p in
  spec_after_return old 0 r target temp = true /\ target_ok old target = true.
Proof.
  intros ops n st pk old H p Hr.
  destruct (solo_iter_run n st pk (solo_fuel ops n) (init_sys ops old)) as [evs [Hs [Hf Hw]]].
  simpl in Hf, Hw. fold (exec_solo ops n st pk old) in Hf, Hw. fold p in Hf, Hw.
  unfold outcome_of.
  assert (A := call_result_lemma ops (fun _ => n) old evs 0 H Hs).
  assert (B := textfile_atomic_lemma ops (fun _ => n) old evs H).
  simpl in A. unfold target_state, temp_state in *. rewrite Hf, Hw in *. split; auto.
Qed.

(* ------------------------------------------------------------------------------------------ *)
(* model = specification for a sequential call: symbolic execution of every shape-safe program   *)

Definition failres (pk : bool) : result := if pk then RPanic else RErr.
Definition fin (p : writer * fs) (r : result) : Prop := w_status (fst p) = Returned /\ w_res (fst p) = r.

Lemma solo_idle : forall n st pk p, w_status (fst p) <> Running -> solo_step n st pk p = p.
Proof.
  intros n st pk [wr s] H. unfold solo_step, step. simpl in *.
  destruct (w_status wr); try reflexivity. contradiction.
Qed.

Lemma fin_reach : forall n st pk k K x r,
  fin (iter (solo_step n st pk) k x) r -> k <= K -> fin (iter (solo_step n st pk) K x) r.
Proof.
  intros n st pk k K x r H Hle. replace K with (k + (K - k)) by lia. rewrite iter_add.
  assert (Hid : forall d y, w_status (fst y) = Returned -> iter (solo_step n st pk) d y = y).
  { induction d; simpl; intros y Hy; auto. rewrite solo_idle by congruence. auto. }
  rewrite Hid; auto. apply H.
Qed.

Lemma gathers_skip : forall n st pk a rest e fd d r s, st <> SGather ->
  iter (solo_step n st pk) a (mk_writer (repeat opG a ++ rest) e fd d r Running, s) =
  (mk_writer rest e fd d r Running, s).
Proof.
  induction a; intros rest e fd d r s H; simpl; auto.
  unfold solo_step at 2. unfold fault_for, site_hits. simpl.
  destruct st; try congruence; simpl; apply IHa; auto.
Qed.

Definition fs_writes (s : fs) (i k : nat) : fs := iter (fun s => fs_write s i false) k s.
Lemma dir_fs_writes : forall k s i, dir (fs_writes s i k) = dir s.
Proof.
  unfold fs_writes. induction k; intros; simpl; auto. rewrite IHk. apply dir_fs_write.
Qed.

Lemma encode_loop : forall n st pk k e0 rest ee i d r s,
  (forall j, st = SEncode j -> j < e0 \/ e0 + k <= j) -> e0 + k <= n ->
  iter (solo_step n st pk) k (mk_writer ((TEncodeAllToTmp, ee) :: rest) e0 (Some i) d r Running, s) =
  (mk_writer ((TEncodeAllToTmp, ee) :: rest) (e0 + k) (Some i) d r Running, fs_writes s i k).
Proof.
  induction k; intros e0 rest ee i d r s Hst Hle.
  - simpl. rewrite Nat.add_0_r. reflexivity.
  - change (iter (solo_step n st pk) (S k) ?x) with (iter (solo_step n st pk) k (solo_step n st pk x)).
    assert (E : solo_step n st pk (mk_writer ((TEncodeAllToTmp, ee) :: rest) e0 (Some i) d r Running, s) =
                (mk_writer ((TEncodeAllToTmp, ee) :: rest) (S e0) (Some i) d r Running, fs_write s i false)).
    { unfold solo_step, step, fault_for, site_hits. simpl.
      assert (Hlt : e0 <? n = true) by (apply Nat.ltb_lt; lia). rewrite Hlt.
      destruct st; simpl; try reflexivity.
      destruct (Nat.eqb_spec e0 k0); [|reflexivity].
      exfalso. destruct (Hst k0 eq_refl); lia. }
    rewrite E. rewrite IHk; [|intros j Hj; destruct (Hst j Hj); lia|lia].
    replace (S e0 + k) with (e0 + S k) by lia. reflexivity.
Qed.

Definition canon (a : nat) (b : bool) (c : nat) : list (tf_op * bool) :=
  repeat opG a ++ (TCreateTempInTargetDir, true) :: (TDeferRemoveTmp, b) :: repeat opG c ++ tail4.

Lemma mid_canon : forall r, mid_ok r -> exists c, r = repeat opG c ++ tail4.
Proof.
  induction r as [|x r IH]; intro H.
  - discriminate.
  - destruct (mid_ok_cases _ H) as [[r' [E Hr']]|E].
    + inversion E; subst. destruct (IH Hr') as [c Hc]. exists (S c). simpl. now rewrite <- Hc.
    + exists 0. exact E.
Qed.

Lemma core_canon : forall ops, shape_core ops = true -> exists a b c, ops = canon a b c.
Proof.
  induction ops as [|x ops IH]; intro H.
  - discriminate.
  - destruct (shape_core_cases _ H) as [[r [E Hr]]|[b [r [E Hr]]]].
    + inversion E; subst. destruct (IH Hr) as [a [b [c Hc]]]. exists (S a), b, c. unfold canon. simpl. now rewrite Hc.
    + destruct (mid_canon r Hr) as [c Hc]. exists 0, b, c. unfold canon. simpl. now rewrite E, Hc.
Qed.

Lemma existsb_gather_repeat : forall a l, existsb is_gather (repeat opG a ++ l) = (0 <? a) || existsb is_gather l.
Proof. induction a; intros; simpl; auto. Qed.

Lemma safe_canon : forall ops, shape_safe ops = true -> exists a b c, ops = canon a b c /\ 1 <= a + c.
Proof.
  intros ops H. destruct (core_canon ops (shape_safe_core ops H)) as [a [b [c E]]].
  exists a, b, c. split; auto. subst ops. unfold shape_safe in H. apply andb_true_iff in H. destruct H as [_ H].
  unfold canon in H. rewrite existsb_gather_repeat in H. simpl in H. rewrite existsb_gather_repeat in H. simpl in H.
  destruct a, c; simpl in H; try lia; try discriminate.
Qed.

Lemma canon_fuel : forall a b c n, solo_fuel (canon a b c) n = a + c + n + 8.
Proof.
  intros. unfold solo_fuel, canon. rewrite app_length, repeat_length. simpl. rewrite app_length, repeat_length. simpl. lia.
Qed.

(* up to the first encode step *)
Lemma prefix_run : forall n st pk a b c old, st <> SGather -> st <> SCreate ->
  iter (solo_step n st pk) (a + (2 + c)) (init_writer (canon a b c), init_fs old) =
  (mk_writer tail4 0 (Some 1) true ROk Running, fst (fs_create 0 (init_fs old))).
Proof.
  intros n st pk a b c old Hg Hc. unfold init_writer, canon.
  rewrite iter_add, gathers_skip by auto. rewrite iter_add.
  assert (E : forall rest, iter (solo_step n st pk) 2
                (mk_writer ((TCreateTempInTargetDir, true) :: (TDeferRemoveTmp, b) :: rest) 0 None false ROk Running, init_fs old) =
              (mk_writer rest 0 (Some 1) true ROk Running, fst (fs_create 0 (init_fs old)))).
  { intro rest. simpl. unfold solo_step, fault_for, site_hits. simpl. destruct st; try congruence; reflexivity. }
  rewrite E. apply gathers_skip; auto.
Qed.

Lemma enc_run : forall n st pk i d r s,
  (forall j, st = SEncode j -> n <= j) ->
  iter (solo_step n st pk) (n + 1) (mk_writer tail4 0 (Some i) d r Running, s) =
  (mk_writer (tl tail4) 0 (Some i) d r Running, fs_writes s i n).
Proof.
  intros n st pk i d r s H. rewrite iter_add. unfold tail4 at 1.
  rewrite encode_loop; [|intros j Hj; right; simpl; now apply H|simpl; lia].
  simpl. unfold solo_step, step. simpl. rewrite Nat.ltb_irrefl. reflexivity.
Qed.

(* an aborted call: deferred remove (if registered), return *)
Lemma abort_run : forall n st pk e fd d r s,
  fin (iter (solo_step n st pk) 2 (mk_writer [] e fd d r Running, s)) r.
Proof. intros. destruct d; simpl; unfold fin; simpl; auto. Qed.

Lemma iter_S : forall {A} (f : A -> A) k x, iter f (S k) x = iter f k (f x).
Proof. reflexivity. Qed.

Lemma step_close : forall n st pk rest e i d r s,
  solo_step n st pk (mk_writer ((TCloseTmp, true) :: rest) e (Some i) d r Running, s) =
  match st with
  | SClose => (mk_writer [] e None d (failres pk) Running, s)
  | _ => (mk_writer rest e None d r Running, s)
  end.
Proof. intros. unfold solo_step, step, fault_for, site_hits. simpl. destruct st, pk; reflexivity. Qed.

Lemma step_chmod : forall n st pk m rest e fd d r s i, dir s (NTemp 0) = Some i ->
  solo_step n st pk (mk_writer ((TChmodTmp m, true) :: rest) e fd d r Running, s) =
  match st with
  | SChmod => (mk_writer [] e fd d (failres pk) Running, s)
  | _ => (mk_writer rest e fd d r Running, set_ino s i (mk_inode (i_data (inodes s i)) m))
  end.
Proof.
  intros. unfold solo_step, step, fault_for, site_hits. simpl. destruct st, pk; simpl; rewrite ?H; reflexivity.
Qed.

Lemma step_rename : forall n st pk rest e fd d r s i, dir s (NTemp 0) = Some i ->
  solo_step n st pk (mk_writer ((TRenameTmpToTarget, true) :: rest) e fd d r Running, s) =
  match st with
  | SRename => (mk_writer [] e fd d (failres pk) Running, s)
  | _ => (mk_writer rest e fd d r Running, set_dir (set_dir s NTarget (Some i)) (NTemp 0) None)
  end.
Proof.
  intros. unfold solo_step, step, fault_for, site_hits. simpl. destruct st, pk; simpl; rewrite ?H; reflexivity.
Qed.

Lemma step_create : forall n st pk rest e fd d r s,
  solo_step n st pk (mk_writer ((TCreateTempInTargetDir, true) :: rest) e fd d r Running, s) =
  match st with
  | SCreate => (mk_writer [] e fd d (failres pk) Running, s)
  | _ => (mk_writer rest e (Some (next_ino s)) d r Running, fst (fs_create 0 s))
  end.
Proof. intros. unfold solo_step, step, fault_for, site_hits. simpl. destruct st, pk; reflexivity. Qed.

Lemma step_defer : forall n st pk b rest e fd d r s,
  solo_step n st pk (mk_writer ((TDeferRemoveTmp, b) :: rest) e fd d r Running, s) =
  (mk_writer rest e fd true r Running, s).
Proof. intros. unfold solo_step, step, fault_for, site_hits. simpl. destruct st; reflexivity. Qed.

Lemma step_gather : forall n st pk rest e fd d r s,
  solo_step n st pk (mk_writer (opG :: rest) e fd d r Running, s) =
  match st with
  | SGather => (mk_writer [] e fd d (failres pk) Running, s)
  | _ => (mk_writer rest e fd d r Running, s)
  end.
Proof. intros. unfold solo_step, step, fault_for, site_hits, opG. simpl. destruct st, pk; reflexivity. Qed.

Lemma step_encode_fault : forall n pk rest e0 i d r s, e0 < n ->
  solo_step n (SEncode e0) pk (mk_writer ((TEncodeAllToTmp, true) :: rest) e0 (Some i) d r Running, s) =
  (mk_writer [] 0 (Some i) d (failres pk) Running, fs_write s i true).
Proof.
  intros. unfold solo_step, step, fault_for, site_hits. simpl.
  assert (Hl : e0 <? n = true) by (now apply Nat.ltb_lt). rewrite Hl, Nat.eqb_refl. destruct pk; reflexivity.
Qed.

Lemma tail_run : forall n st pk i s,
  dir s (NTemp 0) = Some i ->
  fin (iter (solo_step n st pk) 5 (mk_writer (tl tail4) 0 (Some i) true ROk Running, s))
      (match st with SClose | SChmod | SRename => failres pk | _ => ROk end).
Proof.
  intros n st pk i s H. unfold tail4, tl.
  assert (H' : forall m, dir (set_ino s i (mk_inode (i_data (inodes s i)) m)) (NTemp 0) = Some i) by (intro; exact H).
  rewrite iter_S, step_close.
  destruct st; try (rewrite iter_S, (step_chmod _ _ _ _ _ _ _ _ _ _ i H); cbv iota;
                    try (rewrite iter_S, (step_rename _ _ _ _ _ _ _ _ _ i (H' _)); cbv iota));
    try apply abort_run;
    try (eapply fin_reach; [apply abort_run|lia]).
Qed.

Lemma canon_exec : forall a b c n st pk old, 1 <= a + c ->
  fin (exec_solo (canon a b c) n st pk old) (if site_reachable n st then failres pk else ROk).
Proof.
  intros a b c n st pk old Hac. unfold exec_solo. rewrite canon_fuel.
  assert (Hdir : forall k, dir (fs_writes (fst (fs_create 0 (init_fs old))) 1 k) (NTemp 0) = Some 1).
  { intro k. rewrite dir_fs_writes. reflexivity. }
  assert (Hfull : (forall j, st = SEncode j -> n <= j) -> st <> SGather -> st <> SCreate ->
            fin (iter (solo_step n st pk) (a + (2 + c) + ((n + 1) + 5)) (init_writer (canon a b c), init_fs old))
                (match st with SClose | SChmod | SRename => failres pk | _ => ROk end)).
  { intros He Hg Hc. rewrite iter_add, prefix_run by auto. rewrite iter_add, enc_run by auto. apply tail_run. apply Hdir. }
  destruct st as [| | |j| | |]; simpl site_reachable; cbv iota.
  - (* no fault *)
    eapply fin_reach; [apply Hfull; congruence|lia].
  - (* create fails *)
    apply fin_reach with (k := a + 3); [|lia]. unfold init_writer, canon.
    rewrite iter_add, gathers_skip by congruence.
    rewrite iter_S, step_create. apply abort_run.
  - (* gather fails: the first gather in the program *)
    destruct a as [|a].
    + destruct c as [|c]; [lia|]. apply fin_reach with (k := 5); [|lia].
      unfold init_writer, canon. simpl repeat. simpl app.
      rewrite iter_S, step_create. cbv iota. rewrite iter_S, step_defer. rewrite iter_S, step_gather.
      apply abort_run.
    + apply fin_reach with (k := 3); [|lia]. unfold init_writer, canon. simpl repeat. simpl app.
      rewrite iter_S, step_gather. apply abort_run.
  - (* family j cannot be written *)
    destruct (Nat.ltb_spec j n) as [Hlt|Hge].
    + apply fin_reach with (k := a + (2 + c) + (j + 3)); [|lia].
      rewrite iter_add, prefix_run by congruence. rewrite iter_add. unfold tail4 at 1.
      rewrite encode_loop; [|intros j' Hj'; inversion Hj'; subst; simpl; lia|simpl; lia].
      simpl (0 + j). rewrite iter_S, step_encode_fault by auto. apply abort_run.
    + eapply fin_reach; [apply Hfull; try congruence|lia].
  - eapply fin_reach; [apply Hfull; congruence|lia].
  - eapply fin_reach; [apply Hfull; congruence|lia].
  - eapply fin_reach; [apply Hfull; congruence|lia].
Qed.

Lemma tstate_eqb_eq : forall a b, tstate_eqb a b = true -> a = b.
Proof.
  destruct a, b; simpl; intro H; try discriminate; auto.
  - apply Z.eqb_eq in H. now subst.
  - apply andb_true_iff in H. destruct H as [H1 H2]. apply Nat.eqb_eq in H1. apply Z.eqb_eq in H2. now subst.
Qed.

Lemma exec_matches_spec_lemma : forall ops n st pk old,
  shape_safe ops = true ->
  w_status (fst (exec_solo ops n st pk old)) = Returned /\
  outcome_of n (exec_solo ops n st pk old) = spec_outcome old n st pk.
Proof.
  intros ops n st pk old H.
  destruct (safe_canon ops H) as [a [b [c [E Hac]]]].
  destruct (canon_exec a b c n st pk old Hac) as [Hs Hr]. rewrite <- E in Hs, Hr.
  split; auto.
  assert (S := exec_solo_sound_lemma ops n st pk old H Hs). unfold outcome_of in *.
  destruct S as [S _]. rewrite Hr in *. unfold spec_outcome, spec_after_return in *.
  destruct (site_reachable n st).
  - apply andb_true_iff in S. destruct S as [S1 S2]. apply tstate_eqb_eq in S1.
    assert (S3 : classify (fun _ => n) (snd (exec_solo ops n st pk old)) (dir (snd (exec_solo ops n st pk old)) NTarget) = old_state old)
      by (destruct pk; simpl in S2; now apply tstate_eqb_eq).
    rewrite S1, S3. destruct pk; reflexivity.
  - apply andb_true_iff in S. destruct S as [S1 S2]. apply tstate_eqb_eq in S1. apply tstate_eqb_eq in S2.
    now rewrite S1, S2.
Qed.

(* explicit readings of call_result_lemma *)
Lemma success_means_new_0644_lemma : forall ops nf old evs w,
  shape_safe ops = true ->
  (forall e, In e evs -> ev_writer e = w) ->
  let s := run nf evs (init_sys ops old) in
  w_status (s_ws s w) = Returned -> w_res (s_ws s w) = ROk ->
  target_state nf s = TNewFile w new_mode.
Proof.
  intros ops nf old evs w H Hs s Hr Hres.
  assert (A := call_result_lemma ops nf old evs w H Hs Hr). fold s in A. rewrite Hres in A.
  unfold spec_after_return in A. apply andb_true_iff in A. destruct A as [_ A]. now apply tstate_eqb_eq.
Qed.

Lemma error_means_unchanged_lemma : forall ops nf old evs w,
  shape_safe ops = true ->
  (forall e, In e evs -> ev_writer e = w) ->
  let s := run nf evs (init_sys ops old) in
  w_status (s_ws s w) = Returned -> w_res (s_ws s w) <> ROk ->
  target_state nf s = old_state old.
Proof.
  intros ops nf old evs w H Hs s Hr Hres.
  assert (A := call_result_lemma ops nf old evs w H Hs Hr). fold s in A.
  unfold spec_after_return in A. apply andb_true_iff in A. destruct A as [_ A].
  destruct (w_res (s_ws s w)); [contradiction| |]; now apply tstate_eqb_eq.
Qed.

(* ---- the interpreter of the brief, with a crash point ----------------------------------------- *)

Lemma Inv_ext : forall nf old s s', Inv nf old s ->
  s_fs s' = s_fs s -> (forall w, s_ws s' w = s_ws s w) -> Inv nf old s'.
Proof.
  intros nf old s s' [Ifd Itmp Iw Iret Itg] Ef Ew. constructor.
  - intros w i. rewrite Ef, Ew. apply Ifd.
  - intros w i. rewrite Ef. apply Itmp.
  - intros w. rewrite Ef, Ew. apply Iw.
  - intros w. rewrite Ew. apply Iret.
  - unfold target_inv in *. rewrite Ef.
    destruct Itg as [[A [B C]]|[w [i [A [B [C D]]]]]].
    + left. split; auto. split; auto. intro w. rewrite Ew. apply C.
    + right. exists w, i. rewrite Ew. auto.
Qed.

Lemma exec_atomic_lemma : forall ops n faults crash old,
  shape_safe ops = true ->
  target_ok old (target_state (fun _ => n) (exec ops n faults crash old)) = true.
Proof.
  intros ops n [st pk] crash old H.
  assert (Hk : forall k, Inv (fun _ => n) old
            (mk_sys (snd (iter (solo_step n st pk) k (init_writer ops, init_fs old)))
                    (upd_w (fun _ => init_writer ops) 0 (fst (iter (solo_step n st pk) k (init_writer ops, init_fs old)))))).
  { intro k. destruct (solo_iter_run n st pk k (init_sys ops old)) as [evs [Hs [Hf Hw]]]. simpl in Hf, Hw.
    apply Inv_ext with (s := run (fun _ => n) evs (init_sys ops old)).
    - apply inv_run. apply inv_init. now apply shape_safe_core.
    - simpl. now rewrite Hf.
    - intro w. simpl. destruct (Nat.eq_dec w 0) as [->|Hn].
      + rewrite upd_same. now rewrite Hw.
      + rewrite upd_other by auto. rewrite run_other; [reflexivity|].
        intros e He. rewrite (Hs e He). auto. }
  unfold exec. simpl fst. simpl snd. destruct crash as [[k torn]|].
  - apply inv_target_ok. apply inv_event. apply Hk.
  - apply inv_target_ok. apply Hk.
Qed.

(* ---- the program generated from the Go source ------------------------------------------------ *)

Lemma program_shape_safe_lemma : shape_safe write_to_textfile_ops = true.
Proof. vm_compute. reflexivity. Qed.

(* a crash may leave a (partial) temp file: the process is killed in the middle of the second family *)
Lemma temp_may_remain_after_crash_lemma :
  exists evs, let s := run (fun _ => 2) evs (init_sys write_to_textfile_ops (Some 420%Z)) in
    w_status (s_ws s 0) = Crashed /\ temp_state (fun _ => 2) s 0 = TPartial /\
    target_state (fun _ => 2) s = TOldFile 420%Z.
Proof.
  exists [EStep 0 FNone; EStep 0 FNone; EStep 0 FNone; EStep 0 FNone; ECrash 0 true].
  vm_compute. repeat split; reflexivity.
Qed.
