(* Proofs/C08_proofs.v -- C08: registration enforces descriptor uniqueness and consistency, atomically. *)
From Coq Require Import ZArith List Bool Lia Sorted.
From Verif Require Import Base.Str Proofs.Str_facts Model.Registry.
Import ListNotations.
Open Scope Z_scope.

(* ---------- sets of strings ---------- *)
Lemma incl_strs_spec a b : incl_strs a b = true <-> incl a b.
Proof.
  unfold incl_strs. rewrite forallb_forall. split; intros H x Hx.
  - apply str_in_In. auto.
  - apply str_in_In. auto.
Qed.

Lemma seteq_strs_spec a b : seteq_strs a b = true <-> (forall x, In x a <-> In x b).
Proof.
  unfold seteq_strs. rewrite andb_true_iff, !incl_strs_spec. split.
  - intros [H1 H2] x; split; auto.
  - intros H; split; intros x Hx; apply H; exact Hx.
Qed.

Lemma seteq_strs_false a b : seteq_strs a b = false <-> ~ (forall x, In x a <-> In x b).
Proof.
  rewrite <- seteq_strs_spec. destruct (seteq_strs a b); split; intros; try congruence; try discriminate.
Qed.

Lemma str_in_false s l : str_in s l = false <-> ~ In s l.
Proof. rewrite <- str_in_In. destruct (str_in s l); split; intros; congruence. Qed.

Lemma dedup_strs_In x l : In x (dedup_strs l) <-> In x l.
Proof.
  induction l as [|y l IH]; simpl; [tauto|].
  destruct (str_in y l) eqn:E.
  - rewrite IH. split; [auto|]. intros [->|H]; [apply str_in_In; exact E|exact H].
  - simpl. rewrite IH. tauto.
Qed.

Lemma nodup_strs_spec l : nodup_strs l = true <-> NoDup l.
Proof.
  induction l as [|x l IH]; simpl.
  - split; [constructor|reflexivity].
  - rewrite andb_true_iff, negb_true_iff, str_in_false, IH. split.
    + intros [H1 H2]. constructor; assumption.
    + intros H. inversion H; subst. split; assumption.
Qed.

Lemma strs_eqb_eq a b : strs_eqb a b = true <-> a = b.
Proof.
  revert b; induction a as [|x a IH]; intros [|y b]; simpl; split; intros H; try discriminate; try reflexivity.
  - apply andb_true_iff in H. destruct H as [H1 H2]. apply str_eqb_eq in H1. apply IH in H2. subst; reflexivity.
  - inversion H; subst. rewrite str_eqb_refl. simpl. apply IH. reflexivity.
Qed.

Lemma str_eqb_sym a b : str_eqb a b = str_eqb b a.
Proof.
  destruct (str_eqb a b) eqn:E.
  - apply str_eqb_eq in E. subst. symmetry. apply str_eqb_refl.
  - symmetry. apply str_eqb_neq. apply str_eqb_neq in E. congruence.
Qed.

Lemma str_eqb_iff_eq a b c d : (a = b <-> c = d) -> str_eqb a b = str_eqb c d.
Proof.
  intros H. destruct (str_eqb a b) eqn:E1, (str_eqb c d) eqn:E2; try reflexivity.
  - apply str_eqb_eq in E1. apply H in E1. apply str_eqb_neq in E2. contradiction.
  - apply str_eqb_eq in E2. apply H in E2. apply str_eqb_neq in E1. contradiction.
Qed.

(* ---------- lexicographic order ---------- *)
Lemma str_ltb_irrefl a : str_ltb a a = false.
Proof. induction a as [|x a IH]; simpl; [reflexivity|]. rewrite Z.ltb_irrefl. exact IH. Qed.

Lemma str_ltb_trans a b c : str_ltb a b = true -> str_ltb b c = true -> str_ltb a c = true.
Proof.
  revert b c; induction a as [|x a IH]; intros [|y b] [|z c]; simpl; try discriminate; try reflexivity.
  destruct (Z.ltb_spec x y), (Z.ltb_spec y x), (Z.ltb_spec y z), (Z.ltb_spec z y),
           (Z.ltb_spec x z), (Z.ltb_spec z x); try lia; try discriminate; try reflexivity.
  apply IH.
Qed.

Lemma str_ltb_tricho a b : str_ltb a b = false -> str_ltb b a = false -> a = b.
Proof.
  revert b; induction a as [|x a IH]; intros [|y b]; simpl; try discriminate; try reflexivity.
  destruct (Z.ltb_spec x y), (Z.ltb_spec y x); try lia; try discriminate.
  intros H1 H2. assert (x = y) by lia. subst. f_equal. apply IH; assumption.
Qed.

Definition slt (a b : str) : Prop := str_ltb a b = true.

Lemma In_insert x y l : In x (insert_str y l) <-> x = y \/ In x l.
Proof.
  induction l as [|z l IH]; simpl; [intuition|].
  destruct (str_ltb z y); simpl; [rewrite IH|]; intuition.
Qed.

Lemma In_sort x l : In x (sort_strs l) <-> In x l.
Proof.
  induction l as [|y l IH]; simpl; [tauto|]. rewrite In_insert, IH. intuition.
Qed.

Lemma insert_sorted x l : StronglySorted slt l -> ~ In x l -> StronglySorted slt (insert_str x l).
Proof.
  induction 1 as [|y l Hs IH Hf]; intros Hn; simpl.
  - constructor; constructor.
  - destruct (str_ltb y x) eqn:E.
    + constructor.
      * apply IH. intros H; apply Hn; right; exact H.
      * apply Forall_forall. intros z Hz. apply In_insert in Hz. destruct Hz as [->|Hz]; [exact E|].
        rewrite Forall_forall in Hf. apply Hf; exact Hz.
    + assert (Hxy : slt x y).
      { destruct (str_ltb x y) eqn:E2; [exact E2|]. exfalso. apply Hn. left. symmetry. apply str_ltb_tricho; assumption. }
      constructor; [constructor; assumption|].
      constructor; [exact Hxy|].
      rewrite Forall_forall in *. intros z Hz. eapply str_ltb_trans; [exact Hxy|apply Hf; exact Hz].
Qed.

Lemma sort_sorted l : NoDup l -> StronglySorted slt (sort_strs l).
Proof.
  induction 1 as [|x l Hn Hd IH]; simpl; [constructor|].
  apply insert_sorted; [exact IH|]. rewrite In_sort. exact Hn.
Qed.

Lemma sorted_same_elems_eq l1 : forall l2, StronglySorted slt l1 -> StronglySorted slt l2 ->
  (forall x, In x l1 <-> In x l2) -> l1 = l2.
Proof.
  induction l1 as [|a l1 IH]; intros [|b l2] S1 S2 H.
  - reflexivity.
  - exfalso. apply (proj2 (H b)). left; reflexivity.
  - exfalso. apply (proj1 (H a)). left; reflexivity.
  - inversion S1 as [|? ? S1' F1]; inversion S2 as [|? ? S2' F2]; subst.
    rewrite Forall_forall in F1, F2.
    assert (a = b).
    { destruct (proj1 (H a) (or_introl eq_refl)) as [E|Ha]; [congruence|].
      destruct (proj2 (H b) (or_introl eq_refl)) as [E|Hb]; [congruence|].
      apply F2 in Ha. apply F1 in Hb. unfold slt in *.
      pose proof (str_ltb_trans _ _ _ Ha Hb) as T. rewrite str_ltb_irrefl in T. discriminate. }
    subst b. f_equal. apply IH; try assumption.
    intros x; split; intros Hx.
    + destruct (proj1 (H x) (or_intror Hx)) as [E|Hx2]; [|exact Hx2].
      subst x. apply F1 in Hx. unfold slt in Hx. rewrite str_ltb_irrefl in Hx. discriminate.
    + destruct (proj2 (H x) (or_intror Hx)) as [E|Hx2]; [|exact Hx2].
      subst x. apply F2 in Hx. unfold slt in Hx. rewrite str_ltb_irrefl in Hx. discriminate.
Qed.

Lemma sort_eq_iff l1 l2 : NoDup l1 -> NoDup l2 ->
  (sort_strs l1 = sort_strs l2 <-> (forall x, In x l1 <-> In x l2)).
Proof.
  intros N1 N2. split.
  - intros E x. rewrite <- (In_sort x l1), <- (In_sort x l2), E. tauto.
  - intros H. apply sorted_same_elems_eq; try (apply sort_sorted; assumption).
    intros x. rewrite !In_sort. apply H.
Qed.

(* ---------- utf8.ValidString excludes the separator byte ---------- *)
Lemma in_rng_le lo hi b : in_rng lo hi b = true -> lo <= b <= hi.
Proof. unfold in_rng. rewrite andb_true_iff, !Z.leb_le. tauto. Qed.

Lemma utf8_valid_bytes_aux n : forall s, (length s <= n)%nat -> utf8_valid s = true -> Forall (fun b => 0 <= b <= 244) s.
Proof.
  induction n as [|n IH]; intros s Hl Hv.
  - destruct s; [constructor|simpl in Hl; lia].
  - destruct s as [|b0 r]; [constructor|]. simpl in Hl. simpl in Hv.
    destruct (in_rng 0 127 b0) eqn:R0.
    { apply in_rng_le in R0. constructor; [lia|]. apply IH; [lia|exact Hv]. }
    destruct (in_rng 194 223 b0) eqn:R1.
    { apply in_rng_le in R1. destruct r as [|b1 r1]; [discriminate|].
      apply andb_true_iff in Hv. destruct Hv as [C1 Hv]. apply in_rng_le in C1. simpl in Hl.
      constructor; [lia|]. constructor; [lia|]. apply IH; [lia|exact Hv]. }
    destruct (in_rng 224 239 b0) eqn:R2.
    { apply in_rng_le in R2. destruct r as [|b1 [|b2 r2]]; try discriminate.
      apply andb_true_iff in Hv. destruct Hv as [Hv V]. apply andb_true_iff in Hv. destruct Hv as [C1 C2].
      apply in_rng_le in C2. simpl in Hl.
      assert (128 <= b1 <= 191).
      { destruct (b0 =? 224); [apply in_rng_le in C1; lia|]. destruct (b0 =? 237); apply in_rng_le in C1; lia. }
      constructor; [lia|]. constructor; [lia|]. constructor; [lia|]. apply IH; [lia|exact V]. }
    destruct (in_rng 240 244 b0) eqn:R3; [|discriminate].
    apply in_rng_le in R3. destruct r as [|b1 [|b2 [|b3 r3]]]; try discriminate.
    apply andb_true_iff in Hv. destruct Hv as [Hv V]. apply andb_true_iff in Hv. destruct Hv as [Hv C3].
    apply andb_true_iff in Hv. destruct Hv as [C1 C2].
    apply in_rng_le in C2. apply in_rng_le in C3. simpl in Hl.
    assert (128 <= b1 <= 191).
    { destruct (b0 =? 240); [apply in_rng_le in C1; lia|]. destruct (b0 =? 244); apply in_rng_le in C1; lia. }
    constructor; [lia|]. constructor; [lia|]. constructor; [lia|]. constructor; [lia|]. apply IH; [lia|exact V].
Qed.

Lemma utf8_valid_no_sep s : utf8_valid s = true -> ~ In sep s.
Proof.
  intros H Hin. pose proof (utf8_valid_bytes_aux (length s) s (le_n _) H) as F.
  rewrite Forall_forall in F. apply F in Hin. unfold sep in Hin. lia.
Qed.

Lemma no_sep_spec s : no_sep s = true <-> ~ In sep s.
Proof.
  unfold no_sep. rewrite negb_true_iff. split.
  - intros H Hin. assert (existsb (Z.eqb sep) s = true); [|congruence].
    apply existsb_exists. exists sep. split; [exact Hin|apply Z.eqb_refl].
  - intros H. destruct (existsb (Z.eqb sep) s) eqn:E; [|reflexivity].
    apply existsb_exists in E. destruct E as (x & Hx & E). apply Z.eqb_eq in E. subst. contradiction.
Qed.

(* ---------- the serialisation is injective on separator-free components ---------- *)
Lemma ser_cons_inj x y r1 r2 : ~ In sep x -> ~ In sep y -> x ++ sep :: r1 = y ++ sep :: r2 -> x = y /\ r1 = r2.
Proof.
  revert y; induction x as [|a x IH]; intros [|b y] Hx Hy E; simpl in *.
  - inversion E; auto.
  - inversion E; subst. exfalso. apply Hy. left; reflexivity.
  - inversion E; subst. exfalso. apply Hx. left; reflexivity.
  - inversion E; subst. destruct (IH y) as [E1 E2]; try assumption.
    + intros H; apply Hx; right; exact H.
    + intros H; apply Hy; right; exact H.
    + subst; auto.
Qed.

Lemma ser_cons v l : ser (v :: l) = v ++ sep :: ser l.
Proof. unfold ser. simpl. rewrite <- app_assoc. reflexivity. Qed.

Lemma ser_inj l1 : forall l2, Forall (fun s => ~ In sep s) l1 -> Forall (fun s => ~ In sep s) l2 ->
  ser l1 = ser l2 -> l1 = l2.
Proof.
  induction l1 as [|x l1 IH]; intros [|y l2] F1 F2 E.
  - reflexivity.
  - rewrite ser_cons in E. simpl in E. destruct y; discriminate.
  - rewrite ser_cons in E. simpl in E. destruct x; discriminate.
  - rewrite !ser_cons in E. inversion F1; inversion F2; subst.
    apply ser_cons_inj in E; try assumption. destruct E as [-> E]. f_equal. apply IH; assumption.
Qed.

(* ---------- well-formed descriptors: what NewDesc / wrapDesc establish ---------- *)
Definition desc_wf (d : desc) : Prop :=
  d_err d = false ->
    utf8_valid (d_fq d) = true /\
    Forall (fun p => utf8_valid (fst p) = true /\ utf8_valid (snd p) = true) (d_consts d) /\
    Forall (fun v => utf8_valid v = true) (d_vars d) /\
    NoDup (map fst (d_consts d) ++ d_vars d) /\
    d_idser d = ser (d_fq d :: map snd (d_consts d)) /\
    d_dimser d = ser (d_help d :: sort_strs (map fst (d_consts d) ++ map dollar (d_vars d))).

Lemma combine_map_r {A B} (f : A -> B) l : combine l (map f l) = map (fun x => (x, f x)) l.
Proof. induction l; simpl; congruence. Qed.

Lemma check_label_name_utf8 l : check_label_name l = true -> utf8_valid l = true.
Proof. unfold check_label_name. rewrite !andb_true_iff. tauto. Qed.

Lemma new_desc_wf fq help vars consts : desc_wf (new_desc fq help vars consts).
Proof.
  unfold new_desc, desc_wf.
  destruct (valid_metric_name fq) eqn:E1; cbn [negb]; [|simpl; discriminate].
  destruct (forallb check_label_name (map fst consts)) eqn:E2; cbn [negb]; [|simpl; discriminate].
  match goal with |- context [forallb utf8_valid ?l] => destruct (forallb utf8_valid l) eqn:E3 end; cbn [negb]; [|simpl; discriminate].
  destruct (forallb check_label_name vars) eqn:E4; cbn [negb]; [|simpl; discriminate].
  match goal with |- context [nodup_strs ?l] => destruct (nodup_strs l) eqn:E5 end; cbn [negb]; [|simpl; discriminate].
  cbn [d_err d_fq d_help d_consts d_vars d_idser d_dimser].
  intros _. rewrite combine_map_r, !map_map. simpl. rewrite map_id.
  simpl in E3. apply andb_true_iff in E3. destruct E3 as [E3a E3b].
  rewrite forallb_forall in E2, E3b, E4.
  repeat split.
  - exact E3a.
  - apply Forall_forall. intros p Hp. apply in_map_iff in Hp. destruct Hp as (n & <- & Hn). simpl. split.
    + apply check_label_name_utf8, E2. exact (proj1 (In_sort _ _) Hn).
    + apply E3b. apply in_map_iff. exists n. split; [reflexivity|exact Hn].
  - apply Forall_forall. intros v Hv. apply check_label_name_utf8, E4, Hv.
  - apply nodup_strs_spec. exact E5.
Qed.

Lemma wrap_desc_wf d p l : desc_wf d -> desc_wf (wrap_desc d p l).
Proof.
  intros H. unfold wrap_desc. destruct (d_err d) eqn:E; [exact H|].
  destruct (add_labels (d_consts d) l); [apply new_desc_wf|].
  unfold desc_wf, err_desc. simpl. discriminate.
Qed.

Lemma invalid_desc_wf : desc_wf invalid_desc.
Proof. unfold desc_wf, invalid_desc. simpl. discriminate. Qed.

Lemma nodup_app_iff {A} (a b : list A) : NoDup (a ++ b) <-> NoDup a /\ NoDup b /\ (forall x, In x a -> ~ In x b).
Proof.
  induction a as [|x a IH]; simpl.
  - split; [intros H; repeat split; [constructor|exact H|tauto]|tauto].
  - split.
    + intros H. inversion H as [|? ? Hn Hd]; subst. apply IH in Hd. destruct Hd as (Ha & Hb & Hab).
      rewrite in_app_iff in Hn. repeat split.
      * constructor; tauto.
      * exact Hb.
      * intros y [->|Hy]; [tauto|apply Hab; exact Hy].
    + intros (Ha & Hb & Hab). inversion Ha; subst. constructor.
      * rewrite in_app_iff. intros [H|H]; [contradiction|]. eapply Hab; [left; reflexivity|exact H].
      * apply IH. repeat split; try assumption. intros y Hy. apply Hab. right; exact Hy.
Qed.

Lemma no_dollar_start_not_dollar x v : no_dollar_start x = true -> x <> dollar v.
Proof. intros H E. subst. unfold dollar, no_dollar_start in H. discriminate. Qed.

(* ---------- hashes decide identity / dimensions on the keys where they are collision-free ---------- *)
Section Bridge.
Variable hash : str -> str.
Variable K : str -> Prop.
Hypothesis Hinj : forall a b, K a -> K b -> hash a = hash b -> a = b.

Definition good (d : desc) : Prop :=
  desc_wf d /\ (d_err d = false -> K (d_idser d) /\ K (d_dimser d) /\ dim_unambiguous d = true).

Lemma hid_eqb d e : good d -> good e -> d_err d = false -> d_err e = false ->
  str_eqb (hid hash d) (hid hash e) = same_ident d e.
Proof.
  intros [Wd Gd] [We Ge] Ed Ee.
  destruct (Wd Ed) as (Ud & Cd & _ & _ & Id & _). destruct (We Ee) as (Ue & Ce & _ & _ & Ie & _).
  destruct (Gd Ed) as (Kd & _ & _). destruct (Ge Ee) as (Ke & _ & _).
  apply eq_iff_eq_true. unfold same_ident, hid.
  rewrite andb_true_iff, !str_eqb_eq, strs_eqb_eq. split.
  - intros H. apply Hinj in H; try assumption. rewrite Id, Ie in H. apply ser_inj in H.
    + inversion H; auto.
    + constructor; [apply utf8_valid_no_sep; exact Ud|]. apply Forall_forall. intros v Hv.
      apply in_map_iff in Hv. destruct Hv as (p & <- & Hp). rewrite Forall_forall in Cd. apply utf8_valid_no_sep, Cd, Hp.
    + constructor; [apply utf8_valid_no_sep; exact Ue|]. apply Forall_forall. intros v Hv.
      apply in_map_iff in Hv. destruct Hv as (p & <- & Hp). rewrite Forall_forall in Ce. apply utf8_valid_no_sep, Ce, Hp.
  - intros [E1 E2]. rewrite Id, Ie, E1, E2. reflexivity.
Qed.

Definition dim_list (d : desc) : list str := map fst (d_consts d) ++ map dollar (d_vars d).

Lemma dim_list_facts d : good d -> d_err d = false ->
  NoDup (dim_list d) /\ Forall (fun s => ~ In sep s) (dim_list d) /\
  (forall x, In x (map fst (d_consts d)) -> no_dollar_start x = true).
Proof.
  intros [Wd Gd] Ed. destruct (Wd Ed) as (_ & Cd & Vd & Nd & _ & _). destruct (Gd Ed) as (_ & _ & Ud).
  unfold dim_unambiguous in Ud. apply andb_true_iff in Ud. destruct Ud as [_ Ud]. rewrite forallb_forall in Ud.
  apply nodup_app_iff in Nd. destruct Nd as (N1 & N2 & N3).
  rewrite Forall_forall in Cd, Vd.
  repeat split.
  - apply nodup_app_iff. repeat split.
    + exact N1.
    + clear -N2. induction N2; simpl; constructor; auto.
      intros H'. apply in_map_iff in H'. destruct H' as (y & E & Hy). unfold dollar in E. inversion E; subst. contradiction.
    + intros x Hx Hx'. apply in_map_iff in Hx'. destruct Hx' as (v & <- & _).
      apply Ud in Hx. unfold dollar, no_dollar_start in Hx. discriminate.
  - apply Forall_forall. intros x Hx. unfold dim_list in Hx. apply in_app_iff in Hx. destruct Hx as [Hx|Hx].
    + apply in_map_iff in Hx. destruct Hx as (p & <- & Hp). apply utf8_valid_no_sep, Cd, Hp.
    + apply in_map_iff in Hx. destruct Hx as (v & <- & Hv). unfold dollar. intros [H|H].
      * unfold sep in H. discriminate.
      * revert H. apply utf8_valid_no_sep, Vd, Hv.
  - exact Ud.
Qed.

Lemma dim_list_same d e : good d -> good e -> d_err d = false -> d_err e = false ->
  ((forall x, In x (dim_list d) <-> In x (dim_list e)) <->
   (forall x, In x (map fst (d_consts d)) <-> In x (map fst (d_consts e))) /\ (forall x, In x (d_vars d) <-> In x (d_vars e))).
Proof.
  intros Gd Ge Ed Ee.
  destruct (dim_list_facts d Gd Ed) as (_ & _ & Dd). destruct (dim_list_facts e Ge Ee) as (_ & _ & De).
  assert (Hd : forall v l, In (dollar v) (map dollar l) <-> In v l).
  { intros v l. rewrite in_map_iff. split; [intros (y & E & Hy); unfold dollar in E; inversion E; subst; exact Hy|].
    intros H. exists v. auto. }
  unfold dim_list. split.
  - intros H. split; intros x.
    + split; intros Hx.
      * destruct (proj1 (in_app_iff _ _ _) (proj1 (H x) (proj2 (in_app_iff _ _ _) (or_introl Hx)))) as [G|G]; [exact G|].
        apply in_map_iff in G. destruct G as (v & <- & _). apply Dd in Hx. unfold dollar, no_dollar_start in Hx. discriminate.
      * destruct (proj1 (in_app_iff _ _ _) (proj2 (H x) (proj2 (in_app_iff _ _ _) (or_introl Hx)))) as [G|G]; [exact G|].
        apply in_map_iff in G. destruct G as (v & <- & _). apply De in Hx. unfold dollar, no_dollar_start in Hx. discriminate.
    + rewrite <- (Hd x (d_vars d)), <- (Hd x (d_vars e)). split; intros Hx.
      * destruct (proj1 (in_app_iff _ _ _) (proj1 (H (dollar x)) (proj2 (in_app_iff _ _ _) (or_intror Hx)))) as [G|G]; [|exact G].
        apply De in G. unfold dollar, no_dollar_start in G. discriminate.
      * destruct (proj1 (in_app_iff _ _ _) (proj2 (H (dollar x)) (proj2 (in_app_iff _ _ _) (or_intror Hx)))) as [G|G]; [|exact G].
        apply Dd in G. unfold dollar, no_dollar_start in G. discriminate.
  - intros [H1 H2] x. rewrite !in_app_iff, H1. split; (intros [G|G]; [left; exact G|right]).
    + apply in_map_iff in G. destruct G as (v & <- & Hv). apply Hd, H2, Hv.
    + apply in_map_iff in G. destruct G as (v & <- & Hv). apply Hd, H2, Hv.
Qed.

Lemma hdim_eqb d e : good d -> good e -> d_err d = false -> d_err e = false ->
  str_eqb (hdim hash d) (hdim hash e) = agree d e.
Proof.
  intros Gd Ge Ed Ee.
  destruct (dim_list_facts d Gd Ed) as (Nd & Sd & _). destruct (dim_list_facts e Ge Ee) as (Ne & Se & _).
  pose proof (dim_list_same d e Gd Ge Ed Ee) as DS.
  destruct Gd as [Wd Gd]. destruct Ge as [We Ge].
  destruct (Wd Ed) as (_ & _ & _ & _ & _ & Dd). destruct (We Ee) as (_ & _ & _ & _ & _ & De).
  destruct (Gd Ed) as (_ & Kd & Ud). destruct (Ge Ee) as (_ & Ke & Ue).
  unfold dim_unambiguous in Ud, Ue. apply andb_true_iff in Ud, Ue. destruct Ud as [Hd _]. destruct Ue as [He _].
  apply no_sep_spec in Hd, He.
  fold (dim_list d) in Dd. fold (dim_list e) in De.
  apply eq_iff_eq_true. unfold agree, hdim.
  rewrite !andb_true_iff, !str_eqb_eq, !seteq_strs_spec. split.
  - intros H. apply Hinj in H; try assumption. rewrite Dd, De in H. apply ser_inj in H.
    + inversion H as [[E1 E2]]. pose proof (proj1 DS (proj1 (sort_eq_iff _ _ Nd Ne) E2)) as E3. tauto.
    + constructor; [exact Hd|]. apply Forall_forall. intros x Hx. apply (proj1 (In_sort _ _)) in Hx. rewrite Forall_forall in Sd. auto.
    + constructor; [exact He|]. apply Forall_forall. intros x Hx. apply (proj1 (In_sort _ _)) in Hx. rewrite Forall_forall in Se. auto.
  - intros [[E1 E2] E3]. rewrite Dd, De, E1. f_equal. f_equal. f_equal.
    apply (proj2 (sort_eq_iff _ _ Nd Ne)). apply (proj2 DS). split; assumption.
Qed.
End Bridge.
