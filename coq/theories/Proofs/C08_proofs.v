(* Proofs/C08_proofs.v -- C08: registration enforces descriptor uniqueness and consistency, atomically. *)
From Coq Require Import ZArith List Bool Lia Sorted.
From Verif Require Import Base.Str Proofs.Str_facts Model.Registry.
Import ListNotations.
Open Scope Z_scope.

(* ---------- sets of strings ---------- *)
Lemma incl_strs_spec a b : incl_strs a b = true <-> incl a b.
Proof.
  unfold incl_strs. rewrite forallb_forall. split; intros H x Hx.
  - apply str_in_In. auto.
  - apply str_in_In. auto.
Qed.

Lemma seteq_strs_spec a b : seteq_strs a b = true <-> (forall x, In x a <-> In x b).
Proof.
  unfold seteq_strs. rewrite andb_true_iff, !incl_strs_spec. split.
  - intros [H1 H2] x; split; auto.
  - intros H; split; intros x Hx; apply H; exact Hx.
Qed.

Lemma seteq_strs_false a b : seteq_strs a b = false <-> ~ (forall x, In x a <-> In x b).
Proof.
  rewrite <- seteq_strs_spec. destruct (seteq_strs a b); split; intros; try congruence; try discriminate.
Qed.

Lemma str_in_false s l : str_in s l = false <-> ~ In s l.
Proof. rewrite <- str_in_In. destruct (str_in s l); split; intros; congruence. Qed.

Lemma dedup_strs_In x l : In x (dedup_strs l) <-> In x l.
Proof.
  induction l as [|y l IH]; simpl; [tauto|].
  destruct (str_in y l) eqn:E.
  - rewrite IH. split; [auto|]. intros [->|H]; [apply str_in_In; exact E|exact H].
  - simpl. rewrite IH. tauto.
Qed.

Lemma nodup_strs_spec l : nodup_strs l = true <-> NoDup l.
Proof.
  induction l as [|x l IH]; simpl.
  - split; [constructor|reflexivity].
  - rewrite andb_true_iff, negb_true_iff, str_in_false, IH. split.
    + intros [H1 H2]. constructor; assumption.
    + intros H. inversion H; subst. split; assumption.
Qed.

Lemma strs_eqb_eq a b : strs_eqb a b = true <-> a = b.
Proof.
  revert b; induction a as [|x a IH]; intros [|y b]; simpl; split; intros H; try discriminate; try reflexivity.
  - apply andb_true_iff in H. destruct H as [H1 H2]. apply str_eqb_eq in H1. apply IH in H2. subst; reflexivity.
  - inversion H; subst. rewrite str_eqb_refl. simpl. apply IH. reflexivity.
Qed.

Lemma str_eqb_sym a b : str_eqb a b = str_eqb b a.
Proof.
  destruct (str_eqb a b) eqn:E.
  - apply str_eqb_eq in E. subst. symmetry. apply str_eqb_refl.
  - symmetry. apply str_eqb_neq. apply str_eqb_neq in E. congruence.
Qed.

Lemma str_eqb_iff_eq a b c d : (a = b <-> c = d) -> str_eqb a b = str_eqb c d.
Proof.
  intros H. destruct (str_eqb a b) eqn:E1, (str_eqb c d) eqn:E2; try reflexivity.
  - apply str_eqb_eq in E1. apply H in E1. apply str_eqb_neq in E2. contradiction.
  - apply str_eqb_eq in E2. apply H in E2. apply str_eqb_neq in E1. contradiction.
Qed.

(* ---------- lexicographic order ---------- *)
Lemma str_ltb_irrefl a : str_ltb a a = false.
Proof. induction a as [|x a IH]; simpl; [reflexivity|]. rewrite Z.ltb_irrefl. exact IH. Qed.

Lemma str_ltb_trans a b c : str_ltb a b = true -> str_ltb b c = true -> str_ltb a c = true.
Proof.
  revert b c; induction a as [|x a IH]; intros [|y b] [|z c]; simpl; try discriminate; try reflexivity.
  destruct (Z.ltb_spec x y), (Z.ltb_spec y x), (Z.ltb_spec y z), (Z.ltb_spec z y),
           (Z.ltb_spec x z), (Z.ltb_spec z x); try lia; try discriminate; try reflexivity.
  apply IH.
Qed.

Lemma str_ltb_tricho a b : str_ltb a b = false -> str_ltb b a = false -> a = b.
Proof.
  revert b; induction a as [|x a IH]; intros [|y b]; simpl; try discriminate; try reflexivity.
  destruct (Z.ltb_spec x y), (Z.ltb_spec y x); try lia; try discriminate.
  intros H1 H2. assert (x = y) by lia. subst. f_equal. apply IH; assumption.
Qed.

Definition slt (a b : str) : Prop := str_ltb a b = true.

Lemma In_insert x y l : In x (insert_str y l) <-> x = y \/ In x l.
Proof.
  induction l as [|z l IH]; simpl; [intuition|].
  destruct (str_ltb z y); simpl; [rewrite IH|]; intuition.
Qed.

Lemma In_sort x l : In x (sort_strs l) <-> In x l.
Proof.
  induction l as [|y l IH]; simpl; [tauto|]. rewrite In_insert, IH. intuition.
Qed.

Lemma insert_sorted x l : StronglySorted slt l -> ~ In x l -> StronglySorted slt (insert_str x l).
Proof.
  induction 1 as [|y l Hs IH Hf]; intros Hn; simpl.
  - constructor; constructor.
  - destruct (str_ltb y x) eqn:E.
    + constructor.
      * apply IH. intros H; apply Hn; right; exact H.
      * apply Forall_forall. intros z Hz. apply In_insert in Hz. destruct Hz as [->|Hz]; [exact E|].
        rewrite Forall_forall in Hf. apply Hf; exact Hz.
    + assert (Hxy : slt x y).
      { destruct (str_ltb x y) eqn:E2; [exact E2|]. exfalso. apply Hn. left. symmetry. apply str_ltb_tricho; assumption. }
      constructor; [constructor; assumption|].
      constructor; [exact Hxy|].
      rewrite Forall_forall in *. intros z Hz. eapply str_ltb_trans; [exact Hxy|apply Hf; exact Hz].
Qed.

Lemma sort_sorted l : NoDup l -> StronglySorted slt (sort_strs l).
Proof.
  induction 1 as [|x l Hn Hd IH]; simpl; [constructor|].
  apply insert_sorted; [exact IH|]. rewrite In_sort. exact Hn.
Qed.

Lemma sorted_same_elems_eq l1 : forall l2, StronglySorted slt l1 -> StronglySorted slt l2 ->
  (forall x, In x l1 <-> In x l2) -> l1 = l2.
Proof.
  induction l1 as [|a l1 IH]; intros [|b l2] S1 S2 H.
  - reflexivity.
  - exfalso. apply (proj2 (H b)). left; reflexivity.
  - exfalso. apply (proj1 (H a)). left; reflexivity.
  - inversion S1 as [|? ? S1' F1]; inversion S2 as [|? ? S2' F2]; subst.
    rewrite Forall_forall in F1, F2.
    assert (a = b).
    { destruct (proj1 (H a) (or_introl eq_refl)) as [E|Ha]; [congruence|].
      destruct (proj2 (H b) (or_introl eq_refl)) as [E|Hb]; [congruence|].
      apply F2 in Ha. apply F1 in Hb. unfold slt in *.
      pose proof (str_ltb_trans _ _ _ Ha Hb) as T. rewrite str_ltb_irrefl in T. discriminate. }
    subst b. f_equal. apply IH; try assumption.
    intros x; split; intros Hx.
    + destruct (proj1 (H x) (or_intror Hx)) as [E|Hx2]; [|exact Hx2].
      subst x. apply F1 in Hx. unfold slt in Hx. rewrite str_ltb_irrefl in Hx. discriminate.
    + destruct (proj2 (H x) (or_intror Hx)) as [E|Hx2]; [|exact Hx2].
      subst x. apply F2 in Hx. unfold slt in Hx. rewrite str_ltb_irrefl in Hx. discriminate.
Qed.

Lemma sort_eq_iff l1 l2 : NoDup l1 -> NoDup l2 ->
  (sort_strs l1 = sort_strs l2 <-> (forall x, In x l1 <-> In x l2)).
Proof.
  intros N1 N2. split.
  - intros E x. rewrite <- (In_sort x l1), <- (In_sort x l2), E. tauto.
  - intros H. apply sorted_same_elems_eq; try (apply sort_sorted; assumption).
    intros x. rewrite !In_sort. apply H.
Qed.

(* ---------- utf8.ValidString excludes the separator byte ---------- *)
Lemma in_rng_le lo hi b : in_rng lo hi b = true -> lo <= b <= hi.
Proof. unfold in_rng. rewrite andb_true_iff, !Z.leb_le. tauto. Qed.

Lemma utf8_valid_bytes_aux n : forall s, (length s <= n)%nat -> utf8_valid s = true -> Forall (fun b => 0 <= b <= 244) s.
Proof.
  induction n as [|n IH]; intros s Hl Hv.
  - destruct s; [constructor|simpl in Hl; lia].
  - destruct s as [|b0 r]; [constructor|]. simpl in Hl. simpl in Hv.
    destruct (in_rng 0 127 b0) eqn:R0.
    { apply in_rng_le in R0. constructor; [lia|]. apply IH; [lia|exact Hv]. }
    destruct (in_rng 194 223 b0) eqn:R1.
    { apply in_rng_le in R1. destruct r as [|b1 r1]; [discriminate|].
      apply andb_true_iff in Hv. destruct Hv as [C1 Hv]. apply in_rng_le in C1. simpl in Hl.
      constructor; [lia|]. constructor; [lia|]. apply IH; [lia|exact Hv]. }
    destruct (in_rng 224 239 b0) eqn:R2.
    { apply in_rng_le in R2. destruct r as [|b1 [|b2 r2]]; try discriminate.
      apply andb_true_iff in Hv. destruct Hv as [Hv V]. apply andb_true_iff in Hv. destruct Hv as [C1 C2].
      apply in_rng_le in C2. simpl in Hl.
      assert (128 <= b1 <= 191).
      { destruct (b0 =? 224); [apply in_rng_le in C1; lia|]. destruct (b0 =? 237); apply in_rng_le in C1; lia. }
      constructor; [lia|]. constructor; [lia|]. constructor; [lia|]. apply IH; [lia|exact V]. }
    destruct (in_rng 240 244 b0) eqn:R3; [|discriminate].
    apply in_rng_le in R3. destruct r as [|b1 [|b2 [|b3 r3]]]; try discriminate.
    apply andb_true_iff in Hv. destruct Hv as [Hv V]. apply andb_true_iff in Hv. destruct Hv as [Hv C3].
    apply andb_true_iff in Hv. destruct Hv as [C1 C2].
    apply in_rng_le in C2. apply in_rng_le in C3. simpl in Hl.
    assert (128 <= b1 <= 191).
    { destruct (b0 =? 240); [apply in_rng_le in C1; lia|]. destruct (b0 =? 244); apply in_rng_le in C1; lia. }
    constructor; [lia|]. constructor; [lia|]. constructor; [lia|]. constructor; [lia|]. apply IH; [lia|exact V].
Qed.

Lemma utf8_valid_no_sep s : utf8_valid s = true -> ~ In sep s.
Proof.
  intros H Hin. pose proof (utf8_valid_bytes_aux (length s) s (le_n _) H) as F.
  rewrite Forall_forall in F. apply F in Hin. unfold sep in Hin. lia.
Qed.

Lemma no_sep_spec s : no_sep s = true <-> ~ In sep s.
Proof.
  unfold no_sep. rewrite negb_true_iff. split.
  - intros H Hin. assert (existsb (Z.eqb sep) s = true); [|congruence].
    apply existsb_exists. exists sep. split; [exact Hin|apply Z.eqb_refl].
  - intros H. destruct (existsb (Z.eqb sep) s) eqn:E; [|reflexivity].
    apply existsb_exists in E. destruct E as (x & Hx & E). apply Z.eqb_eq in E. subst. contradiction.
Qed.

(* ---------- the serialisation is injective on separator-free components ---------- *)
Lemma ser_cons_inj x y r1 r2 : ~ In sep x -> ~ In sep y -> x ++ sep :: r1 = y ++ sep :: r2 -> x = y /\ r1 = r2.
Proof.
  revert y; induction x as [|a x IH]; intros [|b y] Hx Hy E; simpl in *.
  - inversion E; auto.
  - inversion E; subst. exfalso. apply Hy. left; reflexivity.
  - inversion E; subst. exfalso. apply Hx. left; reflexivity.
  - inversion E; subst. destruct (IH y) as [E1 E2]; try assumption.
    + intros H; apply Hx; right; exact H.
    + intros H; apply Hy; right; exact H.
    + subst; auto.
Qed.

Lemma ser_cons v l : ser (v :: l) = v ++ sep :: ser l.
Proof. unfold ser. simpl. rewrite <- app_assoc. reflexivity. Qed.

Lemma ser_inj l1 : forall l2, Forall (fun s => ~ In sep s) l1 -> Forall (fun s => ~ In sep s) l2 ->
  ser l1 = ser l2 -> l1 = l2.
Proof.
  induction l1 as [|x l1 IH]; intros [|y l2] F1 F2 E.
  - reflexivity.
  - rewrite ser_cons in E. simpl in E. destruct y; discriminate.
  - rewrite ser_cons in E. simpl in E. destruct x; discriminate.
  - rewrite !ser_cons in E. inversion F1; inversion F2; subst.
    apply ser_cons_inj in E; try assumption. destruct E as [-> E]. f_equal. apply IH; assumption.
Qed.

(* ---------- well-formed descriptors: what NewDesc / wrapDesc establish ---------- *)
Definition desc_wf (d : desc) : Prop :=
  d_err d = false ->
    utf8_valid (d_fq d) = true /\
    Forall (fun p => utf8_valid (fst p) = true /\ utf8_valid (snd p) = true) (d_consts d) /\
    Forall (fun v => utf8_valid v = true) (d_vars d) /\
    NoDup (map fst (d_consts d) ++ d_vars d) /\
    d_idser d = ser (d_fq d :: map snd (d_consts d)) /\
    d_dimser d = ser (d_help d :: sort_strs (map fst (d_consts d) ++ map dollar (d_vars d))).

Lemma combine_map_r {A B} (f : A -> B) l : combine l (map f l) = map (fun x => (x, f x)) l.
Proof. induction l; simpl; congruence. Qed.

Lemma check_label_name_utf8 l : check_label_name l = true -> utf8_valid l = true.
Proof. unfold check_label_name. rewrite !andb_true_iff. tauto. Qed.

Lemma new_desc_wf fq help vars consts : desc_wf (new_desc fq help vars consts).
Proof.
  unfold new_desc, desc_wf.
  destruct (valid_metric_name fq) eqn:E1; cbn [negb]; [|simpl; discriminate].
  destruct (forallb check_label_name (map fst consts)) eqn:E2; cbn [negb]; [|simpl; discriminate].
  match goal with |- context [forallb utf8_valid ?l] => destruct (forallb utf8_valid l) eqn:E3 end; cbn [negb]; [|simpl; discriminate].
  destruct (forallb check_label_name vars) eqn:E4; cbn [negb]; [|simpl; discriminate].
  match goal with |- context [nodup_strs ?l] => destruct (nodup_strs l) eqn:E5 end; cbn [negb]; [|simpl; discriminate].
  cbn [d_err d_fq d_help d_consts d_vars d_idser d_dimser].
  intros _. rewrite combine_map_r, !map_map. simpl. rewrite map_id.
  simpl in E3. apply andb_true_iff in E3. destruct E3 as [E3a E3b].
  rewrite forallb_forall in E2, E3b, E4.
  repeat split.
  - exact E3a.
  - apply Forall_forall. intros p Hp. apply in_map_iff in Hp. destruct Hp as (n & <- & Hn). simpl. split.
    + apply check_label_name_utf8, E2. exact (proj1 (In_sort _ _) Hn).
    + apply E3b. apply in_map_iff. exists n. split; [reflexivity|exact Hn].
  - apply Forall_forall. intros v Hv. apply check_label_name_utf8, E4, Hv.
  - apply nodup_strs_spec. exact E5.
Qed.

Lemma wrap_desc_wf d p l : desc_wf d -> desc_wf (wrap_desc d p l).
Proof.
  intros H. unfold wrap_desc. destruct (d_err d) eqn:E; [exact H|].
  destruct (add_labels (d_consts d) l); [apply new_desc_wf|].
  unfold desc_wf, err_desc. simpl. discriminate.
Qed.

Lemma invalid_desc_wf : desc_wf invalid_desc.
Proof. unfold desc_wf, invalid_desc. simpl. discriminate. Qed.

Lemma nodup_app_iff {A} (a b : list A) : NoDup (a ++ b) <-> NoDup a /\ NoDup b /\ (forall x, In x a -> ~ In x b).
Proof.
  induction a as [|x a IH]; simpl.
  - split; [intros H; repeat split; [constructor|exact H|tauto]|tauto].
  - split.
    + intros H. inversion H as [|? ? Hn Hd]; subst. apply IH in Hd. destruct Hd as (Ha & Hb & Hab).
      rewrite in_app_iff in Hn. repeat split.
      * constructor; tauto.
      * exact Hb.
      * intros y [->|Hy]; [tauto|apply Hab; exact Hy].
    + intros (Ha & Hb & Hab). inversion Ha; subst. constructor.
      * rewrite in_app_iff. intros [H|H]; [contradiction|]. eapply Hab; [left; reflexivity|exact H].
      * apply IH. repeat split; try assumption. intros y Hy. apply Hab. right; exact Hy.
Qed.

Lemma no_dollar_start_not_dollar x v : no_dollar_start x = true -> x <> dollar v.
Proof. intros H E. subst. unfold dollar, no_dollar_start in H. discriminate. Qed.

(* ---------- hashes decide identity / dimensions on the keys where they are collision-free ---------- *)
Section Bridge.
Variable hash : str -> str.
Variable K : str -> Prop.
Hypothesis Hinj : forall a b, K a -> K b -> hash a = hash b -> a = b.

Definition good (d : desc) : Prop :=
  desc_wf d /\ (d_err d = false -> K (d_idser d) /\ K (d_dimser d) /\ dim_unambiguous d = true).

Lemma hid_eqb d e : good d -> good e -> d_err d = false -> d_err e = false ->
  str_eqb (hid hash d) (hid hash e) = same_ident d e.
Proof.
  intros [Wd Gd] [We Ge] Ed Ee.
  destruct (Wd Ed) as (Ud & Cd & _ & _ & Id & _). destruct (We Ee) as (Ue & Ce & _ & _ & Ie & _).
  destruct (Gd Ed) as (Kd & _ & _). destruct (Ge Ee) as (Ke & _ & _).
  apply eq_iff_eq_true. unfold same_ident, hid.
  rewrite andb_true_iff, !str_eqb_eq, strs_eqb_eq. split.
  - intros H. apply Hinj in H; try assumption. rewrite Id, Ie in H. apply ser_inj in H.
    + inversion H; auto.
    + constructor; [apply utf8_valid_no_sep; exact Ud|]. apply Forall_forall. intros v Hv.
      apply in_map_iff in Hv. destruct Hv as (p & <- & Hp). rewrite Forall_forall in Cd. apply utf8_valid_no_sep, Cd, Hp.
    + constructor; [apply utf8_valid_no_sep; exact Ue|]. apply Forall_forall. intros v Hv.
      apply in_map_iff in Hv. destruct Hv as (p & <- & Hp). rewrite Forall_forall in Ce. apply utf8_valid_no_sep, Ce, Hp.
  - intros [E1 E2]. rewrite Id, Ie, E1, E2. reflexivity.
Qed.

Definition dim_list (d : desc) : list str := map fst (d_consts d) ++ map dollar (d_vars d).

Lemma dim_list_facts d : good d -> d_err d = false ->
  NoDup (dim_list d) /\ Forall (fun s => ~ In sep s) (dim_list d) /\
  (forall x, In x (map fst (d_consts d)) -> no_dollar_start x = true).
Proof.
  intros [Wd Gd] Ed. destruct (Wd Ed) as (_ & Cd & Vd & Nd & _ & _). destruct (Gd Ed) as (_ & _ & Ud).
  unfold dim_unambiguous in Ud. apply andb_true_iff in Ud. destruct Ud as [_ Ud]. rewrite forallb_forall in Ud.
  apply nodup_app_iff in Nd. destruct Nd as (N1 & N2 & N3).
  rewrite Forall_forall in Cd, Vd.
  repeat split.
  - apply nodup_app_iff. repeat split.
    + exact N1.
    + clear -N2. induction N2; simpl; constructor; auto.
      intros H'. apply in_map_iff in H'. destruct H' as (y & E & Hy). unfold dollar in E. inversion E; subst. contradiction.
    + intros x Hx Hx'. apply in_map_iff in Hx'. destruct Hx' as (v & <- & _).
      apply Ud in Hx. unfold dollar, no_dollar_start in Hx. discriminate.
  - apply Forall_forall. intros x Hx. unfold dim_list in Hx. apply in_app_iff in Hx. destruct Hx as [Hx|Hx].
    + apply in_map_iff in Hx. destruct Hx as (p & <- & Hp). apply utf8_valid_no_sep, Cd, Hp.
    + apply in_map_iff in Hx. destruct Hx as (v & <- & Hv). unfold dollar. intros [H|H].
      * unfold sep in H. discriminate.
      * revert H. apply utf8_valid_no_sep, Vd, Hv.
  - exact Ud.
Qed.

Lemma dim_list_same d e : good d -> good e -> d_err d = false -> d_err e = false ->
  ((forall x, In x (dim_list d) <-> In x (dim_list e)) <->
   (forall x, In x (map fst (d_consts d)) <-> In x (map fst (d_consts e))) /\ (forall x, In x (d_vars d) <-> In x (d_vars e))).
Proof.
  intros Gd Ge Ed Ee.
  destruct (dim_list_facts d Gd Ed) as (_ & _ & Dd). destruct (dim_list_facts e Ge Ee) as (_ & _ & De).
  assert (Hd : forall v l, In (dollar v) (map dollar l) <-> In v l).
  { intros v l. rewrite in_map_iff. split; [intros (y & E & Hy); unfold dollar in E; inversion E; subst; exact Hy|].
    intros H. exists v. auto. }
  unfold dim_list. split.
  - intros H. split; intros x.
    + split; intros Hx.
      * destruct (proj1 (in_app_iff _ _ _) (proj1 (H x) (proj2 (in_app_iff _ _ _) (or_introl Hx)))) as [G|G]; [exact G|].
        apply in_map_iff in G. destruct G as (v & <- & _). apply Dd in Hx. unfold dollar, no_dollar_start in Hx. discriminate.
      * destruct (proj1 (in_app_iff _ _ _) (proj2 (H x) (proj2 (in_app_iff _ _ _) (or_introl Hx)))) as [G|G]; [exact G|].
        apply in_map_iff in G. destruct G as (v & <- & _). apply De in Hx. unfold dollar, no_dollar_start in Hx. discriminate.
    + rewrite <- (Hd x (d_vars d)), <- (Hd x (d_vars e)). split; intros Hx.
      * destruct (proj1 (in_app_iff _ _ _) (proj1 (H (dollar x)) (proj2 (in_app_iff _ _ _) (or_intror Hx)))) as [G|G]; [|exact G].
        apply De in G. unfold dollar, no_dollar_start in G. discriminate.
      * destruct (proj1 (in_app_iff _ _ _) (proj2 (H (dollar x)) (proj2 (in_app_iff _ _ _) (or_intror Hx)))) as [G|G]; [|exact G].
        apply Dd in G. unfold dollar, no_dollar_start in G. discriminate.
  - intros [H1 H2] x. rewrite !in_app_iff, H1. split; (intros [G|G]; [left; exact G|right]).
    + apply in_map_iff in G. destruct G as (v & <- & Hv). apply Hd, H2, Hv.
    + apply in_map_iff in G. destruct G as (v & <- & Hv). apply Hd, H2, Hv.
Qed.

Lemma hdim_eqb d e : good d -> good e -> d_err d = false -> d_err e = false ->
  str_eqb (hdim hash d) (hdim hash e) = agree d e.
Proof.
  intros Gd Ge Ed Ee.
  destruct (dim_list_facts d Gd Ed) as (Nd & Sd & _). destruct (dim_list_facts e Ge Ee) as (Ne & Se & _).
  pose proof (dim_list_same d e Gd Ge Ed Ee) as DS.
  destruct Gd as [Wd Gd]. destruct Ge as [We Ge].
  destruct (Wd Ed) as (_ & _ & _ & _ & _ & Dd). destruct (We Ee) as (_ & _ & _ & _ & _ & De).
  destruct (Gd Ed) as (_ & Kd & Ud). destruct (Ge Ee) as (_ & Ke & Ue).
  unfold dim_unambiguous in Ud, Ue. apply andb_true_iff in Ud, Ue. destruct Ud as [Hd _]. destruct Ue as [He _].
  apply no_sep_spec in Hd, He.
  fold (dim_list d) in Dd. fold (dim_list e) in De.
  apply eq_iff_eq_true. unfold agree, hdim.
  rewrite !andb_true_iff, !str_eqb_eq, !seteq_strs_spec. split.
  - intros H. apply Hinj in H; try assumption. rewrite Dd, De in H. apply ser_inj in H.
    + inversion H as [[E1 E2]]. pose proof (proj1 DS (proj1 (sort_eq_iff _ _ Nd Ne) E2)) as E3. tauto.
    + constructor; [exact Hd|]. apply Forall_forall. intros x Hx. apply (proj1 (In_sort _ _)) in Hx. rewrite Forall_forall in Sd. auto.
    + constructor; [exact He|]. apply Forall_forall. intros x Hx. apply (proj1 (In_sort _ _)) in Hx. rewrite Forall_forall in Se. auto.
  - intros [[E1 E2] E3]. rewrite Dd, De, E1. f_equal. f_equal. f_equal.
    apply (proj2 (sort_eq_iff _ _ Nd Ne)). apply (proj2 DS). split; assumption.
Qed.
End Bridge.

(* ---------- generic list facts ---------- *)
Lemma forallb_false_intro {A} (f : A -> bool) l x : In x l -> f x = false -> forallb f l = false.
Proof.
  intros Hin Hf. destruct (forallb f l) eqn:E; [|reflexivity].
  rewrite forallb_forall in E. rewrite (E x Hin) in Hf. discriminate.
Qed.

Lemma lookup_app {A} k (a b : list (str * A)) :
  lookup k (a ++ b) = match lookup k a with Some v => Some v | None => lookup k b end.
Proof.
  induction a as [|[k' v] a IH]; simpl; [reflexivity|]. destruct (str_eqb k k'); [reflexivity|exact IH].
Qed.

Lemma merge_dims_app m new : merge_dims m new = new ++ m.
Proof. induction new; simpl; congruence. Qed.

Lemma find_map_snd {A B} (f : A * B -> bool) (g : B -> bool) (l : list (A * B)) :
  (forall e, In e l -> f e = g (snd e)) ->
  match find f l with Some e => Some (snd e) | None => None end = find g (map snd l).
Proof.
  induction l as [|e l IH]; intros H; simpl; [reflexivity|].
  rewrite <- (H e (or_introl eq_refl)). destruct (f e); [reflexivity|].
  apply IH. intros e' He'. apply H. right; exact He'.
Qed.

Lemma filter_map_snd {A B} (f : A * B -> bool) (g : B -> bool) (l : list (A * B)) :
  (forall e, In e l -> f e = g (snd e)) -> map snd (filter f l) = filter g (map snd l).
Proof.
  induction l as [|e l IH]; intros H; simpl; [reflexivity|].
  rewrite <- (H e (or_introl eq_refl)). destruct (f e); simpl; rewrite IH; try reflexivity;
    intros e' He'; apply H; right; exact He'.
Qed.

Lemma find_none_existsb {A} (f : A -> bool) l : find f l = None <-> existsb f l = false.
Proof.
  induction l as [|x l IH]; simpl; [tauto|]. destruct (f x); simpl; [split; discriminate|exact IH].
Qed.

(* ---------- the model refines the specification ---------- *)
Section Main.
Variable hash : str -> str.
Variable K : str -> Prop.
Hypothesis Hinj : forall a b, K a -> K b -> hash a = hash b -> a = b.

Definition gv (d : desc) : Prop := good K d /\ d_err d = false.
Definition ids_of (ds : list desc) (x : str) : Prop := exists d, In d ds /\ x = hid hash d.

Inductive disj : list (Z * list desc) -> Prop :=
| disj_nil : disj []
| disj_cons c l : (forall c' x, In c' l -> ids_of (snd c) x -> ids_of (snd c') x -> False) -> disj l -> disj (c :: l).

Record Inv (r : registry) (s : sstate) : Prop := {
  inv_colls : map snd (r_colls r) = s_regd s;
  inv_keys : forall e, In e (r_colls r) -> forall x, In x (fst e) <-> ids_of (snd (snd e)) x;
  inv_descids : forall x, In x (r_descids r) <-> exists c, In c (s_regd s) /\ ids_of (snd c) x;
  inv_dims1 : forall n h, lookup n (r_dims r) = Some h -> exists e, In e (s_ever s) /\ d_fq e = n;
  inv_dims2 : forall e, In e (s_ever s) -> lookup (d_fq e) (r_dims r) = Some (hdim hash e);
  inv_unch : r_unchecked r = s_unch s;
  inv_gv_regd : forall c d, In c (s_regd s) -> In d (snd c) -> gv d;
  inv_gv_ever : forall e, In e (s_ever s) -> gv e;
  inv_disj : disj (s_regd s)
}.

Lemma Inv_empty : Inv empty_registry empty_sstate.
Proof.
  constructor; simpl; try tauto; try reflexivity; try discriminate; try constructor.
  - tauto.
  - intros (c & [] & _).
Qed.

Lemma hid_same d e : gv d -> gv e -> (hid hash d = hid hash e <-> same_ident d e = true).
Proof.
  intros [Gd Ed] [Ge Ee]. rewrite <- (hid_eqb hash K Hinj d e Gd Ge Ed Ee). symmetry. apply str_eqb_eq.
Qed.

Lemma hdim_agree d e : gv d -> gv e -> (hdim hash d = hdim hash e <-> agree d e = true).
Proof.
  intros [Gd Ed] [Ge Ee]. rewrite <- (hdim_eqb hash K Hinj d e Gd Ge Ed Ee). symmetry. apply str_eqb_eq.
Qed.

Lemma in_descs_ids d ds : gv d -> (forall e, In e ds -> gv e) -> (in_descs d ds = true <-> ids_of ds (hid hash d)).
Proof.
  intros Gd Gs. unfold in_descs, ids_of. rewrite existsb_exists. split.
  - intros (e & He & S). exists e. split; [exact He|]. apply hid_same; auto.
  - intros (e & He & S). exists e. split; [exact He|]. apply hid_same; auto.
Qed.

Lemma desc_set_eq_ids ds ds' : (forall d, In d ds -> gv d) -> (forall d, In d ds' -> gv d) ->
  (desc_set_eq ds ds' = true <-> (forall x, ids_of ds x <-> ids_of ds' x)).
Proof.
  intros G G'. unfold desc_set_eq. rewrite andb_true_iff, !forallb_forall. split.
  - intros [H1 H2] x. split; intros (d & Hd & ->).
    + apply in_descs_ids; auto.
    + apply in_descs_ids; auto.
  - intros H. split; intros d Hd.
    + apply in_descs_ids; auto. apply H. exists d; auto.
    + apply in_descs_ids; auto. apply H. exists d; auto.
Qed.

Lemma seteq_key ids k ds ds' : (forall d, In d ds -> gv d) -> (forall d, In d ds' -> gv d) ->
  (forall x, In x ids <-> ids_of ds x) -> (forall x, In x k <-> ids_of ds' x) ->
  seteq_strs ids k = desc_set_eq ds ds'.
Proof.
  intros G G' H1 H2. apply eq_iff_eq_true. rewrite seteq_strs_spec, (desc_set_eq_ids ds ds' G G'). split.
  - intros H x. rewrite <- H1, <- H2. apply H.
  - intros H x. rewrite H1, H2. apply H.
Qed.

(* the descriptor loop of Register *)
Lemma reg_loop_done r : forall ds ni nd dup ni' nd' dup',
  reg_loop hash r ds ni nd dup = LDone ni' nd' dup' ->
  all_valid ds = true /\
  (forall x, In x ni' <-> In x ni \/ ids_of ds x) /\
  dup' = dup || existsb (fun d => str_in (hid hash d) (r_descids r)) ds /\
  (forall n h, lookup n nd = Some h -> lookup n nd' = Some h) /\
  (forall n h, lookup n nd' = Some h -> lookup n nd = Some h \/
      (lookup n (r_dims r) = None /\ exists d, In d ds /\ d_fq d = n /\ h = hdim hash d)) /\
  (forall d, In d ds -> match lookup (d_fq d) (r_dims r) with
                        | Some h => h = hdim hash d
                        | None => lookup (d_fq d) nd' = Some (hdim hash d) end).
Proof.
  induction ds as [|d ds IH]; intros ni nd dup ni' nd' dup' H; simpl in H.
  - inversion H; subst. repeat split; try tauto.
    + intros [H'|(d & [] & _)]; exact H'.
    + simpl. rewrite orb_false_r. reflexivity.
    + intros d [].
  - destruct (d_err d) eqn:Ed; [discriminate|].
    set (ni2 := if str_in (hid hash d) ni then ni else hid hash d :: ni) in *.
    assert (Hni2 : forall x, In x ni2 <-> In x ni \/ x = hid hash d).
    { intros x. unfold ni2. destruct (str_in (hid hash d) ni) eqn:E.
      - apply str_in_In in E. split; [tauto|]. intros [H'| ->]; assumption.
      - simpl. split; [intros [<-|H']; tauto|intros [H'| ->]; tauto]. }
    assert (Hids : forall x, (In x ni2 \/ ids_of ds x) <-> (In x ni \/ ids_of (d :: ds) x)).
    { intros x. rewrite Hni2. unfold ids_of. simpl. split.
      - intros [[H'| ->]|(e & He & ->)]; [tauto|right; exists d; tauto|right; exists e; tauto].
      - intros [H'|(e & [<-|He] & ->)]; [tauto|tauto|right; exists e; tauto]. }
    assert (Hval : all_valid ds = true -> all_valid (d :: ds) = true).
    { intros V. unfold all_valid in *. simpl. unfold valid at 1. rewrite Ed, V. reflexivity. }
    assert (Hdup : forall b, b = (dup || str_in (hid hash d) (r_descids r)) || existsb (fun d => str_in (hid hash d) (r_descids r)) ds ->
                    b = dup || existsb (fun d => str_in (hid hash d) (r_descids r)) (d :: ds)).
    { intros b ->. simpl. rewrite orb_assoc. reflexivity. }
    destruct (lookup (d_fq d) (r_dims r)) as [h|] eqn:L1.
    + destruct (str_eqb h (hdim hash d)) eqn:E1; [|discriminate]. apply str_eqb_eq in E1.
      apply IH in H. destruct H as (V & I & D & X1 & X2 & X3).
      split; [auto|]. split; [intros x; rewrite I; apply Hids|]. split; [auto|]. split; [exact X1|]. split.
      * intros n h' Hn. destruct (X2 n h' Hn) as [G|(G1 & e & He & G2)]; [left; exact G|].
        right. split; [exact G1|]. exists e. simpl. tauto.
      * intros e [<-|He]; [rewrite L1; exact E1|apply X3; exact He].
    + destruct (lookup (d_fq d) nd) as [h|] eqn:L2.
      * destruct (str_eqb h (hdim hash d)) eqn:E1; [|discriminate]. apply str_eqb_eq in E1.
        apply IH in H. destruct H as (V & I & D & X1 & X2 & X3).
        split; [auto|]. split; [intros x; rewrite I; apply Hids|]. split; [auto|]. split; [exact X1|]. split.
        -- intros n h' Hn. destruct (X2 n h' Hn) as [G|(G1 & e & He & G2)]; [left; exact G|].
           right. split; [exact G1|]. exists e. simpl. tauto.
        -- intros e [<-|He]; [rewrite L1; apply X1; rewrite L2, E1; reflexivity|apply X3; exact He].
      * apply IH in H. destruct H as (V & I & D & X1 & X2 & X3).
        split; [auto|]. split; [intros x; rewrite I; apply Hids|]. split; [auto|]. split; [|split].
        -- intros n h' Hn. apply X1. simpl. destruct (str_eqb n (d_fq d)) eqn:E; [|exact Hn].
           apply str_eqb_eq in E. subst n. rewrite L2 in Hn. discriminate.
        -- intros n h' Hn. destruct (X2 n h' Hn) as [G|(G1 & e & He & G2)].
           ++ simpl in G. destruct (str_eqb n (d_fq d)) eqn:E; [|left; exact G].
              apply str_eqb_eq in E. subst n. inversion G; subst. right. split; [exact L1|]. exists d. simpl. tauto.
           ++ right. split; [exact G1|]. exists e. simpl. tauto.
        -- intros e [<-|He]; [|apply X3; exact He]. rewrite L1. apply X1. simpl. rewrite str_eqb_refl. reflexivity.
Qed.

Lemma reg_loop_err r : forall ds ni nd dup e,
  reg_loop hash r ds ni nd dup = LErr e ->
  (e = RInvalid /\ all_valid ds = false) \/
  (e = RInconsistent /\ exists d h, In d ds /\ d_err d = false /\ h <> hdim hash d /\
     (lookup (d_fq d) (r_dims r) = Some h \/ lookup (d_fq d) nd = Some h \/
      exists d0, In d0 ds /\ d_err d0 = false /\ d_fq d0 = d_fq d /\ h = hdim hash d0)).
Proof.
  induction ds as [|d ds IH]; intros ni nd dup e H; simpl in H; [discriminate|].
  destruct (d_err d) eqn:Ed.
  { inversion H; subst. left. split; [reflexivity|]. unfold all_valid. simpl. unfold valid at 1. rewrite Ed. reflexivity. }
  assert (Hinv : all_valid ds = false -> all_valid (d :: ds) = false).
  { intros V. unfold all_valid in *. simpl. rewrite V. apply andb_false_r. }
  assert (Hlift : forall nd2,
    (forall n h, lookup n nd2 = Some h -> lookup n nd = Some h \/ (n = d_fq d /\ h = hdim hash d)) ->
    ((e = RInvalid /\ all_valid ds = false) \/
     (e = RInconsistent /\ exists d1 h, In d1 ds /\ d_err d1 = false /\ h <> hdim hash d1 /\
        (lookup (d_fq d1) (r_dims r) = Some h \/ lookup (d_fq d1) nd2 = Some h \/
         exists d0, In d0 ds /\ d_err d0 = false /\ d_fq d0 = d_fq d1 /\ h = hdim hash d0))) ->
    ((e = RInvalid /\ all_valid (d :: ds) = false) \/
     (e = RInconsistent /\ exists d1 h, In d1 (d :: ds) /\ d_err d1 = false /\ h <> hdim hash d1 /\
        (lookup (d_fq d1) (r_dims r) = Some h \/ lookup (d_fq d1) nd = Some h \/
         exists d0, In d0 (d :: ds) /\ d_err d0 = false /\ d_fq d0 = d_fq d1 /\ h = hdim hash d0)))).
  { intros nd2 Hnd [[E V]|(E & d1 & h & H1 & H2 & H3 & H4)]; [left; auto|].
    right. split; [exact E|]. exists d1, h. split; [right; exact H1|]. split; [exact H2|]. split; [exact H3|].
    destruct H4 as [G|[G|(d0 & G1 & G2 & G3 & G4)]].
    - left; exact G.
    - destruct (Hnd _ _ G) as [G'|[G1 G2]]; [right; left; exact G'|].
      right; right. exists d. simpl. subst h. auto.
    - right; right. exists d0. simpl. auto. }
  destruct (lookup (d_fq d) (r_dims r)) as [h|] eqn:L1.
  - destruct (str_eqb h (hdim hash d)) eqn:E1.
    + apply IH in H. apply (Hlift nd); [intros; left; assumption|exact H].
    + inversion H; subst. right. split; [reflexivity|]. exists d, h. apply str_eqb_neq in E1. simpl. auto 7.
  - destruct (lookup (d_fq d) nd) as [h|] eqn:L2.
    + destruct (str_eqb h (hdim hash d)) eqn:E1.
      * apply IH in H. apply (Hlift nd); [intros; left; assumption|exact H].
      * inversion H; subst. right. split; [reflexivity|]. exists d, h. apply str_eqb_neq in E1. simpl. auto 7.
    + apply IH in H. apply (Hlift ((d_fq d, hdim hash d) :: nd)); [|exact H].
      intros n h Hn. simpl in Hn. destruct (str_eqb n (d_fq d)) eqn:E; [|left; exact Hn].
      apply str_eqb_eq in E. inversion Hn; subst. right; auto.
Qed.

Lemma spec_register_ne s cid ds : ds <> [] ->
  spec_register s cid ds =
    if negb (all_valid ds) then (SRejected, s) else
    if negb (all_consistent s ds) then (SRejected, s) else
    match find (fun c => desc_set_eq ds (snd c)) (s_regd s) with
    | Some c => (SAlready (fst c), s)
    | None => if clashes s ds then (SRejected, s)
              else (SOk, mkS ((cid, ds) :: s_regd s) (ds ++ s_ever s) (s_unch s))
    end.
Proof. destruct ds; [contradiction|reflexivity]. Qed.

Lemma filter_all {A} (f : A -> bool) l : forallb f l = true -> filter f l = l.
Proof.
  induction l as [|x l IH]; simpl; [reflexivity|]. rewrite andb_true_iff. intros [H1 H2].
  rewrite H1, IH; auto.
Qed.

Lemma gv_of_valid ds : (forall d, In d ds -> good K d) -> forall d, In d (filter valid ds) -> gv d.
Proof.
  intros G d Hd. apply filter_In in Hd. destruct Hd as [Hd V]. split; [auto|].
  unfold valid in V. apply negb_true_iff in V. exact V.
Qed.

Lemma register_step r s cid ds : Inv r s -> (forall d, In d ds -> good K d) ->
  classify (fst (register hash r cid ds)) = fst (spec_register s cid ds) /\
  kind_ok s ds (fst (register hash r cid ds)) = true /\
  Inv (snd (register hash r cid ds)) (snd (spec_register s cid ds)).
Proof.
  intros I G. unfold register.
  destruct (reg_loop hash r ds [] [] false) as [e|ni nd dup] eqn:L.
  - apply reg_loop_err in L. destruct L as [[-> V]|(-> & d & h & Hd & Ed & Hne & Hsrc)].
    + assert (Hn : ds <> []) by (intros ->; discriminate V).
      rewrite (spec_register_ne s cid ds Hn), V. simpl. rewrite V. auto.
    + assert (Hn : ds <> []) by (intros ->; destruct Hd).
      assert (Gd : gv d) by (split; auto).
      assert (Hdv : In d (filter valid ds)).
      { apply filter_In. split; [exact Hd|]. unfold valid. rewrite Ed. reflexivity. }
      assert (A : all_consistent s (filter valid ds) = false).
      { unfold all_consistent. apply (forallb_false_intro _ _ d Hdv).
        destruct Hsrc as [L1|[L2|(d0 & Hd0 & Ed0 & Fq & ->)]].
        - destruct (inv_dims1 _ _ I _ _ L1) as (e0 & He0 & Fq).
          pose proof (inv_dims2 _ _ I e0 He0) as L3. rewrite Fq, L1 in L3. inversion L3; subst h.
          apply andb_false_intro1. unfold consistent_with. apply (forallb_false_intro _ _ e0 He0).
          rewrite Fq, str_eqb_refl. simpl.
          destruct (agree d e0) eqn:Ag; [|reflexivity]. exfalso. apply Hne. symmetry.
          apply hdim_agree; [exact Gd|apply (inv_gv_ever _ _ I); exact He0|exact Ag].
        - simpl in L2. discriminate.
        - assert (Hd0v : In d0 (filter valid ds)).
          { apply filter_In. split; [exact Hd0|]. unfold valid. rewrite Ed0. reflexivity. }
          apply andb_false_intro2. unfold consistent_with. apply (forallb_false_intro _ _ d0 Hd0v).
          rewrite Fq, str_eqb_refl. simpl.
          destruct (agree d d0) eqn:Ag; [|reflexivity]. exfalso. apply Hne. symmetry.
          apply hdim_agree; [exact Gd|split; auto|exact Ag]. }
      rewrite (spec_register_ne s cid ds Hn). simpl. rewrite A. simpl.
      destruct (all_valid ds) eqn:V; simpl; [|auto].
      unfold all_valid in V. rewrite (filter_all _ _ V) in A. rewrite A. simpl. auto.
  - destruct (reg_loop_done r ds [] [] false ni nd dup L) as (V & Iids0 & Dup & _ & X2 & X3).
    assert (Iids : forall x, In x ni <-> ids_of ds x).
    { intros x. rewrite Iids0. simpl. tauto. }
    clear Iids0. simpl in Dup.
    assert (GV : forall d, In d ds -> gv d).
    { intros d Hd. apply (gv_of_valid ds G). unfold all_valid in V. rewrite (filter_all _ _ V). exact Hd. }
    destruct ni as [|i0 ni0].
    + assert (ds = []).
      { destruct ds as [|d ds']; [reflexivity|]. exfalso. apply (proj2 (Iids (hid hash d))). exists d. simpl. auto. }
      subst ds. simpl. split; [reflexivity|]. split; [reflexivity|].
      destruct I. constructor; simpl; try assumption. rewrite inv_unch0. reflexivity.
    + assert (Hn : ds <> []).
      { intros ->. destruct (proj1 (Iids i0)) as (d & [] & _). left; reflexivity. }
      cbv beta iota. remember (i0 :: ni0) as ni eqn:Eni. clear Eni i0 ni0.
      rewrite (spec_register_ne s cid ds Hn), V.
      assert (C : all_consistent s ds = true).
      { unfold all_consistent. apply forallb_forall. intros d Hd. pose proof (X3 d Hd) as X.
        apply andb_true_iff. split; unfold consistent_with; apply forallb_forall; intros e He.
        - destruct (str_eqb (d_fq d) (d_fq e)) eqn:Fq; [|reflexivity]. simpl. apply str_eqb_eq in Fq.
          pose proof (inv_dims2 _ _ I e He) as L3. rewrite <- Fq in L3. rewrite L3 in X.
          apply hdim_agree; [apply GV; exact Hd|apply (inv_gv_ever _ _ I); exact He|]. symmetry; exact X.
        - destruct (str_eqb (d_fq d) (d_fq e)) eqn:Fq; [|reflexivity]. simpl. apply str_eqb_eq in Fq.
          pose proof (X3 e He) as X'. rewrite <- Fq in X'.
          apply hdim_agree; [apply GV; exact Hd|apply GV; exact He|].
          destruct (lookup (d_fq d) (r_dims r)); [congruence|]. rewrite X in X'. inversion X'; reflexivity. }
      rewrite C. cbn [negb].
      assert (F : match find (fun e => seteq_strs ni (fst e)) (r_colls r) with Some e => Some (snd e) | None => None end
                  = find (fun c => desc_set_eq ds (snd c)) (s_regd s)).
      { rewrite <- (inv_colls _ _ I). apply find_map_snd. intros e He.
        apply seteq_key; [exact GV| |exact Iids|apply (inv_keys _ _ I); exact He].
        intros d Hd. apply (inv_gv_regd _ _ I (snd e)); [|exact Hd]. rewrite <- (inv_colls _ _ I). apply in_map. exact He. }
      unfold find_coll.
      destruct (find (fun e => seteq_strs ni (fst e)) (r_colls r)) as [[k [c ds']]|]; rewrite <- F.
      { simpl. auto. }
      assert (D : dup = clashes s ds).
      { rewrite Dup. unfold clashes. apply eq_iff_eq_true. rewrite !existsb_exists. split.
        - intros (d & Hd & Hx). exists d. split; [exact Hd|]. apply str_in_In in Hx.
          apply (inv_descids _ _ I) in Hx. destruct Hx as (c & Hc & Hx). apply existsb_exists. exists c. split; [exact Hc|].
          apply in_descs_ids; [apply GV; exact Hd|intros e He; apply (inv_gv_regd _ _ I c); assumption|exact Hx].
        - intros (d & Hd & Hx). exists d. split; [exact Hd|]. apply existsb_exists in Hx. destruct Hx as (c & Hc & Hx).
          apply str_in_In. apply (inv_descids _ _ I). exists c. split; [exact Hc|].
          apply in_descs_ids; [apply GV; exact Hd|intros e He; apply (inv_gv_regd _ _ I c); assumption|exact Hx]. }
      rewrite <- D. destruct dup.
      { simpl. rewrite V, C, <- D. auto. }
      simpl. split; [reflexivity|]. split; [reflexivity|].
      constructor; simpl.
      * f_equal. apply (inv_colls _ _ I).
      * intros e [<-|He] x; [simpl; apply Iids|apply (inv_keys _ _ I); exact He].
      * intros x. rewrite in_app_iff, Iids, (inv_descids _ _ I). split.
        -- intros [H|(c & Hc & Hx)]; [exists (cid, ds); auto|exists c; auto].
        -- intros (c & [<-|Hc] & Hx); [left; exact Hx|right; exists c; auto].
      * intros n h. rewrite merge_dims_app, lookup_app. destruct (lookup n nd) as [h'|] eqn:Ln.
        -- intros _. destruct (X2 n h' Ln) as [Y|(_ & d & Hd & Fq & _)]; [simpl in Y; discriminate|].
           exists d. split; [apply in_or_app; left; exact Hd|exact Fq].
        -- intros Hl. destruct (inv_dims1 _ _ I _ _ Hl) as (e & He & Fq). exists e. split; [apply in_or_app; right; exact He|exact Fq].
      * intros e He. rewrite merge_dims_app, lookup_app. apply in_app_or in He. destruct He as [He|He].
        -- pose proof (X3 e He) as X. destruct (lookup (d_fq e) nd) as [h'|] eqn:Ln.
           ++ destruct (X2 _ _ Ln) as [Y|(Y & _)]; [simpl in Y; discriminate|]. rewrite Y in X. exact X.
           ++ destruct (lookup (d_fq e) (r_dims r)); [subst; reflexivity|discriminate].
        -- pose proof (inv_dims2 _ _ I e He) as L3. destruct (lookup (d_fq e) nd) as [h'|] eqn:Ln; [|exact L3].
           destruct (X2 _ _ Ln) as [Y|(Y & _)]; [simpl in Y; discriminate|]. rewrite Y in L3. discriminate.
      * apply (inv_unch _ _ I).
      * intros c d [<-|Hc] Hd; [apply GV; exact Hd|apply (inv_gv_regd _ _ I c); assumption].
      * intros e He. apply in_app_or in He. destruct He as [He|He]; [apply GV; exact He|apply (inv_gv_ever _ _ I); exact He].
      * constructor; [|apply (inv_disj _ _ I)]. simpl. intros c' x Hc' (d & Hd & ->) Hx.
        assert (T : existsb (fun d => str_in (hid hash d) (r_descids r)) ds = true).
        { apply existsb_exists. exists d. split; [exact Hd|]. apply str_in_In. apply (inv_descids _ _ I). exists c'. auto. }
        rewrite T in Dup. discriminate.
Qed.

Lemma disj_shared l : disj l -> forall c c0 x, In c l -> In c0 l -> ids_of (snd c) x -> ids_of (snd c0) x -> c = c0.
Proof.
  induction 1 as [|c1 l Hd Hl IH]; intros c c0 x Hc Hc0 Hx Hx0; [destruct Hc|].
  destruct Hc as [<-|Hc], Hc0 as [<-|Hc0].
  - reflexivity.
  - exfalso. eapply Hd; eauto.
  - exfalso. eapply Hd; eauto.
  - eapply IH; eauto.
Qed.

Lemma disj_filter p l : disj l -> disj (filter p l).
Proof.
  induction 1 as [|c l Hd Hl IH]; simpl; [constructor|].
  destruct (p c); [|exact IH]. constructor; [|exact IH].
  intros c' x Hc'. apply filter_In in Hc'. apply Hd. tauto.
Qed.

Lemma existsb_find {A} (f : A -> bool) l : existsb f l = match find f l with Some _ => true | None => false end.
Proof. induction l as [|x l IH]; simpl; [reflexivity|]. destruct (f x); [reflexivity|exact IH]. Qed.

Lemma existsb_map_snd {A B} (f : A * B -> bool) (g : B -> bool) (l : list (A * B)) :
  (forall e, In e l -> f e = g (snd e)) -> existsb f l = existsb g (map snd l).
Proof.
  induction l as [|e l IH]; intros H; simpl; [reflexivity|].
  rewrite <- (H e (or_introl eq_refl)), IH; [reflexivity|]. intros e' He'. apply H. right; exact He'.
Qed.

Lemma unregister_step r s ds : Inv r s -> (forall d, In d ds -> good K d) ->
  fst (unregister hash r ds) = fst (spec_unregister s ds) /\
  Inv (snd (unregister hash r ds)) (snd (spec_unregister s ds)).
Proof.
  intros I G. pose proof (gv_of_valid ds G) as GV.
  set (vs := filter valid ds) in *. set (ids := unreg_ids hash ds).
  assert (Hids : forall x, In x ids <-> ids_of vs x).
  { intros x. unfold ids, unreg_ids. rewrite dedup_strs_In, in_map_iff. unfold ids_of. fold vs.
    split; intros (d & H1 & H2); exists d; auto. }
  assert (Hkey : forall e, In e (r_colls r) -> seteq_strs ids (fst e) = desc_set_eq vs (snd (snd e))).
  { intros e He. apply seteq_key; [exact GV| |exact Hids|apply (inv_keys _ _ I); exact He].
    intros d Hd. apply (inv_gv_regd _ _ I (snd e)); [|exact Hd]. rewrite <- (inv_colls _ _ I). apply in_map. exact He. }
  assert (Hex : existsb (fun c => desc_set_eq vs (snd c)) (s_regd s) =
                match find (fun e => seteq_strs ids (fst e)) (r_colls r) with Some _ => true | None => false end).
  { rewrite <- existsb_find, <- (inv_colls _ _ I). symmetry. apply existsb_map_snd. exact Hkey. }
  unfold unregister, spec_unregister, find_coll. fold vs. fold ids. rewrite Hex.
  destruct (find (fun e => seteq_strs ids (fst e)) (r_colls r)) as [e0|] eqn:Fe; [|simpl; auto].
  simpl. split; [reflexivity|].
  assert (Hf : forall e, In e (r_colls r) -> negb (seteq_strs ids (fst e)) = negb (desc_set_eq vs (snd (snd e)))).
  { intros e He. rewrite Hkey; auto. }
  constructor; simpl.
  - rewrite <- (inv_colls _ _ I). apply (filter_map_snd _ (fun c => negb (desc_set_eq vs (snd c)))). exact Hf.
  - intros e He. apply filter_In in He. apply (inv_keys _ _ I). tauto.
  - intros x. rewrite filter_In, (inv_descids _ _ I), negb_true_iff, str_in_false. split.
    + intros [(c & Hc & Hx) Hn]. exists c. split; [|exact Hx]. apply filter_In. split; [exact Hc|].
      apply negb_true_iff. destruct (desc_set_eq vs (snd c)) eqn:E; [|reflexivity]. exfalso. apply Hn. apply Hids.
      apply (proj1 (desc_set_eq_ids vs (snd c) GV (fun d Hd => inv_gv_regd _ _ I c d Hc Hd)) E). exact Hx.
    + intros (c & Hc & Hx). apply filter_In in Hc. destruct Hc as [Hc Hn]. apply negb_true_iff in Hn.
      split; [exists c; auto|]. intros Hin. apply Hids in Hin.
      (* the collector that is being removed *)
      apply find_some in Fe. destruct Fe as [He0 Fe]. rewrite (Hkey _ He0) in Fe.
      assert (Hc0 : In (snd e0) (s_regd s)). { rewrite <- (inv_colls _ _ I). apply in_map. exact He0. }
      assert (Hx0 : ids_of (snd (snd e0)) x).
      { apply (proj1 (desc_set_eq_ids vs (snd (snd e0)) GV (fun d Hd => inv_gv_regd _ _ I (snd e0) d Hc0 Hd)) Fe). exact Hin. }
      pose proof (disj_shared _ (inv_disj _ _ I) c (snd e0) x Hc Hc0 Hx Hx0) as E. subst c. congruence.
  - apply (inv_dims1 _ _ I).
  - apply (inv_dims2 _ _ I).
  - apply (inv_unch _ _ I).
  - intros c d Hc. apply filter_In in Hc. apply (inv_gv_regd _ _ I). tauto.
  - apply (inv_gv_ever _ _ I).
  - apply disj_filter. apply (inv_disj _ _ I).
Qed.

Lemma gather_names_spec r s : Inv r s -> forall x, In x (gather_names r) <-> In x (spec_names s).
Proof.
  intros I x. unfold gather_names, spec_names. rewrite In_sort, dedup_strs_In, <- (inv_colls _ _ I).
  rewrite !in_flat_map. split.
  - intros (e & He & Hx). exists (snd e). split; [apply in_map; exact He|exact Hx].
  - intros (c & Hc & Hx). apply in_map_iff in Hc. destruct Hc as (e & <- & He). exists e. auto.
Qed.

Definition op_good (o : op) : Prop :=
  match o with
  | ORegister _ ds => forall d, In d ds -> good K d
  | OUnregister ds => forall d, In d ds -> good K d
  | OGather => True
  | OMust cs => forall c, In c cs -> forall d, In d (snd c) -> good K d
  end.

Definition obs_matches (o : obs) (t : sobs) : Prop :=
  match o, t with
  | BReg e, TReg se => classify e = se
  | BUnreg b, TUnreg b' => b = b'
  | BGather n, TGather n' => forall x, In x n <-> In x n'
  | _, _ => False
  end.

Lemma sres_eqb_refl a : sres_eqb a a = true.
Proof. destruct a; simpl; try reflexivity. apply Z.eqb_refl. Qed.

Lemma must_step : forall cs r s, Inv r s -> (forall c, In c cs -> forall d, In d (snd c) -> good K d) ->
  classify (fst (must_register hash r cs)) = fst (spec_must s cs) /\
  must_kind_ok s cs (fst (must_register hash r cs)) = true /\
  Inv (snd (must_register hash r cs)) (snd (spec_must s cs)).
Proof.
  induction cs as [|c cs IH]; intros r s I G; simpl; [auto|].
  destruct (register_step r s (fst c) (snd c) I (G c (or_introl eq_refl))) as (H1 & H2 & H3).
  destruct (register hash r (fst c) (snd c)) as [e r'], (spec_register s (fst c) (snd c)) as [se s'] eqn:Es.
  simpl in H1, H2, H3.
  destruct e; simpl in H1; subst se; simpl; auto.
  apply IH; [exact H3|]. intros c0 Hc0. apply G. right; exact Hc0.
Qed.

Lemma step_ok r s o : Inv r s -> op_good o ->
  obs_ok s o (fst (step hash r o)) = true /\
  obs_matches (fst (step hash r o)) (fst (spec_step s o)) /\
  Inv (snd (step hash r o)) (snd (spec_step s o)).
Proof.
  intros I G. destruct o as [cid ds|ds| |cs]; simpl in *.
  - destruct (register_step r s cid ds I G) as (H1 & H2 & H3).
    destruct (register hash r cid ds) as [e r'], (spec_register s cid ds) as [se s'] eqn:Es. simpl in *.
    rewrite H1, H2, sres_eqb_refl. auto.
  - destruct (unregister_step r s ds I G) as (H1 & H2).
    destruct (unregister hash r ds) as [b r'], (spec_unregister s ds) as [b' s'] eqn:Es. simpl in *.
    subst b'. rewrite eqb_reflx. auto.
  - split; [|split; [|exact I]].
    + apply seteq_strs_spec. apply gather_names_spec. exact I.
    + apply gather_names_spec. exact I.
  - destruct (must_step cs r s I G) as (H1 & H2 & H3).
    destruct (must_register hash r cs) as [e r'], (spec_must s cs) as [se s'] eqn:Es. simpl in *.
    rewrite H1, H2, sres_eqb_refl. auto.
Qed.

Lemma run_ok : forall ops r s, Inv r s -> Forall op_good ops ->
  spec_check_from s ops (run_from hash r ops) = true /\
  Forall2 obs_matches (run_from hash r ops) (spec_run_from s ops).
Proof.
  induction ops as [|o ops IH]; intros r s I G; simpl; [split; [reflexivity|constructor]|].
  inversion G as [|? ? Go Gs]; subst.
  destruct (step_ok r s o I Go) as (H1 & H2 & H3).
  destruct (step hash r o) as [b r'], (spec_step s o) as [t s'] eqn:Es. simpl in *.
  destruct (IH r' s' H3 Gs) as [C M]. rewrite H1, C. split; [reflexivity|]. constructor; assumption.
Qed.
End Main.

(* ---------- top-level statements ---------- *)
(* descriptors as the Go code can build them: NewDesc, NewInvalidDesc, wrapDesc *)
Inductive built : desc -> Prop :=
| built_new fq help vars consts : built (new_desc fq help vars consts)
| built_invalid : built invalid_desc
| built_wrap d p l : built d -> built (wrap_desc d p l).

Lemma built_wf d : built d -> desc_wf d.
Proof. induction 1; [apply new_desc_wf|apply invalid_desc_wf|apply wrap_desc_wf; assumption]. Qed.

Definition op_descs (o : op) : list desc :=
  match o with ORegister _ ds => ds | OUnregister ds => ds | OGather => [] | OMust cs => flat_map snd cs end.
Definition all_descs (ops : list op) : list desc := flat_map op_descs ops.
(* the byte strings that are hashed anywhere in the history *)
Definition keys_of (ops : list op) : list str :=
  flat_map (fun d => [d_idser d; d_dimser d]) (filter valid (all_descs ops)).
Definition collision_free (hash : str -> str) (keys : list str) : Prop :=
  forall a b, In a keys -> In b keys -> hash a = hash b -> a = b.
Definition ops_wf (ops : list op) : Prop := forall d, In d (all_descs ops) -> desc_wf d.
Definition ops_unambiguous (ops : list op) : bool :=
  forallb (fun d => d_err d || dim_unambiguous d) (all_descs ops).

Lemma ops_good ops : ops_wf ops -> ops_unambiguous ops = true ->
  Forall (op_good (fun k => In k (keys_of ops))) ops.
Proof.
  intros W U. apply Forall_forall. intros o Ho.
  assert (H : forall d, In d (op_descs o) -> good (fun k => In k (keys_of ops)) d).
  { intros d Hd. assert (Hall : In d (all_descs ops)) by (apply in_flat_map; exists o; auto).
    split; [apply W; exact Hall|]. intros Ed.
    assert (Hk : forall k, In k [d_idser d; d_dimser d] -> In k (keys_of ops)).
    { intros k Hk. apply in_flat_map. exists d. split; [|exact Hk]. apply filter_In. split; [exact Hall|].
      unfold valid. rewrite Ed. reflexivity. }
    split; [apply Hk; simpl; auto|]. split; [apply Hk; simpl; auto|].
    unfold ops_unambiguous in U. rewrite forallb_forall in U. specialize (U d Hall). rewrite Ed in U. exact U. }
  destruct o; simpl in *; auto.
  intros c Hc d Hd. apply H. apply in_flat_map. exists c. auto.
Qed.

Lemma register_spec_lemma : forall (hash : str -> str) (ops : list op),
  ops_wf ops -> ops_unambiguous ops = true -> collision_free hash (keys_of ops) ->
  spec_check ops (run hash ops) = true /\ Forall2 obs_matches (run hash ops) (spec_run ops).
Proof.
  intros hash ops W U C. unfold spec_check, run, spec_run.
  apply (run_ok hash (fun k => In k (keys_of ops)) C); [apply Inv_empty|apply ops_good; assumption].
Qed.

Lemma built_ops_wf ops : Forall built (all_descs ops) -> ops_wf ops.
Proof. intros F d Hd. rewrite Forall_forall in F. apply built_wf. auto. Qed.

Lemma register_spec_built_lemma : forall (hash : str -> str) (ops : list op),
  Forall built (all_descs ops) -> ops_unambiguous ops = true -> collision_free hash (keys_of ops) ->
  spec_check ops (run hash ops) = true /\ Forall2 obs_matches (run hash ops) (spec_run ops).
Proof. intros hash ops B. apply register_spec_lemma. apply built_ops_wf. exact B. Qed.

Lemma collision_free_id keys : collision_free hash_id keys.
Proof. intros a b _ _ H. exact H. Qed.

(* a rejected registration changes nothing (model, any hash, any state) *)
Lemma rejected_changes_nothing_lemma : forall hash r cid ds,
  fst (register hash r cid ds) <> RNil -> snd (register hash r cid ds) = r.
Proof.
  intros hash r cid ds. unfold register.
  destruct (reg_loop hash r ds [] [] false) as [e|ni nd dup]; simpl; [reflexivity|].
  destruct ni as [|i ni]; simpl; [intros H; exfalso; apply H; reflexivity|].
  destruct (find_coll (i :: ni) (r_colls r)) as [[c ds']|]; simpl; [reflexivity|].
  destruct dup; simpl; [reflexivity|]. intros H; exfalso; apply H; reflexivity.
Qed.

(* the specification itself: accepted iff ... *)
Lemma spec_accept_iff_lemma : forall s cid ds,
  fst (spec_register s cid ds) = SOk <->
  ds = [] \/ (all_valid ds = true /\ all_consistent s ds = true /\ clashes s ds = false).
Proof.
  intros s cid ds. destruct ds as [|d ds].
  { simpl. split; auto. }
  rewrite spec_register_ne by discriminate. split.
  - destruct (all_valid (d :: ds)); cbn [negb fst snd]; [|discriminate].
    destruct (all_consistent s (d :: ds)); cbn [negb fst snd]; [|discriminate].
    destruct (find _ _); cbn [negb fst snd]; [discriminate|].
    destruct (clashes s (d :: ds)); cbn [negb fst snd]; [discriminate|]. auto.
  - intros [H|(V & C & Cl)]; [discriminate|]. rewrite V, C. cbn [negb fst snd].
    destruct (find (fun c => desc_set_eq (d :: ds) (snd c)) (s_regd s)) as [c|] eqn:F.
    + exfalso. apply find_some in F. destruct F as [Hc E]. unfold desc_set_eq in E. apply andb_true_iff in E.
      destruct E as [E _]. simpl in E. apply andb_true_iff in E. destruct E as [E _].
      assert (T : clashes s (d :: ds) = true); [|congruence].
      unfold clashes. simpl. apply orb_true_iff. left. apply existsb_exists. exists c. auto.
    + rewrite Cl. reflexivity.
Qed.

Lemma spec_already_lemma : forall s cid ds c,
  fst (spec_register s cid ds) = SAlready c ->
  all_valid ds = true /\ all_consistent s ds = true /\
  exists ds', In (c, ds') (s_regd s) /\ desc_set_eq ds ds' = true /\ snd (spec_register s cid ds) = s.
Proof.
  intros s cid ds c. destruct ds as [|d ds]; [simpl; discriminate|].
  rewrite spec_register_ne by discriminate.
  destruct (all_valid (d :: ds)); cbn [negb fst snd]; [|discriminate].
  destruct (all_consistent s (d :: ds)); cbn [negb fst snd]; [|discriminate].
  destruct (find (fun c => desc_set_eq (d :: ds) (snd c)) (s_regd s)) as [[c0 ds0]|] eqn:F; cbn [negb fst snd].
  - intros H. inversion H; subst. apply find_some in F. simpl in F. split; [reflexivity|]. split; [reflexivity|].
    exists ds0. tauto.
  - destruct (clashes s (d :: ds)); cbn [negb fst snd]; discriminate.
Qed.

Lemma id_serialisation_injective_lemma : forall d e,
  desc_wf d -> desc_wf e -> d_err d = false -> d_err e = false ->
  d_idser d = d_idser e -> d_fq d = d_fq e /\ map snd (d_consts d) = map snd (d_consts e).
Proof.
  intros d e Wd We Ed Ee H.
  destruct (Wd Ed) as (Ud & Cd & _ & _ & Id & _). destruct (We Ee) as (Ue & Ce & _ & _ & Ie & _).
  rewrite Id, Ie in H. apply ser_inj in H.
  - inversion H; auto.
  - constructor; [apply utf8_valid_no_sep; exact Ud|]. apply Forall_forall. intros v Hv.
    apply in_map_iff in Hv. destruct Hv as (p & <- & Hp). rewrite Forall_forall in Cd. apply utf8_valid_no_sep, Cd, Hp.
  - constructor; [apply utf8_valid_no_sep; exact Ue|]. apply Forall_forall. intros v Hv.
    apply in_map_iff in Hv. destruct Hv as (p & <- & Hp). rewrite Forall_forall in Ce. apply utf8_valid_no_sep, Ce, Hp.
Qed.

(* the dimension serialisation is injective only up to the two side conditions of dim_unambiguous *)
Lemma dim_serialisation_injective_lemma : forall d e,
  desc_wf d -> desc_wf e -> d_err d = false -> d_err e = false ->
  dim_unambiguous d = true -> dim_unambiguous e = true ->
  (d_dimser d = d_dimser e <-> agree d e = true).
Proof.
  intros d e Wd We Ed Ee Ud Ue.
  assert (Gd : good (fun _ => True) d) by (split; auto).
  assert (Ge : good (fun _ => True) e) by (split; auto).
  rewrite <- (hdim_eqb hash_id (fun _ => True) (fun a b _ _ H => H) d e Gd Ge Ed Ee).
  unfold hdim, hash_id. symmetry. apply str_eqb_eq.
Qed.

(* known finding dimhash-0xff: help "h" + const label x  versus  help "h\xffx" without labels *)
Definition ff_d1 : desc := new_desc [109] [104] [] [([120], [49])].
Definition ff_d2 : desc := new_desc [109] [104; 255; 120] [] [].
Definition ff_ops : list op := [ORegister 0 [ff_d1]; ORegister 1 [ff_d2]].

Lemma dimhash_refuted_lemma :
  exists d e, built d /\ built e /\ d_err d = false /\ d_err e = false /\
    agree d e = false /\ d_fq d = d_fq e /\ d_dimser d = d_dimser e /\
    (forall hash, hdim hash d = hdim hash e) /\
    run hash_id [ORegister 0 [d]; ORegister 1 [e]] = [BReg RNil; BReg RNil] /\
    spec_run [ORegister 0 [d]; ORegister 1 [e]] = [TReg SOk; TReg SRejected].
Proof.
  exists ff_d1, ff_d2. split; [apply built_new|]. split; [apply built_new|].
  assert (E : d_dimser ff_d1 = d_dimser ff_d2) by (vm_compute; reflexivity).
  repeat split; try (vm_compute; reflexivity); try exact E.
Qed.

(* finding dimhash-dollar: const label "$x"  versus  variable label "x" *)
Definition dl_d1 : desc := new_desc [109] [104] [] [([36; 120], [49])].
Definition dl_d2 : desc := new_desc [109] [104] [[120]] [].

Lemma dimhash_dollar_refuted_lemma :
  exists d e, built d /\ built e /\ d_err d = false /\ d_err e = false /\
    agree d e = false /\ d_fq d = d_fq e /\ d_dimser d = d_dimser e /\
    (forall hash, hdim hash d = hdim hash e) /\
    run hash_id [ORegister 0 [d]; ORegister 1 [e]] = [BReg RNil; BReg RNil] /\
    spec_run [ORegister 0 [d]; ORegister 1 [e]] = [TReg SOk; TReg SRejected].
Proof.
  exists dl_d1, dl_d2. split; [apply built_new|]. split; [apply built_new|].
  assert (E : d_dimser dl_d1 = d_dimser dl_d2) by (vm_compute; reflexivity).
  repeat split; try (vm_compute; reflexivity); try exact E.
Qed.

(* the hypotheses are satisfiable, with every kind of outcome *)
Definition ex_a : desc := new_desc [109] [104] [[108]] [([97], [49])].          (* m{a="1"} vars [l] *)
Definition ex_a2 : desc := new_desc [109] [104] [[108]] [([97], [50])].         (* m{a="2"} vars [l] *)
Definition ex_b : desc := new_desc [109] [104; 50] [[108]] [([97], [51])].      (* other help *)
Definition ex_n : desc := new_desc [110] [104] [] [].
Definition ex_bad : desc := new_desc [] [104] [] [].
Definition ex_w : desc := wrap_desc ex_n [112; 95] [].                           (* p_n *)
Definition ex_ops : list op :=
  [ ORegister 0 [ex_a; ex_n]; ORegister 1 [ex_n; ex_a; ex_a]; ORegister 2 [ex_a; ex_a2]; ORegister 3 [ex_b];
    ORegister 4 [ex_bad]; ORegister 5 []; ORegister 6 [ex_w]; OGather; OUnregister [ex_n; ex_a]; OUnregister [ex_n; ex_a];
    ORegister 7 [ex_b]; ORegister 2 [ex_a; ex_a2]; OGather ].

Lemma ex_ops_hyps : Forall built (all_descs ex_ops) /\ ops_unambiguous ex_ops = true.
Proof.
  split; [|vm_compute; reflexivity].
  unfold ex_ops, all_descs. simpl. repeat constructor; apply built_wrap; constructor.
Qed.

Lemma ex_ops_run :
  run hash_id ex_ops =
  [ BReg RNil; BReg (RAlready 0); BReg RDuplicate; BReg RInconsistent; BReg RInvalid; BReg RNil; BReg RNil;
    BGather [[109]; [110]; [112; 95; 110]]; BUnreg true; BUnreg false; BReg RInconsistent; BReg RNil;
    BGather [[109]; [112; 95; 110]] ] /\
  spec_check ex_ops (run hash_id ex_ops) = true.
Proof. split; vm_compute; reflexivity. Qed.

Lemma no_desc_unchecked_lemma : forall hash r cid,
  register hash r cid [] = (RNil, mkReg (r_colls r) (r_descids r) (r_dims r) (r_unchecked r ++ [cid])).
Proof. reflexivity. Qed.

(* Unregister in the specification: true iff a registered collector has an equal descriptor set;
   exactly those entries disappear; the "ever registered" history and the unchecked list stay *)
Lemma spec_unregister_exact_lemma : forall s ds,
  let vs := filter valid ds in
  (fst (spec_unregister s ds) = true <-> exists c, In c (s_regd s) /\ desc_set_eq vs (snd c) = true) /\
  s_regd (snd (spec_unregister s ds)) = filter (fun c => negb (desc_set_eq vs (snd c))) (s_regd s) /\
  s_ever (snd (spec_unregister s ds)) = s_ever s /\ s_unch (snd (spec_unregister s ds)) = s_unch s.
Proof.
  intros s ds vs. unfold spec_unregister. fold vs.
  destruct (existsb (fun c => desc_set_eq vs (snd c)) (s_regd s)) eqn:E; simpl.
  - split; [|auto]. split; [intros _|reflexivity]. apply existsb_exists in E. exact E.
  - split; [split; [discriminate|]|].
    + intros H. apply existsb_exists in H. congruence.
    + split; [|auto]. symmetry. apply filter_all. apply forallb_forall. intros c Hc.
      apply negb_true_iff. destruct (desc_set_eq vs (snd c)) eqn:F; [|reflexivity].
      assert (existsb (fun c => desc_set_eq vs (snd c)) (s_regd s) = true); [|congruence].
      apply existsb_exists. exists c. auto.
Qed.

(* ---------- order and multiplicity of the emitted descriptors do not matter ---------- *)
Definition ds_equiv {A} (a b : list A) : Prop := forall d, In d a <-> In d b.

Lemma forallb_equiv {A} (f g : A -> bool) a b : (forall x, f x = g x) -> ds_equiv a b -> forallb f a = forallb g b.
Proof.
  intros E H. apply eq_iff_eq_true. rewrite !forallb_forall. split; intros F x Hx.
  - rewrite <- E. apply F, H, Hx.
  - rewrite E. apply F, H, Hx.
Qed.

Lemma existsb_equiv {A} (f g : A -> bool) a b : (forall x, f x = g x) -> ds_equiv a b -> existsb f a = existsb g b.
Proof.
  intros E H. apply eq_iff_eq_true. rewrite !existsb_exists. split; intros (x & Hx & Fx); exists x.
  - rewrite <- E. split; [apply H, Hx|exact Fx].
  - rewrite E. split; [apply H, Hx|exact Fx].
Qed.

Lemma ds_equiv_nil {A} (a b : list A) : ds_equiv a b -> (a = [] <-> b = []).
Proof.
  intros H. split; intros ->.
  - destruct b as [|x b]; [reflexivity|]. exfalso. apply (proj2 (H x)). left; reflexivity.
  - destruct a as [|x a]; [reflexivity|]. exfalso. apply (proj1 (H x)). left; reflexivity.
Qed.

Lemma ds_equiv_filter {A} (f : A -> bool) a b : ds_equiv a b -> ds_equiv (filter f a) (filter f b).
Proof. intros H x. rewrite !filter_In, (H x). tauto. Qed.

Lemma ds_equiv_app {A} (a a' b b' : list A) : ds_equiv a a' -> ds_equiv b b' -> ds_equiv (a ++ b) (a' ++ b').
Proof. intros H1 H2 x. rewrite !in_app_iff, (H1 x), (H2 x). tauto. Qed.

Definition creq (c c' : Z * list desc) : Prop := fst c = fst c' /\ ds_equiv (snd c) (snd c').
Definition sequiv (s s' : sstate) : Prop :=
  Forall2 creq (s_regd s) (s_regd s') /\ ds_equiv (s_ever s) (s_ever s') /\ s_unch s = s_unch s'.

Lemma existsb_Forall2 {A} (R : A -> A -> Prop) f g l l' :
  Forall2 R l l' -> (forall c c', R c c' -> f c = g c') -> existsb f l = existsb g l'.
Proof. induction 1 as [|c c' l l' Hc Hl IH]; intros E; simpl; [reflexivity|]. rewrite (E _ _ Hc), IH; auto. Qed.

Lemma find_Forall2 {A} (R : A -> A -> Prop) f g l l' :
  Forall2 R l l' -> (forall c c', R c c' -> f c = g c') ->
  match find f l, find g l' with Some c, Some c' => R c c' | None, None => True | _, _ => False end.
Proof.
  induction 1 as [|c c' l l' Hc Hl IH]; intros E; simpl; [exact I|].
  rewrite <- (E _ _ Hc). destruct (f c); [exact Hc|]. apply IH. exact E.
Qed.

Lemma filter_Forall2 {A} (R : A -> A -> Prop) f g l l' :
  Forall2 R l l' -> (forall c c', R c c' -> f c = g c') -> Forall2 R (filter f l) (filter g l').
Proof.
  induction 1 as [|c c' l l' Hc Hl IH]; intros E; simpl; [constructor|].
  rewrite <- (E _ _ Hc). destruct (f c); [constructor; auto|auto].
Qed.

Lemma in_descs_equiv d a b : ds_equiv a b -> in_descs d a = in_descs d b.
Proof. intros H. unfold in_descs. apply existsb_equiv; auto. Qed.

Lemma desc_set_eq_equiv a a' b b' : ds_equiv a a' -> ds_equiv b b' -> desc_set_eq a b = desc_set_eq a' b'.
Proof.
  intros Ha Hb. unfold desc_set_eq. f_equal.
  - apply forallb_equiv; [|exact Ha]. intros x. apply in_descs_equiv. exact Hb.
  - apply forallb_equiv; [|exact Hb]. intros x. apply in_descs_equiv. exact Ha.
Qed.

Lemma consistent_with_equiv d a b : ds_equiv a b -> consistent_with d a = consistent_with d b.
Proof. intros H. unfold consistent_with. apply forallb_equiv; auto. Qed.

Lemma all_consistent_equiv s s' a b : ds_equiv (s_ever s) (s_ever s') -> ds_equiv a b ->
  all_consistent s a = all_consistent s' b.
Proof.
  intros He H. unfold all_consistent. apply forallb_equiv; [|exact H].
  intros x. f_equal; apply consistent_with_equiv; assumption.
Qed.

Lemma clashes_equiv s s' a b : Forall2 creq (s_regd s) (s_regd s') -> ds_equiv a b -> clashes s a = clashes s' b.
Proof.
  intros Hr H. unfold clashes. apply existsb_equiv; [|exact H].
  intros x. apply (existsb_Forall2 creq); [exact Hr|]. intros c c' [_ Hc]. apply in_descs_equiv. exact Hc.
Qed.

Lemma spec_register_equiv s s' cid ds ds' : sequiv s s' -> ds_equiv ds ds' ->
  fst (spec_register s cid ds) = fst (spec_register s' cid ds') /\
  sequiv (snd (spec_register s cid ds)) (snd (spec_register s' cid ds')).
Proof.
  intros (Hr & He & Hu) H.
  destruct ds as [|d ds].
  { assert (ds' = []) by (apply (ds_equiv_nil _ _ H); reflexivity). subst ds'. simpl.
    split; [reflexivity|]. split; [exact Hr|]. split; [exact He|]. simpl. rewrite Hu. reflexivity. }
  assert (Hn' : ds' <> []). { intros E. apply (ds_equiv_nil _ _ H) in E. discriminate. }
  rewrite spec_register_ne by discriminate. rewrite (spec_register_ne s' cid ds' Hn').
  rewrite <- (forallb_equiv valid valid (d :: ds) ds' (fun x => eq_refl) H : all_valid (d :: ds) = all_valid ds').
  rewrite <- (all_consistent_equiv s s' (d :: ds) ds' He H).
  assert (Hs : sequiv s s') by exact (conj Hr (conj He Hu)).
  destruct (all_valid (d :: ds)); cbn [negb]; [|simpl; auto].
  destruct (all_consistent s (d :: ds)); cbn [negb]; [|simpl; auto].
  pose proof (find_Forall2 creq (fun c => desc_set_eq (d :: ds) (snd c)) (fun c => desc_set_eq ds' (snd c))
                _ _ Hr (fun c c' Hc => desc_set_eq_equiv _ _ _ _ H (proj2 Hc))) as F.
  destruct (find (fun c => desc_set_eq (d :: ds) (snd c)) (s_regd s)) as [c|],
           (find (fun c => desc_set_eq ds' (snd c)) (s_regd s')) as [c'|]; try contradiction.
  - simpl. destruct F as [F _]. rewrite F. auto.
  - rewrite <- (clashes_equiv s s' (d :: ds) ds' Hr H).
    destruct (clashes s (d :: ds)); simpl; [auto|]. split; [reflexivity|].
    split; [|split; [|exact Hu]]; simpl.
    + constructor; [split; [reflexivity|exact H]|exact Hr].
    + exact (ds_equiv_app (d :: ds) ds' (s_ever s) (s_ever s') H He).
Qed.

Lemma spec_unregister_equiv s s' ds ds' : sequiv s s' -> ds_equiv ds ds' ->
  fst (spec_unregister s ds) = fst (spec_unregister s' ds') /\
  sequiv (snd (spec_unregister s ds)) (snd (spec_unregister s' ds')).
Proof.
  intros (Hr & He & Hu) H. unfold spec_unregister.
  pose proof (ds_equiv_filter valid _ _ H) as Hv.
  rewrite <- (existsb_Forall2 creq (fun c => desc_set_eq (filter valid ds) (snd c))
                (fun c => desc_set_eq (filter valid ds') (snd c)) _ _ Hr
                (fun c c' Hc => desc_set_eq_equiv _ _ _ _ Hv (proj2 Hc))).
  destruct (existsb (fun c => desc_set_eq (filter valid ds) (snd c)) (s_regd s)); simpl.
  - split; [reflexivity|]. split; [|split; [exact He|exact Hu]]. simpl.
    apply (filter_Forall2 creq); [exact Hr|]. intros c c' Hc. f_equal. apply desc_set_eq_equiv; [exact Hv|exact (proj2 Hc)].
  - split; [reflexivity|]. exact (conj Hr (conj He Hu)).
Qed.

Lemma spec_names_equiv s s' : sequiv s s' -> forall x, In x (spec_names s) <-> In x (spec_names s').
Proof.
  intros (Hr & _ & _) x. unfold spec_names. induction Hr as [|c c' l l' Hc Hl IH]; simpl; [tauto|].
  rewrite !in_app_iff, IH, !in_map_iff. destruct Hc as [_ Hc].
  split; (intros [(d & E & Hd)|G]; [left; exists d; split; [exact E|apply Hc; exact Hd]|right; exact G]).
Qed.

Definition op_equiv (o o' : op) : Prop :=
  match o, o' with
  | ORegister c ds, ORegister c' ds' => c = c' /\ ds_equiv ds ds'
  | OUnregister ds, OUnregister ds' => ds_equiv ds ds'
  | OGather, OGather => True
  | OMust cs, OMust cs' => Forall2 creq cs cs'
  | _, _ => False
  end.
Definition sobs_same (t t' : sobs) : Prop :=
  match t, t' with
  | TReg a, TReg b => a = b
  | TUnreg a, TUnreg b => a = b
  | TGather n, TGather n' => forall x, In x n <-> In x n'
  | _, _ => False
  end.
(* same outcome: same acceptance / rejection / AlreadyRegistered collector, same Unregister answer,
   same gathered names *)
Definition obs_same (o o' : obs) : Prop :=
  match o, o' with
  | BReg e, BReg e' => classify e = classify e'
  | BUnreg a, BUnreg b => a = b
  | BGather n, BGather n' => forall x, In x n <-> In x n'
  | _, _ => False
  end.

Lemma spec_must_equiv : forall cs cs', Forall2 creq cs cs' -> forall s s', sequiv s s' ->
  fst (spec_must s cs) = fst (spec_must s' cs') /\ sequiv (snd (spec_must s cs)) (snd (spec_must s' cs')).
Proof.
  induction 1 as [|c c' cs cs' Hc Hcs IH]; intros s s' Hs; simpl; [auto|].
  destruct Hc as [Hf Hd]. rewrite <- Hf.
  destruct (spec_register_equiv s s' (fst c) (snd c) (snd c') Hs Hd) as [E1 E2].
  destruct (spec_register s (fst c) (snd c)) as [e t], (spec_register s' (fst c) (snd c')) as [e' t']. simpl in *.
  subst e'. destruct e; simpl; auto.
Qed.

Lemma flat_map_snd_equiv cs cs' : Forall2 creq cs cs' -> ds_equiv (flat_map snd cs) (flat_map snd cs').
Proof.
  induction 1 as [|c c' cs cs' Hc Hcs IH]; simpl; [intros d; tauto|].
  apply ds_equiv_app; [exact (proj2 Hc)|exact IH].
Qed.

Lemma spec_run_equiv : forall ops ops', Forall2 op_equiv ops ops' -> forall s s', sequiv s s' ->
  Forall2 sobs_same (spec_run_from s ops) (spec_run_from s' ops').
Proof.
  induction 1 as [|o o' ops ops' Ho Hops IH]; intros s s' Hs; simpl; [constructor|].
  destruct o as [c ds|ds| |cs], o' as [c' ds'|ds'| |cs0]; simpl in Ho; try contradiction.
  - destruct Ho as [<- Hd]. destruct (spec_register_equiv s s' c ds ds' Hs Hd) as [E1 E2]. simpl.
    destruct (spec_register s c ds) as [e t], (spec_register s' c ds') as [e' t']. simpl in *.
    constructor; [exact E1|apply IH; exact E2].
  - destruct (spec_unregister_equiv s s' ds ds' Hs Ho) as [E1 E2]. simpl.
    destruct (spec_unregister s ds) as [e t], (spec_unregister s' ds') as [e' t']. simpl in *.
    constructor; [exact E1|apply IH; exact E2].
  - simpl. constructor; [exact (spec_names_equiv s s' Hs)|apply IH; exact Hs].
  - destruct (spec_must_equiv cs cs0 Ho s s' Hs) as [E1 E2]. simpl.
    destruct (spec_must s cs) as [e t], (spec_must s' cs0) as [e' t']. simpl in *.
    constructor; [exact E1|apply IH; exact E2].
Qed.

Lemma compose3 : forall a b, Forall2 obs_matches a b -> forall c d,
  Forall2 sobs_same b c -> Forall2 obs_matches d c -> Forall2 obs_same a d.
Proof.
  induction 1 as [|o t a b Hot Hab IH]; intros c d S M.
  - inversion S; subst. inversion M; subst. constructor.
  - inversion S as [|? t' ? c0 Htt' S']; subst. inversion M as [|o' ? d0 ? Hot' M']; subst.
    constructor; [|eapply IH; eassumption].
    destruct o, t, t', o'; simpl in *; try contradiction; try congruence.
    intros x. rewrite (Hot x), (Htt' x), (Hot' x). tauto.
Qed.

Lemma all_descs_equiv ops ops' : Forall2 op_equiv ops ops' -> ds_equiv (all_descs ops) (all_descs ops').
Proof.
  induction 1 as [|o o' ops ops' Ho Hops IH]; [intros d; tauto|].
  unfold all_descs. simpl. apply ds_equiv_app; [|exact IH].
  destruct o, o'; simpl in Ho; try contradiction; simpl; try tauto; [intros d; tauto|].
  apply flat_map_snd_equiv. exact Ho.
Qed.

Lemma register_order_multiplicity_insensitive_lemma : forall (hash : str -> str) (ops ops' : list op),
  Forall2 op_equiv ops ops' ->
  ops_wf ops -> ops_unambiguous ops = true -> collision_free hash (keys_of ops) ->
  Forall2 obs_same (run hash ops) (run hash ops').
Proof.
  intros hash ops ops' E W U C.
  pose proof (all_descs_equiv _ _ E) as A.
  assert (W' : ops_wf ops') by (intros d Hd; apply W, A, Hd).
  assert (U' : ops_unambiguous ops' = true).
  { unfold ops_unambiguous in *. rewrite <- U. symmetry. apply forallb_equiv; auto. }
  assert (C' : collision_free hash (keys_of ops')).
  { assert (Hk : forall k, In k (keys_of ops') -> In k (keys_of ops)).
    { intros k Hk. unfold keys_of in *. apply in_flat_map in Hk. destruct Hk as (d & Hd & Hk).
      apply in_flat_map. exists d. split; [|exact Hk]. apply (ds_equiv_filter valid _ _ A). exact Hd. }
    intros a b Ha Hb. apply C; apply Hk; assumption. }
  destruct (register_spec_lemma hash ops W U C) as [_ M1].
  destruct (register_spec_lemma hash ops' W' U' C') as [_ M2].
  eapply compose3; [exact M1| |exact M2].
  apply spec_run_equiv; [exact E|]. split; [constructor|]. split; [intros d; tauto|reflexivity].
Qed.

(* MustRegister stops at the first rejected collector: p_n (collector 3) is not registered *)
Lemma must_register_example_lemma :
  run hash_id [ORegister 0 [ex_a]; OMust [(1, [ex_n]); (2, [ex_a]); (3, [ex_w])]; OGather; ORegister 3 [ex_w]] =
  [BReg RNil; BReg (RAlready 0); BGather [[109]; [110]]; BReg RNil].
Proof. vm_compute; reflexivity. Qed.

(* which of "invalid" / "inconsistent" is reported does depend on the emission order (first offender wins) *)
Lemma error_kind_order_dependent_lemma :
  run hash_id [ORegister 0 [ex_a]; ORegister 1 [ex_bad; ex_b]] = [BReg RNil; BReg RInvalid] /\
  run hash_id [ORegister 0 [ex_a]; ORegister 1 [ex_b; ex_bad]] = [BReg RNil; BReg RInconsistent].
Proof. split; vm_compute; reflexivity. Qed.
