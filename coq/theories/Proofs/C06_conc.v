(* Proofs/C06_conc.v -- the summary with objectives under ALL interleavings (Model/SummaryConc.v):
   a ghost-state inductive invariant over the Base/Conc semantics.  Statements: Properties/C06.v. *)
From Coq Require Import ZArith List Bool Lia Permutation Sorted.
From Verif Require Import Base.F64 Base.Str Model.SummaryWindow Base.Conc Model.SummaryConc Proofs.C06_proofs.
Import ListNotations.
Open Scope Z_scope.

Ltac psplit := repeat match goal with |- _ /\ _ => split end.

(* ====================================================================== *)
(* 1. generic facts: lists, the interleaving semantics                     *)
Lemma nth_error_set_nth_eq {A} (l : list A) : forall n x t,
  nth_error l n = Some t -> nth_error (Conc.set_nth l n x) n = Some x.
Proof. induction l; intros [|n] x t H; simpl in *; try discriminate; eauto. Qed.

Lemma nth_error_set_nth_neq {A} (l : list A) : forall n m x,
  n <> m -> nth_error (Conc.set_nth l n x) m = nth_error l m.
Proof. induction l; intros [|n] [|m] x H; simpl; auto; try congruence. Qed.

Lemma length_set_nth {A} (l : list A) : forall n x, length (Conc.set_nth l n x) = length l.
Proof. induction l; intros [|n] x; simpl; auto. Qed.

Lemma NoDup_app_snoc_c {A} (l : list A) x : NoDup l -> ~ In x l -> NoDup (l ++ [x]).
Proof.
  induction 1 as [|y l Hy Hl IH]; intros Hx; simpl.
  - constructor; [intros []|constructor].
  - constructor.
    + intros Hin. apply in_app_or in Hin. destruct Hin as [Hin|[<-|[]]]; [auto|]. apply Hx. left; reflexivity.
    + apply IH. intros Hin. apply Hx. right; exact Hin.
Qed.

Lemma NoDup_app_l {A} (l1 l2 : list A) : NoDup (l1 ++ l2) -> NoDup l1.
Proof.
  induction l1 as [|x l IH]; simpl; intros H; [constructor|].
  inversion H; subst. constructor; [|auto]. intros Hin. apply H2. apply in_or_app; auto.
Qed.

Section Gen.
Variable M : machine.
Lemma run_sched_ind (P : config M -> Prop) :
  (forall c tid c', P c -> sched_step M c tid = Some c' -> P c') ->
  forall sched c, P c -> P (run_sched M c sched).
Proof.
  intros Hstep sched. induction sched as [|t r IH]; intros c Hc; cbn [run_sched]; [assumption|].
  destruct (sched_step M c t) as [c'|] eqn:E; [apply IH; eapply Hstep; eauto|apply IH; assumption].
Qed.
End Gen.

Lemma fold_fadd_app (a b : list f64) s : fold_left fadd (a ++ b) s = fold_left fadd b (fold_left fadd a s).
Proof. apply fold_left_app. Qed.

(* ====================================================================== *)
(* 2. the sequential pieces: swapBufs succeeds on an empty cold buffer, flushColdBuf on aligned expiry times *)
Section Seq.
Variable c : cfg.
Hypothesis Hd : 0 < c_d c.

Lemma swap_ok now st : cold st = [] ->
  exists e j, 0 <= j /\ e = hot_exp st + j * c_d c /\
    swap_bufs (need c now st) c now st = Ok (mkSt [] (hot st) e (head_exp st) (streams st) (head_idx st) (cnt st) (sum st)).
Proof.
  intros Hc. destruct (need_enough c now st Hd) as (f & Hn & Hf).
  destruct (swap_loop_spec f (c_d c) now (hot_exp st) Hd Hf) as (j & Hj & Hs & _).
  exists (hot_exp st + j * c_d c), j. psplit; auto.
  unfold swap_bufs. rewrite Hc, Hn, Hs. reflexivity.
Qed.

Lemma rotate_terminates : forall f k st idx head, 0 <= k <= Z.of_nat f ->
  exists st' idx', rotate_loop (S f) (c_d c) (head + k * c_d c) st idx head = Some (st', idx', head + k * c_d c).
Proof.
  induction f; intros k st idx head Hk.
  - assert (k = 0) by lia. subst. simpl. replace (head + 0 =? head) with true by (symmetry; apply Z.eqb_eq; lia).
    eexists; eexists. f_equal. f_equal. lia.
  - change (rotate_loop (S (S f)) (c_d c) (head + k * c_d c) st idx head) with
      (if head + k * c_d c =? head then Some (st, idx, head)
       else rotate_loop (S f) (c_d c) (head + k * c_d c) (SummaryWindow.set_nth idx [] st) (next_idx idx (length st)) (head + c_d c)).
    destruct (Z.eq_dec k 0) as [->|Hne].
    + replace (head + 0 * c_d c =? head) with true by (symmetry; apply Z.eqb_eq; lia).
      eexists; eexists. f_equal. f_equal. lia.
    + replace (head + k * c_d c =? head) with false by (symmetry; apply Z.eqb_neq; nia).
      destruct (IHf (k - 1) (SummaryWindow.set_nth idx [] st) (next_idx idx (length st)) (head + c_d c)) as (st' & idx' & H).
      { rewrite Nat2Z.inj_succ in Hk. lia. }
      replace (head + c_d c + (k - 1) * c_d c) with (head + k * c_d c) in H by ring.
      eauto.
Qed.

Definition aligned (st : state) : Prop := exists k, 0 <= k /\ hot_exp st = head_exp st + k * c_d c.

Lemma flush_ok st : aligned st ->
  exists st2, flush_cold (need_rot c st) c st = Ok st2 /\
    hot st2 = hot st /\ cold st2 = [] /\ hot_exp st2 = hot_exp st /\ head_exp st2 = hot_exp st /\
    cnt st2 = cnt st + Z.of_nat (length (cold st)) /\ sum st2 = fold_left fadd (cold st) (sum st).
Proof.
  intros (k & Hk & Ha). unfold flush_cold. rewrite (flush_fold c).
  unfold need_rot. rewrite Ha. replace (head_exp st + k * c_d c - head_exp st) with (k * c_d c) by ring.
  rewrite Z.div_mul by lia.
  destruct (rotate_terminates (Z.to_nat k) k (map (fun x => x ++ cold st) (streams st)) (head_idx st) (head_exp st)) as (st' & idx' & Hr).
  { rewrite Z2Nat.id by lia. lia. }
  rewrite Hr. eexists. split; [reflexivity|]. simpl. psplit; auto.
Qed.

Lemma aligned_swap st e j : aligned st -> 0 <= j -> e = hot_exp st + j * c_d c ->
  aligned (mkSt [] (hot st) e (head_exp st) (streams st) (head_idx st) (cnt st) (sum st)).
Proof. intros (k & Hk & Ha) Hj ->. exists (k + j). simpl. split; [lia|]. rewrite Ha. ring. Qed.

End Seq.

(* ====================================================================== *)
(* 3. ghost state and the invariant                                        *)
Section Conc.
Variable c : cfg.
Variable objs : list (f64 * f64).
Variable clk : Z -> Z.
Hypothesis Hd : 0 < c_d c.
Let M := summ_obj_machine c objs clk.

Definition scall := call M.
Definition kobs (k : scall) : bool := match (c_op k : sop) with SObserve _ => true | _ => false end.
Definition kval (k : scall) : f64 := match (c_op k : sop) with SObserve v => v | _ => pzero end.
Definition kwrite (k : scall) : bool := match (c_ret k : sret) with ROut _ => true | RUnit => false end.
Definition vals (l : list scall) : list f64 := map kval l.

(* who holds mtx: nobody / a spawned flusher that has not started / writer i after swapBufs /
   writer i after flushColdBuf / flusher thread i after flushColdBuf *)
Inductive mphase := PFree | PJob | PSwapped (i : nat) | PDoneW (i : nat) | PDoneF (i : nat).

Record ghost := mkG {
  gb : option nat;                      (* thread holding bufMtx *)
  gph : mphase;
  gpend : list f64;                     (* value appended by the bufMtx holder whose Observe has not returned *)
  gF : list f64;                        (* flushed values, in flush order *)
  gS : list scall; gT : Z;              (* snapshot of the writer holding mtx and the time of its swapBufs *)
  gW : list (scall * list scall) }.     (* completed Writes with the Observe calls they report *)

(* out reports exactly the observations S: count, and the left-to-right float sum of a permutation of their values *)
Definition prefixF (a b : list f64) : Prop := exists r, b = a ++ r.
Lemma prefixF_refl a : prefixF a a. Proof. exists []. rewrite app_nil_r. reflexivity. Qed.
Lemma prefixF_app a r : prefixF a (a ++ r). Proof. exists r. reflexivity. Qed.
Lemma prefixF_trans a b d : prefixF a b -> prefixF b d -> prefixF a d.
Proof. intros [r ->] [r' ->]. exists (r ++ r'). rewrite app_assoc. reflexivity. Qed.
Hint Resolve prefixF_refl prefixF_app : core.

(* F: the values flushed so far, in flush order; P is an initial segment of it *)
Definition out_ok (out : wout) (S : list scall) (F : list f64) : Prop :=
  exists P, Permutation P (vals S) /\ w_count out = Z.of_nat (length P) /\ w_sum out = fold_left fadd P pzero /\ prefixF P F.
Lemma out_ok_grow out S F F' : out_ok out S F -> prefixF F F' -> out_ok out S F'.
Proof. intros (P & H1 & H2 & H3 & H4) HF. exists P. psplit; auto. eapply prefixF_trans; eauto. Qed.

Definition pcinv (g : ghost) (i : nat) (o : sop) (pc : spc) (inv : Z) : Prop :=
  match pc with
  | oLockBuf v => o = SObserve v
  | oLockMtx1 v _ => o = SObserve v /\ gb g = Some i /\ gpend g = []
  | oLockMtx2 _ | oUnlockBuf => exists v, o = SObserve v /\ gb g = Some i /\ gpend g = [v]
  | wLockBuf => o = SWrite
  | wLockMtx => o = SWrite /\ gb g = Some i /\ gpend g = []
  | wUnlockBuf => o = SWrite /\ gb g = Some i /\ gpend g = [] /\ gph g = PSwapped i /\ inv <= gT g
  | wUnlockMtx out => o = SWrite /\ gph g = PDoneW i /\ inv <= gT g /\ out_ok out (gS g) (gF g)
  | fStart j => o = SFlusher j
  | fUnlock => (exists j, o = SFlusher j) /\ gph g = PDoneF i
  | crashed => False
  end.

Definition holds_buf (pc : spc) : bool :=
  match pc with oLockMtx1 _ _ | oLockMtx2 _ | oUnlockBuf | wLockMtx | wUnlockBuf => true | _ => false end.

Record InvT (g : ghost) (T : list (thread M)) (time : Z) : Prop := mkInvT {
  it_thr : forall i t o pc inv, nth_error T i = Some t -> t_cur t = Some (o, pc, inv) -> pcinv g i o pc inv /\ inv <= time;
  it_buf : forall i, gb g = Some i -> exists t o pc inv, nth_error T i = Some t /\ t_cur t = Some (o, pc, inv) /\ holds_buf pc = true;
  it_mtx : match gph g with
           | PFree | PJob => True
           | PSwapped i => exists t o inv, nth_error T i = Some t /\ t_cur t = Some (o, wUnlockBuf, inv)
           | PDoneW i => exists t o out inv, nth_error T i = Some t /\ t_cur t = Some (o, wUnlockMtx out, inv)
           | PDoneF i => exists t o inv, nth_error T i = Some t /\ t_cur t = Some (o, fUnlock, inv)
           end }.

Record InvS (s : csh) (g : ghost) : Prop := mkInvS {
  is_buf : c_buf s = match gb g with Some _ => true | None => false end;
  is_mtx : c_mtx s = match gph g with PFree => false | _ => true end;
  is_job : match c_job s with Some j => gph g = PJob /\ c_spawned s = S j | None => gph g <> PJob end;
  is_pend : gb g = None -> gpend g = [];
  is_cold : match gph g with PFree | PDoneW _ | PDoneF _ => cold (c_st s) = [] | _ => True end;
  is_cnt : cnt (c_st s) = Z.of_nat (length (gF g));
  is_sum : sum (c_st s) = fold_left fadd (gF g) pzero;
  is_al : aligned c (c_st s) }.

Definition wr_ok (hs : list scall) (F : list f64) (e : scall * list scall) : Prop :=
  let (w, S) := e in
  exists out, (c_ret w : sret) = ROut out /\ out_ok out S F /\ NoDup S /\
    (forall k, In k S -> In k hs /\ kobs k = true /\ c_res k < c_res w) /\
    (forall k, In k hs -> kobs k = true -> c_res k <= c_inv w -> In k S).

Record InvH (hs : list scall) (time : Z) (st : state) (g : ghost) : Prop := mkInvH {
  ih_time : forall k, In k hs -> c_inv k <= c_res k <= time;
  ih_nodup : NoDup hs;
  ih_acc : Permutation (gF g ++ cold st ++ hot st) (vals (filter kobs hs) ++ gpend g);
  ih_snap : match gph g with
            | PSwapped _ | PDoneW _ =>
                exists hs1 hs2, hs = hs1 ++ hs2 /\ gS g = filter kobs hs1 /\
                  (forall k, In k hs1 -> c_res k <= gT g) /\ (forall k, In k hs2 -> gT g < c_res k) /\
                  gT g <= time /\ Forall (fun e => incl (snd e) (gS g)) (gW g)
            | _ => True
            end;
  ih_swapped : match gph g with PSwapped _ => Permutation (gF g ++ cold st) (vals (gS g)) | _ => True end;
  ih_wr : map fst (gW g) = filter kwrite hs;
  ih_wrok : Forall (wr_ok hs (gF g)) (gW g);
  ih_mono : StronglySorted (fun a b => incl (snd a) (snd b)) (gW g) }.

Definition Inv (cf : config M) (g : ghost) : Prop :=
  InvT g (thr cf) (now cf) /\ InvS (sh cf) g /\ InvH (hist cf) (now cf) (c_st (sh cf)) g /\ c_ticks (sh cf) = now cf.

(* ---- the thread after a return ---- *)
Definition start_pc (o : sop) : spc :=
  match o with SObserve v => oLockBuf v | SWrite => wLockBuf | SFlusher j => fStart j end.
Definition next_thread (todo : list sop) (idx time : Z) : thread M :=
  match todo with
  | [] => mkThread M [] None idx
  | o :: rest => mkThread M rest (Some (o, start_pc o, time)) idx
  end.

Lemma advance_eq tid todo idx time : advance M tid todo idx time = (next_thread todo idx time, []).
Proof. destruct todo as [|o rest]; [reflexivity|]. destruct o; reflexivity. Qed.

Lemma step_cases cf tid cf' : sched_step M cf tid = Some cf' ->
  exists t o pc inv s' nxt,
    nth_error (thr cf) (Z.to_nat tid) = Some t /\ t_cur t = Some (o, pc, inv) /\
    sstep c objs clk (sh cf) pc = Some (s', nxt) /\ sh cf' = s' /\ now cf' = now cf + 1 /\
    match nxt with
    | inl pc' => hist cf' = hist cf /\
                 thr cf' = Conc.set_nth (thr cf) (Z.to_nat tid) (mkThread M (t_todo t) (Some (o, pc', inv)) (t_idx t))
    | inr r => hist cf' = hist cf ++ [mkCall tid (t_idx t) o r inv (now cf + 1)] /\
               thr cf' = Conc.set_nth (thr cf) (Z.to_nat tid) (next_thread (t_todo t) (t_idx t + 1) (now cf + 1))
    end.
Proof.
  unfold sched_step. intros H.
  destruct (nth_error (thr cf) (Z.to_nat tid)) as [t|] eqn:Ht; [|discriminate].
  destruct (t_cur t) as [[[o pc] inv]|] eqn:Hc; [|discriminate].
  change (step M (sh cf) pc) with (sstep c objs clk (sh cf) pc) in H.
  destruct (sstep c objs clk (sh cf) pc) as [[s' nxt]|] eqn:Hs; [|discriminate].
  exists t, o, pc, inv, s', nxt. destruct nxt as [pc'|r].
  - injection H as <-. cbn. psplit; auto.
  - rewrite advance_eq in H. injection H as <-. cbn. psplit; auto.
Qed.

(* ---- frame: a thread's local invariant only depends on the ghost fields it owns ---- *)
Lemma pcinv_frame g g' j o pc inv :
  pcinv g j o pc inv ->
  (gb g = Some j -> gb g' = Some j /\ gpend g' = gpend g) ->
  (gph g = PSwapped j \/ gph g = PDoneW j \/ gph g = PDoneF j -> gph g' = gph g /\ gT g' = gT g /\ gS g' = gS g /\ gF g' = gF g) ->
  pcinv g' j o pc inv.
Proof.
  intros H Hb Hm. destruct pc; cbn [pcinv] in *; auto.
  - destruct H as (Ho & Hg & Hp). destruct (Hb Hg) as [-> ->]. auto.
  - destruct H as (v & Ho & Hg & Hp). destruct (Hb Hg) as [-> ->]. eauto.
  - destruct H as (v & Ho & Hg & Hp). destruct (Hb Hg) as [-> ->]. eauto.
  - destruct H as (Ho & Hg & Hp). destruct (Hb Hg) as [-> ->]. auto.
  - destruct H as (Ho & Hg & Hp & Hph & Ht). destruct (Hb Hg) as [-> ->].
    destruct (Hm (or_introl Hph)) as (-> & -> & _). auto.
  - destruct H as (Ho & Hph & Ht & Hok). destruct (Hm (or_intror (or_introl Hph))) as (-> & -> & -> & ->). auto.
  - destruct H as (Ho & Hph). destruct (Hm (or_intror (or_intror Hph))) as (-> & _). auto.
Qed.

(* updating thread i: the other threads keep their invariants when the ghost fields they own are untouched *)
Lemma InvT_update g g' T time i t (t' : thread M) :
  InvT g T time -> nth_error T i = Some t ->
  (forall o pc inv, t_cur t' = Some (o, pc, inv) -> pcinv g' i o pc inv /\ inv <= time + 1) ->
  (forall j, j <> i -> gb g = Some j -> gb g' = Some j /\ gpend g' = gpend g) ->
  (forall j, j <> i -> gph g = PSwapped j \/ gph g = PDoneW j \/ gph g = PDoneF j -> gph g' = gph g /\ gT g' = gT g /\ gS g' = gS g /\ gF g' = gF g) ->
  (forall j, gb g' = Some j -> (j = i /\ exists o pc inv, t_cur t' = Some (o, pc, inv) /\ holds_buf pc = true) \/ (j <> i /\ gb g = Some j)) ->
  match gph g' with
  | PFree | PJob => True
  | PSwapped j => (j = i /\ exists o inv, t_cur t' = Some (o, wUnlockBuf, inv)) \/ (j <> i /\ gph g = PSwapped j)
  | PDoneW j => (j = i /\ exists o out inv, t_cur t' = Some (o, wUnlockMtx out, inv)) \/ (j <> i /\ gph g = PDoneW j)
  | PDoneF j => (j = i /\ exists o inv, t_cur t' = Some (o, fUnlock, inv)) \/ (j <> i /\ gph g = PDoneF j)
  end ->
  InvT g' (Conc.set_nth T i t') (time + 1).
Proof.
  intros [Hthr Hbuf Hmtx] Hi Hnew Hfb Hfm Hob Hom. constructor.
  - intros j tj o pc inv Hj Hc. destruct (Nat.eq_dec i j) as [<-|Hne].
    + rewrite (nth_error_set_nth_eq _ _ _ _ Hi) in Hj. injection Hj as <-. eauto.
    + rewrite nth_error_set_nth_neq in Hj by exact Hne. destruct (Hthr j tj o pc inv Hj Hc) as [Hp Hle].
      split; [|lia]. eapply pcinv_frame; eauto.
  - intros j Hj. destruct (Hob j Hj) as [[-> (o & pc & inv & Hc & Hh)]|[Hne Hg]].
    + exists t', o, pc, inv. rewrite (nth_error_set_nth_eq _ _ _ _ Hi). auto.
    + destruct (Hbuf j Hg) as (tj & o & pc & inv & H1 & H2 & H3). exists tj, o, pc, inv.
      rewrite nth_error_set_nth_neq by congruence. auto.
  - destruct (gph g') as [| |j|j|j]; auto.
    + destruct Hom as [[-> (o & inv & Hc)]|[Hne Hg]].
      * exists t', o, inv. rewrite (nth_error_set_nth_eq _ _ _ _ Hi). auto.
      * rewrite Hg in Hmtx. destruct Hmtx as (tj & o & inv & H1 & H2). exists tj, o, inv. rewrite nth_error_set_nth_neq by congruence. auto.
    + destruct Hom as [[-> (o & out & inv & Hc)]|[Hne Hg]].
      * exists t', o, out, inv. rewrite (nth_error_set_nth_eq _ _ _ _ Hi). auto.
      * rewrite Hg in Hmtx. destruct Hmtx as (tj & o & out & inv & H1 & H2). exists tj, o, out, inv. rewrite nth_error_set_nth_neq by congruence. auto.
    + destruct Hom as [[-> (o & inv & Hc)]|[Hne Hg]].
      * exists t', o, inv. rewrite (nth_error_set_nth_eq _ _ _ _ Hi). auto.
      * rewrite Hg in Hmtx. destruct Hmtx as (tj & o & inv & H1 & H2). exists tj, o, inv. rewrite nth_error_set_nth_neq by congruence. auto.
Qed.

(* ---- history lemmas ---- *)
Lemma filter_snoc {A} (f : A -> bool) l x : filter f (l ++ [x]) = filter f l ++ (if f x then [x] else []).
Proof. rewrite filter_app. simpl. destruct (f x); reflexivity. Qed.

Lemma ss_snoc {A} (R : A -> A -> Prop) (h : list A) k :
  StronglySorted R h -> Forall (fun a => R a k) h -> StronglySorted R (h ++ [k]).
Proof.
  induction 1 as [|a l Hl IH Ha]; intros Hk; simpl.
  - repeat constructor.
  - inversion Hk; subst. constructor; [apply IH; assumption|].
    apply Forall_app; split; [assumption|]. constructor; [assumption|constructor].
Qed.

Lemma ss_nth {A} (R : A -> A -> Prop) (h : list A) : StronglySorted R h ->
  forall i j a b, (i < j)%nat -> nth_error h i = Some a -> nth_error h j = Some b -> R a b.
Proof.
  induction 1 as [|x l Hl IH Hx]; intros i j a b Hlt Hi Hj.
  - destruct i; discriminate.
  - destruct j as [|j']; [lia|]. destruct i as [|i']; simpl in *.
    + injection Hi as <-. rewrite Forall_forall in Hx. apply Hx. eapply nth_error_In; eauto.
    + apply (IH i' j' a b); [lia|exact Hi|exact Hj].
Qed.

Lemma wr_ok_grow hs F F' e : wr_ok hs F e -> prefixF F F' -> wr_ok hs F' e.
Proof. destruct e as [w S]. intros (out & H1 & H2 & H) HF. exists out. psplit; try tauto. eapply out_ok_grow; eauto. Qed.

Lemma wr_ok_snoc hs F time e (k : scall) :
  (forall k0, In k0 hs -> c_inv k0 <= c_res k0 <= time) -> In (fst e) hs -> c_res k = time + 1 ->
  wr_ok hs F e -> wr_ok (hs ++ [k]) F e.
Proof.
  intros Ht Hw Hk. destruct e as [w S]. simpl in Hw. intros (out & Hr & Hok & Hnd & H1 & H2).
  exists out. psplit; auto.
  - intros k0 Hk0. destruct (H1 k0 Hk0) as (Ha & Hb & Hc). psplit; auto. apply in_or_app; auto.
  - intros k0 Hin Hob Hle. apply in_app_or in Hin. destruct Hin as [Hin|[<-|[]]]; [eauto|].
    pose proof (Ht w Hw). lia.
Qed.

Definition snap_ok (hs : list scall) (time : Z) (g : ghost) : Prop :=
  exists hs1 hs2, hs = hs1 ++ hs2 /\ gS g = filter kobs hs1 /\
    (forall k, In k hs1 -> c_res k <= gT g) /\ (forall k, In k hs2 -> gT g < c_res k) /\
    gT g <= time /\ Forall (fun e => incl (snd e) (gS g)) (gW g).

Lemma snap_ok_time hs time g g' : snap_ok hs time g -> gS g' = gS g -> gT g' = gT g -> gW g' = gW g ->
  snap_ok hs (time + 1) g'.
Proof.
  intros (hs1 & hs2 & H1 & H2 & H3 & H4 & H5 & H6) HS HT HW. exists hs1, hs2. rewrite HS, HT, HW. psplit; auto. lia.
Qed.

Lemma snap_ok_snoc hs time g g' (k : scall) : snap_ok hs time g -> gS g' = gS g -> gT g' = gT g -> gW g' = gW g ->
  c_res k = time + 1 -> snap_ok (hs ++ [k]) (time + 1) g'.
Proof.
  intros (hs1 & hs2 & H1 & H2 & H3 & H4 & H5 & H6) HS HT HW Hk. exists hs1, (hs2 ++ [k]). rewrite HS, HT, HW.
  psplit; auto.
  - rewrite H1, app_assoc. reflexivity.
  - intros k0 Hin. apply in_app_or in Hin. destruct Hin as [Hin|[<-|[]]]; [auto|lia].
  - lia.
Qed.

Lemma InvH_unfold hs time st g : InvH hs time st g ->
  match gph g with PSwapped _ | PDoneW _ => snap_ok hs time g | _ => True end.
Proof. intros H. exact (ih_snap _ _ _ _ H). Qed.

(* a step that does not complete a call *)
Lemma InvH_nohist hs time st g st' g' : InvH hs time st g -> gW g' = gW g -> prefixF (gF g) (gF g') ->
  Permutation (gF g' ++ cold st' ++ hot st') (vals (filter kobs hs) ++ gpend g') ->
  match gph g' with PSwapped _ | PDoneW _ => snap_ok hs (time + 1) g' | _ => True end ->
  match gph g' with PSwapped _ => Permutation (gF g' ++ cold st') (vals (gS g')) | _ => True end ->
  InvH hs (time + 1) st' g'.
Proof.
  intros [H1 H2 H3 H4 H5 H6 H7 H8] HW HF Hacc Hsn Hsw. constructor; auto; try (rewrite HW; auto).
  - intros k Hk. specialize (H1 k Hk). lia.
  - eapply Forall_impl; [|exact H7]. intros e He. eapply wr_ok_grow; eauto.
Qed.

(* a step that completes an Observe or a flusher *)
Lemma InvH_ret_nw hs time st g (k : scall) st' g' : InvH hs time st g ->
  c_res k = time + 1 -> c_inv k <= time + 1 -> kwrite k = false ->
  gW g' = gW g -> gS g' = gS g -> gT g' = gT g -> gF g' = gF g -> (gph g' = gph g \/ gph g' = PFree) ->
  Permutation (gF g' ++ cold st' ++ hot st') (vals (filter kobs (hs ++ [k])) ++ gpend g') ->
  (gph g' = gph g -> cold st' = cold st) ->
  InvH (hs ++ [k]) (time + 1) st' g'.
Proof.
  intros [H1 H2 H3 H4 H5 H6 H7 H8] Hres Hinv Hkw HW HS HT HF Hph Hacc Hsame.
  assert (Hin : forall e, In e (gW g) -> In (fst e) hs).
  { intros e He. assert (In (fst e) (map fst (gW g))) by (apply in_map; exact He). rewrite H6 in H. apply filter_In in H. tauto. }
  constructor.
  - intros k0 Hk0. apply in_app_or in Hk0. destruct Hk0 as [Hk0|[<-|[]]]; [specialize (H1 k0 Hk0); lia|lia].
  - apply NoDup_app_snoc_c; auto. intros Hk. specialize (H1 k Hk). lia.
  - exact Hacc.
  - destruct Hph as [Hph|Hph]; rewrite Hph; [|exact I].
    destruct (gph g); auto; eapply snap_ok_snoc; eauto.
  - destruct Hph as [Hph|Hph]; rewrite Hph; [|exact I].
    rewrite (Hsame Hph), HF, HS. exact H5.
  - rewrite HW, filter_snoc, Hkw, app_nil_r. exact H6.
  - rewrite HW, HF. rewrite Forall_forall in *. intros e He. eapply wr_ok_snoc; eauto.
  - rewrite HW. exact H8.
Qed.

(* a step that completes a Write *)
Lemma InvH_ret_w hs time st g (w : scall) out g' i : InvH hs time st g ->
  gph g = PDoneW i -> gph g' = PFree -> (c_ret w : sret) = ROut out -> (c_op w : sop) = SWrite ->
  out_ok out (gS g) (gF g) -> c_inv w <= gT g -> c_res w = time + 1 ->
  gW g' = gW g ++ [(w, gS g)] -> gF g' = gF g -> gpend g' = gpend g ->
  InvH (hs ++ [w]) (time + 1) st g'.
Proof.
  intros [H1 H2 H3 H4 H5 H6 H7 H8] Hph Hph' Hret Hop Hok Hinv Hres HW HF HP.
  rewrite Hph in H4. destruct H4 as (hs1 & hs2 & E1 & E2 & E3 & E4 & E5 & E6).
  assert (Hin : forall e, In e (gW g) -> In (fst e) hs).
  { intros e He. assert (In (fst e) (map fst (gW g))) by (apply in_map; exact He). rewrite H6 in H. apply filter_In in H. tauto. }
  assert (Hkw : kwrite w = true) by (unfold kwrite; rewrite Hret; reflexivity).
  assert (Hko : kobs w = false) by (unfold kobs; rewrite Hop; reflexivity).
  constructor.
  - intros k0 Hk0. apply in_app_or in Hk0. destruct Hk0 as [Hk0|[<-|[]]]; [specialize (H1 k0 Hk0); lia|lia].
  - apply NoDup_app_snoc_c; auto. intros Hk. specialize (H1 w Hk). lia.
  - rewrite HF, HP, filter_snoc, Hko, app_nil_r. exact H3.
  - rewrite Hph'. exact I.
  - rewrite Hph'. exact I.
  - rewrite HW, map_app, filter_snoc, Hkw, H6. reflexivity.
  - rewrite HW, HF. apply Forall_app. split.
    + rewrite Forall_forall in *. intros e He. eapply wr_ok_snoc; eauto.
    + constructor; [|constructor]. exists out. psplit; auto.
      * rewrite E2. apply NoDup_filter. rewrite E1 in H2. eapply NoDup_app_l; eauto.
      * intros k Hk. rewrite E2 in Hk. apply filter_In in Hk. destruct Hk as [Hk Hob].
        psplit; auto; [apply in_or_app; left; rewrite E1; apply in_or_app; auto|]. specialize (E3 k Hk). lia.
      * intros k Hk Hob Hle. apply in_app_or in Hk. destruct Hk as [Hk|[<-|[]]]; [|congruence].
        rewrite E1 in Hk. apply in_app_or in Hk. destruct Hk as [Hk|Hk].
        -- rewrite E2. apply filter_In. auto.
        -- specialize (E4 k Hk). lia.
  - rewrite HW. apply ss_snoc; auto.
Qed.

(* ====================================================================== *)
(* 4. every step preserves the invariant                                   *)
Lemma owner_neq g T time i t o pc inv : InvT g T time -> nth_error T i = Some t -> t_cur t = Some (o, pc, inv) ->
  match gph g with
  | PSwapped j => pc = wUnlockBuf \/ j <> i
  | PDoneW j => (exists out, pc = wUnlockMtx out) \/ j <> i
  | PDoneF j => pc = fUnlock \/ j <> i
  | _ => True
  end.
Proof.
  intros HT Hi Hc. pose proof (it_mtx _ _ _ HT) as X. destruct (gph g) as [| |j|j|j]; auto.
  - destruct (Nat.eq_dec j i) as [->|]; auto. destruct X as (t' & o' & inv' & H1 & H2). left. congruence.
  - destruct (Nat.eq_dec j i) as [->|]; auto. destruct X as (t' & o' & out & inv' & H1 & H2). left. exists out. congruence.
  - destruct (Nat.eq_dec j i) as [->|]; auto. destruct X as (t' & o' & inv' & H1 & H2). left. congruence.
Qed.

Lemma buf_owner_is g T time i t o pc inv : InvT g T time -> nth_error T i = Some t -> t_cur t = Some (o, pc, inv) ->
  holds_buf pc = false -> forall j, gb g = Some j -> j <> i.
Proof.
  intros HT Hi Hc Hh j Hj ->. destruct (it_buf _ _ _ HT i Hj) as (t' & o' & pc' & inv' & H1 & H2 & H3). congruence.
Qed.

Ltac t_new := let E := fresh "E" in intros ? ? ? E; cbn in E; injection E as <- <- <-; cbn [pcinv gb gph gpend gF gS gT gW]; (split; [|lia]).
Ltac t_mtx_same HT Hi Hc :=
  cbn [gph]; let X := fresh "X" in pose proof (owner_neq _ _ _ _ _ _ _ _ HT Hi Hc) as X;
  destruct (gph _) eqn:Ep; auto; right; (split; [|reflexivity]);
  (destruct X as [X|X]; [try discriminate; try (destruct X; discriminate)|exact X]).


Lemma perm_append (a b h x : list f64) v : Permutation (a ++ b ++ h) (x ++ []) -> Permutation (a ++ b ++ h ++ [v]) (x ++ [v]).
Proof. intros H. rewrite app_nil_r in H. rewrite !app_assoc. apply Permutation_app_tail. rewrite <- app_assoc. exact H. Qed.

Lemma aligned_set_hot st h : aligned c st -> aligned c (set_hot st h).
Proof. intros (k & Hk & Ha). exists k. split; auto. Qed.

Lemma vals_obs_snoc (hs : list scall) tid idx v r a b :
  vals (filter kobs (hs ++ [mkCall (M := M) tid idx (SObserve v) r a b])) = vals (filter kobs hs) ++ [v].
Proof. rewrite filter_snoc. cbn. unfold vals. rewrite map_app. reflexivity. Qed.

Lemma filter_kobs_snoc_other (hs : list scall) k : kobs k = false -> filter kobs (hs ++ [k]) = filter kobs hs.
Proof. intros H. rewrite filter_snoc, H, app_nil_r. reflexivity. Qed.

Ltac t_ret t := let E := fresh "E" in intros o0 pc0 inv0 E; unfold next_thread in E; destruct (t_todo t) as [|o1 rest]; cbn in E; [discriminate|];
  injection E as <- <- <-; (split; [destruct o1; cbn; reflexivity|lia]).
Ltac t_aa := unfold after_append; match goal with |- context [if ?b then _ else _] => destruct b end.

Lemma Inv_step cf g tid cf' : Inv cf g -> sched_step M cf tid = Some cf' -> exists g', Inv cf' g'.
Proof.
  intros (HT & HS & HH & Htk) Hst.
  destruct (step_cases _ _ _ Hst) as (t & o & pc & inv & s' & nxt & Hi & Hc & Hs & Hsh & Hnow & Hnxt).
  set (i := Z.to_nat tid) in *.
  destruct (it_thr _ _ _ HT i t o pc inv Hi Hc) as [Hpc Hinv].
  pose proof HS as [Sbuf Smtx Sjob Spend Scold Scnt Ssum Sal].
  unfold Inv. rewrite Hsh, Hnow.
  destruct pc; cbn [sstep] in Hs; cbn [pcinv] in Hpc.
  - (* oLockBuf *)
    destruct (c_buf (sh cf)) eqn:Eb; [discriminate|].
    assert (Hgb : gb g = None) by (destruct (gb g); [discriminate|reflexivity]).
    pose proof (Spend Hgb) as Hgp.
    destruct (clk (c_ticks (sh cf) + 1) >? hot_exp (c_st (sh cf))) eqn:En; injection Hs as <- <-; destruct Hnxt as [Hh Hth]; rewrite Hh, Hth.
    + exists (mkG (Some i) (gph g) [] (gF g) (gS g) (gT g) (gW g)). psplit.
      * eapply (InvT_update g _ _ _ i t); [exact HT|exact Hi| | | | | ].
        -- t_new. auto.
        -- intros j _ Hj. congruence.
        -- intros j _ _. auto.
        -- intros j Hj. cbn in Hj. injection Hj as <-. left. split; [reflexivity|]. do 3 eexists. split; reflexivity.
        -- t_mtx_same HT Hi Hc.
      * constructor; cbn [upd c_st c_buf c_mtx c_job c_spawned gb gph gpend gF]; auto.
      * cbn [upd c_st]. eapply InvH_nohist; eauto; cbn [gph gF gpend gS gT gW].
        -- rewrite <- Hgp. exact (ih_acc _ _ _ _ HH).
        -- pose proof (ih_snap _ _ _ _ HH) as X. destruct (gph g); auto; eapply snap_ok_time; eauto.
        -- exact (ih_swapped _ _ _ _ HH).
      * cbn. lia.
    + (* append under bufMtx *)
      set (st := c_st (sh cf)) in *. set (nw := clk (c_ticks (sh cf) + 1)) in *.
      exists (mkG (Some i) (gph g) [v] (gF g) (gS g) (gT g) (gW g)). psplit.
      * eapply (InvT_update g _ _ _ i t); [exact HT|exact Hi| | | | | ].
        -- intros o0 pc0 inv0 E. cbn in E. injection E as <- <- <-. split; [|lia]. t_aa; cbn [pcinv gb gpend]; eauto.
        -- intros j _ Hj. congruence.
        -- intros j _ _. auto.
        -- intros j Hj. cbn in Hj. injection Hj as <-. left. split; [reflexivity|]. do 3 eexists. split; [reflexivity|]. t_aa; reflexivity.
        -- t_mtx_same HT Hi Hc.
      * constructor; cbn [upd c_st c_buf c_mtx c_job c_spawned gb gph gpend gF set_hot cold cnt sum]; auto; try discriminate.
      * cbn [upd c_st]. eapply InvH_nohist; eauto; cbn [gph gF gpend gS gT gW set_hot cold hot].
        -- apply perm_append. rewrite <- Hgp. exact (ih_acc _ _ _ _ HH).
        -- pose proof (ih_snap _ _ _ _ HH) as X. destruct (gph g); auto; eapply snap_ok_time; eauto.
        -- exact (ih_swapped _ _ _ _ HH).
      * cbn. lia.
  - (* oLockMtx1: mtx.Lock; swapBufs; go; append *)
    destruct Hpc as (Ho & Hgb & Hgp).
    destruct (c_mtx (sh cf)) eqn:Em; [discriminate|].
    assert (Hph : gph g = PFree) by (destruct (gph g); try discriminate; reflexivity).
    rewrite Hph in Scold.
    destruct (swap_ok c Hd now (c_st (sh cf)) Scold) as (e & jj & Hjj & He & Hsw). rewrite Hsw in Hs.
    injection Hs as <- <-. destruct Hnxt as [Hh Hth]. rewrite Hh, Hth.
    set (st := c_st (sh cf)) in *.
    exists (mkG (gb g) PJob [v] (gF g) (gS g) (gT g) (gW g)). psplit.
    + eapply (InvT_update g _ _ _ i t); [exact HT|exact Hi| | | | | ].
      * intros o0 pc0 inv0 E. cbn in E. injection E as <- <- <-. split; [|lia]. t_aa; cbn [pcinv gb gpend]; eauto.
      * intros j Hj Hg. congruence.
      * intros j _ [X|[X|X]]; congruence.
      * intros j Hj. cbn in Hj. left. split; [congruence|]. do 3 eexists. split; [reflexivity|]. t_aa; reflexivity.
      * exact I.
    + constructor; cbn [upd c_st c_buf c_mtx c_job c_spawned gb gph gpend gF set_hot cold cnt sum hot]; auto; try discriminate.
      * intros X. congruence.
      * apply aligned_set_hot. eapply aligned_swap; eauto.
    + cbn [upd c_st]. eapply InvH_nohist; eauto; cbn [gph gF gpend gS gT gW set_hot cold hot app]; auto.
      pose proof (ih_acc _ _ _ _ HH) as X. fold st in X. rewrite Scold, Hgp in X. cbn [app] in X.
      rewrite app_nil_r in X. apply Permutation_app_tail with (tl := [v]) in X. rewrite <- app_assoc in X. exact X.
    + cbn. lia.
  - (* oLockMtx2: mtx.Lock; swapBufs; go *)
    destruct Hpc as (v & Ho & Hgb & Hgp).
    destruct (c_mtx (sh cf)) eqn:Em; [discriminate|].
    assert (Hph : gph g = PFree) by (destruct (gph g); try discriminate; reflexivity).
    rewrite Hph in Scold.
    destruct (swap_ok c Hd now (c_st (sh cf)) Scold) as (e & jj & Hjj & He & Hsw). rewrite Hsw in Hs.
    injection Hs as <- <-. destruct Hnxt as [Hh Hth]. rewrite Hh, Hth.
    set (st := c_st (sh cf)) in *.
    exists (mkG (gb g) PJob (gpend g) (gF g) (gS g) (gT g) (gW g)). psplit.
    + eapply (InvT_update g _ _ _ i t); [exact HT|exact Hi| | | | | ].
      * t_new. eauto.
      * intros j Hj Hg. congruence.
      * intros j _ [X|[X|X]]; congruence.
      * intros j Hj. cbn in Hj. left. split; [congruence|]. do 3 eexists. split; reflexivity.
      * exact I.
    + constructor; cbn [upd c_st c_buf c_mtx c_job c_spawned gb gph gpend gF cold cnt sum hot]; auto; try discriminate.
      eapply aligned_swap; eauto.
    + cbn [upd c_st]. eapply InvH_nohist; eauto; cbn [gph gF gpend gS gT gW cold hot app]; auto.
      pose proof (ih_acc _ _ _ _ HH) as X. fold st in X. rewrite Scold in X. cbn [app] in X. rewrite app_nil_r. exact X.
    + cbn. lia.
  - (* oUnlockBuf: return of Observe *)
    destruct Hpc as (v & Ho & Hgb & Hgp).
    injection Hs as <- <-. destruct Hnxt as [Hh Hth]. rewrite Hh, Hth.
    exists (mkG None (gph g) [] (gF g) (gS g) (gT g) (gW g)). psplit.
    + eapply (InvT_update g _ _ _ i t); [exact HT|exact Hi| | | | | ].
      * t_ret t.
      * intros j Hj Hg. congruence.
      * intros j _ _. auto.
      * intros j Hj. discriminate.
      * t_mtx_same HT Hi Hc.
    + constructor; cbn [upd c_st c_buf c_mtx c_job c_spawned gb gph gpend gF]; auto.
    + cbn [upd c_st]. eapply InvH_ret_nw; eauto; cbn [gph gF gpend gS gT gW c_res c_inv]; auto; try lia.
      subst o. rewrite vals_obs_snoc, app_nil_r. pose proof (ih_acc _ _ _ _ HH) as X. rewrite Hgp in X. exact X.
    + cbn. lia.
  - (* wLockBuf *)
    destruct (c_buf (sh cf)) eqn:Eb; [discriminate|].
    assert (Hgb : gb g = None) by (destruct (gb g); [discriminate|reflexivity]).
    pose proof (Spend Hgb) as Hgp.
    injection Hs as <- <-. destruct Hnxt as [Hh Hth]. rewrite Hh, Hth.
    exists (mkG (Some i) (gph g) [] (gF g) (gS g) (gT g) (gW g)). psplit.
    + eapply (InvT_update g _ _ _ i t); [exact HT|exact Hi| | | | | ].
      * t_new. auto.
      * intros j _ Hj. congruence.
      * intros j _ _. auto.
      * intros j Hj. cbn in Hj. injection Hj as <-. left. split; [reflexivity|]. do 3 eexists. split; reflexivity.
      * t_mtx_same HT Hi Hc.
    + constructor; cbn [upd c_st c_buf c_mtx c_job c_spawned gb gph gpend gF]; auto.
    + cbn [upd c_st]. eapply InvH_nohist; eauto; cbn [gph gF gpend gS gT gW].
      * rewrite <- Hgp. exact (ih_acc _ _ _ _ HH).
      * pose proof (ih_snap _ _ _ _ HH) as X. destruct (gph g); auto; eapply snap_ok_time; eauto.
      * exact (ih_swapped _ _ _ _ HH).
    + cbn. lia.
  - (* wLockMtx: mtx.Lock; swapBufs *)
    destruct Hpc as (Ho & Hgb & Hgp).
    destruct (c_mtx (sh cf)) eqn:Em; [discriminate|].
    assert (Hph : gph g = PFree) by (destruct (gph g); try discriminate; reflexivity).
    rewrite Hph in Scold.
    destruct (swap_ok c Hd (clk (c_ticks (sh cf) + 1)) (c_st (sh cf)) Scold) as (e & jj & Hjj & He & Hsw). rewrite Hsw in Hs.
    injection Hs as <- <-. destruct Hnxt as [Hh Hth]. rewrite Hh, Hth.
    set (st := c_st (sh cf)) in *.
    exists (mkG (gb g) (PSwapped i) (gpend g) (gF g) (filter kobs (hist cf)) (now cf + 1) (gW g)). psplit.
    + eapply (InvT_update g _ _ _ i t); [exact HT|exact Hi| | | | | ].
      * t_new. psplit; auto. lia.
      * intros j Hj Hg. congruence.
      * intros j _ [X|[X|X]]; congruence.
      * intros j Hj. cbn in Hj. left. split; [congruence|]. do 3 eexists. split; reflexivity.
      * cbn [gph]. left. split; [reflexivity|]. do 2 eexists. reflexivity.
    + constructor; cbn [upd c_st c_buf c_mtx c_job c_spawned gb gph gpend gF cold cnt sum hot]; auto; try discriminate.
      * destruct (c_job (sh cf)); [destruct Sjob; congruence|discriminate].
      * eapply aligned_swap; eauto.
    + cbn [upd c_st]. pose proof (ih_acc _ _ _ _ HH) as X. fold st in X. rewrite Scold, Hgp in X. cbn [app] in X. rewrite app_nil_r in X.
      eapply InvH_nohist; eauto; cbn [gph gF gpend gS gT gW cold hot app]; auto.
      * rewrite Hgp, !app_nil_r. exact X.
      * exists (hist cf), []. cbn [gS gT gW]. rewrite app_nil_r. psplit; auto.
        -- intros k Hk. pose proof (ih_time _ _ _ _ HH k Hk). lia.
        -- intros k [].
        -- lia.
        -- pose proof (ih_wrok _ _ _ _ HH) as Y. rewrite Forall_forall in *. intros [w S] Hwe k Hk. cbn [snd] in Hk.
           destruct (Y _ Hwe) as (out & _ & _ & _ & Y1 & _). apply filter_In. destruct (Y1 k Hk) as (? & ? & ?). auto.
    + cbn. lia.
  - (* wUnlockBuf: bufMtx.Unlock; flushColdBuf; read *)
    destruct Hpc as (Ho & Hgb & Hgp & Hph & Hgt).
    destruct (flush_ok c Hd (c_st (sh cf)) Sal) as (st2 & Hfl & F1 & F2 & F3 & F4 & F5 & F6). rewrite Hfl in Hs.
    injection Hs as <- <-. destruct Hnxt as [Hh Hth]. rewrite Hh, Hth.
    set (st := c_st (sh cf)) in *.
    exists (mkG None (PDoneW i) [] (gF g ++ cold st) (gS g) (gT g) (gW g)). psplit.
    + eapply (InvT_update g _ _ _ i t); [exact HT|exact Hi| | | | | ].
      * t_new. psplit; auto. exists (gF g ++ cold st). cbn [w_count w_sum]. psplit.
        -- pose proof (ih_swapped _ _ _ _ HH) as X. rewrite Hph in X. exact X.
        -- rewrite F5, Scnt, app_length. lia.
        -- rewrite F6, Ssum, fold_left_app. reflexivity.
        -- apply prefixF_refl.
      * intros j Hj Hg. congruence.
      * intros j Hj [X|[X|X]]; congruence.
      * intros j Hj. discriminate.
      * cbn [gph]. left. split; [reflexivity|]. do 3 eexists. reflexivity.
    + constructor; cbn [upd c_st c_buf c_mtx c_job c_spawned gb gph gpend gF]; auto; try discriminate.
      * rewrite Smtx, Hph. reflexivity.
      * destruct (c_job (sh cf)); [destruct Sjob; congruence|discriminate].
      * rewrite F5, Scnt, app_length. lia.
      * rewrite F6, Ssum, fold_left_app. reflexivity.
      * exists 0. split; [lia|]. rewrite F3, F4. ring.
    + cbn [upd c_st]. eapply InvH_nohist; eauto; cbn [gph gF gpend gS gT gW]; auto.
      * rewrite F1, F2. cbn [app]. rewrite <- app_assoc. pose proof (ih_acc _ _ _ _ HH) as X. rewrite Hgp in X. exact X.
      * pose proof (ih_snap _ _ _ _ HH) as X. rewrite Hph in X. eapply snap_ok_time; eauto.
    + cbn. lia.
  - (* wUnlockMtx: return of Write *)
    destruct Hpc as (Ho & Hph & Hgt & Hok).
    injection Hs as <- <-. destruct Hnxt as [Hh Hth]. rewrite Hh, Hth.
    exists (mkG (gb g) PFree (gpend g) (gF g) (gS g) (gT g) (gW g ++ [(mkCall tid (t_idx t) o (ROut out) inv (now cf + 1), gS g)])). psplit.
    + eapply (InvT_update g _ _ _ i t); [exact HT|exact Hi| | | | | ].
      * t_ret t.
      * intros j Hj Hg. auto.
      * intros j Hj [X|[X|X]]; congruence.
      * intros j Hj. cbn in Hj. right. split; [|exact Hj]. eapply buf_owner_is; eauto.
      * exact I.
    + constructor; cbn [upd c_st c_buf c_mtx c_job c_spawned gb gph gpend gF]; auto; try discriminate.
      * destruct (c_job (sh cf)); [destruct Sjob; congruence|discriminate].
      * rewrite Hph in Scold. exact Scold.
    + cbn [upd c_st]. eapply InvH_ret_w; eauto; cbn [gph gF gpend gS gT gW c_res c_inv c_ret c_op]; auto; try lia.
    + cbn. lia.
  - (* fStart: the flusher goroutine runs flushColdBuf *)
    destruct (c_job (sh cf)) as [j'|] eqn:Ej; [|discriminate].
    destruct (Nat.eqb j j') eqn:Ejj; [|discriminate].
    destruct Sjob as [Hph Hsp].
    destruct (flush_ok c Hd (c_st (sh cf)) Sal) as (st2 & Hfl & F1 & F2 & F3 & F4 & F5 & F6). rewrite Hfl in Hs.
    injection Hs as <- <-. destruct Hnxt as [Hh Hth]. rewrite Hh, Hth.
    set (st := c_st (sh cf)) in *.
    exists (mkG (gb g) (PDoneF i) (gpend g) (gF g ++ cold st) (gS g) (gT g) (gW g)). psplit.
    + eapply (InvT_update g _ _ _ i t); [exact HT|exact Hi| | | | | ].
      * t_new. split; eauto.
      * intros j0 Hj Hg. auto.
      * intros j0 Hj [X|[X|X]]; congruence.
      * intros j0 Hj. cbn in Hj. right. split; [|exact Hj]. eapply buf_owner_is; eauto.
      * cbn [gph]. left. split; [reflexivity|]. do 2 eexists. reflexivity.
    + constructor; cbn [upd c_st c_buf c_mtx c_job c_spawned gb gph gpend gF]; auto; try discriminate.
      * rewrite Smtx, Hph. reflexivity.
      * rewrite F5, Scnt, app_length. lia.
      * rewrite F6, Ssum, fold_left_app. reflexivity.
      * exists 0. split; [lia|]. rewrite F3, F4. ring.
    + cbn [upd c_st]. eapply InvH_nohist; eauto; cbn [gph gF gpend gS gT gW]; auto.
      rewrite F1, F2. cbn [app]. rewrite <- app_assoc. exact (ih_acc _ _ _ _ HH).
    + cbn. lia.
  - (* fUnlock: the flusher releases mtx and ends *)
    destruct Hpc as ((j & Ho) & Hph).
    injection Hs as <- <-. destruct Hnxt as [Hh Hth]. rewrite Hh, Hth.
    exists (mkG (gb g) PFree (gpend g) (gF g) (gS g) (gT g) (gW g)). psplit.
    + eapply (InvT_update g _ _ _ i t); [exact HT|exact Hi| | | | | ].
      * t_ret t.
      * intros j0 Hj Hg. auto.
      * intros j0 Hj [X|[X|X]]; congruence.
      * intros j0 Hj. cbn in Hj. right. split; [|exact Hj]. eapply buf_owner_is; eauto.
      * exact I.
    + constructor; cbn [upd c_st c_buf c_mtx c_job c_spawned gb gph gpend gF]; auto; try discriminate.
      * destruct (c_job (sh cf)); [destruct Sjob; congruence|discriminate].
      * rewrite Hph in Scold. exact Scold.
    + cbn [upd c_st]. eapply InvH_ret_nw; eauto; cbn [gph gF gpend gS gT gW c_res c_inv]; auto; try lia.
      rewrite filter_kobs_snoc_other by (subst o; reflexivity). exact (ih_acc _ _ _ _ HH).
    + cbn. lia.
  - (* crashed *)
    destruct Hpc.
Qed.

(* ====================================================================== *)
(* 5. the initial configuration; reachability                              *)
Variable t0 : Z.
Definition g0 : ghost := mkG None PFree [] [] [] 0 [].

Lemma init_shape (progs : list (list sop)) :
  let cf := init_config M (cinit c t0) progs in
  hist cf = [] /\ now cf = 0 /\ sh cf = cinit c t0 /\
  thr cf = map (fun p => next_thread p 0 0) progs.
Proof.
  unfold init_config. cbn [hist now sh thr]. psplit; auto.
  - assert (H : forall (ids : list Z),
       concat (map snd (map (fun p => advance M (fst p) (snd p) 0 0) (combine ids progs))) = []).
    { induction progs as [|p r IH]; intros ids; destruct ids; cbn; auto. rewrite advance_eq. cbn. apply IH. }
    apply H.
  - assert (H : forall (ids : list Z), length ids = length progs ->
       map fst (map (fun p => advance M (fst p) (snd p) 0 0) (combine ids progs)) = map (fun p => next_thread p 0 0) progs).
    { induction progs as [|p r IH]; intros ids Hl; destruct ids; cbn in *; try discriminate; auto.
      rewrite advance_eq. cbn. f_equal. apply IH. lia. }
    apply H. rewrite map_length, seq_length. reflexivity.
Qed.

Lemma Inv_init progs : Inv (init_config M (cinit c t0) progs) g0.
Proof.
  destruct (init_shape progs) as (Hh & Hn & Hs & Ht). unfold Inv. rewrite Hh, Hn, Hs, Ht. psplit.
  - constructor; cbn; auto; try discriminate.
    intros i t o pc inv Hi Hc. apply nth_error_In in Hi. apply in_map_iff in Hi. destruct Hi as (p & <- & _).
    destruct p as [|o1 rest]; cbn in Hc; [discriminate|]. injection Hc as <- <- <-. split; [destruct o1; cbn; reflexivity|lia].
  - constructor; cbn; auto; try discriminate. exists 0. unfold init_state; cbn. split; [lia|]. ring.
  - constructor; cbn; auto; try constructor; try tauto.
  - reflexivity.
Qed.

Lemma Inv_reachable progs sched : exists g, Inv (run_sched M (init_config M (cinit c t0) progs) sched) g.
Proof.
  apply (run_sched_ind M (fun cf => exists g, Inv cf g)).
  - intros cf tid cf' [g Hg] Hs. eapply Inv_step; eauto.
  - exists g0. apply Inv_init.
Qed.

(* ====================================================================== *)
(* 6. theorems                                                             *)
(* S explains the completed Write w of the history hs *)
Definition snapshot_of (hs : list scall) (F : list f64) (w : scall) (S : list scall) : Prop :=
  exists out, (c_ret w : sret) = ROut out /\
    (exists P, Permutation P (vals S) /\ w_count out = Z.of_nat (length P) /\ w_sum out = fold_left fadd P pzero /\
               exists r, F = P ++ r) /\
    NoDup S /\
    (forall k, In k S -> In k hs /\ kobs k = true /\ c_res k < c_res w) /\
    (forall k, In k hs -> kobs k = true -> c_res k <= c_inv w -> In k S).

Section Thm.
Variables (progs : list (list sop)) (sched : list Z).
Let cf := run_sched M (init_config M (cinit c t0) progs) sched.

Lemma writes_explained_lemma :
  exists (F : list f64) (snap : list (scall * list scall)),
    cnt (c_st (sh cf)) = Z.of_nat (length F) /\ sum (c_st (sh cf)) = fold_left fadd F pzero /\
    map fst snap = filter kwrite (hist cf) /\
    Forall (fun e => snapshot_of (hist cf) F (fst e) (snd e)) snap /\
    (forall i j e1 e2, (i < j)%nat -> nth_error snap i = Some e1 -> nth_error snap j = Some e2 -> incl (snd e1) (snd e2)).
Proof.
  destruct (Inv_reachable progs sched) as [g (HT & HS & HH & _)]. fold cf in HT, HS, HH.
  exists (gF g), (gW g). psplit.
  - exact (is_cnt _ _ HS).
  - exact (is_sum _ _ HS).
  - exact (ih_wr _ _ _ _ HH).
  - eapply Forall_impl; [|exact (ih_wrok _ _ _ _ HH)]. intros [w S] H. exact H.
  - intros i j e1 e2 Hlt H1 H2. exact (ss_nth _ _ (ih_mono _ _ _ _ HH) i j e1 e2 Hlt H1 H2).
Qed.

Lemma snapshot_count hs F w S out : snapshot_of hs F w S -> (c_ret w : sret) = ROut out -> w_count out = Z.of_nat (length S).
Proof.
  intros (out' & Hr & (P & HP & Hc & _) & _) Hr'. rewrite Hr in Hr'. injection Hr' as ->.
  rewrite Hc, (Permutation_length HP). unfold vals. rewrite map_length. reflexivity.
Qed.

Lemma write_counts_monotone_lemma :
  exists snap : list (scall * list scall),
    map fst snap = filter kwrite (hist cf) /\
    forall i j w1 S1 w2 S2 o1 o2, (i < j)%nat -> nth_error snap i = Some (w1, S1) -> nth_error snap j = Some (w2, S2) ->
      (c_ret w1 : sret) = ROut o1 -> (c_ret w2 : sret) = ROut o2 -> w_count o1 <= w_count o2.
Proof.
  destruct writes_explained_lemma as (F & snap & _ & _ & Hm & Hok & Hch). exists snap. split; [exact Hm|].
  intros i j w1 S1 w2 S2 o1 o2 Hlt H1 H2 Hr1 Hr2. rewrite Forall_forall in Hok.
  pose proof (Hok _ (nth_error_In _ _ H1)) as K1. pose proof (Hok _ (nth_error_In _ _ H2)) as K2. cbn [fst snd] in K1, K2.
  rewrite (snapshot_count _ _ _ _ _ K1 Hr1), (snapshot_count _ _ _ _ _ K2 Hr2).
  pose proof (Hch _ _ _ _ Hlt H1 H2) as Hincl. cbn [snd] in Hincl.
  destruct K1 as (? & _ & _ & Hnd & _). apply inj_le. apply NoDup_incl_length; auto.
Qed.

End Thm.

(* ---- quiescence ---- *)
Definition idle_thread (t : thread M) : bool :=
  match t_cur t with None => true | Some (_, fStart _, _) => true | _ => false end.
Definition quiescent (cf : config M) : bool :=
  forallb idle_thread (thr cf) && match c_job (sh cf) with None => true | Some _ => false end.

Lemma quiescent_facts cf g : Inv cf g -> quiescent cf = true -> gb g = None /\ gph g = PFree.
Proof.
  intros (HT & HS & _) Hq. apply andb_true_iff in Hq. destruct Hq as [Hq Hj]. rewrite forallb_forall in Hq.
  assert (Hidle : forall i t o pc inv, nth_error (thr cf) i = Some t -> t_cur t = Some (o, pc, inv) -> exists j, pc = fStart j).
  { intros i t o pc inv Hi Hc. specialize (Hq t (nth_error_In _ _ Hi)). unfold idle_thread in Hq. rewrite Hc in Hq.
    destruct pc; try discriminate. eauto. }
  split.
  - destruct (gb g) as [i|] eqn:E; [|reflexivity].
    destruct (it_buf _ _ _ HT i E) as (t & o & pc & inv & H1 & H2 & H3). destruct (Hidle _ _ _ _ _ H1 H2) as [j ->]. discriminate.
  - pose proof (it_mtx _ _ _ HT) as X. pose proof (is_job _ _ HS) as Y. destruct (gph g) as [| |i|i|i]; auto.
    + destruct (c_job (sh cf)); [discriminate|congruence].
    + destruct X as (t & o & inv & H1 & H2). destruct (Hidle _ _ _ _ _ H1 H2) as [j ?]. discriminate.
    + destruct X as (t & o & out & inv & H1 & H2). destruct (Hidle _ _ _ _ _ H1 H2) as [j ?]. discriminate.
    + destruct X as (t & o & inv & H1 & H2). destruct (Hidle _ _ _ _ _ H1 H2) as [j ?]. discriminate.
Qed.

Section Thm2.
Variables (progs : list (list sop)) (sched : list Z).
Let cf := run_sched M (init_config M (cinit c t0) progs) sched.

Lemma quiescent_total_lemma : quiescent cf = true ->
  let st := c_st (sh cf) in
  c_buf (sh cf) = false /\ c_mtx (sh cf) = false /\ cold st = [] /\
  exists F, cnt st = Z.of_nat (length F) /\ sum st = fold_left fadd F pzero /\
            Permutation (F ++ hot st) (vals (filter kobs (hist cf))).
Proof.
  intros Hq. destruct (Inv_reachable progs sched) as [g Hg]. fold cf in Hg.
  destruct (quiescent_facts cf g Hg Hq) as [Hb Hp]. destruct Hg as (HT & HS & HH & _).
  pose proof HS as [Sbuf Smtx Sjob Spend Scold Scnt Ssum Sal]. rewrite Hb in Sbuf. rewrite Hp in Smtx, Scold.
  cbn zeta. psplit; auto. exists (gF g). psplit; auto.
  pose proof (ih_acc _ _ _ _ HH) as X. rewrite Scold, (Spend Hb), app_nil_r in X. exact X.
Qed.
End Thm2.

(* ---- no deadlock: user programs plus the flusher pool ---- *)
Definition zsum (l : list Z) : Z := fold_right Z.add 0 l.
Lemma zsum_set_nth {A} (f : A -> Z) (l : list A) : forall n t x,
  nth_error l n = Some t -> zsum (map f (Conc.set_nth l n x)) = zsum (map f l) - f t + f x.
Proof. induction l; intros [|n] t x H; simpl in *; try discriminate. - injection H as ->. lia. - rewrite (IHl _ _ _ H). lia. Qed.

Definition is_sobs (o : sop) : bool := match o with SObserve _ => true | _ => false end.
Definition nobs (l : list sop) : Z := Z.of_nat (length (filter is_sobs l)).
(* `go` statements an Observe in progress may still execute *)
Definition budget (pc : spc) : Z := match pc with oLockBuf _ | oLockMtx1 _ _ => 2 | oLockMtx2 _ => 1 | _ => 0 end.
Definition pot (t : thread M) : Z :=
  2 * nobs (t_todo t) + match t_cur t with Some (_, pc, _) => budget pc | None => 0 end.
Definition Phi (cf : config M) : Z := Z.of_nat (c_spawned (sh cf)) + zsum (map pot (thr cf)).

Lemma pot_next todo idx time : pot (next_thread todo idx time) = 2 * nobs todo.
Proof.
  destruct todo as [|o rest]; unfold pot, nobs, next_thread; [reflexivity|].
  destruct o; cbn [t_todo t_cur start_pc budget filter is_sobs length]; rewrite ?Nat2Z.inj_succ; lia.
Qed.

Lemma pot_nonneg t : 0 <= pot t.
Proof. assert (0 <= nobs (t_todo t)) by (unfold nobs; lia). unfold pot. destruct (t_cur t) as [[[o pc] inv]|]; [destruct pc; cbn [budget]; lia|lia]. Qed.

Lemma zsum_nonneg {A} (f : A -> Z) l : (forall x, 0 <= f x) -> 0 <= zsum (map f l).
Proof. intros H. induction l; simpl; [lia|]. specialize (H a). lia. Qed.

Lemma Phi_step cf tid cf' : sched_step M cf tid = Some cf' -> Phi cf' <= Phi cf.
Proof.
  intros Hst. destruct (step_cases _ _ _ Hst) as (t & o & pc & inv & s' & nxt & Hi & Hc & Hs & Hsh & Hnow & Hnxt).
  unfold Phi. rewrite Hsh.
  assert (Hp : pot t = 2 * nobs (t_todo t) + budget pc) by (unfold pot; rewrite Hc; reflexivity).
  destruct pc; cbn [sstep] in Hs;
  repeat match type of Hs with
  | (if ?b then _ else _) = _ => destruct b
  | match ?x with _ => _ end = _ => destruct x
  end; try discriminate; injection Hs as <- <-;
  (destruct Hnxt as [_ ->]; rewrite (zsum_set_nth pot _ _ _ _ Hi), Hp; try rewrite pot_next;
   unfold pot, after_append; cbn [t_todo t_cur upd c_spawned budget];
   repeat match goal with |- context [if ?b then _ else _] => destruct b end; cbn [budget]; lia).
Qed.

Lemma step_job s pc s' nxt : sstep c objs clk s pc = Some (s', nxt) ->
  (c_spawned s <= c_spawned s')%nat /\
  (c_job s' = c_job s \/ c_job s' = None \/ (c_job s' = Some (c_spawned s) /\ c_spawned s' = S (c_spawned s))).
Proof.
  intros Hs. destruct pc; cbn [sstep] in Hs;
  repeat match type of Hs with
  | (if ?b then _ else _) = _ => destruct b
  | match ?x with _ => _ end = _ => destruct x
  end; try discriminate; injection Hs as <- <-; cbn [upd c_job c_spawned]; split; auto; lia.
Qed.

(* the flusher pool: thread nu + j runs [SFlusher j]; once it has started, job j is consumed *)
Definition FShape (nu k : nat) (cf : config M) : Prop :=
  forall j, (j < k)%nat -> exists t, nth_error (thr cf) (nu + j) = Some t /\ t_todo t = [] /\
    match t_cur t with
    | Some (o, pc, _) => o = SFlusher j /\ (pc = fStart j \/ (pc = fUnlock /\ c_job (sh cf) <> Some j /\ (j < c_spawned (sh cf))%nat))
    | None => c_job (sh cf) <> Some j /\ (j < c_spawned (sh cf))%nat
    end.

Lemma FShape_step nu k cf g tid cf' : Inv cf g -> FShape nu k cf -> sched_step M cf tid = Some cf' -> FShape nu k cf'.
Proof.
  intros (_ & HS & _) HF Hst j Hj.
  destruct (step_cases _ _ _ Hst) as (t & o & pc & inv & s' & nxt & Hi & Hc & Hs & Hsh & Hnow & Hnxt).
  destruct (HF j Hj) as (tj & Hnj & Htodo & Hcur).
  destruct (step_job _ _ _ _ Hs) as [Hsp Hjob]. rewrite Hsh.
  assert (Hkeep : c_job (sh cf) <> Some j /\ (j < c_spawned (sh cf))%nat -> c_job s' <> Some j /\ (j < c_spawned s')%nat).
  { intros [H1 H2]. split; [|lia]. destruct Hjob as [->|[->|[-> _]]]; auto; try discriminate. intros X. injection X as X. lia. }
  destruct (Nat.eq_dec (Z.to_nat tid) (nu + j)) as [E|E].
  - (* the flusher itself steps *)
    rewrite E in *. rewrite Hnj in Hi. injection Hi as ->. rewrite Hc in Hcur. destruct Hcur as [-> Hpc].
    destruct Hpc as [->|(-> & Hdone)].
    + cbn [sstep] in Hs. pose proof (is_job _ _ HS) as Y.
      destruct (c_job (sh cf)) as [j'|] eqn:Ej; [|discriminate]. destruct (Nat.eqb j j') eqn:Ejj; [|discriminate].
      apply Nat.eqb_eq in Ejj. subst j'. destruct Y as [_ Ysp].
      destruct (flush_ok c Hd (c_st (sh cf)) (is_al _ _ HS)) as (st2 & Hfl & _). rewrite Hfl in Hs. injection Hs as <- <-.
      destruct Hnxt as [_ ->].
      eexists. rewrite (nth_error_set_nth_eq _ _ _ _ Hnj). split; [reflexivity|]. cbn [t_todo t_cur]. split; [exact Htodo|].
      split; [reflexivity|]. right. cbn [upd c_job c_spawned]. psplit; auto; [discriminate|lia].
    + cbn [sstep] in Hs. injection Hs as <- <-. destruct Hnxt as [_ ->]. rewrite Htodo.
      eexists. rewrite (nth_error_set_nth_eq _ _ _ _ Hnj). split; [reflexivity|]. cbn [next_thread t_todo t_cur upd c_job c_spawned]. auto.
  - (* somebody else steps *)
    exists tj. assert (Hth : nth_error (thr cf') (nu + j) = Some tj).
    { destruct nxt; destruct Hnxt as [_ ->]; rewrite nth_error_set_nth_neq by exact E; exact Hnj. }
    split; [exact Hth|]. split; [exact Htodo|].
    destruct (t_cur tj) as [[[oj pcj] invj]|]; [|auto].
    destruct Hcur as [-> [->|(-> & Hdone)]]; [split; auto|]. split; [reflexivity|]. right. split; [reflexivity|]. apply Hkeep. exact Hdone.
Qed.

Lemma nobs_app a b : nobs (a ++ b) = nobs a + nobs b.
Proof. unfold nobs. rewrite filter_app, app_length. lia. Qed.

Section NoDeadlock.
Variable U : list (list uop).
Let nu := length U.
Let k := (2 * count_obs U)%nat.

Lemma nobs_inj (p : list uop) : nobs (map inj p) = Z.of_nat (length (filter (fun o => match o with UObserve _ => true | UWrite => false end) p)).
Proof. unfold nobs. induction p as [|o r IH]; cbn; [reflexivity|]. destruct o; cbn; lia. Qed.

Lemma Phi_init : Phi (init_config M (cinit c t0) (all_progs U)) = Z.of_nat k.
Proof.
  destruct (init_shape (all_progs U)) as (_ & _ & Hs & Ht). unfold Phi. rewrite Hs, Ht. cbn [cinit c_spawned].
  rewrite map_map. unfold all_progs. rewrite map_app.
  assert (H1 : forall l : list (list uop), zsum (map (fun p => pot (next_thread p 0 0)) (map (map inj) l)) = 2 * Z.of_nat (count_obs l)).
  { unfold count_obs. induction l as [|p r IH]; cbn [map zsum fold_right concat]; [reflexivity|].
    fold (zsum (map (fun p0 => pot (next_thread p0 0 0)) (map (map inj) r))). rewrite IH, pot_next, nobs_inj, filter_app, app_length. lia. }
  assert (H2 : forall n s, zsum (map (fun p => pot (next_thread p 0 0)) (map (fun j => [SFlusher j]) (seq s n))) = 0).
  { induction n; intros s; cbn [seq map zsum fold_right]; [reflexivity|]. fold (zsum (map (fun p => pot (next_thread p 0 0)) (map (fun j => [SFlusher j]) (seq (S s) n)))). rewrite IHn. reflexivity. }
  assert (H3 : forall a b, zsum (a ++ b) = zsum a + zsum b) by (induction a; intros; simpl; [reflexivity|rewrite IHa; lia]).
  rewrite H3, H1. unfold flushers. rewrite H2. unfold k. lia.
Qed.

Lemma FShape_init : FShape nu k (init_config M (cinit c t0) (all_progs U)).
Proof.
  destruct (init_shape (all_progs U)) as (_ & _ & Hs & Ht). intros j Hj. rewrite Ht.
  exists (next_thread [SFlusher j] 0 0). split.
  - unfold all_progs. rewrite map_app, nth_error_app2 by (rewrite !map_length; fold nu; lia).
    rewrite !map_length. fold nu. replace (nu + j - nu)%nat with j by lia.
    unfold flushers. rewrite map_map. rewrite (map_nth_error _ j (seq 0 (2 * count_obs U))) with (d := j); [reflexivity|].
    rewrite nth_error_nth' with (d := O) by (rewrite seq_length; exact Hj). rewrite seq_nth by exact Hj. reflexivity.
  - cbn. auto.
Qed.

Lemma reach_all sched : let cf := crun c objs clk t0 U sched in
  (exists g, Inv cf g) /\ FShape nu k cf /\ Phi cf <= Z.of_nat k.
Proof.
  unfold crun. fold M.
  apply (run_sched_ind M (fun cf => (exists g, Inv cf g) /\ FShape nu k cf /\ Phi cf <= Z.of_nat k)).
  - intros cf tid cf' ([g Hg] & HF & HP) Hs. psplit.
    + eapply Inv_step; eauto.
    + eapply FShape_step; eauto.
    + pose proof (Phi_step _ _ _ Hs). lia.
  - psplit; [exists g0; apply Inv_init|apply FShape_init|rewrite Phi_init; lia].
Qed.

Lemma sched_step_enabled (cf : config M) i t o pc inv :
  nth_error (thr cf) i = Some t -> t_cur t = Some (o, pc, inv) -> sstep c objs clk (sh cf) pc <> None ->
  sched_step M cf (Z.of_nat i) <> None.
Proof.
  intros Hi Hc Hs. unfold sched_step. rewrite Nat2Z.id, Hi, Hc.
  change (step M (sh cf) pc) with (sstep c objs clk (sh cf) pc).
  destruct (sstep c objs clk (sh cf) pc) as [[s' [l'|r]]|]; [discriminate| |congruence].
  rewrite advance_eq. discriminate.
Qed.

Lemma no_deadlock_lemma sched : let cf := crun c objs clk t0 U sched in
  quiescent cf = false -> exists tid, sched_step M cf tid <> None.
Proof.
  intros cf Hq. destruct (reach_all sched) as ([g Hg] & HF & HP). fold cf in Hg, HF, HP.
  pose proof Hg as (HT & HS & HH & _).
  pose proof HS as [Sbuf Smtx Sjob Spend Scold Scnt Ssum Sal].
  pose proof (it_mtx _ _ _ HT) as Hm. unfold M in *.
  destruct (gph g) as [| |i|i|i] eqn:Ep.
  - (* mtx free *)
    destruct (gb g) as [i|] eqn:Eb.
    + destruct (it_buf _ _ _ HT i Eb) as (t & o & pc & inv & H1 & H2 & H3).
      exists (Z.of_nat i). eapply sched_step_enabled; eauto.
      destruct pc; try discriminate; cbn [sstep]; unfold M in *; rewrite ?Smtx;
      repeat match goal with |- context [match ?x with _ => _ end] => destruct x end; discriminate.
    + (* both free: some thread is not idle; it is at the start of a call *)
      assert (Hjn : c_job (sh cf) = None).
      { revert Sjob. destruct (c_job (sh cf)); intros Y; [destruct Y; congruence|reflexivity]. }
      unfold quiescent in Hq. unfold M in Hq. rewrite Hjn, andb_true_r in Hq.
      assert (exists t, In t (thr cf) /\ idle_thread t = false).
      { clear -Hq. induction (thr cf) as [|t r IH]; cbn in Hq; [discriminate|].
        destruct (idle_thread t) eqn:E; [destruct (IH Hq) as (t' & ? & ?); exists t'; cbn; auto|exists t; cbn; auto]. }
      destruct H as (t & Hin & Hidle). apply In_nth_error in Hin. destruct Hin as [i Hi].
      unfold idle_thread in Hidle. unfold M in Hidle. destruct (t_cur t) as [[[o pc] inv]|] eqn:Hc; [|discriminate].
      destruct (it_thr _ _ _ HT i t o pc inv Hi Hc) as [Hpc _].
      exists (Z.of_nat i). eapply sched_step_enabled; eauto.
      destruct pc; cbn [pcinv] in Hpc; try discriminate; cbn [sstep]; unfold M in *; rewrite ?Sbuf, ?Eb;
      try (repeat match goal with |- context [match ?x with _ => _ end] => destruct x end; discriminate);
      try (decompose [and ex] Hpc; congruence).
  - (* a spawned flusher has not started: it is in the pool and enabled *)
    destruct (c_job (sh cf)) as [j|] eqn:Ej; [|congruence]. destruct Sjob as [_ Hsp].
    assert (Hjk : (j < k)%nat).
    { unfold Phi in HP. pose proof (zsum_nonneg pot (thr cf) pot_nonneg). unfold M in *. rewrite Hsp in HP. lia. }
    destruct (HF j Hjk) as (t & Hn & _ & Hcur).
    destruct (t_cur t) as [[[o pc] inv]|] eqn:Hc.
    + destruct Hcur as [-> [->|(_ & Hne & _)]]; [|unfold M in *; congruence].
      exists (Z.of_nat (nu + j)). eapply sched_step_enabled; eauto. cbn [sstep]. unfold M in *. rewrite Ej, Nat.eqb_refl.
      destruct (flush_cold _ _ _); discriminate.
    + destruct Hcur. unfold M in *. congruence.
  - destruct Hm as (t & o & inv & H1 & H2). exists (Z.of_nat i). eapply sched_step_enabled; eauto. cbn [sstep].
    destruct (flush_cold _ _ _); discriminate.
  - destruct Hm as (t & o & out & inv & H1 & H2). exists (Z.of_nat i). eapply sched_step_enabled; eauto. cbn [sstep]. discriminate.
  - destruct Hm as (t & o & inv & H1 & H2). exists (Z.of_nat i). eapply sched_step_enabled; eauto. cbn [sstep]. discriminate.
Qed.

End NoDeadlock.
End Conc.

(* ====================================================================== *)
(* 7. a concrete interleaving: thread 0 observes 1 and 2 (BufCap 1: every Observe spawns a flusher), thread 1
   collects in between; the collection reports exactly the first observation *)
Definition exc : cfg := mkCfg 10 2 1.
Definition exU : list (list uop) := [[UObserve (of_Z 1); UObserve (of_Z 2)]; [UWrite]].
Definition exs : list Z := concat (repeat [0; 1; 2; 3; 4; 5] 8).
Definition excf := crun exc [] (fun _ => 0) 0 exU exs.

Lemma conc_example_lemma :
  map (fun k : call (summ_obj_machine exc [] (fun _ => 0)) =>
         (c_tid k, c_idx k, match (c_ret k : sret) with ROut w => Some (w_count w, to_bits (w_sum w)) | RUnit => None end,
          c_inv k, c_res k)) (hist excf)
  = [(0, 0, None, 0, 4); (2, 0, None, 0, 6); (1, 0, Some (1, to_bits (of_Z 1)), 0, 10); (0, 1, None, 4, 13); (3, 0, None, 0, 14)]
  /\ map fst (trace excf) = [0; 0; 2; 0; 1; 2; 1; 1; 0; 1; 0; 3; 0; 3]
  /\ quiescent exc [] (fun _ => 0) excf = true /\ cnt (c_st (sh excf)) = 2.
Proof. vm_compute. auto. Qed.
