(* Proofs/C05_cont.v -- C05, concurrency: CONTAINMENT over all schedules (lmachine: counters carry the observed values).
   Every value stored under key k of a bucket map of a set keyed at schema s satisfies fit s k: it is not NaN, not +-0,
   has the map's sign and key_of s v = k -- hence (C04's key law, in_bucket_key) lies in bucket k's exact range
   (C05_run.in_key).  The rule is the checker's: a value inside a later, wider zero threshold may sit in its regular bucket.
   0 getLe yields a non-negative threshold; 1 fit / contm / cont, per-pc facts PcC and the claimed schema esch of the
   mutex holder's pc; 2 steps that leave schema, threshold and maps alone (czsame/cprev, frames); 3 the holder's steps
   (pcstep for the ordinary ones, specstep for schema/threshold stores and the merges: halving maps key k to halve k by
   C04's key_halving, widening moves buckets at or below the merged key to the zero bucket, the others keep their key);
   3b the reset code (resetstep: resetCounts stores the configured schema GS and threshold into a set nobody is in flight
   on - no claim for that set until its maps are empty again; the holder's repeated observation fits like an observer's);
   4 observers (contO); 5 the invariant InvC over configurations, its preservation, theorems (resets included). *)
From Coq Require Import ZArith List Bool Lia Permutation Reals.
From Flocq Require Import Core.Core IEEE754.BinarySingleNaN.
From Verif Require Import Base.F64 Base.Conc Model.ClassicHist Model.NativeHist Model.NativeConc
     Proofs.F64_order Proofs.C02_proofs Proofs.C04_keys Proofs.C04_proofs Proofs.C04_law Proofs.C04_spec
     Proofs.C05_conc_inv Proofs.C05_hom Proofs.C05_conc.
From Verif Require Run.C05_run.
Import ListNotations.
Open Scope Z_scope.

(* ---- the zero threshold never becomes negative: getLe yields a non-negative float ---- *)
Lemma ldexp_signbit (x : f64) e : is_nan x = false -> is_nan (ldexp x e) = false /\ signbit (ldexp x e) = signbit x.
Proof.
  intros Hn. unfold ldexp.
  pose proof (@is_nan_Bldexp 53 1024 Hprec_gt0_64 Hprec_emax64 mode_NE x e) as N.
  assert (N' : is_nan (@Bldexp 53 1024 Hprec_gt0_64 Hprec_emax64 mode_NE x e) = false) by (unfold is_nan; rewrite N; exact Hn).
  split; [exact N'|].
  pose proof (@Bldexp_correct 53 1024 Hprec_gt0_64 Hprec_emax64 mode_NE x e) as H.
  destruct (Rlt_bool _ _) in H.
  - destruct H as (_ & _ & S). unfold signbit.
    destruct (@Bldexp 53 1024 Hprec_gt0_64 Hprec_emax64 mode_NE x e) eqn:E; destruct x; try discriminate; cbn in *; congruence.
  - unfold binary_overflow in H. cbn [overflow_to_inf] in H.
    destruct (@Bldexp 53 1024 Hprec_gt0_64 Hprec_emax64 mode_NE x e) eqn:E; cbn in H; try discriminate.
    inversion H. unfold signbit. destruct x; try discriminate; reflexivity.
Qed.
Lemma ldexp_nonneg (x : f64) e : flt pzero x = true -> fle pzero (ldexp x e) = true.
Proof.
  intros H. destruct (flt_nonnan _ _ H) as [_ Nx]. destruct (ldexp_signbit x e Nx) as [N S].
  apply signbit_false_nonneg; [exact N|]. rewrite S. apply pos_signbit. exact H.
Qed.
Lemma nth_f_in (l : list f64) i : 0 <= i < Z.of_nat (length l) -> In (nth_f l i) l.
Proof. intros H. unfold nth_f. apply nth_In. lia. Qed.
Lemma get_le_nonneg k s : -4 <= s <= 8 -> fle pzero (get_le k s) = true.
Proof.
  intros Hs. unfold get_le. destruct (Z.ltb_spec s 0).
  - destruct (Z.eqb _ 1024); [vm_compute; reflexivity|]. apply ldexp_nonneg. vm_compute. reflexivity.
  - assert (Hs' : 0 <= s <= 8) by lia. destruct (bounds_len_lemma s Hs') as [L _].
    pose proof (bounds_range_lemma s Hs') as R. rewrite forallb_forall in R.
    assert (Hin : In (nth_f (bounds_row s) (k mod 2 ^ s)) (bounds_row s)).
    { apply nth_f_in. rewrite L. apply Z.mod_pos_bound. apply Z.pow_pos_nonneg; lia. }
    specialize (R _ Hin). apply andb_prop in R. destruct R as [R _]. apply andb_prop in R. destruct R as [R1 _].
    destruct (_ && _); [vm_compute; reflexivity|]. apply ldexp_nonneg.
    apply (flt_fle_trans pzero half); [vm_compute; reflexivity|exact R1].
Qed.

(* ====================================================================== *)
(* containment: every value stored under key k of a set with schema s has key_of s v = k *)
(* ====================================================================== *)
Definition fit (s k : Z) (neg : bool) (v : f64) : Prop :=
  is_nan v = false /\ feq v pzero = false /\ signbit v = neg /\ key_of s v = k.
Definition contm (s : Z) (neg : bool) (m : vmap) : Prop := forall k c v, In (k, c) m -> In v c -> fit s k neg v.
Definition cont (s : Z) (st : nsetL) : Prop := contm s false (ns_pos VC st) /\ contm s true (ns_neg VC st).
Definition clm (e : option Z) (st : nsetL) : Prop := match e with Some s => cont s st | None => True end.

Lemma fit_in_key s k neg v : -4 <= s <= 8 -> fit s k neg v -> C05_run.in_key s k neg v = true.
Proof.
  intros Hs (Nn & Nz & Sg & Ek). unfold C05_run.in_key. rewrite Nn, Nz, Sg, Bool.eqb_reflx. cbn [negb andb].
  rewrite (in_bucket_key s k v Hs Nn Nz). apply Z.eqb_eq. exact Ek.
Qed.
Lemma fit_halve s k neg v : -3 <= s <= 8 -> fit s k neg v -> fit (s - 1) (halve k) neg v.
Proof. intros Hs (Nn & Nz & Sg & Ek). repeat split; auto. rewrite (key_halving_lemma s v Hs Nn Nz), Ek. reflexivity. Qed.

Lemma in_del (m : vmap) k p : In p (cm_del VC m k) -> In p m.
Proof. induction m as [|[k0 c0] r IH]; cbn; [tauto|]. destruct (Z.eqb k k0); cbn; [auto|]. intros [E|E]; auto. Qed.
Lemma in_ins (m : vmap) k c p : In p (cm_ins VC m k c) -> p = (k, c) \/ In p m.
Proof.
  induction m as [|[k0 c0] r IH]; cbn; [intros [E|[]]; auto|]. destruct (Z.eqb k k0); [auto|]. destruct (Z.ltb k k0); cbn.
  - intros [E|E]; auto.
  - intros [E|E]; [auto|]. destruct (IH E); auto.
Qed.
Lemma in_upd (m : vmap) k g k' c' : In (k', c') (cm_upd VC m k g) -> In (k', c') m \/ (k' = k /\ exists c0, In (k, c0) m /\ c' = g c0).
Proof.
  induction m as [|[k0 c0] r IH]; cbn; [tauto|]. destruct (Z.eqb_spec k k0); cbn.
  - subst. intros [E|E]; [inversion E; subst; right; split; [reflexivity|exists c0; auto]|auto].
  - intros [E|E]; [auto|]. destruct (IH E) as [A|(A & c1 & B & C)]; [auto|]. right. split; [exact A|exists c1; auto].
Qed.
Lemma find_in (m : vmap) k c : cm_find VC m k = Some c -> In (k, c) m.
Proof.
  induction m as [|[k0 c0] r IH]; cbn; [discriminate|]. destruct (Z.eqb_spec k k0); [intros E; inversion E; subst; auto|auto].
Qed.
Lemma in_allc (m : vmap) k c v : In (k, c) m -> In v c -> In v (allc m).
Proof. intros H1 H2. unfold allc. apply in_concat. exists c. split; [|exact H2]. apply in_map_iff. exists (k, c). auto. Qed.

Lemma contm_nil s neg (m : vmap) : allc m = [] -> contm s neg m.
Proof. intros E k c v H1 H2. pose proof (in_allc m k c v H1 H2) as H. rewrite E in H. destruct H. Qed.
Lemma contm_del s neg m k : contm s neg m -> contm s neg (cm_del VC m k).
Proof. intros H k' c v H1 H2. apply (H k' c v); [apply (in_del _ _ _ H1)|exact H2]. Qed.
Lemma contm_ins s neg m k c : contm s neg m -> (forall v, In v c -> fit s k neg v) -> contm s neg (cm_ins VC m k c).
Proof. intros H F k' c' v H1 H2. destruct (in_ins _ _ _ _ H1) as [E|E]; [inversion E; subst; auto|apply (H k' c' v); assumption]. Qed.
Lemma contm_app s neg m k n : contm s neg m -> (forall v, In v n -> fit s k neg v) -> contm s neg (cm_upd VC m k (fun x => x ++ n)).
Proof.
  intros H F k' c' v H1 H2. destruct (in_upd _ _ _ _ _ H1) as [E|(-> & c0 & E1 & ->)]; [apply (H k' c' v); assumption|].
  apply in_app_or in H2. destruct H2 as [H2|H2]; [apply (H k c0 v); assumption|auto].
Qed.
Lemma contm_zero s neg m k : contm s neg m -> contm s neg (cm_upd VC m k (fun _ => [])).
Proof. intros H k' c' v H1 H2. destruct (in_upd _ _ _ _ _ H1) as [E|(-> & c0 & E1 & ->)]; [apply (H k' c' v); assumption|destruct H2]. Qed.

(* ---- schema relations, per context ---- *)
Definition SEq (h : nshL) : Prop := ns_sch VC (gs h false) = ns_sch VC (gs h true).
Definition KRel (k : mctx) (h : nshL) (c : bool) : Prop :=
  match k with KD cs => ns_sch VC (gs h (negb c)) = cs /\ ns_sch VC (gs h c) = cs + 1 | _ => SEq h end.
Definition KZt (k : mctx) : Prop := match k with KZ _ nzt => fle pzero nzt = true | _ => True end.
Definition LRel (k : mctx) (h : nshL) : Prop :=
  match k with KD cs => ns_sch VC (gs h false) = cs /\ ns_sch VC (gs h true) = cs /\ cs + 1 <= 8 | _ => SEq h end.
Definition csch (k : mctx) (h : nshL) (c : bool) : Z := match k with KD cs => cs + 1 | _ => ns_sch VC (gs h c) end.
Definition nfit (k : mctx) (h : nshL) (c neg : bool) (kk : Z) (n : list f64) : Prop := forall v, In v n -> fit (csch k h c) kk neg v.
Definition out_fit (o : noutL) : Prop := contm (no_sch VC o) false (no_pos VC o) /\ contm (no_sch VC o) true (no_neg VC o) /\ -4 <= no_sch VC o <= 8.
Definition ret_fit (r : nretL) : Prop := match r with NOut _ o => out_fit o | _ => True end.

Ltac destr_in Hs :=
  repeat match type of Hs with
         | context [if ?c then _ else _] => let E := fresh "Eif" in destruct c eqn:E
         | context [match ?x with _ => _ end] =>
             lazymatch type of x with
             | list _ => destruct x
             | option _ => let E := fresh "Eopt" in destruct x eqn:E
             | mctx => destruct x
             | ephase => destruct x
             end
         end.
Ltac destr_goal :=
  repeat match goal with
         | |- context [match ?x with _ => _ end] =>
             lazymatch type of x with
             | list _ => let E := fresh "Els" in destruct x eqn:E
             | mctx => destruct x
             | ephase => destruct x
             | bool => destruct x
             end
         end.
Lemma lstep_cfg h pc h' nxt : lstep h pc = Some (h', nxt) -> nh_cfg VC h' = nh_cfg VC h.
Proof.
  intros Hs. destruct pc; stepin Hs;
    repeat match type of Hs with
           | context [if ?c then _ else _] => destruct c
           | context [match ?x with _ => _ end] =>
               lazymatch type of x with list _ => destruct x | option _ => destruct x | mctx => destruct x | ephase => destruct x end
           end; try discriminate Hs; inversion Hs; subst; clear Hs; unfold upd_side; rewrite ?r_done_cfg; try reflexivity;
    repeat match goal with h0 : nshL |- _ => destruct h0 end; try reflexivity; repeat match goal with b : bool |- _ => destruct b end; reflexivity.
Qed.

Section WithG.
Variable GS : Z.   (* the configured schema, to which a reset returns *)
Hypothesis HG : -4 <= GS <= 8.
(* the schema at which the buckets of set X are keyed, given the pc of the mutex holder (None: no claim) *)
Definition esch (pc : npcL) (h : nshL) (X : bool) : option Z :=
  match pc with
  | mRange _ (KD cs) c _ _ | mLoad _ (KD cs) c _ _ _ _ | mAddZb _ (KD cs) c _ _ _ _ _ | mDel _ (KD cs) c _ _ _ _
  | mDec _ (KD cs) c _ _ _ _ | bLoad _ (KD cs) c _ _ _ _ _ | bLos _ (KD cs) c _ _ _ _ _ | bAdd _ (KD cs) c _ _ _ _ _
  | bBn _ (KD cs) c _ _ _ _ | mStore _ (KD cs) c _ _ _ _ =>
      if Bool.eqb X c then Some (cs + 1) else Some (ns_sch VC (gs h X))
  | dStoreBn2 _ c | eRange _ EPost c _ | eDel _ EPost c _ _
  | rStore _ _ _ c _ | rRange _ _ _ c _ | rDel _ _ _ c _ _ => if Bool.eqb X c then None else Some (ns_sch VC (gs h X))
  | _ => Some (ns_sch VC (gs h X))
  end.

Definition PcC (h : nshL) (pc : npcL) : Prop :=
  match pc with
  | oLoadZt _ v b s => s = ns_sch VC (gs h b)
  | oBkLoad _ v b neg k | oBkLos _ v b neg k | oBkAdd _ v b neg k => fit (ns_sch VC (gs h b)) k neg v
  | lLoadIdx _ _ | wFlip _ | rLoadIdx _ | lLoadBn2 _ _ _ | zLoadZt _ _ | zRangeP _ _ | zRangeN _ _ _ | zLoadSch _ _ _ | dLoadSch _ _
  | wLoadSum _ _ _ | wLoadZt _ _ _ _ | wLoadSch _ _ _ _ _ | dStoreBn2 _ _ | eRange _ EPost _ _ | eDel _ EPost _ _ _ => SEq h
  | zStoreZt _ _ _ nzt | zDelN _ _ _ nzt | zDecN _ _ _ nzt | zDelP _ _ _ nzt | zDecP _ _ _ nzt | zStoreZt2 _ _ _ nzt =>
      SEq h /\ fle pzero nzt = true
  | dStoreSch _ hb cs => SEq h /\ cs = ns_sch VC (gs h (negb hb)) - 1 /\ -4 <= cs
  | dStoreBn _ hb cs => ns_sch VC (gs h (negb hb)) = cs /\ ns_sch VC (gs h hb) = cs + 1
  | eRange _ (EPre cs) c _ | eDel _ (EPre cs) c _ _ => ns_sch VC (gs h c) = cs /\ ns_sch VC (gs h (negb c)) = cs + 1
  | xFlip _ k c | xCool _ k c _ | xSpin _ k c _ => KRel k h c /\ KZt k
  | wLoadZb _ c _ _ _ sch => SEq h /\ sch = ns_sch VC (gs h c)
  | wRange _ c _ o | wKeyLoad _ c _ o _ _ | wCellLoad _ c _ o _ _ => SEq h /\ no_sch VC o = ns_sch VC (gs h c) /\ out_fit o
  | aLoadCnt _ k c r | aAddCnt _ k c r _ | aStoreCnt _ k c r | aLoadSum _ k c r | aSumLoad _ k c r _ | aSumCas _ k c r _ _
  | aStoreSum _ k c r | aLoadZb _ k c r | aAddZb _ k c r _ | aStoreZb _ k c r => KRel k h c /\ KZt k /\ ret_fit r
  | dStoreSch2 _ c cs => ns_sch VC (gs h (negb c)) = cs /\ ns_sch VC (gs h c) = cs + 1
  | mRange _ k c _ r | mLoad _ k c _ r _ _ | mDel _ k c _ r _ _ | mDec _ k c _ r _ _ | bBn _ k c _ r _ _ | mStore _ k c _ r _ _ =>
      LRel k h /\ ret_fit r
  | mAddZb _ k c neg r kk _ n | bLoad _ k c neg r kk _ n | bLos _ k c neg r kk _ n | bAdd _ k c neg r kk _ n =>
      LRel k h /\ ret_fit r /\ nfit k h c neg kk n
  | xUnlock _ r => SEq h /\ ret_fit r
  | rStore _ _ ph x fd => (ph = R2 -> ns_sch VC (gs h (negb x)) = GS) /\ (fd = FBn -> ns_sch VC (gs h x) = GS)
  | rRange _ _ ph x _ | rDel _ _ ph x _ _ => (ph = R2 -> ns_sch VC (gs h (negb x)) = GS) /\ ns_sch VC (gs h x) = GS
  | hSumLoad _ _ x | hSumCas _ _ x _ | hLoadSch _ _ x | hBnAdd _ _ x | hZero _ _ x | hCount _ _ x | rSwap _ _ x => ns_sch VC (gs h x) = GS
  | hLoadZt _ _ x s => ns_sch VC (gs h x) = GS /\ s = GS
  | hBkLoad _ v x neg k | hBkLos _ v x neg k | hBkAdd _ v x neg k => ns_sch VC (gs h x) = GS /\ fit GS k neg v
  | rCool _ _ c _ | rSpin _ _ c _ => ns_sch VC (gs h (negb c)) = GS
  | _ => True
  end.
Definition Rng (h : nshL) : Prop := forall X, -4 <= ns_sch VC (gs h X) <= 8.
Definition Ztp (h : nshL) : Prop := forall X, fle pzero (ns_zt VC (gs h X)) = true.

Ltac csimp := hsimp; cbn [PcC esch clm Bool.eqb negb m_next m_added e_next w_next after_cool after_addreset tkey
                          no_sch no_pos no_neg out_add] in *; unfold SEq, KRel, KZt, LRel, csch, nfit in *; hsimp.

Lemma nfit_of_claim s neg (m : vmap) kk n : contm s neg m -> cm_find VC m kk = Some n -> forall v, In v n -> fit s kk neg v.
Proof. intros C E v Hv. apply (C kk n v); [apply find_in; exact E|exact Hv]. Qed.
Lemma fit_halve' cs kk neg v : -4 <= cs -> cs + 1 <= 8 -> fit (cs + 1) kk neg v -> fit cs (halve kk) neg v.
Proof. intros A B F. replace cs with (cs + 1 - 1) by lia. apply fit_halve; [lia|exact F]. Qed.
Lemma contm_snoc s neg (m : vmap) k c : contm s neg m -> (forall v, In v c -> fit s k neg v) -> contm s neg (m ++ [(k, c)]).
Proof. intros H F k' c' v H1 H2. apply in_app_or in H1. destruct H1 as [H1|[E|[]]]; [apply (H k' c' v); assumption|inversion E; subst; auto]. Qed.


(* ---- steps that leave schema, threshold and bucket maps of both sets unchanged ---- *)
Definition czsame (h h' : nshL) : Prop :=
  forall X, ns_sch VC (gs h' X) = ns_sch VC (gs h X) /\ ns_zt VC (gs h' X) = ns_zt VC (gs h X) /\
            ns_pos VC (gs h' X) = ns_pos VC (gs h X) /\ ns_neg VC (gs h' X) = ns_neg VC (gs h X).
Definition modifies (pc : npcL) : bool :=
  match pc with
  | zStoreZt _ _ _ _ | zDelN _ _ _ _ | zDelP _ _ _ _ | dStoreSch _ _ _ | eDel _ _ _ _ _ | dStoreSch2 _ _ _ | zStoreZt2 _ _ _ _
  | mDel _ _ _ _ _ _ _ | bLos _ _ _ _ _ _ _ _ | bAdd _ _ _ _ _ _ _ _ | mStore _ _ _ _ _ _ _
  | oBkLos _ _ _ _ _ | oBkAdd _ _ _ _ _ => true
  | _ => is_reset pc
  end.
Lemma czsame_step h pc h' nxt : modifies pc = false -> lstep h pc = Some (h', nxt) -> czsame h h'.
Proof.
  intros Hm Hs. destruct pc; try discriminate Hm; stepin Hs; destr_in Hs; try discriminate Hs; inversion Hs; subst; clear Hs;
    unfold czsame, upd_side; repeat match goal with h0 : nshL |- _ => destruct h0 end;
    intros [|]; repeat match goal with b : bool |- _ => destruct b end; hsimp; repeat split; reflexivity.
Qed.

(* the relation under which every containment fact is preserved: schemas and thresholds unchanged, and no bucket
   gains a value (maps unchanged, or keys deleted / buckets zeroed) *)
Definition cprev (h h' : nshL) : Prop :=
  forall X, ns_sch VC (gs h' X) = ns_sch VC (gs h X) /\ ns_zt VC (gs h' X) = ns_zt VC (gs h X) /\
            forall s neg, contm s neg (side VC (gs h X) neg) -> contm s neg (side VC (gs h' X) neg).
Definition cprevs (h h' : nshL) : Prop :=
  forall X, ns_sch VC (gs h' X) = ns_sch VC (gs h X) /\
            forall s neg, contm s neg (side VC (gs h X) neg) -> contm s neg (side VC (gs h' X) neg).
Lemma cprev_s h h' : cprev h h' -> cprevs h h'.
Proof. intros S X. destruct (S X) as (A & _ & C). split; assumption. Qed.
Lemma czsame_cprev h h' : czsame h h' -> cprev h h'.
Proof. intros S X. destruct (S X) as (A & B & C & D). split; [exact A|split; [exact B|]]. intros s [|]; cbn [side]; rewrite ?C, ?D; auto. Qed.
Lemma frame_rng h h' : cprevs h h' -> Rng h -> Rng h'.
Proof. intros S R X. destruct (S X) as (E & _). rewrite E. apply R. Qed.
Lemma frame_zt h h' : cprev h h' -> Ztp h -> Ztp h'.
Proof. intros S R X. destruct (S X) as (_ & E & _). rewrite E. apply R. Qed.
Lemma frame_cont h h' s X : cprevs h h' -> cont s (gs h X) -> cont s (gs h' X).
Proof. intros S [A B]. destruct (S X) as (_ & E). split; [apply (E s false A)|apply (E s true B)]. Qed.
Lemma frame_esch h h' pc X : cprevs h h' -> esch pc h' X = esch pc h X.
Proof. intros S. destruct (S X) as (E & _). destruct pc; cbn [esch]; rewrite ?E; try reflexivity; destruct k; rewrite ?E; reflexivity. Qed.
Lemma frame_clm h h' pc X : cprevs h h' -> clm (esch pc h X) (gs h X) -> clm (esch pc h' X) (gs h' X).
Proof. intros S C. rewrite (frame_esch h h' pc X S). destruct (esch pc h X); [apply (frame_cont h h' _ X S C)|exact I]. Qed.
Lemma frame_pcc h h' pc : cprevs h h' -> PcC h pc -> PcC h' pc.
Proof.
  intros S. pose proof (S false) as (E0 & _). pose proof (S true) as (E1 & _).
  assert (E : forall X, ns_sch VC (gs h' X) = ns_sch VC (gs h X)) by (intros [|]; assumption).
  destruct pc; cbn [PcC]; unfold SEq, KRel, LRel, nfit, csch; rewrite ?E; auto;
    try (destruct k; rewrite ?E; auto); try (destruct ph; rewrite ?E; auto);
    unfold SEq, KRel, LRel, nfit, csch; rewrite ?E; auto.
Qed.

(* the holder's steps that need their own argument *)
Definition special (pc : npcL) : bool :=
  match pc with
  | zStoreZt _ _ _ _ | dStoreSch _ _ _ | eDel _ EPost _ _ _ | dStoreSch2 _ _ _ | zStoreZt2 _ _ _ _
  | bLos _ _ _ _ _ _ _ _ | bAdd _ _ _ _ _ _ _ _ | oBkLos _ _ _ _ _ | oBkAdd _ _ _ _ _ => true
  | _ => is_reset pc
  end.
Lemma cprev_step h pc h' nxt : special pc = false -> lstep h pc = Some (h', nxt) -> cprev h h'.
Proof.
  intros Hm Hs. destruct (modifies pc) eqn:Em; [|apply czsame_cprev; apply (czsame_step h pc h' nxt Em Hs)].
  destruct pc; try discriminate Hm; try discriminate Em; stepin Hs; destr_in Hs; try discriminate Hs; inversion Hs; subst; clear Hs;
    unfold cprev, upd_side; repeat match goal with h0 : nshL |- _ => destruct h0 end;
    intros [|]; repeat match goal with b : bool |- _ => destruct b end; hsimp;
    (split; [reflexivity|split; [reflexivity|]]); intros s [|]; hsimp; auto using contm_del, contm_zero.
Qed.



Lemma cont_side s st neg : cont s st -> contm s neg (side VC st neg).
Proof. intros [A B]. destruct neg; assumption. Qed.
Lemma contm_empty s neg : contm s neg []. Proof. intros k c v []. Qed.

Ltac esch_cases := repeat match goal with
  | |- context [if Bool.eqb ?a ?b then _ else _] => destruct (Bool.eqb_spec a b)
  | H : context [if Bool.eqb ?a ?b then _ else _] |- _ => destruct (Bool.eqb_spec a b)
  end.

Ltac wcl := match goal with HPc : _ /\ _ /\ _ /\ _ /\ _, HC : forall X : bool, cont _ _, Eo : cm_find _ (side _ (nget _ _ ?c) _) _ = _ |- _ =>
  let A := fresh "A" in let B := fresh "B" in let C1 := fresh "C1" in let C2 := fresh "C2" in let Hc := fresh "Hc" in let RG := fresh "RG" in
  destruct HPc as (A & B & C1 & C2 & RG); pose proof (HC c) as Hc; try (match goal with |- context [out_add _ _ ?n _ _] => is_var n; destruct n end);
  cbn [out_add no_sch no_pos no_neg];
  (split; [exact A|split; [first [exact I|exact B]|split; [|split; [|exact RG]]]]); try assumption;
  (apply contm_snoc; [assumption|]; rewrite B; first [intros ? []|exact (nfit_of_claim _ _ _ _ _ (cont_side _ _ _ Hc) Eo)]) end.

Ltac mld := match goal with HPc : _ /\ _, HC : forall X : bool, _, Eo : cm_find _ (side _ (nget _ _ ?c) _) _ = _ |- _ =>
  let A := fresh "A" in let B := fresh "B" in let Hc := fresh "Hc" in
  destruct HPc as [A B]; (split; [exact A|split; [exact B|]]); pose proof (HC c) as Hc; cbn [esch] in Hc; rewrite ?Bool.eqb_reflx in Hc; cbn [clm] in Hc;
  exact (nfit_of_claim _ _ _ _ _ (cont_side _ _ _ Hc) Eo) end.

Lemma pcstep h f sb pc h' nxt : (forall X, f X = 0 -> sb X = []) -> Phi h f sb pc -> holds pc = true -> special pc = false ->
  lstep h pc = Some (h', nxt) -> Rng h -> PcC h pc -> (forall X, clm (esch pc h X) (gs h X)) ->
  match nxt with
  | inl pc' => PcC h pc' /\ (forall X, clm (esch pc' h X) (gs h X))
  | inr r => ret_fit r /\ SEq h /\ forall X, cont (ns_sch VC (gs h X)) (gs h X)
  end.
Proof.
  intros fsb HP Hh Hm Hs HR HPc HC.
  destruct pc; try discriminate Hh; try discriminate Hm; stepin Hs; destr_in Hs; try discriminate Hs; inversion Hs; subst h' nxt; clear Hs;
    unfold m_next, m_added, e_next, w_next, after_cool, after_addreset in *; cbn [PcC] in HPc.
  all: destr_goal.
  all: try (cbn [special] in Hm; discriminate Hm).
  all: try (split; [|intros X; specialize (HC X); cbn [esch] in *; esch_cases; cbn [clm] in *; try exact I; try assumption]).
  all: cbn [PcC ret_fit] in *; unfold SEq, KRel, KZt, LRel, nfit, csch, out_fit in *; cbn [no_sch no_pos no_neg out_add negb] in *; rewrite ?Bool.negb_involutive in *.
  all: try solve [intuition (try lia; try congruence; eauto using get_le_nonneg, contm_empty)].
  all: unfold m_next in *; destr_goal; cbn [PcC ret_fit esch clm] in *; esch_cases; cbn [clm] in *;
       unfold SEq, KRel, KZt, LRel, nfit, csch, out_fit in *; try exact I;
       try solve [intuition (try lia; try congruence; eauto using get_le_nonneg, contm_empty)].
  - split; [exact HPc|split; [reflexivity|]]. apply Z.eqb_neq in Eif. pose proof (HR (negb hb)) as R. unfold gs in *. lia.
  - subst X. destruct HP as (_ & HN). cbn [side] in Els. apply keys_nil_map in Els. change (nget VC h c) with (gs h c) in Els.
    unfold cont. rewrite Els, (HN eq_refl). split; apply contm_empty.
  - destruct HPc as [A B]. split; [exact A|split; [exact B|split; [apply contm_empty|split; [apply contm_empty|rewrite B; apply HR]]]].
  - wcl. - wcl. - wcl. - wcl. - wcl. - wcl.
  - mld. - mld. - mld. - mld.
Qed.



Ltac spsimp := hsimp; cbn [PcC esch clm Bool.eqb negb m_next m_added tkey ret_fit] in *;
  unfold SEq, KRel, KZt, LRel, csch, nfit, cont in *; hsimp.

Lemma specstep h f sb pc h' nxt : (forall X, f X = 0 -> sb X = []) -> Phi h f sb pc -> holds pc = true -> special pc = true -> is_reset pc = false ->
  lstep h pc = Some (h', nxt) -> Rng h -> Ztp h -> PcC h pc -> (forall X, clm (esch pc h X) (gs h X)) ->
  Rng h' /\ Ztp h' /\
  match nxt with
  | inl pc' => PcC h' pc' /\ (forall X, clm (esch pc' h' X) (gs h' X))
  | inr r => ret_fit r /\ SEq h' /\ forall X, cont (ns_sch VC (gs h' X)) (gs h' X)
  end.
Proof.
  intros fsb HP Hh Es Er Hs HR HZ HPc HC.
  pose proof (HR false) as R0; pose proof (HR true) as R1; pose proof (HZ false) as Z0; pose proof (HZ true) as Z1;
  pose proof (HC false) as C0; pose proof (HC true) as C1; clear HR HZ HC.
  destruct pc; try discriminate Hh; try discriminate Es; try discriminate Er; try (destruct ph; try discriminate Es).
  - (* zStoreZt *) stepin Hs. inversion Hs; subst; clear Hs. unfold Rng, Ztp. destruct h as [g H tk s0 s1 m rs]. destruct hb; spsimp;
      (split; [intros [|]; spsimp; assumption|split; [intros [|]; spsimp; tauto|split; [tauto|intros [|]; spsimp; assumption]]]).
  - (* dStoreSch *) stepin Hs. inversion Hs; subst; clear Hs. cbn [Phi] in HP. destruct HP as [EH ((_ & _ & E3 & E4) & _)].
    unfold Rng, Ztp. destruct h as [g H tk s0 s1 m rs]. hsimp. subst H. destruct hb; spsimp; destruct HPc as (A & B & C);
      (split; [intros [|]; spsimp; lia|split; [intros [|]; spsimp; assumption|split; [lia|intros [|]; spsimp; try assumption; split; apply contm_nil; assumption]]]).
  - (* eDel EPost *) cbn [Phi] in HP. destruct HP as (PD & HN & EK). destruct PD as (EH & _).
    assert (Hm : forall (m : vmap) k, cm_keys VC m = [k] -> cm_del VC m k = []).
    { intros m0 k0 E. destruct m0 as [|[k1 x1] [|p r]]; try discriminate E. cbn in E. inversion E. subst. apply keys_del_head. }
    destruct h as [g H tk s0 s1 m rs]; hsimp; subst H.
    stepin Hs. destruct ks as [|k ks']; inversion Hs; subst h' nxt; clear Hs; unfold Rng, Ztp, upd_side, e_next;
      destruct c, neg; spsimp;
      try (destruct ks' as [|k2 ks2]); spsimp;
      (split; [intros [|]; spsimp; assumption|split; [intros [|]; spsimp; assumption|]]);
      try (specialize (HN eq_refl)); try (apply keys_nil_map in EK);
      (split; [first [assumption|split; [assumption|exact I]]|
               intros [|]; spsimp; try exact I; try assumption; try tauto;
               try (rewrite (Hm _ _ EK)); rewrite ?EK, ?HN; split; apply contm_empty]).
  - (* zStoreZt2 *) stepin Hs. inversion Hs; subst; clear Hs. unfold Rng, Ztp. destruct h as [g H tk s0 s1 m rs]. destruct c; spsimp;
      (split; [intros [|]; spsimp; assumption|split; [intros [|]; spsimp; tauto|split; [tauto|intros [|]; spsimp; assumption]]]).
  - (* dStoreSch2 *) stepin Hs. inversion Hs; subst; clear Hs. unfold Rng, Ztp. destruct h as [g H tk s0 s1 m rs]. destruct c; spsimp; destruct HPc as [A B];
      (split; [intros [|]; spsimp; lia|split; [intros [|]; spsimp; assumption|split; [split; [lia|exact I]|
         intros [|]; spsimp; rewrite <- ?B, ?A in *; assumption]]]).
  - (* bLos *) stepin Hs. change (nget VC h (negb c)) with (gs h (negb c)) in Hs.
    destruct (cm_has VC (side VC (gs h (negb c)) neg) (tkey k kk)); inversion Hs; subst h' nxt; clear Hs.
    + split; [intros [|]; assumption|split; [intros [|]; assumption|split; [exact HPc|intros [|]; assumption]]].
    + unfold Rng, Ztp, upd_side. destruct h as [g H tk s0 s1 m rs]. destruct k as [|sk nzt|cs], c, neg; spsimp; destruct HPc as (L & G & NF);
      (split; [intros [|]; spsimp; assumption|split; [intros [|]; spsimp; assumption|split; [tauto|
         intros [|]; spsimp; try tauto; (split; try tauto; apply contm_ins; [tauto|]; intros v Hv;
           first [ exact (NF v Hv) | rewrite L; exact (NF v Hv) | rewrite <- L; exact (NF v Hv)
                 | destruct L as (A & B & C); rewrite ?A, ?B; apply fit_halve'; [lia|lia|exact (NF v Hv)] ])]]]).
  - (* bAdd *) stepin Hs. inversion Hs; subst h' nxt; clear Hs. unfold Rng, Ztp, upd_side, m_added, m_next.
    destruct h as [g H tk s0 s1 m rs]. destruct k as [|sk nzt|cs], c, neg; try (destruct ks as [|k2 ks2]); spsimp; destruct HPc as (L & G & NF);
      (split; [intros [|]; spsimp; assumption|split; [intros [|]; spsimp; assumption|split; [first [tauto|destruct L as (A & B & C); congruence]|
         intros [|]; spsimp; try exact I; try tauto; (split; try tauto; apply contm_app; [tauto|]; intros v Hv;
           first [ exact (NF v Hv) | rewrite L; exact (NF v Hv) | rewrite <- L; exact (NF v Hv)
                 | destruct L as (A & B & C); rewrite ?A, ?B; apply fit_halve'; [lia|lia|exact (NF v Hv)] ])]]]).
Qed.

(* how histogramCounts.observe classifies: the bucket key it computes fits the value *)
Lemma fit_pos s z v : fle pzero z = true -> is_nan v = false -> fgt v z = true -> fit s (key_of s v) false v.
Proof.
  intros Hz Nn Hg. assert (G : goes_pos z v = true) by (unfold goes_pos; rewrite Nn, Hg; reflexivity).
  destruct (goes_pos_nonzero z v Hz G) as [_ Nz]. repeat split; auto.
  apply pos_signbit. unfold fgt in Hg. apply (fle_flt_trans pzero z v Hz Hg).
Qed.
Lemma fit_neg s z v : fle pzero z = true -> is_nan v = false -> fgt v z = false -> flt v (fneg z) = true -> fit s (key_of s v) true v.
Proof.
  intros Hz Nn Hg Hl. assert (G : goes_neg z v = true) by (unfold goes_neg; rewrite Nn, Hg, Hl; reflexivity).
  destruct (goes_neg_nonzero z v Hz G) as [_ Nz]. repeat split; auto.
  apply neg_signbit. apply (flt_fle_trans v (fneg z) pzero Hl (fneg_fle_zero z Hz)).
Qed.

Lemma emp_cont h X s : allc (ns_pos VC (gs h X)) = [] -> allc (ns_neg VC (gs h X)) = [] -> cont s (gs h X).
Proof. intros A B. split; apply contm_nil; assumption. Qed.
Lemma rdone_gs' h rk ph neg ks X : gs (r_done VC rk ph neg ks h) X = gs h X. Proof. apply r_done_gs. Qed.

Lemma r_done_hot h rk ph neg ks : nh_hot VC (r_done VC rk ph neg ks h) = nh_hot VC h. Proof. destruct ks, neg, ph, h; reflexivity. Qed.
Lemma rnext_claims h h1 f sb rk ph x neg ks :
  (forall X, ns_sch VC (gs h1 X) = ns_sch VC (gs h X)) -> gs h1 (negb x) = gs h (negb x) -> nh_hot VC h1 = nh_hot VC h ->
  (ph = R2 -> nh_hot VC h = negb x) ->
  Phi h1 f sb (r_next VC rk ph x neg ks) ->
  (ph = R2 -> ns_sch VC (gs h (negb x)) = GS) -> ns_sch VC (gs h x) = GS ->
  cont (ns_sch VC (gs h (negb x))) (gs h (negb x)) ->
  PcC h1 (r_next VC rk ph x neg ks) /\ forall X, clm (esch (r_next VC rk ph x neg ks) h1 X) (gs h1 X).
Proof.
  intros ES EO EH HH PN P1 P2 CO.
  assert (CO1 : cont (ns_sch VC (gs h1 (negb x))) (gs h1 (negb x))) by (rewrite ES, EO; exact CO).
  assert (NX : forall X, X <> x -> X = negb x) by (intros [|]; destruct x; intros N; try reflexivity; contradiction N; reflexivity).
  assert (CN : forall X, clm (if Bool.eqb X x then None else Some (ns_sch VC (gs h1 X))) (gs h1 X)).
  { intros X. destruct (Bool.eqb_spec X x) as [->|N]; [exact I|]. rewrite (NX X N). exact CO1. }
  destruct ks as [|k ks'].
  2:{ cbn [r_next PcC esch]. split; [split; [intros E; rewrite ES; auto|rewrite ES; exact P2]|exact CN]. }
  destruct neg; cbn [r_next] in *.
  { cbn [PcC esch]. split; [split; [intros E; rewrite ES; auto|rewrite ES; exact P2]|exact CN]. }
  destruct ph; cbn [r_after] in *.
  - destruct rk; cbn [PcC esch Phi] in *; (split; [rewrite ES; exact P2|]); intros X; cbn [clm];
      (destruct (Bool.bool_dec X x) as [->|N]; [|rewrite (NX X N); exact CO1]);
      destruct PN as [E ((_ & _ & A & B) & _)]; subst x; apply emp_cont; assumption.
  - cbn [PcC esch ret_fit Phi] in *. split; [split; [unfold SEq; rewrite !ES; destruct x; cbn [negb] in *; rewrite (P1 eq_refl), P2; reflexivity|exact I]|].
    intros X; cbn [clm]. destruct (Bool.bool_dec X x) as [->|N]; [|rewrite (NX X N); exact CO1].
    destruct PN as [((_ & _ & A & B) & _) _]. rewrite EH, (HH eq_refl), Bool.negb_involutive in A, B. apply emp_cont; assumption.
Qed.

Ltac rfin := unfold Rng, Ztp in *; cbn [PcC esch clm Bool.eqb] in *; hsimp;
  (split; [intros [|]; hsimp; assumption|split; [intros [|]; hsimp; assumption|split; [cbn [PcC]; hsimp; try assumption; try tauto|
     intros [|]; cbn [esch clm Bool.eqb]; hsimp; try exact I; assumption]]]).

(* the reset code: resetCounts on the cold set, the holder's repeated observation, the swap, the cool-down, the second resetCounts *)
Lemma resetstep h f sb pc h' nxt : Phi h f sb pc -> is_reset pc = true ->
  lstep h pc = Some (h', nxt) -> Rng h -> Ztp h -> PcC h pc -> (forall X, clm (esch pc h X) (gs h X)) ->
  Post h f sb h' nxt -> g_schema (nh_cfg VC h) = GS ->
  Rng h' /\ Ztp h' /\
  match nxt with
  | inl pc' => PcC h' pc' /\ (forall X, clm (esch pc' h' X) (gs h' X))
  | inr r => ret_fit r /\ SEq h' /\ forall X, cont (ns_sch VC (gs h' X)) (gs h' X)
  end.
Proof.
  intros HP Er Hs HR HZ HPc HC PO HCfg.
  pose proof (HR false) as R0; pose proof (HR true) as R1; pose proof (HZ false) as Z0; pose proof (HZ true) as Z1;
  pose proof (HC false) as C0; pose proof (HC true) as C1.
  destruct pc; try discriminate Er.
  - (* rLoadIdx *) stepin Hs. inversion Hs; subst h' nxt; clear Hs. split; [exact HR|split; [exact HZ|split]].
    + cbn [PcC]. split; intros E; discriminate E.
    + intros X. specialize (HC X). cbn [esch clm] in *. destruct (Bool.eqb X _); [exact I|exact HC].
  - (* rStore *) stepin Hs. inversion Hs; subst h' nxt; clear Hs PO. destruct HPc as [P1 P2].
    destruct h as [g0 H0 tk0 s00 s10 m0 rs0]; unfold Rng, Ztp in *; hsimp.
    destruct x, fd; cbn [rfield_next esch clm Bool.eqb] in *; hsimp.
    all: (split; [intros [|]; hsimp; auto; rewrite HCfg; exact HG|split; [intros [|]; hsimp; auto; apply init_zt_nonneg|split]]).
    all: try (intros [|]; cbn [esch clm Bool.eqb]; hsimp; first [exact I|assumption]).
    all: cbn [PcC]; hsimp; (split; [exact P1|]); first [intros E; discriminate E|intros _; exact HCfg|intros _; exact (P2 eq_refl)|exact (P2 eq_refl)].
  - (* rRange *) stepin Hs. inversion Hs; subst h' nxt; clear Hs. destruct HPc as [P1 P2]. destruct PO as ((PN & _) & _).
    set (ks := cm_keys VC (side VC (nget VC h x) neg)) in *.
    split; [intros X; rewrite r_done_gs; apply HR|split; [intros X; rewrite r_done_gs; apply HZ|]].
    apply (rnext_claims h _ f sb rk ph x neg ks); auto.
    + intros X. rewrite r_done_gs. reflexivity.
    + apply r_done_gs.
    + apply r_done_hot.
    + intros ->. cbn [Phi] in HP. apply HP.
    + specialize (HC (negb x)). cbn [esch] in HC. rewrite Bool.eqb_negb1 in HC. exact HC.
  - (* rDel *) destruct HPc as [P1 P2].
    assert (Eq : lstep h (rDel VC rk ph x neg ks) = match ks with [] => Some (r_done VC rk ph neg [] h, inl (r_next VC rk ph x neg [])) | k :: ks' => Some (r_done VC rk ph neg ks' (upd_side VC h x neg (fun m => cm_del VC m k)), inl (r_next VC rk ph x neg ks')) end) by (destruct ks; reflexivity).
    rewrite Eq in Hs; clear Eq.
    assert (HH : ph = R2 -> nh_hot VC h = negb x) by (intros ->; cbn [Phi] in HP; apply HP).
    assert (CO : cont (ns_sch VC (gs h (negb x))) (gs h (negb x))) by (specialize (HC (negb x)); cbn [esch] in HC; rewrite Bool.eqb_negb1 in HC; exact HC).
    destruct ks as [|k ks']; injection Hs as E1 E2; subst h' nxt; destruct PO as ((PN & _) & _).
    + change (if neg then h else set_rs VC h (r_fin rk ph (nh_rs VC h))) with (r_done VC rk ph neg [] h) in *.
      change (if neg then rRange VC rk ph x false else r_after VC rk ph x) with (r_next VC rk ph x neg []) in *.
      split; [intros X; rewrite r_done_gs; apply HR|split; [intros X; rewrite r_done_gs; apply HZ|]].
      apply (rnext_claims h _ f sb rk ph x neg []); auto; [intros X; rewrite r_done_gs; reflexivity|apply r_done_gs|apply r_done_hot].
    + assert (E1 : forall X, ns_sch VC (gs (upd_side VC h x neg (fun m => cm_del VC m k)) X) = ns_sch VC (gs h X) /\
                              ns_zt VC (gs (upd_side VC h x neg (fun m => cm_del VC m k)) X) = ns_zt VC (gs h X))
        by (intros X; unfold upd_side; destruct h, x, X, neg; split; reflexivity).
      assert (E2 : gs (upd_side VC h x neg (fun m => cm_del VC m k)) (negb x) = gs h (negb x)) by (unfold upd_side; destruct h, x; reflexivity).
      assert (E3 : nh_hot VC (upd_side VC h x neg (fun m => cm_del VC m k)) = nh_hot VC h) by (unfold upd_side; destruct h, x; reflexivity).
      split; [intros X; rewrite r_done_gs; rewrite (proj1 (E1 X)); apply HR|split; [intros X; rewrite r_done_gs; rewrite (proj2 (E1 X)); apply HZ|]].
      apply (rnext_claims h _ f sb rk ph x neg ks'); auto.
      * intros X. rewrite r_done_gs. apply E1.
      * rewrite r_done_gs. exact E2.
      * rewrite r_done_hot. exact E3.
  - (* hSumLoad *) stepin Hs. inversion Hs; subst h' nxt; clear Hs PO. cbn [PcC esch] in *. split; [exact HR|split; [exact HZ|split; [exact HPc|exact HC]]].
  - (* hSumCas *) stepin Hs. destruct (fbits_eq _ _); inversion Hs; subst h' nxt; clear Hs PO.
    + destruct h as [g0 H0 tk0 s00 s10 m0 rs0]. destruct x, (is_nan v); rfin.
    + cbn [PcC esch] in *. split; [exact HR|split; [exact HZ|split; [exact HPc|exact HC]]].
  - (* hLoadSch *) stepin Hs. inversion Hs; subst h' nxt; clear Hs PO. cbn [PcC esch] in *. split; [exact HR|split; [exact HZ|split; [split; exact HPc|exact HC]]].
  - (* hLoadZt *) stepin Hs. inversion Hs; subst h' nxt; clear Hs PO. cbn [Phi] in HP. destruct HP as [_ Nn]. destruct HPc as [A B]. subst s.
    split; [exact HR|split; [exact HZ|]]. change (nget VC h x) with (gs h x).
    destruct (fgt v (ns_zt VC (gs h x))) eqn:E1; [|destruct (flt v (fneg (ns_zt VC (gs h x)))) eqn:E2]; cbn [PcC esch] in *; (split; [|exact HC]).
    + split; [exact A|apply (fit_pos _ _ v (HZ x) Nn E1)].
    + split; [exact A|apply (fit_neg _ _ v (HZ x) Nn E1 E2)].
    + exact A.
  - (* hBkLoad *) stepin Hs. inversion Hs; subst h' nxt; clear Hs PO. split; [exact HR|split; [exact HZ|]].
    destruct (cm_has _ _ _); cbn [PcC esch] in *; (split; [exact HPc|exact HC]).
  - (* hBkLos *) stepin Hs. destruct HPc as [A FT]. destruct (cm_has _ _ _); inversion Hs; subst h' nxt; clear Hs PO.
    + cbn [PcC esch] in *. split; [exact HR|split; [exact HZ|split; [split; assumption|exact HC]]].
    + unfold upd_side. destruct h as [g0 H0 tk0 s00 s10 m0 rs0]. unfold Rng, Ztp in *; cbn [PcC esch clm Bool.eqb] in *; hsimp.
      destruct x, neg; hsimp;
      (split; [intros [|]; hsimp; assumption|split; [intros [|]; hsimp; assumption|split; [cbn [PcC]; hsimp; assumption|
         intros [|]; cbn [esch clm Bool.eqb]; hsimp; try assumption; destruct C0 as [C0a C0b]; destruct C1 as [C1a C1b]; split; hsimp; try assumption;
           (apply contm_ins; [assumption|]; intros w [<-|[]]; rewrite A; exact FT)]]]).
  - (* hBkAdd *) stepin Hs. destruct HPc as [A FT]. inversion Hs; subst h' nxt; clear Hs PO.
    unfold upd_side. destruct h as [g0 H0 tk0 s00 s10 m0 rs0]. unfold Rng, Ztp in *; cbn [PcC esch clm Bool.eqb] in *; hsimp.
      destruct x, neg; hsimp;
      (split; [intros [|]; hsimp; assumption|split; [intros [|]; hsimp; assumption|split; [cbn [PcC]; hsimp; assumption|
         intros [|]; cbn [esch clm Bool.eqb]; hsimp; try assumption; destruct C0 as [C0a C0b]; destruct C1 as [C1a C1b]; split; hsimp; try assumption;
           (apply contm_app; [assumption|]; intros w [<-|[]]; rewrite A; exact FT)]]]).
  - (* hBnAdd *) stepin Hs. inversion Hs; subst h' nxt; clear Hs PO. destruct h as [g0 H0 tk0 s00 s10 m0 rs0]. destruct x; rfin.
  - (* hZero *) stepin Hs. inversion Hs; subst h' nxt; clear Hs PO. destruct h as [g0 H0 tk0 s00 s10 m0 rs0]. destruct x; rfin.
  - (* hCount *) stepin Hs. inversion Hs; subst h' nxt; clear Hs PO. destruct h as [g0 H0 tk0 s00 s10 m0 rs0]. destruct x; rfin.
  - (* rSwap *) stepin Hs. inversion Hs; subst h' nxt; clear Hs PO. destruct h as [g0 H0 tk0 s00 s10 m0 rs0]. destruct x; rfin.
  - (* rCool *) stepin Hs. inversion Hs; subst h' nxt; clear Hs PO. split; [exact HR|split; [exact HZ|]].
    destruct (_ =? _); cbn [PcC esch] in *.
    + split; [split; [intros _; exact HPc|intros E; discriminate E]|]. intros X. destruct (Bool.eqb X c); [exact I|apply HC].
    + split; [exact HPc|exact HC].
  - (* rSpin *) stepin Hs. inversion Hs; subst h' nxt; clear Hs PO. cbn [PcC esch] in *. split; [exact HR|split; [exact HZ|split; [exact HPc|exact HC]]].
Qed.

Lemma contH h f sb pc h' nxt : (forall X, f X = 0 -> sb X = []) -> Phi h f sb pc -> holds pc = true ->
  lstep h pc = Some (h', nxt) -> Rng h -> Ztp h -> PcC h pc -> (forall X, clm (esch pc h X) (gs h X)) ->
  Post h f sb h' nxt -> g_schema (nh_cfg VC h) = GS ->
  Rng h' /\ Ztp h' /\
  match nxt with
  | inl pc' => PcC h' pc' /\ (forall X, clm (esch pc' h' X) (gs h' X))
  | inr r => ret_fit r /\ SEq h' /\ forall X, cont (ns_sch VC (gs h' X)) (gs h' X)
  end.
Proof.
  intros fsb HP Hh Hs HR HZ HPc HC PO HCfg.
  destruct (is_reset pc) eqn:Er; [apply (resetstep h f sb pc h' nxt HP Er Hs HR HZ HPc HC PO HCfg)|].
  destruct (special pc) eqn:Es; [apply (specstep h f sb pc h' nxt fsb HP Hh Es Er Hs HR HZ HPc HC)|].
  pose proof (cprev_step h pc h' nxt Es Hs) as CP. pose proof (cprev_s _ _ CP) as CS.
  pose proof (pcstep h f sb pc h' nxt fsb HP Hh Es Hs HR HPc HC) as PS.
  split; [apply (frame_rng _ _ CS HR)|split; [apply (frame_zt _ _ CP HZ)|]]. destruct nxt as [pc'|r].
  - destruct PS as [A B]. split; [apply (frame_pcc _ _ _ CS A)|intros X; apply (frame_clm _ _ _ _ CS (B X))].
  - destruct PS as (A & B & C). split; [exact A|split].
    + unfold SEq in *. destruct (CS false) as [E0 _]. destruct (CS true) as [E1 _]. congruence.
    + intros X. destruct (CS X) as [E _]. rewrite E. apply (frame_cont _ _ _ _ CS (C X)).
Qed.

(* a set with an observer in flight is never one of the exceptional (drained) sets *)
Lemma esch_default h f sb pc X : Phi h f sb pc -> 0 < f X -> esch pc h X = Some (ns_sch VC (gs h X)).
Proof.
  intros HP HF.
  assert (RS : forall x, (PreC h f sb x \/ Wipe h f sb x \/ PostDel h f sb x) ->
             (if Bool.eqb X x then None else Some (ns_sch VC (gs h X))) = Some (ns_sch VC (gs h X))).
  { intros x Hx. destruct (Bool.eqb_spec X x) as [->|N]; [exfalso|reflexivity].
    destruct Hx as [[E (_ & F0 & _)]|[(_ & F0 & _)|(_ & F0 & _)]]; [subst x|idtac|idtac]; lia. }
  assert (R1c : forall rk ph x fd, pc = rStore VC rk ph x fd -> esch pc h X = Some (ns_sch VC (gs h X))).
  { intros rk ph x fd ->. cbn [esch]. apply RS. cbn [Phi] in HP. destruct ph; [left; exact HP|right; left; apply HP]. }
  assert (R2c : forall rk ph x neg, pc = rRange VC rk ph x neg -> esch pc h X = Some (ns_sch VC (gs h X))).
  { intros rk ph x neg ->. cbn [esch]. apply RS. cbn [Phi] in HP. destruct ph; [left; exact HP|right; right; apply HP]. }
  assert (R3c : forall rk ph x neg ks, pc = rDel VC rk ph x neg ks -> esch pc h X = Some (ns_sch VC (gs h X))).
  { intros rk ph x neg ks ->. cbn [esch]. apply RS. cbn [Phi] in HP. destruct ph; [left; exact HP|right; right; apply HP]. }
  clear HG. destruct pc; try (eapply R1c; reflexivity); try (eapply R2c; reflexivity); try (eapply R3c; reflexivity); clear RS R1c R2c R3c;
    cbn [esch]; try reflexivity; cbn [Phi] in HP;
    try (destruct k; try reflexivity); try (destruct ph; try reflexivity);
    destruct (Bool.eqb_spec X c) as [->|N]; try reflexivity; exfalso;
    repeat match goal with H : _ /\ _ |- _ => destruct H end;
    match goal with
    | H : LOOP _ _ _ _ _ _ _ _ _ _ |- _ => destruct H as ((_ & F0 & _) & _); lia
    | H : TR _ _ _ _ _ _ _ _ |- _ => destruct H as (_ & F0 & _); lia
    | H : PostDel _ _ _ _ |- _ => destruct H as (_ & F0 & _); lia
    end.
Qed.

Lemma contO h pc h' nxt : holds pc = false -> is_lock pc = false -> obs_ok h pc ->
  lstep h pc = Some (h', nxt) -> Rng h -> Ztp h -> PcC h pc ->
  (forall X, ns_sch VC (gs h' X) = ns_sch VC (gs h X) /\ ns_zt VC (gs h' X) = ns_zt VC (gs h X)) /\
  match nxt with inl pc' => PcC h' pc' | inr r => r = NUnit VC end /\
  (forall X s, cont s (gs h X) -> (inflight pc = Some X -> s = ns_sch VC (gs h X)) -> cont s (gs h' X)).
Proof.
  intros Hh Hl OK Hs HR HZ HPc. destruct (modifies pc) eqn:Em.
  - (* oBkLos, oBkAdd *)
    destruct pc; try discriminate Hh; try discriminate Em; cbn [PcC obs_ok inflight] in *; stepin Hs.
    + change (nget VC h b) with (gs h b) in Hs. destruct (cm_has VC (side VC (gs h b) neg) k) eqn:Eh; inversion Hs; subst h' nxt; clear Hs.
      * split; [intros X; split; reflexivity|split; [cbn [PcC]; exact HPc|intros X s C _; exact C]].
      * unfold upd_side. destruct h as [g H tk s0 s1 m rs]. destruct b, neg; hsimp;
          (split; [intros [|]; hsimp; split; reflexivity|split; [exact I|]]);
          intros [|] s [C1 C2] E; hsimp; unfold cont; hsimp; try (split; assumption);
          (split; try assumption; apply contm_ins; [assumption|]; intros w [<-|[]]; rewrite (E eq_refl); exact HPc).
    + destruct OK as [Eh Nn]. inversion Hs; subst h' nxt; clear Hs. unfold upd_side. destruct h as [g H tk s0 s1 m rs]. destruct b, neg; hsimp;
          (split; [intros [|]; hsimp; split; reflexivity|split; [exact I|]]);
          intros [|] s [C1 C2] E; hsimp; unfold cont; hsimp; try (split; assumption);
          (split; try assumption; apply contm_app; [assumption|]; intros w [<-|[]]; rewrite (E eq_refl); exact HPc).
  - pose proof (czsame_step h pc h' nxt Em Hs) as CZ. pose proof (cprev_s _ _ (czsame_cprev _ _ CZ)) as CS.
    split; [intros X; destruct (CZ X) as (A & B & _); split; assumption|]. split.
    2:{ intros X s C _. apply (frame_cont h h' s X CS C). }
    assert (P : match nxt with inl pc' => PcC h pc' | inr r => r = NUnit VC end).
    { destruct pc; try discriminate Hh; try discriminate Hl; cbn [PcC obs_ok] in *; stepin Hs; destr_in Hs; inversion Hs; subst h' nxt; clear Hs; cbn [PcC]; auto.
      - (* oLoadZt: positive *) subst s. apply (fit_pos _ _ v (HZ b) OK Eif).
      - subst s. apply (fit_neg _ _ v (HZ b) OK Eif Eif0). }
    destruct nxt as [pc'|r]; [apply (frame_pcc _ _ _ CS P)|exact P].
Qed.

Record InvC (c : Conc.config LM) : Prop := mkInvC {
  c_rng : Rng (sh c);
  c_zt : Ztp (sh c);
  c_pc : forall i t o pc inv, nth_error (thr c) i = Some t -> t_cur t = Some (o, pc, inv) -> PcC (sh c) pc;
  c_free : nh_mtx VC (sh c) = false -> SEq (sh c) /\ forall X, cont (ns_sch VC (gs (sh c) X)) (gs (sh c) X);
  c_hold : forall i t o pc inv, nth_error (thr c) i = Some t -> t_cur t = Some (o, pc, inv) -> holds pc = true ->
           forall X, clm (esch pc (sh c) X) (gs (sh c) X);
  c_hist : forall k, In k (Conc.hist c) -> ret_fit (c_ret k)
}.

Lemma pcc_sch_frame h h' pc : (forall X, ns_sch VC (gs h' X) = ns_sch VC (gs h X)) -> PcC h pc -> PcC h' pc.
Proof.
  intros E. destruct pc; cbn [PcC]; unfold SEq, KRel, LRel, nfit, csch; rewrite ?E; auto;
    try (destruct k; rewrite ?E; auto); try (destruct ph; rewrite ?E; auto);
    unfold SEq, KRel, LRel, nfit, csch; rewrite ?E; auto.
Qed.
Lemma pcc_obs_frame h h' pc : holds pc = false -> (forall b, inflight pc = Some b -> ns_sch VC (gs h' b) = ns_sch VC (gs h b)) -> PcC h pc -> PcC h' pc.
Proof. intros Hh E. destruct pc; try discriminate Hh; cbn [PcC inflight] in *; auto; rewrite (E b eq_refl); auto. Qed.
Lemma esch_sch_frame h h' pc X : (forall X, ns_sch VC (gs h' X) = ns_sch VC (gs h X)) -> esch pc h' X = esch pc h X.
Proof. intros E. destruct pc; cbn [esch]; rewrite ?E; try reflexivity; destruct k; rewrite ?E; reflexivity. Qed.

Lemma lock_pcc h pc h' nxt : is_lock pc = true -> lstep h pc = Some (h', nxt) ->
  exists p, nxt = inl p /\ (SEq h' -> PcC h' p) /\ forall X, esch p h' X = Some (ns_sch VC (gs h' X)).
Proof.
  intros Hl Hs. destruct pc; try discriminate Hl; stepin Hs; destruct (nh_mtx VC h); try discriminate Hs; inversion Hs; subst;
    (eexists; split; [reflexivity|split; [intros E; exact E|intros X; reflexivity]]).
Qed.
Lemma InvC_step c tid c' : Inv c -> g_schema (nh_cfg VC (sh c)) = GS -> InvC c -> sched_step LM c tid = Some c' -> InvC c'.
Proof.
  intros IV HCfg [CR CZ CP CF CH CG] St.
  destruct (sched_step_cases LM lstart_inl c tid c' St) as (t & o & pc & inv & h' & nxt & Hi & Hc & Hstep & Esh & Enow & Hn).
  change (Conc.step LM (sh c) pc) with (lstep (sh c) pc) in Hstep.
  pose proof (tpc_cur t o pc inv Hc) as Ht.
  change (local LM) with npcL in *. change (Conc.op LM) with nop in *. change (ret LM) with nretL in *. change (shared LM) with nshL in *.
  assert (TN : exists tn, thr c' = set_nth (thr c) (Z.to_nat tid) tn /\
            (forall o' pc' inv', t_cur tn = Some (o', pc', inv') ->
               match nxt with inl p => pc' = p | inr _ => spc pc' = true end) /\
            (forall k, In k (Conc.hist c') -> In k (Conc.hist c) \/ match nxt with inl _ => False | inr r => c_ret k = r end)).
  { destruct nxt as [p|r].
    - destruct Hn as [Eh Et]. eexists. split; [exact Et|]. split.
      + intros o' pc' inv' E. cbn in E. inversion E. reflexivity.
      + intros k Hk. rewrite Eh in Hk. left. exact Hk.
    - destruct Hn as (tn & Hf & Eh & Et). exists tn. split; [exact Et|]. split.
      + intros o' pc' inv' E. apply (fresh_pc _ _ _ _ _ Hf E).
      + intros k Hk. rewrite Eh in Hk. apply in_app_or in Hk. destruct Hk as [Hk|[<-|[]]]; [left; exact Hk|right; reflexivity]. }
  destruct TN as (tn & ET & TNpc & HH).
  set (i := Z.to_nat tid) in *. set (T := thr c) in *. set (h := sh c) in *.
  assert (NHle : NH T <= 1) by (pose proof (i_nh c IV) as N; fold T in N; fold h in N; destruct (nh_mtx VC h); lia).
  destruct (holds pc) eqn:Hh.
  - (* the holder *)
    pose proof (i_hold c IV i t o pc inv Hi Hc Hh) as HP. fold h T in HP.
    pose proof (hoare (fun X => F X T) (fun X => SB X T) (fun X => F_sb X T) (fun X => F_nonneg X T) h pc h' nxt (i_srt c IV) HP Hh Hstep) as PO0.
    pose proof PO0 as (PO & _ & STB).
    pose proof (contH h (fun X => F X T) (fun X => SB X T) pc h' nxt (fun X => F_sb X T) HP Hh Hstep CR CZ (CP i t o pc inv Hi Hc) (CH i t o pc inv Hi Hc Hh) PO0 HCfg) as (R' & Z' & K).
    assert (Hhc : hcnt (tpc t) = 1) by (rewrite Ht; cbn [hcnt]; rewrite Hh; reflexivity).
    assert (Other : forall j tj oj pcj invj, j <> i -> nth_error T j = Some tj -> t_cur tj = Some (oj, pcj, invj) -> holds pcj = false).
    { intros j tj oj pcj invj Nj Hj Hcj. destruct (holds pcj) eqn:E; [|reflexivity]. exfalso. assert (2 <= NH T); [|lia].
      apply (NH_two T i j t tj Hi Hj); [congruence|exact Hhc|]. rewrite (tpc_cur _ _ _ _ Hcj). cbn [hcnt]. rewrite E. reflexivity. }
    constructor; rewrite ?Esh, ?ET.
    + exact R'. + exact Z'.
    + intros j tj oj pcj invj Hj Hcj. destruct (nth_error_set_nth_inv _ _ _ _ _ Hj) as [[-> ->]|[Nj Hj']].
      * specialize (TNpc _ _ _ Hcj). destruct nxt as [p|r]; [subst pcj; apply K|]. destruct pcj; try discriminate TNpc; exact I.
      * apply (pcc_obs_frame h h' pcj (Other j tj oj pcj invj Nj Hj' Hcj)); [|apply (CP j tj oj pcj invj Hj' Hcj)].
        intros b Eb. apply STB. pose proof (F_ge b T j tj Hj') as G. rewrite (tpc_cur _ _ _ _ Hcj) in G. cbn [fcnt] in G. rewrite Eb, Bool.eqb_reflx in G. lia.
    + intros Em. destruct nxt as [p|r].
      * exfalso. destruct PO as (_ & _ & Em'). rewrite Em' in Em. pose proof (i_nh c IV) as N. fold h T in N. rewrite Em in N.
        pose proof (zsum_ge_nth (fun t => hcnt (tpc t)) T (fun t => proj1 (hcnt_range (tpc t))) i t Hi) as G. cbv beta in G. fold tsum in G. fold (NH T) in G. lia.
      * destruct K as (_ & A & B). split; assumption.
    + intros j tj oj pcj invj Hj Hcj Hhj. destruct (nth_error_set_nth_inv _ _ _ _ _ Hj) as [[-> ->]|[Nj Hj']].
      * specialize (TNpc _ _ _ Hcj). destruct nxt as [p|r]; [subst pcj; apply K|]. rewrite (spc_holds _ TNpc) in Hhj; discriminate Hhj.
      * rewrite (Other j tj oj pcj invj Nj Hj' Hcj) in Hhj. discriminate.
    + intros k Hk. destruct (HH k Hk) as [Hk'|Hk']; [apply CG; exact Hk'|]. destruct nxt as [p|r]; [contradiction|]. rewrite Hk'. apply K.
  - destruct (is_lock pc) eqn:Hl.
    + (* Mutex.Lock *) destruct (lock_step h pc h' nxt Hl Hstep) as (Mt & Eh' & p0 & Enx & Hp & _).
      destruct (lock_pcc h pc h' nxt Hl Hstep) as (p & Enx' & PP & EE). rewrite Enx in Enx'. inversion Enx'. subst p0. subst nxt. clear Enx'.
      assert (Esh' : sh c' = set_mtx VC h true) by (rewrite Esh; exact Eh'). clear Esh. subst h'.
      destruct (CF Mt) as [SE CC].
      assert (G : forall X, gs (set_mtx VC h true) X = gs h X) by (intros X; destruct h, X; reflexivity).
      constructor; rewrite ?Esh', ?ET.
      * intros X. rewrite G. apply CR. * intros X. rewrite G. apply CZ.
      * intros j tj oj pcj invj Hj Hcj. destruct (nth_error_set_nth_inv _ _ _ _ _ Hj) as [[-> ->]|[Nj Hj']].
        -- pose proof (TNpc _ _ _ Hcj). subst pcj. apply PP. unfold SEq. rewrite !G. exact SE.
        -- apply (pcc_sch_frame h); [intros X; rewrite G; reflexivity|apply (CP j tj oj pcj invj Hj' Hcj)].
      * destruct h; discriminate.
      * intros j tj oj pcj invj Hj Hcj Hhj X. destruct (nth_error_set_nth_inv _ _ _ _ _ Hj) as [[-> ->]|[Nj Hj']].
        -- pose proof (TNpc _ _ _ Hcj). subst pcj. rewrite EE. cbn [clm]. rewrite G. apply CC.
        -- exfalso. pose proof (i_nh c IV) as N. fold h T in N. rewrite Mt in N.
           pose proof (zsum_ge_nth (fun t => hcnt (tpc t)) T (fun t => proj1 (hcnt_range (tpc t))) j tj Hj') as GG. cbv beta in GG.
           fold tsum in GG. fold (NH T) in GG. rewrite (tpc_cur _ _ _ _ Hcj) in GG. cbn [hcnt] in GG. rewrite Hhj in GG. lia.
      * intros k Hk. destruct (HH k Hk) as [Hk'|[]]. apply CG. exact Hk'.
    + (* an observer *)
      pose proof (contO h pc h' nxt Hh Hl (i_obs c IV i t o pc inv Hi Hc) Hstep CR CZ (CP i t o pc inv Hi Hc)) as (SZ & PN & CT).
      assert (ES : forall X, ns_sch VC (gs h' X) = ns_sch VC (gs h X)) by (intros X; apply SZ).
      assert (Mx : nh_mtx VC h' = nh_mtx VC h).
      { clear - Hstep Hh Hl.
        destruct pc; try discriminate Hh; try discriminate Hl; stepin Hstep; destr_in Hstep; inversion Hstep; subst; unfold upd_side;
          repeat match goal with h0 : nshL |- _ => destruct h0 end; repeat match goal with b : bool |- _ => destruct b end; reflexivity. }
      constructor; rewrite ?Esh, ?ET.
      * intros X. rewrite ES. apply CR. * intros X. destruct (SZ X) as [_ E]. rewrite E. apply CZ.
      * intros j tj oj pcj invj Hj Hcj. destruct (nth_error_set_nth_inv _ _ _ _ _ Hj) as [[-> ->]|[Nj Hj']].
        -- specialize (TNpc _ _ _ Hcj). destruct nxt as [p|r]; [subst pcj; exact PN|]. destruct pcj; try discriminate TNpc; exact I.
        -- apply (pcc_sch_frame h h' pcj ES (CP j tj oj pcj invj Hj' Hcj)).
      * intros Em. rewrite Mx in Em. destruct (CF Em) as [SE CC]. split; [unfold SEq in *; rewrite !ES; exact SE|].
        intros X. rewrite ES. apply (CT X _ (CC X)). intros _. reflexivity.
      * intros j tj oj pcj invj Hj Hcj Hhj X. destruct (nth_error_set_nth_inv _ _ _ _ _ Hj) as [[-> ->]|[Nj Hj']].
        -- exfalso. specialize (TNpc _ _ _ Hcj). destruct nxt as [p|r].
           ++ subst pcj. clear - Hstep Hh Hl Hhj. destruct pc; try discriminate Hh; try discriminate Hl; stepin Hstep; destr_in Hstep; inversion Hstep; subst; discriminate Hhj.
           ++ rewrite (spc_holds _ TNpc) in Hhj; discriminate Hhj.
        -- pose proof (CH j tj oj pcj invj Hj' Hcj Hhj X) as C. rewrite (esch_sch_frame h h' pcj X ES).
           destruct (esch pcj h X) as [s|] eqn:Ee; [|exact I]. cbn [clm] in *. apply (CT X s C). intros Ei.
           pose proof (i_hold c IV j tj oj pcj invj Hj' Hcj Hhj) as HPj. fold h T in HPj.
           assert (HF : 0 < F X T).
           { pose proof (F_ge X T i t Hi) as G. rewrite Ht in G. cbn [fcnt] in G. rewrite Ei, Bool.eqb_reflx in G. lia. }
           pose proof (esch_default h _ _ pcj X HPj HF) as Ed. cbv beta in Ed. rewrite Ed in Ee. inversion Ee. reflexivity.
      * intros k Hk. destruct (HH k Hk) as [Hk'|Hk']; [apply CG; exact Hk'|]. destruct nxt as [p|r]; [contradiction|]. rewrite Hk', PN. exact I.
Qed.

End WithG.

Lemma InvC_init g progs : valid_config g -> InvC (g_schema g) (init_config LM (linit g) progs).
Proof.
  intros Hv. destruct (init_fresh LM lstart_inl (linit g) progs) as [HF HH]. rewrite Forall_forall in HF.
  constructor.
  - intros [|]; exact Hv.
  - intros [|]; apply init_zt_nonneg.
  - intros i t o pc inv Hi Hc. specialize (HF t (nth_error_In _ _ Hi)). pose proof (fresh_pc 0 t o pc inv HF Hc) as SP. destruct pc; try discriminate SP; exact I.
  - intros _. split; [reflexivity|]. intros [|]; split; apply contm_empty.
  - intros i t o pc inv Hi Hc Hh. exfalso. specialize (HF t (nth_error_In _ _ Hi)). rewrite (spc_holds _ (fresh_pc 0 t o pc inv HF Hc)) in Hh. discriminate.
  - rewrite HH. intros k [].
Qed.
Lemma sched_step_cfg c tid c' : sched_step LM c tid = Some c' -> nh_cfg VC (sh c') = nh_cfg VC (sh c).
Proof.
  intros St. destruct (sched_step_L c tid c' St) as (t & o & pc & inv & h' & nxt & Hi & Hc & Hs & Esh & Et). rewrite Esh. apply (lstep_cfg _ _ _ _ Hs).
Qed.
Lemma InvC_reachable g progs sched : valid_config g -> InvC (g_schema g) (run_sched LM (init_config LM (linit g) progs) sched).
Proof.
  intros Hv.
  assert (H : (Inv (run_sched LM (init_config LM (linit g) progs) sched) /\ nh_cfg VC (sh (run_sched LM (init_config LM (linit g) progs) sched)) = g) /\
              InvC (g_schema g) (run_sched LM (init_config LM (linit g) progs) sched)).
  { apply (run_sched_ind LM (fun c => (Inv c /\ nh_cfg VC (sh c) = g) /\ InvC (g_schema g) c)).
    - intros c tid c' [[Hi Hg] Hc] Hs. split; [split; [exact (Inv_step c tid c' Hi Hs)|rewrite (sched_step_cfg c tid c' Hs); exact Hg]|].
      apply (InvC_step (g_schema g) Hv c tid c' Hi); [rewrite Hg; reflexivity|exact Hc|exact Hs].
    - split; [split; [apply Inv_init|reflexivity]|apply InvC_init; exact Hv]. }
  apply H.
Qed.

Definition contained (s : Z) (pos neg : vmap) : Prop :=
  forall sg k c v, In (k, c) (if sg : bool then neg else pos) -> In v c -> C05_run.in_key s k sg v = true.
Lemma contained_of_cont s st : -4 <= s <= 8 -> cont s st -> contained s (ns_pos VC st) (ns_neg VC st).
Proof. intros Hs [A B] [|] k c v H1 H2; apply (fit_in_key s k _ v Hs); [apply (B k c v H1 H2)|apply (A k c v H1 H2)]. Qed.

Section ContThm.
Variables (g : config) (progs : list (list nop)) (sched : list Z).
Hypothesis Hv : valid_config g.
Let lc := run_sched LM (init_config LM (linit g) progs) sched.

(* every completed Write: each value carried by an exposed bucket lies in that bucket at the exposed schema *)
Lemma writes_contained_L : forall k o, In k (Conc.hist lc) -> c_ret k = NOut VC o ->
  contained (no_sch VC o) (no_pos VC o) (no_neg VC o).
Proof.
  intros k o Hk Er. pose proof (c_hist _ lc (InvC_reachable g progs sched Hv) k Hk) as R. rewrite Er in R. cbn [ret_fit] in R.
  destruct R as (A & B & Rg). intros [|] kk c v H1 H2; apply (fit_in_key _ kk _ v Rg); [apply (B kk c v H1 H2)|apply (A kk c v H1 H2)].
Qed.

(* quiescence: the hot set's buckets contain their values at its schema *)
Lemma quiescent_contained_L : all_done LM lc = true ->
  let hot := gs (sh lc) (nh_hot VC (sh lc)) in contained (ns_sch VC hot) (ns_pos VC hot) (ns_neg VC hot).
Proof.
  intros Hd hot. pose proof (quiescent_L g progs sched Hd) as Q. cbv zeta in Q. fold lc in Q. destruct Q as (Mt & _).
  pose proof (InvC_reachable g progs sched Hv) as IC. fold lc in IC. destruct (c_free _ lc IC Mt) as [_ CC].
  apply contained_of_cont; [apply (c_rng _ lc IC)|apply CC].
Qed.
End ContThm.

Section ContZ.
Variables (g : config) (progs : list (list nop)) (sched : list Z).
Hypothesis Hv : valid_config g.
Let zc := run_sched ZM (init_config ZM (ninit Z 0 g) progs) sched.
Let lc := run_sched LM (init_config LM (linit g) progs) sched.

(* the integer state at quiescence is the length-image of a value-carrying state whose counter is a permutation of the
   observed values, whose zero bucket and buckets partition the non-NaN ones, and whose buckets contain their values *)
Lemma quiescent_contained_Z : g_min_reset g = 0 -> all_done ZM zc = true ->
  exists hl : nshL, sh zc = zsh hl /\
    let hot := gs hl (nh_hot VC hl) in let AV := obs_vals (concat progs) in
    Permutation (cntv hot) AV /\
    Permutation (ns_zb VC hot ++ allc (ns_pos VC hot) ++ allc (ns_neg VC hot)) (nn AV) /\
    contained (ns_sch VC hot) (ns_pos VC hot) (ns_neg VC hot).
Proof.
  intros G0 Hd. assert (Ez : zc = zcfg lc) by apply zrun.
  assert (Hd' : all_done LM lc = true).
  { rewrite <- Hd, Ez. symmetry. apply (all_done_hom (list f64) Z [] (@app f64) (fun v => [v]) (fun l => Z.of_nat (length l)) 0 Z.add (fun _ => 1) (fun x => x) phiL). }
  exists (sh lc). split; [rewrite Ez; reflexivity|]. cbv zeta.
  pose proof (quiescent_values_L g progs sched G0 Hd') as PV0. fold lc in PV0.
  pose proof (quiescent_L g progs sched Hd') as Q. cbv zeta in Q. fold lc in Q. destruct Q as (_ & _ & P & _).
  split; [exact PV0|split].
  - unfold sec in P. rewrite P. apply nn_perm. exact PV0.
  - apply (quiescent_contained_L g progs sched Hv Hd').
Qed.

(* with or without resets: at quiescence the integer state is the length-image of a value-carrying state whose hot buckets contain their values *)
Lemma quiescent_contained_gen_Z : all_done ZM zc = true ->
  exists hl : nshL, sh zc = zsh hl /\
    let hot := gs hl (nh_hot VC hl) in contained (ns_sch VC hot) (ns_pos VC hot) (ns_neg VC hot).
Proof.
  intros Hd. assert (Ez : zc = zcfg lc) by apply zrun.
  assert (Hd' : all_done LM lc = true).
  { rewrite <- Hd, Ez. symmetry. apply (all_done_hom (list f64) Z [] (@app f64) (fun v => [v]) (fun l => Z.of_nat (length l)) 0 Z.add (fun _ => 1) (fun x => x) phiL). }
  exists (sh lc). split; [rewrite Ez; reflexivity|]. apply (quiescent_contained_L g progs sched Hv Hd').
Qed.

Lemma writes_contained_Z : forall k o, In k (Conc.hist zc) -> c_ret k = NOut Z o ->
  exists ol : noutL, o = zout ol /\ good_out ol /\ contained (no_sch VC ol) (no_pos VC ol) (no_neg VC ol).
Proof.
  intros k o Hk Er. assert (Ez : zc = zcfg lc) by apply zrun. rewrite Ez in Hk. unfold zcfg, mcfg in Hk. cbn [Conc.hist] in Hk.
  apply in_map_iff in Hk. destruct Hk as (k1 & Ek & Hk1). subst k. unfold mcall in Er. cbn [c_ret] in Er.
  pose proof (writes_good_L g progs sched k1 Hk1) as G.
  assert (A : forall r : nretL, mret VC Z phiL r = NOut Z o -> good_ret r -> (forall ol, r = NOut VC ol -> contained (no_sch VC ol) (no_pos VC ol) (no_neg VC ol)) ->
              exists ol : noutL, o = zout ol /\ good_out ol /\ contained (no_sch VC ol) (no_pos VC ol) (no_neg VC ol)).
  { intros [|ol|] E Gr Cr; cbn [mret] in E; try discriminate E. inversion E. exists ol. split; [reflexivity|split; [exact Gr|apply Cr; reflexivity]]. }
  apply (A _ Er G). intros ol El. apply (writes_contained_L g progs sched Hv k1 ol Hk1 El).
Qed.
End ContZ.
