(* Proofs/Gen_tie.v -- constants that the hand-written models spell out literally are re-checked against the
   values the translator reads from the Go source on every run (Gen/Gen_Consts.v, Gen/Gen_Api.v): a changed
   constant in /repo breaks one of these Qed's, i.e. a proof obligation of the property that uses the model. *)
From Coq Require Import ZArith List.
From Verif Require Import Base.Str Gen.Gen_Consts Gen.Gen_Api Model.ApiClient Model.ConstMetrics Model.SummaryWindow.
Import ListNotations.
Open Scope Z_scope.

Lemma api_endpoints_match_source_lemma :
  map snd api_endpoints =
  [ep_alerts; ep_alertmanagers; ep_query; ep_query_range; ep_query_exemplars; ep_labels; ep_label_values; ep_series;
   ep_targets; ep_targets_metadata; ep_metadata; ep_rules; ep_snapshot; ep_delete_series; ep_clean_tombstones;
   ep_config; ep_flags; ep_buildinfo; ep_runtimeinfo; ep_tsdb; ep_walreplay].
Proof. vm_compute. reflexivity. Qed.

Lemma native_schema_limits_match_source_lemma :
  ConstMetrics.schema_max = native_schema_max /\ ConstMetrics.schema_min = native_schema_min.
Proof. split; vm_compute; reflexivity. Qed.

Lemma summary_defaults_match_source_lemma :
  SummaryWindow.def_max_age = Gen_Consts.def_max_age_ns /\
  SummaryWindow.def_age_buckets = Gen_Consts.def_age_buckets /\
  SummaryWindow.def_buf_cap = Gen_Consts.def_buf_cap /\
  SummaryWindow.quantile_label = Gen_Consts.quantile_label.
Proof. repeat split; vm_compute; reflexivity. Qed.
