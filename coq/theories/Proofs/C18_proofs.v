(* Proofs/C18_proofs.v -- lemmas for C18 (runtime histogram re-bucketing, batch histogram, rules). *)
From Coq Require Import ZArith List Bool Lia Sorting.Sorted.
From Flocq Require Import IEEE754.BinarySingleNaN.
From Verif Require Import Base.F64 Base.Str Proofs.F64_order Model.Rebucket.
Import ListNotations.
Open Scope Z_scope.

(* ---------------- small float facts ---------------- *)
Definition fltP (x y : f64) : Prop := flt x y = true.

Lemma flt_feq_false x y : flt x y = true -> feq x y = false.
Proof. unfold flt, feq. destruct (fcmp x y) as [[]|]; congruence. Qed.

Lemma feq_refl x : is_nan x = false -> feq x x = true.
Proof.
  intros H. pose proof (fle_refl x H) as H1. pose proof (flt_irrefl x) as H2.
  unfold fle, flt, feq in *. destruct (fcmp x x) as [[]|]; congruence.
Qed.

Lemma flt_pinf_l x : flt pinf x = false.
Proof. destruct x as [s|[]| |[] m e p]; reflexivity. Qed.

Lemma flt_ninf_r x : flt x ninf = false.
Proof. destruct x as [s|[]| |[] m e p]; reflexivity. Qed.

Lemma is_pinf_eq x : is_pinf x = true -> x = pinf.
Proof. destruct x as [s|[]| |s m e p]; simpl; intros H; try discriminate; reflexivity. Qed.

Lemma is_ninf_eq x : is_ninf x = true -> x = ninf.
Proof. destruct x as [s|[]| |s m e p]; simpl; intros H; try discriminate; reflexivity. Qed.

Lemma feq_ninf x : feq x ninf = is_ninf x.
Proof. destruct x as [[]|[]| |[] m e p]; reflexivity. Qed.

Lemma fin_not_ninf x : is_fin x = true -> is_ninf x = false.
Proof. destruct x as [s|[]| |s m e p]; simpl; intros H; try discriminate; reflexivity. Qed.

Lemma fin_not_pinf x : is_fin x = true -> is_pinf x = false.
Proof. destruct x as [s|[]| |s m e p]; simpl; intros H; try discriminate; reflexivity. Qed.

Lemma fin_not_nan x : is_fin x = true -> is_nan x = false.
Proof. destruct x as [s|[]| |s m e p]; simpl; intros H; try discriminate; reflexivity. Qed.

Lemma fle_pinf_one : fle pinf fone = false. Proof. reflexivity. Qed.
Lemma fle_ninf_one : fle ninf fone = true. Proof. reflexivity. Qed.

(* strictly between two floats means finite *)
Lemma between_fin a x b : flt a x = true -> flt x b = true -> is_fin x = true.
Proof.
  intros H1 H2. destruct x as [s|[]| |s m e p]; try reflexivity.
  - rewrite flt_ninf_r in H1. discriminate.
  - rewrite flt_pinf_l in H2. discriminate.
  - apply flt_nonnan in H2. destruct H2. discriminate.
Qed.

(* ---------------- sublists and strictly increasing lists ---------------- *)
Inductive sublist {A} : list A -> list A -> Prop :=
| sub_nil : forall l, sublist [] l
| sub_keep : forall x a b, sublist a b -> sublist (x :: a) (x :: b)
| sub_skip : forall y a b, sublist a b -> sublist a (y :: b).

Lemma sublist_refl {A} (l : list A) : sublist l l.
Proof. induction l; constructor; auto. Qed.

Lemma sublist_in {A} (a b : list A) : sublist a b -> forall x, In x a -> In x b.
Proof.
  induction 1; intros z Hz; simpl in *; auto.
  - contradiction.
  - destruct Hz; auto.
Qed.

Lemma sublist_nonempty {A} (a b : list A) : sublist a b -> a <> [] -> b <> [].
Proof. intros H Ha. destruct H; congruence. Qed.

Lemma sublist_last_single {A} (l : list A) d : l <> [] -> sublist [last l d] l.
Proof.
  induction l as [|x [|y r] IH]; intros H; try congruence.
  - simpl. constructor. constructor.
  - change (last (x :: y :: r) d) with (last (y :: r) d). apply sub_skip. apply IH. congruence.
Qed.

Definition SS := StronglySorted fltP.

Lemma sinc_sorted l : strictly_inc l = true -> Sorted fltP l.
Proof.
  induction l as [|x [|y r] IH]; intros H.
  - constructor.
  - repeat constructor.
  - simpl in H. apply andb_prop in H. destruct H as [H1 H2].
    constructor; [apply IH; exact H2 | constructor; exact H1].
Qed.

Lemma sinc_SS l : strictly_inc l = true -> SS l.
Proof.
  intros H. apply Sorted_StronglySorted; [|apply sinc_sorted; exact H].
  intros a b c. unfold fltP. apply flt_trans.
Qed.

Lemma SS_sinc l : SS l -> strictly_inc l = true.
Proof.
  induction 1 as [|x l Hl IH Hx]; [reflexivity|].
  destruct l as [|y r]; [reflexivity|].
  change (flt x y && strictly_inc (y :: r) = true). inversion Hx; subst.
  apply andb_true_intro. split; [assumption | exact IH].
Qed.

Lemma SS_sublist a b : sublist a b -> SS b -> SS a.
Proof.
  induction 1; intros Hb.
  - constructor.
  - inversion Hb; subst. constructor; [apply IHsublist; assumption|].
    rewrite Forall_forall in *. intros z Hz. apply H3. eapply sublist_in; eauto.
  - inversion Hb; subst. apply IHsublist; assumption.
Qed.

Lemma SS_tail x l : SS (x :: l) -> SS l.
Proof. inversion 1; assumption. Qed.

Lemma SS_head_lt x l : SS (x :: l) -> Forall (fun y => flt x y = true) l.
Proof. inversion 1; assumption. Qed.

Lemma SS_app_r a b : SS (a ++ b) -> SS b.
Proof. induction a; simpl; intros H; [exact H|]. apply IHa. eapply SS_tail; eauto. Qed.

Lemma last_cons_ne {A} (x : A) l d : l <> [] -> last (x :: l) d = last l d.
Proof. destruct l; [congruence|reflexivity]. Qed.

Lemma last_in {A} (l : list A) d : l <> [] -> In (last l d) l.
Proof.
  induction l as [|x [|y r] IH]; intros H; try congruence.
  - left; reflexivity.
  - right. apply IH. congruence.
Qed.

(* in a strictly increasing list +Inf can only be the last element *)
Lemma SS_pinf_last x l : SS (x :: l) -> x = pinf -> l = [].
Proof.
  intros H Hx. destruct l as [|y r]; [reflexivity|].
  apply SS_head_lt in H. inversion H; subst. rewrite flt_pinf_l in H2. discriminate.
Qed.

(* ---------------- reBucketExp ---------------- *)
Section Rebucket.
Variable skip : f64 -> f64 -> bool.
Hypothesis skip_pinf : forall b, skip b pinf = false.     (* the +Inf boundary is never skipped *)

Lemma rb_loop_cons : forall rest b, exists t, rb_loop skip b rest = b :: t /\ sublist t rest.
Proof.
  induction rest as [|x r IH]; intros b.
  - exists []. split; [reflexivity|constructor].
  - simpl. destruct (skip b x).
    + destruct (IH b) as [t [E S]]. exists t. split; [exact E|constructor; exact S].
    + destruct (IH x) as [t [E S]]. exists (x :: t). rewrite E. split; [reflexivity|constructor; exact S].
Qed.

Lemma rb_loop_last : forall rest b, rest <> [] -> last rest fnan = pinf ->
  last (rb_loop skip b rest) fnan = pinf.
Proof.
  induction rest as [|x r IH]; intros b Hne Hl; [congruence|].
  destruct r as [|y r'].
  - simpl in Hl. subst x. simpl. rewrite skip_pinf. reflexivity.
  - assert (Hl' : last (y :: r') fnan = pinf) by exact Hl.
    simpl rb_loop. destruct (skip b x).
    + apply IH; [congruence|exact Hl'].
    + rewrite last_cons_ne.
      * apply IH; [congruence|exact Hl'].
      * destruct (rb_loop_cons (y :: r') x) as [t [E _]]. rewrite E. congruence.
Qed.
End Rebucket.

Lemma skip_exp_pinf base b : skip_exp base b pinf = false.
Proof. unfold skip_exp. rewrite !flt_pinf_l, !andb_false_r. reflexivity. Qed.

(* ---------------- the seconds cut-off ---------------- *)
Lemma seconds_cut_sublist l : l <> [] -> last l fnan = pinf -> sublist (seconds_cut l) l.
Proof.
  induction l as [|x r IH]; intros Hne Hl; [congruence|].
  simpl. destruct (fle x fone) eqn:E.
  - destruct r as [|y r'].
    + simpl in Hl. subst x. rewrite fle_pinf_one in E. discriminate.
    + constructor. apply IH; [congruence|exact Hl].
  - rewrite <- Hl. apply sublist_last_single. congruence.
Qed.

Lemma seconds_cut_last l : l <> [] -> last l fnan = pinf -> last (seconds_cut l) fnan = pinf.
Proof.
  induction l as [|x r IH]; intros Hne Hl; [congruence|].
  simpl. destruct (fle x fone) eqn:E; [|reflexivity].
  destruct r as [|y r'].
  - simpl in Hl. subst x. rewrite fle_pinf_one in E. discriminate.
  - assert (Hc : seconds_cut (y :: r') <> []).
    { simpl. destruct (fle y fone); congruence. }
    rewrite last_cons_ne by exact Hc. apply IH; [congruence|exact Hl].
Qed.

Lemma seconds_cut_nonempty l : l <> [] -> seconds_cut l <> [].
Proof. destruct l; [congruence|]. simpl. destruct (fle f fone); congruence. Qed.

Lemma seconds_cut_bound l : Forall (fun b => b = pinf \/ fle b fone = true) (seconds_cut l).
Proof.
  induction l as [|x r IH]; simpl; [constructor|].
  destruct (fle x fone) eqn:E.
  - constructor; [right; exact E|exact IH].
  - constructor; [left; reflexivity|constructor].
Qed.
