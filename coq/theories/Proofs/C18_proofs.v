(* Proofs/C18_proofs.v -- lemmas for C18 (runtime histogram re-bucketing, batch histogram, rules). *)
From Coq Require Import ZArith List Bool Lia Sorting.Sorted Reals Lra.
From Flocq Require Import Core.Core IEEE754.BinarySingleNaN.
From Verif Require Import Base.F64 Base.Str Proofs.F64_order Model.Rebucket.
Import ListNotations.
Open Scope Z_scope.

(* ---------------- small float facts ---------------- *)
Definition fltP (x y : f64) : Prop := flt x y = true.

Lemma flt_feq_false x y : flt x y = true -> feq x y = false.
Proof. unfold flt, feq. destruct (fcmp x y) as [[]|]; congruence. Qed.

Lemma feq_refl x : is_nan x = false -> feq x x = true.
Proof.
  intros H. pose proof (fle_refl x H) as H1. pose proof (flt_irrefl x) as H2.
  unfold fle, flt, feq in *. destruct (fcmp x x) as [[]|]; congruence.
Qed.

Lemma flt_pinf_l x : flt pinf x = false.
Proof. destruct x as [s|[]| |[] m e p]; reflexivity. Qed.

Lemma flt_ninf_r x : flt x ninf = false.
Proof. destruct x as [s|[]| |[] m e p]; reflexivity. Qed.

Lemma is_pinf_eq x : is_pinf x = true -> x = pinf.
Proof. destruct x as [s|[]| |s m e p]; simpl; intros H; try discriminate; reflexivity. Qed.

Lemma is_ninf_eq x : is_ninf x = true -> x = ninf.
Proof. destruct x as [s|[]| |s m e p]; simpl; intros H; try discriminate; reflexivity. Qed.

Lemma feq_ninf x : feq x ninf = is_ninf x.
Proof. destruct x as [[]|[]| |[] m e p]; reflexivity. Qed.

Lemma fin_not_ninf x : is_fin x = true -> is_ninf x = false.
Proof. destruct x as [s|[]| |s m e p]; simpl; intros H; try discriminate; reflexivity. Qed.

Lemma fin_not_pinf x : is_fin x = true -> is_pinf x = false.
Proof. destruct x as [s|[]| |s m e p]; simpl; intros H; try discriminate; reflexivity. Qed.

Lemma fin_not_nan x : is_fin x = true -> is_nan x = false.
Proof. destruct x as [s|[]| |s m e p]; simpl; intros H; try discriminate; reflexivity. Qed.

Lemma fle_pinf_one : fle pinf fone = false. Proof. reflexivity. Qed.
Lemma fle_ninf_one : fle ninf fone = true. Proof. reflexivity. Qed.

(* strictly between two floats means finite *)
Lemma between_fin a x b : flt a x = true -> flt x b = true -> is_fin x = true.
Proof.
  intros H1 H2. destruct x as [s|[]| |s m e p]; try reflexivity.
  - rewrite flt_ninf_r in H1. discriminate.
  - rewrite flt_pinf_l in H2. discriminate.
  - apply flt_nonnan in H2. destruct H2. discriminate.
Qed.

Lemma flt_fin_R x y : is_fin x = true -> is_fin y = true -> flt x y = true -> (B2R x < B2R y)%R.
Proof.
  intros Fx Fy H. unfold flt in H. rewrite fcmp_fin in H by assumption.
  destruct (Rcompare_spec (B2R x) (B2R y)); try discriminate. assumption.
Qed.

Lemma feq_of_R x y : is_fin x = true -> is_fin y = true -> B2R x = B2R y -> feq x y = true.
Proof.
  intros Fx Fy H. unfold feq. rewrite fcmp_fin by assumption. rewrite H, Rcompare_Eq; reflexivity.
Qed.

Lemma succ_pred_feq prev B : is_fin prev = true -> is_fin B = true -> flt prev B = true ->
  feq (nextafter_up (fpred B)) B = true.
Proof.
  intros Fp FB Hlt. pose proof (flt_fin_R prev B Fp FB Hlt) as HR.
  pose proof (generic_format_B2R 53 1024 prev) as Gp.
  pose proof (generic_format_B2R 53 1024 B) as GB.
  pose proof (abs_B2R_lt_emax 53 1024 prev) as Ap.
  pose proof (abs_B2R_lt_emax 53 1024 B) as AB.
  pose proof (@Bpred_correct 53 1024 Hprec_gt0_64 Hprec_emax64 B FB) as PC.
  change (SpecFloat.fexp 53 1024) with (FLT_exp (3 - 1024 - 53) 53) in *.
  assert (Hle : (B2R prev <= pred radix2 (FLT_exp (3 - 1024 - 53) 53) (B2R B))%R).
  { apply pred_ge_gt; try assumption. apply FLT_exp_valid. exact Hprec_gt0_64. }
  rewrite Rlt_bool_true in PC.
  2:{ apply Rabs_lt_inv in Ap. lra. }
  destruct PC as [P1 [P2 _]].
  pose proof (@Bsucc_correct 53 1024 Hprec_gt0_64 Hprec_emax64 (fpred B) P2) as SC.
  change (SpecFloat.fexp 53 1024) with (FLT_exp (3 - 1024 - 53) 53) in SC.
  unfold fpred in SC. rewrite P1 in SC. rewrite succ_pred in SC by (try assumption; apply FLT_exp_valid; exact Hprec_gt0_64).
  rewrite Rlt_bool_true in SC by (apply Rabs_lt_inv in AB; lra).
  destruct SC as [S1 [S2 _]].
  assert (E : nextafter_up (fpred B) = fsucc (fpred B)).
  { unfold nextafter_up, fpred. destruct (Bpred B) as [s|[]| |s m e p]; try reflexivity; discriminate. }
  rewrite E. apply feq_of_R; assumption.
Qed.

Lemma feq_fle_both x y : feq x y = true -> fle x y = true /\ fle y x = true.
Proof.
  unfold feq, fle, fcmp. rewrite (Bcompare_swap _ _ x y). destruct (Bcompare x y) as [[]|]; simpl; intros H; try discriminate; auto.
Qed.

Lemma fle_feq_r h x y : feq x y = true -> fle h x = fle h y.
Proof.
  intros H. destruct (feq_fle_both x y H) as [A B].
  destruct (fle h x) eqn:E1; destruct (fle h y) eqn:E2; try reflexivity.
  - rewrite (fle_trans h x y E1 A) in E2. discriminate.
  - rewrite (fle_trans h y x E2 B) in E1. discriminate.
Qed.

Lemma nextafter_down B prev : flt prev B = true -> nextafter B prev = fpred B.
Proof.
  intros H. unfold nextafter. destruct (flt_nonnan prev B H) as [Np NB]. rewrite Np, NB. simpl.
  assert (E1 : feq B prev = false).
  { destruct (feq B prev) eqn:E; [|reflexivity]. apply feq_fle_both in E. destruct E as [E _].
    rewrite (flt_not_fle prev B H) in E. discriminate. }
  rewrite E1. rewrite (fle_not_flt prev B (flt_fle prev B H)). reflexivity.
Qed.

(* an input bucket with upper boundary hi lies entirely at or below the exposed bound of the kept boundary B
   exactly when hi <= B *)
Lemma entirely_below_exposed hi B prev : is_fin prev = true -> is_pinf B = false -> flt prev B = true ->
  entirely_below hi (nextafter B prev) = fle hi B.
Proof.
  intros Fp HB H. assert (FB : is_fin B = true).
  { destruct B as [s|[]| |s m e p]; try reflexivity; try discriminate.
    - rewrite flt_ninf_r in H. discriminate.
    - apply flt_nonnan in H. destruct H. discriminate. }
  unfold entirely_below. rewrite (nextafter_down B prev H). apply fle_feq_r.
  apply (succ_pred_feq prev B Fp FB H).
Qed.

(* ---------------- sublists and strictly increasing lists ---------------- *)
Inductive sublist {A} : list A -> list A -> Prop :=
| sub_nil : forall l, sublist [] l
| sub_keep : forall x a b, sublist a b -> sublist (x :: a) (x :: b)
| sub_skip : forall y a b, sublist a b -> sublist a (y :: b).

Lemma sublist_refl {A} (l : list A) : sublist l l.
Proof. induction l; constructor; auto. Qed.

Lemma sublist_in {A} (a b : list A) : sublist a b -> forall x, In x a -> In x b.
Proof.
  induction 1; intros z Hz; simpl in *; auto.
  - contradiction.
  - destruct Hz; auto.
Qed.

Lemma sublist_nonempty {A} (a b : list A) : sublist a b -> a <> [] -> b <> [].
Proof. intros H Ha. destruct H; congruence. Qed.

Lemma sublist_last_single {A} (l : list A) d : l <> [] -> sublist [last l d] l.
Proof.
  induction l as [|x [|y r] IH]; intros H; try congruence.
  - simpl. constructor. constructor.
  - change (last (x :: y :: r) d) with (last (y :: r) d). apply sub_skip. apply IH. congruence.
Qed.

Definition SS := StronglySorted fltP.

Lemma sinc_sorted l : strictly_inc l = true -> Sorted fltP l.
Proof.
  induction l as [|x [|y r] IH]; intros H.
  - constructor.
  - repeat constructor.
  - simpl in H. apply andb_prop in H. destruct H as [H1 H2].
    constructor; [apply IH; exact H2 | constructor; exact H1].
Qed.

Lemma sinc_SS l : strictly_inc l = true -> SS l.
Proof.
  intros H. apply Sorted_StronglySorted; [|apply sinc_sorted; exact H].
  intros a b c. unfold fltP. apply flt_trans.
Qed.

Lemma SS_sinc l : SS l -> strictly_inc l = true.
Proof.
  induction 1 as [|x l Hl IH Hx]; [reflexivity|].
  destruct l as [|y r]; [reflexivity|].
  change (flt x y && strictly_inc (y :: r) = true). inversion Hx; subst.
  apply andb_true_intro. split; [assumption | exact IH].
Qed.

Lemma SS_sublist a b : sublist a b -> SS b -> SS a.
Proof.
  induction 1; intros Hb.
  - constructor.
  - inversion Hb; subst. constructor; [apply IHsublist; assumption|].
    rewrite Forall_forall in *. intros z Hz. apply H3. eapply sublist_in; eauto.
  - inversion Hb; subst. apply IHsublist; assumption.
Qed.

Lemma SS_tail x l : SS (x :: l) -> SS l.
Proof. inversion 1; assumption. Qed.

Lemma SS_head_lt x l : SS (x :: l) -> Forall (fun y => flt x y = true) l.
Proof. inversion 1; assumption. Qed.

Lemma SS_app_r a b : SS (a ++ b) -> SS b.
Proof. induction a; simpl; intros H; [exact H|]. apply IHa. eapply SS_tail; eauto. Qed.

Lemma last_cons_ne {A} (x : A) l d : l <> [] -> last (x :: l) d = last l d.
Proof. destruct l; [congruence|reflexivity]. Qed.

Lemma last_in {A} (l : list A) d : l <> [] -> In (last l d) l.
Proof.
  induction l as [|x [|y r] IH]; intros H; try congruence.
  - left; reflexivity.
  - right. apply IH. congruence.
Qed.

(* in a strictly increasing list +Inf can only be the last element *)
Lemma SS_pinf_last x l : SS (x :: l) -> x = pinf -> l = [].
Proof.
  intros H Hx. destruct l as [|y r]; [reflexivity|].
  apply SS_head_lt in H. inversion H; subst. rewrite flt_pinf_l in H2. discriminate.
Qed.

(* ---------------- reBucketExp ---------------- *)
Section Rebucket.
Variable skip : f64 -> f64 -> bool.
Hypothesis skip_pinf : forall b, skip b pinf = false.     (* the +Inf boundary is never skipped *)

Lemma rb_loop_cons : forall rest b, exists t, rb_loop skip b rest = b :: t /\ sublist t rest.
Proof.
  induction rest as [|x r IH]; intros b.
  - exists []. split; [reflexivity|constructor].
  - simpl. destruct (skip b x).
    + destruct (IH b) as [t [E S]]. exists t. split; [exact E|constructor; exact S].
    + destruct (IH x) as [t [E S]]. exists (x :: t). rewrite E. split; [reflexivity|constructor; exact S].
Qed.

Lemma rb_loop_last : forall rest b, rest <> [] -> last rest fnan = pinf ->
  last (rb_loop skip b rest) fnan = pinf.
Proof.
  induction rest as [|x r IH]; intros b Hne Hl; [congruence|].
  destruct r as [|y r'].
  - simpl in Hl. subst x. simpl. rewrite skip_pinf. reflexivity.
  - assert (Hl' : last (y :: r') fnan = pinf) by exact Hl.
    assert (Hne' : y :: r' <> []) by congruence.
    remember (y :: r') as rr. clear Heqrr Hl.
    simpl rb_loop. destruct (skip b x).
    + apply IH; assumption.
    + rewrite last_cons_ne.
      * apply IH; assumption.
      * destruct (rb_loop_cons rr x) as [t [E _]]. rewrite E. congruence.
Qed.
End Rebucket.

Lemma skip_exp_pinf base b : skip_exp base b pinf = false.
Proof. unfold skip_exp. rewrite !flt_pinf_l, !andb_false_r. reflexivity. Qed.

(* ---------------- the seconds cut-off ---------------- *)
Lemma seconds_cut_sublist l : l <> [] -> last l fnan = pinf -> sublist (seconds_cut l) l.
Proof.
  induction l as [|x r IH]; intros Hne Hl; [congruence|].
  simpl. destruct (fle x fone) eqn:E.
  - destruct r as [|y r'].
    + simpl in Hl. subst x. rewrite fle_pinf_one in E. discriminate.
    + constructor. apply IH; [congruence|exact Hl].
  - rewrite <- Hl. apply sublist_last_single. congruence.
Qed.

Lemma seconds_cut_last l : l <> [] -> last l fnan = pinf -> last (seconds_cut l) fnan = pinf.
Proof.
  induction l as [|x r IH]; intros Hne Hl; [congruence|].
  simpl. destruct (fle x fone) eqn:E; [|reflexivity].
  destruct r as [|y r'].
  - simpl in Hl. subst x. rewrite fle_pinf_one in E. discriminate.
  - assert (Hc : seconds_cut (y :: r') <> []).
    { simpl. destruct (fle y fone); congruence. }
    rewrite last_cons_ne by exact Hc. apply IH; [congruence|exact Hl].
Qed.

Lemma seconds_cut_nonempty l : l <> [] -> seconds_cut l <> [].
Proof. destruct l; [congruence|]. simpl. destruct (fle f fone); congruence. Qed.

Lemma seconds_cut_bound l : Forall (fun b => b = pinf \/ fle b fone = true) (seconds_cut l).
Proof.
  induction l as [|x r IH]; simpl; [constructor|].
  destruct (fle x fone) eqn:E.
  - constructor; [right; exact E|exact IH].
  - constructor; [left; reflexivity|constructor].
Qed.

Lemma sublist_trans {A} (a b c : list A) : sublist a b -> sublist b c -> sublist a c.
Proof.
  intros Hab Hbc. revert a Hab. induction Hbc; intros a0 Hab.
  - inversion Hab; subst. constructor.
  - inversion Hab; subst; constructor; auto.
  - constructor. auto.
Qed.

(* ---------------- shape of the reduction under the runtime-shape precondition ---------------- *)
Lemma shape_split ib : runtime_shape ib = true ->
  strictly_inc ib = true /\ ib <> [] /\ last ib fnan = pinf /\ (2 <= length ib)%nat.
Proof.
  unfold runtime_shape. intros H. apply andb_prop in H. destruct H as [H H3].
  apply andb_prop in H. destruct H as [H1 H2]. apply is_pinf_eq in H2.
  apply Z.leb_le in H3. repeat split; auto; [|lia].
  destruct ib; simpl in *; [lia|congruence].
Qed.

Section Reduce.
Variables skip2 skip10 : f64 -> f64 -> bool.
Hypothesis skip2_pinf : forall b, skip2 b pinf = false.
Hypothesis skip10_pinf : forall b, skip10 b pinf = false.

Lemma reduce_core skip f rest : (forall b, skip b pinf = false) -> is_fin f = true -> rest <> [] ->
  last rest fnan = pinf ->
  exists t, rb_loop skip f rest = f :: t /\ sublist t rest /\ t <> [] /\ last t fnan = pinf.
Proof.
  intros Hs Hf Hne Hl. destruct (rb_loop_cons skip rest f) as [t [E S]].
  pose proof (rb_loop_last skip Hs rest f Hne Hl) as L. rewrite E in L.
  assert (Ht : t <> []).
  { intros ->. simpl in L. subst f. discriminate. }
  exists t. repeat split; auto. rewrite last_cons_ne in L; assumption.
Qed.

Definition kept_bound (u : unit_t) (hb : list f64) : Prop :=
  u = USeconds -> Forall (fun b => b = pinf \/ fle b fone = true) hb.

Lemma reduce_shape u ib : runtime_shape ib = true -> survives u ib = true ->
  exists pre f rest hb',
    first_finite ib = Some f /\
    ib = pre ++ f :: rest /\ (pre = [] \/ pre = [ninf]) /\ is_fin f = true /\ rest <> [] /\
    last rest fnan = pinf /\
    buckets_for_unit_gen skip2 skip10 u ib = Some (pre ++ f :: hb') /\
    strip_ninf (pre ++ f :: hb') = Some (f :: hb') /\
    sublist hb' rest /\ hb' <> [] /\ last hb' fnan = pinf /\ kept_bound u (f :: hb').
Proof.
  intros Hshape Hsurv. destruct (shape_split ib Hshape) as [Hinc [Hne [Hlast Hlen]]].
  unfold survives in Hsurv. destruct (first_finite ib) as [f|] eqn:Hff; [|discriminate].
  assert (Hsec : u = USeconds -> fle f fone = true).
  { intros ->. exact Hsurv. }
  clear Hsurv.
  (* the decomposition of ib *)
  assert (Hdec : exists pre rest, ib = pre ++ f :: rest /\ (pre = [] \/ pre = [ninf]) /\ is_fin f = true).
  { destruct ib as [|b0 r]; [discriminate|]. simpl in Hff. destruct (is_ninf b0) eqn:Hn.
    - destruct r as [|b1 r1]; [discriminate|]. destruct (is_fin b1) eqn:Hb1; [|discriminate].
      inversion Hff; subst b1. apply is_ninf_eq in Hn. subst b0.
      exists [ninf], r1. repeat split; auto.
    - destruct (is_fin b0) eqn:Hb0; [|discriminate]. inversion Hff; subst b0.
      exists [], r. repeat split; auto. }
  destruct Hdec as [pre [rest [Hib [Hpre Hfin]]]].
  assert (Hrest : rest <> [] /\ last rest fnan = pinf).
  { subst ib. destruct rest as [|y r'].
    - exfalso. assert (last (pre ++ [f]) fnan = f) by (destruct Hpre as [-> | ->]; reflexivity).
      rewrite H in Hlast. subst f. discriminate.
    - split; [congruence|]. rewrite <- Hlast. destruct Hpre as [-> | ->]; reflexivity. }
  destruct Hrest as [Hrne Hrl].
  assert (Hstrip : forall hb', strip_ninf (pre ++ f :: hb') = Some (f :: hb')).
  { intros hb'. destruct Hpre as [-> | ->]; simpl.
    - rewrite feq_ninf, (fin_not_ninf f Hfin). reflexivity.
    - reflexivity. }
  assert (Hre : forall skip, (forall b, skip b pinf = false) ->
            exists t, re_bucket_exp skip ib = Some (pre ++ f :: t) /\ sublist t rest /\ t <> [] /\ last t fnan = pinf).
  { intros skip Hs. destruct (reduce_core skip f rest Hs Hfin Hrne Hrl) as [t [E [S [Ht Lt]]]].
    exists t. repeat split; auto. subst ib. destruct Hpre as [-> | ->]; simpl.
    - rewrite feq_ninf, (fin_not_ninf f Hfin). rewrite E. reflexivity.
    - rewrite E. reflexivity. }
  exists pre, f, rest.
  destruct u.
  - (* bytes *)
    destruct (Hre skip2 skip2_pinf) as [t [E [S [Ht Lt]]]].
    exists t. split; [reflexivity|]. repeat split; auto. intros H; discriminate.
  - (* seconds *)
    destruct (Hre skip10 skip10_pinf) as [t [E [S [Ht Lt]]]].
    exists (seconds_cut t). simpl. rewrite E. simpl.
    assert (Hcut : seconds_cut (pre ++ f :: t) = pre ++ f :: seconds_cut t).
    { destruct Hpre as [-> | ->]; simpl.
      - rewrite (Hsec eq_refl). reflexivity.
      - rewrite (Hsec eq_refl). reflexivity. }
    rewrite Hcut. split; [reflexivity|]. repeat split; auto.
    + eapply sublist_trans; [apply seconds_cut_sublist; assumption|exact S].
    + apply seconds_cut_nonempty; assumption.
    + apply seconds_cut_last; assumption.
    + intros _. constructor; [right; apply Hsec; reflexivity|apply seconds_cut_bound].
  - (* any other unit: unchanged *)
    exists rest. simpl. split; [reflexivity|]. repeat split; auto.
    + f_equal. exact Hib.
    + apply sublist_refl.
    + intros H; discriminate.
Qed.
End Reduce.

(* ---------------- update: the loop on tails instead of indices ---------------- *)
Fixpoint uloop (cs : list Z) (ibt hbt : list f64) (hc : list Z) (j : nat) : option (list Z) :=
  match cs with
  | [] => Some hc
  | c :: cs' =>
      match nth_error hc j, ibt, hbt with
      | Some old, bi :: ibt', hj :: hbt' =>
          if feq bi hj then uloop cs' ibt' hbt' (set_nth hc j (wrap64 (old + c))) (S j)
          else uloop cs' ibt' hbt (set_nth hc j (wrap64 (old + c))) j
      | _, _, _ => None
      end
  end.

Lemma nth_error_skipn {A} (l : list A) n : nth_error l n = hd_error (skipn n l).
Proof. revert l. induction n; intros [|x r]; simpl; auto. Qed.

Lemma skipn_S_tl {A} (l : list A) n : skipn (S n) l = tl (skipn n l).
Proof.
  revert l. induction n; intros [|x r]; try reflexivity.
  change (skipn (S (S n)) (x :: r)) with (skipn (S n) r). rewrite IHn. reflexivity.
Qed.

Lemma update_loop_uloop : forall cs i ib hb hc j,
  update_loop cs i ib hb hc j = uloop cs (skipn (S i) ib) (skipn (S j) hb) hc j.
Proof.
  induction cs as [|c cs IH]; intros i ib hb hc j; [reflexivity|].
  cbn [update_loop uloop].
  rewrite (nth_error_skipn ib (S i)), (nth_error_skipn hb (S j)).
  destruct (nth_error hc j) as [old|]; [|reflexivity].
  destruct (skipn (S i) ib) as [|bi ibt'] eqn:Ei; [reflexivity|].
  destruct (skipn (S j) hb) as [|hj hbt'] eqn:Ej; [reflexivity|].
  cbn [hd_error].
  assert (Ei' : skipn (S (S i)) ib = ibt') by (rewrite skipn_S_tl, Ei; reflexivity).
  assert (Ej' : skipn (S (S j)) hb = hbt') by (rewrite skipn_S_tl, Ej; reflexivity).
  destruct (feq bi hj); rewrite IH, Ei'; [rewrite Ej'|rewrite Ej]; reflexivity.
Qed.

(* hbt embeds into ibt and both end together *)
Inductive emb : list f64 -> list f64 -> Prop :=
| emb_nil : emb [] []
| emb_keep : forall x h i, emb h i -> emb (x :: h) (x :: i)
| emb_skip : forall x h i, emb h i -> h <> [] -> emb h (x :: i).

Lemma emb_in h i : emb h i -> forall y, In y h -> In y i.
Proof. induction 1; intros z Hz; simpl in *; auto. destruct Hz; auto. Qed.

Lemma emb_nonempty h i : emb h i -> i <> [] -> h <> [].
Proof. destruct 1; intros; congruence. Qed.

Lemma emb_length h i : emb h i -> (length h <= length i)%nat.
Proof. induction 1; simpl; lia. Qed.

Lemma sublist_emb h i : SS i -> sublist h i -> h <> [] -> last h fnan = last i fnan -> emb h i.
Proof.
  intros Hs Hsub. revert Hs. induction Hsub as [l|x a b Hsub IH|y a b Hsub IH]; intros Hs Hne Hl.
  - congruence.
  - destruct a as [|a0 a'].
    + destruct b as [|b0 b'].
      * repeat constructor.
      * exfalso. simpl last in Hl at 1. rewrite last_cons_ne in Hl by congruence.
        pose proof (SS_head_lt _ _ Hs) as Hf. rewrite Forall_forall in Hf.
        assert (Hin : In (last (b0 :: b') fnan) (b0 :: b')) by (apply last_in; congruence).
        apply Hf in Hin. rewrite <- Hl in Hin. rewrite flt_irrefl in Hin. discriminate.
    + assert (Hb : b <> []) by (eapply sublist_nonempty; [exact Hsub|congruence]).
      constructor. apply IH; [eapply SS_tail; eauto|congruence|].
      rewrite (last_cons_ne x (a0 :: a')) in Hl by congruence.
      rewrite (last_cons_ne x b) in Hl by exact Hb. exact Hl.
  - assert (Hb : b <> []) by (eapply sublist_nonempty; eauto).
    constructor; [|exact Hne]. apply IH; [eapply SS_tail; eauto|exact Hne|].
    rewrite (last_cons_ne y b) in Hl by exact Hb. exact Hl.
Qed.

(* ---- arithmetic modulo 2^64 ---- *)
Definition eqm (a b : Z) : Prop := a mod M64 = b mod M64.

Lemma M64_pos : 0 < M64. Proof. reflexivity. Qed.

Lemma eqm_refl a : eqm a a. Proof. reflexivity. Qed.
Lemma eqm_trans a b c : eqm a b -> eqm b c -> eqm a c. Proof. unfold eqm; congruence. Qed.
Lemma eqm_add_r a b x : eqm a b -> eqm (a + x) (b + x).
Proof. unfold eqm. intros H. rewrite (Z.add_mod a), (Z.add_mod b), H by (compute; congruence). reflexivity. Qed.

Lemma eqm_step a old c : eqm (a - old + wrap64 (old + c)) (a + c).
Proof.
  unfold eqm, wrap64. rewrite Zplus_mod_idemp_r. f_equal. ring.
Qed.

Lemma wrap64_eqm a b : eqm a b -> wrap64 a = wrap64 b. Proof. auto. Qed.
Lemma wrap64_idem a : wrap64 (wrap64 a) = wrap64 a.
Proof. unfold wrap64. apply Z.mod_mod. compute; congruence. Qed.
Lemma wrap64_add_l a b : wrap64 (wrap64 a + b) = wrap64 (a + b).
Proof. unfold wrap64. apply Zplus_mod_idemp_l. Qed.

(* ---- prefix sums ---- *)
Definition psum (n : nat) (l : list Z) : Z := sumZ (firstn n l).

Lemma length_set_nth l j v : length (set_nth l j v) = length l.
Proof. revert j. induction l; intros [|j]; simpl; auto. Qed.

Lemma firstn_set_nth l j v n : (n <= j)%nat -> firstn n (set_nth l j v) = firstn n l.
Proof.
  revert j n. induction l as [|x r IH]; intros [|j] [|n] H; simpl; auto; try lia.
  f_equal. apply IH. lia.
Qed.

Lemma psum_set_nth l j v n old : nth_error l j = Some old -> (j < n)%nat ->
  psum n (set_nth l j v) = psum n l - old + v.
Proof.
  unfold psum. revert j n. induction l as [|x r IH]; intros [|j] [|n] H Hn; simpl in *; try discriminate; try lia.
  - inversion H; subst. lia.
  - rewrite (IH j n H) by lia. lia.
Qed.

Lemma sumZ_set_nth l j v old : nth_error l j = Some old -> sumZ (set_nth l j v) = sumZ l - old + v.
Proof.
  revert j. induction l as [|x r IH]; intros [|j] H; simpl in *; try discriminate.
  - inversion H; subst. lia.
  - rewrite (IH j H). lia.
Qed.

Lemma firstn_firstn_le {A} (l l' : list A) n m : (m <= n)%nat -> firstn n l = firstn n l' -> firstn m l = firstn m l'.
Proof.
  intros Hm H. replace m with (Nat.min m n) by lia. rewrite <- !firstn_firstn. rewrite H. reflexivity.
Qed.

Lemma count_below_none test cs ibt : Forall (fun hi => test hi = false) ibt -> count_below test cs ibt = 0.
Proof.
  intros H. revert cs. induction H as [|x r Hx Hr IH]; intros [|c cs]; simpl; auto.
  rewrite Hx, IH. reflexivity.
Qed.

Lemma uloop_spec : forall cs ibt hbt hc j,
  SS ibt -> Forall (fun x => is_nan x = false) ibt -> emb hbt ibt ->
  length cs = length ibt -> length hc = (j + length hbt)%nat ->
  exists hc', uloop cs ibt hbt hc j = Some hc' /\ length hc' = length hc /\
    firstn j hc' = firstn j hc /\
    eqm (sumZ hc') (sumZ hc + sumZ cs) /\
    (forall p y, nth_error hbt p = Some y ->
       eqm (psum (S (j + p)) hc') (psum (S (j + p)) hc + count_below (fun hi => fle hi y) cs ibt)).
Proof.
  induction cs as [|c cs IH]; intros ibt hbt hc j Hs Hnn Hemb Hlc Hlh.
  - destruct ibt; [|discriminate]. inversion Hemb; subst.
    exists hc. simpl. repeat split; auto.
    + unfold eqm. f_equal. lia.
    + intros p y Hp. destruct p; discriminate.
  - destruct ibt as [|bi ibt']; [discriminate|].
    assert (Hhne : hbt <> []) by (eapply emb_nonempty; [exact Hemb|congruence]).
    destruct hbt as [|hj hbt']; [congruence|].
    destruct (nth_error hc j) as [old|] eqn:Hold.
    2:{ apply nth_error_None in Hold. simpl in Hlh. lia. }
    set (hc1 := set_nth hc j (wrap64 (old + c))).
    assert (Hl1 : length hc1 = length hc) by apply length_set_nth.
    pose proof (SS_head_lt _ _ Hs) as Hlt. pose proof (SS_tail _ _ Hs) as Hs'.
    inversion Hnn as [|? ? Hbi Hnn']; subst.
    assert (Hsum1 : eqm (sumZ hc1 + sumZ cs) (sumZ hc + sumZ (c :: cs))).
    { assert (E : sumZ hc1 = sumZ hc - old + wrap64 (old + c)).
      { apply sumZ_set_nth. exact Hold. }
      rewrite E. simpl sumZ. replace (sumZ hc + (c + sumZ cs)) with (sumZ hc + c + sumZ cs) by ring.
      apply eqm_add_r. apply eqm_step. }
    cbn [uloop]. rewrite Hold. fold hc1.
    inversion Hemb as [|x h i Hemb'|x h i Hemb' Hne']; subst.
    + (* the boundary is kept: j advances *)
      rewrite (feq_refl bi Hbi).
      destruct (IH ibt' hbt' hc1 (S j) Hs' Hnn' Hemb') as [hc' [E [L [F [Sm C]]]]].
      { simpl in Hlc. lia. } { rewrite Hl1. simpl in Hlh. lia. }
      exists hc'. split; [exact E|]. split; [congruence|]. split.
      { apply (firstn_firstn_le _ _ (S j) j) in F; [|lia]. rewrite F. apply firstn_set_nth. lia. }
      split; [eapply eqm_trans; [exact Sm|exact Hsum1]|].
      intros p y Hp.
      assert (Hall : forall z, In z hbt' -> flt bi z = true).
      { intros z Hz. rewrite Forall_forall in Hlt. apply Hlt. eapply emb_in; eauto. }
      destruct p as [|p].
      * simpl in Hp. inversion Hp; subst y. rewrite Nat.add_0_r.
        unfold psum at 1. rewrite F. fold (psum (S j) hc1).
        unfold hc1. rewrite (psum_set_nth hc j _ (S j) old Hold) by lia.
        cbn [count_below]. rewrite (fle_refl bi Hbi).
        rewrite count_below_none.
        2:{ rewrite Forall_forall in *. intros z Hz. apply flt_not_fle. apply Hlt. exact Hz. }
        rewrite Z.add_0_r. apply eqm_step.
      * simpl in Hp. specialize (C p y Hp).
        replace (S (j + S p)) with (S (S j + p)) by lia.
        eapply eqm_trans; [exact C|].
        unfold hc1. rewrite (psum_set_nth hc j _ (S (S j + p)) old Hold) by lia.
        cbn [count_below].
        assert (Hy : fle bi y = true). { apply flt_fle. apply Hall. eapply nth_error_In; eauto. }
        rewrite Hy.
        replace (psum (S (S j + p)) hc + (c + count_below (fun hi => fle hi y) cs ibt'))
          with (psum (S (S j + p)) hc + c + count_below (fun hi => fle hi y) cs ibt') by ring.
        apply eqm_add_r. apply eqm_step.
    + (* the boundary is skipped: j stays *)
      assert (Hall : forall z, In z (hj :: hbt') -> flt bi z = true).
      { intros z Hz. rewrite Forall_forall in Hlt. apply Hlt. eapply emb_in; eauto. }
      rewrite (flt_feq_false bi hj) by (apply Hall; left; reflexivity).
      destruct (IH ibt' (hj :: hbt') hc1 j Hs' Hnn' Hemb') as [hc' [E [L [F [Sm C]]]]].
      { simpl in Hlc. lia. } { rewrite Hl1. exact Hlh. }
      exists hc'. split; [exact E|]. split; [congruence|]. split.
      { rewrite F. apply firstn_set_nth. lia. }
      split; [eapply eqm_trans; [exact Sm|exact Hsum1]|].
      intros p y Hp. specialize (C p y Hp).
      eapply eqm_trans; [exact C|].
      unfold hc1. rewrite (psum_set_nth hc j _ (S (j + p)) old Hold) by lia.
      cbn [count_below].
      assert (Hy : fle bi y = true). { apply flt_fle. apply Hall. eapply nth_error_In; eauto. }
      rewrite Hy.
      replace (psum (S (j + p)) hc + (c + count_below (fun hi => fle hi y) cs ibt'))
        with (psum (S (j + p)) hc + c + count_below (fun hi => fle hi y) cs ibt') by ring.
      apply eqm_add_r. apply eqm_step.
Qed.

(* ---------------- Write: the loop on tails ---------------- *)
Fixpoint wloop (hbt : list f64) (hs : bool) (cs : list Z) (total : Z) (sum : f64) (acc : list (f64 * Z))
  {struct cs} : option wout :=
  match cs with
  | [] => Some (mkW total sum (rev acc))
  | c :: cs' =>
      let total' := wrap64 (total + c) in
      match hbt with
      | bi :: ((bi1 :: _) as hbt') =>
          let sum' := if negb hs && negb (Z.eqb c 0) then fadd sum (fmul bi (of_Z c)) else sum in
          if is_pinf bi1 then Some (mkW total' sum' (rev acc))
          else wloop hbt' hs cs' total' sum' ((nextafter bi1 bi, total') :: acc)
      | _ => None
      end
  end.

Lemma write_loop_wloop : forall cs hb hs i total sum acc,
  write_loop hb hs cs i total sum acc = wloop (skipn i hb) hs cs total sum acc.
Proof.
  induction cs as [|c cs IH]; intros hb hs i total sum acc; [reflexivity|].
  cbn [write_loop wloop]. rewrite (nth_error_skipn hb i), (nth_error_skipn hb (S i)), skipn_S_tl.
  destruct (skipn i hb) as [|bi t] eqn:E; [reflexivity|].
  cbn [hd_error tl]. destruct t as [|bi1 t']; [reflexivity|]. cbn [hd_error].
  destruct (is_pinf bi1); [reflexivity|].
  rewrite IH, skipn_S_tl, E. reflexivity.
Qed.

Definition exposed_ok (hbt : list f64) (cs : list Z) (total : Z) (p : f64 * Z) : Prop :=
  exists k y0 y1, nth_error hbt k = Some y0 /\ nth_error hbt (S k) = Some y1 /\ is_pinf y1 = false /\
    fst p = nextafter y1 y0 /\ snd p = wrap64 (total + psum (S k) cs).

Lemma wloop_spec hs : forall cs hbt total sum acc,
  SS hbt -> last hbt fnan = pinf -> length hbt = S (length cs) -> wrap64 total = total ->
  exists w new, wloop hbt hs cs total sum acc = Some w /\
    w_count w = wrap64 (total + sumZ cs) /\
    w_buckets w = rev acc ++ new /\ length new = Nat.pred (length cs) /\
    Forall (exposed_ok hbt cs total) new.
Proof.
  induction cs as [|c cs IH]; intros hbt total sum acc Hs Hl Hlen Ht.
  - exists (mkW total sum (rev acc)), []. simpl. rewrite Z.add_0_r, app_nil_r. repeat split; auto.
  - destruct hbt as [|bi [|bi1 rest]]; try (simpl in Hlen; lia).
    cbn [wloop]. destruct (is_pinf bi1) eqn:Hp.
    + apply is_pinf_eq in Hp. assert (rest = []) by (eapply SS_pinf_last; [eapply SS_tail; exact Hs|exact Hp]).
      subst rest. assert (cs = []) by (destruct cs; [reflexivity|simpl in Hlen; lia]). subst cs.
      eexists. exists []. split; [reflexivity|]. simpl. rewrite Z.add_0_r, app_nil_r. repeat split; auto.
    + assert (Hcs : cs <> []).
      { intros ->. destruct rest; [|simpl in Hlen; lia]. simpl in Hl. subst bi1. discriminate. }
      destruct (IH (bi1 :: rest) (wrap64 (total + c))
                  (if negb hs && negb (c =? 0) then fadd sum (fmul bi (of_Z c)) else sum)
                  ((nextafter bi1 bi, wrap64 (total + c)) :: acc))
        as [w [new [E [Cn [Bk [Ln Fa]]]]]].
      { eapply SS_tail; exact Hs. } { rewrite <- Hl. symmetry. apply last_cons_ne. congruence. }
      { simpl in *. lia. } { apply wrap64_idem. }
      exists w, ((nextafter bi1 bi, wrap64 (total + c)) :: new). split; [exact E|].
      split. { rewrite Cn, wrap64_add_l. f_equal. simpl. ring. }
      split. { rewrite Bk. simpl. rewrite <- app_assoc. reflexivity. }
      split. { simpl. rewrite Ln. destruct cs; [congruence|reflexivity]. }
      constructor.
      * exists 0%nat, bi, bi1. repeat split; auto. simpl. f_equal. unfold psum. simpl. ring.
      * eapply Forall_impl; [|exact Fa]. intros p [k [y0 [y1 [H0 [H1 [H2 [H3 H4]]]]]]].
        exists (S k), y0, y1. repeat split; auto.
        rewrite H4, wrap64_add_l. f_equal. unfold psum. simpl. ring.
Qed.

(* ---------------- one update followed by Write ---------------- *)
Lemma SS_nonnan : forall l x, SS (x :: l) -> l <> [] -> Forall (fun y => is_nan y = false) (x :: l).
Proof.
  induction l as [|y r IH]; intros x Hs Hne; [congruence|].
  pose proof (SS_head_lt _ _ Hs) as Hlt. inversion Hlt as [|? ? Hxy _]; subst.
  apply flt_nonnan in Hxy. destruct Hxy as [Hx Hy]. constructor; [exact Hx|].
  destruct r as [|z r'].
  - constructor; [exact Hy|constructor].
  - apply IH; [eapply SS_tail; exact Hs|congruence].
Qed.

Lemma SS_nth_lt : forall k l a b, SS l -> nth_error l k = Some a -> nth_error l (S k) = Some b -> flt a b = true.
Proof.
  induction k; intros l a b Hs Ha Hb.
  - destruct l as [|x [|y r]]; simpl in *; try discriminate. inversion Ha; inversion Hb; subst.
    apply SS_head_lt in Hs. inversion Hs; assumption.
  - destruct l as [|x r]; [discriminate|]. simpl in Ha, Hb. eapply IHk; [eapply SS_tail; exact Hs|exact Ha|exact Hb].
Qed.

Lemma SS_nth_fin : forall k l f a b, SS (f :: l) -> is_fin f = true ->
  nth_error (f :: l) k = Some a -> nth_error (f :: l) (S k) = Some b -> is_fin a = true.
Proof.
  intros [|k] l f a b Hs Hf Ha Hb.
  - simpl in Ha. inversion Ha; subst. exact Hf.
  - assert (Hk : exists z, nth_error (f :: l) k = Some z).
    { destruct (nth_error (f :: l) k) eqn:E; [eauto|]. apply nth_error_None in E.
      assert (nth_error (f :: l) (S k) <> None) by congruence. apply nth_error_Some in H. lia. }
    destruct Hk as [z Hz]. eapply between_fin; eapply SS_nth_lt; eauto.
Qed.

Lemma sumZ_repeat0 n : sumZ (repeat 0 n) = 0.
Proof. induction n; simpl; lia. Qed.
Lemma psum_repeat0 k n : psum k (repeat 0 n) = 0.
Proof. unfold psum. revert k. induction n; intros [|k]; simpl; auto. Qed.

(* what one exposed Write must look like (ib: runtime boundaries, hb: the reduced ones, cs: runtime counts) *)
Definition bucket_good (ib hb : list f64) (cs : list Z) (p : f64 * Z) : Prop :=
  exists B prev, In B hb /\ is_pinf B = false /\ is_fin prev = true /\ flt prev B = true /\
    fst p = nextafter B prev /\ snd p = wrap64 (count_below (fun hi => fle hi B) cs (tl ib)).

Definition write_good (ib hb : list f64) (cs : list Z) (w : wout) : Prop :=
  w_count w = wrap64 (sumZ cs) /\ S (S (length (w_buckets w))) = length hb /\
  Forall (bucket_good ib hb cs) (w_buckets w).

Section OneUpdate.
Variables (pre rest hb' : list f64) (f : f64).
Let ib := pre ++ f :: rest.
Hypothesis Hinc : SS ib.
Hypothesis Hpre : pre = [] \/ pre = [ninf].
Hypothesis Hfin : is_fin f = true.
Hypothesis Hrne : rest <> [].
Hypothesis Hrl : last rest fnan = pinf.
Hypothesis Hsub : sublist hb' rest.
Hypothesis Hhne : hb' <> [].
Hypothesis Hhl : last hb' fnan = pinf.

Lemma SS_f_rest : SS (f :: rest).
Proof. unfold ib in Hinc. eapply SS_app_r. exact Hinc. Qed.

Lemma SS_hb : SS (f :: hb').
Proof. eapply SS_sublist; [|exact SS_f_rest]. constructor. exact Hsub. Qed.

Lemma emb_tl : emb hb' (tl ib).
Proof.
  assert (E : emb hb' rest).
  { apply sublist_emb; auto. eapply SS_tail; exact SS_f_rest. congruence. }
  unfold ib. destruct Hpre as [-> | ->]; simpl; [exact E|]. constructor; assumption.
Qed.

Lemma nonnan_tl : Forall (fun x => is_nan x = false) (tl ib).
Proof.
  assert (N : Forall (fun x => is_nan x = false) (f :: rest)) by (apply SS_nonnan; [exact SS_f_rest|exact Hrne]).
  unfold ib. destruct Hpre as [-> | ->]; simpl; [inversion N; assumption|exact N].
Qed.

Lemma SS_tl : SS (tl ib).
Proof. unfold ib in *. destruct Hpre as [-> | ->]; simpl in *; [eapply SS_tail; exact Hinc|eapply SS_tail; exact Hinc]. Qed.

Lemma update_write_spec h cs s :
  bh_buckets h = f :: hb' -> length (bh_counts h) = length hb' -> S (length cs) = length ib ->
  exists h' w, update h cs ib s = Some h' /\ bh_buckets h' = f :: hb' /\ length (bh_counts h') = length hb' /\
    write h' = Some w /\ write_good ib (f :: hb') cs w.
Proof.
  intros Hb Hc Hlen. unfold update. rewrite update_loop_uloop, Hb, Hc.
  change (skipn 1 (f :: hb')) with hb'. replace (skipn 1 ib) with (tl ib) by (destruct ib; reflexivity).
  destruct (uloop_spec cs (tl ib) hb' (repeat 0 (length hb')) 0 SS_tl nonnan_tl emb_tl)
    as [hc' [E [L [_ [Sm C]]]]].
  { destruct ib; simpl in *; lia. } { rewrite repeat_length. reflexivity. }
  rewrite E. rewrite repeat_length in L.
  set (h' := mkBH (f :: hb') hc' (bh_has_sum h) (if bh_has_sum h then s else bh_sum h)).
  destruct (wloop_spec (bh_has_sum h') (bh_counts h') (f :: hb') 0
              (if bh_has_sum h' then bh_sum h' else pzero) [] SS_hb) as [w [new [Ew [Cn [Bk [Ln Fa]]]]]].
  { rewrite last_cons_ne by exact Hhne. exact Hhl. } { simpl. lia. } { reflexivity. }
  exists h', w. split; [reflexivity|]. split; [reflexivity|]. split; [exact L|]. split.
  { unfold write. rewrite write_loop_wloop. exact Ew. }
  simpl in Bk, Cn, Ln, Fa. split; [|split].
  - rewrite Cn. apply wrap64_eqm. rewrite sumZ_repeat0 in Sm. exact Sm.
  - rewrite Bk, Ln, L. simpl. destruct hb'; [congruence|reflexivity].
  - rewrite Bk. eapply Forall_impl; [|exact Fa]. intros p [k [y0 [y1 [H0 [H1 [H2 [H3 H4]]]]]]].
    exists y1, y0. simpl in H1. repeat split; auto.
    + right. eapply nth_error_In; exact H1.
    + eapply SS_nth_fin; [exact SS_hb|exact Hfin|exact H0|exact H1].
    + eapply SS_nth_lt; [exact SS_hb|exact H0|exact H1].
    + rewrite H4. apply wrap64_eqm. rewrite Z.add_0_l.
      specialize (C k y1 H1). simpl in C. rewrite psum_repeat0 in C. exact C.
Qed.

Lemma run_updates_spec : forall ups h,
  bh_buckets h = f :: hb' -> length (bh_counts h) = length hb' ->
  Forall (fun up => S (length (fst up)) = length ib) ups ->
  exists ws, run_updates h ib ups = Some ws /\ Forall2 (fun up w => write_good ib (f :: hb') (fst up) w) ups ws.
Proof.
  induction ups as [|[cs s] ups IH]; intros h Hb Hc Hall.
  - exists []. split; [reflexivity|constructor].
  - inversion Hall as [|? ? H1 H2]; subst. simpl in H1.
    destruct (update_write_spec h cs s Hb Hc H1) as [h' [w [Eu [Hb' [Hc' [Ew G]]]]]].
    destruct (IH h' Hb' Hc' H2) as [ws [Er Gs]].
    exists (w :: ws). cbn [run_updates]. rewrite Eu, Ew, Er. split; [reflexivity|].
    constructor; [exact G|exact Gs].
Qed.
End OneUpdate.

(* ---------------- the whole pipeline under the precondition ---------------- *)
Definition rebucket_facts (u : unit_t) (ib hb : list f64) : Prop :=
  sublist hb ib /\ strictly_inc hb = true /\ last hb fnan = pinf /\ hd_error hb = first_finite ib /\
  kept_bound u hb.

Lemma precondition_split u ib ups : precondition u ib ups = true ->
  runtime_shape ib = true /\ survives u ib = true /\
  Forall (fun up => S (length (fst up)) = length ib) ups /\
  Forall (fun up => Forall (fun c => 0 <= c < M64) (fst up)) ups.
Proof.
  unfold precondition. intros H. apply andb_prop in H. destruct H as [H H3].
  apply andb_prop in H. destruct H as [H1 H2]. repeat split; auto.
  - rewrite forallb_forall in H3. apply Forall_forall. intros up Hup. apply H3 in Hup.
    apply andb_prop in Hup. destruct Hup as [Hup _]. apply Nat.eqb_eq in Hup. exact Hup.
  - rewrite forallb_forall in H3. apply Forall_forall. intros up Hup. apply H3 in Hup.
    apply andb_prop in Hup. destruct Hup as [_ Hup]. rewrite forallb_forall in Hup.
    apply Forall_forall. intros c Hc. apply Hup in Hc. apply andb_prop in Hc. destruct Hc as [A B].
    apply Z.leb_le in A. apply Z.ltb_lt in B. lia.
Qed.

(* the reduction alone, for any skip predicates that never skip +Inf *)
Lemma rebucket_gen skip2 skip10 u ib :
  (forall b, skip2 b pinf = false) -> (forall b, skip10 b pinf = false) ->
  runtime_shape ib = true -> survives u ib = true ->
  exists red hb, buckets_for_unit_gen skip2 skip10 u ib = Some red /\ strip_ninf red = Some hb /\
    (2 <= length hb)%nat /\ rebucket_facts u ib hb.
Proof.
  intros H2 H10 Hshape Hsurv.
  destruct (reduce_shape skip2 skip10 H2 H10 u ib Hshape Hsurv)
    as [pre [f [rest [hb' [Hff [Hib [Hpre [Hfin [Hrne [Hrl [Hred [Hstrip [Hsub [Hhne [Hhl Hkb]]]]]]]]]]]]]]].
  destruct (shape_split ib Hshape) as [Hinc _]. apply sinc_SS in Hinc.
  exists (pre ++ f :: hb'), (f :: hb'). split; [exact Hred|]. split; [exact Hstrip|].
  split. { destruct hb'; [congruence|simpl; lia]. }
  unfold rebucket_facts. repeat split.
  - rewrite Hib. destruct Hpre as [-> | ->]; simpl; repeat constructor; exact Hsub.
  - apply SS_sinc. rewrite Hib in Hinc. eapply (SS_hb pre rest hb' f); eauto.
  - rewrite last_cons_ne by exact Hhne. exact Hhl.
  - simpl. symmetry. exact Hff.
  - exact Hkb.
Qed.

Lemma run_hist_spec u ib hs ups : precondition u ib ups = true ->
  exists hb ws, run_hist u ib hs ups = Some (hb, ws) /\ (2 <= length hb)%nat /\ rebucket_facts u ib hb /\
    Forall2 (fun up w => write_good ib hb (fst up) w) ups ws.
Proof.
  intros Hpc. destruct (precondition_split u ib ups Hpc) as [Hshape [Hsurv [Hlens _]]].
  destruct (reduce_shape (skip_exp f_two) (skip_exp f_ten) (skip_exp_pinf f_two) (skip_exp_pinf f_ten)
              u ib Hshape Hsurv)
    as [pre [f [rest [hb' [Hff [Hib [Hpre [Hfin [Hrne [Hrl [Hred [Hstrip [Hsub [Hhne [Hhl Hkb]]]]]]]]]]]]]]].
  destruct (shape_split ib Hshape) as [Hinc _]. apply sinc_SS in Hinc.
  assert (Hinc' : SS (pre ++ f :: rest)) by (rewrite <- Hib; exact Hinc).
  set (h := mkBH (f :: hb') (repeat 0 (length hb')) hs pzero).
  destruct (run_updates_spec pre rest hb' f Hinc' Hpre Hfin Hrne Hrl Hsub Hhne Hhl ups h)
    as [ws [Er Gs]]; [reflexivity|apply repeat_length|rewrite <- Hib; exact Hlens|].
  exists (f :: hb'), ws. split.
  { unfold run_hist, buckets_for_unit. rewrite Hred. unfold new_batch_histogram. rewrite Hstrip.
    fold h. rewrite Hib. rewrite Er. reflexivity. }
  split. { destruct hb'; [congruence|simpl; lia]. }
  split.
  { unfold rebucket_facts. repeat split.
    - rewrite Hib. destruct Hpre as [-> | ->]; simpl; repeat constructor; exact Hsub.
    - apply SS_sinc. eapply (SS_hb pre rest hb' f); eauto.
    - rewrite last_cons_ne by exact Hhne. exact Hhl.
    - simpl. symmetry. exact Hff.
    - exact Hkb. }
  rewrite Hib. exact Gs.
Qed.

Lemma Forall2_impl {A B} (P Q : A -> B -> Prop) la lb :
  (forall a b, P a b -> Q a b) -> Forall2 P la lb -> Forall2 Q la lb.
Proof. intros H. induction 1; constructor; auto. Qed.

(* ---- the property clauses ---- *)

(* re-bucketing keeps a strictly increasing sublist of the input boundaries; the first finite boundary is
   kept and +Inf stays last; for seconds nothing finite above 1 is kept. Holds for every skip predicate
   that never skips +Inf (so independently of the floating-point arithmetic inside it). *)
Lemma rebucket_sublist_strict_lemma : forall skip2 skip10 u ib,
  (forall b, skip2 b pinf = false) -> (forall b, skip10 b pinf = false) ->
  runtime_shape ib = true -> survives u ib = true ->
  exists red hb, buckets_for_unit_gen skip2 skip10 u ib = Some red /\ strip_ninf red = Some hb /\
    sublist hb ib /\ strictly_inc hb = true /\ last hb fnan = pinf /\ hd_error hb = first_finite ib /\
    (u = USeconds -> Forall (fun b => b = pinf \/ fle b fone = true) hb).
Proof.
  intros skip2 skip10 u ib H2 H10 Hs Hv.
  destruct (rebucket_gen skip2 skip10 u ib H2 H10 Hs Hv) as [red [hb [A [B [_ [C [D [E [F G]]]]]]]]].
  exists red, hb. repeat split; auto.
Qed.

Lemma rebucket_real_skip_lemma : forall base b, skip_exp base b pinf = false.
Proof. intros. apply skip_exp_pinf. Qed.

Lemma no_index_out_of_range_lemma : forall u ib hs ups,
  precondition u ib ups = true -> exists hb ws, run_hist u ib hs ups = Some (hb, ws).
Proof.
  intros u ib hs ups H. destruct (run_hist_spec u ib hs ups H) as [hb [ws [E _]]]. exists hb, ws. exact E.
Qed.

Lemma update_conserves_total_lemma : forall u ib hs ups hb ws,
  precondition u ib ups = true -> run_hist u ib hs ups = Some (hb, ws) ->
  Forall2 (fun up w => w_count w = wrap64 (sumZ (fst up))) ups ws.
Proof.
  intros u ib hs ups hb ws H E. destruct (run_hist_spec u ib hs ups H) as [hb' [ws' [E' [_ [_ G]]]]].
  rewrite E in E'. inversion E'; subst. eapply Forall2_impl; [|exact G]. intros a b [X _]. exact X.
Qed.

Lemma sumZ_nonneg l : Forall (fun c => 0 <= c < M64) l -> 0 <= sumZ l.
Proof. induction 1; simpl; lia. Qed.

Lemma update_conserves_total_exact_lemma : forall u ib hs ups hb ws,
  precondition u ib ups = true -> run_hist u ib hs ups = Some (hb, ws) ->
  Forall2 (fun up w => sumZ (fst up) < M64 -> w_count w = sumZ (fst up)) ups ws.
Proof.
  intros u ib hs ups hb ws H E. pose proof (update_conserves_total_lemma u ib hs ups hb ws H E) as G.
  destruct (precondition_split u ib ups H) as [_ [_ [_ Hr]]].
  clear H E. revert Hr. induction G as [|up w ups' ws' Huw G IH]; intros Hr; constructor.
  - intros Hlt. rewrite Huw. unfold wrap64. apply Z.mod_small. inversion Hr; subst.
    split; [apply sumZ_nonneg; assumption|exact Hlt].
  - apply IH. inversion Hr; assumption.
Qed.

Lemma cumulative_is_entirely_below_lemma : forall u ib hs ups hb ws,
  precondition u ib ups = true -> run_hist u ib hs ups = Some (hb, ws) ->
  Forall2 (fun up w =>
     S (S (length (w_buckets w))) = length hb /\
     Forall (fun p => exists B prev, In B hb /\ is_pinf B = false /\ is_fin prev = true /\ flt prev B = true /\
                        fst p = nextafter B prev /\
                        snd p = wrap64 (count_below (fun hi => fle hi B) (fst up) (tl ib)))
            (w_buckets w)) ups ws.
Proof.
  intros u ib hs ups hb ws H E. destruct (run_hist_spec u ib hs ups H) as [hb' [ws' [E' [_ [_ G]]]]].
  rewrite E in E'. inversion E'; subst. eapply Forall2_impl; [|exact G]. intros a b [_ [X Y]]. split; assumption.
Qed.

(* ---------------- the model satisfies the executable specification checker ---------------- *)
Lemma is_sublist_PQ : forall b,
  (forall a x, is_sublist (x :: a) b = true -> is_sublist a b = true) /\
  (forall a y, is_sublist a b = true -> is_sublist a (y :: b) = true).
Proof.
  assert (PQ : forall b, (forall a x, is_sublist (x :: a) b = true -> is_sublist a b = true) ->
                         (forall a y, is_sublist a b = true -> is_sublist a (y :: b) = true)).
  { intros b P [|a0 a] y H; [reflexivity|]. simpl. destruct (fbits_eq a0 y); [eapply P; exact H|exact H]. }
  induction b as [|y b [P Q]].
  - assert (P0 : forall a x, is_sublist (x :: a) [] = true -> is_sublist a [] = true) by (intros; discriminate).
    split; [exact P0|apply PQ; exact P0].
  - assert (P1 : forall a x, is_sublist (x :: a) (y :: b) = true -> is_sublist a (y :: b) = true).
    { intros a x H. simpl in H. destruct (fbits_eq x y).
      - apply Q. exact H.
      - apply Q. eapply P. exact H. }
    split; [exact P1|apply PQ; exact P1].
Qed.

Lemma sublist_is_sublist a b : sublist a b -> is_sublist a b = true.
Proof.
  induction 1 as [l|x a b H IH|y a b H IH].
  - destruct l; reflexivity.
  - simpl. unfold fbits_eq. rewrite Z.eqb_refl. exact IH.
  - apply (proj2 (is_sublist_PQ b)). exact IH.
Qed.

Lemma rebucket_facts_ok u ib hb : (2 <= length hb)%nat -> rebucket_facts u ib hb -> rebucket_ok u ib hb = true.
Proof.
  intros Hlen [Hsub [Hinc [Hl [Hhd Hkb]]]].
  destruct hb as [|h0 r]; [simpl in Hlen; lia|]. simpl in Hhd.
  assert (Hsec : match u with USeconds => forallb (fun b => is_pinf b || fle b fone) (h0 :: r) | _ => true end = true).
  { destruct u; try reflexivity.
    apply forallb_forall. intros b Hb. specialize (Hkb eq_refl). rewrite Forall_forall in Hkb.
    destruct (Hkb b Hb) as [-> | E]; [reflexivity|]. rewrite E. apply orb_true_r. }
  unfold rebucket_ok. rewrite (sublist_is_sublist _ ib Hsub), Hinc, Hl, <- Hhd, Hsec.
  unfold fbits_eq. rewrite Z.eqb_refl. reflexivity.
Qed.

Lemma count_below_ext t1 t2 cs l : (forall hi, t1 hi = t2 hi) -> count_below t1 cs l = count_below t2 cs l.
Proof. intros H. revert l. induction cs as [|c cs IH]; intros [|x l]; simpl; auto. rewrite H, IH. reflexivity. Qed.

Lemma write_good_ok ib hb cs w : write_good ib hb cs w -> write_ok ib cs w = true.
Proof.
  intros [Hc [_ Hb]]. unfold write_ok. rewrite Hc, Z.eqb_refl. simpl.
  apply forallb_forall. intros p Hp. rewrite Forall_forall in Hb.
  destruct (Hb p Hp) as [B [prev [_ [HB [Fp [Hlt [Hf Hs]]]]]]].
  rewrite Hs, Hf. apply Z.eqb_eq. f_equal. apply count_below_ext. intros hi.
  symmetry. apply entirely_below_exposed; assumption.
Qed.

Lemma Forall2_forallb_combine {A B} (P : A -> B -> Prop) (g : A * B -> bool) la lb :
  (forall a b, P a b -> g (a, b) = true) -> Forall2 P la lb -> forallb g (combine la lb) = true.
Proof. intros H. induction 1; simpl; [reflexivity|]. rewrite (H _ _ H0), IHForall2. reflexivity. Qed.

Lemma Forall2_len {A B} (P : A -> B -> Prop) la lb : Forall2 P la lb -> length lb = length la.
Proof. induction 1; simpl; congruence. Qed.

Lemma model_satisfies_spec_lemma : forall u ib hs ups, spec_ok u ib ups (run_hist u ib hs ups) = true.
Proof.
  intros u ib hs ups. unfold spec_ok. destruct (precondition u ib ups) eqn:Hpc; [|reflexivity].
  destruct (run_hist_spec u ib hs ups Hpc) as [hb [ws [E [Hlen [Hf G]]]]]. rewrite E.
  rewrite (rebucket_facts_ok u ib hb Hlen Hf). simpl.
  rewrite (Forall2_len _ _ _ G), Nat.eqb_refl. simpl.
  eapply Forall2_forallb_combine; [|exact G]. intros a b H. simpl. eapply write_good_ok. exact H.
Qed.

(* ---------------- rules ---------------- *)
Lemma rule_semantics_lemma : forall rules, match_rules rules = rule_spec rules.
Proof.
  intros rules. unfold match_rules, rule_spec. rewrite <- fold_left_rev_right.
  induction (rev rules) as [|r l IH]; [reflexivity|].
  simpl. destruct (fst r); [reflexivity|exact IH].
Qed.

(* a rule list ending in a matching rule is decided by that rule; without any matching rule: denied *)
Lemma rule_last_wins_lemma : forall rules m d, match_rules (rules ++ [(m, d)]) = if m then d else match_rules rules.
Proof. intros. unfold match_rules. rewrite fold_left_app. reflexivity. Qed.

Lemma rule_default_deny_lemma : forall rules, Forall (fun r => fst r = false) rules -> match_rules rules = true.
Proof.
  intros rules H. rewrite rule_semantics_lemma. unfold rule_spec.
  assert (E : find (fun r : bool * bool => fst r) (rev rules) = None).
  { rewrite Forall_forall in H.
    assert (G : forall x, In x (rev rules) -> fst x = false) by (intros x Hx; apply in_rev in Hx; auto).
    induction (rev rules) as [|r l IH]; [reflexivity|]. simpl. rewrite (G r) by (left; reflexivity).
    apply IH. intros x Hx. apply G. right. exact Hx. }
  rewrite E. reflexivity.
Qed.

Lemma filter_sublist {A} (p : A -> bool) l : sublist (filter p l) l.
Proof. induction l; simpl; [constructor|]. destruct (p a); constructor; assumption. Qed.

Lemma sublist_map {A B} (g : A -> B) a b : sublist a b -> sublist (map g a) (map g b).
Proof. induction 1; simpl; constructor; auto. Qed.

(* the exposed descriptions keep the order of metrics.All() and are exactly the not-denied ones *)
Lemma match_all_order_lemma : forall (A : Type) (all : list (A * list (bool * bool))),
  sublist (match_all all) (map fst all) /\
  forall d, In d (filter (fun d => negb (match_rules (snd d))) all) <-> In d all /\ rule_spec (snd d) = false.
Proof.
  intros A all. split.
  - unfold match_all. apply sublist_map. apply filter_sublist.
  - intros d. rewrite filter_In, rule_semantics_lemma. rewrite negb_true_iff. reflexivity.
Qed.

(* metric i of the exposed set reads sample i of the buffer *)
Lemma build_sets_app {A} : forall (descs : list (A * bool)) sb ms,
  exists x, build_sets descs sb ms = (sb ++ x, ms ++ x).
Proof.
  induction descs as [|[d ok] r IH]; intros sb ms.
  - exists []. simpl. rewrite !app_nil_r. reflexivity.
  - simpl. destruct ok.
    + destruct (IH (sb ++ [d]) (ms ++ [d])) as [x E]. exists (d :: x). rewrite E, <- !app_assoc. reflexivity.
    + apply IH.
Qed.

Lemma index_correspondence_lemma : forall (A : Type) (descs : list (A * bool)) (extra : list A) sb ms,
  sample_buf_of descs extra = (sb, ms) ->
  forall i, (i < length ms)%nat -> nth_error sb i = nth_error ms i.
Proof.
  intros A descs extra sb ms H i Hi. unfold sample_buf_of in H.
  destruct (build_sets_app descs [] []) as [x E]. rewrite E in H. simpl in H. inversion H; subst.
  rewrite nth_error_app1 by exact Hi. reflexivity.
Qed.

(* ---------------- name derivation: the transcription equals the documented scheme ---------------- *)
Definition slash_us (s : str) : str := map (fun c => if Z.eqb c c_slash then c_us else c) s.

Lemma replace_byte_single from to s :
  replace_byte from [to] s = map (fun c => if Z.eqb c from then to else c) s.
Proof. unfold replace_byte. induction s as [|c r IH]; simpl; [reflexivity|]. rewrite IH. destruct (c =? from); reflexivity. Qed.

Lemma split_slash_nonempty s cur : split_slash s cur <> [].
Proof. revert cur. induction s as [|c r IH]; intros cur; simpl; [congruence|]. destruct (c =? c_slash); [congruence|apply IH]. Qed.

Lemma join_us_cons x l : l <> [] -> join_us (x :: l) = x ++ [c_us] ++ join_us l.
Proof. destruct l; [congruence|reflexivity]. Qed.

Lemma join_split s : forall cur, forallb (fun c => negb (Z.eqb c c_slash)) cur = true ->
  join_us (map dash_us (split_slash s cur)) = dash_us (slash_us (rev cur ++ s)).
Proof.
  induction s as [|c r IH]; intros cur Hc.
  - simpl. rewrite app_nil_r. unfold slash_us. f_equal. symmetry.
    rewrite <- (map_id (rev cur)) at 2. apply map_ext_in. intros a Ha. apply in_rev in Ha.
    rewrite forallb_forall in Hc. apply Hc in Ha. destruct (a =? c_slash); [discriminate|reflexivity].
  - simpl. destruct (c =? c_slash) eqn:E.
    + simpl map. rewrite join_us_cons.
      2:{ intros H. apply map_eq_nil in H. revert H. apply split_slash_nonempty. }
      rewrite (IH [] eq_refl). simpl rev. simpl app at 3.
      unfold slash_us, dash_us. rewrite !map_app. simpl. rewrite E. simpl.
      f_equal.
      * f_equal. rewrite <- (map_id (rev cur)) at 1. apply map_ext_in. intros a Ha. apply in_rev in Ha.
        rewrite forallb_forall in Hc. apply Hc in Ha. destruct (a =? c_slash); [discriminate|reflexivity].
    + rewrite (IH (c :: cur)).
      * simpl rev. rewrite <- app_assoc. reflexivity.
      * simpl. rewrite E. exact Hc.
Qed.

Lemma split_last_slash_spec s dir base : split_last_slash s = Some (dir, base) ->
  s = dir ++ c_slash :: base /\ forallb (fun c => negb (Z.eqb c c_slash)) base = true.
Proof.
  revert dir base. induction s as [|c r IH]; intros dir base H; [discriminate|].
  simpl in H. destruct (split_last_slash r) as [[a b]|] eqn:E.
  - inversion H; subst. destruct (IH a base eq_refl) as [E1 E2]. split; [rewrite E1; reflexivity|exact E2].
  - destruct (c =? c_slash) eqn:Ec; [|discriminate]. inversion H; subst. apply Z.eqb_eq in Ec. subst c.
    split; [reflexivity|].
    clear H IH. induction base as [|x l IHl]; [reflexivity|]. simpl in E.
    destruct (split_last_slash l) as [[a b]|]; [discriminate|]. destruct (x =? c_slash) eqn:Ex; [discriminate|].
    simpl. rewrite Ex. simpl. apply IHl. reflexivity.
Qed.

Lemma unit_replace u :
  replace_byte c_slash s_per (replace_byte c_star [c_us] (replace_byte c_dash [c_us] u))
  = flat_map (fun c => if Z.eqb c c_slash then s_per else if Z.eqb c c_dash || Z.eqb c c_star then [c_us] else [c]) u.
Proof.
  rewrite !replace_byte_single. unfold replace_byte. rewrite !flat_map_concat_map, !map_map. f_equal.
  apply map_ext. intros c.
  destruct (c =? c_dash) eqn:E1.
  - apply Z.eqb_eq in E1. subst c. reflexivity.
  - destruct (c =? c_star) eqn:E2.
    + apply Z.eqb_eq in E2. subst c. reflexivity.
    + simpl. reflexivity.
Qed.

Lemma name_model_is_spec_lemma : forall n c k fq v,
  runtime_metrics_to_prom n c k = Some (fq, v) -> name_spec n c k = Some fq.
Proof.
  intros n c k fq v H. unfold runtime_metrics_to_prom, name_spec in *.
  destruct (split_colon n) as [key [unit|]]; [|discriminate].
  destruct (clean_key key); [|discriminate].
  destruct (split_last_slash (tl key)) as [[dir base]|] eqn:E; [|discriminate].
  inversion H; subst; clear H. f_equal.
  destruct (split_last_slash_spec _ _ _ E) as [Ek Hb].
  rewrite join_us_cons by (intros H; apply map_eq_nil in H; revert H; apply split_slash_nonempty).
  rewrite (join_split (tl key) [] eq_refl). simpl rev. simpl app at 2.
  rewrite Ek. rewrite unit_replace. rewrite !replace_byte_single.
  unfold slash_us, dash_us. rewrite !map_app. simpl map.
  assert (Eb : map (fun c0 => if c0 =? c_slash then c_us else c0) base = base).
  { rewrite <- (map_id base) at 2. apply map_ext_in. intros a Ha. rewrite forallb_forall in Hb.
    apply Hb in Ha. destruct (a =? c_slash); [discriminate|reflexivity]. }
  rewrite Eb. destruct (c && negb (k =? 3)); simpl; repeat (rewrite <- app_assoc; simpl); rewrite ?app_nil_r; reflexivity.
Qed.

(* the hypotheses are satisfiable: a runtime-like seconds histogram with -Inf first *)
Definition ex_ib : list f64 := [ninf; of_Z 0; of_ZE 1 (-10); of_ZE 1 (-9); of_ZE 1 (-3); of_ZE 1 (-1); of_Z 1; of_Z 5; of_Z 50; pinf].
Definition ex_ups : list (list Z * f64) := [([1; 2; 3; 4; 5; 6; 7; 8; 9], pzero); ([1; 2; 3; 4; 5; 6; 7; 8; 2 ^ 64 - 1], pzero)].

Lemma example_precondition_lemma : precondition USeconds ex_ib ex_ups = true /\ precondition UBytes ex_ib ex_ups = true.
Proof. split; vm_compute; reflexivity. Qed.

Lemma example_run_lemma :
  option_map (fun o => (length (fst o), map w_count (snd o), map (fun w => map snd (w_buckets w)) (snd o)))
             (run_hist USeconds ex_ib false ex_ups)
  = Some (4%nat, [45; 35], [[3; 10]; [3; 10]]).
Proof. vm_compute. reflexivity. Qed.
