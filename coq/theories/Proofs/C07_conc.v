(* Proofs/C07_conc.v -- real-time linearizability of the metric vector under the interleaving semantics
   of Base/Conc.v (one step = one critical section of metricMap), for ANY hash, ANY programs and ANY
   schedule.  Part 1 restates the generic facts about Base/Conc.v (timing invariant; the same lemmas as
   in Proofs/C01_proofs.v section Gen, repeated here so that C07 does not depend on C01's proofs).
   Part 2 is the vector. *)
From Coq Require Import ZArith List Bool Lia Sorted Permutation.
From Verif Require Import Base.Str Model.Vec Proofs.C07_proofs Model.CounterGauge Model.VecConc Base.Conc.
Import ListNotations.
Open Scope Z_scope.

(* sequential replay of a specification over a list of operations: final state and all results *)
Fixpoint seq_replay {St O R : Type} (f : St -> O -> St * R) (s : St) (ops : list O) : St * list R :=
  match ops with
  | [] => (s, [])
  | o :: r => let (s1, x) := f s o in let (s2, xs) := seq_replay f s1 r in (s2, x :: xs)
  end.

Definition res_le {M} (a b : call M) : Prop := c_res a <= c_res b.
Definition res_lt {M} (a b : call M) : Prop := c_res a < c_res b.

Lemma seq_replay_app {St O R} (f : St -> O -> St * R) l1 : forall s l2,
  seq_replay f s (l1 ++ l2) =
  (let (s1, r1) := seq_replay f s l1 in let (s2, r2) := seq_replay f s1 l2 in (s2, r1 ++ r2)).
Proof.
  induction l1 as [|o r IH]; intros s l2; cbn [seq_replay app].
  - destruct (seq_replay f s l2); reflexivity.
  - destruct (f s o) as [s1 x]. rewrite IH. destruct (seq_replay f s1 r) as [s2 xs].
    destruct (seq_replay f s2 l2); reflexivity.
Qed.

Lemma Forall_set_nth {A} (P : A -> Prop) (l : list A) : forall n x,
  Forall P l -> P x -> Forall P (set_nth l n x).
Proof.
  induction l as [|y r IH]; intros n x HF Hx; cbn [set_nth].
  - destruct n; constructor.
  - inversion HF; subst. destruct n; constructor; auto.
Qed.

Lemma Forall_nth_error {A} (P : A -> Prop) (l : list A) n x :
  Forall P l -> nth_error l n = Some x -> P x.
Proof. intros HF Hn. rewrite Forall_forall in HF. apply HF. eapply nth_error_In; eauto. Qed.

Lemma Forall_mono {A} (P Q : A -> Prop) (l : list A) :
  (forall x, P x -> Q x) -> Forall P l -> Forall Q l.
Proof. intros H HF. eapply Forall_impl; eauto. Qed.

Lemma ss_snoc {A} (R : A -> A -> Prop) (h : list A) k :
  StronglySorted R h -> Forall (fun a => R a k) h -> StronglySorted R (h ++ [k]).
Proof.
  induction h as [|a r IH]; intros HS HF; cbn [app].
  - constructor; constructor.
  - inversion HS; subst. inversion HF; subst. constructor; [auto|].
    apply Forall_app; split; [assumption|constructor; [assumption|constructor]].
Qed.

Lemma ss_app {A} (R : A -> A -> Prop) (h l : list A) :
  StronglySorted R h -> StronglySorted R l -> Forall (fun a => Forall (R a) l) h ->
  StronglySorted R (h ++ l).
Proof.
  induction h as [|a r IH]; intros HS HL HF; cbn [app]; [assumption|].
  inversion HS; subst. inversion HF; subst. constructor; [auto|].
  apply Forall_app; split; assumption.
Qed.

Lemma ss_nth {A} (R : A -> A -> Prop) (h : list A) : StronglySorted R h ->
  forall i j a b, nth_error h i = Some a -> nth_error h j = Some b -> (i < j)%nat -> R a b.
Proof.
  induction 1 as [|x r HS IH HF]; intros i j a b Hi Hj Hlt.
  - destruct i; discriminate.
  - destruct j as [|j]; [lia|]. destruct i as [|i]; cbn [nth_error] in *.
    + inversion Hi; subst. rewrite Forall_forall in HF. apply HF. eapply nth_error_In; eauto.
    + eapply IH; eauto. lia.
Qed.

(* ====================================================================== *)
(* 1. generic facts about the interleaving semantics                       *)
Section Gen.
Variable M : machine.

Lemma run_sched_ind (P : config M -> Prop) :
  (forall c tid c', P c -> sched_step M c tid = Some c' -> P c') ->
  forall sched c, P c -> P (run_sched M c sched).
Proof.
  intros Hstep sched. induction sched as [|t r IH]; intros c Hc; cbn [run_sched]; [assumption|].
  destruct (sched_step M c t) as [c'|] eqn:E; [apply IH; eapply Hstep; eauto|apply IH; assumption].
Qed.

(* what one schedule entry does *)
Lemma sched_step_cases c tid c' : sched_step M c tid = Some c' ->
  exists t o l inv s' nxt,
    nth_error (thr c) (Z.to_nat tid) = Some t /\ t_cur t = Some (o, l, inv) /\
    step M (sh c) l = Some (s', nxt) /\ sh c' = s' /\ now c' = now c + 1 /\
    match nxt with
    | inl l' => hist c' = hist c /\
                thr c' = set_nth (thr c) (Z.to_nat tid) (mkThread M (t_todo t) (Some (o, l', inv)) (t_idx t))
    | inr r => exists t' cs, advance M tid (t_todo t) (t_idx t + 1) (now c + 1) = (t', cs) /\
                hist c' = hist c ++ mkCall tid (t_idx t) o r inv (now c + 1) :: cs /\
                thr c' = set_nth (thr c) (Z.to_nat tid) t'
    end.
Proof.
  unfold sched_step. intros H.
  destruct (nth_error (thr c) (Z.to_nat tid)) as [t|] eqn:Ht; [|discriminate].
  destruct (t_cur t) as [[[o l] inv]|] eqn:Hc; [|discriminate].
  destruct (step M (sh c) l) as [[s' nxt]|] eqn:Hs; [|discriminate].
  exists t, o, l, inv, s', nxt.
  destruct nxt as [l'|r].
  - injection H as <-. cbn. repeat split; auto.
  - destruct (advance M tid (t_todo t) (t_idx t + 1) (now c + 1)) as [t' cs] eqn:Ha.
    injection H as <-. cbn. repeat split; auto. exists t', cs. repeat split; reflexivity.
Qed.

(* a call that returned without executing a step, at time `time` *)
Definition imm (time : Z) (k : call M) : Prop :=
  c_inv k = time /\ c_res k = time /\ start M (c_op k) = inr (c_ret k).
(* a thread as left by `advance` at time `time` *)
Definition fresh (time : Z) (t : thread M) : Prop :=
  match t_cur t with Some (o, l, inv) => inv = time /\ start M o = inl l | None => t_todo t = [] end.

Lemma advance_spec tid todo : forall idx time t cs,
  advance M tid todo idx time = (t, cs) -> fresh time t /\ Forall (imm time) cs.
Proof.
  induction todo as [|o rest IH]; intros idx time t cs H; cbn [advance] in H.
  - inversion H; subst. split; [reflexivity|constructor].
  - destruct (start M o) as [l|r] eqn:Hs.
    + inversion H; subst. split; [cbn; auto|constructor].
    + destruct (advance M tid rest (idx + 1) time) as [t0 cs0] eqn:Ha.
      inversion H; subst. destruct (IH _ _ _ _ Ha) as [H1 H2]. split; [assumption|].
      constructor; [|assumption]. repeat split; assumption.
Qed.

(* the initial configuration, with the thread ids abstracted *)
Definition init_pairs (progs : list (list (op M))) : list (Z * list (op M)) :=
  combine (map Z.of_nat (seq 0 (length progs))) progs.

Lemma init_pairs_snd progs : map snd (init_pairs progs) = progs.
Proof.
  assert (H : forall (l : list (list (op M))) (ids : list Z), length ids = length l -> map snd (combine ids l) = l).
  { induction l as [|p r IH]; intros [|i ids] Hl; cbn in *; try reflexivity; try discriminate.
    f_equal. apply IH. lia. }
  unfold init_pairs. apply H. rewrite map_length, seq_length. reflexivity.
Qed.

Lemma init_thr s0 progs :
  thr (init_config M s0 progs) = map (fun p => fst (advance M (fst p) (snd p) 0 0)) (init_pairs progs).
Proof. unfold init_config, init_pairs. cbn [thr]. rewrite map_map. reflexivity. Qed.
Lemma init_hist s0 progs :
  hist (init_config M s0 progs) = concat (map (fun p => snd (advance M (fst p) (snd p) 0 0)) (init_pairs progs)).
Proof. unfold init_config, init_pairs. cbn [hist]. rewrite map_map. reflexivity. Qed.

Lemma init_fresh s0 progs :
  Forall (fresh 0) (thr (init_config M s0 progs)) /\ Forall (imm 0) (hist (init_config M s0 progs)).
Proof.
  rewrite init_thr, init_hist. induction (init_pairs progs) as [|p r [IH1 IH2]]; cbn [map concat].
  - split; constructor.
  - destruct (advance M (fst p) (snd p) 0 0) as [t cs] eqn:Ha. destruct (advance_spec _ _ _ _ _ _ Ha) as [H1 H2].
    cbn [fst snd]. split; [constructor; assumption|apply Forall_app; split; assumption].
Qed.

(* ---- timing invariant ---- *)
Definition thr_ok (n : Z) (t : thread M) : Prop :=
  match t_cur t with
  | Some (o, l, inv) => 0 <= inv <= n /\ exists l0, start M o = inl l0
  | None => t_todo t = []
  end.

Definition call_ok (n : Z) (k : call M) : Prop :=
  0 <= c_inv k /\ c_res k <= n /\
  ((c_inv k = c_res k /\ start M (c_op k) = inr (c_ret k)) \/
   (c_inv k < c_res k /\ (exists l0, start M (c_op k) = inl l0) /\
    exists s l s', step M s l = Some (s', inr (c_ret k)))).

Definition GI (c : config M) : Prop :=
  0 <= now c /\ Forall (thr_ok (now c)) (thr c) /\ Forall (call_ok (now c)) (hist c) /\
  StronglySorted res_le (hist c).

Lemma thr_ok_mono n n' t : n <= n' -> thr_ok n t -> thr_ok n' t.
Proof. unfold thr_ok. destruct (t_cur t) as [[[o l] inv]|]; [|auto]. intros Hn [H1 H2]. split; [lia|assumption]. Qed.
Lemma call_ok_mono n n' k : n <= n' -> call_ok n k -> call_ok n' k.
Proof. unfold call_ok. intros Hn (H1 & H2 & H3). repeat split; try assumption; lia. Qed.

Lemma fresh_thr_ok time t : 0 <= time -> fresh time t -> thr_ok time t.
Proof.
  unfold fresh, thr_ok. destruct (t_cur t) as [[[o l] inv]|]; [|auto].
  intros Ht [H1 H2]. subst. split; [lia|eauto].
Qed.
Lemma imm_call_ok time k : 0 <= time -> imm time k -> call_ok time k.
Proof. unfold imm, call_ok. intros Ht (H1 & H2 & H3). repeat split; try lia. left. split; [lia|assumption]. Qed.

Lemma ss_all_eq (n : Z) (l : list (call M)) : Forall (fun k => c_res k = n) l -> StronglySorted res_le l.
Proof.
  induction 1 as [|k r Hk HF IH]; constructor; [assumption|].
  eapply Forall_mono; [|exact HF]. intros x Hx. unfold res_le. cbn beta in *. lia.
Qed.

Lemma ss_app_later (n : Z) (h l : list (call M)) :
  StronglySorted res_le h -> Forall (fun k => c_res k <= n) h -> Forall (fun k => c_res k = n + 1) l ->
  StronglySorted res_le (h ++ l).
Proof.
  intros HS HF HL. apply ss_app; [assumption|eapply ss_all_eq; eassumption|].
  eapply Forall_mono; [|exact HF]. intros a Ha. eapply Forall_mono; [|exact HL].
  intros b Hb. unfold res_le. cbn beta in *. lia.
Qed.

Lemma GI_init s0 progs : GI (init_config M s0 progs).
Proof.
  destruct (init_fresh s0 progs) as [H1 H2].
  assert (Hn : now (init_config M s0 progs) = 0) by reflexivity.
  unfold GI. rewrite Hn. repeat split; try lia.
  - eapply Forall_mono; [|exact H1]. intros t. apply fresh_thr_ok. lia.
  - eapply Forall_mono; [|exact H2]. intros k. apply imm_call_ok. lia.
  - apply (ss_all_eq 0). eapply Forall_mono; [|exact H2]. intros k (_ & H & _). exact H.
Qed.

Lemma GI_step c tid c' : GI c -> sched_step M c tid = Some c' -> GI c'.
Proof.
  intros (Hn & HT & HH & HS) Hstep.
  destruct (sched_step_cases _ _ _ Hstep) as (t & o & l & inv & s' & nxt & Ht & Hcur & Hs & Hsh & Hnow & Hrest).
  pose proof (Forall_nth_error _ _ _ _ HT Ht) as Htok. unfold thr_ok in Htok. rewrite Hcur in Htok.
  destruct Htok as [Hinv Hst].
  assert (HT' : Forall (thr_ok (now c')) (thr c))
    by (eapply Forall_mono; [|exact HT]; intros x; apply thr_ok_mono; lia).
  assert (HH' : Forall (call_ok (now c')) (hist c))
    by (eapply Forall_mono; [|exact HH]; intros x; apply call_ok_mono; lia).
  destruct nxt as [l'|r].
  - destruct Hrest as [Hh Hth]. unfold GI. rewrite Hh, Hth. repeat split; try lia; try assumption.
    apply Forall_set_nth; [assumption|]. unfold thr_ok. cbn [t_cur]. split; [lia|assumption].
  - destruct Hrest as (t' & cs & Ha & Hh & Hth). destruct (advance_spec _ _ _ _ _ _ Ha) as [Hf Hcs].
    unfold GI. rewrite Hh, Hth. repeat split; try lia.
    + apply Forall_set_nth; [assumption|]. rewrite Hnow. apply fresh_thr_ok; [lia|assumption].
    + apply Forall_app; split; [assumption|]. constructor.
      * unfold call_ok. cbn [c_inv c_res c_op c_ret]. repeat split; try lia. right. repeat split; try lia; eauto.
      * rewrite Hnow. eapply Forall_mono; [|exact Hcs]. intros k. apply imm_call_ok. lia.
    + apply (ss_app_later (now c)); [assumption| |].
      * eapply Forall_mono; [|exact HH]. intros k (_ & H & _). exact H.
      * constructor; [reflexivity|]. eapply Forall_mono; [|exact Hcs]. intros k (_ & H & _). exact H.
Qed.

Lemma GI_reachable s0 progs sched : GI (run_sched M (init_config M s0 progs) sched).
Proof. apply run_sched_ind; [intros; eapply GI_step; eauto|apply GI_init]. Qed.

End Gen.

(* ====================================================================== *)
(* 2. the vector                                                           *)
(* ====================================================================== *)
Section VecLin.
Variable H : values -> Z.   (* any hash of the full tuple *)
Notation vM := (vec_machine H).

Lemma v_imm_nil time (cs : list (call vM)) : Forall (imm vM time) cs -> cs = [].
Proof. destruct cs as [|k r]; [reflexivity|]. intros HF. inversion HF as [|? ? (_ & _ & Hs) _]; subst. discriminate. Qed.

(* the call in progress remembers its own request *)
Definition v_thr_ok (t : thread vM) : Prop :=
  match t_cur t with Some (o, l, _) => fst l = o | None => True end.

Lemma v_fresh_ok time (t : thread vM) : fresh vM time t -> v_thr_ok t.
Proof.
  unfold fresh, v_thr_ok. destruct (t_cur t) as [[[o l] inv]|]; [|trivial].
  intros [_ Hs]. cbn in Hs. unfold vec_start in Hs. inversion Hs; subst. reflexivity.
Qed.

Lemma spec_result_refl s q s' r : vec_spec_step s q = (s', r) -> cres_eqb r r = true.
Proof.
  unfold vec_spec_step. destruct q as [t|t|p| |]; cbn [sreq].
  - unfold s_get. destruct (alookup t (s_map s)); intros E; inversion E; subst; cbn; apply Nat.eqb_refl.
  - unfold s_del. destruct (alookup t (s_map s)); intros E; inversion E; subst; reflexivity.
  - intros E; inversion E; subst. cbn. apply Z.eqb_refl.
  - intros E; inversion E; subst. reflexivity.
  - intros E; inversion E; subst. cbn. apply entries_eqb_refl.
Qed.

(* one critical section: a probe that misses changes nothing; a section in which the call returns has
   exactly the effect and the result of the call on the plain map AT THAT STEP *)
Lemma vec_step_lin st s q p st' nxt : Rc H st s -> vec_step H st (q, p) = Some (st', nxt) ->
  match nxt with
  | inl l' => st' = st /\ fst l' = q
  | inr r => exists s', vec_spec_step s q = (s', r) /\ Rc H st' s'
  end.
Proof.
  intros (I & P & N) E. unfold vec_step in E. unfold vec_spec_step. destruct q as [t|t|q| |]; cbn [sreq].
  - destruct p.
    + assert (G := get_tuple_refines H st s t (vals_eqb t) I P N (pred_is_eqb t)).
      rewrite (get_or_create_eq H t (vals_eqb t) st I (pred_is_eqb t)) in G.
      destruct (sec_create (H t) (vals_eqb t) t st) as [id st1]. inversion E; subst.
      destruct (s_get t s) as [x s1]. destruct G as (A & B & C & D & _). subst x.
      exists s1. split; [reflexivity|]. split; [exact B|split; [exact C|exact D]].
    + destruct (probe (H t) (vals_eqb t) st) as [id|] eqn:Ep; inversion E; subst.
      * rewrite (probe_spec H t (vals_eqb t) st' I (pred_is_eqb t)) in Ep.
        unfold s_get. rewrite <- (alookup_perm t _ _ (inv_keys H _ I) P), Ep.
        exists s. split; [reflexivity|]. split; [exact I|split; [exact P|exact N]].
      * split; reflexivity.
  - assert (G := del_tuple_refines H st s t (vals_eqb t) I P N (pred_is_eqb t)).
    destruct (delete_by_hash (H t) (vals_eqb t) st) as [b st1]. inversion E; subst.
    destruct (s_del t s) as [x s1]. destruct G as (A & B & C & D & _). subst x.
    exists s1. split; [reflexivity|]. split; [exact B|split; [exact C|exact D]].
  - assert (G := partial_refines H st (s_map s) q q I P (fun v => eq_refl)).
    destruct (delete_partial q st) as [n st1]. inversion E; subst. destruct G as (A & B & C & D). subst n.
    eexists. split; [reflexivity|]. split; [exact B|split; [exact C|cbn; lia]].
  - inversion E; subst. eexists. split; [reflexivity|]. split; [apply reset_inv|split; [constructor|exact N]].
  - inversion E; subst. exists s. split; [|split; [exact I|split; [exact P|exact N]]].
    cbn [to_result]. unfold collect. rewrite (sort_by_id_perm_eq _ _ P (inv_idnodup H _ I)). reflexivity.
Qed.

Definition v_replay (c : config vM) : Prop :=
  exists s, seq_replay vec_spec_step init_sworld_c (map (@c_op vM) (hist c)) = (s, map (@c_ret vM) (hist c)) /\
            Rc H (sh c) s.

Definition VInv (c : config vM) : Prop :=
  GI vM c /\ Forall v_thr_ok (thr c) /\ v_replay c /\
  StronglySorted res_lt (hist c) /\ Forall (fun k : call vM => c_inv k < c_res k) (hist c).

Lemma VInv_init progs : VInv (init_config vM (mkM [] 0) progs).
Proof.
  destruct (init_fresh vM (mkM [] 0) progs) as [H1 H2].
  pose proof (v_imm_nil _ _ H2) as Hnil.
  unfold VInv, v_replay. split; [apply GI_init|]. rewrite Hnil. repeat split.
  - eapply Forall_mono; [|exact H1]. intros t. apply v_fresh_ok.
  - exists init_sworld_c. split; [reflexivity|]. apply Rc_init.
  - constructor.
  - constructor.
Qed.

Lemma VInv_step c tid c' : VInv c -> sched_step vM c tid = Some c' -> VInv c'.
Proof.
  intros (HG & HT & HR & HS & HL) Hstep.
  pose proof (GI_step _ _ _ _ HG Hstep) as HG'.
  destruct (sched_step_cases _ _ _ _ Hstep) as (t & o & l & inv & s' & nxt & Ht & Hcur & Hs & Hsh & Hnow & Hrest).
  pose proof (Forall_nth_error _ _ _ _ HT Ht) as Hlo. unfold v_thr_ok in Hlo. rewrite Hcur in Hlo.
  destruct HG as (Hn & HGT & HGH & _).
  pose proof (Forall_nth_error _ _ _ _ HGT Ht) as Htk. unfold thr_ok in Htk. rewrite Hcur in Htk. destruct Htk as [Hinv _].
  destruct HR as (s & HR & HRc).
  change (step vM (sh c) l) with (vec_step H (sh c) l) in Hs. destruct l as [q p]. cbn [fst] in Hlo. subst q.
  pose proof (vec_step_lin _ _ _ _ _ _ HRc Hs) as Hlin.
  unfold VInv. split; [exact HG'|]. unfold v_replay.
  destruct nxt as [l'|r].
  - destruct Hrest as [Hh Hth]. destruct Hlin as [Hst Hq]. rewrite Hh, Hth, Hsh, Hst. repeat split; try assumption.
    + apply Forall_set_nth; [assumption|]. unfold v_thr_ok. cbn [t_cur]. exact Hq.
    + exists s. split; assumption.
  - destruct Hrest as (t' & cs & Ha & Hh & Hth). destruct (advance_spec _ _ _ _ _ _ _ Ha) as [Hf Hcs].
    pose proof (v_imm_nil _ _ Hcs) as Hnil. subst cs. rewrite Hh, Hth.
    destruct Hlin as (s1 & Hspec & HRc1).
    repeat split.
    + apply Forall_set_nth; [assumption|]. eapply v_fresh_ok; eassumption.
    + exists s1. split; [|rewrite Hsh; exact HRc1].
      rewrite !map_app, seq_replay_app, HR. cbn [map seq_replay c_op c_ret]. rewrite Hspec. reflexivity.
    + apply ss_snoc; [assumption|]. eapply Forall_mono; [|exact HGH].
      intros k (_ & Hk & _). unfold res_lt. cbn [c_res]. lia.
    + apply Forall_app; split; [assumption|]. constructor; [|constructor]. cbn [c_inv c_res]. lia.
Qed.

Lemma VInv_reachable progs sched : VInv (run_sched vM (init_config vM (mkM [] 0) progs) sched).
Proof. apply run_sched_ind; [intros; eapply VInv_step; eauto|apply VInv_init]. Qed.

(* Real-time linearizability.  Replaying the plain map over the calls in the order of their
   linearization points reproduces every result; the linearization point of a call is the step at which
   it returns (its last critical section), a single step strictly after its invocation and not after
   its response: c_inv k < c_res k; the points are strictly increasing along the replay; hence a call
   that returned before another was invoked precedes it.  The shared state satisfies the invariant and
   holds exactly the children of the map reached by the replay. *)
Lemma vec_linearizable_realtime_lemma : forall (progs : list (list creq)) (sched : list Z),
  let c := run_sched vM (init_config vM (mkM [] 0) progs) sched in
  (exists s, seq_replay vec_spec_step init_sworld_c (map (@c_op vM) (hist c)) = (s, map (@c_ret vM) (hist c)) /\
             inv H (sh c) /\ Permutation (entries (mm (sh c))) (s_map s) /\ next (sh c) = s_next s) /\
  StronglySorted res_lt (hist c) /\
  Forall (fun k : call vM => 0 <= c_inv k < c_res k /\ c_res k <= now c) (hist c) /\
  (forall i j a b, nth_error (hist c) i = Some a -> nth_error (hist c) j = Some b ->
     c_res a <= c_inv b -> (i < j)%nat).
Proof.
  intros progs sched c. destruct (VInv_reachable progs sched) as (HG & HT & HR & HS & HL). fold c in HG, HT, HR, HS, HL.
  destruct HG as (_ & _ & HGH & _).
  assert (HF : Forall (fun k : call vM => 0 <= c_inv k < c_res k /\ c_res k <= now c) (hist c)).
  { rewrite Forall_forall in *. intros k Hk. specialize (HGH k Hk). specialize (HL k Hk).
    destruct HGH as (H1 & H2 & _). cbn beta in HL. lia. }
  destruct HR as (s & HR & HRc).
  split; [exists s; split; [exact HR|exact HRc]|]. repeat split; try assumption.
  intros i j a b Hi Hj Hab.
  pose proof (Forall_nth_error _ _ _ _ HF Hj) as Hb. cbn beta in Hb.
  destruct (Nat.lt_trichotomy i j) as [Hc|[Hc|Hc]]; [assumption| |]; exfalso.
  - subst j. rewrite Hi in Hj. inversion Hj; subst. lia.
  - pose proof (ss_nth _ _ HS _ _ _ _ Hj Hi Hc) as Hlt. unfold res_lt in Hlt. lia.
Qed.

(* the executable real-time linearizability checker accepts every history the machine can produce *)
Lemma lin_search_sorted_vec : forall (h : list (call vM)) s,
  StronglySorted res_lt h -> Forall (fun k : call vM => c_inv k < c_res k) h ->
  snd (seq_replay vec_spec_step s (map (@c_op vM) h)) = map (@c_ret vM) h ->
  @lin_search vM sworld vec_spec_step cres_eqb (length h) s h = true.
Proof.
  induction h as [|k r IH]; intros s HS HL HR; [reflexivity|].
  inversion HS as [|? ? HS' HF]; subst. inversion HL as [|? ? Hk HL']; subst.
  cbn [length lin_search]. cbn [seq existsb nth_error]. apply orb_true_iff. left.
  cbn [map seq_replay] in HR. destruct (vec_spec_step s (c_op k)) as [s1 x] eqn:E.
  destruct (seq_replay vec_spec_step s1 (map (@c_op vM) r)) as [s2 xs] eqn:E2. cbn [snd] in HR.
  inversion HR; subst x. apply andb_true_iff. split.
  - unfold minimal. cbn [forallb]. apply andb_true_iff. split.
    + apply orb_true_iff. left. apply negb_true_iff. lia.
    + apply forallb_forall. intros d Hd. rewrite Forall_forall in HF. specialize (HF d Hd). unfold res_lt in HF.
      apply orb_true_iff. left. apply negb_true_iff. lia.
  - rewrite (spec_result_refl _ _ _ _ E). cbn [andb remove_nth]. apply IH; try assumption. rewrite E2. cbn [snd]. assumption.
Qed.

Lemma vec_lin_check_complete_lemma : forall (progs : list (list creq)) (sched : list Z),
  let c := run_sched vM (init_config vM (mkM [] 0) progs) sched in
  vec_lin_check H (hist c) = true.
Proof.
  intros progs sched c. destruct (VInv_reachable progs sched) as (_ & _ & HR & HS & HL). fold c in HR, HS, HL.
  destruct HR as (s & HR & _).
  unfold vec_lin_check, lin_check. apply lin_search_sorted_vec; try assumption. rewrite HR. reflexivity.
Qed.

(* soundness of the executable checker: acceptance exhibits a real-time respecting linearization *)
Lemma cres_eqb_eq a b : cres_eqb a b = true -> a = b.
Proof.
  destruct a, b; cbn; try discriminate; intros E.
  - apply Nat.eqb_eq in E. subst. reflexivity.
  - apply eqb_prop in E. subst. reflexivity.
  - apply Z.eqb_eq in E. subst. reflexivity.
  - reflexivity.
  - apply entries_eqb_eq in E. subst. reflexivity.
Qed.

Lemma remove_nth_perm {A} (l : list A) : forall k x, nth_error l k = Some x -> Permutation (x :: remove_nth l k) l.
Proof.
  induction l as [|y r IH]; intros k x E; [destruct k; discriminate|].
  destruct k as [|k]; cbn in *.
  - inversion E; subst. apply Permutation_refl.
  - eapply Permutation_trans; [apply perm_swap|]. apply perm_skip. apply IH. exact E.
Qed.

Definition same_call (a b : call vM) : Prop := c_tid a = c_tid b /\ c_idx a = c_idx b.

(* h' is a linearization of the calls: the plain map replayed over h' returns the observed results, and
   no call is placed after a (different) call that was invoked only after it had returned *)
Definition linearization_of (s : sworld) (h' : list (call vM)) : Prop :=
  snd (seq_replay vec_spec_step s (map (@c_op vM) h')) = map (@c_ret vM) h' /\
  forall i j a b, nth_error h' i = Some a -> nth_error h' j = Some b -> (i < j)%nat ->
    c_res b <= c_inv a -> same_call b a.

Lemma lin_search_sound fuel : forall s (pending : list (call vM)),
  @lin_search vM sworld vec_spec_step cres_eqb fuel s pending = true ->
  exists h', Permutation h' pending /\ linearization_of s h'.
Proof.
  induction fuel as [|f IH]; intros s pending E.
  - destruct pending; [|discriminate]. exists []. split; [constructor|]. split; [reflexivity|].
    intros i j a b Hi. destruct i; discriminate.
  - cbn [lin_search] in E. destruct pending as [|p0 pr] eqn:Ep.
    + exists []. split; [constructor|]. split; [reflexivity|]. intros i j a b Hi. destruct i; discriminate.
    + rewrite <- Ep in *. apply existsb_exists in E. destruct E as (k & _ & E).
      destruct (nth_error pending k) as [c|] eqn:Ek; [|discriminate].
      apply andb_true_iff in E. destruct E as [Hmin E].
      destruct (vec_spec_step s (c_op c)) as [s1 r] eqn:Es.
      apply andb_true_iff in E. destruct E as [Hr E]. apply cres_eqb_eq in Hr.
      destruct (IH s1 _ E) as (h1 & P1 & R1 & T1).
      exists (c :: h1). split; [|split].
      * eapply Permutation_trans; [apply perm_skip; exact P1|]. apply remove_nth_perm. exact Ek.
      * cbn [map seq_replay]. rewrite Es. destruct (seq_replay vec_spec_step s1 (map (@c_op vM) h1)) as [s2 xs] eqn:E2.
        cbn [snd] in *. rewrite Hr, R1. reflexivity.
      * intros i j a b Hi Hj Hlt Hab. destruct j as [|j]; [lia|]. cbn [nth_error] in Hj.
        destruct i as [|i]; cbn [nth_error] in Hi.
        -- inversion Hi; subst a. unfold minimal in Hmin. rewrite forallb_forall in Hmin.
           assert (Hb : In b pending).
           { assert (In b (c :: remove_nth pending k)) by (right; eapply Permutation_in; [exact P1|eapply nth_error_In; exact Hj]).
             eapply Permutation_in; [apply remove_nth_perm; exact Ek|assumption]. }
           specialize (Hmin b Hb). apply orb_true_iff in Hmin. destruct Hmin as [Hm|Hm].
           ++ apply negb_true_iff in Hm. apply Z.leb_gt in Hm. lia.
           ++ apply andb_true_iff in Hm. destruct Hm as [A B]. apply Z.eqb_eq in A. apply Z.eqb_eq in B. split; assumption.
        -- eapply T1; eauto. lia.
Qed.

Lemma vec_lin_check_sound_lemma (h : list (call vM)) :
  vec_lin_check H h = true -> exists h', Permutation h' h /\ linearization_of init_sworld_c h'.
Proof. unfold vec_lin_check, lin_check. apply lin_search_sound. Qed.

End VecLin.
