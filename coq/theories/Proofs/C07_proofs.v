(* Proofs/C07_proofs.v -- metric vectors identify children by their label values alone.
   A. association lists; B. the hash-bucket map refines a plain map (any hash, collisions included);
   C. request decoding on curried views; D. CurryWith; E. every operation sequence; F. concurrency;
   G. the production hash. *)
From Coq Require Import ZArith List Bool Arith Lia Permutation Sorted.
From Verif Require Import Base.Str Gen.Gen_Consts Model.Vec Proofs.Str_facts.
Import ListNotations.

(* ------------------------------------------------------------------------------------------ *)
(* A. association lists                                                                        *)
(* ------------------------------------------------------------------------------------------ *)

Lemma vals_eqb_eq a b : vals_eqb a b = true <-> a = b.
Proof.
  revert b; induction a as [|x a IH]; intros [|y b]; simpl; split; intros E; try discriminate; try reflexivity.
  - apply andb_true_iff in E. destruct E as [E1 E2]. apply str_eqb_eq in E1. apply IH in E2. subst. reflexivity.
  - inversion E; subst. rewrite str_eqb_refl. simpl. apply IH. reflexivity.
Qed.

Lemma vals_eqb_refl a : vals_eqb a a = true.
Proof. apply vals_eqb_eq. reflexivity. Qed.

Lemma vals_eqb_neq a b : vals_eqb a b = false <-> a <> b.
Proof.
  split; intros E.
  - intros F. apply vals_eqb_eq in F. congruence.
  - destruct (vals_eqb a b) eqn:F; [apply vals_eqb_eq in F; contradiction|reflexivity].
Qed.

Lemma alookup_app t l1 l2 :
  alookup t (l1 ++ l2) = match alookup t l1 with Some x => Some x | None => alookup t l2 end.
Proof.
  induction l1 as [|[v id] l1 IH]; simpl; [reflexivity|].
  destruct (vals_eqb v t); [reflexivity|apply IH].
Qed.

Lemma alookup_In t l id : alookup t l = Some id -> In (t, id) l.
Proof.
  induction l as [|[v i] l IH]; simpl; [discriminate|].
  destruct (vals_eqb v t) eqn:E.
  - intros F. inversion F; subst. apply vals_eqb_eq in E. subst. left. reflexivity.
  - intros F. right. apply IH. exact F.
Qed.

Lemma alookup_None t l : alookup t l = None <-> ~ In t (map fst l).
Proof.
  induction l as [|[v i] l IH]; simpl.
  - split; [intros _ F; exact F|reflexivity].
  - destruct (vals_eqb v t) eqn:E.
    + apply vals_eqb_eq in E. subst. split; [discriminate|]. intros F. exfalso. apply F. left. reflexivity.
    + apply vals_eqb_neq in E. rewrite IH. split.
      * intros F [G|G]; [contradiction|]. apply F. exact G.
      * intros F G. apply F. right. exact G.
Qed.

Lemma alookup_NoDup t l id : NoDup (map fst l) -> In (t, id) l -> alookup t l = Some id.
Proof.
  induction l as [|[v i] l IH]; simpl; intros ND HI; [contradiction|].
  inversion ND as [|? ? Hn ND']; subst.
  destruct HI as [E|HI].
  - inversion E; subst. rewrite vals_eqb_refl. reflexivity.
  - destruct (vals_eqb v t) eqn:E.
    + apply vals_eqb_eq in E. subst. exfalso. apply Hn. apply in_map_iff. exists (t, id). split; [reflexivity|exact HI].
    + apply IH; assumption.
Qed.

Lemma alookup_perm t l l' : NoDup (map fst l) -> Permutation l l' -> alookup t l = alookup t l'.
Proof.
  intros ND P.
  assert (ND' : NoDup (map fst l')) by (eapply Permutation_NoDup; [apply Permutation_map; exact P|exact ND]).
  destruct (alookup t l) as [a|] eqn:E1.
  - apply alookup_In in E1. symmetry. apply alookup_NoDup; [exact ND'|]. eapply Permutation_in; eassumption.
  - destruct (alookup t l') as [b|] eqn:E2; [|reflexivity].
    apply alookup_In in E2. apply alookup_None in E1. exfalso. apply E1.
    apply in_map_iff. exists (t, b). split; [reflexivity|]. eapply Permutation_in; [apply Permutation_sym; exact P|exact E2].
Qed.

Lemma Permutation_filter {A} (f : A -> bool) l l' : Permutation l l' -> Permutation (filter f l) (filter f l').
Proof.
  induction 1; simpl.
  - constructor.
  - destruct (f x); [constructor; assumption|assumption].
  - destruct (f x), (f y); try apply Permutation_refl; apply perm_swap.
  - eapply Permutation_trans; eassumption.
Qed.

Lemma filter_id {A} (f : A -> bool) l : (forall x, In x l -> f x = true) -> filter f l = l.
Proof.
  induction l as [|x l IH]; simpl; intros Hf; [reflexivity|].
  rewrite (Hf x) by (left; reflexivity). f_equal. apply IH. intros y Hy. apply Hf. right. exact Hy.
Qed.

Lemma filter_none {A} (f : A -> bool) l : (forall x, In x l -> f x = false) -> filter f l = [].
Proof.
  induction l as [|x l IH]; simpl; intros Hf; [reflexivity|].
  rewrite (Hf x) by (left; reflexivity). apply IH. intros y Hy. apply Hf. right. exact Hy.
Qed.

Lemma NoDup_map_filter {A B} (g : A -> B) (f : A -> bool) l : NoDup (map g l) -> NoDup (map g (filter f l)).
Proof.
  induction l as [|x l IH]; simpl; intros ND; [constructor|].
  inversion ND as [|? ? Hn ND']; subst.
  destruct (f x); simpl; [|apply IH; exact ND'].
  constructor; [|apply IH; exact ND'].
  intros F. apply Hn. apply in_map_iff in F. destruct F as (y & E & Hy). apply filter_In in Hy.
  apply in_map_iff. exists y. split; [exact E|apply Hy].
Qed.

(* ------------------------------------------------------------------------------------------ *)
(* B. the bucket map                                                                           *)
(* ------------------------------------------------------------------------------------------ *)

Definition pred_is (t : values) (p : values -> bool) : Prop := forall v, p v = true <-> v = t.

Lemma pred_is_eqb t : pred_is t (vals_eqb t).
Proof. intros v. rewrite vals_eqb_eq. split; congruence. Qed.

Lemma entries_cons k b r : entries ((k, b) :: r) = b ++ entries r.
Proof. reflexivity. Qed.

Lemma entries_In e m : In e (entries m) <-> exists h b, In (h, b) m /\ In e b.
Proof.
  unfold entries. rewrite in_concat. split.
  - intros (b & Hb & He). apply in_map_iff in Hb. destruct Hb as ([h b'] & E & Hm). simpl in E. subst.
    exists h, b. split; assumption.
  - intros (h & b & Hm & He). exists b. split; [|exact He]. apply in_map_iff. exists (h, b). split; [reflexivity|exact Hm].
Qed.

Lemma bucket_get_In h m b : bucket_get h m = Some b -> In (h, b) m.
Proof.
  induction m as [|[k b0] r IH]; simpl; [discriminate|].
  destruct (Z.eqb k h) eqn:E.
  - intros F. inversion F; subst. apply Z.eqb_eq in E. subst. left. reflexivity.
  - intros F. right. apply IH. exact F.
Qed.

Lemma bucket_get_None h m : bucket_get h m = None -> ~ In h (map fst m).
Proof.
  induction m as [|[k b0] r IH]; simpl; [intros _ F; exact F|].
  destruct (Z.eqb k h) eqn:E; [discriminate|].
  apply Z.eqb_neq in E. intros F [G|G]; [contradiction|]. apply IH; assumption.
Qed.

Lemma find_idx_alookup t p b : pred_is t p ->
  (if Nat.ltb (find_idx p b) (length b) then option_map snd (nth_error b (find_idx p b)) else None) = alookup t b.
Proof.
  intros Hp. induction b as [|[v id] b IH]; simpl; [reflexivity|].
  destruct (p v) eqn:E.
  - apply Hp in E. subst. rewrite vals_eqb_refl. reflexivity.
  - assert (F : vals_eqb v t = false).
    { apply vals_eqb_neq. intros G. subst. assert (p t = true) by (apply Hp; reflexivity). congruence. }
    rewrite F. simpl in IH. rewrite <- IH.
    change (Nat.ltb (S (find_idx p b)) (S (length b))) with (Nat.ltb (find_idx p b) (length b)).
    reflexivity.
Qed.

(* shape of a bucket around the first match *)
Lemma find_idx_split (p : values -> bool) b :
  let i := find_idx p b in
  (Nat.ltb i (length b) = true /\ exists e, b = firstn i b ++ e :: skipn (S i) b /\ p (fst e) = true /\
      (forall x, In x (firstn i b) -> p (fst x) = false))
  \/ (Nat.ltb i (length b) = false /\ forall x, In x b -> p (fst x) = false).
Proof.
  induction b as [|x b IH]; simpl.
  - right. split; [reflexivity|]. intros y [].
  - destruct (p (fst x)) eqn:E.
    + left. split; [reflexivity|]. exists x. simpl. repeat split; [exact E|]. intros y [].
    + simpl in IH. destruct IH as [(L & e & Hb & He & Hf)|(L & Hn)].
      * left. split; [exact L|]. exists e. simpl. repeat split.
        -- f_equal. exact Hb.
        -- exact He.
        -- intros y [Hy|Hy]; [subst; exact E|apply Hf; exact Hy].
      * right. split; [exact L|]. intros y [Hy|Hy]; [subst; exact E|apply Hn; exact Hy].
Qed.

Section Buckets.
Variable H : values -> Z.

Definition hash_inv (m : list (Z * list entry)) : Prop :=
  forall h b e, In (h, b) m -> In e b -> H (fst e) = h.

(* the state invariant: every stored entry sits under the hash of its values; bucket keys and
   stored tuples are pairwise distinct; ids are below the creation counter *)
Record inv (st : mstate) : Prop := mkInv {
  inv_hash : hash_inv (mm st);
  inv_bkeys : NoDup (map fst (mm st));
  inv_keys : NoDup (map fst (entries (mm st)));
  inv_ids : forall e, In e (entries (mm st)) -> (snd e < next st)%nat;
  inv_idnodup : NoDup (map snd (entries (mm st)))
}.

Lemma hash_inv_tail k b r : hash_inv ((k, b) :: r) -> hash_inv r.
Proof. intros Hh h b' e Hm He. eapply Hh; [right; exact Hm|exact He]. Qed.

Lemma other_buckets_none t m : hash_inv m -> ~ In (H t) (map fst m) -> alookup t (entries m) = None.
Proof.
  intros Hh Hn. apply alookup_None. intros F. apply in_map_iff in F. destruct F as ([v id] & E & Hin).
  simpl in E. subst v. apply entries_In in Hin. destruct Hin as (h & b & Hm & He).
  apply Hn. apply in_map_iff. exists (h, b). split; [|exact Hm]. simpl. symmetry. eapply (Hh h b (t, id)); eassumption.
Qed.

Lemma bucket_none t k b : (forall e, In e b -> H (fst e) = k) -> k <> H t -> alookup t b = None.
Proof.
  intros Hb Hk. apply alookup_None. intros F. apply in_map_iff in F. destruct F as ([v id] & E & Hin).
  simpl in E. subst v. apply Hk. symmetry. apply (Hb (t, id) Hin).
Qed.

Definition probe_m (h : Z) (p : values -> bool) (m : list (Z * list entry)) : option nat :=
  match bucket_get h m with
  | Some b => let i := find_idx p b in if Nat.ltb i (length b) then option_map snd (nth_error b i) else None
  | None => None
  end.

Lemma probe_m_spec t p m : hash_inv m -> NoDup (map fst m) -> pred_is t p ->
  probe_m (H t) p m = alookup t (entries m).
Proof.
  intros Hh ND Hp. induction m as [|[k b] r IH]; [reflexivity|].
  rewrite entries_cons, alookup_app. unfold probe_m. simpl.
  inversion ND as [|? ? Hn ND']; subst.
  destruct (Z.eqb k (H t)) eqn:E.
  - apply Z.eqb_eq in E. subst k. rewrite (find_idx_alookup t p b Hp).
    destruct (alookup t b); [reflexivity|]. symmetry. apply other_buckets_none; [eapply hash_inv_tail; exact Hh|exact Hn].
  - apply Z.eqb_neq in E. rewrite (bucket_none t k b); [|intros e He; eapply Hh; [left; reflexivity|exact He]|exact E].
    apply IH; [eapply hash_inv_tail; exact Hh|exact ND'].
Qed.

Lemma probe_spec t p st : inv st -> pred_is t p -> probe (H t) p st = alookup t (entries (mm st)).
Proof. intros [Hh ND _ _ _] Hp. apply (probe_m_spec t p (mm st) Hh ND Hp). Qed.

(* ---- create ---- *)
Definition bucket_or_nil (h : Z) (m : list (Z * list entry)) : list entry :=
  match bucket_get h m with Some b => b | None => [] end.

Lemma create_perm h e m :
  Permutation (entries (bucket_set h (bucket_or_nil h m ++ [e]) m)) (e :: entries m).
Proof.
  unfold bucket_or_nil. induction m as [|[k b] r IH]; simpl.
  - unfold entries. simpl. apply Permutation_refl.
  - destruct (Z.eqb k h) eqn:E.
    + rewrite !entries_cons. rewrite <- app_assoc. simpl.
      apply Permutation_sym. apply Permutation_middle.
    + rewrite !entries_cons. eapply Permutation_trans; [apply Permutation_app_head; exact IH|].
      apply Permutation_sym. apply Permutation_middle.
Qed.

Lemma bucket_set_In h b' m k x : In (k, x) (bucket_set h b' m) -> (k = h /\ x = b') \/ In (k, x) m.
Proof.
  induction m as [|[k0 b0] r IH]; simpl.
  - intros [E|[]]. inversion E; subst. left. split; reflexivity.
  - destruct (Z.eqb k0 h) eqn:E.
    + intros [F|F].
      * inversion F; subst. apply Z.eqb_eq in E. subst. left. split; reflexivity.
      * right. right. exact F.
    + intros [F|F].
      * right. left. exact F.
      * destruct (IH F) as [G|G]; [left; exact G|right; right; exact G].
Qed.

Lemma bucket_set_keys h b' m : NoDup (map fst m) -> NoDup (map fst (bucket_set h b' m)).
Proof.
  induction m as [|[k0 b0] r IH]; simpl; intros ND.
  - constructor; [intros []|constructor].
  - inversion ND as [|? ? Hn ND']; subst. destruct (Z.eqb k0 h) eqn:E; simpl.
    + constructor; assumption.
    + constructor; [|apply IH; exact ND'].
      intros F. apply in_map_iff in F. destruct F as ([k x] & Ek & Hin). simpl in Ek. subst k.
      apply bucket_set_In in Hin. destruct Hin as [[G _]|G].
      * apply Z.eqb_neq in E. congruence.
      * apply Hn. apply in_map_iff. exists (k0, x). split; [reflexivity|exact G].
Qed.

Lemma bucket_del_In h m k x : In (k, x) (bucket_del h m) -> In (k, x) m.
Proof.
  induction m as [|[k0 b0] r IH]; simpl; [intros []|].
  destruct (Z.eqb k0 h).
  - intros F. right. exact F.
  - intros [F|F]; [left; exact F|right; apply IH; exact F].
Qed.

Lemma bucket_del_keys h m : NoDup (map fst m) -> NoDup (map fst (bucket_del h m)).
Proof.
  induction m as [|[k0 b0] r IH]; simpl; intros ND; [constructor|].
  inversion ND as [|? ? Hn ND']; subst. destruct (Z.eqb k0 h); [exact ND'|]. simpl.
  constructor; [|apply IH; exact ND'].
  intros F. apply in_map_iff in F. destruct F as ([k x] & Ek & Hin). simpl in Ek. subst k.
  apply bucket_del_In in Hin. apply Hn. apply in_map_iff. exists (k0, x). split; [reflexivity|exact Hin].
Qed.

(* what the plain map sees when the model creates (t, next st) *)
Lemma sec_create_miss t p st : inv st -> pred_is t p -> alookup t (entries (mm st)) = None ->
  let '(id, st') := sec_create (H t) p t st in
  id = next st /\ inv st' /\ next st' = S (next st) /\
  Permutation (entries (mm st')) ((t, next st) :: entries (mm st)).
Proof.
  intros I Hp Hnone. unfold sec_create. rewrite (probe_spec t p st I Hp), Hnone.
  fold (bucket_or_nil (H t) (mm st)). simpl.
  assert (P := create_perm (H t) (t, next st) (mm st)).
  destruct I as [Hh ND NK Hid NI].
  repeat split; simpl.
  - intros h b e Hm He. apply bucket_set_In in Hm. destruct Hm as [[E1 E2]|Hm].
    + subst. apply in_app_or in He. destruct He as [He|[He|[]]].
      * unfold bucket_or_nil in He. destruct (bucket_get (H t) (mm st)) eqn:G; [|destruct He].
        apply bucket_get_In in G. eapply Hh; eassumption.
      * subst e. reflexivity.
    + eapply Hh; eassumption.
  - apply bucket_set_keys. exact ND.
  - eapply Permutation_NoDup; [apply Permutation_map; apply Permutation_sym; exact P|]. simpl.
    constructor; [apply alookup_None; exact Hnone|exact NK].
  - intros e He. eapply Permutation_in in He; [|exact P]. destruct He as [He|He].
    + subst e. simpl. lia.
    + apply Hid in He. lia.
  - eapply Permutation_NoDup; [apply Permutation_map; apply Permutation_sym; exact P|]. simpl.
    constructor; [|exact NI]. intros F. apply in_map_iff in F. destruct F as (e & Ee & He). apply Hid in He. lia.
  - exact P.
Qed.

Lemma sec_create_hit t p st id : inv st -> pred_is t p -> alookup t (entries (mm st)) = Some id ->
  sec_create (H t) p t st = (id, st).
Proof. intros I Hp Hs. unfold sec_create. rewrite (probe_spec t p st I Hp), Hs. reflexivity. Qed.

Lemma get_or_create_eq t p st : inv st -> pred_is t p ->
  get_or_create (H t) p t st = sec_create (H t) p t st.
Proof.
  intros I Hp. unfold get_or_create. destruct (probe (H t) p st) as [id|] eqn:E; [|reflexivity].
  unfold sec_create. rewrite E. reflexivity.
Qed.

(* ---- delete by hash ---- *)
Lemma bucket_set_perm h b b' m : bucket_get h m = Some b ->
  exists l1 l2, entries m = l1 ++ b ++ l2 /\ entries (bucket_set h b' m) = l1 ++ b' ++ l2 /\
                entries (bucket_del h m) = l1 ++ l2.
Proof.
  induction m as [|[k b0] r IH]; simpl; [discriminate|].
  destruct (Z.eqb k h) eqn:E.
  - intros F. inversion F; subst. exists [], (entries r). rewrite !entries_cons. repeat split.
  - intros F. destruct (IH F) as (l1 & l2 & E1 & E2 & E3). exists (b0 ++ l1), l2.
    rewrite !entries_cons, E1, E2, E3, <- !app_assoc. repeat split.
Qed.

Lemma remove_unique (e : entry) A B : NoDup (map fst (A ++ e :: B)) -> s_remove (fst e) (A ++ e :: B) = A ++ B.
Proof.
  intros ND. unfold s_remove. rewrite filter_app. simpl. rewrite vals_eqb_refl. simpl.
  rewrite map_app in ND. simpl in ND. apply NoDup_remove in ND. destruct ND as [ND Hn].
  rewrite !filter_id; [reflexivity| |].
  - intros x Hx. apply negb_true_iff. apply vals_eqb_neq. intros F. apply Hn. apply in_or_app. right.
    apply in_map_iff. exists x. split; assumption.
  - intros x Hx. apply negb_true_iff. apply vals_eqb_neq. intros F. apply Hn. apply in_or_app. left.
    apply in_map_iff. exists x. split; assumption.
Qed.

Lemma NoDup_map_sub {A B} (g : A -> B) (l1 x l2 : list A) : NoDup (map g (l1 ++ x ++ l2)) -> NoDup (map g (l1 ++ l2)).
Proof.
  rewrite !map_app. intros ND. induction (map g x) as [|y ys IH]; [exact ND|].
  apply IH. simpl in ND. apply NoDup_remove_1 in ND. exact ND.
Qed.

Lemma delete_by_hash_spec t p st : inv st -> pred_is t p ->
  let '(b, st') := delete_by_hash (H t) p st in
  inv st' /\ next st' = next st /\ entries (mm st') = s_remove t (entries (mm st)) /\
  b = match alookup t (entries (mm st)) with Some _ => true | None => false end.
Proof.
  intros I Hp. unfold delete_by_hash.
  assert (Hpr := probe_spec t p st I Hp). unfold probe in Hpr.
  assert (Hnot : alookup t (entries (mm st)) = None -> s_remove t (entries (mm st)) = entries (mm st)).
  { intros Hn. apply filter_id. intros x Hx. apply negb_true_iff. apply vals_eqb_neq. intros F.
    apply alookup_None in Hn. apply Hn. apply in_map_iff. exists x. split; assumption. }
  destruct (bucket_get (H t) (mm st)) as [b|] eqn:G.
  - destruct (find_idx_split p b) as [(L & e & Hb & He & Hf)|(L & Hn)]; simpl in Hpr; rewrite L in *; cbn [negb mm next].
    + (* found at index i *)
      apply Hp in He.
      destruct (bucket_set_perm (H t) b (firstn (find_idx p b) b ++ skipn (S (find_idx p b)) b) (mm st) G)
        as (l1 & l2 & E1 & E2 & E3).
      set (i := find_idx p b) in *.
      assert (Ee : entries (mm st) = (l1 ++ firstn i b) ++ e :: (skipn (S i) b ++ l2)).
      { rewrite E1. rewrite Hb at 1. rewrite <- !app_assoc. reflexivity. }
      destruct I as [Hh ND NK Hid NI].
      assert (Hrem : s_remove t (entries (mm st)) = (l1 ++ firstn i b) ++ (skipn (S i) b ++ l2)).
      { rewrite <- He. rewrite Ee. apply remove_unique. rewrite <- Ee. exact NK. }
      assert (Hlk : alookup t (entries (mm st)) <> None).
      { intros F. apply alookup_None in F. apply F. rewrite Ee. rewrite map_app. apply in_or_app. right. left. exact He. }
      destruct (Nat.ltb 1 (length b)) eqn:L1; cbn [mm next].
      * repeat split; cbn [mm next].
        -- intros h b' x Hm Hx. apply bucket_set_In in Hm. destruct Hm as [[F1 F2]|Hm].
           ++ subst. apply bucket_get_In in G. eapply Hh; [exact G|]. rewrite Hb.
              apply in_app_or in Hx. apply in_or_app. destruct Hx as [Hx|Hx]; [left; exact Hx|right; right; exact Hx].
           ++ eapply Hh; eassumption.
        -- apply bucket_set_keys. exact ND.
        -- rewrite E2. rewrite Ee in NK.
           apply (NoDup_map_sub fst (l1 ++ firstn i b) [e] (skipn (S i) b ++ l2)) in NK.
           rewrite <- !app_assoc in NK. rewrite <- !app_assoc. exact NK.
        -- intros x Hx. apply Hid. rewrite E2 in Hx. rewrite E1. rewrite Hb.
           apply in_app_or in Hx. apply in_or_app. destruct Hx as [Hx|Hx]; [left; exact Hx|right].
           apply in_app_or in Hx. apply in_or_app. destruct Hx as [Hx|Hx]; [|right; exact Hx]. left.
           apply in_app_or in Hx. apply in_or_app. destruct Hx as [Hx|Hx]; [left; exact Hx|right; right; exact Hx].
        -- rewrite E2. rewrite Ee in NI.
           apply (NoDup_map_sub snd (l1 ++ firstn i b) [e] (skipn (S i) b ++ l2)) in NI.
           rewrite <- !app_assoc in NI. rewrite <- !app_assoc. exact NI.
        -- rewrite E2, Hrem. rewrite <- !app_assoc. reflexivity.
        -- destruct (alookup t (entries (mm st))); [reflexivity|congruence].
      * (* single-entry bucket: the key is deleted *)
        assert (Hl : length b = 1%nat).
        { apply Nat.ltb_ge in L1. apply Nat.ltb_lt in L. lia. }
        assert (Hi : i = 0%nat) by (apply Nat.ltb_lt in L; lia).
        assert (Hbe : b = [e]).
        { rewrite Hi in Hb. simpl in Hb. destruct b as [|x [|y b]]; simpl in Hl; try lia. simpl in Hb. inversion Hb; subst. reflexivity. }
        repeat split; cbn [mm next].
        -- intros h b' x Hm Hx. apply bucket_del_In in Hm. eapply Hh; eassumption.
        -- apply bucket_del_keys. exact ND.
        -- rewrite E3. rewrite E1 in NK. apply NoDup_map_sub in NK. exact NK.
        -- intros x Hx. apply Hid. rewrite E3 in Hx. rewrite E1.
           apply in_app_or in Hx. apply in_or_app. destruct Hx as [Hx|Hx]; [left; exact Hx|right; apply in_or_app; right; exact Hx].
        -- rewrite E3. rewrite E1 in NI. apply NoDup_map_sub in NI. exact NI.
        -- rewrite E3, Hrem. rewrite Hi, Hbe. simpl. rewrite app_nil_r. reflexivity.
        -- destruct (alookup t (entries (mm st))); [reflexivity|congruence].
    + (* bucket exists, no match *)
      simpl. symmetry in Hpr. refine (conj I (conj eq_refl (conj _ _))).
      * rewrite (Hnot Hpr). reflexivity.
      * rewrite Hpr. reflexivity.
  - symmetry in Hpr. refine (conj I (conj eq_refl (conj _ _))).
    + rewrite (Hnot Hpr). reflexivity.
    + rewrite Hpr. reflexivity.
Qed.

(* ---- delete by partial match: every bucket is filtered, the removed children are counted ---- *)
Lemma dpl_cons p h b r : delete_partial_loop p ((h, b) :: r) =
  let '(n, r') := delete_partial_loop p r in
  let i := find_idx p b in
  if negb (Nat.ltb i (length b)) then (n, (h, b) :: r')
  else
    let rest := skipn (S i) b in
    let kept := firstn i b ++ filter (fun e : entry => negb (p (fst e))) rest in
    let nd := (1 + Z.of_nat (length (filter (fun e : entry => p (fst e)) rest)))%Z in
    match kept with
    | [] => ((n + nd)%Z, r')
    | _ => ((n + nd)%Z, (h, kept) :: r')
    end.
Proof. reflexivity. Qed.

Lemma delete_partial_loop_spec p m : forall n m', delete_partial_loop p m = (n, m') ->
  entries m' = filter (fun e : entry => negb (p (fst e))) (entries m) /\
  n = Z.of_nat (length (filter (fun e : entry => p (fst e)) (entries m))) /\
  (forall h b', In (h, b') m' -> exists b, In (h, b) m /\ incl b' b) /\
  (NoDup (map fst m) -> NoDup (map fst m')).
Proof.
  induction m as [|[h b] r IH]; intros n m' E.
  - simpl in E. inversion E; subst. simpl. repeat split; try constructor. intros h b' [].
  - rewrite dpl_cons in E. destruct (delete_partial_loop p r) as [n0 r'] eqn:Er.
    destruct (IH n0 r' eq_refl) as (I1 & I2 & I3 & I4).
    assert (K : forall k, In k (map fst r') -> In k (map fst r)).
    { intros k Hk. apply in_map_iff in Hk. destruct Hk as ([k' x] & Ek & Hx). simpl in Ek. subst k'.
      destruct (I3 k x Hx) as (b0 & Hb0 & _). apply in_map_iff. exists (k, b0). split; [reflexivity|exact Hb0]. }
    rewrite !entries_cons, !filter_app.
    destruct (find_idx_split p b) as [(L & e & Hb & He & Hf)|(L & Hn)]; cbv zeta in L, E; rewrite L in E; [change (negb true) with false in E|change (negb false) with true in E]; cbv beta iota in E.
    + remember (firstn (find_idx p b) b) as A. remember (skipn (S (find_idx p b)) b) as B. clear HeqA HeqB.
      assert (F1 : filter (fun e0 : entry => negb (p (fst e0))) b = A ++ filter (fun e0 : entry => negb (p (fst e0))) B).
      { rewrite Hb, filter_app. simpl. rewrite He. simpl. f_equal. apply filter_id. intros x Hx. rewrite (Hf x Hx). reflexivity. }
      assert (F2 : length (filter (fun e0 : entry => p (fst e0)) b) = S (length (filter (fun e0 : entry => p (fst e0)) B))).
      { rewrite Hb, filter_app. simpl. rewrite He. rewrite (filter_none _ A) by exact Hf. reflexivity. }
      assert (Hincl : incl (A ++ filter (fun e0 : entry => negb (p (fst e0))) B) b).
      { rewrite Hb. intros x Hx. apply in_app_or in Hx. apply in_or_app. destruct Hx as [Hx|Hx]; [left; exact Hx|].
        right. right. apply filter_In in Hx. apply Hx. }
      rewrite F1, app_length, F2.
      destruct (A ++ filter (fun e0 : entry => negb (p (fst e0))) B) as [|y kept] eqn:Ek; pose proof (f_equal fst E) as En; pose proof (f_equal snd E) as Em; cbn [fst snd] in En, Em; subst n m'; clear E.
      * repeat split.
        -- simpl. exact I1.
        -- lia.
        -- intros k x Hx. destruct (I3 k x Hx) as (b0 & Hb0 & Hi). exists b0. split; [right; exact Hb0|exact Hi].
        -- intros ND. inversion ND; subst. apply I4. assumption.
      * repeat split.
        -- rewrite entries_cons, I1. reflexivity.
        -- lia.
        -- intros k x [Hx|Hx].
           ++ injection Hx as <- <-. exists b. split; [left; reflexivity|exact Hincl].
           ++ destruct (I3 k x Hx) as (b0 & Hb0 & Hi). exists b0. split; [right; exact Hb0|exact Hi].
        -- intros ND. inversion ND as [|? ? Hnk ND']; subst. simpl. constructor; [|apply I4; exact ND'].
           intros F. apply Hnk. apply K. exact F.
    + pose proof (f_equal fst E) as En; pose proof (f_equal snd E) as Em; cbn [fst snd] in En, Em; subst n m'; clear E.
      assert (F1 : filter (fun e0 : entry => negb (p (fst e0))) b = b).
      { apply filter_id. intros x Hx. rewrite (Hn x Hx). reflexivity. }
      assert (F2 : filter (fun e0 : entry => p (fst e0)) b = []) by (apply filter_none; exact Hn).
      rewrite F1, F2. repeat split.
      * rewrite entries_cons, I1. reflexivity.
      * simpl. exact I2.
      * intros k x [Hx|Hx].
        -- injection Hx as <- <-. exists b. split; [left; reflexivity|apply incl_refl].
        -- destruct (I3 k x Hx) as (b0 & Hb0 & Hi). exists b0. split; [right; exact Hb0|exact Hi].
      * intros ND. inversion ND as [|? ? Hnk ND']; subst. simpl. constructor; [|apply I4; exact ND'].
        intros F. apply Hnk. apply K. exact F.
Qed.

Lemma delete_partial_spec p st : inv st ->
  let '(n, st') := delete_partial p st in
  inv st' /\ next st' = next st /\
  entries (mm st') = filter (fun e => negb (p (fst e))) (entries (mm st)) /\
  n = Z.of_nat (length (filter (fun e => p (fst e)) (entries (mm st)))).
Proof.
  intros [Hh ND NK Hid NI]. unfold delete_partial.
  destruct (delete_partial_loop p (mm st)) as [n m'] eqn:E.
  destruct (delete_partial_loop_spec p (mm st) n m' E) as (I1 & I2 & I3 & I4).
  split; [|split; [reflexivity|split; [exact I1|exact I2]]].
  constructor; cbn [mm next].
  - intros h b' e Hm He. destruct (I3 h b' Hm) as (b & Hb & Hi). eapply Hh; [exact Hb|apply Hi; exact He].
  - apply I4. exact ND.
  - rewrite I1. apply NoDup_map_filter. exact NK.
  - intros e He. rewrite I1 in He. apply filter_In in He. apply Hid. apply He.
  - rewrite I1. apply NoDup_map_filter. exact NI.
Qed.

Lemma reset_inv st : inv (reset st).
Proof. constructor; simpl; try constructor. intros h b e []. intros e []. Qed.

End Buckets.

(* ------------------------------------------------------------------------------------------ *)
(* C. request decoding on curried views                                                        *)
(* ------------------------------------------------------------------------------------------ *)

(* curry lists have strictly ascending indices (from i on) *)
Fixpoint csorted (i : nat) (c : curry) : Prop :=
  match c with [] => True | (j, _) :: c' => (i <= j)%nat /\ csorted (S j) c' end.
Definition cbound (n : nat) (c : curry) : Prop := forall j v, In (j, v) c -> (j < n)%nat.

Lemma csorted_mono i i' c : csorted i c -> (i' <= i)%nat -> csorted i' c.
Proof. destruct c as [|[j v] c']; simpl; [trivial|]. intros [A B] L. split; [lia|exact B]. Qed.

Lemma cget_lt k i c : csorted i c -> (k < i)%nat -> cget k c = None.
Proof.
  revert i. induction c as [|[j v] c' IH]; simpl; intros i Hs L; [reflexivity|].
  destruct Hs as [A B]. destruct (Nat.eqb j k) eqn:E; [apply Nat.eqb_eq in E; lia|].
  apply (IH (S j) B). lia.
Qed.

Lemma head_cases i c : csorted i c ->
  (exists v c', c = (i, v) :: c' /\ csorted (S i) c' /\ cget i c = Some v /\ curry_head i c = (Some v, c'))
  \/ (cget i c = None /\ curry_head i c = (None, c) /\ csorted (S i) c).
Proof.
  destruct c as [|[j v] c']; simpl; intros Hs.
  - right. repeat split.
  - destruct Hs as [A B]. destruct (Nat.eqb j i) eqn:E.
    + apply Nat.eqb_eq in E. subst j. left. exists v, c'. repeat split. exact B.
    + apply Nat.eqb_neq in E. right. repeat split; [|lia|exact B].
      apply (cget_lt i (S j) c' B). lia.
Qed.

Lemma cbound_tail n x c : cbound n (x :: c) -> cbound n c.
Proof. intros Hb j v Hin. apply (Hb j v). right. exact Hin. Qed.

Lemma csorted_length c : forall i k, csorted i c -> cbound (i + k) c -> (length c <= k)%nat.
Proof.
  induction c as [|[j v] c' IH]; simpl; intros i k Hs Hb; [lia|].
  destruct Hs as [A B]. assert (Hj : (j < i + k)%nat) by (apply (Hb j v); left; reflexivity).
  assert (L := IH (S j) (i + k - S j)%nat B).
  assert (length c' <= i + k - S j)%nat.
  { apply L. intros j' v' Hin. replace (S j + (i + k - S j))%nat with (i + k)%nat by lia. apply (Hb j' v'). right. exact Hin. }
  lia.
Qed.

Lemma cget_cons_ne k i v c : k <> i -> cget k ((i, v) :: c) = cget k c.
Proof. intros N. simpl. destruct (Nat.eqb i k) eqn:E; [apply Nat.eqb_eq in E; congruence|reflexivity]. Qed.

Lemma inline_loop_length n : forall i c lvs, length (inline_loop n i c lvs) = n.
Proof.
  induction n as [|n IH]; intros i c lvs; simpl; [reflexivity|].
  destruct (curry_head i c) as [[cv|] c']; simpl; [rewrite IH; reflexivity|].
  destruct lvs; simpl; rewrite IH; reflexivity.
Qed.

Section Decode.
Variable H0 : Z.
Variable hadd : Z -> str -> Z.
Variable haddb : Z -> Z -> Z.
Variable names : list str.
Variable cstr : list (str * (str -> str)).
Hypothesis names_nodup : NoDup names.

Notation HF := (Hfold H0 hadd haddb).

(* well-formed view: ascending indices below len(names), curried values valid UTF-8 *)
Definition cwf (c : curry) : Prop :=
  csorted 0 c /\ cbound (length names) c /\ forall j v, In (j, v) c -> utf8_valid v = true.

Lemma stuple_lv_ext nm : forall i c1 c2 lvs, (forall k, (i <= k)%nat -> cget k c1 = cget k c2) ->
  stuple_lv cstr i nm c1 lvs = stuple_lv cstr i nm c2 lvs.
Proof.
  induction nm as [|n nm IH]; intros i c1 c2 lvs Hc; simpl; [reflexivity|].
  rewrite <- (Hc i) by lia. destruct (cget i c1).
  - rewrite (IH (S i) c1 c2 lvs); [reflexivity|]. intros k L. apply Hc. lia.
  - destruct lvs as [|x lvs]; [reflexivity|]. rewrite (IH (S i) c1 c2 lvs); [reflexivity|]. intros k L. apply Hc. lia.
Qed.

Lemma stuple_lv_tail nm i v c lvs :
  stuple_lv cstr (S i) nm ((i, v) :: c) lvs = stuple_lv cstr (S i) nm c lvs.
Proof. apply stuple_lv_ext. intros k L. apply cget_cons_ne. lia. Qed.

Lemma no_constraints_id : no_constraints cstr = true -> forall n x, constrain cstr n x = x.
Proof. unfold no_constraints. destruct cstr; [|discriminate]. intros _ n x. reflexivity. Qed.

(* the walk over the names: what the model computes positionally is the specification's tuple *)
Lemma lv_walk nm : forall i c lvs, csorted i c -> cbound (i + length nm) c ->
  (length lvs + length c = length nm)%nat ->
  exists lvs', constrain_lvs_loop cstr (length nm) i nm c lvs = Some lvs' /\ length lvs' = length lvs /\
    stuple_lv cstr i nm c lvs = Some (inline_loop (length nm) i c lvs') /\
    ((forall n x, constrain cstr n x = x) -> lvs' = lvs).
Proof.
  induction nm as [|n nm IH]; intros i c lvs Hs Hb L.
  - destruct lvs; [|simpl in L; lia]. destruct c; [|simpl in L; lia]. exists []. repeat split.
  - destruct (head_cases i c Hs) as [(v & c' & Ec & S' & G & Hd)|(G & Hd & S')].
    + subst c. simpl in L.
      destruct (IH (S i) c' lvs S') as (lvs' & E1 & E2 & E3 & E4).
      { intros j w Hin. replace (S i + length nm)%nat with (i + length (n :: nm))%nat by (simpl; lia). apply (Hb j w). right. exact Hin. }
      { lia. }
      exists lvs'. simpl length. cbn [constrain_lvs_loop inline_loop stuple_lv]. rewrite Hd, G. cbn [tl].
      rewrite stuple_lv_tail, E3. repeat split; assumption.
    + destruct lvs as [|x lvs].
      { exfalso. simpl in L. assert (length c <= length nm)%nat.
        { apply (csorted_length c (S i) (length nm) S'). intros j w Hin.
          replace (S i + length nm)%nat with (i + length (n :: nm))%nat by (simpl; lia). apply (Hb j w Hin). }
        lia. }
      simpl in L.
      destruct (IH (S i) c lvs S') as (lvs' & E1 & E2 & E3 & E4).
      { intros j w Hin. replace (S i + length nm)%nat with (i + length (n :: nm))%nat by (simpl; lia). apply (Hb j w Hin). }
      { lia. }
      exists (constrain cstr n x :: lvs'). simpl length. cbn [constrain_lvs_loop inline_loop stuple_lv]. rewrite Hd, G. cbn [tl].
      rewrite E1, E3. repeat split.
      * simpl. rewrite E2. reflexivity.
      * intros Hid. rewrite Hid, (E4 Hid). reflexivity.
Qed.

Lemma stuple_lv_arity nm : forall i c lvs t, csorted i c -> cbound (i + length nm) c ->
  stuple_lv cstr i nm c lvs = Some t -> (length lvs + length c = length nm)%nat.
Proof.
  induction nm as [|n nm IH]; intros i c lvs t Hs Hb E.
  - simpl in E. destruct lvs; [|discriminate]. destruct c as [|[j v] c]; [reflexivity|].
    exfalso. simpl in Hs. assert (j < i + 0)%nat by (apply (Hb j v); left; reflexivity). lia.
  - assert (Hb' : forall c', (forall j w, In (j, w) c' -> In (j, w) c) -> cbound (S i + length nm) c').
    { intros c' Hin j w Hj. replace (S i + length nm)%nat with (i + length (n :: nm))%nat by (simpl; lia). apply (Hb j w). apply Hin. exact Hj. }
    destruct (head_cases i c Hs) as [(v & c' & Ec & S' & G & Hd)|(G & Hd & S')]; simpl in E; rewrite G in E.
    + subst c. rewrite stuple_lv_tail in E. destruct (stuple_lv cstr (S i) nm c' lvs) as [t'|] eqn:E'; [|discriminate].
      assert (L := IH (S i) c' lvs t' S' (Hb' c' (fun j w Hj => or_intror Hj)) E'). simpl. lia.
    + destruct lvs as [|x lvs]; [discriminate|].
      destruct (stuple_lv cstr (S i) nm c lvs) as [t'|] eqn:E'; [|discriminate].
      assert (L := IH (S i) c lvs t' S' (Hb' c (fun j w Hj => Hj)) E'). simpl. lia.
Qed.

Lemma hash_lvs_walk nm : forall i c lvs h, csorted i c -> cbound (i + length nm) c ->
  (length lvs + length c = length nm)%nat ->
  hash_lvs_loop hadd haddb i nm c lvs h =
  inr (fold_left (fun h v => haddb (hadd h v) sep) (inline_loop (length nm) i c lvs) h).
Proof.
  induction nm as [|n nm IH]; intros i c lvs h Hs Hb L; [reflexivity|].
  assert (Hb' : forall c', (forall j w, In (j, w) c' -> In (j, w) c) -> cbound (S i + length nm) c').
  { intros c' Hin j w Hj. replace (S i + length nm)%nat with (i + length (n :: nm))%nat by (simpl; lia). apply (Hb j w). apply Hin. exact Hj. }
  destruct (head_cases i c Hs) as [(v & c' & Ec & S' & G & Hd)|(G & Hd & S')];
    simpl length; cbn [hash_lvs_loop inline_loop]; rewrite Hd.
  - subst c. simpl in L. simpl. apply IH; [exact S'|apply Hb'; intros j w Hj; right; exact Hj|lia].
  - destruct lvs as [|x lvs].
    { exfalso. simpl in L. assert (length c <= length nm)%nat by (apply (csorted_length c (S i) (length nm) S'); apply Hb'; auto). lia. }
    simpl in L. simpl. apply IH; [exact S'|apply Hb'; auto|lia].
Qed.

Lemma match_lvs_walk vals : forall i c lvs, csorted i c -> cbound (i + length vals) c ->
  (length lvs + length c = length vals)%nat ->
  (match_lvs_loop i vals c lvs = true <-> vals = inline_loop (length vals) i c lvs).
Proof.
  induction vals as [|v0 vals IH]; intros i c lvs Hs Hb L; [simpl; split; reflexivity|].
  assert (Hb' : forall c', (forall j w, In (j, w) c' -> In (j, w) c) -> cbound (S i + length vals) c').
  { intros c' Hin j w Hj. replace (S i + length vals)%nat with (i + length (v0 :: vals))%nat by (simpl; lia). apply (Hb j w). apply Hin. exact Hj. }
  destruct (head_cases i c Hs) as [(v & c' & Ec & S' & G & Hd)|(G & Hd & S')];
    simpl length; cbn [match_lvs_loop inline_loop]; rewrite Hd.
  - subst c. simpl in L. destruct (str_eqb v0 v) eqn:E.
    + apply str_eqb_eq in E. subst v0. rewrite (IH (S i) c' lvs S'); [|apply Hb'; intros j w Hj; right; exact Hj|lia].
      split; intros F; [f_equal; exact F|inversion F; congruence].
    + apply str_eqb_neq in E. split; [discriminate|]. intros F. inversion F. contradiction.
  - destruct lvs as [|x lvs].
    { exfalso. simpl in L. assert (length c <= length vals)%nat by (apply (csorted_length c (S i) (length vals) S'); apply Hb'; auto). lia. }
    simpl in L. destruct (str_eqb v0 x) eqn:E.
    + apply str_eqb_eq in E. subst v0. rewrite (IH (S i) c lvs S'); [|apply Hb'; auto|lia].
      split; intros F; [f_equal; exact F|inversion F; congruence].
    + apply str_eqb_neq in E. split; [discriminate|]. intros F. inversion F. contradiction.
Qed.

Lemma forallb_inline (P : str -> bool) n : forall i c lvs, csorted i c -> cbound (i + n) c ->
  (length lvs + length c = n)%nat -> (forall j v, In (j, v) c -> P v = true) ->
  forallb P (inline_loop n i c lvs) = forallb P lvs.
Proof.
  induction n as [|n IH]; intros i c lvs Hs Hb L Hv.
  - destruct lvs; [reflexivity|simpl in L; lia].
  - assert (Hb' : forall c', (forall j w, In (j, w) c' -> In (j, w) c) -> cbound (S i + n) c').
    { intros c' Hin j w Hj. replace (S i + n)%nat with (i + S n)%nat by lia. apply (Hb j w). apply Hin. exact Hj. }
    destruct (head_cases i c Hs) as [(v & c' & Ec & S' & G & Hd)|(G & Hd & S')]; cbn [inline_loop]; rewrite Hd.
    + subst c. simpl in L. simpl. rewrite (Hv i v) by (left; reflexivity). simpl.
      apply IH; [exact S'|apply Hb'; intros j w Hj; right; exact Hj|lia|intros j w Hj; apply (Hv j w); right; exact Hj].
    + destruct lvs as [|x lvs].
      { exfalso. simpl in L. assert (length c <= n)%nat by (apply (csorted_length c (S i) n S'); apply Hb'; auto). lia. }
      simpl in L. simpl. f_equal. apply IH; [exact S'|apply Hb'; auto|lia|exact Hv].
Qed.

(* GetMetricWithLabelValues / DeleteLabelValues: a well-formed request is decoded to its full tuple
   (hash, matcher, stored values); a malformed one is rejected with an error, never a crash *)
Lemma lvs_decode c lvs : cwf c ->
  match req_lv names cstr c lvs with
  | Some t => exists lvs', constrain_lvs names cstr c lvs = Some lvs' /\
                hash_lvs H0 hadd haddb names c lvs' = inr (HF t) /\
                pred_is t (fun vals => match_lvs vals lvs' c) /\ inline_lvs lvs' c = t
  | None => exists lvs' e, constrain_lvs names cstr c lvs = Some lvs' /\
                hash_lvs H0 hadd haddb names c lvs' = inl e /\ e <> e_panic
  end.
Proof.
  intros (Hs & Hb & Hv). unfold req_lv.
  destruct (Nat.eqb (length lvs + length c) (length names)) eqn:A.
  - apply Nat.eqb_eq in A.
    destruct (lv_walk names 0 c lvs Hs Hb A) as (lvs' & E1 & E2 & E3 & E4).
    assert (Ec : constrain_lvs names cstr c lvs = Some lvs').
    { unfold constrain_lvs. destruct (no_constraints cstr) eqn:N.
      - rewrite (E4 (no_constraints_id N)). reflexivity.
      - rewrite A, Nat.eqb_refl. exact E1. }
    assert (A' : (length lvs' + length c = length names)%nat) by lia.
    assert (Hval : validate_lvs names lvs' c = if forallb utf8_valid lvs' then None else Some e_utf8).
    { unfold validate_lvs, expected. replace (Z.of_nat (length lvs') =? Z.of_nat (length names) - Z.of_nat (length c))%Z with true
        by (symmetry; apply Z.eqb_eq; lia). simpl. destruct (forallb utf8_valid lvs'); reflexivity. }
    rewrite E3. unfold valid_tuple. rewrite (forallb_inline utf8_valid (length names) 0 c lvs' Hs Hb A' Hv).
    destruct (forallb utf8_valid lvs') eqn:U.
    + exists lvs'. split; [exact Ec|]. split; [|split].
      * unfold hash_lvs. rewrite Hval. rewrite (hash_lvs_walk names 0 c lvs' H0 Hs Hb A'). reflexivity.
      * intros vals. unfold match_lvs. destruct (Nat.eqb (length vals) (length lvs' + length c)) eqn:B; simpl.
        -- apply Nat.eqb_eq in B. rewrite (match_lvs_walk vals 0 c lvs' Hs); [|simpl; rewrite B, A'; exact Hb|lia].
           rewrite B, A'. reflexivity.
        -- apply Nat.eqb_neq in B. split; [discriminate|]. intros F. exfalso. apply B. rewrite F, inline_loop_length. lia.
      * unfold inline_lvs. rewrite A'. reflexivity.
    + exists lvs', e_utf8. split; [exact Ec|]. split; [|discriminate].
      unfold hash_lvs. rewrite Hval. reflexivity.
  - apply Nat.eqb_neq in A.
    destruct (stuple_lv cstr 0 names c lvs) as [t|] eqn:E.
    { exfalso. apply A. apply (stuple_lv_arity names 0 c lvs t Hs Hb E). }
    simpl. exists lvs, e_arity. split; [|split; [|discriminate]].
    + unfold constrain_lvs. destruct (no_constraints cstr); [reflexivity|].
      replace (Nat.eqb (length lvs + length c) (length names)) with false by (symmetry; apply Nat.eqb_neq; exact A). reflexivity.
    + unfold hash_lvs, validate_lvs, expected.
      replace (Z.of_nat (length lvs) =? Z.of_nat (length names) - Z.of_nat (length c))%Z with false; [reflexivity|].
      symmetry. apply Z.eqb_neq. lia.
Qed.

End Decode.

(* ---- requests by label map ---- *)
Lemma lget_In k ls v : lget k ls = Some v -> In (k, v) ls.
Proof.
  induction ls as [|[k' v'] ls IH]; simpl; [discriminate|].
  destruct (str_eqb k' k) eqn:E.
  - intros F. inversion F; subst. apply str_eqb_eq in E. subst. left. reflexivity.
  - intros F. right. apply IH. exact F.
Qed.

Lemma lget_None k ls : lget k ls = None <-> ~ In k (map fst ls).
Proof.
  induction ls as [|[k' v'] ls IH]; simpl.
  - split; [intros _ F; exact F|reflexivity].
  - destruct (str_eqb k' k) eqn:E.
    + apply str_eqb_eq in E. subst. split; [discriminate|]. intros F. exfalso. apply F. left. reflexivity.
    + apply str_eqb_neq in E. rewrite IH. split.
      * intros F [G|G]; [contradiction|]. apply F. exact G.
      * intros F G. apply F. right. exact G.
Qed.

Lemma lget_NoDup k ls v : NoDup (map fst ls) -> In (k, v) ls -> lget k ls = Some v.
Proof.
  induction ls as [|[k' v'] ls IH]; simpl; intros ND HI; [contradiction|].
  inversion ND as [|? ? Hn ND']; subst.
  destruct HI as [E|HI].
  - inversion E; subst. rewrite str_eqb_refl. reflexivity.
  - destruct (str_eqb k' k) eqn:E.
    + apply str_eqb_eq in E. subst. exfalso. apply Hn. apply in_map_iff. exists (k, v). split; [reflexivity|exact HI].
    + apply IH; assumption.
Qed.

Lemma lget_Some_key k ls : In k (map fst ls) -> exists v, lget k ls = Some v.
Proof.
  intros Hin. destruct (lget k ls) as [v|] eqn:E; [exists v; reflexivity|].
  apply lget_None in E. contradiction.
Qed.

Section DecodeLabels.
Variable H0 : Z.
Variable hadd : Z -> str -> Z.
Variable haddb : Z -> Z -> Z.
Variable names : list str.
Variable cstr : list (str * (str -> str)).
Hypothesis names_nodup : NoDup names.

Notation HF := (Hfold H0 hadd haddb).
Notation step_h := (fun h v => haddb (hadd h v) sep).

Lemma cl_keys ls : map fst (constrain_labels cstr ls) = map fst ls.
Proof.
  unfold constrain_labels. destruct (no_constraints cstr); [reflexivity|].
  rewrite map_map. simpl. reflexivity.
Qed.

Lemma cl_length ls : length (constrain_labels cstr ls) = length ls.
Proof. rewrite <- (map_length fst), cl_keys, map_length. reflexivity. Qed.

Lemma cl_lget n ls : lget n (constrain_labels cstr ls) = option_map (constrain cstr n) (lget n ls).
Proof.
  unfold constrain_labels. destruct (no_constraints cstr) eqn:N.
  - destruct (lget n ls); simpl; [rewrite (no_constraints_id cstr N)|]; reflexivity.
  - induction ls as [|[k v] ls IH]; simpl; [reflexivity|].
    destruct (str_eqb k n) eqn:E; [|exact IH]. apply str_eqb_eq in E. subst. reflexivity.
Qed.

Lemma cl_In k v ls : In (k, v) (constrain_labels cstr ls) -> exists v0, In (k, v0) ls /\ v = constrain cstr k v0.
Proof.
  unfold constrain_labels. destruct (no_constraints cstr) eqn:N.
  - intros Hin. exists v. split; [exact Hin|]. rewrite (no_constraints_id cstr N). reflexivity.
  - intros Hin. apply in_map_iff in Hin. destruct Hin as ([k0 v0] & E & Hin). simpl in E. inversion E; subst.
    exists v0. split; [exact Hin|reflexivity].
Qed.

Lemma stuple_l_ext nm ls : forall i c1 c2, (forall k, (i <= k)%nat -> cget k c1 = cget k c2) ->
  stuple_l cstr i nm c1 ls = stuple_l cstr i nm c2 ls.
Proof.
  induction nm as [|n nm IH]; intros i c1 c2 Hc; simpl; [reflexivity|].
  rewrite <- (Hc i) by lia. rewrite (IH (S i) c1 c2); [reflexivity|]. intros k L. apply Hc. lia.
Qed.

Lemma stuple_l_tail nm ls i v c : stuple_l cstr (S i) nm ((i, v) :: c) ls = stuple_l cstr (S i) nm c ls.
Proof. apply stuple_l_ext. intros k L. apply cget_cons_ne. lia. Qed.

(* non-curried / curried names of a view *)
Fixpoint nonc (i : nat) (nm : list str) (c : curry) : list str :=
  match nm with
  | [] => []
  | n :: nm' => match cget i c with Some _ => nonc (S i) nm' c | None => n :: nonc (S i) nm' c end
  end.
Fixpoint curr (i : nat) (nm : list str) (c : curry) : list str :=
  match nm with
  | [] => []
  | n :: nm' => match cget i c with Some _ => n :: curr (S i) nm' c | None => curr (S i) nm' c end
  end.

Lemma nonc_or_curr nm : forall i c n, In n nm -> In n (nonc i nm c) \/ In n (curr i nm c).
Proof.
  induction nm as [|n0 nm IH]; intros i c n Hin; [destruct Hin|]. simpl.
  destruct Hin as [E|Hin].
  - subst. destruct (cget i c); [right|left]; left; reflexivity.
  - destruct (IH (S i) c n Hin) as [A|A]; destruct (cget i c); auto; [left|right]; right; exact A.
Qed.

Lemma nonc_incl nm : forall i c n, In n (nonc i nm c) -> In n nm.
Proof.
  induction nm as [|n0 nm IH]; intros i c n; simpl; [auto|].
  destruct (cget i c).
  - intros Hin. right. eapply IH. exact Hin.
  - intros [E|Hin]; [left; exact E|right; eapply IH; exact Hin].
Qed.

Lemma nonc_nodup nm : forall i c, NoDup nm -> NoDup (nonc i nm c).
Proof.
  induction nm as [|n0 nm IH]; intros i c ND; simpl; [constructor|].
  inversion ND as [|? ? Hn ND']; subst. destruct (cget i c); [apply IH; exact ND'|].
  constructor; [|apply IH; exact ND']. intros F. apply Hn. eapply nonc_incl. exact F.
Qed.

Lemma nonc_ext nm : forall i c1 c2, (forall k, (i <= k)%nat -> cget k c1 = cget k c2) -> nonc i nm c1 = nonc i nm c2.
Proof.
  induction nm as [|n nm IH]; intros i c1 c2 Hc; simpl; [reflexivity|].
  rewrite <- (Hc i) by lia. rewrite (IH (S i) c1 c2); [reflexivity|]. intros k L. apply Hc. lia.
Qed.

Lemma nonc_length nm : forall i c, csorted i c -> cbound (i + length nm) c ->
  (length (nonc i nm c) + length c = length nm)%nat.
Proof.
  induction nm as [|n nm IH]; intros i c Hs Hb.
  - destruct c as [|[j v] c]; [reflexivity|]. exfalso. simpl in Hs.
    assert (j < i + 0)%nat by (apply (Hb j v); left; reflexivity). lia.
  - assert (Hb' : forall c', (forall j w, In (j, w) c' -> In (j, w) c) -> cbound (S i + length nm) c').
    { intros c' Hin j w Hj. replace (S i + length nm)%nat with (i + length (n :: nm))%nat by (simpl; lia). apply (Hb j w). apply Hin. exact Hj. }
    destruct (head_cases i c Hs) as [(v & c' & Ec & S' & G & Hd)|(G & Hd & S')]; simpl; rewrite G.
    + subst c. rewrite (nonc_ext nm (S i) ((i, v) :: c') c') by (intros k L; apply cget_cons_ne; lia).
      assert (L := IH (S i) c' S' (Hb' c' (fun j w Hj => or_intror Hj))). simpl. lia.
    + assert (L := IH (S i) c S' (Hb' c (fun j w Hj => Hj))). simpl. lia.
Qed.

Section WithLabels.
Variables ls ls' : lbls.
Hypothesis Hl : forall n, lget n ls' = option_map (constrain cstr n) (lget n ls).

Lemma l_walk nm : forall i c h, csorted i c ->
  match hash_labels_loop hadd haddb i nm c ls' h with
  | inr h' => stuple_l cstr i nm c ls = Some (extract_loop i nm c ls') /\
              h' = fold_left step_h (extract_loop i nm c ls') h
  | inl e => stuple_l cstr i nm c ls = None /\ (e = e_curried \/ e = e_missing)
  end.
Proof.
  induction nm as [|n nm IH]; intros i c h Hs; [simpl; split; reflexivity|].
  destruct (head_cases i c Hs) as [(v & c' & Ec & S' & G & Hd)|(G & Hd & S')];
    cbn [hash_labels_loop stuple_l extract_loop]; rewrite Hd, G, (Hl n).
  - destruct (lget n ls) as [x|]; simpl.
    + split; [reflexivity|left; reflexivity].
    + subst c. rewrite stuple_l_tail. specialize (IH (S i) c' (haddb (hadd h v) sep) S').
      destruct (hash_labels_loop hadd haddb (S i) nm c' ls' (haddb (hadd h v) sep)) as [e|h'].
      * destruct IH as [A B]. rewrite A. split; [reflexivity|exact B].
      * destruct IH as [A B]. rewrite A. split; [reflexivity|exact B].
  - destruct (lget n ls) as [x|] eqn:Ex; simpl.
    + unfold lget0. rewrite (Hl n), Ex. simpl.
      specialize (IH (S i) c (haddb (hadd h (constrain cstr n x)) sep) S').
      destruct (hash_labels_loop hadd haddb (S i) nm c ls' (haddb (hadd h (constrain cstr n x)) sep)) as [e|h'].
      * destruct IH as [A B]. rewrite A. split; [reflexivity|exact B].
      * destruct IH as [A B]. rewrite A. split; [reflexivity|exact B].
    + split; [reflexivity|right; reflexivity].
Qed.

Lemma extract_loop_length nm : forall i c, length (extract_loop i nm c ls') = length nm.
Proof.
  induction nm as [|n nm IH]; intros i c; simpl; [reflexivity|].
  destruct (curry_head i c) as [[cv|] c']; simpl; rewrite IH; reflexivity.
Qed.

Lemma match_labels_walk nm : forall i vals c, length vals = length nm ->
  (match_labels_loop i nm vals c ls' = true <-> vals = extract_loop i nm c ls').
Proof.
  induction nm as [|n nm IH]; intros i vals c L.
  - destruct vals; [simpl; split; reflexivity|discriminate].
  - destruct vals as [|v0 vals]; [discriminate|]. simpl in L. injection L as L.
    cbn [match_labels_loop extract_loop]. destruct (curry_head i c) as [[cv|] c'].
    + destruct (str_eqb v0 cv) eqn:E.
      * apply str_eqb_eq in E. subst. rewrite (IH (S i) vals c' L). split; intros F; [f_equal; exact F|inversion F; congruence].
      * apply str_eqb_neq in E. split; [discriminate|]. intros F. inversion F. contradiction.
    + destruct (str_eqb v0 (lget0 n ls')) eqn:E.
      * apply str_eqb_eq in E. subst. rewrite (IH (S i) vals c L). split; intros F; [f_equal; exact F|inversion F; congruence].
      * apply str_eqb_neq in E. split; [discriminate|]. intros F. inversion F. contradiction.
Qed.

(* a successful walk: every non-curried name is given, no curried name is given *)
Lemma stuple_l_names nm : forall i c t, stuple_l cstr i nm c ls = Some t ->
  (forall n, In n (nonc i nm c) -> lget n ls <> None) /\ (forall n, In n (curr i nm c) -> lget n ls = None).
Proof.
  induction nm as [|n0 nm IH]; intros i c t E; simpl; [split; intros n []|].
  simpl in E. destruct (cget i c) as [v|], (lget n0 ls) as [x|] eqn:Ex; try discriminate.
  - destruct (stuple_l cstr (S i) nm c ls) as [t'|] eqn:E'; [|discriminate].
    destruct (IH (S i) c t' E') as [A B]. split; [exact A|]. intros n [F|F]; [subst; exact Ex|apply B; exact F].
  - destruct (stuple_l cstr (S i) nm c ls) as [t'|] eqn:E'; [|discriminate].
    destruct (IH (S i) c t' E') as [A B]. split; [|exact B]. intros n [F|F]; [subst; congruence|apply A; exact F].
Qed.

(* validity of the extracted tuple = validity of the given (normalised) values *)
Lemma extract_valid nm : forall i c, csorted i c -> (forall j v, In (j, v) c -> utf8_valid v = true) ->
  (forallb utf8_valid (extract_loop i nm c ls') = true <->
   forall n, In n (nonc i nm c) -> utf8_valid (lget0 n ls') = true).
Proof.
  induction nm as [|n0 nm IH]; intros i c Hs Hv; [simpl; split; [intros _ n []|reflexivity]|].
  destruct (head_cases i c Hs) as [(v & c' & Ec & S' & G & Hd)|(G & Hd & S')];
    cbn [extract_loop nonc]; rewrite Hd, G; simpl forallb.
  - subst c. rewrite (Hv i v) by (left; reflexivity). simpl.
    rewrite (nonc_ext nm (S i) ((i, v) :: c') c') by (intros k L; apply cget_cons_ne; lia).
    apply IH; [exact S'|]. intros j w Hj. apply (Hv j w). right. exact Hj.
  - rewrite andb_true_iff, (IH (S i) c S' Hv). split.
    + intros [A B] n [F|F]; [subst; exact A|apply B; exact F].
    + intros A. split; [apply A; left; reflexivity|]. intros n F. apply A. right. exact F.
Qed.

End WithLabels.

Lemma hash_labels_err c ls e : csorted 0 c ->
  hash_labels H0 hadd haddb names c (constrain_labels cstr ls) = inl e -> e <> e_panic.
Proof.
  intros Hs. unfold hash_labels, validate_labels.
  destruct (negb _); [intros F; inversion F; discriminate|].
  destruct (negb _); [intros F; inversion F; discriminate|].
  intros F. assert (W := l_walk ls (constrain_labels cstr ls) (fun n => cl_lget n ls) names 0 c H0 Hs).
  rewrite F in W. destruct W as [_ [A|A]]; subst; discriminate.
Qed.

(* GetMetricWith / Delete: a well-formed label map is decoded to its full tuple; anything else
   (wrong number of labels, unknown, missing or already curried names, invalid UTF-8) is an error *)
Lemma labels_decode c ls : cwf names c -> NoDup (map fst ls) ->
  let ls' := constrain_labels cstr ls in
  match req_l names cstr c ls with
  | Some t => hash_labels H0 hadd haddb names c ls' = inr (HF t) /\
              pred_is t (fun vals => match_labels names vals ls' c) /\ extract_lvs names ls' c = t
  | None => exists e, hash_labels H0 hadd haddb names c ls' = inl e /\ e <> e_panic
  end.
Proof.
  intros (Hs & Hb & Hv) NDl. cbv zeta. remember (constrain_labels cstr ls) as ls' eqn:Els.
  assert (Len' : length ls' = length ls) by (rewrite Els; apply cl_length).
  assert (Hl : forall n, lget n ls' = option_map (constrain cstr n) (lget n ls)) by (intros n; rewrite Els; apply cl_lget).
  assert (NDl' : NoDup (map fst ls')) by (rewrite Els, cl_keys; exact NDl).
  assert (W := l_walk ls ls' Hl names 0 c H0 Hs).
  assert (NL := nonc_length names 0 c Hs Hb).
  assert (NDn := nonc_nodup names 0 c names_nodup).
  (* facts that hold whenever the walk succeeds *)
  assert (Key : forall t, stuple_l cstr 0 names c ls = Some t ->
     incl (nonc 0 names c) (map fst ls) /\
     (incl (map fst ls) names -> incl (map fst ls) (nonc 0 names c))).
  { intros t E. destruct (stuple_l_names ls names 0 c t E) as [A B]. split.
    - intros n Hn. destruct (lget n ls) as [x|] eqn:Ex; [|exfalso; apply (A n Hn); exact Ex].
      apply lget_In in Ex. apply in_map_iff. exists (n, x). split; [reflexivity|exact Ex].
    - intros Hin k Hk. destruct (nonc_or_curr names 0 c k (Hin k Hk)) as [F|F]; [exact F|].
      exfalso. apply B in F. apply lget_None in F. contradiction. }
  assert (Val : forall t, stuple_l cstr 0 names c ls = Some t -> incl (map fst ls) (nonc 0 names c) ->
     forallb utf8_valid (extract_loop 0 names c ls') = forallb (fun kv => utf8_valid (snd kv)) ls').
  { intros t E Hin. apply Bool.eq_iff_eq_true. rewrite (extract_valid ls' names 0 c Hs Hv), forallb_forall. split.
    - intros A [k v] Hkv. simpl. assert (Hk : In k (nonc 0 names c)).
      { apply Hin. rewrite <- cl_keys, <- Els. apply in_map_iff. exists (k, v). split; [reflexivity|exact Hkv]. }
      specialize (A k Hk). unfold lget0 in A. rewrite (lget_NoDup k ls' v NDl' Hkv) in A. exact A.
    - intros A n Hn. destruct (Key t E) as [K1 _]. apply K1 in Hn. rewrite <- cl_keys, <- Els in Hn.
      destruct (lget_Some_key n ls' Hn) as (v & Ev). unfold lget0. rewrite Ev. apply lget_In in Ev. apply (A (n, v) Ev). }
  unfold req_l.
  destruct (hash_labels H0 hadd haddb names c ls') as [e|h] eqn:Eh.
  - (* the model rejects: the specification cannot accept *)
    assert (Hne : e <> e_panic) by (apply (hash_labels_err c ls e Hs); rewrite <- Els; exact Eh).
    destruct (forallb (fun kv => str_in (fst kv) names) ls) eqn:Ein; [|exists e; split; [reflexivity|exact Hne]].
    destruct (stuple_l cstr 0 names c ls) as [t|] eqn:E; [|exists e; split; [reflexivity|exact Hne]].
    simpl. destruct (forallb utf8_valid t) eqn:U; [|exists e; split; [reflexivity|exact Hne]].
    exfalso.
    assert (Hin : incl (map fst ls) names).
    { intros k Hk. apply in_map_iff in Hk. destruct Hk as ([k0 v0] & E0 & Hk). simpl in E0. subst k0.
      rewrite forallb_forall in Ein. specialize (Ein (k, v0) Hk). simpl in Ein. apply str_in_In in Ein. exact Ein. }
    destruct (Key t eq_refl) as [K1 K2]. specialize (K2 Hin).
    assert (Len : length ls = length (nonc 0 names c)).
    { rewrite <- (map_length fst ls). apply Nat.le_antisymm; apply NoDup_incl_length; assumption. }
    unfold hash_labels, validate_labels, expected in Eh. rewrite Len' in Eh.
    replace (Z.of_nat (length ls) =? Z.of_nat (length names) - Z.of_nat (length c))%Z with true in Eh
      by (symmetry; apply Z.eqb_eq; lia).
    simpl in Eh. destruct (hash_labels_loop hadd haddb 0 names c ls' H0) as [e'|h'] eqn:El.
    + destruct W as [A _]. discriminate.
    + destruct W as [A _]. inversion A; subst t.
      rewrite (Val _ eq_refl K2) in U. rewrite U in Eh. simpl in Eh. discriminate.
  - (* the model accepts *)
    unfold hash_labels, validate_labels, expected in Eh.
    destruct (Z.of_nat (length ls') =? Z.of_nat (length names) - Z.of_nat (length c))%Z eqn:Ar; simpl in Eh; [|discriminate].
    apply Z.eqb_eq in Ar. rewrite Len' in Ar.
    destruct (forallb (fun kv => utf8_valid (snd kv)) ls') eqn:U; simpl in Eh; [|discriminate].
    rewrite Eh in W. destruct W as [E Hh].
    destruct (Key _ E) as [K1 _].
    assert (K2 : incl (map fst ls) (nonc 0 names c)).
    { apply NoDup_length_incl; [exact NDn| |exact K1]. rewrite map_length. lia. }
    assert (Hin : forallb (fun kv => str_in (fst kv) names) ls = true).
    { apply forallb_forall. intros [k v] Hkv. simpl. apply str_in_In. eapply nonc_incl. apply K2.
      apply in_map_iff. exists (k, v). split; [reflexivity|exact Hkv]. }
    rewrite Hin, E. simpl. rewrite (Val _ E K2).
    split; [|split].
    + f_equal. exact Hh.
    + intros vals. unfold match_labels. destruct (Nat.eqb (length vals) (length ls' + length c)) eqn:B; simpl.
      * apply Nat.eqb_eq in B. apply match_labels_walk. rewrite Len' in B. lia.
      * apply Nat.eqb_neq in B. split; [discriminate|]. intros F. exfalso. apply B. rewrite F, extract_loop_length.
        rewrite Len'. lia.
    + reflexivity.
Qed.

End DecodeLabels.

(* ------------------------------------------------------------------------------------------ *)
(* D. CurryWith                                                                                *)
(* ------------------------------------------------------------------------------------------ *)

Lemma cget_In i c v : cget i c = Some v -> In (i, v) c.
Proof.
  induction c as [|[j w] c IH]; simpl; [discriminate|].
  destruct (Nat.eqb j i) eqn:E.
  - intros F. inversion F; subst. apply Nat.eqb_eq in E. subst. left. reflexivity.
  - intros F. right. apply IH. exact F.
Qed.

Section CurryProofs.
Variable names : list str.
Variable cstr : list (str * (str -> str)).
Hypothesis names_nodup : NoDup names.
Variable ls : lbls.
Hypothesis ls_nodup : NoDup (map fst ls).

Lemma curr_ext nm : forall i c1 c2, (forall k, (i <= k)%nat -> cget k c1 = cget k c2) -> curr i nm c1 = curr i nm c2.
Proof.
  induction nm as [|n nm IH]; intros i c1 c2 Hc; simpl; [reflexivity|].
  rewrite <- (Hc i) by lia. rewrite (IH (S i) c1 c2); [reflexivity|]. intros k L. apply Hc. lia.
Qed.

Lemma curry_build_ext nm : forall i c1 c2, (forall k, (i <= k)%nat -> cget k c1 = cget k c2) ->
  curry_build cstr i nm c1 ls = curry_build cstr i nm c2 ls.
Proof.
  induction nm as [|n nm IH]; intros i c1 c2 Hc; simpl; [reflexivity|].
  rewrite <- (Hc i) by lia. rewrite (IH (S i) c1 c2); [reflexivity|]. intros k L. apply Hc. lia.
Qed.

(* position of a name among the non-curried / curried names *)
Lemma nonc_index nm : forall i c k, NoDup nm ->
  (In k (nonc i nm c) <-> exists j, index_of k nm = Some j /\ cget (i + j) c = None).
Proof.
  induction nm as [|n nm IH]; intros i c k ND; simpl.
  - split; [intros []|intros (j & F & _); discriminate].
  - inversion ND as [|? ? Hn ND']; subst.
    destruct (str_eqb n k) eqn:E.
    + apply str_eqb_eq in E. subst n. split.
      * intros Hin. exists 0%nat. split; [reflexivity|]. rewrite Nat.add_0_r.
        destruct (cget i c); [|reflexivity]. exfalso. apply Hn. eapply nonc_incl. exact Hin.
      * intros (j & F & G). inversion F; subst j. rewrite Nat.add_0_r in G. rewrite G. left. reflexivity.
    + apply str_eqb_neq in E. split.
      * intros Hin. assert (Hin' : In k (nonc (S i) nm c)).
        { destruct (cget i c); [exact Hin|]. destruct Hin as [F|F]; [contradiction|exact F]. }
        apply (IH (S i) c k ND') in Hin'. destruct Hin' as (j & F & G). exists (S j). rewrite F. split; [reflexivity|].
        replace (i + S j)%nat with (S i + j)%nat by lia. exact G.
      * intros (j & F & G). destruct (index_of k nm) as [j'|] eqn:Ej; [|discriminate]. inversion F; subst j.
        assert (Hin' : In k (nonc (S i) nm c)).
        { apply (IH (S i) c k ND'). exists j'. split; [exact Ej|]. replace (S i + j')%nat with (i + S j')%nat by lia. exact G. }
        destruct (cget i c); [exact Hin'|right; exact Hin'].
Qed.

Lemma curr_incl nm : forall i c n, In n (curr i nm c) -> In n nm.
Proof.
  induction nm as [|n0 nm IH]; intros i c n; simpl; [auto|].
  destruct (cget i c).
  - intros [E|Hin]; [left; exact E|right; eapply IH; exact Hin].
  - intros Hin. right. eapply IH. exact Hin.
Qed.

Lemma nonc_curr_disjoint nm : forall i c k, NoDup nm -> In k (nonc i nm c) -> In k (curr i nm c) -> False.
Proof.
  induction nm as [|n nm IH]; intros i c k ND; simpl; [auto|].
  inversion ND as [|? ? Hn ND']; subst. destruct (cget i c).
  - intros A [B|B]; [subst; apply Hn; eapply nonc_incl; exact A|eapply IH; eassumption].
  - intros [A|A] B; [subst; apply Hn; eapply curr_incl; exact B|eapply IH; eassumption].
Qed.

(* the CurryWith loop *)
Lemma curry_walk nm : forall i c, csorted i c ->
  match curry_loop cstr i nm c ls with
  | inr new => new = curry_build cstr i nm c ls /\
               (forall n, In n (curr i nm c) -> lget n ls = None) /\
               (forall n x, In n (nonc i nm c) -> lget n ls = Some x -> utf8_valid (constrain cstr n x) = true)
  | inl e => (e = e_curried \/ e = e_utf8) /\
             ((exists n, In n (curr i nm c) /\ lget n ls <> None) \/
              (exists n x, In n (nonc i nm c) /\ lget n ls = Some x /\ utf8_valid (constrain cstr n x) = false))
  end.
Proof.
  induction nm as [|n nm IH]; intros i c Hs.
  - simpl. split; [reflexivity|split; [intros n []|intros n x []]].
  - destruct (head_cases i c Hs) as [(v & c' & Ec & S' & G & Hd)|(G & Hd & S')];
      cbn [curry_loop curry_build curr nonc]; rewrite Hd, G.
    + destruct (lget n ls) as [x|] eqn:Ex.
      * split; [left; reflexivity|]. left. exists n. split; [left; reflexivity|congruence].
      * subst c.
        rewrite (curry_build_ext nm (S i) ((i, v) :: c') c'), (curr_ext nm (S i) ((i, v) :: c') c'),
                (nonc_ext nm (S i) ((i, v) :: c') c') by (intros k L; apply cget_cons_ne; lia).
        specialize (IH (S i) c' S'). destruct (curry_loop cstr (S i) nm c' ls) as [e|new].
        -- destruct IH as [A [(m & B1 & B2)|(m & y & B1 & B2 & B3)]]; split; try exact A.
           ++ left. exists m. split; [right; exact B1|exact B2].
           ++ right. exists m, y. repeat split; assumption.
        -- destruct IH as (A & B & C). split; [rewrite A; reflexivity|]. split; [|exact C].
           intros m [F|F]; [subst; exact Ex|apply B; exact F].
    + destruct (lget n ls) as [x|] eqn:Ex.
      * destruct (utf8_valid (constrain cstr n x)) eqn:U; simpl.
        -- specialize (IH (S i) c S'). destruct (curry_loop cstr (S i) nm c ls) as [e|new].
           ++ destruct IH as [A [(m & B1 & B2)|(m & y & B1 & B2 & B3)]]; split; try exact A.
              ** left. exists m. split; assumption.
              ** right. exists m, y. repeat split; [right; exact B1|exact B2|exact B3].
           ++ destruct IH as (A & B & C). split; [rewrite A; reflexivity|]. split; [exact B|].
              intros m y [F|F] Hy; [subst; rewrite Ex in Hy; inversion Hy; subst; exact U|apply (C m y F Hy)].
        -- split; [right; reflexivity|]. right. exists n, x. repeat split; [left; reflexivity|exact Ex|exact U].
      * specialize (IH (S i) c S'). destruct (curry_loop cstr (S i) nm c ls) as [e|new].
        -- destruct IH as [A [(m & B1 & B2)|(m & y & B1 & B2 & B3)]]; split; try exact A.
           ++ left. exists m. split; assumption.
           ++ right. exists m, y. repeat split; [right; exact B1|exact B2|exact B3].
        -- destruct IH as (A & B & C). split; [exact A|]. split; [exact B|].
           intros m y [F|F] Hy; [subst; congruence|apply (C m y F Hy)].
Qed.

(* given non-curried names *)
Definition given (i : nat) (nm : list str) (c : curry) : list str :=
  filter (fun n => match lget n ls with Some _ => true | None => false end) (nonc i nm c).

Lemma curry_build_length nm : forall i c, csorted i c -> cbound (i + length nm) c ->
  length (curry_build cstr i nm c ls) = (length c + length (given i nm c))%nat.
Proof.
  induction nm as [|n nm IH]; intros i c Hs Hb.
  - destruct c as [|[j v] c]; [reflexivity|]. exfalso. simpl in Hs.
    assert (j < i + 0)%nat by (apply (Hb j v); left; reflexivity). lia.
  - assert (Hb' : forall c', (forall j w, In (j, w) c' -> In (j, w) c) -> cbound (S i + length nm) c').
    { intros c' Hin j w Hj. replace (S i + length nm)%nat with (i + length (n :: nm))%nat by (simpl; lia). apply (Hb j w). apply Hin. exact Hj. }
    unfold given in *.
    destruct (head_cases i c Hs) as [(v & c' & Ec & S' & G & Hd)|(G & Hd & S')]; cbn [curry_build nonc]; rewrite G.
    + subst c. rewrite (curry_build_ext nm (S i) ((i, v) :: c') c'), (nonc_ext nm (S i) ((i, v) :: c') c')
        by (intros k L; apply cget_cons_ne; lia).
      simpl. rewrite (IH (S i) c' S' (Hb' c' (fun j w Hj => or_intror Hj))). reflexivity.
    + simpl. destruct (lget n ls); simpl; rewrite (IH (S i) c S' (Hb' c (fun j w Hj => Hj))); lia.
Qed.

Lemma curry_build_wf nm : forall i c,
  (forall j v, In (j, v) c -> utf8_valid v = true) ->
  (forall n x, In n (nonc i nm c) -> lget n ls = Some x -> utf8_valid (constrain cstr n x) = true) ->
  csorted i (curry_build cstr i nm c ls) /\ cbound (i + length nm) (curry_build cstr i nm c ls) /\
  (forall j v, In (j, v) (curry_build cstr i nm c ls) -> utf8_valid v = true).
Proof.
  induction nm as [|n nm IH]; intros i c Hv Hg; simpl.
  - repeat split; intros ? ? [].
  - assert (Hg' : forall n0 x, In n0 (nonc (S i) nm c) -> lget n0 ls = Some x -> utf8_valid (constrain cstr n0 x) = true).
    { intros n0 x Hin. apply Hg. simpl. destruct (cget i c); [exact Hin|right; exact Hin]. }
    destruct (IH (S i) c Hv Hg') as (A & B & C).
    assert (B' : cbound (i + S (length nm)) (curry_build cstr (S i) nm c ls)).
    { intros j v Hin. specialize (B j v Hin). lia. }
    destruct (cget i c) as [v|] eqn:G.
    + repeat split; [lia|exact A| |].
      * intros j w [F|F]; [inversion F; lia|apply (B' j w F)].
      * intros j w [F|F]; [inversion F; subst; apply (Hv j w); apply cget_In; exact G|apply (C j w F)].
    + destruct (lget n ls) as [x|] eqn:Ex.
      * repeat split; [lia|exact A| |].
        -- intros j w [F|F]; [inversion F; lia|apply (B' j w F)].
        -- intros j w [F|F]; [|apply (C j w F)]. inversion F; subst. apply (Hg n x); [|exact Ex].
           simpl. rewrite G. left. reflexivity.
      * repeat split; [apply (csorted_mono (S i)); [exact A|lia]|exact B'|exact C].
Qed.

Lemma given_facts c : NoDup (given 0 names c) /\ incl (given 0 names c) (map fst ls).
Proof.
  unfold given. split.
  - apply NoDup_filter. apply nonc_nodup. exact names_nodup.
  - intros n Hn. apply filter_In in Hn. destruct Hn as [_ Hn]. destruct (lget n ls) as [x|] eqn:Ex; [|discriminate].
    apply lget_In in Ex. apply in_map_iff. exists (n, x). split; [reflexivity|exact Ex].
Qed.

(* CurryWith agrees with the specification: accepted exactly when every given name is a known,
   not yet curried label with a valid (normalised) value; the new view is well-formed *)
Lemma curry_decode c : cwf names c ->
  if curry_ok names cstr c ls
  then curry_with names cstr c ls = inr (curry_build cstr 0 names c ls) /\ cwf names (curry_build cstr 0 names c ls)
  else exists e, curry_with names cstr c ls = inl e /\ e <> e_panic.
Proof.
  intros (Hs & Hb & Hv).
  assert (W := curry_walk names 0 c Hs).
  assert (BL := curry_build_length names 0 c Hs Hb).
  destruct (given_facts c) as [GN GI].
  assert (GL : (length (given 0 names c) <= length ls)%nat).
  { rewrite <- (map_length fst ls). apply NoDup_incl_length; assumption. }
  (* curry_ok in terms of the non-curried names *)
  assert (OK : curry_ok names cstr c ls = true <->
               forall k v, In (k, v) ls -> In k (nonc 0 names c) /\ utf8_valid (constrain cstr k v) = true).
  { unfold curry_ok. rewrite forallb_forall. split.
    - intros A k v Hkv. specialize (A (k, v) Hkv). simpl in A.
      destruct (index_of k names) as [j|] eqn:Ej; [|discriminate]. apply andb_true_iff in A. destruct A as [A1 A2].
      split; [|exact A2]. apply (nonc_index names 0 c k names_nodup). exists j. split; [exact Ej|].
      simpl. destruct (cget j c); [discriminate|reflexivity].
    - intros A [k v] Hkv. simpl. destruct (A k v Hkv) as [A1 A2].
      apply (nonc_index names 0 c k names_nodup) in A1. destruct A1 as (j & Ej & Gj). simpl in Gj.
      rewrite Ej, Gj, A2. reflexivity. }
  unfold curry_with.
  destruct (curry_ok names cstr c ls) eqn:Ok.
  - assert (A := proj1 OK eq_refl).
    destruct (curry_loop cstr 0 names c ls) as [e|new].
    + exfalso. destruct W as [_ [(n & B1 & B2)|(n & x & B1 & B2 & B3)]].
      * destruct (lget n ls) as [x|] eqn:Ex; [|congruence]. apply lget_In in Ex.
        destruct (A n x Ex) as [A1 _]. eapply nonc_curr_disjoint; [exact names_nodup|exact A1|exact B1].
      * apply lget_In in B2. destruct (A n x B2) as [_ A2]. congruence.
    + destruct W as (E & B & C). subst new.
      assert (Hall : incl (map fst ls) (given 0 names c)).
      { intros k Hk. apply in_map_iff in Hk. destruct Hk as ([k0 v] & E0 & Hk). simpl in E0. subst k0.
        unfold given. apply filter_In. split; [apply (A k v Hk)|]. rewrite (lget_NoDup k ls v ls_nodup Hk). reflexivity. }
      assert (length ls <= length (given 0 names c))%nat.
      { rewrite <- (map_length fst ls). apply NoDup_incl_length; assumption. }
      replace (0 <? Z.of_nat (length c) + Z.of_nat (length ls) - Z.of_nat (length (curry_build cstr 0 names c ls)))%Z with false
        by (symmetry; apply Z.ltb_ge; rewrite BL; lia).
      split; [reflexivity|]. apply (curry_build_wf names 0 c Hv C).
  - destruct (curry_loop cstr 0 names c ls) as [e|new].
    + exists e. split; [reflexivity|]. destruct W as [[A|A] _]; subst; discriminate.
    + destruct (0 <? Z.of_nat (length c) + Z.of_nat (length ls) - Z.of_nat (length new))%Z eqn:Lt.
      * exists e_unknown. split; [reflexivity|discriminate].
      * exfalso. destruct W as (E & B & C). subst new. apply Z.ltb_ge in Lt. rewrite BL in Lt.
        assert (Hall : incl (map fst ls) (given 0 names c)).
        { apply NoDup_length_incl; [exact GN|rewrite map_length; lia|exact GI]. }
        assert (T : false = true); [|discriminate].
        apply OK. intros k v Hkv.
        assert (Hk : In k (given 0 names c)) by (apply Hall; apply in_map_iff; exists (k, v); split; [reflexivity|exact Hkv]).
        unfold given in Hk. apply filter_In in Hk. destruct Hk as [Hk _]. split; [exact Hk|].
        apply (C k v Hk). apply lget_NoDup; assumption.
Qed.

End CurryProofs.

(* ------------------------------------------------------------------------------------------ *)
(* E. every operation sequence over the base vector and its curried views                      *)
(* ------------------------------------------------------------------------------------------ *)

Lemma forallb_ext' {A} (f g : A -> bool) l : (forall x, f x = g x) -> forallb f l = forallb g l.
Proof. intros E. induction l as [|x l IH]; simpl; [reflexivity|]. rewrite E, IH. reflexivity. Qed.

Lemma forallb_map' {A B} (h : A -> B) (f : B -> bool) l : forallb f (map h l) = forallb (fun x => f (h x)) l.
Proof. induction l as [|x l IH]; simpl; [reflexivity|]. rewrite IH. reflexivity. Qed.

Lemma s_remove_absent t l : alookup t l = None -> s_remove t l = l.
Proof.
  intros Hn. apply filter_id. intros x Hx. apply negb_true_iff. apply vals_eqb_neq. intros F.
  apply alookup_None in Hn. apply Hn. apply in_map_iff. exists x. split; assumption.
Qed.

Lemma get_tuple_refines H st s t p : inv H st -> Permutation (entries (mm st)) (s_map s) ->
  next st = s_next s -> pred_is t p ->
  let '(id, st') := get_or_create (H t) p t st in
  let '(x, s') := s_get t s in
  x = SId id /\ inv H st' /\ Permutation (entries (mm st')) (s_map s') /\ next st' = s_next s' /\
  s_views s' = s_views s.
Proof.
  intros I P N Hp. rewrite (get_or_create_eq H t p st I Hp). unfold s_get.
  rewrite <- (alookup_perm t _ _ (inv_keys H st I) P).
  destruct (alookup t (entries (mm st))) as [id|] eqn:E.
  - rewrite (sec_create_hit H t p st id I Hp E). split; [reflexivity|]. split; [exact I|]. split; [exact P|]. split; [exact N|reflexivity].
  - assert (M := sec_create_miss H t p st I Hp E). destruct (sec_create (H t) p t st) as [id st'].
    destruct M as (A & B & C & D). subst id. simpl. rewrite <- N.
    split; [reflexivity|]. split; [exact B|]. split; [|split; [exact C|reflexivity]].
    eapply Permutation_trans; [exact D|]. eapply Permutation_trans; [apply perm_skip; exact P|]. apply Permutation_cons_append.
Qed.

Lemma del_tuple_refines H st s t p : inv H st -> Permutation (entries (mm st)) (s_map s) ->
  next st = s_next s -> pred_is t p ->
  let '(b, st') := delete_by_hash (H t) p st in
  let '(x, s') := s_del t s in
  x = SBool b /\ inv H st' /\ Permutation (entries (mm st')) (s_map s') /\ next st' = s_next s' /\
  s_views s' = s_views s.
Proof.
  intros I P N Hp. assert (M := delete_by_hash_spec H t p st I Hp).
  destruct (delete_by_hash (H t) p st) as [b st']. destruct M as (A & B & C & D).
  unfold s_del. rewrite <- (alookup_perm t _ _ (inv_keys H st I) P).
  assert (PF : Permutation (s_remove t (entries (mm st))) (s_remove t (s_map s))) by (apply Permutation_filter; exact P).
  destruct (alookup t (entries (mm st))) as [id|] eqn:E; subst b; simpl.
  - split; [reflexivity|]. split; [exact A|]. split; [rewrite C; exact PF|]. split; [lia|reflexivity].
  - split; [reflexivity|]. split; [exact A|]. split; [|split; [lia|reflexivity]].
    rewrite C, (s_remove_absent t _ E). exact P.
Qed.

Lemma partial_refines H st (a : list entry) q sel : inv H st -> Permutation (entries (mm st)) a ->
  (forall v, q v = sel v) ->
  let '(n, st') := delete_partial q st in
  n = Z.of_nat (length (filter (fun e : entry => sel (fst e)) a)) /\ inv H st' /\
  Permutation (entries (mm st')) (filter (fun e : entry => negb (sel (fst e))) a) /\ next st' = next st.
Proof.
  intros I P Hq. assert (M := delete_partial_spec H q st I).
  destruct (delete_partial q st) as [n st']. destruct M as (A & B & C & D).
  split; [|split; [exact A|split; [|exact B]]].
  - rewrite D. f_equal. rewrite (filter_ext _ (fun e : entry => sel (fst e))) by (intros e; apply Hq).
    apply Permutation_length. apply Permutation_filter. exact P.
  - rewrite C. rewrite (filter_ext _ (fun e : entry => negb (sel (fst e)))) by (intros e; rewrite Hq; reflexivity).
    apply Permutation_filter. exact P.
Qed.

(* Collect *)
Lemma ins_by_id_perm e l : Permutation (ins_by_id e l) (e :: l).
Proof.
  induction l as [|x l IH]; simpl; [apply Permutation_refl|].
  destruct (Nat.leb (snd e) (snd x)); [apply Permutation_refl|].
  eapply Permutation_trans; [apply perm_skip; exact IH|apply perm_swap].
Qed.

Lemma sort_by_id_perm l : Permutation (sort_by_id l) l.
Proof.
  induction l as [|e l IH]; simpl; [constructor|].
  eapply Permutation_trans; [apply ins_by_id_perm|apply perm_skip; exact IH].
Qed.

Lemma entry_eqb_eq a b : entry_eqb a b = true <-> a = b.
Proof.
  destruct a as [v i], b as [w j]. unfold entry_eqb. simpl. rewrite andb_true_iff, vals_eqb_eq, Nat.eqb_eq.
  split; [intros [A B]; subst; reflexivity|intros E; inversion E; split; reflexivity].
Qed.

Lemma entry_in_In e l : entry_in e l = true <-> In e l.
Proof.
  unfold entry_in. rewrite existsb_exists. split.
  - intros (x & Hx & E). apply entry_eqb_eq in E. subst. exact Hx.
  - intros Hin. exists e. split; [exact Hin|apply entry_eqb_eq; reflexivity].
Qed.

(* Collect output is canonical: sorting by id two lists with the same elements and pairwise distinct ids
   gives the same list *)
Lemma entries_eqb_refl l : entries_eqb l l = true.
Proof. induction l as [|e l IH]; simpl; [reflexivity|]. rewrite IH, andb_true_r. apply entry_eqb_eq. reflexivity. Qed.

Lemma entries_eqb_eq a : forall b, entries_eqb a b = true -> a = b.
Proof.
  induction a as [|x a IH]; intros [|y b]; simpl; try discriminate; [reflexivity|].
  intros E. apply andb_true_iff in E. destruct E as [E1 E2]. apply entry_eqb_eq in E1. apply IH in E2. subst. reflexivity.
Qed.

Definition id_le (a b : entry) : Prop := (snd a <= snd b)%nat.

Lemma ins_by_id_sorted e l : StronglySorted id_le l -> StronglySorted id_le (ins_by_id e l).
Proof.
  induction l as [|x r IH]; simpl; intros HS.
  - constructor; constructor.
  - inversion HS as [|? ? HS' HF]; subst. destruct (Nat.leb (snd e) (snd x)) eqn:E.
    + apply Nat.leb_le in E. constructor; [exact HS|]. constructor; [exact E|].
      eapply Forall_impl; [|exact HF]. intros y Hy. unfold id_le in *. lia.
    + apply Nat.leb_gt in E. constructor; [apply IH; exact HS'|].
      apply Forall_forall. intros y Hy. eapply Permutation_in in Hy; [|apply ins_by_id_perm].
      destruct Hy as [Hy|Hy]; [subst; unfold id_le; lia|]. rewrite Forall_forall in HF. apply HF. exact Hy.
Qed.

Lemma sort_by_id_sorted l : StronglySorted id_le (sort_by_id l).
Proof. induction l as [|e l IH]; simpl; [constructor|apply ins_by_id_sorted; exact IH]. Qed.

Lemma sorted_perm_eq l1 : forall l2, StronglySorted id_le l1 -> StronglySorted id_le l2 ->
  Permutation l1 l2 -> NoDup (map snd l1) -> l1 = l2.
Proof.
  induction l1 as [|a r1 IH]; intros l2 S1 S2 P ND.
  - apply Permutation_nil in P. subst. reflexivity.
  - destruct l2 as [|b r2]; [apply Permutation_sym, Permutation_nil in P; discriminate|].
    inversion S1 as [|? ? S1' F1]; subst. inversion S2 as [|? ? S2' F2]; subst.
    inversion ND as [|? ? Hn ND']; subst.
    assert (Hab : a = b).
    { assert (Ha : In a (b :: r2)) by (eapply Permutation_in; [exact P|left; reflexivity]).
      assert (Hb : In b (a :: r1)) by (eapply Permutation_in; [apply Permutation_sym; exact P|left; reflexivity]).
      destruct Hb as [Hb|Hb]; [exact Hb|]. destruct Ha as [Ha|Ha]; [symmetry; exact Ha|].
      rewrite Forall_forall in F1, F2. specialize (F1 b Hb). specialize (F2 a Ha). unfold id_le in *.
      exfalso. apply Hn. replace (snd a) with (snd b) by lia. apply in_map. exact Hb. }
    subst b. f_equal. apply IH; try assumption. eapply Permutation_cons_inv. exact P.
Qed.

Lemma sort_by_id_perm_eq l1 l2 : Permutation l1 l2 -> NoDup (map snd l1) -> sort_by_id l1 = sort_by_id l2.
Proof.
  intros P ND. apply sorted_perm_eq; try apply sort_by_id_sorted.
  - eapply Permutation_trans; [apply sort_by_id_perm|]. eapply Permutation_trans; [exact P|]. apply Permutation_sym, sort_by_id_perm.
  - eapply Permutation_NoDup; [apply Permutation_map; apply Permutation_sym; apply sort_by_id_perm|exact ND].
Qed.

Lemma nodup_keys_NoDup l : NoDup (map fst l) -> nodup_keys l = true.
Proof.
  induction l as [|e l IH]; simpl; intros ND; [reflexivity|].
  inversion ND as [|? ? Hn ND']; subst. rewrite (IH ND'), andb_true_r. apply negb_true_iff.
  apply Bool.not_true_iff_false. intros E. apply existsb_exists in E. destruct E as (x & Hx & F). apply vals_eqb_eq in F.
  apply Hn. rewrite <- F. apply in_map. exact Hx.
Qed.

Lemma coll_ok_perm a l : Permutation l a -> NoDup (map fst l) -> coll_ok a l = true.
Proof.
  intros P ND. unfold coll_ok. rewrite !andb_true_iff. repeat split.
  - apply forallb_forall. intros e He. apply entry_in_In. eapply Permutation_in; eassumption.
  - apply forallb_forall. intros e He. apply entry_in_In. eapply Permutation_in; [apply Permutation_sym; exact P|exact He].
  - apply nodup_keys_NoDup. exact ND.
Qed.

Section Trace.
Variable H0 : Z.
Variable hadd : Z -> str -> Z.
Variable haddb : Z -> Z -> Z.
Variable names : list str.
Variable cstr : list (str * (str -> str)).
Hypothesis names_nodup : NoDup names.

Notation HF := (Hfold H0 hadd haddb).
Notation mstep := (step H0 hadd haddb names cstr).
Notation mrun := (run H0 hadd haddb names cstr).

(* the model world and the plain map describe the same vector *)
Definition Rw (w : world) (s : sworld) : Prop :=
  inv HF (w_st w) /\ Permutation (entries (mm (w_st w))) (s_map s) /\ next (w_st w) = s_next s /\
  w_views w = s_views s /\ Forall (cwf names) (w_views w).

(* label maps are Go maps: their keys are pairwise distinct *)
Definition op_wf (o : op) : Prop :=
  match o with
  | OGetL _ _ ls | OCurry _ _ ls | ODelL _ ls | ODelPartial _ ls => NoDup (map fst ls)
  | _ => True
  end.

Lemma cwf_nil : cwf names [].
Proof. repeat split; try (intros ? ? []). Qed.

Lemma view_wf views v : Forall (cwf names) views -> cwf names (view_of views v).
Proof.
  intros F. unfold view_of. destruct (nth_in_or_default v views []) as [Hin|E].
  - rewrite Forall_forall in F. apply F. exact Hin.
  - rewrite E. apply cwf_nil.
Qed.

Lemma Rw_init : Rw init_world init_sworld.
Proof.
  unfold Rw. simpl. split; [|split; [constructor|split; [reflexivity|split; [reflexivity|]]]].
  - constructor; simpl; try constructor. intros h b e []. intros e [].
  - constructor; [apply cwf_nil|constructor].
Qed.

Lemma mk_err_no_panic e must : e <> e_panic -> mk_err e must = RErr e must.
Proof.
  intros N. unfold mk_err. replace (e =? e_panic)%Z with false by (symmetry; apply Z.eqb_neq; exact N).
  rewrite orb_false_r. reflexivity.
Qed.

Lemma partial_eq c ls vals : match_partial names vals (constrain_labels cstr ls) c = sel_partial names cstr c ls vals.
Proof.
  unfold match_partial, sel_partial, constrain_labels. destruct (no_constraints cstr) eqn:N.
  - apply forallb_ext'. intros [k v]. simpl. rewrite (no_constraints_id cstr N). reflexivity.
  - rewrite forallb_map'. apply forallb_ext'. intros [k v]. reflexivity.
Qed.

Ltac finish_Rw := unfold Rw; simpl; repeat (split; try assumption; try reflexivity; try congruence).

(* one operation: the observed result is the one the plain map prescribes, and the states stay related *)
Lemma step_refines w s o : Rw w s -> op_wf o ->
  let '(r, w') := mstep w o in
  let '(x, s') := sstep names cstr s o in
  res_ok o x r = true /\ Rw w' s'.
Proof.
  intros (I & P & N & V & F) Wf. destruct w as [st views]. simpl in *. subst views.
  destruct o as [v must lvs|v must ls|v must ls|v lvs|v ls|v ls|v|v]; simpl.
  - (* GetMetricWithLabelValues *)
    assert (D := lvs_decode H0 hadd haddb names cstr (view_of (s_views s) v) lvs (view_wf _ v F)).
    unfold get_lvs. destruct (req_lv names cstr (view_of (s_views s) v) lvs) as [t|].
    + destruct D as (lvs' & E1 & E2 & E3 & E4). rewrite E1, E2, E4.
      assert (G := get_tuple_refines HF st s t _ I P N E3).
      destruct (get_or_create (HF t) (fun vals => match_lvs vals lvs' (view_of (s_views s) v)) t st) as [id st'].
      destruct (s_get t s) as [x s']. destruct G as (A & B & C & D & E). subst x. simpl.
      rewrite Nat.eqb_refl. split; [reflexivity|]. finish_Rw.
    + destruct D as (lvs' & e & E1 & E2 & E3). rewrite E1, E2, (mk_err_no_panic e must E3). simpl.
      replace (e =? e_panic)%Z with false by (symmetry; apply Z.eqb_neq; exact E3). rewrite eqb_reflx.
      split; [reflexivity|]. finish_Rw.
  - (* GetMetricWith *)
    assert (D := labels_decode H0 hadd haddb names cstr names_nodup (view_of (s_views s) v) ls (view_wf _ v F) Wf).
    cbv zeta in D. unfold get_labels. destruct (req_l names cstr (view_of (s_views s) v) ls) as [t|].
    + destruct D as (E2 & E3 & E4). rewrite E2, E4.
      assert (G := get_tuple_refines HF st s t _ I P N E3).
      destruct (get_or_create (HF t) (fun vals => match_labels names vals (constrain_labels cstr ls) (view_of (s_views s) v)) t st) as [id st'].
      destruct (s_get t s) as [x s']. destruct G as (A & B & C & D & E). subst x. simpl.
      rewrite Nat.eqb_refl. split; [reflexivity|]. finish_Rw.
    + destruct D as (e & E2 & E3). rewrite E2, (mk_err_no_panic e must E3). simpl.
      replace (e =? e_panic)%Z with false by (symmetry; apply Z.eqb_neq; exact E3). rewrite eqb_reflx.
      split; [reflexivity|]. finish_Rw.
  - (* CurryWith *)
    assert (D := curry_decode names cstr names_nodup ls Wf (view_of (s_views s) v) (view_wf _ v F)).
    destruct (curry_ok names cstr (view_of (s_views s) v) ls).
    + destruct D as (E1 & E2). rewrite E1. simpl. split; [reflexivity|]. unfold Rw. simpl.
      repeat (split; try assumption; try reflexivity). apply Forall_app. split; [exact F|constructor; [exact E2|constructor]].
    + destruct D as (e & E1 & E2). rewrite E1, (mk_err_no_panic e must E2). simpl.
      replace (e =? e_panic)%Z with false by (symmetry; apply Z.eqb_neq; exact E2). rewrite eqb_reflx.
      split; [reflexivity|]. finish_Rw.
  - (* DeleteLabelValues *)
    assert (D := lvs_decode H0 hadd haddb names cstr (view_of (s_views s) v) lvs (view_wf _ v F)).
    unfold del_lvs. destruct (req_lv names cstr (view_of (s_views s) v) lvs) as [t|].
    + destruct D as (lvs' & E1 & E2 & E3 & E4). rewrite E1, E2.
      assert (G := del_tuple_refines HF st s t _ I P N E3).
      destruct (delete_by_hash (HF t) (fun vals => match_lvs vals lvs' (view_of (s_views s) v)) st) as [b st'].
      destruct (s_del t s) as [x s']. destruct G as (A & B & C & D & E). subst x. simpl.
      rewrite eqb_reflx. split; [reflexivity|]. finish_Rw.
    + destruct D as (lvs' & e & E1 & E2 & E3). rewrite E1, E2.
      replace (e =? e_panic)%Z with false by (symmetry; apply Z.eqb_neq; exact E3). simpl.
      split; [reflexivity|]. finish_Rw.
  - (* Delete *)
    assert (D := labels_decode H0 hadd haddb names cstr names_nodup (view_of (s_views s) v) ls (view_wf _ v F) Wf).
    cbv zeta in D. unfold del_labels. destruct (req_l names cstr (view_of (s_views s) v) ls) as [t|].
    + destruct D as (E2 & E3 & E4). rewrite E2.
      assert (G := del_tuple_refines HF st s t _ I P N E3).
      destruct (delete_by_hash (HF t) (fun vals => match_labels names vals (constrain_labels cstr ls) (view_of (s_views s) v)) st) as [b st'].
      destruct (s_del t s) as [x s']. destruct G as (A & B & C & D & E). subst x. simpl.
      rewrite eqb_reflx. split; [reflexivity|]. finish_Rw.
    + destruct D as (e & E2 & E3). rewrite E2. simpl. split; [reflexivity|]. finish_Rw.
  - (* DeletePartialMatch *)
    unfold del_partial.
    assert (G := partial_refines HF st (s_map s)
                   (fun vals => match_partial names vals (constrain_labels cstr ls) (view_of (s_views s) v))
                   (sel_partial names cstr (view_of (s_views s) v) ls) I P (partial_eq _ ls)).
    destruct (delete_partial _ st) as [n st']. destruct G as (A & B & C & D). simpl.
    subst n. rewrite Z.eqb_refl. split; [reflexivity|]. finish_Rw.
  - (* Reset *)
    split; [reflexivity|]. unfold Rw. simpl. split; [apply reset_inv|]. repeat (split; try assumption; try reflexivity).
  - (* Collect *)
    split; [|finish_Rw]. unfold collect. apply coll_ok_perm.
    + eapply Permutation_trans; [apply sort_by_id_perm|exact P].
    + eapply Permutation_NoDup; [apply Permutation_map; apply Permutation_sym; apply sort_by_id_perm|apply (inv_keys HF st I)].
Qed.

Lemma run_refines ops : forall w s, Rw w s -> Forall op_wf ops ->
  let '(rs, w') := mrun w ops in
  spec_ok names cstr s ops rs = true /\ Rw w' (snd (spec_run names cstr s ops)).
Proof.
  induction ops as [|o ops IH]; intros w s R Wf; simpl.
  - split; [reflexivity|exact R].
  - inversion Wf as [|? ? Wo Wr]; subst.
    assert (St := step_refines w s o R Wo).
    destruct (mstep w o) as [r w1]. destruct (sstep names cstr s o) as [x s1]. destruct St as [A B].
    specialize (IH w1 s1 B Wr). destruct (mrun w1 ops) as [rs w2].
    destruct (spec_run names cstr s1 ops) as [xs s2]. simpl in *. destruct IH as [C D].
    rewrite A, C. split; [reflexivity|exact D].
Qed.

(* ---- the clauses of the property, spelled out ---- *)

Definition sinv (s : sworld) : Prop :=
  NoDup (map fst (s_map s)) /\ NoDup (map snd (s_map s)) /\ forall e, In e (s_map s) -> (snd e < s_next s)%nat.

Lemma Rw_sinv w s : Rw w s -> sinv s.
Proof.
  intros (I & P & N & _ & _). destruct I as [_ _ NK Hid NI]. repeat split.
  - eapply Permutation_NoDup; [apply Permutation_map; exact P|exact NK].
  - eapply Permutation_NoDup; [apply Permutation_map; exact P|exact NI].
  - intros e He. rewrite <- N. apply Hid. eapply Permutation_in; [apply Permutation_sym; exact P|exact He].
Qed.

(* the full tuple a lookup / deletion request denotes on the view it is issued on (None = malformed) *)
Definition req_of (views : list curry) (o : op) : option values :=
  match o with
  | OGetLV v _ l | ODelLV v l => req_lv names cstr (view_of views v) l
  | OGetL v _ l | ODelL v l => req_l names cstr (view_of views v) l
  | _ => None
  end.
Definition is_lookup (o : op) : bool := match o with OGetLV _ _ _ | OGetL _ _ _ => true | _ => false end.
Definition is_delete (o : op) : bool := match o with ODelLV _ _ | ODelL _ _ => true | _ => false end.

Lemma res_ok_id o a r : res_ok o (SId a) r = true -> r = RId a.
Proof. destruct r; simpl; try discriminate. intros E. apply Nat.eqb_eq in E. subst. reflexivity. Qed.
Lemma res_ok_bool o a r : res_ok o (SBool a) r = true -> r = RBool a.
Proof. destruct r; simpl; try discriminate. intros E. apply eqb_prop in E. subst. reflexivity. Qed.

Lemma sstep_lookup s o t : is_lookup o = true -> req_of (s_views s) o = Some t -> sstep names cstr s o = s_get t s.
Proof. destruct o; simpl; try discriminate; intros _ E; rewrite E; reflexivity. Qed.
Lemma sstep_delete s o t : is_delete o = true -> req_of (s_views s) o = Some t -> sstep names cstr s o = s_del t s.
Proof. destruct o; simpl; try discriminate; intros _ E; rewrite E; reflexivity. Qed.

Lemma s_get_views t s : s_views (snd (s_get t s)) = s_views s.
Proof. unfold s_get. destruct (alookup t (s_map s)); reflexivity. Qed.
Lemma s_del_views t s : s_views (snd (s_del t s)) = s_views s.
Proof. unfold s_del. destruct (alookup t (s_map s)); reflexivity. Qed.

Lemma ids_injective (l : list entry) t1 t2 a : NoDup (map snd l) -> In (t1, a) l -> In (t2, a) l -> t1 = t2.
Proof.
  induction l as [|[v i] l IH]; simpl; intros ND H1 H2; [contradiction|].
  inversion ND as [|? ? Hn ND']; subst.
  destruct H1 as [E1|H1], H2 as [E2|H2].
  - congruence.
  - inversion E1; subst. exfalso. apply Hn. apply in_map_iff. exists (t2, a). split; [reflexivity|exact H2].
  - inversion E2; subst. exfalso. apply Hn. apply in_map_iff. exists (t1, a). split; [reflexivity|exact H1].
  - apply IH; assumption.
Qed.

(* on the plain map: two successive lookups give the same child iff they ask for the same tuple *)
Lemma s_get_twice s t1 t2 a b s1 s2 : sinv s ->
  s_get t1 s = (SId a, s1) -> s_get t2 s1 = (SId b, s2) -> (a = b <-> t1 = t2).
Proof.
  intros (NK & NI & Hid). unfold s_get.
  destruct (alookup t1 (s_map s)) as [a'|] eqn:E1; intros F1; inversion F1; subst; clear F1.
  - destruct (alookup t2 (s_map s1)) as [b'|] eqn:E2; intros F2; inversion F2; subst; clear F2.
    + split.
      * intros E. subst b. apply alookup_In in E1. apply alookup_In in E2. eapply ids_injective; eassumption.
      * intros E. subst t2. congruence.
    + pose proof (alookup_In _ _ _ E1) as In1. apply Hid in In1. simpl in In1. split; [lia|]. intros E. subst. congruence.
  - simpl. rewrite alookup_app. simpl.
    destruct (alookup t2 (s_map s)) as [b'|] eqn:E2.
    + intros F2; inversion F2; subst; clear F2. pose proof (alookup_In _ _ _ E2) as In2. apply Hid in In2. simpl in In2.
      split; [lia|]. intros E. subst. congruence.
    + destruct (vals_eqb t1 t2) eqn:E; intros F2; inversion F2; subst; clear F2.
      * apply vals_eqb_eq in E. split; auto.
      * apply vals_eqb_neq in E. split; [lia|contradiction].
Qed.

(* clause "two lookups return the same child iff their full tuples are equal" (any two lookup forms,
   on any two views, issued one after the other) *)
Lemma lookup_same_child_iff w s o1 o2 t1 t2 : Rw w s -> op_wf o1 -> op_wf o2 ->
  is_lookup o1 = true -> is_lookup o2 = true ->
  req_of (w_views w) o1 = Some t1 -> req_of (w_views w) o2 = Some t2 ->
  exists a b, fst (mstep w o1) = RId a /\ fst (mstep (snd (mstep w o1)) o2) = RId b /\ (a = b <-> t1 = t2).
Proof.
  intros R W1 W2 L1 L2 Q1 Q2.
  assert (V : w_views w = s_views s) by apply R.
  assert (S1 := step_refines w s o1 R W1). destruct (mstep w o1) as [r1 w1].
  rewrite (sstep_lookup s o1 t1 L1) in S1 by (rewrite <- V; exact Q1).
  destruct (s_get t1 s) as [x1 s1] eqn:G1. destruct S1 as [A1 R1].
  assert (V1 : s_views s1 = s_views s) by (rewrite <- (s_get_views t1 s), G1; reflexivity).
  assert (S2 := step_refines w1 s1 o2 R1 W2). simpl. destruct (mstep w1 o2) as [r2 w2].
  rewrite (sstep_lookup s1 o2 t2 L2) in S2 by (rewrite V1, <- V; exact Q2).
  destruct (s_get t2 s1) as [x2 s2] eqn:G2. destruct S2 as [A2 R2].
  assert (exists a, x1 = SId a) as [a Ea] by (unfold s_get in G1; destruct (alookup t1 (s_map s)); inversion G1; eauto).
  assert (exists b, x2 = SId b) as [b Eb] by (unfold s_get in G2; destruct (alookup t2 (s_map s1)); inversion G2; eauto).
  subst x1 x2. exists a, b. simpl. split; [eapply res_ok_id; exact A1|]. split; [eapply res_ok_id; exact A2|].
  eapply s_get_twice; [eapply Rw_sinv; exact R|exact G1|exact G2].
Qed.

(* clause "a deleted child is recreated fresh on the next lookup": the lookup after a successful
   deletion of the same tuple returns the next unused creation index *)
Lemma deleted_child_recreated_fresh w s o1 o2 t : Rw w s -> op_wf o1 -> op_wf o2 ->
  is_delete o1 = true -> is_lookup o2 = true ->
  req_of (w_views w) o1 = Some t -> req_of (w_views w) o2 = Some t ->
  fst (mstep w o1) = RBool true ->
  fst (mstep (snd (mstep w o1)) o2) = RId (next (w_st w)) /\
  forall e, In e (entries (mm (w_st w))) -> (snd e < next (w_st w))%nat.
Proof.
  intros R W1 W2 L1 L2 Q1 Q2 Hr.
  assert (V : w_views w = s_views s) by apply R.
  assert (N : next (w_st w) = s_next s) by apply R.
  destruct (Rw_sinv w s R) as (NK & _ & _).
  split; [|apply (inv_ids HF (w_st w)); apply R].
  assert (S1 := step_refines w s o1 R W1). destruct (mstep w o1) as [r1 w1]. simpl in Hr. subst r1.
  rewrite (sstep_delete s o1 t L1) in S1 by (rewrite <- V; exact Q1).
  unfold s_del in S1. destruct (alookup t (s_map s)) as [id|] eqn:E; destruct S1 as [A1 R1]; [|discriminate].
  assert (S2 := step_refines w1 _ o2 R1 W2). simpl. destruct (mstep w1 o2) as [r2 w2].
  rewrite (sstep_lookup _ o2 t L2) in S2 by (simpl; rewrite <- V; exact Q2).
  unfold s_get in S2. simpl in S2.
  assert (Hn : alookup t (s_remove t (s_map s)) = None).
  { apply alookup_None. intros F. apply in_map_iff in F. destruct F as (e & Ee & He). apply filter_In in He.
    destruct He as [_ He]. apply negb_true_iff in He. apply vals_eqb_neq in He. contradiction. }
  rewrite Hn in S2. destruct S2 as [A2 _]. simpl. rewrite N. eapply res_ok_id. exact A2.
Qed.

(* clause "malformed requests fail without side effects": an error (never a crash) is reported the
   way the method reports errors, Delete* answer false, and the state is untouched *)
Lemma malformed_no_side_effect w s o : Rw w s -> op_wf o ->
  match o with
  | OGetLV v must _ | OGetL v must _ =>
      req_of (w_views w) o = None -> exists e, mstep w o = (RErr e must, w) /\ e <> e_panic
  | OCurry v must ls =>
      curry_ok names cstr (view_of (w_views w) v) ls = false -> exists e, mstep w o = (RErr e must, w) /\ e <> e_panic
  | ODelLV _ _ | ODelL _ _ => req_of (w_views w) o = None -> mstep w o = (RBool false, w)
  | _ => True
  end.
Proof.
  intros (I & P & N & V & F) Wf. destruct w as [st views]. simpl in *.
  destruct o as [v must lvs|v must ls|v must ls|v lvs|v ls|v ls|v|v]; simpl; trivial.
  - intros Q. assert (D := lvs_decode H0 hadd haddb names cstr (view_of views v) lvs (view_wf _ v F)). rewrite Q in D.
    destruct D as (lvs' & e & E1 & E2 & E3). exists e. unfold get_lvs. rewrite E1, E2, (mk_err_no_panic e must E3). split; [reflexivity|exact E3].
  - intros Q. assert (D := labels_decode H0 hadd haddb names cstr names_nodup (view_of views v) ls (view_wf _ v F) Wf).
    cbv zeta in D. rewrite Q in D. destruct D as (e & E2 & E3). exists e. unfold get_labels. rewrite E2, (mk_err_no_panic e must E3).
    split; [reflexivity|exact E3].
  - intros Q. assert (D := curry_decode names cstr names_nodup ls Wf (view_of views v) (view_wf _ v F)). rewrite Q in D.
    destruct D as (e & E1 & E2). exists e. rewrite E1, (mk_err_no_panic e must E2). split; [reflexivity|exact E2].
  - intros Q. assert (D := lvs_decode H0 hadd haddb names cstr (view_of views v) lvs (view_wf _ v F)). rewrite Q in D.
    destruct D as (lvs' & e & E1 & E2 & E3). unfold del_lvs. rewrite E1, E2.
    replace (e =? e_panic)%Z with false by (symmetry; apply Z.eqb_neq; exact E3). reflexivity.
  - intros Q. assert (D := labels_decode H0 hadd haddb names cstr names_nodup (view_of views v) ls (view_wf _ v F) Wf).
    cbv zeta in D. rewrite Q in D. destruct D as (e & E2 & E3). unfold del_labels. rewrite E2. reflexivity.
Qed.

(* clause "a deletion removes exactly the children its arguments select and reports that number",
   on the stored children themselves *)
Lemma delete_removes_exactly w s o t : Rw w s -> op_wf o -> is_delete o = true ->
  req_of (w_views w) o = Some t ->
  let '(r, w') := mstep w o in
  entries (mm (w_st w')) = s_remove t (entries (mm (w_st w))) /\
  r = RBool (match alookup t (entries (mm (w_st w))) with Some _ => true | None => false end).
Proof.
  intros (I & P & N & V & F) Wf L Q. destruct w as [st views]. simpl in *.
  destruct o as [v must lvs|v must ls|v must ls|v lvs|v ls|v ls|v|v]; try discriminate; simpl in *.
  - assert (D := lvs_decode H0 hadd haddb names cstr (view_of views v) lvs (view_wf _ v F)). rewrite Q in D.
    destruct D as (lvs' & E1 & E2 & E3 & E4). unfold del_lvs. rewrite E1, E2.
    assert (M := delete_by_hash_spec HF t _ st I E3).
    destruct (delete_by_hash (HF t) (fun vals => match_lvs vals lvs' (view_of views v)) st) as [b st'].
    destruct M as (_ & _ & C & D). simpl. split; [exact C|rewrite D; reflexivity].
  - assert (D := labels_decode H0 hadd haddb names cstr names_nodup (view_of views v) ls (view_wf _ v F) Wf).
    cbv zeta in D. rewrite Q in D. destruct D as (E2 & E3 & E4). unfold del_labels. rewrite E2.
    assert (M := delete_by_hash_spec HF t _ st I E3).
    destruct (delete_by_hash (HF t) (fun vals => match_labels names vals (constrain_labels cstr ls) (view_of views v)) st) as [b st'].
    destruct M as (_ & _ & C & D). simpl. split; [exact C|rewrite D; reflexivity].
Qed.

Lemma delete_partial_removes_exactly w s v ls : Rw w s ->
  let sel := fun e : entry => sel_partial names cstr (view_of (w_views w) v) ls (fst e) in
  let '(r, w') := mstep w (ODelPartial v ls) in
  entries (mm (w_st w')) = filter (fun e => negb (sel e)) (entries (mm (w_st w))) /\
  r = RNum (Z.of_nat (length (filter sel (entries (mm (w_st w)))))).
Proof.
  intros (I & _). destruct w as [st views]. simpl in *. unfold del_partial.
  assert (M := delete_partial_spec HF (fun vals => match_partial names vals (constrain_labels cstr ls) (view_of views v)) st I).
  destruct (delete_partial _ st) as [n st']. destruct M as (_ & _ & C & D). simpl. split.
  - rewrite C. apply filter_ext. intros e. rewrite partial_eq. reflexivity.
  - rewrite D. do 3 f_equal. apply filter_ext. intros e. rewrite partial_eq. reflexivity.
Qed.

End Trace.

(* ------------------------------------------------------------------------------------------ *)
(* F. concurrent callers: any interleaving of the critical sections is linearizable            *)
(* ------------------------------------------------------------------------------------------ *)

Section ConcProofs.
Variable H : values -> Z.   (* any hash of the full tuple, constant ones included *)

Definition Rc (st : mstate) (s : sworld) : Prop :=
  inv H st /\ Permutation (entries (mm st)) (s_map s) /\ next st = s_next s.

(* one critical section: either nothing visible happens (a probe that misses, an idle thread), or the
   call returns here and its effect and result are those of the plain map AT THIS POINT *)
Lemma cstep_lin c tid s : Rc (c_st c) s ->
  let '(c', ev) := cstep H c tid in
  match ev with
  | Some e => let '(x, s') := sreq s (e_req e) in sres_eq x (e_res e) = true /\ Rc (c_st c') s'
  | None => c_st c' = c_st c
  end.
Proof.
  intros (I & P & N). unfold cstep.
  destruct (nth_error (c_thr c) tid) as [th|]; [|reflexivity].
  destruct (t_todo th) as [|q rest]; [reflexivity|].
  destruct q as [t|t|q| |].
  - destruct (t_pending th).
    + assert (G := get_tuple_refines H (c_st c) s t (vals_eqb t) I P N (pred_is_eqb t)).
      rewrite (get_or_create_eq H t (vals_eqb t) (c_st c) I (pred_is_eqb t)) in G.
      destruct (sec_create (H t) (vals_eqb t) t (c_st c)) as [id st']. simpl.
      destruct (s_get t s) as [x s']. destruct G as (A & B & C & D & _). subst x. simpl.
      rewrite Nat.eqb_refl. split; [reflexivity|]. split; [exact B|split; [exact C|exact D]].
    + destruct (probe (H t) (vals_eqb t) (c_st c)) as [id|] eqn:E; [|reflexivity]. simpl.
      rewrite (probe_spec H t (vals_eqb t) (c_st c) I (pred_is_eqb t)) in E.
      unfold s_get. rewrite <- (alookup_perm t _ _ (inv_keys H _ I) P), E. simpl.
      rewrite Nat.eqb_refl. split; [reflexivity|]. split; [exact I|split; [exact P|exact N]].
  - assert (G := del_tuple_refines H (c_st c) s t (vals_eqb t) I P N (pred_is_eqb t)).
    destruct (delete_by_hash (H t) (vals_eqb t) (c_st c)) as [b st']. simpl.
    destruct (s_del t s) as [x s']. destruct G as (A & B & C & D & _). subst x. simpl.
    rewrite eqb_reflx. split; [reflexivity|]. split; [exact B|split; [exact C|exact D]].
  - assert (G := partial_refines H (c_st c) (s_map s) q q I P (fun v => eq_refl)).
    destruct (delete_partial q (c_st c)) as [n st']. simpl. destruct G as (A & B & C & D). subst n.
    rewrite Z.eqb_refl. split; [reflexivity|]. split; [exact B|split; [exact C|simpl; lia]].
  - simpl. split; [reflexivity|]. split; [apply reset_inv|split; [constructor|exact N]].
  - simpl. unfold collect. rewrite (sort_by_id_perm_eq _ _ P (inv_idnodup H _ I)), entries_eqb_refl.
    split; [reflexivity|]. split; [exact I|split; [exact P|exact N]].
Qed.

Lemma crun_lin sched : forall c s, Rc (c_st c) s ->
  let '(c', hist) := crun H c sched in
  lin_ok s hist = true /\ Rc (c_st c') (lin_final s hist).
Proof.
  induction sched as [|tid sched IH]; intros c s R; simpl.
  - split; [reflexivity|exact R].
  - assert (St := cstep_lin c tid s R). destruct (cstep H c tid) as [c1 ev].
    destruct ev as [e|].
    + destruct (sreq s (e_req e)) as [x s1] eqn:Es. destruct St as [A B].
      specialize (IH c1 s1 B). destruct (crun H c1 sched) as [c2 evs]. simpl. rewrite Es. simpl.
      destruct IH as [C D]. rewrite A, C. split; [reflexivity|exact D].
    + assert (R1 : Rc (c_st c1) s) by (rewrite St; exact R).
      specialize (IH c1 s R1). destruct (crun H c1 sched) as [c2 evs]. exact IH.
Qed.

(* the history consists of the threads' own calls, in program order *)
Definition todo_of (c : cstate) (tid : nat) : list creq :=
  match nth_error (c_thr c) tid with Some th => t_todo th | None => [] end.
Definition done_by (tid : nat) (hist : list cevent) : list creq :=
  map e_req (filter (fun e => Nat.eqb (e_tid e) tid) hist).

Lemma nth_error_set_nth {A} (l : list A) k x j :
  nth_error (set_nth l k x) j = if Nat.eqb k j then (match nth_error l k with Some _ => Some x | None => None end) else nth_error l j.
Proof.
  revert k j. induction l as [|y l IH]; intros k j; simpl.
  - destruct (Nat.eqb k j); destruct k, j; reflexivity.
  - destruct k, j; simpl; try reflexivity. apply IH.
Qed.

Lemma cstep_program c k tid :
  let '(c', ev) := cstep H c k in
  todo_of c tid = match ev with
                  | Some e => if Nat.eqb (e_tid e) tid then e_req e :: todo_of c' tid else todo_of c' tid
                  | None => todo_of c' tid
                  end.
Proof.
  unfold cstep. destruct (nth_error (c_thr c) k) as [th|] eqn:Ek; [|reflexivity].
  destruct (t_todo th) as [|q rest] eqn:Et; [reflexivity|].
  assert (Hset : forall th', todo_of (mkC (c_st c) (set_nth (c_thr c) k th')) tid =
                             if Nat.eqb k tid then t_todo th' else todo_of c tid).
  { intros th'. unfold todo_of. simpl. rewrite nth_error_set_nth, Ek. destruct (Nat.eqb k tid); reflexivity. }
  assert (Hk : Nat.eqb k tid = true -> todo_of c tid = q :: rest).
  { intros E. apply Nat.eqb_eq in E. subst. unfold todo_of. rewrite Ek. exact Et. }
  assert (Hst : forall st th', todo_of (mkC st (set_nth (c_thr c) k th')) tid = todo_of (mkC (c_st c) (set_nth (c_thr c) k th')) tid) by reflexivity.
  destruct q as [t|t|q| |].
  - destruct (t_pending th).
    + destruct (sec_create (H t) (vals_eqb t) t (c_st c)) as [id st']. simpl. rewrite Hst, Hset.
      destruct (Nat.eqb k tid) eqn:E; [apply Hk; reflexivity|reflexivity].
    + destruct (probe (H t) (vals_eqb t) (c_st c)); simpl; rewrite Hset; destruct (Nat.eqb k tid) eqn:E; try reflexivity; apply Hk; reflexivity.
  - destruct (delete_by_hash (H t) (vals_eqb t) (c_st c)) as [b st']. simpl. rewrite Hst, Hset.
    destruct (Nat.eqb k tid) eqn:E; [apply Hk; reflexivity|reflexivity].
  - destruct (delete_partial q (c_st c)) as [n st']. simpl. rewrite Hst, Hset.
    destruct (Nat.eqb k tid) eqn:E; [apply Hk; reflexivity|reflexivity].
  - simpl. rewrite Hst, Hset. destruct (Nat.eqb k tid) eqn:E; [apply Hk; reflexivity|reflexivity].
  - simpl. rewrite Hset. destruct (Nat.eqb k tid) eqn:E; [apply Hk; reflexivity|reflexivity].
Qed.

Lemma crun_program sched : forall c tid,
  let '(c', hist) := crun H c sched in todo_of c tid = done_by tid hist ++ todo_of c' tid.
Proof.
  induction sched as [|k sched IH]; intros c tid; simpl; [reflexivity|].
  assert (St := cstep_program c k tid). destruct (cstep H c k) as [c1 ev].
  specialize (IH c1 tid). destruct (crun H c1 sched) as [c2 evs].
  destruct ev as [e|]; unfold done_by in *; simpl.
  - destruct (Nat.eqb (e_tid e) tid); simpl; rewrite St, IH; reflexivity.
  - rewrite St, IH. reflexivity.
Qed.

Definition cinit := cinit_run.

Lemma Rc_init : Rc (mkM [] 0) init_sworld.
Proof.
  split; [|split; [constructor|reflexivity]].
  constructor; simpl; try constructor. intros h b e []. intros e [].
Qed.

(* for any number of threads, any programs and any schedule: the calls, ordered by their last critical
   section, with the results they returned, are a run of the plain map; the state invariant (one live
   child per tuple, each under the hash of its values) holds; the surviving children are the map's *)
Lemma concurrent_linearizable progs sched :
  let '(c', hist) := crun H (cinit progs) sched in
  lin_ok init_sworld hist = true /\
  inv H (c_st c') /\
  Permutation (entries (mm (c_st c'))) (s_map (lin_final init_sworld hist)) /\
  forall tid, nth tid progs [] = done_by tid hist ++ todo_of c' tid.
Proof.
  assert (L := crun_lin sched (cinit progs) init_sworld Rc_init).
  assert (Pg := fun tid => crun_program sched (cinit progs) tid).
  destruct (crun H (cinit progs) sched) as [c' hist]. destruct L as (A & B & C & _).
  split; [exact A|split; [exact B|split; [exact C|]]].
  intros tid. rewrite <- (Pg tid). unfold todo_of, cinit. simpl.
  rewrite nth_error_map. destruct (nth_error progs tid) as [pr|] eqn:E; simpl.
  - apply nth_error_nth. exact E.
  - apply nth_error_None in E. apply nth_overflow. exact E.
Qed.

End ConcProofs.

(* ------------------------------------------------------------------------------------------ *)
(* G. the production hash                                                                      *)
(* ------------------------------------------------------------------------------------------ *)

Lemma fnv_fold_bytes vals : forall h,
  fold_left (fun h v => fnv_addb (fnv_add h v) sep) vals h =
  fold_left fnv_addb (concat (map (fun v => v ++ [sep]) vals)) h.
Proof.
  induction vals as [|v vals IH]; intros h; simpl; [reflexivity|].
  rewrite IH. rewrite !fold_left_app. reflexivity.
Qed.

(* hashLabelValues / hashLabels with the production hooks compute FNV-1a (offset and prime read from
   fnv.go) of value_1 0xFF value_2 0xFF ... : the production hash is an instance of the section's hash *)
Lemma fnv_fold_is_H_lemma vals :
  Hfold fnv_offset64 fnv_add fnv_addb vals = fnv1a (concat (map (fun v => v ++ [255%Z]) vals)).
Proof. unfold Hfold, fnv1a. apply fnv_fold_bytes. Qed.

(* ------------------------------------------------------------------------------------------ *)
(* examples: the hypotheses are satisfiable and the statements are not vacuous                 *)
(* ------------------------------------------------------------------------------------------ *)

Definition ex_names : list str := [[97%Z]; [98%Z]].                     (* a, b *)
Definition ex_ops : list op :=
  [ OGetLV 0 false [[49%Z]; [120%Z]];                                     (* (1,x) *)
    OGetLV 0 false [[50%Z]; [121%Z]];                                     (* (2,y) *)
    OCurry 0 false [([98%Z], [120%Z])];                                   (* view 1: b = x *)
    OGetLV 1 true [[51%Z]];                                               (* (3,x) through the view *)
    OGetL 0 false [([97%Z], [49%Z]); ([98%Z], [120%Z])];                  (* (1,x) again: same child *)
    OGetLV 0 false [[49%Z]];                                              (* wrong arity *)
    ODelPartial 0 [([98%Z], [120%Z])];                                    (* removes (1,x) and (3,x) *)
    OGetLV 1 false [[49%Z]];                                              (* (1,x) recreated fresh *)
    ODelL 1 [([97%Z], [50%Z])];                                           (* (2,x): absent *)
    OCollect 0 ].

(* constant hash: all children collide in one bucket *)
Example ex_constant_hash :
  fst (run 7%Z (fun h _ => h) (fun h _ => h) ex_names [] init_world ex_ops) =
  [ RId 0; RId 1; RView; RId 2; RId 0; RErr 1%Z false; RNum 2%Z; RId 3; RBool false;
    RColl [([[50%Z]; [121%Z]], 1%nat); ([[49%Z]; [120%Z]], 3%nat)] ].
Proof. vm_compute. reflexivity. Qed.

Example ex_spec_ok :
  spec_ok ex_names [] init_sworld ex_ops
    (fst (run fnv_offset64 fnv_add fnv_addb ex_names [] init_world ex_ops)) = true.
Proof. vm_compute. reflexivity. Qed.

Example ex_names_nodup : NoDup ex_names /\ Forall op_wf ex_ops.
Proof.
  split.
  - repeat constructor; simpl; intuition discriminate.
  - repeat constructor; simpl; intuition discriminate.
Qed.

(* two threads race to create the same tuple under a constant hash: thread 0 probes and misses,
   thread 1 probes, misses, creates; thread 0 then re-checks under the write lock and finds the child *)
Example ex_race :
  map e_res (snd (crun (fun _ => 0%Z) (cinit [[QGet [[49%Z]]]; [QGet [[49%Z]]; QDel [[49%Z]]]]) [0; 1; 1; 0; 1]%nat)) =
  [RId 0; RId 0; RBool true].
Proof. vm_compute. reflexivity. Qed.

(* the main statement, from the empty vector *)
Lemma vec_refines_map_lemma (H0 : Z) (hadd : Z -> str -> Z) (haddb : Z -> Z -> Z) (names : list str)
      (cstr : list (str * (str -> str))) :
  NoDup names -> forall ops, Forall op_wf ops ->
  let '(rs, w') := run H0 hadd haddb names cstr init_world ops in
  spec_ok names cstr init_sworld ops rs = true /\
  Rw H0 hadd haddb names w' (snd (spec_run names cstr init_sworld ops)).
Proof. intros ND ops Wf. apply (run_refines H0 hadd haddb names cstr ND ops init_world init_sworld (Rw_init H0 hadd haddb names) Wf). Qed.
