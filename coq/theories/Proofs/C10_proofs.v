(* Proofs/C10_proofs.v -- C10: the lock-level logic of Registry.Register / Unregister / Gather
   (Model/RegistryConc.v, every critical section one atomic step) under the interleaving semantics of
   Base/Conc.v, for ALL program lists and ALL schedules.  Data races, panics, deadlocks of the real code and
   goroutine leaks are runtime properties (harness, -race); what is proved here is what the locks guarantee.
   Layout: 0 definitions used in Properties/C10.v; 1 set lemmas; 2 replay lemmas; 3 the invariant RInv;
   4 T4 sequential explanation; 5 T1/T2 Gather membership; 6 T3 checker soundness; 7 T5 progress; 8 examples. *)
From Coq Require Import ZArith List Bool Lia ZifyBool Sorted Permutation.
From Verif Require Import Base.Conc Proofs.C01_proofs Model.RegistryConc.
Import ListNotations.
Open Scope Z_scope.

Notation rM := reg_machine.

(* ====================================================================== *)
(* 0. definitions used in the statements                                   *)
(* ====================================================================== *)

(* effect of a finished call on the registered set: only a successful Register and a successful Unregister
   change it (a failed Register, a failed Unregister and Gather leave it alone) *)
Definition eff (s : list Z) (x : call rM) : list Z :=
  match c_op x, c_ret x with
  | RRegister k, RBool true => k :: s
  | RUnregister k, RBool true => remove_all k s
  | _, _ => s
  end.

(* the set obtained by replaying the effects of a history in completion order, from the empty registry *)
Definition replay (h : list (call rM)) : list Z := fold_left eff h [].

(* "k was registered at some moment not before time inv": the history splits into the part h0 completed up to
   that moment (k is in the replayed set) and calls that completed later, all after inv *)
Definition saw (h : list (call rM)) (k inv : Z) : Prop :=
  exists h0 h0', h = h0 ++ h0' /\ mem k (replay h0) = true /\ Forall (fun y => inv < c_res y) h0'.

(* the result of call x is explained by the calls h1 that completed before it *)
Definition explained (h1 : list (call rM)) (x : call rM) : Prop :=
  match c_op x with
  | RRegister k => c_ret x = RBool (negb (mem k (replay h1)))
  | RGather => c_ret x = RSnapshot (replay h1)
  | RUnregister k => (c_ret x = RBool false /\ mem k (replay h1) = false) \/
                     (c_ret x = RBool true /\ saw h1 k (c_inv x))
  end.

(* translation of a finished call into the event record of the extracted checker (Run/C10_run.v) *)
Definition ev_of (x : call rM) : revent :=
  mkEv (match c_op x with RRegister _ => 0 | RUnregister _ => 1 | RGather => 2 end)
       (match c_op x with RRegister k => k | RUnregister k => k | RGather => 0 end)
       (match c_ret x with RBool b => b | RSnapshot _ => true end)
       (match c_ret x with RSnapshot ns => ns | RBool _ => [] end)
       (c_inv x) (c_res x) 0.
Definition events (h : list (call rM)) : list revent := map ev_of h.

(* an Unregister k call still in progress in configuration c, invoked at time inv *)
Definition pending_unreg (c : config rM) (k inv : Z) : Prop :=
  exists t l, In t (thr c) /\ t_cur t = Some (RUnregister k, l, inv).

(* observable summary for the examples: thread, op, result, invocation and response time *)
Definition summary (c : config rM) : list (Z * rop * rret * Z * Z) :=
  map (fun x : call rM => (c_tid x, c_op x, c_ret x, c_inv x, c_res x)) (hist c).

(* ====================================================================== *)
(* 1. set lemmas                                                           *)
(* ====================================================================== *)

Lemma mem_cons_eq k s : mem k (k :: s) = true.
Proof. unfold mem. cbn [existsb]. rewrite Z.eqb_refl. reflexivity. Qed.

Lemma mem_cons_mono k k' s : mem k s = true -> mem k (k' :: s) = true.
Proof. unfold mem. cbn [existsb]. intros ->. apply orb_true_r. Qed.

Lemma mem_cons_inv k k' s : mem k (k' :: s) = true -> k = k' \/ mem k s = true.
Proof.
  unfold mem. cbn [existsb]. intros H. apply orb_prop in H. destruct H as [H|H]; [left; apply Z.eqb_eq; exact H|right; exact H].
Qed.

Lemma mem_remove k0 k s : mem k0 (remove_all k s) = mem k0 s && negb (k0 =? k).
Proof.
  unfold mem, remove_all. induction s as [|x r IH]; cbn [filter existsb]; [reflexivity|].
  destruct (Z.eqb_spec x k) as [E|E]; cbn [negb existsb]; rewrite IH;
  destruct (Z.eqb_spec k0 x) as [E1|E1]; destruct (Z.eqb_spec k0 k) as [E2|E2]; cbn; try lia;
  destruct (existsb (Z.eqb k0) r); reflexivity.
Qed.

Lemma mem_remove_same k s : mem k (remove_all k s) = false.
Proof. rewrite mem_remove, Z.eqb_refl. apply andb_false_r. Qed.

Lemma mem_remove_other k0 k s : k0 <> k -> mem k0 (remove_all k s) = mem k0 s.
Proof. intros H. rewrite mem_remove. destruct (Z.eqb_spec k0 k); [contradiction|apply andb_true_r]. Qed.

Lemma mem_remove_sub k0 k s : mem k0 (remove_all k s) = true -> mem k0 s = true.
Proof. rewrite mem_remove. intros H. apply andb_prop in H. tauto. Qed.

(* ====================================================================== *)
(* 2. list and replay lemmas                                               *)
(* ====================================================================== *)

Lemma snoc_split {A} (l : list A) y h1 x h2 : l ++ [y] = h1 ++ x :: h2 ->
  (h1 = l /\ x = y /\ h2 = []) \/ exists h2', h2 = h2' ++ [y] /\ l = h1 ++ x :: h2'.
Proof.
  destruct h2 as [|z h2'] using rev_ind; intros H.
  - change (h1 ++ [x]) with (h1 ++ [x]) in H. apply app_inj_tail in H. destruct H as [H1 H2]. left. auto.
  - right. replace (h1 ++ x :: h2' ++ [z]) with ((h1 ++ x :: h2') ++ [z]) in H
      by (rewrite <- app_assoc; reflexivity).
    apply app_inj_tail in H. destruct H as [H1 H2]. subst. exists h2'. split; reflexivity.
Qed.

Lemma ss_split {A} (R : A -> A -> Prop) l1 x l2 : StronglySorted R (l1 ++ x :: l2) ->
  Forall (fun y => R y x) l1 /\ Forall (R x) l2.
Proof.
  induction l1 as [|a r IH]; cbn [app]; intros HS; inversion HS as [|? ? HS' HF]; subst.
  - split; [constructor|assumption].
  - destruct (IH HS') as [H1 H2]. split; [|assumption]. constructor; [|assumption].
    rewrite Forall_forall in HF. apply HF. apply in_elt.
Qed.

Lemma replay_snoc h x : replay (h ++ [x]) = eff (replay h) x.
Proof. unfold replay. rewrite fold_left_app. reflexivity. Qed.

Definition is_reg (r : call rM) (k : Z) : Prop := c_op r = RRegister k /\ c_ret r = RBool true.

(* whatever is in the replayed set was put there by a successful Register *)
Lemma replay_mem_reg k h : mem k (replay h) = true -> exists r, In r h /\ is_reg r k.
Proof.
  induction h as [|x h IH] using rev_ind; [discriminate|].
  rewrite replay_snoc. unfold eff.
  assert (Hold : mem k (replay h) = true -> exists r, In r (h ++ [x]) /\ is_reg r k).
  { intros H. destruct (IH H) as (r & Hr & Hk). exists r. split; [apply in_or_app; left; exact Hr|exact Hk]. }
  destruct (c_op x) as [k'|k'|] eqn:Eo; destruct (c_ret x) as [[|]|ns] eqn:Er; try exact Hold.
  - intros H. apply mem_cons_inv in H. destruct H as [->|H]; [|auto].
    exists x. split; [apply in_or_app; right; left; reflexivity|split; assumption].
  - intros H. apply mem_remove_sub in H. auto.
Qed.

(* a successful Register of k keeps k in the replayed set unless an Unregister k completes after it *)
Lemma replay_reg_mem k h : forall r, In r h -> is_reg r k ->
  mem k (replay h) = true \/
  exists h1 h2 u, h = h1 ++ r :: h2 /\ In u h2 /\ c_op u = RUnregister k /\ c_ret u = RBool true.
Proof.
  induction h as [|x h IH] using rev_ind; intros r Hr Hk; [destruct Hr|].
  rewrite replay_snoc. apply in_app_or in Hr. destruct Hr as [Hr|[<-|[]]].
  - destruct (IH r Hr Hk) as [Hm|(h1 & h2 & u & E & Hu & Hou & Hru)].
    + unfold eff. destruct (c_op x) as [k'|k'|] eqn:Eo; destruct (c_ret x) as [[|]|ns] eqn:Er; try (left; exact Hm).
      * left. apply mem_cons_mono. exact Hm.
      * destruct (Z.eq_dec k k') as [->|Hne].
        -- right. destruct (in_split _ _ Hr) as (h1 & h2 & E). exists h1, (h2 ++ [x]), x.
           split; [rewrite E, <- app_assoc; reflexivity|]. split; [apply in_or_app; right; left; reflexivity|]. auto.
        -- left. rewrite mem_remove_other; assumption.
    + right. exists h1, (h2 ++ [x]), u. split; [rewrite E, <- app_assoc; reflexivity|].
      split; [apply in_or_app; left; exact Hu|]. auto.
  - left. destruct Hk as [Ho Hr]. unfold eff. rewrite Ho, Hr. apply mem_cons_eq.
Qed.

(* ====================================================================== *)
(* 3. the invariant                                                        *)
(* ====================================================================== *)

(* the pending section of a call belongs to its operation; a call already in its delete section saw its
   collector registered at its check section *)
Definition r_local_ok (o : rop) (l : rpc) : Prop :=
  match l with
  | pReg k => o = RRegister k
  | pUnregCheck k => o = RUnregister k
  | pUnregDelete k => o = RUnregister k
  | pGather => o = RGather
  end.

Definition r_thr_ok (h : list (call rM)) (t : thread rM) : Prop :=
  match t_cur t with
  | Some (o, l, inv) => r_local_ok o l /\ match l with pUnregDelete k => saw h k inv | _ => True end
  | None => True
  end.

Definition RInv (c : config rM) : Prop :=
  GI c /\ sh c = replay (hist c) /\
  (forall h1 x h2, hist c = h1 ++ x :: h2 -> explained h1 x) /\
  Forall (r_thr_ok (hist c)) (thr c).

Lemma r_imm_nil time (cs : list (call rM)) : Forall (imm time) cs -> cs = [].
Proof.
  destruct cs as [|k r]; [reflexivity|]. intros H. inversion H as [|? ? (_ & _ & Hk) _]; subst.
  exfalso. cbn in Hk. destruct (c_op k); discriminate.
Qed.

Lemma r_fresh_ok time h (t : thread rM) : fresh time t -> r_thr_ok h t.
Proof.
  unfold fresh, r_thr_ok. destruct (t_cur t) as [[[o l] inv]|]; [|auto]. intros [_ H].
  cbn in H. destruct o; cbn [rstart] in H; inversion H; subst; cbn; auto.
Qed.

Lemma saw_later h k inv x : inv < c_res x -> saw h k inv -> saw (h ++ [x]) k inv.
Proof.
  intros Hx (h0 & h0' & E & Hm & HF). exists h0, (h0' ++ [x]). split; [rewrite E, app_assoc; reflexivity|].
  split; [exact Hm|]. apply Forall_app. split; [exact HF|constructor; [exact Hx|constructor]].
Qed.

Lemma r_thr_ok_later n h x (t : thread rM) : thr_ok n t -> c_res x = n + 1 -> r_thr_ok h t -> r_thr_ok (h ++ [x]) t.
Proof.
  unfold thr_ok, r_thr_ok. destruct (t_cur t) as [[[o l] inv]|]; [|auto].
  intros [Hinv _] Hx [H1 H2]. split; [exact H1|]. destruct l; auto. apply saw_later; [lia|exact H2].
Qed.

Lemma RInv_init progs : RInv (init_config rM [] progs).
Proof.
  destruct (init_fresh rM [] progs) as [H1 H2]. pose proof (r_imm_nil _ _ H2) as Hnil.
  unfold RInv. split; [apply GI_init|]. rewrite Hnil. repeat split.
  - intros h1 x h2 E. exfalso. eapply app_cons_not_nil. exact E.
  - eapply Forall_mono; [|exact H1]. intros t. apply r_fresh_ok.
Qed.

Lemma RInv_step c tid c' : RInv c -> sched_step rM c tid = Some c' -> RInv c'.
Proof.
  intros (HG & HF & HE & HT) Hstep.
  pose proof (GI_step _ _ _ _ HG Hstep) as HG'.
  destruct (sched_step_cases _ _ _ _ Hstep) as (t & o & l & inv & s' & nxt & Ht & Hcur & Hs & Hsh & Hnow & Hrest).
  pose proof (Forall_nth_error _ _ _ _ HT Ht) as Hlo. unfold r_thr_ok in Hlo. rewrite Hcur in Hlo.
  destruct Hlo as [Hlo Hsaw].
  destruct HG as (Hn & HGT & HGH & _).
  change (step rM (sh c) l) with (rstep (sh c) l) in Hs.
  unfold RInv. split; [exact HG'|].
  destruct nxt as [l'|r].
  - (* only the check section of Unregister continues: nothing observable changes *)
    destruct Hrest as [Hh Hth]. rewrite Hh, Hth.
    assert (Hl' : s' = sh c /\ exists k, l = pUnregCheck k /\ l' = pUnregDelete k /\ mem k (sh c) = true).
    { destruct l as [k|k|k|]; cbn [rstep] in Hs.
      - destruct (mem k (sh c)); discriminate.
      - destruct (mem k (sh c)) eqn:Em; inversion Hs; subst. split; [reflexivity|]. exists k. auto.
      - discriminate.
      - discriminate. }
    destruct Hl' as [Hs' (k & -> & -> & Hm)]. rewrite Hsh, Hs'. repeat split; try assumption.
    apply Forall_set_nth; [assumption|]. unfold r_thr_ok. cbn [t_cur]. split; [exact Hlo|].
    exists (hist c), []. split; [rewrite app_nil_r; reflexivity|]. split; [rewrite <- HF; exact Hm|constructor].
  - destruct Hrest as (t' & cs & Ha & Hh & Hth). destruct (advance_spec _ _ _ _ _ _ _ Ha) as [Hf Hcs].
    pose proof (r_imm_nil _ _ Hcs) as Hnil. subst cs. rewrite Hh, Hth.
    set (x := mkCall tid (t_idx t) o r inv (now c + 1)) in *.
    (* the completing section: the new state is the effect of the call, and the call is explained *)
    assert (Hx : s' = eff (sh c) x /\ explained (hist c) x).
    { unfold eff, explained. cbn [x c_op c_ret c_inv]. rewrite <- HF.
      destruct l as [k|k|k|]; cbn [rstep] in Hs; cbn [r_local_ok] in Hlo; subst o.
      - destruct (mem k (sh c)) eqn:Em; inversion Hs; subst; split; reflexivity.
      - destruct (mem k (sh c)) eqn:Em; inversion Hs; subst. split; [reflexivity|]. left. auto.
      - inversion Hs; subst. split; [reflexivity|]. right. split; [reflexivity|]. exact Hsaw.
      - inversion Hs; subst. split; reflexivity. }
    destruct Hx as [Hx1 Hx2]. repeat split.
    + rewrite replay_snoc, <- HF, Hsh. exact Hx1.
    + intros h1 y h2 E. apply snoc_split in E. destruct E as [(-> & -> & _)|(h2' & _ & E)]; [exact Hx2|eapply HE; exact E].
    + apply Forall_set_nth; [|eapply r_fresh_ok; eassumption].
      rewrite Forall_forall in *. intros t0 Ht0. eapply (r_thr_ok_later (now c)); [apply HGT; exact Ht0|reflexivity|apply HT; exact Ht0].
Qed.

Lemma RInv_reachable progs sched : RInv (run_sched rM (init_config rM [] progs) sched).
Proof. apply run_sched_ind; [intros; eapply RInv_step; eauto|apply RInv_init]. Qed.

(* every call of this machine takes at least one step *)
Lemma r_call_times (c : config rM) x : GI c -> In x (hist c) -> 0 <= c_inv x < c_res x /\ c_res x <= now c.
Proof.
  intros (_ & _ & HH & _) Hx. rewrite Forall_forall in HH. destruct (HH x Hx) as (H1 & H2 & [[_ H3]|[H3 _]]); [|lia].
  exfalso. cbn in H3. destruct (c_op x); discriminate.
Qed.

(* ====================================================================== *)
(* 4. T4: the shared set evolves as a sequential set                       *)
(* ====================================================================== *)

Lemma register_unregister_sequential_spec_lemma : forall (progs : list (list rop)) (sched : list Z),
  let c := run_sched rM (init_config rM [] progs) sched in
  sh c = replay (hist c) /\
  (forall h1 x h2, hist c = h1 ++ x :: h2 -> explained h1 x) /\
  (forall h1 x h2 k, hist c = h1 ++ x :: h2 -> c_op x = RUnregister k -> c_ret x = RBool true ->
     mem k (replay (h1 ++ [x])) = false).
Proof.
  intros progs sched c. destruct (RInv_reachable progs sched) as (HG & HF & HE & HT). fold c in HG, HF, HE, HT.
  repeat split; try assumption.
  intros h1 x h2 k _ Ho Hr. rewrite replay_snoc. unfold eff. rewrite Ho, Hr. apply mem_remove_same.
Qed.

(* ====================================================================== *)
(* 5. T1, T2: what a Gather snapshot contains                              *)
(* ====================================================================== *)

Lemma gather_split (c : config rM) g ns : RInv c -> In g (hist c) -> c_ret g = RSnapshot ns ->
  exists h1 h2, hist c = h1 ++ g :: h2 /\ ns = replay h1 /\
    Forall (fun y => res_le y g) h1 /\ Forall (res_le g) h2.
Proof.
  intros (HG & HF & HE & HT) Hg Hr. destruct (in_split _ _ Hg) as (h1 & h2 & E).
  exists h1, h2. split; [exact E|]. destruct HG as (_ & _ & _ & HS). rewrite E in HS.
  destruct (ss_split _ _ _ _ HS) as [S1 S2]. repeat split; try assumption.
  pose proof (HE _ _ _ E) as Hx. unfold explained in Hx. rewrite Hr in Hx.
  destruct (c_op g); [discriminate| |inversion Hx; reflexivity].
  destruct Hx as [[Hx _]|[Hx _]]; discriminate.
Qed.

Lemma gather_contains_core (c : config rM) : RInv c -> forall g ns r k,
  In g (hist c) -> c_ret g = RSnapshot ns ->
  In r (hist c) -> c_op r = RRegister k -> c_ret r = RBool true -> c_res r <= c_inv g ->
  (forall u, In u (hist c) -> c_op u = RUnregister k -> c_res u <= c_inv r \/ c_res g <= c_inv u) ->
  mem k ns = true.
Proof.
  intros HI g ns r k Hg Hgr Hr Hro Hrr Hrg HU.
  destruct (gather_split _ _ _ HI Hg Hgr) as (h1 & h2 & E & -> & S1 & S2).
  destruct HI as (HG & HF & HE & HT).
  pose proof (r_call_times _ _ HG Hg) as Tg. pose proof (r_call_times _ _ HG Hr) as Tr.
  assert (Hr1 : In r h1).
  { rewrite E in Hr. apply in_app_or in Hr. destruct Hr as [Hr|[Hr|Hr]]; [exact Hr|subst r; lia|].
    rewrite Forall_forall in S2. specialize (S2 r Hr). unfold res_le in S2. lia. }
  destruct (replay_reg_mem k h1 r Hr1 (conj Hro Hrr)) as [Hm|(a & b & u & E1 & Hu & Hou & _)]; [exact Hm|exfalso].
  assert (Hu1 : In u h1) by (rewrite E1; apply in_or_app; right; right; exact Hu).
  assert (Huh : In u (hist c)) by (rewrite E; apply in_or_app; left; exact Hu1).
  pose proof (r_call_times _ _ HG Huh) as Tu.
  rewrite Forall_forall in S1. specialize (S1 u Hu1). unfold res_le in S1.
  destruct HG as (_ & _ & _ & HS). rewrite E, E1, <- app_assoc in HS. cbn [app] in HS.
  destruct (ss_split _ _ _ _ HS) as [_ S3]. rewrite Forall_forall in S3.
  assert (S4 : res_le r u) by (apply S3; apply in_or_app; left; exact Hu). unfold res_le in S4.
  destruct (HU u Huh Hou); lia.
Qed.

Lemma gather_only_core (c : config rM) : RInv c -> forall g ns k,
  In g (hist c) -> c_ret g = RSnapshot ns -> mem k ns = true ->
  exists r, In r (hist c) /\ c_op r = RRegister k /\ c_ret r = RBool true /\ c_inv r < c_res g /\ c_res r <= c_res g.
Proof.
  intros HI g ns k Hg Hgr Hm.
  destruct (gather_split _ _ _ HI Hg Hgr) as (h1 & h2 & E & -> & S1 & S2).
  destruct HI as (HG & _). destruct (replay_mem_reg _ _ Hm) as (r & Hr1 & Ho & Hr).
  assert (Hrh : In r (hist c)) by (rewrite E; apply in_or_app; left; exact Hr1).
  pose proof (r_call_times _ _ HG Hrh) as Tr.
  rewrite Forall_forall in S1. specialize (S1 r Hr1). unfold res_le in S1.
  exists r. repeat split; try assumption; lia.
Qed.

(* T1. "k stayed registered throughout g": a successful Register k returned before g was invoked and no
   COMPLETED Unregister k overlaps [c_inv r, c_res g].  Nothing has to be assumed about Unregister k calls that
   are still in flight in c: the deletion is the last section of Unregister, so a call that has deleted k is
   already in hist c, and a call that is still in progress has deleted nothing (whenever it was invoked). *)
Lemma gather_contains_stably_registered_lemma : forall (progs : list (list rop)) (sched : list Z),
  let c := run_sched rM (init_config rM [] progs) sched in
  forall g ns r k,
  In g (hist c) -> c_ret g = RSnapshot ns ->
  In r (hist c) -> c_op r = RRegister k -> c_ret r = RBool true -> c_res r <= c_inv g ->
  (forall u, In u (hist c) -> c_op u = RUnregister k -> c_res u <= c_inv r \/ c_res g <= c_inv u) ->
  mem k ns = true.
Proof. intros progs sched c. apply gather_contains_core. apply RInv_reachable. Qed.

(* the formulation that also constrains the in-flight Unregister k calls (invoked after g returned); it is the
   weaker statement and follows from the one above *)
Lemma gather_contains_stably_registered_pending_lemma : forall (progs : list (list rop)) (sched : list Z),
  let c := run_sched rM (init_config rM [] progs) sched in
  forall g ns r k,
  In g (hist c) -> c_ret g = RSnapshot ns ->
  In r (hist c) -> c_op r = RRegister k -> c_ret r = RBool true -> c_res r <= c_inv g ->
  (forall u, In u (hist c) -> c_op u = RUnregister k -> c_res u <= c_inv r \/ c_res g <= c_inv u) ->
  (forall inv, pending_unreg c k inv -> c_res g <= inv) ->
  mem k ns = true.
Proof. intros progs sched c g ns r k H1 H2 H3 H4 H5 H6 H7 _. exact (gather_contains_stably_registered_lemma progs sched g ns r k H1 H2 H3 H4 H5 H6 H7). Qed.

Lemma gather_only_registered_lemma : forall (progs : list (list rop)) (sched : list Z),
  let c := run_sched rM (init_config rM [] progs) sched in
  forall g ns k, In g (hist c) -> c_ret g = RSnapshot ns -> mem k ns = true ->
  exists r, In r (hist c) /\ c_op r = RRegister k /\ c_ret r = RBool true /\ c_inv r < c_res g /\ c_res r <= c_res g.
Proof. intros progs sched c. apply gather_only_core. apply RInv_reachable. Qed.

(* ====================================================================== *)
(* 6. T3: the extracted history checker accepts every history of the machine *)
(* ====================================================================== *)

Lemma explained_in (c : config rM) x : RInv c -> In x (hist c) -> exists h1, explained h1 x.
Proof. intros (_ & _ & HE & _) Hx. destruct (in_split _ _ Hx) as (h1 & h2 & E). exists h1. eapply HE. exact E. Qed.

Lemma gather_check_core (c : config rM) n : RInv c -> gather_check n (events (hist c)) = true.
Proof.
  intros HI. unfold gather_check, events. apply forallb_forall. intros ge Hge.
  apply in_map_iff in Hge. destruct Hge as (g & <- & Hg).
  destruct (e_kind (ev_of g) =? 2) eqn:Ek; [|reflexivity]. cbn [negb orb].
  destruct (explained_in _ _ HI Hg) as (hg & Xg). unfold explained in Xg.
  cbn [ev_of e_kind] in Ek. destruct (c_op g) as [k0|k0|] eqn:Eo; try discriminate.
  change (e_errs (ev_of g)) with 0. cbn [Z.eqb andb].
  apply forallb_forall. intros k _. apply andb_true_intro. split.
  - destruct (stably_registered (map ev_of (hist c)) (ev_of g) k) eqn:Es; [|reflexivity]. cbn [negb orb].
    unfold stably_registered in Es. apply existsb_exists in Es. destruct Es as (re & Hre & Hb).
    apply in_map_iff in Hre. destruct Hre as (r & <- & Hr).
    rewrite !andb_true_iff in Hb. destruct Hb as ((((Ha & Hb) & Hc) & Hd) & He).
    destruct (explained_in _ _ HI Hr) as (hr & Xr). unfold explained in Xr.
    cbn [ev_of e_kind e_coll e_ok e_res e_inv] in Ha, Hb, Hc, Hd.
    destruct (c_op r) as [k1|k1|] eqn:Ero; try discriminate.
    apply Z.eqb_eq in Hb. subst k1. rewrite Xr in Hc. rewrite Hc in Xr.
    cbn [ev_of e_names]. rewrite Xg.
    eapply (gather_contains_core c HI g _ r k Hg Xg Hr Ero Xr); [lia|].
    intros u Hu Hou. rewrite forallb_forall in He. specialize (He (ev_of u) (in_map ev_of _ _ Hu)).
    cbn [ev_of e_kind e_coll e_res e_inv] in He. rewrite Hou in He. lia.
  - cbn [ev_of e_names]. rewrite Xg.
    destruct (mem k (replay hg)) eqn:Em; [|reflexivity]. cbn [negb orb].
    destruct (gather_only_core c HI g _ k Hg Xg Em) as (r & Hr & Ho & _ & Hlt & _).
    unfold may_be_registered. apply existsb_exists. exists (ev_of r). split; [apply in_map; exact Hr|].
    cbn [ev_of e_kind e_coll e_inv e_res]. rewrite Ho. lia.
Qed.

(* holds in every reachable configuration, in particular in the quiescent ones (all_done), whose histories are
   the ones the harness records *)
Lemma gather_check_sound_on_model_lemma : forall (progs : list (list rop)) (sched : list Z) (n : Z),
  let c := run_sched rM (init_config rM [] progs) sched in
  gather_check n (events (hist c)) = true.
Proof. intros progs sched n c. apply gather_check_core. apply RInv_reachable. Qed.

(* ====================================================================== *)
(* 7. T5: no section ever blocks                                           *)
(* ====================================================================== *)

Lemma rstep_enabled s pc : exists s' nxt, rstep s pc = Some (s', nxt).
Proof. destruct pc as [k|k|k|]; cbn [rstep]; try destruct (mem k s); eauto. Qed.

Lemma forallb_false_nth {A} (f : A -> bool) (l : list A) : forallb f l = false ->
  exists i x, nth_error l i = Some x /\ f x = false.
Proof.
  induction l as [|a r IH]; cbn [forallb]; [discriminate|]. intros H.
  destruct (f a) eqn:Ea.
  - destruct (IH H) as (i & x & Hi & Hx). exists (S i), x. auto.
  - exists O, a. auto.
Qed.

Lemma sched_step_enabled (c : config rM) i t o l inv :
  nth_error (thr c) i = Some t -> t_cur t = Some (o, l, inv) ->
  exists c', sched_step rM c (Z.of_nat i) = Some c' /\ now c' = now c + 1.
Proof.
  intros Hi Hc. unfold sched_step. rewrite Nat2Z.id, Hi, Hc.
  destruct (rstep_enabled (sh c) l) as (s' & nxt & Hs).
  change (step rM (sh c) l) with (rstep (sh c) l). rewrite Hs.
  destruct nxt as [l'|r].
  - eexists. split; reflexivity.
  - destruct (advance rM (Z.of_nat i) (t_todo t) (t_idx t + 1) (now c + 1)) as [t' cs].
    eexists. split; reflexivity.
Qed.

Lemma no_deadlock_lemma : forall (progs : list (list rop)) (sched : list Z),
  let c := run_sched rM (init_config rM [] progs) sched in
  (forall s pc, step rM s pc <> None) /\
  (forall i t o l inv, nth_error (thr c) i = Some t -> t_cur t = Some (o, l, inv) ->
     exists c', sched_step rM c (Z.of_nat i) = Some c' /\ now c' = now c + 1) /\
  (all_done rM c = false -> exists tid c', sched_step rM c tid = Some c' /\ now c' = now c + 1).
Proof.
  intros progs sched c. split; [|split].
  - intros s pc. change (step rM s pc) with (rstep s pc). destruct (rstep_enabled s pc) as (s' & nxt & ->). discriminate.
  - intros i t o l inv. apply sched_step_enabled.
  - intros Hd. unfold all_done in Hd. apply forallb_false_nth in Hd. destruct Hd as (i & t & Hi & Ht).
    destruct (t_cur t) as [[[o l] inv]|] eqn:Hc; [|discriminate].
    destruct (sched_step_enabled c i t o l inv Hi Hc) as (c' & H1 & H2). exists (Z.of_nat i), c'. auto.
Qed.

(* ====================================================================== *)
(* 8. examples                                                             *)
(* ====================================================================== *)

(* Gather between the two sections of an Unregister: the snapshot still contains collector 1 *)
Definition ex_gather_between : config rM :=
  run_sched rM (init_config rM [] [[RRegister 1; RUnregister 1]; [RGather]]) [0; 0; 1; 0].
(* two racing Unregister 1: both check before either deletes, both report true *)
Definition ex_unreg_race : config rM :=
  run_sched rM (init_config rM [] [[RRegister 1; RUnregister 1]; [RUnregister 1]]) [0; 0; 1; 0; 1].
